/-
  The Builder entry route.  C01, C02, C03 and C18 quantify over "Builder call sequences"; the
  Model of the class is `DemesVerif/Model/Builder.lean` (`BuilderCall`, `Builder.run`,
  `Builder.resolve`, `Builder.outcomes`, `Builder.fromdict`), the declarative side is
  `DemesVerif/Spec/Builder.lean`.

  * C01  `builder_resolve_valid`
  * C02  `builder_doc`, `builder_equiv_dict` (+ `builder_run_callsOfDoc`, `builder_roundtrip_exact`,
         the counterexamples showing that each clause of `builderForm` is needed),
         `builder_none_is_absent` (+ `builder_none_kept`, `builder_none_hides_default_*`),
         `builder_infinity_string` (+ `builder_values_verbatim`), `builder_fromdict_is_dict`
  * C18  `builder_history`, `builder_history_stable`, `builder_fromdict_history`
  (C03 — rejection — needs no theorem of its own: by `builder_equiv_dict` and `builder_doc` the
  Builder route is the dict route on the dictionary `docOfCalls` describes, errors included.)
-/
import DemesVerif.Proofs.BuilderExamples
namespace Demes.Theorems
open Demes Demes.Obj Demes.Spec Demes.Spec.BuilderRoute Demes.Builder

/-! ## C01 -/

/-- Whenever a sequence of Builder calls followed by `resolve()` returns a graph, that graph
satisfies every invariant of the fully-resolved data model (`Spec.validGraph`, clauses V0–V13). -/
theorem builder_resolve_valid (calls : List BuilderCall) (g : Graph)
    (h : Builder.resolve calls = .ok g) : validGraph g = true :=
  Proofs.BuilderRoute.builder_resolve_valid calls g h

/-! ## C02 -/

/-- **The Builder only assembles a dictionary.**  After any sequence of calls the `data`
dictionary is exactly (key order included) the one the Spec describes by selection from the call
list: the header of the last constructor call (`time_units` first, default `"generations"`, then
the given fields), then one list per section that was used, in the order of first use, holding the
items of the `add_*` calls in call order. -/
theorem builder_doc (calls : List BuilderCall) : Builder.run calls = docOfCalls calls :=
  Proofs.BuilderRoute.builder_doc calls

/-- **The Builder route resolves like the dict route.**  For every document `d` in
Builder-expressible form (`builderForm`: only fields the Builder can write, `time_units` present,
no `null` where the Builder reads `None` as "not given", no string `"Infinity"` where the Builder
converts it, no empty `demes` list) entering `d` through Builder calls (`callsOfDoc`) and
resolving gives exactly what `Graph.fromdict(d)` gives: the same graph, or the same error. -/
theorem builder_equiv_dict (d : Obj) (h : builderForm d = true) :
    Builder.resolve (callsOfDoc d) = Demes.resolve (.obj d) :=
  Proofs.BuilderRoute.builder_equiv_dict h

/-- …and the dictionary it builds is `d` itself with its keys in the Builder's order (header
fields; `demes`, `migrations`, `pulses` if not empty; each item's fields in keyword order). -/
theorem builder_run_callsOfDoc (d : Obj) (h : builderForm d = true) :
    Builder.run (callsOfDoc d) = canonDoc d :=
  Proofs.BuilderRoute.run_callsOfDoc_canon h

/-- A Builder-expressible document written in the Builder's key order (without empty sections)
is rebuilt exactly. -/
theorem builder_roundtrip_exact (d : Obj) (h : builderForm d = true) (ho : builderOrdered d = true) :
    Builder.run (callsOfDoc d) = d :=
  Proofs.BuilderRoute.builder_roundtrip_exact h ho

/-- `Builder.fromdict(d).resolve()` is `Graph.fromdict(d)`. -/
theorem builder_fromdict_is_dict (d : Value) :
    Builder.outcomesFrom (Builder.fromdict d) [.resolve] = [Demes.resolve d] := rfl

/-! The clauses of `builderForm` cannot be dropped: outside it the routes differ. -/

/-- no `time_units`: `Graph.fromdict` rejects the document, the Builder route accepts it (the
constructor writes the default `"generations"`) -/
theorem builder_equiv_dict_counterexample :
    ∃ d : Obj, (Demes.resolve (.obj d)).toBool = false ∧ (Builder.resolve (callsOfDoc d)).toBool = true :=
  ⟨Proofs.BuilderRoute.exNoTimeUnits, by decide +kernel, by decide +kernel⟩

/-- an explicit `description: null` is rejected by `Graph.fromdict`; as a Builder argument `None`
means "not given" and the document is accepted -/
theorem builder_equiv_dict_null_counterexample :
    ∃ d : Obj, contains "time_units" d = true ∧
      (Demes.resolve (.obj d)).toBool = false ∧ (Builder.resolve (callsOfDoc d)).toBool = true :=
  ⟨Proofs.BuilderRoute.exNullDescription, rfl, by decide +kernel, by decide +kernel⟩

/-- a deme `start_time: "Infinity"` (string) is rejected by `Graph.fromdict` and accepted through
`add_deme`, which converts it -/
theorem builder_equiv_dict_infinity_counterexample :
    ∃ d : Obj, contains "time_units" d = true ∧
      (Demes.resolve (.obj d)).toBool = false ∧ (Builder.resolve (callsOfDoc d)).toBool = true :=
  ⟨Proofs.BuilderRoute.exInfinityInDict, rfl, by decide +kernel, by decide +kernel⟩

/-- `ancestors: null` under `defaults.deme.ancestors`: both routes accept, with different graphs
(in the dict the `null` hides the default; `add_deme(ancestors=None)` does not write the key, so
the default applies) -/
theorem builder_equiv_dict_null_default_counterexample :
    ∃ d : Obj,
      (Demes.resolve (.obj d)).toOption.map (fun g => g.demes.map (·.ancestors)) = some [[], []] ∧
      (Builder.resolve (callsOfDoc d)).toOption.map (fun g => g.demes.map (·.ancestors))
        = some [[], ["A"]] :=
  ⟨Proofs.BuilderRoute.exNullHidesDefault, by decide +kernel, by decide +kernel⟩

/-- `demes: []`: both routes reject, with different error classes (`ValueError` for the empty
list, `KeyError` for the key that `add_deme` never created) -/
theorem builder_equiv_dict_empty_demes_counterexample :
    ∃ d : Obj, Proofs.errKind? (Demes.resolve (.obj d)) = some .value ∧
      Proofs.errKind? (Builder.resolve (callsOfDoc d)) = some .key :=
  ⟨Proofs.BuilderRoute.exEmptyDemes, by decide +kernel, by decide +kernel⟩

/-- **`None` means "not given"** for every keyword whose default is `None`: replacing, in every
call, each such `None` argument by an omitted argument gives the same data dictionary. -/
theorem builder_none_is_absent (calls : List BuilderCall) :
    Builder.run (calls.map noneAsAbsent) = Builder.run calls :=
  Proofs.BuilderRoute.builder_none_is_absent calls

/-- …but **not** for `demes` / `source` / `dest` of `add_migration` (sentinel default): an
explicit `None` is stored in the migration, an omitted argument is not. -/
theorem builder_none_kept (rate source dest demes startTime endTime : Option Value) :
    lookup "demes" (migrationDict rate (some .null) source dest startTime endTime) = some .null
    ∧ lookup "demes" (migrationDict rate none source dest startTime endTime) = none
    ∧ lookup "source" (migrationDict rate demes (some .null) dest startTime endTime) = some .null
    ∧ lookup "source" (migrationDict rate demes none dest startTime endTime) = none
    ∧ lookup "dest" (migrationDict rate demes source (some .null) startTime endTime) = some .null
    ∧ lookup "dest" (migrationDict rate demes source none startTime endTime) = none :=
  Proofs.BuilderRoute.migrationDict_none_kept rate source dest demes startTime endTime

/-- What the stored `None` does when the migration is resolved: `Graph.fromdict` does not reject
it; the field counts as omitted **and** the `defaults.migration` value for it is not applied —
`add_migration(demes=None, …)` under defaults `D` resolves like `add_migration(…)` under `D`
without its `demes` entry. -/
theorem builder_none_hides_default_demes (D : Obj) (g : Graph)
    (rate source dest startTime endTime : Option Value) :
    resolveMigration D g (migrationDict rate (some .null) source dest startTime endTime)
      = resolveMigration (erase "demes" D) g (migrationDict rate none source dest startTime endTime) :=
  Proofs.BuilderRoute.builder_none_kept_demes D g rate source dest startTime endTime

theorem builder_none_hides_default_source (D : Obj) (g : Graph)
    (rate demes dest startTime endTime : Option Value) :
    resolveMigration D g (migrationDict rate demes (some .null) dest startTime endTime)
      = resolveMigration (erase "source" D) g (migrationDict rate demes none dest startTime endTime) :=
  Proofs.BuilderRoute.builder_none_kept_source D g rate demes dest startTime endTime

theorem builder_none_hides_default_dest (D : Obj) (g : Graph)
    (rate demes source startTime endTime : Option Value) :
    resolveMigration D g (migrationDict rate demes source (some .null) startTime endTime)
      = resolveMigration (erase "dest" D) g (migrationDict rate demes source none startTime endTime) :=
  Proofs.BuilderRoute.builder_none_kept_dest D g rate demes source startTime endTime

/-- so with a `defaults.migration.demes`, passing `demes=None` and omitting `demes` are
different models: omitted → the default `demes` joins the explicit `source`/`dest` and the
migration is rejected; `None` → an asymmetric migration A → B -/
theorem builder_none_vs_omitted_counterexample :
    (Builder.resolve (Proofs.BuilderRoute.sentinelCalls none)).toBool = false ∧
    (Builder.resolve (Proofs.BuilderRoute.sentinelCalls (some .null))).toOption.map
      (fun g => g.migrations.map (fun m => (m.source, m.dest))) = some [("A", "B")] :=
  ⟨by decide +kernel, by decide +kernel⟩

/-- `time_units=None` is stored too (and such a Builder never resolves: `time_units` must be a
string) -/
theorem builder_time_units_none_kept (description generationTime doi defaults metadata : Option Value) :
    lookup "time_units" (initData description (some .null) generationTime doi defaults metadata) = some .null
    ∧ lookup "time_units" (initData description none generationTime doi defaults metadata)
        = some (.str "generations") := by
  constructor <;> (rw [Proofs.BuilderRoute.initData_eq]; rfl)

/-- **`start_time="Infinity"`** in `add_deme` and `add_migration` is the number infinity: replacing
the string by the number in these two positions of every call gives the same data dictionary. -/
theorem builder_infinity_string (calls : List BuilderCall) :
    Builder.run (calls.map infinityAsNumber) = Builder.run calls :=
  Proofs.BuilderRoute.builder_infinity_string calls

/-- …and **only there**: in every other position a given value (not `None`) is stored as it is —
`end_time`, `rate`, a pulse's `time`, `epochs` (with whatever their fields hold), `defaults` — so
the string `"Infinity"` stays a string there. -/
theorem builder_values_verbatim (v : Value) (hv : v ≠ .null) :
    (∀ rate demes source dest startTime,
      lookup "end_time" (migrationDict rate demes source dest startTime (some v)) = some v)
    ∧ (∀ demes source dest startTime endTime,
      lookup "rate" (migrationDict (some v) demes source dest startTime endTime) = some v)
    ∧ (∀ sources dest proportions, lookup "time" (pulseDict sources dest proportions (some v)) = some v)
    ∧ (∀ name description ancestors proportions startTime defaults,
      lookup "epochs" (demeDict name description ancestors proportions startTime (some v) defaults) = some v)
    ∧ (∀ name description ancestors proportions startTime epochs,
      lookup "defaults" (demeDict name description ancestors proportions startTime epochs (some v)) = some v)
    ∧ (∀ description timeUnits generationTime doi metadata,
      lookup "defaults" (initData description timeUnits generationTime doi (some v) metadata) = some v) :=
  Proofs.BuilderRoute.builder_values_verbatim v hv

/-- a migration between two demes of infinite start time resolves with `start_time="Infinity"`;
the same string as `end_time`, or as the `time` of a pulse, or as the `start_time` given inside
`defaults.migration`, is rejected -/
theorem builder_infinity_elsewhere_counterexample :
    (Builder.resolve (Proofs.BuilderRoute.twoDemes ++ [.addMigration (some (.num (.fin (1/10))))
        (some (.list [.str "A", .str "B"])) none none (some (.str "Infinity")) none])).toBool = true ∧
    (Builder.resolve (Proofs.BuilderRoute.twoDemes ++ [.addMigration (some (.num (.fin (1/10))))
        (some (.list [.str "A", .str "B"])) none none none (some (.str "Infinity"))])).toBool = false ∧
    (Builder.resolve (Proofs.BuilderRoute.twoDemes ++ [.addPulse (some (.list [.str "A"]))
        (some (.str "B")) (some (.list [.num (.fin (1/10))])) (some (.str "Infinity"))])).toBool = false ∧
    (Builder.resolve (.init none none none none
        (some (.obj [("migration", .obj [("start_time", .str "Infinity")])])) none
      :: Proofs.BuilderRoute.twoDemes)).toBool = false :=
  ⟨by decide +kernel, by decide +kernel, by decide +kernel, by decide +kernel⟩

/-! ## C18 -/

/-- **Each `resolve` of a history returns `Graph.fromdict` of the data accumulated so far**: the
results of the `resolve` calls of a call sequence, in order, are the results of resolving the
prefixes of the sequence that end just before them. -/
theorem builder_history (calls : List BuilderCall) :
    Builder.outcomes calls = (resolvePoints calls).map (fun i => Builder.resolve (calls.take i)) :=
  Proofs.BuilderRoute.builder_history calls

/-- **Later calls do not change earlier results**: the results of a history extended by further
calls are the results of the history, followed by the results of the further calls run on the
data the history left. -/
theorem builder_history_stable (calls more : List BuilderCall) :
    Builder.outcomes (calls ++ more)
      = Builder.outcomes calls ++ Builder.outcomesFrom (.obj (Builder.run calls)) more :=
  Proofs.BuilderRoute.builder_history_stable calls more

/-- the same for a Builder made by `Builder.fromdict(data)` (any data, mapping or not) -/
theorem builder_fromdict_history (data : Value) (calls : List BuilderCall) :
    Builder.outcomesFrom (Builder.fromdict data) calls
      = (resolvePoints calls).map (fun i => Demes.resolve (Builder.runFrom data (calls.take i))) :=
  Proofs.BuilderRoute.builder_fromdict_history data calls

/-! ## Non-vacuity -/

section
open Proofs.BuilderRoute Proofs.C02

-- `builder_doc`: the example call sequence (a `None` for `doi`, for A's description, for B's
-- proportions, for D's defaults, for a migration's `end_time`; two `"Infinity"` strings; an
-- explicit `demes=None`; pulses added before migrations) builds exactly `exData`
example : Builder.run exCalls = exData := by decide +kernel
example : docOfCalls exCalls = exData := by decide +kernel
-- `builder_resolve_valid` / `builder_history`: it has two `resolve` calls, at positions 4 and 9;
-- both succeed, with 3 and 4 demes; the final graph has 3 migrations and a pulse, and is valid
example : resolvePoints exCalls = [4, 9] := by decide +kernel
example : (Builder.outcomes exCalls).map (fun r => r.toOption.map (fun g => g.demes.map (·.name)))
    = [some ["A", "B", "D"], some ["A", "B", "D", "C"]] := by decide +kernel
example : (Builder.resolve exCalls).toOption.map
    (fun g => (g.migrations.map (fun m => (m.source, m.dest, m.startTime, m.rate)), g.pulses.length))
    = some ([("A", "D", .inf, 1/1000), ("D", "A", .inf, 1/1000), ("A", "C", .fin 100, 1/100)], 1) := by
  decide +kernel
example : (Builder.resolve exCalls).toOption.map validGraph = some true := by decide +kernel
-- `builder_none_is_absent` / `builder_infinity_string` change these calls
example : (exCalls.map noneAsAbsent)[1]? = some (.addDeme (.str "A") none none none
    (some (.str "Infinity")) (some (.list [ep 1000])) none) := rfl
example : (exCalls.map infinityAsNumber)[1]? = some (.addDeme (.str "A") (some .null) none none
    (some (.num .pinf)) (some (.list [ep 1000])) none) := rfl
-- `builder_equiv_dict` / `builder_run_callsOfDoc`: a Builder-expressible document in another key
-- order, with an empty `migrations` list
example : builderForm exDoc = true := by decide +kernel
example : builderOrdered exDoc = false := by decide +kernel
example : Builder.run (callsOfDoc exDoc) = exDocOrdered := by decide +kernel
example : canonDoc exDoc = exDocOrdered := by decide +kernel
example : summary (Demes.resolve (.obj exDoc)) = summary (Builder.resolve (callsOfDoc exDoc))
    ∧ (summary (Demes.resolve (.obj exDoc))).isSome = true := by decide +kernel
-- `builder_roundtrip_exact`
example : builderForm exDocOrdered = true ∧ builderOrdered exDocOrdered = true := by decide +kernel
example : Builder.run (callsOfDoc exDocOrdered) = exDocOrdered := by decide +kernel
-- the data of the example calls is itself Builder-expressible and ordered … up to the section
-- order (`pulses` was used before `migrations`)
example : builderForm exData = true ∧ builderOrdered exData = false := by decide +kernel
-- `builder_fromdict_history`: on a non-mapping every `add_*` raises and changes nothing
example : Builder.runFrom (Builder.fromdict (.num (.fin 5))) twoDemes = .num (.fin 5)
    ∧ Builder.raises (.num (.fin 5)) twoDemes[0]! = true := by decide +kernel
-- on data whose `demes` is not a list `add_deme` raises and changes nothing
example : Builder.runFrom (.obj [("demes", .num (.fin 5))]) twoDemes = .obj [("demes", .num (.fin 5))]
    ∧ Builder.raises (.obj [("demes", .num (.fin 5))]) twoDemes[0]! = true := by decide +kernel
end

end Demes.Theorems
