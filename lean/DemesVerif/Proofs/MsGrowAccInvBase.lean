/-
  C09 §8, acceptance with exponential epochs — the invariant `AccInvV` through the event loop: the state in
  the middle of a time group (`Mid`: `MsAcc.Mid` with the symbolic epochs `EpochsWFV`).

  `MsAcc.EpKeep`, `MsAcc.GroupX`, `MsAcc.sumTo` do not mention sizes and are reused.
-/
import DemesVerif.Proofs.MsGrowAccDefs
import DemesVerif.Proofs.MsAccInvBase
namespace Demes.Proofs.MsGrow
open Demes Demes.Ms Demes.Spec Demes.Spec.MsSem Demes.Spec.C08 Demes.Proofs.FromMs
open Demes.Proofs.MsAcc (AncWF PulseWF EpKeep)

/-- **the Builder state in the middle of the time group at `T'`** (`s0`: the state at the start of the group,
`T`: the time of the previous group; `P j`: some size or growth option of the group names deme `j`) -/
structure Mid (P : Nat → Prop) (T T' : Q) (s0 s : BState) (g : GState) : Prop where
  n0le : s0.demes.length ≤ s.demes.length
  ep : ∀ (j : Nat) (d : BDeme), s.demes[j]? = some d → EpochsWFV T' d
  live : ∀ (j : Nat) (d : BDeme), s.demes[j]? = some d → s.joined.contains j = false →
    d.startTime = .inf ∧ d.ancestors = none ∧ d.proportions = none
  dead : ∀ (j : Nat) (d : BDeme), s.demes[j]? = some d → s.joined.contains j = true →
    s0.joined.contains j = false → T < T' ∧ d.startTime = .fin T' ∧ d.proportions = none ∧ EpKeep T' s0 j d
  keep : ∀ (j : Nat) (d : BDeme), s.demes[j]? = some d → P j ∨ EpKeep T' s0 j d
  zrow : ∀ (j : Nat), s0.numDemes ≤ j → ∀ k, lmGet g.lm j k = 0

end Demes.Proofs.MsGrow
