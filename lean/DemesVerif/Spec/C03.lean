/-
  Spec definitions for C03 — which documents are acceptable, written from the Demes
  specification and independent of the control flow of `resolve`:

  * `schemaOK d`   the *shape* of the document is acceptable: mappings and lists where the
                   specification wants them, only known fields, every `defaults` entry valid by
                   the rule of the field it is a default for (whether it is used or not);
  * `fill d`       the fully-resolved graph the fill-in rules of `Spec/C02.lean` prescribe, as a
                   function (`none` when a required field is missing or a value is not of the
                   kind its field wants);
  * `accepts d`    `schemaOK d`, `fill d = some g` and `validGraph g`.

  Conventions spelled out here because the real library has them:

  * a *number* is a `num` or a `bool` (Python's `bool` is an `int`; `true` is 1, `false` 0):
    `numOf`;
  * for the fields the library reads with `pop(k, None)` an explicit `null` counts as "not given"
    (`effectiveNN`), for the others it is a value (`effective`) and then of the wrong kind;
  * objects are association lists; documents coming from JSON / YAML / Python have pairwise
    distinct keys in every mapping: `Value.wf`.
-/
import DemesVerif.Spec.C02
import DemesVerif.Spec.Valid
namespace Demes

/-! ### well-formed documents: distinct keys in every mapping -/

mutual
/-- every mapping in the document has pairwise distinct keys -/
def Value.wf : Value → Bool
  | .null => true
  | .bool _ => true
  | .num _ => true
  | .str _ => true
  | .list xs => Value.wfL xs
  | .obj kvs => decide ((kvs.map (·.1)).Nodup) && Value.wfO kvs
def Value.wfL : List Value → Bool
  | [] => true
  | x :: xs => Value.wf x && Value.wfL xs
def Value.wfO : List (String × Value) → Bool
  | [] => true
  | (_, v) :: r => Value.wf v && Value.wfO r
end

namespace Spec
open Demes Demes.Obj

/-! ### reading values -/

/-- A value in a numeric position: a number, or a boolean (Python's `bool` is an `int`). -/
def numOf : Value → Option Num
  | .num n => some n
  | .bool b => some (.fin (if b then 1 else 0))
  | _ => none

/-- a finite number -/
def finOf (v : Value) : Option Q :=
  match numOf v with
  | some (.fin q) => some q
  | _ => none

/-- a time: a finite number or `+∞` -/
def timeOf (v : Value) : Option ETime :=
  match numOf v with
  | some (.fin q) => some (.fin q)
  | some .pinf => some .inf
  | _ => none

def strOf : Value → Option String
  | .str s => some s
  | _ => none

def listOf : Value → Option (List Value)
  | .list xs => some xs
  | _ => none

def objOf : Value → Option Obj
  | .obj kvs => some kvs
  | _ => none

/-- all elements read successfully, in order -/
def mapOpt {α β} (f : α → Option β) : List α → Option (List β)
  | [] => some []
  | x :: xs =>
    match f x, mapOpt f xs with
    | some y, some ys => some (y :: ys)
    | _, _ => none

def strsOf (v : Value) : Option (List String) := (listOf v).bind (mapOpt strOf)
def finsOf (v : Value) : Option (List Q) := (listOf v).bind (mapOpt finOf)
def objsOf (v : Value) : Option (List Obj) := (listOf v).bind (mapOpt objOf)

/-- an optional mapping-valued field: `{}` when absent -/
def sectionOf (o : Obj) (k : String) : Option Obj := objOf ((lookup k o).getD (.obj []))

/-! ### the fields of the specification (the same tables as the Model's, which are pinned to the
source: `Theorems.field_tables_agree` in `Theorems/C03.lean`) -/

def topFields : List String :=
  ["description", "time_units", "generation_time", "defaults", "doi", "metadata",
   "demes", "migrations", "pulses"]
def defaultsFields : List String := ["deme", "migration", "pulse", "epoch"]
def demeFields : List String :=
  ["description", "start_time", "ancestors", "proportions", "name", "defaults", "epochs"]
def demeDefaultsFields : List String := ["epoch"]
def epochFields : List String :=
  ["end_time", "start_size", "end_size", "size_function", "cloning_rate", "selfing_rate"]
def migrationFields : List String := ["demes", "source", "dest", "start_time", "end_time", "rate"]
def pulseFields : List String := ["sources", "dest", "time", "proportions"]

/-- the mapping has no field outside `allowed` -/
def onlyFields (allowed : List String) (o : Obj) : Bool := o.all (fun kv => allowed.contains kv.1)

/-! ### the value rules of the specification, on numbers -/

/-- `x > 0`; `+∞` allowed, NaN not -/
def numPos : Num → Bool
  | .fin q => decide (0 < q)
  | .pinf => true
  | _ => false
/-- `x ≥ 0`; `+∞` allowed, NaN not -/
def numNonNeg : Num → Bool
  | .fin q => decide (0 ≤ q)
  | .pinf => true
  | _ => false
/-- `0 < x < ∞` -/
def numPosFinite : Num → Bool
  | .fin q => decide (0 < q)
  | _ => false
/-- `0 ≤ x < ∞` -/
def numNonNegFinite : Num → Bool
  | .fin q => decide (0 ≤ q)
  | _ => false
/-- `0 ≤ x ≤ 1` -/
def numUnit : Num → Bool
  | .fin q => decide (0 ≤ q) && decide (q ≤ 1)
  | _ => false
/-- `0 < x ≤ 1` -/
def numUnitExLo : Num → Bool
  | .fin q => decide (0 < q) && decide (q ≤ 1)
  | _ => false

/-- a number satisfying `p` -/
def isNum (p : Num → Bool) (v : Value) : Bool :=
  match numOf v with
  | some n => p n
  | none => false

def isString (v : Value) : Bool := (strOf v).isSome

/-- a deme name: a string that is an identifier -/
def isIdent (v : Value) : Bool :=
  match v with
  | .str s => isIdentifier s
  | _ => false

/-- a list all of whose elements satisfy `p` -/
def isListOf (p : Value → Bool) (v : Value) : Bool :=
  match v with
  | .list xs => xs.all p
  | _ => false

/-- a non-empty list all of whose elements satisfy `p` -/
def isNonEmptyListOf (p : Value → Bool) (v : Value) : Bool :=
  match v with
  | .list xs => !xs.isEmpty && xs.all p
  | _ => false

/-! ### validity of a `defaults` entry (used or not) -/

def validDemeDefault (k : String) (v : Value) : Bool :=
  if k = "description" then isString v
  else if k = "start_time" then isNum numPos v
  else if k = "ancestors" then isListOf isIdent v
  else if k = "proportions" then isListOf (isNum numUnitExLo) v
  else false

def validMigrationDefault (k : String) (v : Value) : Bool :=
  if k = "rate" then isNum numUnit v
  else if k = "start_time" then isNum numNonNeg v
  else if k = "end_time" then isNum numNonNegFinite v
  else if k = "source" then isIdent v
  else if k = "dest" then isIdent v
  else if k = "demes" then isListOf isIdent v
  else false

def validPulseDefault (k : String) (v : Value) : Bool :=
  if k = "sources" then isNonEmptyListOf isIdent v
  else if k = "dest" then isIdent v
  else if k = "time" then isNum numPosFinite v
  else if k = "proportions" then
    isNonEmptyListOf (isNum numUnitExLo) v &&
      (match finsOf v with
       | some qs => decide (qsumS qs ≤ 1)
       | none => false)
  else false

def validEpochDefault (k : String) (v : Value) : Bool :=
  if k = "end_time" then isNum numNonNegFinite v
  else if k = "start_size" then isNum numPosFinite v
  else if k = "end_size" then isNum numPosFinite v
  else if k = "selfing_rate" then isNum numUnit v
  else if k = "cloning_rate" then isNum numUnit v
  else if k = "size_function" then isString v
  else false

/-- every entry of the mapping is a known field with a valid value -/
def validFields (valid : String → Value → Bool) (o : Obj) : Bool := o.all (fun kv => valid kv.1 kv.2)

/-! ### the shape of a document -/

/-- field `k` is absent, or its value satisfies `p` -/
def optField (o : Obj) (k : String) (p : Value → Bool) : Bool :=
  match lookup k o with
  | none => true
  | some v => p v

/-- field `k` is present and its value satisfies `p` -/
def reqField (o : Obj) (k : String) (p : Value → Bool) : Bool :=
  match lookup k o with
  | none => false
  | some v => p v

/-- a mapping satisfying `p` -/
def isObjWith (p : Obj → Bool) (v : Value) : Bool :=
  match v with
  | .obj o => p o
  | _ => false

/-- field `k` is absent, or a mapping satisfying `p` -/
def optSection (o : Obj) (k : String) (p : Obj → Bool) : Bool := optField o k (isObjWith p)

/-- field `k` is absent, or a list of mappings satisfying `p` -/
def optObjList (o : Obj) (k : String) (p : Obj → Bool) : Bool :=
  optField o k (isListOf (isObjWith p))

/-- one entry of `demes`: has a `name`, only known fields, `defaults` a mapping with only an
`epoch` section whose entries are valid, `epochs` (if present) a non-empty list of mappings
with only known fields -/
def demeSchemaOK (dd : Obj) : Bool :=
  (lookup "name" dd).isSome
  && onlyFields demeFields dd
  && optSection dd "defaults" (fun ld =>
      onlyFields demeDefaultsFields ld && optSection ld "epoch" (validFields validEpochDefault))
  && optField dd "epochs" (isNonEmptyListOf (isObjWith (onlyFields epochFields)))

def schemaOK (d : Value) : Bool :=
  match d with
  | .obj data =>
    onlyFields topFields data
    && optSection data "defaults" (fun df =>
        onlyFields defaultsFields df
        && optSection df "deme" (validFields validDemeDefault)
        && optSection df "migration" (validFields validMigrationDefault)
        && optSection df "pulse" (validFields validPulseDefault)
        && optSection df "epoch" (validFields validEpochDefault))
    && (lookup "time_units" data).isSome
    && reqField data "demes" (isNonEmptyListOf (isObjWith demeSchemaOK))
    && optObjList data "migrations" (onlyFields migrationFields)
    && optObjList data "pulses" (onlyFields pulseFields)
  | _ => false

/-! ### the fill-in rules as a function -/

/-- graph header: `description` defaults to `""`, `doi` to `[]`, `metadata` to `{}`,
`generation_time` (a `null` counting as omitted) to 1 when the time units are generations and
is required otherwise -/
def fillHeader (data : Obj) : Option Graph := do
  let description ← strOf ((lookup "description" data).getD (.str ""))
  let timeUnits ← (lookup "time_units" data).bind strOf
  let generationTime ←
    match notNull (lookup "generation_time" data) with
    | some v => finOf v
    | none => if timeUnits = "generations" then some 1 else none
  let doi ← strsOf ((lookup "doi" data).getD (.list []))
  let metadata ← objOf ((lookup "metadata" data).getD (.obj []))
  pure { description, timeUnits, generationTime, doi, metadata,
         demes := [], migrations := [], pulses := [], index := [] }

/-- one epoch: the raw values by `specEpochFields`, read as finite numbers; the size function by
`specSizeFunction`; the start time by `specEpochStart` -/
def fillEpoch (demeStart : ETime) (prev : Option Epoch) (isLast : Bool) (e demeLevel topLevel : Obj) :
    Option Epoch := do
  let raw ← specEpochFields prev isLast e demeLevel topLevel
  let endTime ← finOf raw.endTime
  let startSize ← finOf raw.startSize
  let endSize ← finOf raw.endSize
  let sizeFunction ← specSizeFunction raw.sizeFunction startSize endSize
  let selfingRate ← finOf raw.selfing
  let cloningRate ← finOf raw.cloning
  pure { startTime := specEpochStart demeStart prev, endTime, startSize, endSize, sizeFunction,
         selfingRate, cloningRate }

/-- the epochs of a deme, each after the resolved one before it -/
def fillEpochs (demeStart : ETime) (demeLevel topLevel : Obj) :
    Option Epoch → List Obj → Option (List Epoch)
  | _, [] => some []
  | prev, e :: es =>
    match fillEpoch demeStart prev es.isEmpty e demeLevel topLevel with
    | none => none
    | some ep =>
      match fillEpochs demeStart demeLevel topLevel (some ep) es with
      | none => none
      | some eps => some (ep :: eps)

/-- one entry of `demes`, in a document with `defaults.deme = DD` and `defaults.epoch = GE`,
after the demes of `g`: header fields in force (explicit, else `DD`), start time by
`specStartTime`, ancestors by `specAncestors`, proportions by `specProportions`, epochs (one
empty epoch when `epochs` is absent) under the deme-level and the top-level `defaults.epoch` -/
def fillDeme (DD GE : Obj) (g : Graph) (dd : Obj) : Option Deme := do
  let name ← (lookup "name" dd).bind strOf
  let description ← strOf ((effective dd DD [] "description").getD (.str ""))
  let ancestors ← strsOf (specAncestors (effectiveNN dd DD [] "ancestors"))
  let startTime ← (specStartTime g (effectiveNN dd DD [] "start_time") ancestors).bind timeOf
  let proportions ← finsOf (specProportions (effectiveNN dd DD [] "proportions") ancestors)
  let ld ← sectionOf dd "defaults"
  let L ← sectionOf ld "epoch"
  let es ← match lookup "epochs" dd with
    | none => some [[]]
    | some v => objsOf v
  let epochs ← fillEpochs startTime L GE none es
  pure { name, description, startTime, ancestors, proportions, epochs }

/-- the graph with one more deme, the name index extended accordingly -/
def addDeme (g : Graph) (d : Deme) : Graph :=
  { g with demes := g.demes ++ [d], index := g.index ++ [(d.name, g.demes.length)] }

def fillDemes (DD GE : Obj) : Graph → List Obj → Option Graph
  | g, [] => some g
  | g, dd :: rest =>
    match fillDeme DD GE g dd with
    | none => none
    | some d => fillDemes DD GE (addDeme g d) rest

/-- the migration for the ordered pair `(source, dest)`: a bound not in force is that end of the
pair's coexistence interval -/
def fillMigrationPair (g : Graph) (rate : Q) (startTime endTime : Option Value)
    (sd : String × String) : Option Migration := do
  let s ← g.deme? sd.1
  let d ← g.deme? sd.2
  let startTime ← match startTime with
    | some v => timeOf v
    | none => some (coexist s d).2
  let endTime ← match endTime with
    | some v => finOf v
    | none => some (coexist s d).1
  pure { source := sd.1, dest := sd.2, startTime, endTime, rate }

/-- one entry of `migrations` (fields in force: explicit, else `defaults.migration = MD`):
either `demes` (two or more names; one migration per ordered pair, `specSymmetricExpansion`) or
`source` and `dest` -/
def fillMigration (MD : Obj) (g : Graph) (m : Obj) : Option (List Migration) := do
  let rate ← (effective m MD [] "rate").bind finOf
  let pairs ←
    match effectiveNN m MD [] "demes", effectiveNN m MD [] "source", effectiveNN m MD [] "dest" with
    | some ds, none, none =>
      (strsOf ds).bind (fun names =>
        if names.length < 2 then none else some (specSymmetricExpansion names))
    | none, some s, some d =>
      (match strOf s, strOf d with
       | some s, some d => some [(s, d)]
       | _, _ => none)
    | _, _, _ => none
  mapOpt (fillMigrationPair g rate (effectiveNN m MD [] "start_time")
    (effectiveNN m MD [] "end_time")) pairs

/-- one entry of `pulses` (fields in force: explicit, else `defaults.pulse = PD`) -/
def fillPulse (PD : Obj) (p : Obj) : Option Pulse := do
  let sources ← (effective p PD [] "sources").bind strsOf
  let dest ← (effective p PD [] "dest").bind strOf
  let time ← (effective p PD [] "time").bind finOf
  let proportions ← (effective p PD [] "proportions").bind finsOf
  pure { sources, dest, time, proportions }

/-- put `x` after every element already placed whose key is at least `key x` -/
def placeAfterOlder {α} (key : α → Q) (x : α) (acc : List α) : List α :=
  acc.takeWhile (fun y => decide (key x ≤ key y)) ++ x :: acc.dropWhile (fun y => decide (key x ≤ key y))

/-- stable sort by descending key: take the elements in the given order and put each one after
all elements already placed that are at least as old -/
def sortDescStable {α} (key : α → Q) (xs : List α) : List α :=
  xs.foldl (fun acc x => placeAfterOlder key x acc) []

/-- an optional list-of-mappings field: `[]` when absent -/
def objListOf (o : Obj) (k : String) : Option (List Obj) :=
  match lookup k o with
  | none => some []
  | some v => objsOf v

/-- **The resolved graph prescribed by the specification's fill-in rules.** -/
def fill (d : Value) : Option Graph := do
  let data ← objOf d
  let defaults ← sectionOf data "defaults"
  let DD ← sectionOf defaults "deme"
  let MD ← sectionOf defaults "migration"
  let PD ← sectionOf defaults "pulse"
  let GE ← sectionOf defaults "epoch"
  let g0 ← fillHeader data
  let demes ← (lookup "demes" data).bind objsOf
  let g1 ← fillDemes DD GE g0 demes
  let migs ← objListOf data "migrations"
  let ms ← mapOpt (fillMigration MD g1) migs
  let pulses ← objListOf data "pulses"
  let ps ← mapOpt (fillPulse PD) pulses
  pure { g1 with migrations := ms.flatten, pulses := sortDescStable (fun p : Pulse => p.time) ps }

/-- **The documents the specification accepts.** -/
def accepts (d : Value) : Prop :=
  schemaOK d = true ∧ ∃ g, fill d = some g ∧ validGraph g = true

/-- `accepts`, executable (see `Proofs.Accepts.accepts_iff`) -/
def acceptsB (d : Value) : Bool :=
  schemaOK d && (match fill d with
    | some g => validGraph g
    | none => false)

/-- the document has no `defaults`, neither at the top level nor in any deme -/
def noDefaults (d : Value) : Bool :=
  match d with
  | .obj data =>
    !(contains "defaults" data) &&
      (match lookup "demes" data with
       | some (.list ds) => ds.all (fun v => match v with
          | .obj dd => !(contains "defaults" dd)
          | _ => true)
       | _ => true)
  | _ => true

end Spec
end Demes
