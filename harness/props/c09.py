"""C09 — graph -> ms -> graph preserves the model; printed option strings parse back."""
from __future__ import annotations

import json
import math
from collections import Counter
from fractions import Fraction

import demes.ms as dms

from props.ms_common import *  # noqa: F401,F403
from props import ms_common as M

RULE = ("(A) ms-expressible valid graphs from the boundary-directed generator (as in C07, incl. redundant epoch boundaries, "
        "zero-rate migrations, pulses of proportion 1) x N0 in {1, 2, 64, 1/4}: from_ms(to_ms(g, N0), N0, deme_names) must "
        "succeed and denote g's demography; (B) every option record class x parameter grids (dyadic, zero, negative, 1e-12, "
        "1e12, 1/3): str(record) is parsed back with the code's own parser and compared field by field, and with the "
        "Model's printer / parser; a case is one graph or one record; non-trivial = more than one deme / a negative or "
        "non-dyadic parameter")
ASSUMPTIONS = [
    "round trip compared semantically (graphSem of both graphs, lifetimes of the original), sizes and growth rates at the "
    "precision of the printed numbers (negative growth rates are printed with 10 decimals)",
    "option values: exact for non-negative numbers, |difference| <= 5e-11 for negative ones (the statement's ten decimals)",
    "the Model's printer is compared on the token structure (flag chosen by t > 0, arity, indices, exact values on the "
    "dyadic grid); how a double is rendered (str / '.10f') is float residue observed on the real strings only",
]
EXPLANATION = ("Theorems print_parse_option_* (every option record prints to a string that parses back), toMs_msSem_bridge and the "
               "composed round-trip refinement ms_roundtrip_sem_tame / _norm (constant-size graphs; acceptance by from_ms a "
               "hypothesis, F6) over the Lean Model; round trip observed on the real code through the independent graphSem; "
               "print -> parse observed on the real code and tied to the Model's Event.print / parseKnownArgs.")


def repro_rt(doc, N0):
    return ("/venv/bin/python -c \"import demes, math; inf=math.inf; "
            f"g=demes.Graph.fromdict({doc!r}); c=demes.to_ms(g, N0={float(N0)!r}); print(c); "
            f"print(demes.from_ms(c, N0={float(N0)!r}, deme_names=[d.name for d in g.demes]))\"")


def round_trips(ctx, items, stats):
    reqs, meta = [], []
    for doc, g, N0 in items:
        case = {"document": doc, "N0": M.num_str(N0)}
        feats = M.graph_features(g)
        ctx.count(case, len(g.demes) > 1 or "growth" in feats, tags=feats + ["roundtrip", "N0=" + M.num_str(N0)])
        names = [d.name for d in g.demes]
        try:
            cmd = demes.to_ms(g, N0=float(N0))
        except Exception as e:  # noqa: BLE001
            ctx.violation("to_ms: an ms-expressible graph was refused", case, detail={"error": [type(e).__name__, str(e)[:100]]},
                          python=repro_rt(doc, N0))
            continue
        try:
            g2 = demes.from_ms(cmd, N0=float(N0), deme_names=names)
        except Exception as e:  # noqa: BLE001
            shape = " [pulse of proportion 1]" if "pulse_proportion_1" in feats else ""
            ctx.violation("round trip: from_ms(to_ms(g)) raises" + shape, case,
                          detail={"command": cmd, "error": [type(e).__name__, str(e)[:100]]}, python=repro_rt(doc, N0))
            stats["roundtrip_raises"] += 1
            continue
        if g2.time_units != "generations":
            ctx.violation("round trip: result is not in generations", case, python=repro_rt(doc, N0))
        meta.append((case, doc, g, N0, cmd, len(reqs)))
        reqs.append({"op": "graph_sem", "graph": enc(g.asdict()), "names": names})
        reqs.append({"op": "graph_sem", "graph": enc(g2.asdict()), "names": names})
    reps = ctx.driver.batch(reqs)
    for case, doc, g, N0, cmd, k in meta:
        a, b = reps[k], reps[k + 1]
        ctx.compared += 1
        if "ok" not in a or "ok" not in b:
            ctx.violation("round trip: result has no demography under graphSem", case, detail={"original": a.get("msg"), "result": b.get("msg")},
                          python=repro_rt(doc, N0))
            continue
        size_rel, g_abs = M.printed_tolerances(N0, M.graph_tmax(g))
        why = M.cmp_sem(M.sem_decode(b["ok"]), M.sem_decode(a["ok"]), size_rel=size_rel, growth_abs=g_abs,
                        what=("round trip", "original"), restrict=True, numeric_sizes=True)
        if why:
            shape = " [pulse of proportion 1]" if "pulse_proportion_1" in M.graph_features(g) else ""
            ctx.violation("round trip: from_ms(to_ms(g)) denotes a different demography" + shape + ": " + why.split(":")[0], case,
                          detail={"command": cmd, "difference": why}, python=repro_rt(doc, N0))
        else:
            stats["roundtrip_agree"] += 1


# ----------------------------------------------------------------------------- option records

T_VALUES = [0, 0.125, 1.0, 2.5, 1e-12, 1e12, 1 / 3]
A_VALUES = [0, 0.5, -0.5, 2.0, -2.0, 1e-12, -1e-12, 1e12, -1e12, -1e16, -2.5e17, 1e16, -1e22, -9999999999999998.0, 1 / 3, -1 / 3, -0.0866433976, 123456.789, -123456.789]
X_VALUES = [0, 0.25, 1.0, 3.0, 1e-12, 1e12, 1 / 3]
P_VALUES = [0, 0.125, 0.5, 1.0, 1 / 3, 1e-12]
I_VALUES = [1, 2, 10]


def records(rng, thorough):
    """(kind, field dict, constructor thunk)"""
    out = []
    pick = (lambda xs: xs) if thorough else (lambda xs: rng.sample(xs, min(len(xs), 4)))
    for t in pick(T_VALUES):
        for a in pick(A_VALUES):
            out.append(("GrowthRateChange", dict(t=t, alpha=a), lambda t=t, a=a: dms.GrowthRateChange(t, a)))
            for i in pick(I_VALUES)[:2]:
                out.append(("PopulationGrowthRateChange", dict(t=t, i=i, alpha=a), lambda t=t, i=i, a=a: dms.PopulationGrowthRateChange(t, i, a)))
        for x in pick(X_VALUES):
            out.append(("SizeChange", dict(t=t, x=x), lambda t=t, x=x: dms.SizeChange(t, x)))
            out.append(("MigrationRateChange", dict(t=t, x=x), lambda t=t, x=x: dms.MigrationRateChange(t, x)))
            for i in pick(I_VALUES)[:2]:
                out.append(("PopulationSizeChange", dict(t=t, i=i, x=x), lambda t=t, i=i, x=x: dms.PopulationSizeChange(t, i, x)))
                j = rng.choice(I_VALUES)
                out.append(("MigrationMatrixEntryChange", dict(t=t, i=i, j=j, rate=x),
                            lambda t=t, i=i, j=j, x=x: dms.MigrationMatrixEntryChange(t, i, j, x)))
        for p in pick(P_VALUES):
            i = rng.choice(I_VALUES)
            out.append(("Split", dict(t=t, i=i, p=p), lambda t=t, i=i, p=p: dms.Split(t, i, p)))
        i, j = rng.choice(I_VALUES), rng.choice(I_VALUES)
        out.append(("Join", dict(t=t, i=i, j=j), lambda t=t, i=i, j=j: dms.Join(t, i, j)))
        for n in (1, 2, 3):
            vec = [str(rng.choice([0.0, 0.25, 1.0, 0.5])) if a != b or rng.random() < 0.3 else "x" for a in range(n) for b in range(n)]
            out.append(("MigrationMatrixChange", dict(t=t, npop=n, mm_vector=vec),
                        lambda t=t, n=n, vec=vec: dms.MigrationMatrixChange(t, n, list(vec))))
    for n in (1, 2, 3):
        for rate in (0, 0.5, 1e-12):
            smp = [rng.choice([0, 1, 5]) for _ in range(n)]
            out.append(("Structure", dict(npop=n, n=[str(s) for s in smp], rate=rate),
                        lambda n=n, smp=smp, rate=rate: dms.Structure.from_nargs(n, *(smp + ([rate] if rate else [])))))
    return out


def dyadic(x):
    if isinstance(x, (list, str)):
        return True
    f = Fraction(float(x))
    return f.denominator <= 2 ** 20 and abs(f) < 2 ** 40


def fields_of(rec):
    d = {}
    for k in ("t", "alpha", "i", "j", "x", "rate", "p", "npop", "n", "mm_vector"):
        if hasattr(rec, k):
            d[k] = getattr(rec, k)
    return d


def same_value(a, b):
    if isinstance(a, list) or isinstance(b, list):
        return [str(x) for x in a] == [str(x) for x in b]
    if isinstance(a, int) and isinstance(b, int):
        return a == b
    a, b = float(a), float(b)
    if a >= 0:
        return a == b
    return abs(a - b) <= 5e-11


def option_records(ctx, stats, thorough):
    recs = records(ctx.rng, thorough)
    reqs, meta = [], []
    for kind, fields, thunk in recs:
        case = {"record": kind, "fields": {k: (v if isinstance(v, (list, int)) else repr(float(v))) for k, v in fields.items()}}
        nontrivial = any(isinstance(v, float) and (v < 0 or not dyadic(v)) for v in fields.values())
        ctx.count(case, nontrivial, tags=["record:" + kind])
        py = f"/venv/bin/python -c \"import demes.ms as m; r=m.{kind}(...); s=str(r); print(s); print(m.build_parser().parse_args(s.split()))\"  # fields {case['fields']}"
        try:
            rec = thunk()
            s = str(rec)
        except Exception as e:  # noqa: BLE001
            ctx.violation(f"option record {kind}: cannot be built / printed", case, detail={"error": [type(e).__name__, str(e)[:100]]}, python=py)
            continue
        toks = s.split()
        # ---- the property on the code: print -> the code's own parser -> same kind / indices / values
        try:
            ns = dms.build_parser().parse_args(toks)
            got = [ns.structure] if kind == "Structure" else (list(ns.initial_state) + list(ns.demographic_events))
            if len(got) != 1 or got[0] is None:
                raise ValueError(f"{len(got)} options parsed")
            back = got[0]
            if kind == "MigrationMatrixChange":
                _ = back.M
        except Exception as e:  # noqa: BLE001
            shape = " [-ma prints its npop, which the parser reads as a matrix entry]" if toks and toks[0] == "-ma" else ""
            ctx.violation(f"print/parse: the printed {kind} option does not parse back" + shape, case,
                          detail={"printed": s, "error": [type(e).__name__, str(e)[:100]]}, python=py)
            stats["print_parse_fail"] += 1
            continue
        if type(back).__name__ != kind:
            ctx.violation(f"print/parse: the printed {kind} option parses back as {type(back).__name__}", case, detail={"printed": s}, python=py)
            continue
        want, have = fields_of(rec), fields_of(back)
        if kind == "MigrationMatrixChange":
            want, have = dict(t=rec.t, npop=rec.npop, M=str(rec.M)), dict(t=back.t, npop=back.npop, M=str(back.M))
        bad = [k for k in want if k not in have or not same_value(want[k], have[k])] if kind != "MigrationMatrixChange" else \
              [k for k in want if want[k] != have[k]]
        if bad:
            ctx.violation(f"print/parse: the printed {kind} option parses back with different {bad[0]}", case,
                          detail={"printed": s, "want": {k: str(v) for k, v in want.items()}, "have": {k: str(v) for k, v in have.items()}}, python=py)
            continue
        stats["print_parse_ok"] += 1
        # ---- Model: printer structure and parser
        if all(dyadic(v) for v in fields.values()):
            rj = {"kind": kind}
            for k, v in fields.items():
                rj[k] = v if isinstance(v, (list, int)) and not isinstance(v, bool) and k in ("i", "j", "npop", "n", "mm_vector") else M.num_str(v)
            meta.append((case, kind, s, rec, len(reqs)))
            reqs.append({"op": "print_option", "record": rj})
            reqs.append({"op": "parse_option", "tokens": toks})
    reps = ctx.driver.batch(reqs)
    for case, kind, s, rec, k in meta:
        pr, pa = reps[k], reps[k + 1]
        ctx.compared += 1
        if "ok" not in pr:
            ctx.disagreement("print_option", case, s, pr)
        else:
            why = M.cmp_to_ms_tokens(s, pr["ok"])
            if why:
                ctx.disagreement("print_option", case, s, {"difference": why, "model": pr["ok"]})
        if "ok" not in pa:
            ctx.disagreement("parse_option", case, s, pa)
            continue
        got = pa["ok"]
        recs_m = ([got["structure"]] if got["structure"] else []) + got["initial_state"] + got["demographic_events"]
        if len(recs_m) != 1 or got["unknown"]:
            ctx.disagreement("parse_option", case, s, got)
            continue
        m = recs_m[0]
        ok = m["kind"] == kind
        for f in ("t", "alpha", "x", "rate", "p"):
            if f in m and hasattr(rec, f):
                # compare with the value the code's parser would read from the printed string
                ok = ok and dec(m[f]) == Fraction(float(getattr(rec, f))) or (float(getattr(rec, f)) < 0 and abs(float(dec(m[f])) - float(getattr(rec, f))) <= 5e-11)
        for f in ("i", "j", "npop"):
            if f in m and hasattr(rec, f) and not (kind == "MigrationMatrixChange" and s.startswith("-ma")):
                ok = ok and m[f] == getattr(rec, f)
        if not ok:
            ctx.disagreement("parse_option", case, s, m)


def run(ctx):
    stats = Counter()
    thorough = ctx.tier != "quick"
    option_records(ctx, stats, thorough)
    target = 900 if not thorough else 5000
    done = 0
    while done < target and ctx.time_left() > (8 if not thorough else 40):
        items = []
        while len(items) < 120:
            doc, g = M.gen_ms_graph(ctx.rng, max_demes=8 if thorough else 6, expressible=True, stats=stats)
            items.append((doc, g, ctx.rng.choice(M.N0S)))
        round_trips(ctx, items, stats)
        done += len(items)
    ctx.extra["ms_roundtrip_stats"] = dict(stats)


def replay(ctx, payload):
    inp = payload["input"]
    if "document" in inp:
        g = demes.Graph.fromdict(inp["document"])
        n0 = float(Fraction(inp["N0"]))
        c = demes.to_ms(g, N0=n0)
        print("to_ms:", c)
        try:
            print(demes.from_ms(c, N0=n0, deme_names=[d.name for d in g.demes]))
        except Exception as e:  # noqa: BLE001
            print("from_ms raised", type(e).__name__, e)
    else:
        print(json.dumps(payload, indent=1)[:3000])
    return 0
