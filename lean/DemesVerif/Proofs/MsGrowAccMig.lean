/-
  C09 §8, acceptance with exponential epochs — the migration part: the invariant `MsAcc.MigWF` of the matrix
  history holds of the Builder state at the end of the event loop of `from_ms` on the command `to_ms` emits
  for a graph with exponential epochs (`Proofs/MsAccMig.lean` without `ConstSizes`), and no deme without a
  start time has a growth rate in force (`growthClosed_finalEvsV`).
-/
import DemesVerif.Proofs.MsAccMig
import DemesVerif.Proofs.MsGrowAccMigBridge
import DemesVerif.Proofs.MsGrowAccDefs
import DemesVerif.Proofs.FromMsPostInv
import DemesVerif.Proofs.ToMsSemPops2
set_option linter.unusedSimpArgs false
set_option linter.unusedVariables false
namespace Demes.Proofs.MsGrow
open Demes Demes.Ms Demes.Spec Demes.Spec.C07 Demes.Spec.C09 Demes.Proofs.RV Demes.Proofs.ToMs
open Demes.Proofs.FromMs
open Demes.Spec.C08 (ArgsAgree mmRateAt bEndTime)
open Demes.Proofs.MsAcc (mmRateAt_isSome qsumS_map_mul ingressRow rateQ MigWF gRate gRate_sum gRate_out gRate_nonneg
  gRate_ne_zero gRate_le_one ingress_ok ExactIngress exactIngress_all)

/-! ### the closed form of the row sums -/

section
variable {g : Graph} (c : Clauses g) (hx : MsExpressible g = true) {N0 : Q} (hN : 0 < N0)
  (gv : Growth → Q) (hz : gv Growth.zero = 0)
  {samples : Option (List Int)} {args : Args} {s : BState}
  (ha : ArgsAgree args (prOfV gv (headerOf g samples) (finalEvs g N0))) (hb : buildState args N0 = .ok s)
include c hx hN hz ha hb

/-- the row of rates into deme `j` in force at `t` -/
theorem ingressRow_finalEvsV (j : Nat) (t : Q) :
    ingressRow s j t = ((List.range s.numDemes).filter (fun k => k != j)).map
      (fun k => 4 * N0 * (if 0 ≤ t then gRate g j k t else 0)) := by
  unfold ingressRow
  apply List.map_congr_left
  intro k hk
  have hkj : j ≠ k := by
    have := (List.mem_filter.1 hk).2
    simp only [bne_iff_ne, ne_eq] at this
    exact fun h => this h.symm
  rw [mmRateAt_finalEvsV c hx hN gv hz ha hb hkj t]
  by_cases ht : 0 ≤ t
  · simp only [if_pos ht, Option.getD_some, rateQ]
  · simp only [if_neg ht, Option.getD_none, rateQ, Rat.mul_zero]

/-- **the total rate into deme `j` in force at `t`** is `4·N0` times the graph's total ingress into deme
`j` at `t` (for `t ≥ 0` and `j` a deme of the graph), and `0` otherwise -/
theorem ingressRow_sumV (j : Nat) (t : Q) :
    qsumS (ingressRow s j t) = 4 * N0 * (match g.demes[j]? with
      | some dj => if 0 ≤ t then ingressAt g dj.name t else 0
      | none => 0) := by
  rw [ingressRow_finalEvsV c hx hN gv hz ha hb, qsumS_map_mul]
  congr 1
  obtain ⟨_, _, hnd⟩ := mm_shapeV c hx hN gv hz ha hb
  by_cases ht : 0 ≤ t
  · simp only [if_pos ht]
    cases hj : g.demes[j]? with
    | some dj => exact gRate_sum c hj hnd t
    | none =>
      apply qsumS_map_zero
      intro k _
      exact gRate_out (Or.inl (List.getElem?_eq_none_iff.1 hj)) t
  · simp only [if_neg ht]
    have : qsumS (((List.range s.numDemes).filter (fun k => k != j)).map (fun _ => (0 : Q))) = 0 :=
      qsumS_map_zero _ _ (fun _ _ => rfl)
    rw [this]
    split <;> rfl

/-! ### the invariant -/

theorem migWF_coreV :
    s.mmList.length = s.mmEndTimes.length ∧ (∀ m ∈ s.mmList, Dim s.numDemes m)
    ∧ s.mmEndTimes.Pairwise (fun a b => b < a) ∧ (∀ e ∈ s.mmEndTimes, 0 ≤ e)
    ∧ (∀ j k t r, j ≠ k → mmRateAt s.mmList s.mmEndTimes j k t = some r → ∃ q, r = .fin q ∧ 0 ≤ q)
    ∧ (∀ j k t q, j ≠ k → mmRateAt s.mmList s.mmEndTimes j k t = some (.fin q) → q ≠ 0 →
        ∃ dj dk, s.demes[j]? = some dj ∧ s.demes[k]? = some dk
          ∧ bEndTime dj ≤ t ∧ bEndTime dk ≤ t ∧ ETime.fin t < dj.startTime ∧ ETime.fin t < dk.startTime) := by
  have h4 : (0 : Q) < 4 * N0 := by grind
  obtain ⟨hlen, hdims, _⟩ := mm_shapeV c hx hN gv hz ha hb
  refine ⟨hlen, hdims, (buildState_binv hb).times, ?_, ?_, ?_⟩
  · -- no matrix is in force before time 0
    intro e he
    apply Classical.byContradiction
    intro hneg
    have h1 := mmRateAt_isSome 0 1 (t := e) hlen e he Rat.le_refl
    rw [mmRateAt_finalEvsV c hx hN gv hz ha hb (by omega) e, if_neg hneg] at h1
    cases h1
  · intro j k t r hjk hr
    rw [mmRateAt_finalEvsV c hx hN gv hz ha hb hjk t] at hr
    split at hr
    · cases hr
      exact ⟨_, rfl, Rat.mul_nonneg (Rat.le_of_lt h4) (gRate_nonneg c j k t)⟩
    · cases hr
  · intro j k t q hjk hr hq
    rw [mmRateAt_finalEvsV c hx hN gv hz ha hb hjk t] at hr
    split at hr
    · rename_i ht
      simp only [Option.some.injEq, Num.fin.injEq] at hr
      have hne : gRate g j k t ≠ 0 := by
        intro h0
        rw [h0, Rat.mul_zero] at hr
        exact hq hr.symm
      obtain ⟨dj, dk, hj, hk, h1, h2, _⟩ := gRate_ne_zero c hne
      obtain ⟨Dj, hDj, ej, sj⟩ := deme_finalEvsV c hx hN gv hz ha hb hj
      obtain ⟨Dk, hDk, ek, sk⟩ := deme_finalEvsV c hx hN gv hz ha hb hk
      exact ⟨Dj, Dk, hDj, hDk, by rw [ej]; exact ht, by rw [ek]; exact ht, by rw [sj]; exact h1, by rw [sk]; exact h2⟩
    · cases hr

/-- V8 of the graph: an entry in force is at most `4·N0` -/
theorem migWF_leV (j k : Nat) (t q : Q) (hjk : j ≠ k)
    (hr : mmRateAt s.mmList s.mmEndTimes j k t = some (.fin q)) : q ≤ 4 * N0 := by
  have h40 : (0 : Q) ≤ 4 * N0 := by grind
  rw [mmRateAt_finalEvsV c hx hN gv hz ha hb hjk t] at hr
  split at hr
  · simp only [Option.some.injEq, Num.fin.injEq] at hr
    rw [← hr]
    have := Rat.mul_le_mul_of_nonneg_left (gRate_le_one c j k t) h40
    rwa [Rat.mul_one] at this
  · cases hr

/-- V10 of the graph: the total rate into a deme, divided by `4·N0`, passes `ingressOk` -/
theorem migWF_ingressV (j : Nat) (t : Q) : ingressOk (qsumS (ingressRow s j t) / (4 * N0)) = true := by
  have h0 : ingressOk 0 = true := by decide +kernel
  have h4ne : (4 * N0) ≠ 0 := by grind
  rw [ingressRow_sumV c hx hN gv hz ha hb, Rat.mul_comm, Rat.mul_div_cancel h4ne]
  cases hj : g.demes[j]? with
  | none => exact h0
  | some dj =>
    show ingressOk (if 0 ≤ t then ingressAt g dj.name t else 0) = true
    split
    · exact ingress_ok c (List.mem_of_getElem? hj) t
    · exact h0

/-- when the graph's total ingress is at most one exactly (`ExactIngress`; validity allows `1 + 1e-9`), the
rates into a deme sum to at most `4·N0` -/
theorem ingressRow_leV (hei : ExactIngress g = true) (j : Nat) (t : Q) : qsumS (ingressRow s j t) ≤ 4 * N0 := by
  have h40 : (0 : Q) ≤ 4 * N0 := by grind
  rw [ingressRow_sumV c hx hN gv hz ha hb]
  have key : (match g.demes[j]? with
      | some dj => if 0 ≤ t then ingressAt g dj.name t else 0
      | none => (0 : Q)) ≤ 1 := by
    cases hj : g.demes[j]? with
    | none => show (0 : Q) ≤ 1; decide +kernel
    | some dj =>
      show (if 0 ≤ t then ingressAt g dj.name t else 0) ≤ 1
      split
      · exact exactIngress_all c hei (List.mem_of_getElem? hj) t
      · show (0 : Q) ≤ 1; decide +kernel
  have := Rat.mul_le_mul_of_nonneg_left key h40
  rwa [Rat.mul_one] at this

end

/-- **Acceptance, migration part.**  For a valid ms-expressible graph `g` in generations (exponential
epochs allowed), `0 < N0`, and arguments `args` that agree with the command `to_ms` prints: the Builder state at the
end of the event loop of `from_ms` satisfies `MigWF`. -/
theorem migWF_finalEvsV {g : Graph} (c : ToMs.Clauses g) (hx : MsExpressible g = true) {N0 : Q} (hN : 0 < N0)
    (gv : Growth → Q) (hz : gv Growth.zero = 0) (samples : Option (List Int)) {args : Args} {s : BState}
    (ha : ArgsAgree args (prOfV gv (ToMs.headerOf g samples) (ToMs.finalEvs g N0)))
    (hb : buildState args N0 = .ok s) : MigWF N0 s := by
  obtain ⟨h1, h2, h3, h4, h5, h6⟩ := migWF_coreV c hx hN gv hz ha hb
  exact ⟨h1, h2, h3, h4, h5, h6, migWF_leV c hx hN gv hz ha hb, migWF_ingressV c hx hN gv hz ha hb⟩

#print axioms migWF_finalEvsV

/-! ### the growth rate in force at the end of the event loop -/

theorem zero_divQ (a : Q) : (0 : Q) / a = 0 := by rw [Rat.div_def, Rat.zero_mul]

theorem change_growth (p : Demes.Spec.MsSem.Pop) (T : Q) (ns : Option Sz) (ng : Option Q) :
    (p.change T ns ng).growth = ng.getD p.growth := by
  unfold Demes.Spec.MsSem.Pop.change; split <;> rfl

/-- `applyUpd` tracks the growth rate independently of the size -/
theorem foldl_applyUpd_snd : ∀ (l : List Upd) (st st' : Q × Growth), st.2 = st'.2 →
    (l.foldl applyUpd st).2 = (l.foldl applyUpd st').2
  | [], _, _, h => h
  | u :: l, st, st', h => by
    rw [List.foldl_cons, List.foldl_cons]
    exact foldl_applyUpd_snd l _ _ (by simp only [applyUpd, h])

theorem foldl_change_growth (gv : Growth → Q) (N0 : Q) : ∀ (upd : List Upd) (q : Demes.Spec.MsSem.Pop) (st : Q × Growth),
    q.growth = gv st.2 / (4 * N0) →
    (upd.foldl (fun q u => q.change u.t (u.size.map Sz.ofQ) (u.growth.map (fun G => gv G / (4 * N0)))) q).growth
      = gv (upd.foldl applyUpd st).2 / (4 * N0)
  | [], _, _, h => h
  | u :: l, q, st, h => by
    rw [List.foldl_cons, List.foldl_cons]
    apply foldl_change_growth gv N0 l
    rw [change_growth]
    cases hg : u.growth with
    | none => simp only [applyUpd, hg, Option.map_none, Option.getD_none, h]
    | some G => simp only [applyUpd, hg, Option.map_some, Option.getD_some]

/-- **the growth rate in force after a list of updates** is the last growth rate set (`applyUpd` tracks
it), read by `gv` -/
theorem evalUpdsV_growth {gv : Growth → Q} (hz : gv Growth.zero = 0) (N0 lo : Q) (upd : List Upd) :
    (evalUpdsV gv N0 lo upd).growth = gv (upd.foldl applyUpd (0, Growth.zero)).2 / (4 * N0) := by
  unfold evalUpdsV
  apply foldl_change_growth
  show (0 : Q) = gv Growth.zero / (4 * N0)
  rw [hz, zero_divQ]

/-- the growth rate tracked at the end of the size / growth options of a deme is (up to `Growth.eq`) the
growth rate of the deme's oldest epoch -/
theorem sizeEvs_lastG {N0 : Q} (hN : 0 < N0) (j : Int) :
    ∀ (es : List Epoch) (size : Q) (growth : Growth) (x : Q) (el : Epoch), es.getLast? = some el →
      (∀ e ∈ es, 0 ≤ e.endTime ∧ ETime.fin e.endTime < e.startTime) →
      es.Pairwise (fun a b => a.startTime ≤ ETime.fin b.endTime) →
      (growth = .zero ∨ ∀ e ∈ es, 0 < e.endTime) →
      ((((sizeEvs N0 j size growth es).map (updClean N0)).foldl applyUpd (x, growth)).2).eq (growthOf N0 el) = true
  | [], _, _, _, _, hl, _, _, _ => by cases hl
  | e :: es, size, growth, x, el, hl, hok, hpw, hinv => by
    obtain ⟨he0, helt⟩ := hok e List.mem_cons_self
    have hpw' := List.pairwise_cons.1 hpw
    have hlater : ∀ e' ∈ es, e.endTime < e'.endTime := fun e' he' =>
      ToMs.et_lt_of_lt_of_le helt (hpw'.1 e' he')
    have hinv' : growth = .zero ∨ 0 < e.endTime := by
      rcases hinv with h | h
      · exact Or.inl h
      · exact Or.inr (h e List.mem_cons_self)
    have hhead : (((headEvs N0 j size growth e).map (updClean N0)).foldl applyUpd (x, growth)).2
        = nextG N0 size growth e := by
      rw [foldl_applyUpd_snd _ (x, growth) (size, growth) rfl, foldl_headEvs_upd hN j size growth he0 hinv']
    rw [sizeEvs_cons, List.map_append, List.foldl_append]
    cases es with
    | nil =>
      simp only [List.getLast?_singleton, Option.some.injEq] at hl
      subst hl
      simp only [sizeEvs, List.map_nil, List.foldl_nil]
      rw [hhead]
      exact nextG_eq N0 size growth e
    | cons e' r =>
      rw [List.getLast?_cons_cons] at hl
      rw [foldl_applyUpd_snd _ _ (x, nextG N0 size growth e) hhead]
      apply sizeEvs_lastG hN j (e' :: r) e.startSize (nextG N0 size growth e) x el hl
        (fun e'' he'' => hok e'' (List.mem_cons_of_mem _ he'')) hpw'.2
      right
      intro e'' he''
      have := hlater e'' he''
      grind

theorem growth_eq_zero {G : Growth} (h : G.eq Growth.zero = true) : G = Growth.zero := by
  cases G with
  | zero => rfl
  | sym r dt => simp [Growth.eq] at h

section
variable {g : Graph} (c : Clauses g) (hx : MsExpressible g = true) {N0 : Q} (hN : 0 < N0)
  (gv : Growth → Q) (hz : gv Growth.zero = 0)
include c hx hN hz

/-- the population of a deme without a start time ends with the growth rate `0`: the deme's oldest epoch
starts at infinity, so `to_ms` gives it the growth rate `Growth.zero` -/
theorem growth_updsOfDeme {d : Deme} (hdm : d ∈ g.demes) (hinf : d.startTime = .inf) (k : Nat) (lo : Q) :
    (evalUpdsV gv N0 lo (updsOfDeme N0 k d)).growth = 0 := by
  have h5 := c.h5
  simp only [v5, List.all_eq_true, Bool.and_eq_true] at h5
  obtain ⟨hne, hcont⟩ := h5 d hdm
  obtain ⟨hlt, hpw⟩ := reverse_epochs_facts hcont
  -- the oldest epoch
  cases hes : d.epochs with
  | nil => rw [hes] at hne; simp at hne
  | cons e0 rest =>
    have hst : e0.startTime = .inf := by
      rw [hes] at hcont
      simp only [contiguous, Bool.and_eq_true, beq_iff_eq] at hcont
      rw [hcont.1.1, hinf]
    have hlast : d.epochs.reverse.getLast? = some e0 := by
      rw [hes, List.getLast?_reverse]; rfl
    have hG0 : growthOf N0 e0 = Growth.zero := by
      unfold growthOf
      rw [hst]
      split <;> rfl
    have key := sizeEvs_lastG hN ((k + 1 : Nat) : Int) d.epochs.reverse N0 .zero N0 e0 hlast
      (fun e he => ⟨(epochOk_of_valid c hx hdm (List.mem_reverse.1 he)).endTime, hlt e he⟩) hpw (Or.inl rfl)
    rw [hG0] at key
    rw [evalUpdsV_growth hz, updsOfDeme, List.foldl_cons]
    have h1 : applyUpd (0, Growth.zero) (initUpd N0) = (N0, Growth.zero) := rfl
    rw [h1, growth_eq_zero key, hz, zero_divQ]

variable {samples : Option (List Int)} {args : Args} {s : BState}
  (ha : ArgsAgree args (prOfV gv (headerOf g samples) (finalEvs g N0))) (hb : buildState args N0 = .ok s)
include ha hb

/-- at the end of the event loop, a deme of the Builder without a start time has no growth rate in force -/
theorem growthClosed_finalEvsV : GrowthClosed s := by
  intro j d hd hinf
  obtain ⟨sG, hrs, hcore⟩ := runState_finalEvsV c hx hN gv hz samples
  obtain ⟨hlen, _, hrel⟩ := build_sizes ha hb hrs
  have hjlt : j < s.demes.length := (List.getElem?_eq_some_iff.mp hd).1
  have hjl : j < sG.pops.length := by
    rw [hlen, embedStV_len] at hjlt; exact hjlt
  have hP : sG.pops[j]? = some sG.pops[j] := List.getElem?_eq_getElem hjl
  generalize sG.pops[j] = P at hP
  have hp' : (embedStV gv N0 sG).pops[j]? = some (embedPopGV gv N0 P) := by
    show (sG.pops.map (embedPopGV gv N0))[j]? = _
    rw [List.getElem?_map, hP]; rfl
  obtain ⟨_, hg, hst, _⟩ := hrel j d _ hd hp'
  rw [hg]
  rw [hst, embedPopGV_hi] at hinf
  rw [embedPopGV_alive hinf]
  rw [hcore.1] at hP
  by_cases hjg : j < g.demes.length
  · have hdj : g.demes[j]? = some g.demes[j] := List.getElem?_eq_getElem hjg
    generalize g.demes[j] = dj at hdj
    rw [run_pops_orig c hx hN hdj, Option.some.injEq] at hP
    subst hP
    exact growth_updsOfDeme c hx hN gv hz (List.mem_of_getElem? hdj) hinf j 0
  · have := run_newDead c hx hN j P (by omega) hP
    rw [this] at hinf
    cases hinf

end


/-! ### non-vacuity: a graph with an exponential epoch, a branch and a migration -/

namespace MigExample
open Demes.Spec.C08 (argsAgreeB argsAgree_of_B)
open Demes.Proofs.MsPrint (tableCodec)
open Demes.Proofs.MsRT (toksOf)

/-- the graph `growBranch` of `MsGrowAccFrag.lean` with numbers that the table codec prints at `N0 = 1`: deme `A`
constant 1 until 8 generations ago, then exponential growth 1 → 2 until now; deme `B` (constant 1/2)
branches off `A` 4 generations ago and receives migrants from `A` at rate 1/8 -/
def growBranch1 : Graph :=
  { description := "", timeUnits := "generations", generationTime := 1, doi := [], metadata := [],
    demes := [{ name := "A", description := "", startTime := .inf, ancestors := [], proportions := [],
                epochs := [{ startTime := .inf, endTime := 8, startSize := 1, endSize := 1,
                             sizeFunction := "constant", selfingRate := 0, cloningRate := 0 },
                           { startTime := .fin 8, endTime := 0, startSize := 1, endSize := 2,
                             sizeFunction := "exponential", selfingRate := 0, cloningRate := 0 }] },
              { name := "B", description := "", startTime := .fin 4, ancestors := ["A"], proportions := [1],
                epochs := [{ startTime := .fin 4, endTime := 0, startSize := 1/2, endSize := 1/2,
                             sizeFunction := "constant", selfingRate := 0, cloningRate := 0 }] }],
    migrations := [{ source := "A", dest := "B", startTime := .fin 4, endTime := 0, rate := 1/8 }],
    pulses := [], index := [("A", 0), ("B", 1)] }

/-- a printer of growth rates for `growBranch1` at `N0 = 1`: `-ln(1/2) / (8/4) = 0.34657359027997264` -/
def exSa : Growth → String
  | .zero => "0.0"
  | .sym _ _ => "0.34657359027997264"

/-- every hypothesis of `migWF_finalEvsV` / `growthClosed_finalEvsV` for the command printed with
`tableCodec` and the printer `sa` of growth rates, decided; `args` are the arguments the Model's argparse
layer reads off the printed command, the growth rates are read by `growthVal sa` -/
def migHypsV (sa : Growth → String) (g : Graph) (N0 : Q) : Bool :=
  validGraph g && MsExpressible g && decide (0 < N0) && decide (growthVal sa Growth.zero = 0) &&
  match parseKnownArgs (renderG tableCodec sa (toksOf (headerOf g none) (finalEvs g N0))) with
  | .ok args => argsAgreeB args (prOfV (growthVal sa) (headerOf g none) (finalEvs g N0))
      && (buildState args N0).toOption.isSome
  | .error _ => false

theorem migWF_of_hypsV {sa : Growth → String} {g : Graph} {N0 : Q} (h : migHypsV sa g N0 = true) :
    ∃ args s, parseKnownArgs (renderG tableCodec sa (toksOf (headerOf g none) (finalEvs g N0))) = .ok args
      ∧ buildState args N0 = .ok s ∧ MigWF N0 s ∧ GrowthClosed s := by
  unfold migHypsV at h
  simp only [Bool.and_eq_true, decide_eq_true_eq] at h
  obtain ⟨⟨⟨⟨h1, h2⟩, h5⟩, hz⟩, h6⟩ := h
  cases hp : parseKnownArgs (renderG tableCodec sa (toksOf (headerOf g none) (finalEvs g N0))) with
  | error e => rw [hp] at h6; cases h6
  | ok args =>
    rw [hp] at h6
    simp only [Bool.and_eq_true] at h6
    obtain ⟨h7, h8⟩ := h6
    cases hb : buildState args N0 with
    | error e => rw [hb] at h8; cases h8
    | ok s =>
      have c := clauses_of_valid h1
      exact ⟨args, s, rfl, hb, migWF_finalEvsV c h2 h5 _ hz none (argsAgree_of_B h7) hb,
        growthClosed_finalEvsV c h2 h5 _ hz (argsAgree_of_B h7) hb⟩

/-- the command of `to_ms growBranch1 1` -/
example : finalEvs growBranch1 1
    = [.popSizeChange "" (.fin 0) 1 (.fin 2), .popGrowthRateChange "" (.fin 0) 1 (.sym (1/2) 2),
       .popSizeChange "" (.fin 0) 2 (.fin (1/2)), .migEntryChange "" (.fin 0) 2 1 (.fin (1/2)),
       .join "" (.fin 1) 2 1, .popGrowthRateChange "" (.fin 2) 1 .zero] := by decide +kernel

/-- … printed -/
example : renderG tableCodec exSa (toksOf (headerOf growBranch1 none) (finalEvs growBranch1 1))
    = ["-I", "2", "0", "0", "-n", "1", "2.0", "-g", "1", "0.34657359027997264", "-n", "2", "0.5",
       "-m", "2", "1", "0.5", "-ej", "1.0", "2", "1", "-eg", "2.0", "1", "0.0"] := by decide +kernel

/-- the hypotheses hold of `growBranch1` (which is not of constant sizes) at `N0 = 1` -/
theorem growBranch1_hyps : migHypsV exSa growBranch1 1 = true ∧ ConstSizes growBranch1 = false := by decide +kernel

/-- the theorems at work -/
example := migWF_of_hypsV (sa := exSa) (g := growBranch1) (N0 := 1) growBranch1_hyps.1

/-- entries of the matrix history at the end of the event loop on the printed command; start time and
growth rate in force of every deme -/
def probe (sa : Growth → String) (g : Graph) (N0 : Q) : Option (Nat × List (Option Num) × List (ETime × Q)) :=
  match parseKnownArgs (renderG tableCodec sa (toksOf (headerOf g none) (finalEvs g N0))) with
  | .ok args =>
    (match buildState args N0 with
     | .ok s => some (s.numDemes,
         [mmRateAt s.mmList s.mmEndTimes 1 0 0, mmRateAt s.mmList s.mmEndTimes 1 0 3,
          mmRateAt s.mmList s.mmEndTimes 1 0 4, mmRateAt s.mmList s.mmEndTimes 0 1 3,
          mmRateAt s.mmList s.mmEndTimes 1 0 (-1)],
         s.demes.map (fun d => (d.startTime, curGrowth d)))
     | .error _ => none)
  | .error _ => none

/-- the conclusion is not trivial: the entry (into `B` from `A`) is `4·N0·(1/8) = 1/2` while the migration
is active (`0 ≤ t < 4`), `0` afterwards and in the other direction, nothing is in force before time `0`;
deme `A` (no start time) ends with the growth rate `0` although the rate `-g 1 0.3465…` was in force for
its youngest epoch -/
example : probe exSa growBranch1 1
    = some (2, [some (.fin (1/2)), some (.fin (1/2)), some (.fin 0), some (.fin 0), none],
        [(.inf, 0), (.fin 4, 0)]) := by decide +kernel

end MigExample

#print axioms runState_finalEvsV
#print axioms deme_finalEvsV
#print axioms mmRateAt_finalEvsV
#print axioms ingressRow_sumV
#print axioms ingressRow_leV
#print axioms growthClosed_finalEvsV
#print axioms MigExample.growBranch1_hyps

end Demes.Proofs.MsGrow
