/-
  C09 (acceptance), forward direction, part 1 — `Spec.fill` computed on the document of
  `build_graph`: the fill-in rules turn `doc.toValue tab` into the explicit graph `docGraph tab doc`
  (`doc_fill`).  Part 2 (`MsAccFill.lean`): the document is well-formed and of acceptable shape, so
  `Demes.resolve` accepts it as soon as that explicit graph is valid (`resolve_doc_of_valid`).
-/
import DemesVerif.Proofs.FromMsPostResolve
import DemesVerif.Proofs.FromMsApplyResolve
import DemesVerif.Proofs.Accepts
import DemesVerif.Proofs.MsAccDefs
namespace Demes.Proofs.MsAcc
open Demes Demes.Ms Demes.Spec Demes.Spec.C08 Demes.Obj Demes.Proofs.FromMs
open Demes.Proofs.Accepts (schemaOK_iff demeSchemaOK_iff mapOpt_cons_some strsOf_eq_some
  mapOpt_objOf some_obind)

/-! ## the explicit graph -/

/-- the proportions an omitted `proportions` stands for: `[1]` for one ancestor, `[]` otherwise -/
def defaultProps (ancestors : List String) : List Q := if ancestors.length = 1 then [1] else []

/-- the deme `fill` makes of a Builder deme -/
def docDeme (tab : List (Sz × Q)) (d : BDeme) : Deme :=
  { name := d.name, description := "", startTime := d.startTime,
    ancestors := d.ancestors.getD [],
    proportions := d.proportions.getD (defaultProps (d.ancestors.getD [])),
    epochs := epochsOf tab d.startTime d.epochs }

/-- the migration `fill` makes of a Builder migration -/
def docMig (m : BMigration) : Migration := ⟨m.source, m.dest, m.startTime, m.endTime, rateQ m.rate⟩

/-- **the graph `fill` makes of the document of `build_graph`** -/
def docGraph (tab : List (Sz × Q)) (doc : MsDoc) : Graph :=
  { description := "", timeUnits := "generations", generationTime := 1, doi := [], metadata := [],
    demes := doc.demes.map (docDeme tab),
    migrations := doc.migrations.map docMig,
    pulses := sortDescStable (fun p : Pulse => p.time) ((doc.pulses.getD []).map bp2p),
    index := (doc.demes.map (·.name)).zipIdx }

/-- the shape `build_graph` guarantees -/
structure DocShape (doc : MsDoc) : Prop where
  demes_ne : doc.demes ≠ []
  epochs_ne : ∀ d ∈ doc.demes, d.epochs ≠ []
  closed : ∀ d ∈ doc.demes, ∀ e ∈ d.epochs, e.startSize.isSome = true
  nogrowth : ∀ d ∈ doc.demes, ∀ e ∈ d.epochs, e.growthRate = none
  rates : ∀ m ∈ doc.migrations, ∃ q, m.rate = .fin q
  mig_names : ∀ m ∈ doc.migrations,
    m.source ∈ doc.demes.map (·.name) ∧ m.dest ∈ doc.demes.map (·.name)

/-- `DocShape`, executable -/
def docShapeB (doc : MsDoc) : Bool :=
  !doc.demes.isEmpty
  && doc.demes.all (fun d => !d.epochs.isEmpty
      && d.epochs.all (fun e => e.startSize.isSome && e.growthRate.isNone))
  && doc.migrations.all (fun m =>
      (match m.rate with | .fin _ => true | _ => false)
      && (doc.demes.map (·.name)).contains m.source && (doc.demes.map (·.name)).contains m.dest)

theorem docShape_of_B {doc : MsDoc} (h : docShapeB doc = true) : DocShape doc := by
  simp only [docShapeB, Bool.and_eq_true, List.all_eq_true, Bool.not_eq_true',
    List.isEmpty_eq_false_iff, Option.isNone_iff_eq_none, List.contains_iff_mem] at h
  obtain ⟨⟨h1, h2⟩, h3⟩ := h
  refine ⟨h1, fun d hd => (h2 d hd).1, fun d hd e he => ((h2 d hd).2 e he).1,
    fun d hd e he => ((h2 d hd).2 e he).2, ?_, fun m hm => ⟨(h3 m hm).1.2, (h3 m hm).2⟩⟩
  intro m hm
  have := (h3 m hm).1.1
  cases hr : m.rate with
  | fin q => exact ⟨q, rfl⟩
  | _ => rw [hr] at this; cases this

/-! ## generalities -/

theorem mapOpt_map {α β γ} {f : β → Option γ} {g : α → β} {k : α → γ} :
    ∀ (l : List α), (∀ x ∈ l, f (g x) = some (k x)) → mapOpt f (l.map g) = some (l.map k) := by
  intro l
  induction l with
  | nil => intro _; rfl
  | cons x xs ih =>
    intro h
    rw [List.map_cons, mapOpt_cons_some]
    exact ⟨k x, xs.map k, h x List.mem_cons_self, ih (fun y hy => h y (List.mem_cons_of_mem _ hy)), rfl⟩

theorem finsOf_nV (ps : List Q) : finsOf (.list (ps.map nV)) = some ps := by
  show mapOpt finOf (ps.map nV) = some ps
  have := mapOpt_map (f := finOf) (g := nV) (k := id) ps (fun x _ => rfl)
  rwa [List.map_id] at this

theorem strsOf_strs (ss : List String) : strsOf (.list (ss.map Value.str)) = some ss :=
  strsOf_eq_some.2 rfl

theorem objsOf_objs {α} (f : α → Obj) (g : α → Value) (l : List α) (h : ∀ x, g x = .obj (f x)) :
    objsOf (.list (l.map g)) = some (l.map f) := by
  show mapOpt objOf (l.map g) = some (l.map f)
  exact mapOpt_map l (fun x _ => by rw [h x]; rfl)

theorem effective_nil (o : Obj) (k : String) : effective o [] [] k = lookup k o := by
  unfold effective
  cases lookup k o <;> rfl

theorem effectiveNN_nil (o : Obj) (k : String) : effectiveNN o [] [] k = lookupNN k o := by
  unfold effectiveNN
  rw [effective_nil]
  rfl

theorem sectionOf_nil (k : String) : sectionOf [] k = some [] := rfl

/-! ## epochs -/

theorem fillEpoch_epObj (tab : List (Sz × Q)) (st : ETime) (prev : Option Epoch) (isLast : Bool)
    (e : BEpoch) :
    fillEpoch st prev isLast (epObj tab e) [] [] = some (mkEpoch tab (specEpochStart st prev) e) := rfl

theorem fillEpochs_epObj (tab : List (Sz × Q)) (st : ETime) : ∀ (es : List BEpoch) (prev : Option Epoch),
    fillEpochs st [] [] prev (es.map (epObj tab)) = some (epochsOf tab (specEpochStart st prev) es) := by
  intro es
  induction es with
  | nil => intro _; rfl
  | cons e es ih =>
    intro prev
    rw [List.map_cons, fillEpochs, fillEpoch_epObj]
    simp only [ih]
    rfl

/-! ## one deme -/

theorem lookup_description_demeObj (tab : List (Sz × Q)) (d : BDeme) :
    lookup "description" (demeObj tab d) = none := by
  unfold demeObj
  cases d.ancestors <;> cases d.proportions <;> simp [lookup]

theorem epochs_objs (tab : List (Sz × Q)) (d : BDeme)
    (hc : ∀ e ∈ d.epochs, e.startSize.isSome = true) (hg : ∀ e ∈ d.epochs, e.growthRate = none) :
    d.epochs.map (BEpoch.toValue tab) = (d.epochs.map (epObj tab)).map Value.obj := by
  rw [List.map_map]
  exact List.map_congr_left (fun x hx => epToValue_eq (hc x hx) (hg x hx))

theorem fillDeme_demeObj (tab : List (Sz × Q)) (g : Graph) (d : BDeme)
    (hc : ∀ e ∈ d.epochs, e.startSize.isSome = true) (hg : ∀ e ∈ d.epochs, e.growthRate = none) :
    fillDeme [] [] g (demeObj tab d) = some (docDeme tab d) := by
  obtain ⟨l1, l2, l3, l4, l5, l6⟩ := demeObj_lookups tab d
  have hanc : strsOf (specAncestors (lookupNN "ancestors" (demeObj tab d))) = some (d.ancestors.getD []) := by
    rw [l2]
    cases d.ancestors with
    | none => rfl
    | some a => exact strsOf_strs a
  have hpr : finsOf (specProportions (lookupNN "proportions" (demeObj tab d)) (d.ancestors.getD []))
      = some (d.proportions.getD (defaultProps (d.ancestors.getD []))) := by
    rw [l3]
    cases d.proportions with
    | some p => exact finsOf_nV p
    | none =>
      simp only [Option.map_none, specProportions, Option.getD_none, defaultProps]
      split <;> rfl
  have hes : objsOf (.list (d.epochs.map (BEpoch.toValue tab))) = some (d.epochs.map (epObj tab)) := by
    rw [epochs_objs tab d hc hg]
    exact mapOpt_objOf.2 rfl
  unfold fillDeme
  rw [l1, effective_nil, lookup_description_demeObj, effectiveNN_nil, effectiveNN_nil, effectiveNN_nil,
    hanc, l4]
  simp only [Option.bind_some, strOf, Option.getD_none, bind, specStartTime,
    timeOf_tV, hpr, sectionOf, l5, objOf, l6, hes, lookup, fillEpochs_epObj, specEpochStart, pure, docDeme]

/-! ## the deme loop -/

theorem fillDemes_doc (tab : List (Sz × Q)) : ∀ (ds : List BDeme) (g : Graph),
    (∀ d ∈ ds, ∀ e ∈ d.epochs, e.startSize.isSome = true) →
    (∀ d ∈ ds, ∀ e ∈ d.epochs, e.growthRate = none) →
    fillDemes [] [] g (ds.map (demeObj tab)) =
      some { g with demes := g.demes ++ ds.map (docDeme tab),
                    index := g.index ++ (ds.map (·.name)).zipIdx g.demes.length } := by
  intro ds
  induction ds with
  | nil => intro g _ _; simp [fillDemes]
  | cons d ds ih =>
    intro g hc hg
    rw [List.map_cons, fillDemes, fillDeme_demeObj tab g d (hc d List.mem_cons_self) (hg d List.mem_cons_self)]
    simp only
    rw [ih _ (fun x hx => hc x (List.mem_cons_of_mem _ hx)) (fun x hx => hg x (List.mem_cons_of_mem _ hx))]
    simp [addDeme, docDeme, List.zipIdx_cons]

/-! ## the name index of the filled graph finds every deme -/

theorem deme?_of_zipIdx {g : Graph} (hi : g.index = (g.demes.map (·.name)).zipIdx) {n : String}
    (hn : n ∈ g.demes.map (·.name)) : ∃ d, g.deme? n = some d := by
  unfold Graph.deme? Graph.indexLookup
  rw [hi]
  have hex : ∃ kv ∈ (g.demes.map (·.name)).zipIdx, (fun kv : String × Nat => decide (kv.1 = n)) kv = true := by
    obtain ⟨i, hi', hget⟩ := List.getElem_of_mem hn
    exact ⟨(n, i), List.mem_zipIdx_iff_getElem?.2 (by simp [hget, List.getElem?_eq_getElem hi']),
      by simp⟩
  obtain ⟨kv, hkv⟩ := Option.isSome_iff_exists.1 (List.find?_isSome.2 hex)
  rw [hkv]
  have hmem := List.mem_of_find?_eq_some hkv
  have hlt : kv.2 < g.demes.length := by
    have := List.mem_zipIdx_iff_getElem?.1 hmem
    have h2 := (List.getElem?_eq_some_iff.1 this).1
    simpa using h2
  exact ⟨g.demes[kv.2], by simp [List.getElem?_eq_getElem hlt]⟩

/-! ## one migration -/

theorem migObj_lookups (m : BMigration) :
    lookup "rate" (migObj m) = some (.num m.rate)
    ∧ lookupNN "demes" (migObj m) = none
    ∧ lookupNN "source" (migObj m) = some (.str m.source)
    ∧ lookupNN "dest" (migObj m) = some (.str m.dest)
    ∧ lookupNN "start_time" (migObj m) = some (tV m.startTime)
    ∧ lookupNN "end_time" (migObj m) = some (nV m.endTime) := by
  refine ⟨rfl, rfl, rfl, rfl, ?_, rfl⟩
  cases h : m.startTime <;> simp [migObj, lookupNN, lookup, tV, h, Num.ofETime]

theorem fillMigration_migObj (g : Graph) (m : BMigration) {q : Q} (hr : m.rate = .fin q) {s d : Deme}
    (hs : g.deme? m.source = some s) (hd : g.deme? m.dest = some d) :
    fillMigration [] g (migObj m) = some [docMig m] := by
  obtain ⟨l1, l2, l3, l4, l5, l6⟩ := migObj_lookups m
  unfold fillMigration
  rw [effective_nil, effectiveNN_nil, effectiveNN_nil, effectiveNN_nil, effectiveNN_nil, effectiveNN_nil,
    l1, l2, l3, l4, l5, l6, hr]
  have hq : finOf (.num (.fin q)) = some q := rfl
  simp only [Option.bind_some, bind, hq, strOf, mapOpt, fillMigrationPair, hs, hd,
    timeOf_tV, finOf_nV, pure, docMig, rateQ, hr]

/-! ## one pulse -/

theorem fillPulse_pulseObj (p : BPulse) : fillPulse [] (pulseObj p) = some (bp2p p) := by
  have l1 : lookup "sources" (pulseObj p) = some (.list (p.sources.map .str)) := rfl
  have l2 : lookup "dest" (pulseObj p) = some (.str p.dest) := rfl
  have l3 : lookup "time" (pulseObj p) = some (nV p.time) := rfl
  have l4 : lookup "proportions" (pulseObj p) = some (.list (p.proportions.map nV)) := rfl
  unfold fillPulse
  rw [effective_nil, effective_nil, effective_nil, effective_nil, l1, l2, l3, l4]
  simp only [Option.bind_some, bind, strsOf_strs, strOf, finOf_nV, finsOf_nV, pure, bp2p]

/-! ## the whole document -/

theorem docObj_lookups' (tab : List (Sz × Q)) (doc : MsDoc) :
    lookup "description" (docObj tab doc) = none
    ∧ lookup "time_units" (docObj tab doc) = some (.str "generations")
    ∧ lookup "generation_time" (docObj tab doc) = none
    ∧ lookup "doi" (docObj tab doc) = none
    ∧ lookup "metadata" (docObj tab doc) = none
    ∧ lookup "demes" (docObj tab doc) = some (.list (doc.demes.map (BDeme.toValue tab)))
    ∧ lookup "migrations" (docObj tab doc) = some (.list (doc.migrations.map BMigration.toValue)) := by
  unfold docObj
  cases doc.pulses <;> simp [lookup]

/-- the graph after the header -/
def docGraph0 : Graph :=
  { description := "", timeUnits := "generations", generationTime := 1, doi := [], metadata := [],
    demes := [], migrations := [], pulses := [], index := [] }

theorem fillHeader_docObj (tab : List (Sz × Q)) (doc : MsDoc) :
    fillHeader (docObj tab doc) = some docGraph0 := by
  obtain ⟨l1, l2, l3, l4, l5, _, _⟩ := docObj_lookups' tab doc
  unfold fillHeader
  rw [l1, l2, l3, l4, l5]
  rfl

theorem objListOf_pulses (tab : List (Sz × Q)) (doc : MsDoc) :
    objListOf (docObj tab doc) "pulses" = some ((doc.pulses.getD []).map pulseObj) := by
  unfold objListOf
  rw [(docObj_lookups tab doc).2]
  cases doc.pulses with
  | none => rfl
  | some ps => exact objsOf_objs pulseObj BPulse.toValue ps (fun _ => rfl)

theorem objListOf_migrations (tab : List (Sz × Q)) (doc : MsDoc) :
    objListOf (docObj tab doc) "migrations" = some (doc.migrations.map migObj) := by
  unfold objListOf
  rw [(docObj_lookups' tab doc).2.2.2.2.2.2]
  exact objsOf_objs migObj BMigration.toValue _ (fun _ => rfl)

theorem demes_objs (tab : List (Sz × Q)) (doc : MsDoc) :
    (lookup "demes" (docObj tab doc)).bind objsOf = some (doc.demes.map (demeObj tab)) := by
  rw [(docObj_lookups' tab doc).2.2.2.2.2.1]
  exact objsOf_objs (demeObj tab) (BDeme.toValue tab) _ (fun _ => rfl)

/-- the graph after the deme loop -/
def docGraph1 (tab : List (Sz × Q)) (doc : MsDoc) : Graph :=
  { description := "", timeUnits := "generations", generationTime := 1, doi := [], metadata := [],
    demes := doc.demes.map (docDeme tab), migrations := [], pulses := [],
    index := (doc.demes.map (·.name)).zipIdx }

theorem docGraph1_deme? (tab : List (Sz × Q)) (doc : MsDoc) {n : String}
    (hn : n ∈ doc.demes.map (·.name)) : ∃ d, (docGraph1 tab doc).deme? n = some d := by
  apply deme?_of_zipIdx
  · show (doc.demes.map (·.name)).zipIdx = ((doc.demes.map (docDeme tab)).map (·.name)).zipIdx
    rw [List.map_map]; rfl
  · show n ∈ (doc.demes.map (docDeme tab)).map (·.name)
    rw [List.map_map]; exact hn

/-- `fill` assembled from its parts (the converse of `Accepts.fill_inv`) -/
theorem fill_of_parts {data defaults DD MD PD GE : Obj} {g0 g1 : Graph} {demes migs pulses : List Obj}
    {mss : List (List Migration)} {pus : List Pulse}
    (h1 : sectionOf data "defaults" = some defaults)
    (h2 : sectionOf defaults "deme" = some DD) (h3 : sectionOf defaults "migration" = some MD)
    (h4 : sectionOf defaults "pulse" = some PD) (h5 : sectionOf defaults "epoch" = some GE)
    (h6 : fillHeader data = some g0) (h7 : (lookup "demes" data).bind objsOf = some demes)
    (h8 : fillDemes DD GE g0 demes = some g1)
    (h9 : objListOf data "migrations" = some migs) (h10 : mapOpt (fillMigration MD g1) migs = some mss)
    (h11 : objListOf data "pulses" = some pulses) (h12 : mapOpt (fillPulse PD) pulses = some pus) :
    fill (.obj data) = some { g1 with migrations := mss.flatten,
                                      pulses := sortDescStable (fun p : Pulse => p.time) pus } := by
  unfold fill
  rw [show objOf (Value.obj data) = some data from rfl, some_obind, h1, some_obind, h2, some_obind,
    h3, some_obind, h4, some_obind, h5, some_obind, h6, some_obind, h7, some_obind, h8, some_obind,
    h9, some_obind, h10, some_obind, h11, some_obind, h12, some_obind]
  rfl

/-- **`fill` on the document of `build_graph` is `docGraph`** -/
theorem doc_fill (tab : List (Sz × Q)) (doc : MsDoc) (h : DocShape doc) :
    fill (doc.toValue tab) = some (docGraph tab doc) := by
  rw [docToValue_eq]
  have hg1 : fillDemes [] [] docGraph0 (doc.demes.map (demeObj tab)) = some (docGraph1 tab doc) := by
    rw [fillDemes_doc tab doc.demes _ h.closed h.nogrowth]
    rfl
  have hms : mapOpt (fillMigration [] (docGraph1 tab doc)) (doc.migrations.map migObj)
      = some (doc.migrations.map (fun m => [docMig m])) := by
    apply mapOpt_map
    intro m hm
    obtain ⟨q, hq⟩ := h.rates m hm
    obtain ⟨s, hs⟩ := docGraph1_deme? tab doc (h.mig_names m hm).1
    obtain ⟨d, hd⟩ := docGraph1_deme? tab doc (h.mig_names m hm).2
    exact fillMigration_migObj _ m hq hs hd
  have hps : mapOpt (fillPulse []) ((doc.pulses.getD []).map pulseObj) = some ((doc.pulses.getD []).map bp2p) :=
    mapOpt_map _ (fun p _ => fillPulse_pulseObj p)
  have hfl : (doc.migrations.map (fun m => [docMig m])).flatten = doc.migrations.map docMig := by
    induction doc.migrations with
    | nil => rfl
    | cons m ms ih => simp [ih]
  have hdef : sectionOf (docObj tab doc) "defaults" = some [] := by
    unfold sectionOf
    rw [(docObj_lookups tab doc).1]
    rfl
  rw [fill_of_parts hdef rfl rfl rfl rfl (fillHeader_docObj tab doc) (demes_objs tab doc) hg1
    (objListOf_migrations tab doc) hms (objListOf_pulses tab doc) hps, hfl]
  rfl

end Demes.Proofs.MsAcc
