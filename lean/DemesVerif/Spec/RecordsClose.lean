/-
  What it means for two event records to describe the same event up to a numerical tolerance,
  written declaratively (C14 / C10 vocabulary of Spec/C10.lean): same class, same parent(s) and
  child(ren) as *sets with multiplicity* (no order), times within the tolerance, and for mergers /
  admixtures the (parent, proportion) pairs matched one to one by parent.
-/
import DemesVerif.Spec.C10
import DemesVerif.Model.RecordsClose
namespace Demes.Spec
open Demes

/-- two splits agree: same parent, the same children up to order, close times -/
structure SplitClose (t : Tol) (x y : SplitEv) : Prop where
  parent : x.parent = y.parent
  children : x.children.Perm y.children
  time : WithinTol t x.time y.time

/-- two branches agree -/
structure BranchClose (t : Tol) (x y : BranchEv) : Prop where
  parent : x.parent = y.parent
  child : x.child = y.child
  time : WithinTolE t x.time y.time

/-- two mergers (or two admixtures) agree: the (parent, proportion) pairs match up to order, same
child, close times -/
structure MergeClose (t : Tol) (x y : MergeEv) : Prop where
  ancestry : WeightsClose t x.parents x.proportions y.parents y.proportions
  child : x.child = y.child
  time : WithinTolE t x.time y.time

/-- two records agree: the same class and the fields agree -/
def RecordClose (t : Tol) : Record → Record → Prop
  | .split a, .split b => SplitClose t a b
  | .branch a, .branch b => BranchClose t a b
  | .merge a, .merge b => MergeClose t a b
  | .admix a, .admix b => MergeClose t a b
  | _, _ => False

/-- `m'` is `m` with its (parent, proportion) pairs rearranged (both well formed) -/
structure SameUpToParentOrder (m m' : MergeEv) : Prop where
  child : m'.child = m.child
  time : m'.time = m.time
  wellFormed : m.parents.length = m.proportions.length
  wellFormed' : m'.parents.length = m'.proportions.length
  pairs : (m'.parents.zip m'.proportions).Perm (m.parents.zip m.proportions)

end Demes.Spec
