/-
  Vocabulary of the translator (harness/extract_tables.py, group "GuardsIO") for tests on parsed
  documents (`Value`): what `isinstance(v, dict)`, `isinstance(v, list)`, `v.items()` and iteration
  mean.  Nothing of the Model proper depends on this file.
-/
import DemesVerif.Model.Value
namespace Demes
namespace Value

/-- `isinstance(v, dict)` -/
def isDict : Value → Bool
  | obj _ => true
  | _ => false

/-- `isinstance(v, list)` -/
def isList : Value → Bool
  | list _ => true
  | _ => false

/-- `v.items()` of a mapping (the library calls it on mappings only; nothing for other values) -/
def items : Value → List (String × Value)
  | obj kvs => kvs
  | _ => []

/-- the elements `for e in v` visits when `v` is a list (the translated code iterates lists only) -/
def elems : Value → List Value
  | list xs => xs
  | _ => []

end Value
end Demes
