/-
  C09, acceptance — the algebra of movement rows: a column gains only as the target of a move, a row that
  keeps nothing at home has been joined, the moves conserve mass, and hence the proportions `setAnc` writes
  for a joined population are positive, at most 1 and sum to 1.
-/
import DemesVerif.Proofs.MsAccInvBase
namespace Demes.Proofs.MsAcc
open Demes Demes.Ms Demes.Spec Demes.Spec.MsSem Demes.Spec.C08 Demes.Proofs.FromMs

/-! ## columns that are no target -/

theorem opF_nontarget_le {o : MOp} {f : RowF} {k : Nat} (hq0 : 0 ≤ o.2.2)
    (hf : ∀ x, 0 ≤ f x) (hk : o.2.1 ≠ k) : opF o f k ≤ f k := by
  unfold opF
  rw [if_neg (fun e => hk e.symm)]
  split
  · rename_i h
    subst h
    have h1 := hf o.1
    have : 0 ≤ f o.1 * o.2.2 := Rat.mul_nonneg h1 hq0
    have e : f o.1 * (1 - o.2.2) = f o.1 - f o.1 * o.2.2 := by ring
    rw [e]
    linarith
  · exact Rat.le_refl

/-- a column that is the target of no move never gains -/
theorem foldOps_nontarget_le : ∀ (ops : List MOp) (f : RowF) (k : Nat),
    (∀ o ∈ ops, 0 ≤ o.2.2 ∧ o.2.2 ≤ 1) → (∀ x, 0 ≤ f x) → (∀ o ∈ ops, o.2.1 ≠ k) → foldOps ops f k ≤ f k := by
  intro ops
  induction ops with
  | nil => intro f k _ _ _; exact Rat.le_refl
  | cons o rest ih =>
    intro f k hq hf hk
    rw [foldOps_cons]
    obtain ⟨hq0, hq1⟩ := hq o (List.mem_cons_self ..)
    have h1 := ih (opF o f) k (fun o' ho' => hq o' (List.mem_cons_of_mem _ ho'))
      (opF_nonneg hq0 hq1 hf) (fun o' ho' => hk o' (List.mem_cons_of_mem _ ho'))
    have h2 := opF_nontarget_le (k := k) hq0 hf (hk o (List.mem_cons_self ..))
    linarith

theorem pos_is_target {ops : List MOp} {r k : Nat} (hq : ∀ o ∈ ops, 0 ≤ o.2.2 ∧ o.2.2 ≤ 1) (hk : k ≠ r)
    (hp : 0 < foldOps ops (delta r) k) : ∃ o ∈ ops, o.2.1 = k := by
  by_contra hne
  have hall : ∀ o ∈ ops, o.2.1 ≠ k := fun o ho e => hne ⟨o, ho, e⟩
  have h := foldOps_nontarget_le ops (delta r) k hq (delta_nonneg r) hall
  rw [delta_ne hk] at h
  linarith

/-- a row that keeps nothing at home has been joined (contrapositive of `foldOps_own_pos` via
`foldOps_own_delta`) -/
theorem diag_zero_join {ops : List MOp} {r : Nat} (hns : NSAT ops) (hq : ∀ o ∈ ops, 0 ≤ o.2.2 ∧ o.2.2 ≤ 1)
    (h0 : foldOps ops (delta r) r = 0) : ∃ o ∈ ops, o.1 = r ∧ o.2.2 = 1 := by
  by_contra hne
  have hown : OwnOps r (ops.filter (fun o => o.1 = r)) := by
    intro o ho
    obtain ⟨h1, h2⟩ := List.mem_filter.mp ho
    exact ⟨by simpa using h2, hq o h1⟩
  have hlt : ∀ o ∈ ops.filter (fun o => o.1 = r), o.2.2 < 1 := by
    intro o ho
    obtain ⟨h1, h2⟩ := List.mem_filter.mp ho
    have hor : o.1 = r := by simpa using h2
    rcases Rat.le_iff_lt_or_eq.mp (hq o h1).2 with hl | he
    · exact hl
    · exact (hne ⟨o, h1, hor, he⟩).elim
  have hpos := foldOps_own_pos r _ (delta r) hown hlt (by rw [delta_self]; decide)
  rw [← foldOps_own_delta r ops hns, h0] at hpos
  exact Rat.lt_irrefl hpos

/-! ## mass conservation -/

theorem sumTo_congr {f g : RowF} : ∀ (N : Nat), (∀ k, 1 ≤ k → k ≤ N → f k = g k) → sumTo N f = sumTo N g := by
  intro N
  induction N with
  | zero => intro _; rfl
  | succ n ih =>
    intro h
    show sumTo n f + f (n + 1) = sumTo n g + g (n + 1)
    rw [ih (fun k h1 h2 => h k h1 (by omega)), h (n + 1) (by omega) (Nat.le_refl _)]

theorem sumTo_add (f g : RowF) : ∀ (N : Nat), sumTo N (fun k => f k + g k) = sumTo N f + sumTo N g := by
  intro N
  induction N with
  | zero => show (0 : Q) = 0 + 0; ring
  | succ n ih =>
    show sumTo n (fun k => f k + g k) + (f (n + 1) + g (n + 1)) = (sumTo n f + f (n + 1)) + (sumTo n g + g (n + 1))
    rw [ih]; ring

theorem sumTo_sub (f g : RowF) : ∀ (N : Nat), sumTo N (fun k => f k - g k) = sumTo N f - sumTo N g := by
  intro N
  induction N with
  | zero => show (0 : Q) = 0 - 0; ring
  | succ n ih =>
    show sumTo n (fun k => f k - g k) + (f (n + 1) - g (n + 1)) = (sumTo n f + f (n + 1)) - (sumTo n g + g (n + 1))
    rw [ih]; ring

theorem sumTo_ite (a : Nat) (c : Q) : ∀ (N : Nat),
    sumTo N (fun k => if k = a then c else 0) = if 1 ≤ a ∧ a ≤ N then c else 0 := by
  intro N
  induction N with
  | zero => show (0 : Q) = _; rw [if_neg (by omega)]
  | succ n ih =>
    show sumTo n (fun k => if k = a then c else 0) + (if n + 1 = a then c else 0) = _
    rw [ih]
    by_cases h1 : n + 1 = a
    · rw [if_pos h1, if_neg (by omega), if_pos (by omega)]; ring
    · rw [if_neg h1]
      by_cases h2 : 1 ≤ a ∧ a ≤ n
      · rw [if_pos h2, if_pos (by omega)]; ring
      · rw [if_neg h2, if_neg (by omega)]; ring

theorem opF_same {o : MOp} (f : RowF) (h : o.2.1 = o.1) : opF o f = f := by
  funext k
  unfold opF
  by_cases h1 : k = o.2.1
  · simp [h1, h]
  · have : ¬ k = o.1 := by rw [← h]; exact h1
    simp [h1, this]

theorem opF_split {o : MOp} (f : RowF) (h : o.2.1 ≠ o.1) :
    opF o f = fun k => f k + (if k = o.2.1 then f o.1 * o.2.2 else 0) - (if k = o.1 then f o.1 * o.2.2 else 0) := by
  funext k
  unfold opF
  by_cases h1 : k = o.2.1
  · have h2 : ¬ k = o.1 := by rw [h1]; exact h
    rw [if_pos h1, if_neg h, if_pos h1, if_neg h2]; ring
  · rw [if_neg h1, if_neg h1]
    by_cases h2 : k = o.1
    · rw [if_pos h2, if_pos h2, h2]; ring
    · rw [if_neg h2, if_neg h2]; ring

theorem opF_sum {o : MOp} (f : RowF) {N : Nat} (hb : 1 ≤ o.1 ∧ o.1 ≤ N ∧ 1 ≤ o.2.1 ∧ o.2.1 ≤ N) :
    sumTo N (opF o f) = sumTo N f := by
  by_cases h : o.2.1 = o.1
  · rw [opF_same f h]
  · rw [opF_split f h]
    rw [sumTo_sub (fun k => f k + (if k = o.2.1 then f o.1 * o.2.2 else 0)) (fun k => if k = o.1 then f o.1 * o.2.2 else 0) N,
      sumTo_add f (fun k => if k = o.2.1 then f o.1 * o.2.2 else 0) N, sumTo_ite, sumTo_ite,
      if_pos ⟨hb.2.2.1, hb.2.2.2⟩, if_pos ⟨hb.1, hb.2.1⟩]
    ring

/-- mass conservation -/
theorem foldOps_sum : ∀ (ops : List MOp) (f : RowF) (N : Nat),
    (∀ o ∈ ops, 1 ≤ o.1 ∧ o.1 ≤ N ∧ 1 ≤ o.2.1 ∧ o.2.1 ≤ N) → sumTo N (foldOps ops f) = sumTo N f := by
  intro ops
  induction ops with
  | nil => intro f N _; rfl
  | cons o rest ih =>
    intro f N hb
    rw [foldOps_cons, ih _ N (fun o' ho' => hb o' (List.mem_cons_of_mem _ ho')),
      opF_sum f (hb o (List.mem_cons_self ..))]

theorem sumTo_delta {N r : Nat} (h1 : 1 ≤ r) (h2 : r ≤ N) : sumTo N (delta r) = 1 := by
  have := sumTo_ite r 1 N
  rw [if_pos ⟨h1, h2⟩] at this
  exact this

/-! ## lists and functions -/

theorem sumTo_shift (f : RowF) : ∀ (n : Nat), sumTo (n + 1) f = f 1 + sumTo n (fun k => f (k + 1)) := by
  intro n
  induction n with
  | zero => show (0 : Q) + f 1 = f 1 + 0; ring
  | succ n ih =>
    show sumTo (n + 1) f + f (n + 1 + 1) = f 1 + (sumTo n (fun k => f (k + 1)) + f (n + 1 + 1))
    rw [ih]; ring

theorem qsumS_cons (x : Q) (l : List Q) : qsumS (x :: l) = x + qsumS l := rfl

theorem qsumS_eq_sumTo (l : List Q) : qsumS l = sumTo l.length (fun k => l.getD (k - 1) 0) := by
  induction l with
  | nil => rfl
  | cons x l ih =>
    rw [qsumS_cons, List.length_cons, sumTo_shift, ih]
    congr 1
    apply sumTo_congr
    intro k hk _
    show l.getD (k - 1) 0 = (x :: l).getD (k + 1 - 1) 0
    have e : k + 1 - 1 = (k - 1) + 1 := by omega
    rw [e, List.getD_cons_succ]

theorem row_sum_one {ops : List MOp} {N r : Nat} (row : List Q) (hlen : row.length = N)
    (hrow : ∀ k, row.getD k 0 = foldOps ops (delta r) (k + 1))
    (hb : ∀ o ∈ ops, 1 ≤ o.1 ∧ o.1 ≤ N ∧ 1 ≤ o.2.1 ∧ o.2.1 ≤ N) (h1 : 1 ≤ r) (h2 : r ≤ N) : qsumS row = 1 := by
  rw [qsumS_eq_sumTo, hlen, ← sumTo_delta h1 h2, ← foldOps_sum ops (delta r) N hb]
  apply sumTo_congr
  intro k hk _
  show row.getD (k - 1) 0 = _
  rw [hrow, Nat.sub_add_cancel hk]

theorem qsumS_nonneg {l : List Q} (hnn : ∀ y ∈ l, 0 ≤ y) : 0 ≤ qsumS l := by
  induction l with
  | nil => exact Rat.le_refl
  | cons a l ih =>
    rw [qsumS_cons]
    have h1 := hnn a (List.mem_cons_self ..)
    have h2 := ih (fun y hy => hnn y (List.mem_cons_of_mem _ hy))
    linarith

theorem le_qsumS_of_mem {l : List Q} {x : Q} (hnn : ∀ y ∈ l, 0 ≤ y) (hx : x ∈ l) : x ≤ qsumS l := by
  induction l with
  | nil => cases hx
  | cons a l ih =>
    rw [qsumS_cons]
    have ha := hnn a (List.mem_cons_self ..)
    have hl := qsumS_nonneg (fun y hy => hnn y (List.mem_cons_of_mem _ hy))
    rcases List.mem_cons.mp hx with e | hm
    · rw [e]; linarith
    · have := ih (fun y hy => hnn y (List.mem_cons_of_mem _ hy)) hm
      linarith

/-! ## the ancestry read off a row -/

theorem ancOf_mem {g : GState} {j : Nat} {po : Q × Nat} (h : po ∈ ancOf g j) :
    po.1 = lmGet g.lm j po.2 ∧ 0 < po.1 ∧ po.2 ≠ j := by
  unfold ancOf at h
  unfold lmGet
  obtain ⟨hm, hc⟩ := List.mem_filter.mp h
  simp only [Bool.and_eq_true, decide_eq_true_eq] at hc
  have hz := List.mem_zipIdx' hm
  refine ⟨?_, hc.2, fun e => hc.1 e.symm⟩
  rw [List.getD_eq_getElem?_getD, List.getElem?_eq_getElem hz.1, Option.getD_some, ← hz.2]

theorem ancOf_nodup (g : GState) (j : Nat) : ((ancOf g j).map (·.2)).Nodup := by
  unfold ancOf
  have hsub : (((g.lm.getD j []).zipIdx.filter (fun (po : Q × Nat) => j ≠ po.2 && po.1 > 0)).map (·.2)).Sublist
      ((g.lm.getD j []).zipIdx.map (·.2)) := List.Sublist.map _ List.filter_sublist
  have hnd : ((g.lm.getD j []).zipIdx.map (·.2)).Nodup := by
    rw [List.zipIdx_map_snd]
    exact List.nodup_range'
  exact hnd.sublist hsub

theorem ancOf_names_nodup (g : GState) (j : Nat) : ((ancOf g j).map (fun po => Ms.demeName po.2)).Nodup := by
  have h := ancOf_nodup g j
  have e : (ancOf g j).map (fun po => Ms.demeName po.2) = ((ancOf g j).map (·.2)).map Ms.demeName := by
    rw [List.map_map]; rfl
  rw [e]
  exact List.Nodup.map (fun a b hab => demeName_inj hab) h

theorem anc_sum_aux (j : Nat) : ∀ (row : List Q) (n : Nat), (∀ i, 0 ≤ row.getD i 0) →
    (∀ i, n + i = j → row.getD i 0 = 0) →
    qsumS (((row.zipIdx n).filter (fun (po : Q × Nat) => j ≠ po.2 && po.1 > 0)).map (·.1)) = qsumS row := by
  intro row
  induction row with
  | nil => intro n _ _; rfl
  | cons v row ih =>
    intro n hnn hd
    have ih' := ih (n + 1) (fun i => by have := hnn (i + 1); rwa [List.getD_cons_succ] at this)
      (fun i hi => by have := hd (i + 1) (by omega); rwa [List.getD_cons_succ] at this)
    rw [List.zipIdx_cons, qsumS_cons]
    by_cases hc : (decide (j ≠ n) && decide (v > 0)) = true
    · rw [List.filter_cons_of_pos (p := fun (po : Q × Nat) => decide (j ≠ po.2) && decide (po.1 > 0)) (a := (v, n)) hc,
        List.map_cons, qsumS_cons, ih']
    · rw [List.filter_cons_of_neg (p := fun (po : Q × Nat) => decide (j ≠ po.2) && decide (po.1 > 0)) (a := (v, n)) hc, ih']
      simp only [Bool.and_eq_true, decide_eq_true_eq, not_and] at hc
      have hv0 : 0 ≤ v := by have := hnn 0; rwa [List.getD_cons_zero] at this
      have hv : v = 0 := by
        by_cases hjn : j = n
        · have := hd 0 (by omega); rwa [List.getD_cons_zero] at this
        · have : ¬ v > 0 := hc hjn
          exact Rat.le_antisymm (Rat.not_lt.mp this) hv0
      rw [hv]; ring

/-- the positive off-diagonal entries of a non-negative row with zero diagonal sum to the whole row -/
theorem ancOf_sum (g : GState) (j : Nat) (hnn : ∀ k, 0 ≤ lmGet g.lm j k) (hd : lmGet g.lm j j = 0) :
    qsumS ((ancOf g j).map (·.1)) = qsumS (g.lm.getD j []) := by
  unfold ancOf
  unfold lmGet at hnn hd
  apply anc_sum_aux j (g.lm.getD j []) 0 hnn
  intro i hi
  have : i = j := by omega
  rw [this]; exact hd

/-- **the proportions `setAnc` writes** for a row that is `foldOps ops (delta r)` with zero diagonal -/
theorem ancOf_props {g : GState} {j N r : Nat} {ops : List MOp}
    (hrowlen : (g.lm.getD j []).length = N)
    (hrow : ∀ k, lmGet g.lm j k = foldOps ops (delta r) (k + 1))
    (hq : ∀ o ∈ ops, 0 ≤ o.2.2 ∧ o.2.2 ≤ 1)
    (hb : ∀ o ∈ ops, 1 ≤ o.1 ∧ o.1 ≤ N ∧ 1 ≤ o.2.1 ∧ o.2.1 ≤ N) (h1 : 1 ≤ r) (h2 : r ≤ N)
    (hd : lmGet g.lm j j = 0) :
    (∀ p ∈ (ancOf g j).map (·.1), 0 < p ∧ p ≤ 1) ∧ qsumS ((ancOf g j).map (·.1)) = 1 := by
  have hnn : ∀ k, 0 ≤ lmGet g.lm j k := by
    intro k; rw [hrow]; exact foldOps_nonneg ops _ hq (delta_nonneg r) _
  have hsum : qsumS ((ancOf g j).map (·.1)) = 1 := by
    rw [ancOf_sum g j hnn hd]
    exact row_sum_one (g.lm.getD j []) hrowlen hrow hb h1 h2
  have hpos : ∀ p ∈ (ancOf g j).map (·.1), 0 < p := by
    intro p hp
    obtain ⟨po, hpo, rfl⟩ := List.mem_map.mp hp
    exact (ancOf_mem hpo).2.1
  refine ⟨fun p hp => ⟨hpos p hp, ?_⟩, hsum⟩
  rw [← hsum]
  exact le_qsumS_of_mem (fun y hy => Rat.le_of_lt (hpos y hy)) hp

#print axioms ancOf_props
#print axioms diag_zero_join
#print axioms pos_is_target
#print axioms row_sum_one

end Demes.Proofs.MsAcc
