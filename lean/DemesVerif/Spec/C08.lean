/-
  C08 — a graph built from an ms command line describes the same demography.
  Declarative vocabulary (nothing here refers to the control flow of demes/ms.py):

  * `semEquiv A B`: two observables `DemogSem` (Spec/MsSem.lean) describe the same demography:
    the same populations with the same lifetimes; at every cut point (a segment boundary of
    either side inside the lifetime) exactly one segment of each side owns the time, and the
    two give the same size and the same growth rate there; the same migration step function;
    the same lineage-movement matrices.  (The two sides may cut a population's history into
    different segments: ms opens a segment at every option, a graph only where something
    changes.)
  * `SemAgree r₁ r₂`: both interpretations exist and are equivalent.
  * `popNames n`: `deme1 … deme{n}`, the deme that is population `k`.
  * `Tame`: the commands outside the shapes of the known findings F5, F21, F22, F6b.
  * `IgnoredInsert`, `SampleChange`: the two ways command lines may differ without any effect.
-/
import DemesVerif.Spec.MsSem
import DemesVerif.Spec.C15
namespace Demes.Spec.C08
open Demes
open Demes.Ms (Sz)
open Demes.Spec.MsSem

/-! ## equivalence of observables -/

/-- the (rational) growth rate of a segment: explicit on the ms side; on the graph side the one
the two end sizes determine (`size(t) = size · exp(-g·(t - t0))`; the symbolic sizes `c·exp(x)`
of one epoch always share their coefficient) -/
def segRate (s : Seg) : Option Q :=
  match s.growth with
  | some g => some g
  | none =>
    match s.sizeOld with
    | none => none
    | some o =>
      if s.fn = "constant" || o = s.size then some 0
      else if s.fn ≠ "exponential" then none
      else match s.t1 with
        | .inf => none
        | .fin b => if o.coef = s.size.coef ∧ b ≠ s.t0 then some ((s.size.expo - o.expo) / (b - s.t0)) else none

/-- the size at time `t` of the population while segment `s` owns `t` -/
def segValue (s : Seg) (t : Q) : Option Sz :=
  if t = s.t0 then some s.size else (segRate s).map (fun g => s.size.mulExp (-g * (t - s.t0)))

def segOwns (s : Seg) (t : Q) : Bool := decide (s.t0 ≤ t) && decide (ETime.fin t < s.t1)

/-- the cut points of a pair of populations -/
def cuts (a b : PopSem) : List Q :=
  b.lo :: ((a.segs.map (·.t0) ++ b.segs.map (·.t0)).filter (fun t => decide (b.lo ≤ t) && decide (ETime.fin t < b.hi)))

def popEquiv (a b : PopSem) : Bool :=
  a.id = b.id && a.lo = b.lo && a.hi = b.hi &&
  (cuts a b).all (fun t =>
    match a.segs.filter (segOwns · t), b.segs.filter (segOwns · t) with
    | [sa], [sb] =>
      (segValue sa t).isSome && segValue sa t = segValue sb t && (segRate sa).isSome && segRate sa = segRate sb
    | _, _ => false)

def semEquiv (A B : DemogSem) : Bool :=
  A.pops.length = B.pops.length && (A.pops.zip B.pops).all (fun ab => popEquiv ab.1 ab.2)
  && A.migs = B.migs && A.moves = B.moves

/-- the first two components of `semEquiv`: the same populations with the same lifetimes, sizes and
growth rates at every cut point, and the same migration step function (lineage movements left
aside) -/
def semEquivSizesMigs (A B : DemogSem) : Bool :=
  A.pops.length = B.pops.length && (A.pops.zip B.pops).all (fun ab => popEquiv ab.1 ab.2)
  && A.migs = B.migs

/-- both demographies exist and are equivalent -/
def SemAgree (r₁ r₂ : Except String DemogSem) : Bool :=
  match r₁, r₂ with
  | .ok a, .ok b => semEquiv a b
  | _, _ => false

/-- `deme1 … deme{n}`: population `k` is the deme named `deme{k}` -/
def popNames (n : Nat) : List String := (List.range n).map Demes.Ms.demeName

/-- the demography of a `from_ms` result, read with "population k is deme{k}" (populations that
`from_ms` dropped as transient simply have no deme) -/
def resultSem (mg : Demes.Ms.MsGraph) : Except String DemogSem :=
  msGraphSem mg (some (popNames mg.doc.numPops))

/-- the same when `deme_names` were given: population `k` is the deme named `names[k-1]` -/
def resultSemNamed (mg : Demes.Ms.MsGraph) (names : List String) : Except String DemogSem :=
  msGraphSem mg (some names)

/-- the lineage movements only -/
def movesOf (r : Except String DemogSem) : Option (List Move) := r.toOption.map (·.moves)

/-! ## the ms interpreter on a parsed command (`msSem = parse ≫ runState ≫ finishSem`) -/

/-- the interpreter state before the first option -/
def initSt (pr : Parsed) (N0 : Q) : St :=
  let n := pr.npop
  let mat0 : Mat := (List.range n).map (fun i => (List.range n).map (fun j =>
    if i = j then 0 else pr.islandRate / ((n : Q) - 1) / (4 * N0)))
  { pops := List.replicate n { lo := 0, t0 := 0, size0 := Sz.ofQ N0 }, mat := mat0, snaps := [(0, mat0)] }

/-- the options in the order they are applied, grouped by time -/
def cmdGroups (pr : Parsed) : List (List Cmd) :=
  (pr.initial ++ pr.events.foldr insertCmd []).splitBy (fun a b => a.t == b.t)

/-- the interpreter state after the last option -/
def runState (pr : Parsed) (N0 : Q) : Except String St :=
  (cmdGroups pr).foldlM (MsSem.stepGroup N0) (initSt pr N0)

/-- the observable of a final interpreter state -/
def finishSem (s : St) : DemogSem :=
  let pops : List PopSem := (s.pops.zipIdx).filterMap (fun (p, k) =>
    if decide (ETime.fin p.lo < p.hi) then
      let segs := if decide (ETime.fin p.t0 < p.hi) then p.segs ++ [mkSeg p.t0 p.hi p.size0 p.growth] else p.segs
      some { id := k + 1, lo := p.lo, hi := p.hi, segs := segs }
    else none)
  { pops := pops, migs := migSegs s.snaps s.pops.length, moves := s.moves }

/-- `msSem` after parsing -/
def runParsed (pr : Parsed) (N0 : Q) : Except String DemogSem := do
  if N0 ≤ 0 then throw "N0 must be positive"
  let s ← runState pr N0
  pure (finishSem s)

theorem msSem_eq (tokens : List String) (N0 : Q) :
    msSem tokens N0 = (do
      if N0 ≤ 0 then throw "N0 must be positive"
      let pr ← parse tokens
      let s ← runState pr N0
      pure (finishSem s)) := rfl

/-- the ms option that a record of the argparse layer stands for (finite arguments) -/
def cmdOf : Demes.Ms.Event Num → Option Cmd
  | .growthRateChange _ (.fin t) (.fin a) => some (.setGrowthAll t a)
  | .popGrowthRateChange _ (.fin t) i (.fin a) => some (.setGrowth t i.toNat a)
  | .sizeChange _ (.fin t) (.fin x) => some (.setSizeAll t x)
  | .popSizeChange o (.fin t) i (.fin x) => some (.setSize t i.toNat x (decide (o = "-en")))
  | .migRateChange _ (.fin t) (.fin x) => some (.setMigAll t x)
  | .migEntryChange _ (.fin t) i j (.fin m) => some (.setMigEntry t i.toNat j.toNat m)
  | .migMatrixChange o (.fin t) npop mm => some (.setMigMatrix t (if o = "-ma" then none else some npop.toNat) mm)
  | .split _ (.fin t) i (.fin p) => some (.split t i.toNat p)
  | .join _ (.fin t) i j => some (.join t i.toNat j.toNat)
  | _ => none

/-- the parsed arguments of the Model (`parse_known_args`) and the command as the ms interpreter
parses it denote the same options: the same number of populations and island rate, the same
initial-state options and the same events, in order (`cmdOf`); initial-state options have time
0 and event times are non-negative (both parsers check this) -/
structure ArgsAgree (args : Demes.Ms.Args) (pr : Parsed) : Prop where
  npop : (match args.structure_ with | none => 1 | some st => st.npop.toNat) = pr.npop
  npos : 1 ≤ pr.npop
  rate : (match args.structure_ with | none => Num.fin 0 | some st => st.rate) = Num.fin pr.islandRate
  initial : args.initialState.map cmdOf = pr.initial.map some
  events : args.demographicEvents.map cmdOf = pr.events.map some
  initial0 : ∀ c ∈ pr.initial, c.t = 0
  nonneg : ∀ c ∈ pr.events, 0 ≤ c.t

deriving instance DecidableEq for Cmd

/-- `ArgsAgree`, decided -/
def argsAgreeB (args : Demes.Ms.Args) (pr : Parsed) : Bool :=
  decide ((match args.structure_ with | none => 1 | some st => st.npop.toNat) = pr.npop)
  && decide (1 ≤ pr.npop)
  && decide ((match args.structure_ with | none => Num.fin 0 | some st => st.rate) = Num.fin pr.islandRate)
  && decide (args.initialState.map cmdOf = pr.initial.map some)
  && decide (args.demographicEvents.map cmdOf = pr.events.map some)
  && pr.initial.all (fun c => decide (c.t = 0))
  && pr.events.all (fun c => decide (0 ≤ c.t))

theorem argsAgree_of_B {args : Demes.Ms.Args} {pr : Parsed} (h : argsAgreeB args pr = true) : ArgsAgree args pr := by
  simp only [argsAgreeB, Bool.and_eq_true, decide_eq_true_eq, List.all_eq_true] at h
  exact ⟨h.1.1.1.1.1.1, h.1.1.1.1.1.2, h.1.1.1.1.2, h.1.1.1.2, h.1.1.2, h.1.2, h.2⟩

/-- both parsers accept the command and agree on what it says -/
def parsersAgree (tokens : List String) : Bool :=
  match Demes.Ms.parseKnownArgs tokens, parse tokens with
  | .ok args, .ok pr => argsAgreeB args pr
  | _, _ => false

/-! ## size functions (the vocabulary of `build_sizes`) -/

/-- the size inside a closed Builder epoch `[e.endTime, hi)`: exponential interpolation between
`end_size` (at `end_time`) and `start_size` (at `hi`) -/
def interpSize (e : Demes.Ms.BEpoch) (hi t : Q) : Sz :=
  match e.startSize with
  | some z => ⟨e.endSize.coef, e.endSize.expo + (z.expo - e.endSize.expo) * (t - e.endTime) / (hi - e.endTime)⟩
  | none => e.endSize

/-- the size at `t` according to the closed epochs (newest first) below `hi` -/
def olderSizeAt : List Demes.Ms.BEpoch → Q → Q → Option Sz
  | [], _, _ => none
  | e :: r, hi, t => if e.endTime ≤ t then some (interpSize e hi t) else olderSizeAt r e.endTime t

/-- the size of a Builder deme at time `t`: the open head epoch grows at its `growth_rate`
from its `end_size`; `none` before the deme's first epoch -/
def demeSizeAt (d : Demes.Ms.BDeme) (t : Q) : Option Sz :=
  match d.epochs with
  | [] => none
  | e :: r =>
    if e.endTime ≤ t then some (e.endSize.mulExp (-(e.growthRate.getD 0) * (t - e.endTime)))
    else olderSizeAt r e.endTime t

/-- the size at `t` according to the closed segments of an ms population -/
def segsSizeAt : List Seg → Q → Option Sz
  | [], _ => none
  | s :: r, t =>
    if decide (s.t0 ≤ t) && decide (ETime.fin t < s.t1) then some (s.size.mulExp (-(s.growth.getD 0) * (t - s.t0)))
    else segsSizeAt r t

/-- the size of an ms population at time `t`; `none` before it exists -/
def popSizeAt (p : Pop) (t : Q) : Option Sz :=
  if p.t0 ≤ t then some (p.sizeAt t) else segsSizeAt p.segs t

/-! ## the fragment outside the known findings -/

def isSplitC : Cmd → Bool
  | .split .. => true
  | _ => false

def isJoinC : Cmd → Bool
  | .join .. => true
  | _ => false

/-- the `-es` / `-ej` options of one time value, in command-line order -/
def movesAt (pr : Parsed) (t : Q) : List Cmd := pr.events.filter (fun c => isMove c && c.t == t)

/-- the same-time group is a single `-es`, a single `-ej`, or one admixture pair
`-es t i p -ej t a b` (the join written after the split) -/
def tameGroup : List Cmd → Bool
  | [] => true
  | [_] => true
  | [a, b] => isSplitC a && isJoinC b
  | _ => false

/-- a parsed command outside the shapes of F5, F21, F22 (at every time at most one `-es`,
one `-ej`, or one `-es`/`-ej` pair) and of F6b (no `-es` with `p = 0`) -/
def Tame (pr : Parsed) : Bool :=
  pr.events.all (fun c => tameGroup (movesAt pr c.t)) &&
  pr.events.all (fun c => match c with | .split _ _ p => p ≠ 0 | _ => true)

/-- no size / growth option names or covers a population at the very time it is joined (F4:
such a command is accepted or rejected depending on the order of the two options) -/
def NoSizeAtJoin (pr : Parsed) : Bool :=
  pr.events.all (fun c => match c with
    | .join t i _ => pr.events.all (fun d => match d with
        | .setSize t' i' _ _ => !(t' == t && i' == i)
        | .setGrowth t' i' _ => !(t' == t && i' == i)
        | .setSizeAll t' _ => !(t' == t)
        | .setGrowthAll t' _ => !(t' == t)
        | _ => true)
    | _ => true)

/-- the size at `t` of a finished Builder deme (after "resolve/remove growth_rate in oldest
epochs": every epoch has its `start_size`): the oldest epoch runs up to the deme's `start_time`
(constant if that is `∞`) -/
def closedSizeAt (epochs : List Demes.Ms.BEpoch) (start : ETime) (t : Q) : Option Sz :=
  match epochs with
  | [] => none
  | e :: r =>
    if e.endTime ≤ t then
      (match start with
       | .fin st => some (interpSize e st t)
       | .inf => some e.endSize)
    else olderSizeAt r e.endTime t

/-- the segments of a population in the observable of `msSem` (`finishSem`) -/
def finalSegs (p : Pop) : List Seg :=
  if decide (ETime.fin p.t0 < p.hi) then p.segs ++ [mkSeg p.t0 p.hi p.size0 p.growth] else p.segs

/-! ## migration rate functions (the vocabulary of `build_migrations`) -/

/-- Builder: the entry (dest `j`, source `k`), in ms units, of the matrix in force at time `t`;
`mm_list` and `mm_end_times` list the most ancient matrix first -/
def mmRateAt : List Demes.Ms.MM → List Q → Nat → Nat → Q → Option Num
  | m :: ms, e :: es, j, k, t => if e ≤ t then some (Demes.Ms.mmGet m j k) else mmRateAt ms es j k t
  | _, _, _, _, _ => none

/-- interpreter: the entry of the last snapshot taken at or before `t` -/
def snapRateAt (snaps : List (Q × Mat)) (i j : Nat) (t : Q) : Option Q :=
  (snaps.reverse.find? (fun s => decide (s.1 ≤ t))).map (fun s => matGet s.2 i j)

/-- ms units to per-generation rate: `M / (4 N0)` -/
def scaleRate (N0 : Q) (x : Num) : Num := Demes.Ms.numDivQ x (4 * N0)

/-! ## differences between command lines that have no effect -/

/-- argparse takes the string for an argument (`'A'` in `_parse_optional`): it does not start
with `-`, or it looks like a negative number, or it contains a blank -/
def isArgTok (s : String) : Bool := match Demes.Ms.classify s with | .ok Demes.Ms.Cls.arg => true | _ => false

/-- argparse takes the string for an option it does not know (`'O'`, no registered option
matches it, not even as a prefix): `-t`, `-T`, `-r`, `-seeds`, `-p`, `-s`, `-L`, `-c`, … -/
def isUnknownTok (s : String) : Bool := match Demes.Ms.classify s with | .ok Demes.Ms.Cls.unknown => true | _ => false

/-! ## the command lines on which the two parsers read the same options

argparse (`parse_known_args`) and the ms manual cut a command line into options in different
ways: argparse gives an option the strings after it that do not look like options (`isArgTok`;
exactly `n` of them for a fixed-arity option, all of them for `-I`, `-ma`, `-ema`), skips every
string it cannot place, and accepts attached arguments (`-G0.5`, `-G=0.5`); the manual gives every
option a fixed number of strings, whatever they look like.  `PlainTokens` is the set of command
lines written the way the manual and `to_ms` write them: a sequence of groups, each an option
followed by exactly the arguments the manual gives it, all of which argparse takes for arguments. -/

/-- the options of the table of `build_parser` -/
def knownFlags : List String := Demes.Ms.arity.map (·.1)

/-- the options without demographic meaning of the ms manual -/
def ignoredFlags : List String := ignoredArity.map (·.1)

/-- a string that is an argument for argparse, or is exactly one of the options of the two tables
(no abbreviation, no attached argument, no `--`, no other unknown option) -/
def plainTok (s : String) : Bool := isArgTok s || knownFlags.contains s || ignoredFlags.contains s

/-- the number of strings at the head of the list that argparse takes for arguments -/
def argRun : List String → Nat
  | [] => 0
  | s :: r => if isArgTok s then argRun r + 1 else 0

/-- the number of populations announced by the first `-I` (1 without `-I`) -/
def structNpop : List String → Nat
  | [] => 1
  | s :: r =>
    if s = "-I" then
      match r with
      | n :: _ => ((Demes.Ms.pyInt n).getD 1).toNat
      | [] => 1
    else structNpop r

/-- the option `flag`, followed by the strings `rest`, has exactly the arguments of the ms manual:
the strings after it that argparse takes for arguments (`argRun rest`) are
* `-I`: `npop`, `npop` sample sizes and possibly a migration rate (a number not starting with `-`);
* `-ma`: `npop²` matrix entries (`npop` of the command's `-I`);
* `-ema`: `t`, `npop`, `npop²` matrix entries;
* any other option of `build_parser`: as many as its `nargs`;
* an option without demographic meaning: as many as the manual says (`ignoredArity`). -/
def groupOK (npop0 : Nat) (flag : String) (rest : List String) : Bool :=
  let k := argRun rest
  if flag = "-I" then
    match rest with
    | nS :: _ =>
      match Demes.Ms.pyInt nS with
      | some n =>
        decide (1 ≤ n) &&
          (k == 1 + n.toNat ||
            (k == 2 + n.toNat && (isNumberLike (rest.getD (1 + n.toNat) "") && !((rest.getD (1 + n.toNat) "").startsWith "-"))))
      | none => false
    | [] => false
  else if flag = "-ma" then k == npop0 * npop0
  else if flag = "-ema" then
    match rest with
    | _ :: nS :: _ =>
      match Demes.Ms.pyInt nS with
      | some n => decide (1 ≤ n) && k == 2 + n.toNat * n.toNat
      | none => false
    | _ => false
  else
    match Demes.Ms.arity.lookup flag with
    | some (.fixed n) => k == n
    | some .plus => false
    | none =>
      match ignoredArity.lookup flag with
      | some n => k == n
      | none => false

/-- `p s r` holds wherever the list is `… s :: r` -/
def everySuffix (p : String → List String → Bool) : List String → Bool
  | [] => true
  | s :: r => p s r && everySuffix p r

/-- a plain ms command line: every string is an argument or exactly an option of the tables; the
line starts with an option; `-I` is given at most once; every option is followed by exactly the
arguments of the manual (`groupOK`) -/
def PlainTokens (tokens : List String) : Bool :=
  tokens.all plainTok
  && (match tokens with | s :: _ => !isArgTok s | [] => true)
  && decide (tokens.count "-I" ≤ 1)
  && everySuffix (fun flag rest => isArgTok flag || groupOK (structNpop tokens) flag rest) tokens

/-- the string does not read as `inf` or `nan` -/
def finTok (s : String) : Bool :=
  match Demes.Ms.pyFloat s with
  | some (.fin _) => true
  | some _ => false
  | none => true

/-- no string of the command line reads as `inf` or `nan` (the ms interpreter has no meaning for
them; the validators of ms.py let them through in several positions) -/
def FiniteToks (tokens : List String) : Bool := tokens.all finTok

/-! ## the final deme order -/

/-- `ys` is `xs` stably sorted by descending `key` (a start time, possibly infinite): a
permutation, in descending key order, elements with equal keys in their original order -/
structure StableSortedDescE {α} (key : α → ETime) (xs ys : List α) : Prop where
  perm : ys.Perm xs
  sorted : ys.Pairwise (fun a b => key b ≤ key a)
  stable : ∀ k : ETime, ys.filter (fun a => key a = k) = xs.filter (fun a => key a = k)


/-! ## after the event loop (the vocabulary of the post-pass theorems) -/

section Post
open Demes.Ms

/-- the migration is active at `t`: `end_time ≤ t < start_time` -/
def covers (t : Q) (m : BMigration) : Bool := decide (m.endTime ≤ t) && decide (ETime.fin t < m.startTime)

/-- the migration goes into deme `j` from deme `k` (backwards in time: lineages move `j → k`) -/
def pairIs (names : List String) (j k : Nat) (m : BMigration) : Bool :=
  decide (m.dest = names.getD j "") && decide (m.source = names.getD k "")

/-- the rates of the migrations of the pair `(j, k)` that are active at `t` -/
def activeRates (names : List String) (migs : List BMigration) (j k : Nat) (t : Q) : List Num :=
  ((migs.filter (pairIs names j k)).filter (covers t)).map (·.rate)

/-- what `activeRates` must be when the matrix entry in force is `r?`: nothing where no matrix is
in force or the entry is zero, exactly the entry otherwise -/
def expectedRates : Option Num → List Num
  | some r => if numEq r (.fin 0) then [] else [r]
  | none => []

/-- every emitted migration goes between two different demes of the list and has
`end_time < start_time` -/
def MigsWF (names : List String) (migs : List BMigration) : Prop :=
  ∀ mg ∈ migs, ∃ j k, j < names.length ∧ k < names.length ∧ j ≠ k ∧ pairIs names j k mg = true
    ∧ ETime.fin mg.endTime < mg.startTime

/-- `m["rate"] /= 4 * N0` -/
def scaleMig (N0 : Q) (m : BMigration) : BMigration := { m with rate := numDivQ m.rate (4 * N0) }

/-- a deme `_remove_transient_demes` deletes: finite non-zero `start_time` equal to the end time
of its last epoch -/
def isTransient (d : BDeme) : Bool :=
  match d.startTime with
  | .fin st => decide (st ≠ 0) && decide (st = lastEndTime d)
  | .inf => false

/-- what the assertions of `_remove_transient_demes` say about a deleted deme: no pulse, no
migration and none of the demes `cur` (as an ancestor) refers to it -/
def Unreferenced (doc : MsDoc) (cur : List BDeme) (d : BDeme) : Prop :=
  (∀ p ∈ doc.pulses.getD [], d.name ∉ p.sources ∧ p.dest ≠ d.name) ∧
  (∀ m ∈ doc.migrations, m.source ≠ d.name ∧ m.dest ≠ d.name) ∧
  (∀ o ∈ cur, d.name ∉ o.ancestors.getD [])

/-- the epochs `Demes.resolve` builds from the explicit epoch list of a Builder deme -/
def epochsOf (tab : List (Sz × Q)) : ETime → List BEpoch → List Epoch
  | _, [] => []
  | st, e :: r =>
    { startTime := st, endTime := e.endTime,
      startSize := szToQ tab (e.startSize.getD e.endSize), endSize := szToQ tab e.endSize,
      sizeFunction := if szToQ tab (e.startSize.getD e.endSize) = szToQ tab e.endSize then "constant" else "exponential",
      selfingRate := 0, cloningRate := 0 } :: epochsOf tab (.fin e.endTime) r

/-- the segment `graphSem` shows for a closed Builder epoch that runs up to `st` (sizes decoded) -/
def gseg (st : ETime) (e : BEpoch) : Seg :=
  { t0 := e.endTime, t1 := st, size := e.endSize, growth := none, sizeOld := some (e.startSize.getD e.endSize),
    fn := if e.startSize.getD e.endSize = e.endSize then "constant" else "exponential" }

/-- the segments `graphSem` shows for the closed epochs (most ancient first) of a deme that
starts at `st` -/
def gsegs : ETime → List BEpoch → List Seg
  | _, [] => []
  | st, e :: r => gseg st e :: gsegs (.fin e.endTime) r

/-- the segment `graphSem` shows for an epoch (`dec` decodes a stored size) -/
def epSeg (dec : Q → Sz) (e : Epoch) : Seg :=
  { t0 := e.endTime, t1 := e.startTime, size := dec e.endSize, growth := none,
    sizeOld := some (dec e.startSize), fn := e.sizeFunction }

end Post
/-! ## link C: the lineage movements of one time group

An ms time group moves lineages by `-es` / `-ej`.  Read as moves "a fraction `q` of the lineages
of population `a` goes to population `h`" (`groupOps`): `-es i p` immediately followed (among the
`-es`/`-ej` of the group) by `-ej n+1 k`, `n+1` the population the split creates, is an admixture
`(i, k, 1-p)`; any other `-es i p` is `(i, n+1, 1-p)`; `-ej i j` is `(i, j, 1)`.  `GoodGroup`: no
population is split or joined after it has received lineages in the same group, every split has
`0 < p ≤ 1`, and the group is not at time 0.  `groupMoves` reads the movement rows of one time off
Builder data (demes with `start_time` / `ancestors` / `proportions`, pulses) the way `graphSem`
reads them off a graph. -/

/-- a pending `-es i p` (it created population `n`): the move `(i, n, q)`, `q = 1 - p` -/
def flushOp (n : Nat) : Option (Nat × Q) → List (Nat × Nat × Q)
  | some (i, q) => [(i, n, q)]
  | none => []

/-- `groupOps` with its state: `n` populations exist; `pend = some (i, q)` when the last
`-es`/`-ej` option seen was `-es i (1-q)` (which created population `n`) -/
def groupOpsAux : Nat → Option (Nat × Q) → List Cmd → List (Nat × Nat × Q)
  | n, pend, [] => flushOp n pend
  | n, pend, .split _ i p :: tl => flushOp n pend ++ groupOpsAux (n + 1) (some (i, 1 - p)) tl
  | n, pend, .join _ a k :: tl =>
    match pend with
    | some (i, q) => if a = n then (i, k, q) :: groupOpsAux n none tl else (i, n, q) :: (a, k, 1) :: groupOpsAux n none tl
    | none => (a, k, 1) :: groupOpsAux n none tl
  | n, pend, _ :: tl => groupOpsAux n pend tl

/-- the moves `(a, h, q)` (populations numbered from 1) of the `-es` / `-ej` options of one time
group, in command order; `n` populations exist before the group -/
def groupOps (n : Nat) (cmds : List Cmd) : List (Nat × Nat × Q) := groupOpsAux n none cmds

/-- no move has as its source `a` a population that was the target `h` of an earlier move -/
def noSourceAfterTarget : List (Nat × Nat × Q) → Bool
  | [] => true
  | o :: r => r.all (fun o' => decide (o.2.1 ≠ o'.1)) && noSourceAfterTarget r

/-- a time group (options of one time, command order; `n` populations exist before it) whose
lineage movements `from_ms` encodes faithfully -/
def GoodGroup (n : Nat) (cmds : List Cmd) : Bool :=
  noSourceAfterTarget (groupOps n cmds)
  && cmds.all (fun c => match c with | .split _ _ p => decide (0 < p) && decide (p ≤ 1) | _ => true)
  && (cmds.filter isMove).all (fun c => decide (0 < c.t))

/-- every time group is good; `n` populations exist before the first one -/
def goodGroups : Nat → List (List Cmd) → Bool
  | _, [] => true
  | n, g :: rest => GoodGroup n g && goodGroups (n + (g.filter isSplitC).length) rest

/-- the fragment on which the lineage movements are proved: every time group is a `GoodGroup` -/
def Tame' (pr : Parsed) : Bool := goodGroups pr.npop (cmdGroups pr)

/-! ### reading the movements of one time off Builder data -/

/-- `epochs[-1].end_time` -/
def bEndTime (d : Demes.Ms.BDeme) : Q := (d.epochs.getLast?.map (·.endTime)).getD 0

/-- the ancestors of a Builder deme as `resolve` reads them -/
def bAncestors (d : Demes.Ms.BDeme) : List String := d.ancestors.getD []

/-- the proportions of a Builder deme as `resolve` reads them (one ancestor: `[1]` by default) -/
def bProportions (d : Demes.Ms.BDeme) : List Q :=
  d.proportions.getD (if (bAncestors d).length = 1 then [1] else [])

/-- a deme `_remove_transient_demes` keeps -/
def nonTransient (d : Demes.Ms.BDeme) : Bool :=
  match d.startTime with
  | .inf => true
  | .fin st => st = 0 || st ≠ bEndTime d

/-- one pulse, applied to every row (as in `graphSem`) -/
def pulseRows (dest : Nat) (srcs : List Nat) (props : List Q) (L : List (Nat × Row)) : List (Nat × Row) :=
  let tot := props.foldl (· + ·) 0
  L.map (fun (ir : Nat × Row) =>
    let m := ir.2.get dest
    if m = 0 then ir else
    (ir.1, (srcs.zip props).foldl (fun (r : Row) sp => r.add sp.1 (m * sp.2)) (ir.2.set dest (m * (1 - tot)))))

/-- the ancestry of one deme born at the time, applied to every row (as in `graphSem`) -/
def bornRows (me : Nat) (ancs : List Nat) (props : List Q) (L : List (Nat × Row)) : List (Nat × Row) :=
  L.map (fun (ir : Nat × Row) =>
    let m := ir.2.get me
    if m = 0 then ir else
    (ir.1, (ancs.zip props).foldl (fun (r : Row) ap => r.add ap.1 (m * ap.2)) (ir.2.set me 0)))

/-- the movement rows at time `T` that Builder data denote, computed as `graphSem` computes them
for a graph: rows are the (non-transient) demes that exist just before `T`; the pulses of time
`T` are applied in the order the Builder appended them (a graph lists them in the opposite order
and `graphSem` walks that list backwards), then the ancestry of the demes that start at `T` -/
def groupMoves (names : List String) (T : Q) (demes : List Demes.Ms.BDeme) (pulses : List Demes.Ms.BPulse) :
    Except String (List (Nat × Row)) := do
  let ds := demes.filter nonTransient
  let rowsD := ds.filter (fun d => decide (bEndTime d < T) && decide (ETime.fin T ≤ d.startTime))
  let L0 ← rowsD.mapM (fun d => do let id ← popId names d.name; pure (id, ([(id, (1 : Q))] : Row)))
  let ps := pulses.filter (fun p => p.time = T)
  let L1 ← ps.foldlM (fun (L : List (Nat × Row)) (p : Demes.Ms.BPulse) => do
    let dest ← popId names p.dest
    let srcs ← p.sources.mapM (popId names)
    pure (pulseRows dest srcs p.proportions L)) L0
  let born := ds.filter (fun d => d.startTime = ETime.fin T)
  born.foldlM (fun (L : List (Nat × Row)) (d : Demes.Ms.BDeme) => do
    let me ← popId names d.name
    let ancs ← (bAncestors d).mapM (popId names)
    pure (bornRows me ancs (bProportions d) L)) L1

/-! ## the fragment `Tame'` without its time-0 clause

`from_ms` rejects every command with an `-ej` at time 0, and every command in which an `-es` at time 0
moves lineages (`Theorems/C08.lean` §10); so the third clause of `GoodGroup` follows from the first
two and the acceptance by `from_ms`, except for the harmless `-es 0 i 1`. -/

/-- `GoodGroup` without "a group with `-es`/`-ej` is not at time 0" -/
def GoodGroup12 (n : Nat) (cmds : List Cmd) : Bool :=
  noSourceAfterTarget (groupOps n cmds)
  && cmds.all (fun c => match c with | .split _ _ p => decide (0 < p) && decide (p ≤ 1) | _ => true)

def goodGroups12 : Nat → List (List Cmd) → Bool
  | _, [] => true
  | n, g :: rest => GoodGroup12 n g && goodGroups12 (n + (g.filter isSplitC).length) rest

/-- every time group satisfies the first two clauses of `GoodGroup` -/
def Tame'' (pr : Parsed) : Bool := goodGroups12 pr.npop (cmdGroups pr)

/-! ## a wider fragment: a population may be moved on after it has received a join

`GoodGroup` forbids every move whose source was the target of an earlier move of the group.  `from_ms`
also converts correctly a group in which a population `b` is split or joined after another population
was joined **into** it (`-ej a b … -es b p`, `-ej a b … -ej b c`): the deme of a joined population gets
its whole row of the lineage-movement matrix as its ancestry.  What stays excluded: a population is
split or joined after it received lineages by an `-es` (F5, F21), and a chain of joins `a → b → c`
followed by a move out of `c` (F22).  `GoodGroup2` has no clause about time 0. -/

/-- a population is the source of a move after it was the target of an earlier move only if the
earlier move is a join (`q = 1`) -/
def sourceAfterJoinOnly : List (Nat × Nat × Q) → Bool
  | [] => true
  | o :: r => r.all (fun o' => decide (o.2.1 ≠ o'.1) || decide (o.2.2 = 1)) && sourceAfterJoinOnly r

/-- for the earlier move `x`: a later join `y` of the target of `x` is not followed by a move out of the
target of `y` -/
def chainAux (x : Nat × Nat × Q) : List (Nat × Nat × Q) → Bool
  | [] => true
  | y :: r => (decide (x.2.1 ≠ y.1) || decide (y.2.2 ≠ 1) || r.all (fun z => decide (z.1 ≠ y.2.1))) && chainAux x r

/-- a chain of joins `a → b`, `b → c` ends at `c`: no later move has `c` as its source -/
def chainsEnd : List (Nat × Nat × Q) → Bool
  | [] => true
  | x :: r => chainAux x r && chainsEnd r

/-- a time group (options of one time, command order; `n` populations exist before it) of the wider
fragment: the moves `groupOps` reads off it satisfy `sourceAfterJoinOnly` and `chainsEnd`, and every `-es`
has `0 < p ≤ 1` -/
def GoodGroup2 (n : Nat) (cmds : List Cmd) : Bool :=
  sourceAfterJoinOnly (groupOps n cmds) && chainsEnd (groupOps n cmds)
  && cmds.all (fun c => match c with | .split _ _ p => decide (0 < p) && decide (p ≤ 1) | _ => true)

def goodGroups2 : Nat → List (List Cmd) → Bool
  | _, [] => true
  | n, g :: rest => GoodGroup2 n g && goodGroups2 (n + (g.filter isSplitC).length) rest

/-- the wider fragment: every time group is a `GoodGroup2` -/
def Tame2 (pr : Parsed) : Bool := goodGroups2 pr.npop (cmdGroups pr)

/-! ## a third fragment: the moves of a group may form chains of pulses

`GoodGroup` and `GoodGroup2` forbid a move out of a population that received lineages by an `-es` earlier in
the group.  `from_ms` converts such a chain correctly when both moves end up as pulses — the graph applies the
pulses of one time in the order the Builder wrote them, which is command order.  What matters is that the
populations **joined** in the group (whose demes get their whole row of the lineage-movement matrix as
ancestry, applied after all pulses) never receive lineages in the group, and that only populations that
existed before the group are moved out of (a population created by an `-es` of the group has no row in the
Builder's matrix; the `-ej` that immediately follows its `-es` is read with it as one admixture by `groupOps`
and does not count).  Every time group `to_ms` writes for a graph whose pulse proportions are below 1 has this
shape.  `GoodGroup3` has no clause about time 0. -/

/-- every move has as its source a population that existed before the group -/
def sourcesOld (n : Nat) (ops : List (Nat × Nat × Q)) : Bool := ops.all (fun o => decide (o.1 ≤ n))

/-- no population joined in the group (the source of a move with `q = 1`) is the target of a move of the group -/
def joinedNeverTarget (ops : List (Nat × Nat × Q)) : Bool :=
  ops.all (fun o => decide (o.2.2 ≠ 1) || ops.all (fun o' => decide (o'.2.1 ≠ o.1)))

/-- a time group (options of one time, command order; `n` populations exist before it) of the third fragment:
on the moves `groupOps` reads off it, every source existed before the group (`sourcesOld`) and no population
joined in the group is the target of a move (`joinedNeverTarget`); every `-es` has `0 < p ≤ 1` -/
def GoodGroup3 (n : Nat) (cmds : List Cmd) : Bool :=
  sourcesOld n (groupOps n cmds) && joinedNeverTarget (groupOps n cmds)
  && cmds.all (fun c => match c with | .split _ _ p => decide (0 < p) && decide (p ≤ 1) | _ => true)

def goodGroups3 : Nat → List (List Cmd) → Bool
  | _, [] => true
  | n, g :: rest => GoodGroup3 n g && goodGroups3 (n + (g.filter isSplitC).length) rest

/-- the third fragment: every time group is a `GoodGroup3` -/
def Tame3 (pr : Parsed) : Bool := goodGroups3 pr.npop (cmdGroups pr)

/-! ## time groups taken from different fragments -/

/-- every time group is a `GoodGroup12` or a `GoodGroup3` (the choice may differ from group to group);
`n` populations exist before the first group -/
def goodGroups13 : Nat → List (List Cmd) → Bool
  | _, [] => true
  | n, g :: rest => (GoodGroup12 n g || GoodGroup3 n g) && goodGroups13 (n + (g.filter isSplitC).length) rest

/-- the fragment of the mixed theorem `fromMs_sem13`; contains `Tame''` (hence `Tame'`) and `Tame3` -/
def Tame13 (pr : Parsed) : Bool := goodGroups13 pr.npop (cmdGroups pr)

end Demes.Spec.C08
