/-
  `assert_close` / `isclose` of Epoch, AsymmetricMigration, Pulse, Deme and Graph
  (demes/demes.py).  `sorted()` uses the attrs-generated ordering: lexicographic on the
  tuple of all fields.
-/
import DemesVerif.Model.Graph
namespace Demes

/-! ### orderings used by `sorted` -/

def cmpQ (a b : Q) : Ordering := if a < b then .lt else if a = b then .eq else .gt

def cmpE (a b : ETime) : Ordering :=
  match a, b with
  | .inf, .inf => .eq
  | .inf, .fin _ => .gt
  | .fin _, .inf => .lt
  | .fin x, .fin y => cmpQ x y

def cmpS (a b : String) : Ordering := if a < b then .lt else if a = b then .eq else .gt

def cmpList {α} (c : α → α → Ordering) : List α → List α → Ordering
  | [], [] => .eq
  | [], _ :: _ => .lt
  | _ :: _, [] => .gt
  | x :: xs, y :: ys => (c x y).then (cmpList c xs ys)

def Epoch.cmp (a b : Epoch) : Ordering :=
  (cmpE a.startTime b.startTime).then <| (cmpQ a.endTime b.endTime).then <|
  (cmpQ a.startSize b.startSize).then <| (cmpQ a.endSize b.endSize).then <|
  (cmpS a.sizeFunction b.sizeFunction).then <| (cmpQ a.selfingRate b.selfingRate).then <|
  cmpQ a.cloningRate b.cloningRate

def Deme.cmp (a b : Deme) : Ordering :=
  (cmpS a.name b.name).then <| (cmpS a.description b.description).then <|
  (cmpE a.startTime b.startTime).then <| (cmpList cmpS a.ancestors b.ancestors).then <|
  (cmpList cmpQ a.proportions b.proportions).then <| cmpList Epoch.cmp a.epochs b.epochs

def Migration.cmp (a b : Migration) : Ordering :=
  (cmpS a.source b.source).then <| (cmpS a.dest b.dest).then <|
  (cmpE a.startTime b.startTime).then <| (cmpQ a.endTime b.endTime).then <| cmpQ a.rate b.rate

def sortBy {α} (c : α → α → Ordering) (xs : List α) : List α :=
  xs.mergeSort (fun a b => c a b != .gt)

/-! ### closeness -/

structure Tol where
  rel : Q
  abs : Q

def defaultTol : Tol := ⟨relTol, absTol⟩

def closeQ (t : Tol) (a b : Q) : Bool := iscloseQ a b t.rel t.abs
def closeE (t : Tol) (a b : ETime) : Bool := iscloseE a b t.rel t.abs

def Epoch.isclose (t : Tol) (a b : Epoch) : Bool :=
  closeE t a.startTime b.startTime && closeQ t a.endTime b.endTime
  && closeQ t a.startSize b.startSize && closeQ t a.endSize b.endSize
  && a.sizeFunction == b.sizeFunction
  && closeQ t a.selfingRate b.selfingRate && closeQ t a.cloningRate b.cloningRate

def Migration.isclose (t : Tol) (a b : Migration) : Bool :=
  a.source == b.source && a.dest == b.dest && closeE t a.startTime b.startTime
  && closeQ t a.endTime b.endTime && closeQ t a.rate b.rate

/-- stable sort of (name, proportion) pairs by name -/
def sortPairs (xs : List (String × Q)) : List (String × Q) :=
  xs.mergeSort (fun a b => cmpS a.1 b.1 != .gt)

/-- `isclose_deme_proportions` -/
def iscloseDemeProportions (t : Tol) (an : List String) (ap : List Q) (bn : List String) (bp : List Q) : Bool :=
  if an.length != bn.length || ap.length != bp.length then false
  else
    let a := sortPairs (an.zip ap)
    let b := sortPairs (bn.zip bp)
    (a.zip b).all (fun (x, y) => x.1 == y.1 && closeQ t x.2 y.2)

def qsumL (xs : List Q) : Q := xs.foldl (· + ·) 0

/-- `Pulse.assert_close` (the per-source comparison receives the requested tolerances) -/
def Pulse.isclose (t : Tol) (a b : Pulse) : Bool :=
  a.sources.length == b.sources.length
  && a.sources.all (fun s => b.sources.contains s)
  && b.sources.all (fun s => a.sources.contains s)
  && a.dest == b.dest
  && closeQ t a.time b.time
  && a.proportions.length == b.proportions.length
  && closeQ t (qsumL a.proportions) (qsumL b.proportions)
  && iscloseDemeProportions t a.sources a.proportions b.sources b.proportions

/-- `Deme.assert_close`: equal numbers of epochs, compared pairwise -/
def Deme.isclose (t : Tol) (a b : Deme) : Bool :=
  a.name == b.name && closeE t a.startTime b.startTime
  && iscloseDemeProportions t a.ancestors a.proportions b.ancestors b.proportions
  && a.epochs.length == b.epochs.length
  && (a.epochs.zip b.epochs).all (fun (x, y) => Epoch.isclose t x y)

/-- `Graph.assert_close` / `Graph.isclose` -/
def Graph.isclose (t : Tol) (a b : Graph) : Bool :=
  a.timeUnits == b.timeUnits && a.generationTime == b.generationTime
  && a.demes.length == b.demes.length
  && ((sortBy Deme.cmp a.demes).zip (sortBy Deme.cmp b.demes)).all (fun (x, y) => Deme.isclose t x y)
  && a.migrations.length == b.migrations.length
  && ((sortBy Migration.cmp a.migrations).zip (sortBy Migration.cmp b.migrations)).all
        (fun (x, y) => Migration.isclose t x y)
  && a.pulses.length == b.pulses.length
  && (a.pulses.zip b.pulses).all (fun (x, y) => Pulse.isclose t x y)

end Demes
