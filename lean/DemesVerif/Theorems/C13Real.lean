/-
  C13, real-analysis part — what the symbolic exponential `SizeResult.expo n0 n1 dt`
  (`n0 * exp(log(n1/n0) * dt)`) means in ℝ, and the "between start and end size" clause for
  every size function.  Kept apart from `Theorems/C13.lean` because it imports
  `Mathlib.Analysis.SpecialFunctions.Log.Basic`.
-/
import DemesVerif.Proofs.RealBridge
namespace Demes.Theorems
open Demes Demes.Spec Demes.Proofs

/-- The exponential interpolation starts at the start size … -/
theorem expoReal_zero (n0 n1 : ℝ) : n0 * Real.exp (Real.log (n1 / n0) * 0) = n0 :=
  Proofs.expoReal_zero n0 n1

/-- … ends at the end size … -/
theorem expoReal_one (n0 n1 : ℝ) (h0 : 0 < n0) (h1 : 0 < n1) :
    n0 * Real.exp (Real.log (n1 / n0) * 1) = n1 :=
  Proofs.expoReal_one n0 n1 h0 h1

/-- … and stays between the two for a parameter in `[0, 1]`. -/
theorem expoReal_between (n0 n1 dt : ℝ) (h0 : 0 < n0) (h1 : 0 < n1) (hd0 : 0 ≤ dt) (hd1 : dt ≤ 1) :
    min n0 n1 ≤ n0 * Real.exp (Real.log (n1 / n0) * dt)
      ∧ n0 * Real.exp (Real.log (n1 / n0) * dt) ≤ max n0 n1 :=
  Proofs.expoReal_between n0 n1 dt h0 h1 hd0 hd1

/-- Inside an epoch of a valid graph the reported size denotes a real number lying between
the epoch's start and end sizes, whatever the size function (`realOf` reads `.exact q` as `q`
and `.expo n0 n1 dt` as `n0 * exp(log(n1/n0) * dt)`; NaN and exceptions have no reading). -/
theorem sizeAt_real_between (g : Graph) (hv : validGraph g = true) (d : Deme) (hd : d ∈ g.demes)
    (e : Epoch) (he : e ∈ d.epochs) (t : Q) (hin : inEpoch e t) :
    ∃ r : ℝ, realOf (sizeAt d (ETime.fin t)) = some r
      ∧ min (e.startSize : ℝ) (e.endSize : ℝ) ≤ r ∧ r ≤ max (e.startSize : ℝ) (e.endSize : ℝ) :=
  Proofs.sizeAt_real_between g hv d hd e he t hin

/-- At every time of its lifetime a deme of a valid graph reports a positive real size
(never NaN, never an exception). -/
theorem sizeAt_real_pos (g : Graph) (hv : validGraph g = true) (d : Deme) (hd : d ∈ g.demes)
    (t : Q) (ht : alive d t) : ∃ r : ℝ, realOf (sizeAt d (ETime.fin t)) = some r ∧ 0 < r :=
  Proofs.sizeAt_real_pos g hv d hd t ht

/-- non-vacuity: at 75 deme `A` of `c13Graph` reports `100 * exp(log(400/100) * 1/2)` -/
example : realOf (sizeAt c13A (.fin 75)) = some (expoReal 100 400 (1/2 : Q)) := by
  have : sizeAt c13A (.fin 75) = .expo 100 400 (1/2) := by decide +kernel
  rw [this]; simp [realOf]

end Demes.Theorems
