/-
  Semantic tie of `Graph.asdict_simplified` (C05): when a field is dropped.

  Each test of `simplify_epochs`, of the bounds part of `simplify_migration_rates`, of `collapse_demes`, the
  `while` test and the `len(pairs) == 1` test of the symmetric search, and the field filter of `Graph.asdict` is
  translated into a `Bool` function (`Generated.guard_simplify_*`, `guard_collapse_*`, `guard_asdict_keep_field`).
  `Epoch.simplified`, `Deme.simplified`, `stripBounds`, `collapseDemes`, `searchLoop`, `simplifyMigrations` of
  `Model/Simplify.lean` are proved equal, for ALL inputs, to their `…With` forms (Proofs/Guards2Simplify.lean) over
  the generated tests.  The `del` statements (which key is removed under which tests), the two bindings of
  `inferred_size_function`, the number of `if`s per function and the calls of `asdict_simplified`'s own body
  are pinned as tables.
-/
import DemesVerif.Generated.GuardsSimplify
import DemesVerif.Proofs.Guards2Simplify
import DemesVerif.Model.ValueEq
import DemesVerif.Proofs.Guards
namespace Demes.Tables
open Demes Demes.Proofs.Guards Demes.Proofs.Guards2
set_option linter.unusedSimpArgs false

theorem guards_sites_simplify : Generated.guardSitesSimplify =
    [("Graph.asdict_simplified.simplify_epochs", 9, 0), ("Graph.asdict_simplified.simplify_migration_rates", 10, 0), ("Graph.asdict_simplified.simplify_migration_rates.collapse_demes", 2, 0), ("Graph.asdict_simplified", 1, 0), ("Graph.asdict.filt", 0, 0)] := by decide +kernel

theorem guards_context_simplify : Generated.guardContextSimplify =
    [
     ("guard_simplify_infer_constant", ["for v0 in p0['demes']", "for v1 in v0['epochs']"]),
     ("guard_simplify_size_function", ["for v0 in p0['demes']", "for v1 in v0['epochs']"]),
     ("guard_simplify_end_size", ["for v0 in p0['demes']", "for v1 in v0['epochs']"]),
     ("guard_simplify_selfing", ["for v0 in p0['demes']", "for v1 in v0['epochs']"]),
     ("guard_simplify_cloning", ["for v0 in p0['demes']", "for v1 in v0['epochs']"]),
     ("guard_simplify_start_inf", ["for v0 in p0['demes']"]),
     ("guard_simplify_single_ancestor", ["for v0 in p0['demes']"]),
     ("guard_simplify_unit_proportion", ["for v0 in p0['demes']", "if 'ancestors' in v0 and len(v0['ancestors']) == 1"]),
     ("guard_simplify_start_implied", ["for v0 in p0['demes']", "if 'ancestors' in v0 and len(v0['ancestors']) == 1"]),
     ("guard_simplify_mig_end", ["for v8 in p1['migrations']"]),
     ("guard_simplify_mig_start", ["for v8 in p1['migrations']"]),
     ("guard_simplify_single_pair", ["for (v13, v14) in v7.items()"]),
     ("guard_simplify_search_loop", ["for (v13, v14) in v7.items()"]),
     ("guard_collapse_first", ["for v4 in p2"]),
     ("guard_collapse_second", ["for v4 in p2"]),
     ("guard_simplify_has_migrations", []),
     ("guard_asdict_keep_field", [])] := by decide +kernel

/-- which key is deleted under which tests (each row is one conditional field of `epochSimplifiedWith` /
`demeSimplifiedWith`) -/
theorem guards_simplify_epochs_deletes : Generated.simplifyEpochsDeletes =
    [
     ("v1['size_function']", ["for v0 in p0['demes']", "for v1 in v0['epochs']", "if v1['size_function'] == v2"]),
     ("v1['end_size']", ["for v0 in p0['demes']", "for v1 in v0['epochs']", "if v1['start_size'] == v1['end_size']"]),
     ("v1['selfing_rate']", ["for v0 in p0['demes']", "for v1 in v0['epochs']", "if v1['selfing_rate'] == 0"]),
     ("v1['cloning_rate']", ["for v0 in p0['demes']", "for v1 in v0['epochs']", "if v1['cloning_rate'] == 0"]),
     ("v0['start_time']", ["for v0 in p0['demes']", "if math.isinf(v0['start_time'])"]),
     ("v0['proportions']", ["for v0 in p0['demes']", "if 'ancestors' in v0 and len(v0['ancestors']) == 1", "if v0['proportions'] == [1]"]),
     ("v0['start_time']", ["for v0 in p0['demes']", "if 'ancestors' in v0 and len(v0['ancestors']) == 1", "if self[v0['ancestors'][0]].end_time == v0['start_time']"])] := by decide +kernel

theorem guards_simplify_migrations_deletes : Generated.simplifyMigrationsDeletes =
    [
     ("v8['end_time']", ["for v8 in p1['migrations']", "if v8['end_time'] == v12"]),
     ("v8['start_time']", ["for v8 in p1['migrations']", "if v8['start_time'] == v11"])] := by decide +kernel

/-- `inferred_size_function` is "constant" under the equal-sizes test and "exponential" otherwise -/
theorem guards_simplify_epochs_locals : Generated.simplifyEpochsLocals =
    [
     ("v2", "'constant'", ["for v0 in p0['demes']", "for v1 in v0['epochs']", "if v1['start_size'] == v1['end_size']"]),
     ("v2", "'exponential'", ["for v0 in p0['demes']", "for v1 in v0['epochs']", "else of if v1['start_size'] == v1['end_size']"])] := by decide +kernel

/-- `asdict(keep_empty_fields=False)`, then `simplify_migration_rates` if there are migrations, then `simplify_epochs` -/
theorem guards_simplify_calls : Generated.simplifyCalls =
    [("self.asdict(keep_empty_fields=False)", []), ("simplify_migration_rates(v23)", ["if 'migrations' in v23"]), ("simplify_epochs(v23)", [])] := by decide +kernel

/-! ### epochs -/

theorem guard_simplify_infer_constant_meaning (s e : Q) :
    Generated.guard_simplify_infer_constant (v1_start_size := .fin s) (v1_end_size := .fin e) = decide (s = e) := by
  unfold Generated.guard_simplify_infer_constant
  guard_close

theorem guard_simplify_size_function_meaning (f inferred : String) :
    Generated.guard_simplify_size_function (v1_size_function := f) (v2 := inferred)
      = decide (f = inferred) := by
  unfold Generated.guard_simplify_size_function
  first | rfl | simp | grind

theorem guard_simplify_end_size_meaning (s e : Q) :
    Generated.guard_simplify_end_size (v1_start_size := .fin s) (v1_end_size := .fin e) = decide (s = e) := by
  unfold Generated.guard_simplify_end_size
  guard_close

theorem guard_simplify_selfing_meaning (x : Q) :
    Generated.guard_simplify_selfing (v1_selfing_rate := .fin x) = decide (x = 0) := by
  unfold Generated.guard_simplify_selfing
  guard_close

theorem guard_simplify_cloning_meaning (x : Q) :
    Generated.guard_simplify_cloning (v1_cloning_rate := .fin x) = decide (x = 0) := by
  unfold Generated.guard_simplify_cloning
  guard_close

theorem guards_tie_epoch_simplified : Epoch.simplified = epochSimplifiedWith
    (fun s e => Generated.guard_simplify_infer_constant (v1_start_size := s) (v1_end_size := e))
    (fun f i => Generated.guard_simplify_size_function (v1_size_function := f) (v2 := i))
    (fun s e => Generated.guard_simplify_end_size (v1_start_size := s) (v1_end_size := e))
    (fun x => Generated.guard_simplify_selfing (v1_selfing_rate := x))
    (fun x => Generated.guard_simplify_cloning (v1_cloning_rate := x)) := by
  funext e
  unfold Epoch.simplified epochSimplifiedWith
  simp only [guard_simplify_infer_constant_meaning, guard_simplify_size_function_meaning,
    guard_simplify_end_size_meaning, guard_simplify_selfing_meaning, guard_simplify_cloning_meaning,
    decide_eq_true_eq]
  first | done | rfl

/-! ### demes -/

theorem guard_simplify_start_inf_meaning (t : ETime) :
    Generated.guard_simplify_start_inf (v0_start_time := Num.ofETime t) = t.isInf := by
  unfold Generated.guard_simplify_start_inf
  cases t <;> guard_close

/-- `"ancestors" in deme` (the dictionary was made with `keep_empty_fields=False`: the key is there iff the list is
not empty) `and len(deme["ancestors"]) == 1` -/
theorem guard_simplify_single_ancestor_meaning (as : List String) :
    Generated.guard_simplify_single_ancestor (has_v0_ancestors := !as.isEmpty) (len_v0_ancestors := as.length)
      = decide (as.length = 1) := by
  unfold Generated.guard_simplify_single_ancestor
  match as with
  | [] => simp
  | [_] => simp
  | _ :: _ :: _ => simp

theorem guard_simplify_unit_proportion_meaning (ps : List Q) :
    Generated.guard_simplify_unit_proportion (v0_proportions := ps.map Num.fin) = (ps == [1]) := by
  unfold Generated.guard_simplify_unit_proportion
  exact pyListEq_one ps

theorem guard_simplify_start_implied_meaning (ancEnd : Q) (start : ETime) :
    Generated.guard_simplify_start_implied (self_v0_ancestors_0_end_time := .fin ancEnd)
      (v0_start_time := Num.ofETime start) = decide (ETime.fin ancEnd = start) := by
  unfold Generated.guard_simplify_start_implied
  cases start <;> guard_close

theorem guards_tie_deme_simplified : Deme.simplified = demeSimplifiedWith
    (fun t => Generated.guard_simplify_start_inf (v0_start_time := t))
    (fun h n => Generated.guard_simplify_single_ancestor (has_v0_ancestors := h) (len_v0_ancestors := n))
    (fun ps => Generated.guard_simplify_unit_proportion (v0_proportions := ps))
    (fun e s => Generated.guard_simplify_start_implied (self_v0_ancestors_0_end_time := e) (v0_start_time := s)) := by
  funext g d
  unfold Deme.simplified demeSimplifiedWith
  simp only [guard_simplify_start_inf_meaning, guard_simplify_single_ancestor_meaning,
    guard_simplify_unit_proportion_meaning, guard_simplify_start_implied_meaning]
  first | done | rfl

/-! ### migrations: the implied bounds -/

theorem guard_simplify_mig_end_meaning (e s d : Q) :
    Generated.guard_simplify_mig_end (v8_end_time := .fin e) (self_v9_end_time := .fin s)
      (self_v10_end_time := .fin d) = decide (qmax s d = e) := by
  unfold Generated.guard_simplify_mig_end
  guard_close

theorem guard_simplify_mig_start_meaning (t s d : ETime) :
    Generated.guard_simplify_mig_start (v8_start_time := Num.ofETime t)
      (self_v9_start_time := Num.ofETime s) (self_v10_start_time := Num.ofETime d)
      = decide (ETime.min s d = t) := by
  unfold Generated.guard_simplify_mig_start
  cases t <;> cases s <;> cases d <;> guard_close

theorem guards_tie_strip_bounds : stripBounds = stripBoundsWith
    (fun e s d => Generated.guard_simplify_mig_end (v8_end_time := e) (self_v9_end_time := s)
      (self_v10_end_time := d))
    (fun t s d => Generated.guard_simplify_mig_start (v8_start_time := t) (self_v9_start_time := s)
      (self_v10_start_time := d)) := by
  funext g m
  unfold stripBounds stripBoundsWith
  simp only [guard_simplify_mig_end_meaning, guard_simplify_mig_start_meaning]
  cases g.deme? m.source <;> cases g.deme? m.dest <;> simp

/-! ### migrations: the symmetric search -/

theorem guard_collapse_first_meaning (acc : List String) (x : String) :
    Generated.guard_collapse_first (v3 := acc) (v4_0 := x) = !acc.contains x := by
  unfold Generated.guard_collapse_first
  first | rfl | simp

theorem guard_collapse_second_meaning (acc : List String) (x : String) :
    Generated.guard_collapse_second (v3 := acc) (v4_1 := x) = !acc.contains x := by
  unfold Generated.guard_collapse_second
  first | rfl | simp

theorem guards_tie_collapse_demes : collapseDemes = collapseDemesWith
    (fun acc x => Generated.guard_collapse_first (v3 := acc) (v4_0 := x))
    (fun acc x => Generated.guard_collapse_second (v3 := acc) (v4_1 := x)) := by
  funext pairs
  unfold collapseDemes collapseDemesWith
  simp only [guard_collapse_first_meaning, guard_collapse_second_meaning]
  congr 1
  funext acc p
  cases h1 : acc.contains p.1 <;> simp [h1] <;> split <;> simp_all <;> grind

theorem guard_simplify_single_pair_meaning (n : Nat) :
    Generated.guard_simplify_single_pair (len_v14 := n) = decide (n = 1) := by
  unfold Generated.guard_simplify_single_pair
  grind

theorem guard_simplify_search_loop_meaning (n i : Nat) :
    Generated.guard_simplify_search_loop (len_v15 := n) (v16 := .fin (i : Q)) = decide (n ≥ 2 ∧ i ≥ 2) := by
  unfold Generated.guard_simplify_search_loop
  have h : ((2 : Q) ≤ (i : Q)) ↔ 2 ≤ i := by exact_mod_cast Iff.rfl
  simp [le_fin_fin, h]

theorem guards_tie_search_loop : searchLoop = searchLoopWith
    (fun n i => Generated.guard_simplify_search_loop (len_v15 := n) (v16 := i)) := by
  funext k fuel
  induction fuel with
  | zero => funext a i st; simp only [searchLoop, searchLoopWith]
  | succ n ih =>
    funext a i st
    simp only [searchLoop, searchLoopWith, guard_simplify_search_loop_meaning, ih, decide_eq_true_eq]
    first | done | rfl

theorem guards_tie_simplify_migrations : simplifyMigrations = simplifyMigrationsWith
    (fun n => Generated.guard_simplify_single_pair (len_v14 := n)) := by
  funext g
  unfold simplifyMigrations simplifyMigrationsWith
  simp only [guard_simplify_single_pair_meaning, decide_eq_true_eq]
  first | done | rfl

/-! ### `Graph.asdict`'s field filter and the `"migrations" in data` test -/

/-- `asdict(keep_empty_fields=False)` drops exactly the empty sized fields (and always `_deme_map`);
`asdict()` keeps everything but `_deme_map` -/
theorem guard_asdict_keep_field_meaning (name : String) (sized : Bool) (n : Nat) :
    Generated.guard_asdict_keep_field (keep_empty_fields := false) (hasattr_p1_len := sized) (len_p1 := n)
        (p0_name := name) = (!(sized && n == 0) && name != "_deme_map")
    ∧ Generated.guard_asdict_keep_field (keep_empty_fields := true) (hasattr_p1_len := sized) (len_p1 := n)
        (p0_name := name) = (name != "_deme_map") := by
  unfold Generated.guard_asdict_keep_field
  cases sized <;> simp

theorem guard_simplify_has_migrations_meaning (b : Bool) :
    Generated.guard_simplify_has_migrations (has_v23_migrations := b) = b := by
  unfold Generated.guard_simplify_has_migrations
  first | rfl | simp

/-! ### the `…With` forms really use their test arguments (closed instances) -/

section sensitivity

def exEpochS : Epoch :=
  { startTime := .fin 10, endTime := 0, startSize := 1, endSize := 2, sizeFunction := "exponential",
    selfingRate := 0, cloningRate := 1/2 }

example : Epoch.simplified exEpochS = .obj [("end_time", numV 0), ("start_size", numV 1), ("end_size", numV 2),
    ("cloning_rate", numV (1/2))] := by decide +kernel
example : epochSimplifiedWith no2 (fun _ _ => false) yes2 (fun _ => false) (fun _ => true) exEpochS
    = .obj [("end_time", numV 0), ("start_size", numV 1), ("size_function", .str "exponential"),
        ("selfing_rate", numV 0)] := by decide +kernel
-- the inferred size function is the one compared with
example : epochSimplifiedWith yes2 (fun f i => f == i) no2 (fun _ => true) (fun _ => true) exEpochS
    = .obj [("end_time", numV 0), ("start_size", numV 1), ("end_size", numV 2), ("size_function", .str "exponential")] := by
  decide +kernel
example : Deme.simplified exGraph exB = .obj [("name", .str "b"), ("start_time", timeV (.fin 10)), ("ancestors", strsV ["a"]),
    ("epochs", .list [Epoch.simplified exB.epochs.head!])] := by decide +kernel
-- the implied-start test answering "yes": the start time is dropped
example : demeSimplifiedWith (fun _ => false) (fun h n => h && n == 1) (fun _ => false) yes2 exGraph exB
    = .obj [("name", .str "b"), ("ancestors", strsV ["a"]), ("proportions", numsV [1]),
        ("epochs", .list [Epoch.simplified exB.epochs.head!])] := by decide +kernel
example : (stripBounds exGraphM exGraphM.migrations.head!).start = some (.fin 8)
    ∧ (stripBoundsWith (fun _ _ _ => true) (fun _ _ _ => true) exGraphM exGraphM.migrations.head!).start = none
    ∧ (stripBoundsWith (fun _ _ _ => true) (fun _ _ _ => true) exGraphM exGraphM.migrations.head!).stop = none := by
  decide +kernel
example : collapseDemes [("a", "b"), ("b", "c")] = ["a", "b", "c"]
    ∧ collapseDemesWith (fun _ _ => true) (fun _ _ => false) [("a", "b"), ("b", "c")] = ["a", "b"] := by decide +kernel

end sensitivity

end Demes.Tables
