/-
  C08, link C (movements) — the invariant of one time group: while the Builder and the
  interpreter process the options of the group, `split_join_params` is the list of moves
  `groupOps` reads off the options, the interpreter's rows are those moves applied to the
  identity, and the demes record which populations were joined.
-/
import DemesVerif.Proofs.FromMsApplyFrame
import DemesVerif.Proofs.FromMsFrag3Alg
namespace Demes.Proofs.FromMs
open Demes Demes.Ms Demes.Spec.MsSem Demes.Spec.C08
open Demes.Proofs.RV (bind_ok pure_ok)

/-- a move on populations numbered from 1, as the Builder's triple on populations numbered from 0 -/
def op0 (o : MOp) : MOp := (o.1 - 1, o.2.1 - 1, o.2.2)

structure GroupInv (T' : Q) (n0 : Nat) (s0 : BState) (allOps : List MOp)
    (s : BState) (g : GState) (L : List (Nat × Row)) (done : List MOp) (pend : Option (Nat × Q))
    (rest : List Cmd) : Prop where
  link : allOps = done ++ groupOpsAux s.numDemes pend rest
  params : g.params = (done ++ flushOp s.numDemes pend).map op0
  rows : ∀ ir ∈ L, ∀ k, Row.get ir.2 k = foldOps (done ++ flushOp s.numDemes pend) (delta ir.1) k
  bound : ∀ ir ∈ L, ∀ k, s.numDemes < k → Row.get ir.2 k = 0
  pendCol : pend.isSome → ∀ ir ∈ L, foldOps done (delta ir.1) s.numDemes = 0
  pendOK : ∀ i q, pend = some (i, q) → 1 ≤ i ∧ i < s.numDemes ∧ 0 ≤ q ∧ q < 1 ∧ n0 < s.numDemes
    ∧ s.joined.contains (i - 1) = false ∧ s.joined.contains (s.numDemes - 1) = false
  pos : ∀ o ∈ done, 1 ≤ o.1 ∧ 1 ≤ o.2.1 ∧ 0 ≤ o.2.2 ∧ o.2.2 ≤ 1
  joinedV : ∀ o ∈ done, o.2.2 = 1 → s.joined.contains (o.1 - 1) = true ∧ o.2.1 ≠ o.1
  last : done.Pairwise (fun o o' => o.2.2 = 1 → o'.1 ≠ o.1 ∧ o'.2.1 ≠ o.1)
  n0le : n0 ≤ s.numDemes
  dOld : ∀ (j : Nat) (d : BDeme), j < n0 → s.demes[j]? = some d → ∃ d0, s0.demes[j]? = some d0 ∧
    bEndTime d = bEndTime d0 ∧
    (d.startTime = d0.startTime ∨
      (d.startTime = .fin T' ∧ d0.startTime = .inf ∧ ∃ o ∈ done, o.1 = j + 1 ∧ o.2.2 = 1))
  dNew : ∀ (j : Nat) (d : BDeme), n0 ≤ j → s.demes[j]? = some d →
    bEndTime d = T' ∧ (d.startTime = .inf ∨ d.startTime = .fin T')
  dJoin : ∀ o ∈ done, o.2.2 = 1 → ∃ d, s.demes[o.1 - 1]? = some d ∧ d.startTime = .fin T'
  pulses : s.pulses = s0.pulses
  ub : ∀ o ∈ done ++ flushOp s.numDemes pend, o.1 ≤ s.numDemes ∧ o.2.1 ≤ s.numDemes
  joinedMono : ∀ j, s0.joined.contains j = true → s.joined.contains j = true
  srcAlive : ∀ o ∈ done ++ flushOp s.numDemes pend, s0.joined.contains (o.1 - 1) = false

theorem groupOpsAux_nonmove (n : Nat) (pend : Option (Nat × Q)) (c : Cmd) (rest : List Cmd) (h : isMove c = false) :
    groupOpsAux n pend (c :: rest) = groupOpsAux n pend rest := by
  cases c <;> first | rfl | cases h

/-- the demes of `s'` are those of `s` up to `DemeFrame` -/
theorem frame_back {s s' : BState} (hlen : s'.demes.length = s.demes.length)
    (hf : ∀ (j : Nat) (d : BDeme), s.demes[j]? = some d → ∃ d', s'.demes[j]? = some d' ∧ DemeFrame d' d)
    (j : Nat) (d' : BDeme) (hd' : s'.demes[j]? = some d') : ∃ d, s.demes[j]? = some d ∧ DemeFrame d' d := by
  have hj : j < s.demes.length := by rw [← hlen]; exact (List.getElem?_eq_some_iff.mp hd').1
  obtain ⟨d'', h1, h2⟩ := hf j s.demes[j] (List.getElem?_eq_getElem hj)
  rw [hd'] at h1
  cases h1
  exact ⟨_, List.getElem?_eq_getElem hj, h2⟩

/-- an option that moves no lineage keeps the invariant -/
theorem groupInv_nonmove {T' : Q} {n0 : Nat} {s0 : BState} {allOps : List MOp}
    {s s' : BState} {g : GState} {L : List (Nat × Row)} {done : List MOp} {pend : Option (Nat × Q)}
    {c : Cmd} {rest : List Cmd} (hc : isMove c = false)
    (hnum : s'.numDemes = s.numDemes) (hj : s'.joined = s.joined) (hp : s'.pulses = s.pulses)
    (hlen : s'.demes.length = s.demes.length)
    (hf : ∀ (j : Nat) (d : BDeme), s.demes[j]? = some d → ∃ d', s'.demes[j]? = some d' ∧ DemeFrame d' d)
    (h : GroupInv T' n0 s0 allOps s g L done pend (c :: rest)) :
    GroupInv T' n0 s0 allOps s' g L done pend rest := by
  refine ⟨?_, ?_, ?_, ?_, ?_, ?_, h.pos, ?_, h.last, ?_, ?_, ?_, ?_, ?_, ?_, ?_, ?_⟩
  · rw [hnum, h.link, groupOpsAux_nonmove _ _ _ _ hc]
  · rw [hnum]; exact h.params
  · rw [hnum]; exact h.rows
  · rw [hnum]; exact h.bound
  · rw [hnum]; exact h.pendCol
  · rw [hnum, hj]; exact h.pendOK
  · rw [hj]; exact h.joinedV
  · rw [hnum]; exact h.n0le
  · intro j d' hjn hd'
    obtain ⟨d, hd, fr⟩ := frame_back hlen hf j d' hd'
    obtain ⟨d0, h0, e1, e2⟩ := h.dOld j d hjn hd
    exact ⟨d0, h0, by rw [fr.2, e1], by rw [fr.1]; exact e2⟩
  · intro j d' hjn hd'
    obtain ⟨d, hd, fr⟩ := frame_back hlen hf j d' hd'
    obtain ⟨a, b⟩ := h.dNew j d hjn hd
    exact ⟨by rw [fr.2]; exact a, by rw [fr.1]; exact b⟩
  · intro o ho hq
    obtain ⟨d, hd, e⟩ := h.dJoin o ho hq
    obtain ⟨d', hd', fr⟩ := hf _ d hd
    exact ⟨d', hd', by rw [fr.1]; exact e⟩
  · rw [hp]; exact h.pulses
  · rw [hnum]; exact h.ub
  · rw [hj]; exact h.joinedMono
  · rw [hnum]; exact h.srcAlive

theorem flushOp_some (n i : Nat) (q : Q) : flushOp n (some (i, q)) = [(i, n, q)] := rfl

theorem mem_flushOp {n : Nat} {pend : Option (Nat × Q)} {o : MOp} (h : o ∈ flushOp n pend) :
    ∃ i q, pend = some (i, q) ∧ o = (i, n, q) := by
  cases pend with
  | none => cases h
  | some iq =>
    obtain ⟨i, q⟩ := iq
    rw [flushOp_some, List.mem_singleton] at h
    exact ⟨i, q, rfl, h⟩

theorem contains_ne {l : List Nat} {a b : Nat} (ha : l.contains a = true) (hb : l.contains b = false) : a ≠ b := by
  intro e; rw [e, hb] at ha; cases ha

/-- `-es i p` -/
theorem groupInv_split {T' N0 : Q} {n0 : Nat} {s0 : BState} {allOps : List MOp}
    {s : BState} {g g' : GState} {L L' : List (Nat × Row)} {done : List MOp} {pend : Option (Nat × Q)}
    {tq : Q} {i : Nat} {p : Q} {rest : List Cmd}
    (h : GroupInv T' n0 s0 allOps s g L done pend (.split tq i p :: rest))
    (hi1 : 1 ≤ i) (hi2 : i ≤ s.numDemes) (hij : s.joined.contains (i - 1) = false)
    (hjlt : ∀ j ∈ s.joined, j < s.numDemes) (hp0 : 0 < p) (hp1 : p ≤ 1)
    (hlenD : s.demes.length = s.numDemes)
    (hg' : g'.params = g.params ++ [(i - 1, s.numDemes, 1 - p)])
    (hL : L' = L.map (fun (ir : Nat × Row) =>
        (ir.1, ((ir.2.set i (ir.2.get i * p)).set (s.numDemes + 1) (ir.2.get i * (1 - p)))))) :
    GroupInv T' n0 s0 allOps (splitState N0 T' s) g' L' (done ++ flushOp s.numDemes pend) (some (i, 1 - p)) rest := by
  have hnum : (splitState N0 T' s).numDemes = s.numDemes + 1 := rfl
  have hjo : (splitState N0 T' s).joined = s.joined := rfl
  have hde : (splitState N0 T' s).demes = s.demes ++ [newDeme N0 T' s.numDemes] := rfl
  have hrowOld : ∀ ir ∈ L, (fun x => Row.get ir.2 x) = foldOps (done ++ flushOp s.numDemes pend) (delta ir.1) :=
    fun ir hir => funext (h.rows ir hir)
  have hn1 : s.joined.contains s.numDemes = false := by
    rw [List.contains_eq_mem]
    simp only [decide_eq_false_iff_not]
    intro hm
    exact Nat.lt_irrefl _ (hjlt _ hm)
  have hflush : ∀ o ∈ flushOp s.numDemes pend, 1 ≤ o.1 ∧ 1 ≤ o.2.1 ∧ 0 ≤ o.2.2 ∧ o.2.2 < 1
      ∧ s.joined.contains (o.1 - 1) = false ∧ s.joined.contains (o.2.1 - 1) = false := by
    intro o ho
    obtain ⟨i0, q0, hpe, rfl⟩ := mem_flushOp ho
    obtain ⟨a1, a2, a3, a4, _, a6, a7⟩ := h.pendOK i0 q0 hpe
    exact ⟨a1, by dsimp only; omega, a3, a4, a6, a7⟩
  refine ⟨?_, ?_, ?_, ?_, ?_, ?_, ?_, ?_, ?_, ?_, ?_, ?_, ?_, ?_, ?_, ?_, ?_⟩
  · rw [hnum, h.link, List.append_assoc]; rfl
  · rw [hg', h.params, hnum, flushOp_some, List.map_append, List.map_append]
    simp [op0]
  · intro ir' hir' k
    rw [hL] at hir'
    obtain ⟨ir, hir, rfl⟩ := List.mem_map.mp hir'
    dsimp only
    rw [hnum, flushOp_some, foldOps_append, foldOps_cons, foldOps_nil, ← hrowOld ir hir]
    exact splitRow_get ir.2 i (s.numDemes + 1) p (by omega) (h.bound ir hir _ (by omega)) k
  · intro ir' hir' k hk
    rw [hL] at hir'
    obtain ⟨ir, hir, rfl⟩ := List.mem_map.mp hir'
    dsimp only
    rw [hnum] at hk
    rw [Row.get_set, Row.get_set, if_neg (by omega), if_neg (by omega)]
    exact h.bound ir hir k (by omega)
  · intro _ ir' hir'
    rw [hL] at hir'
    obtain ⟨ir, hir, rfl⟩ := List.mem_map.mp hir'
    dsimp only
    rw [hnum, ← h.rows ir hir]
    exact h.bound ir hir _ (by omega)
  · intro i' q' he
    cases he
    rw [hnum, hjo]
    refine ⟨hi1, by omega, by linarith, by linarith, ?_, hij, ?_⟩
    · have := h.n0le; omega
    · simpa using hn1
  · intro o ho
    rcases List.mem_append.mp ho with ho | ho
    · exact h.pos o ho
    · obtain ⟨a1, a2, a3, a4, _⟩ := hflush o ho
      exact ⟨a1, a2, a3, by linarith⟩
  · intro o ho hq
    rw [hjo]
    rcases List.mem_append.mp ho with ho | ho
    · exact h.joinedV o ho hq
    · obtain ⟨_, _, _, a4, _⟩ := hflush o ho
      rw [hq] at a4
      exact (Rat.lt_irrefl a4).elim
  · rw [List.pairwise_append]
    refine ⟨h.last, ?_, ?_⟩
    · cases pend with
      | none => exact List.Pairwise.nil
      | some iq => exact List.pairwise_singleton _ _
    · intro o ho o' ho' hq
      obtain ⟨b1, b2, _, _, b5, b6⟩ := hflush o' ho'
      obtain ⟨c1, _⟩ := h.joinedV o ho hq
      obtain ⟨d1, _⟩ := h.pos o ho
      have e1 := contains_ne c1 b5
      have e2 := contains_ne c1 b6
      constructor <;> omega
  · rw [hnum]; have := h.n0le; omega
  · intro j d hj hd
    rw [hde, List.getElem?_append_left (by rw [hlenD]; have := h.n0le; omega)] at hd
    obtain ⟨d0, h0, e1, e2⟩ := h.dOld j d hj hd
    refine ⟨d0, h0, e1, ?_⟩
    rcases e2 with e2 | ⟨e2, e3, o, ho, e4⟩
    · exact Or.inl e2
    · exact Or.inr ⟨e2, e3, o, List.mem_append_left _ ho, e4⟩
  · intro j d hj hd
    rw [hde] at hd
    by_cases hjl : j < s.demes.length
    · rw [List.getElem?_append_left hjl] at hd
      exact h.dNew j d hj hd
    · rw [List.getElem?_append_right (by omega)] at hd
      have hz : j - s.demes.length = 0 := by
        by_contra hne
        rw [List.getElem?_eq_none_iff.mpr (by simp; omega)] at hd
        cases hd
      rw [hz] at hd
      simp only [List.getElem?_cons_zero, Option.some.injEq] at hd
      subst hd
      exact ⟨rfl, Or.inl rfl⟩
  · intro o ho hq
    rcases List.mem_append.mp ho with ho | ho
    · obtain ⟨d, hd, e⟩ := h.dJoin o ho hq
      refine ⟨d, ?_, e⟩
      rw [hde, List.getElem?_append_left (List.getElem?_eq_some_iff.mp hd).1]
      exact hd
    · obtain ⟨_, _, _, a4, _⟩ := hflush o ho
      rw [hq] at a4
      exact (Rat.lt_irrefl a4).elim
  · exact h.pulses
  · intro o ho
    rw [hnum]
    rcases List.mem_append.mp ho with ho | ho
    · have := h.ub o ho
      omega
    · rw [flushOp_some, List.mem_singleton] at ho
      subst ho
      exact ⟨by dsimp only; omega, by dsimp only; omega⟩
  · rw [hjo]; exact h.joinedMono
  · intro o ho
    rcases List.mem_append.mp ho with ho | ho
    · exact h.srcAlive o ho
    · rw [flushOp_some, List.mem_singleton] at ho
      subst ho
      cases hc : s0.joined.contains (i - 1) with
      | false => rfl
      | true => rw [h.joinedMono _ hc] at hij; cases hij

/-- the pending move, once flushed, is like the others -/
theorem GroupInv.flushed {T' : Q} {n0 : Nat} {s0 : BState} {allOps : List MOp}
    {s : BState} {g : GState} {L : List (Nat × Row)} {done : List MOp} {pend : Option (Nat × Q)} {rest : List Cmd}
    (h : GroupInv T' n0 s0 allOps s g L done pend rest) :
    (∀ o ∈ done ++ flushOp s.numDemes pend, 1 ≤ o.1 ∧ 1 ≤ o.2.1 ∧ 0 ≤ o.2.2 ∧ o.2.2 ≤ 1)
    ∧ (∀ o ∈ done ++ flushOp s.numDemes pend, o.2.2 = 1 → o ∈ done)
    ∧ (done ++ flushOp s.numDemes pend).Pairwise (fun o o' => o.2.2 = 1 → o'.1 ≠ o.1 ∧ o'.2.1 ≠ o.1) := by
  have hflush : ∀ o ∈ flushOp s.numDemes pend, 1 ≤ o.1 ∧ 1 ≤ o.2.1 ∧ 0 ≤ o.2.2 ∧ o.2.2 < 1
      ∧ s.joined.contains (o.1 - 1) = false ∧ s.joined.contains (o.2.1 - 1) = false := by
    intro o ho
    obtain ⟨i0, q0, hpe, rfl⟩ := mem_flushOp ho
    obtain ⟨a1, a2, a3, a4, _, a6, a7⟩ := h.pendOK i0 q0 hpe
    exact ⟨a1, by dsimp only; omega, a3, a4, a6, a7⟩
  refine ⟨?_, ?_, ?_⟩
  · intro o ho
    rcases List.mem_append.mp ho with ho | ho
    · exact h.pos o ho
    · obtain ⟨a1, a2, a3, a4, _⟩ := hflush o ho
      exact ⟨a1, a2, a3, by linarith⟩
  · intro o ho hq
    rcases List.mem_append.mp ho with ho | ho
    · exact ho
    · obtain ⟨_, _, _, a4, _⟩ := hflush o ho
      rw [hq] at a4
      exact (Rat.lt_irrefl a4).elim
  · rw [List.pairwise_append]
    refine ⟨h.last, ?_, ?_⟩
    · cases pend with
      | none => exact List.Pairwise.nil
      | some iq => exact List.pairwise_singleton _ _
    · intro o ho o' ho' hq
      obtain ⟨b1, b2, _, _, b5, b6⟩ := hflush o' ho'
      obtain ⟨c1, _⟩ := h.joinedV o ho hq
      obtain ⟨d1, _⟩ := h.pos o ho
      have e1 := contains_ne c1 b5
      have e2 := contains_ne c1 b6
      constructor <;> omega

theorem contains_append_single (l : List Nat) (a b : Nat) :
    (l ++ [a]).contains b = (l.contains b || decide (b = a)) := by
  simp [List.contains_eq_mem, List.mem_append, eq_comm]

/-- `-ej a k` that is not the join of the population a pending `-es` has just created (`NJT`: no earlier
move has the source of a later join as its target) -/
theorem groupInv_join' {T' : Q} {n0 : Nat} {s0 : BState} {allOps : List MOp}
    {s s' : BState} {g g' : GState} {L L' : List (Nat × Row)} {done : List MOp} {pend : Option (Nat × Q)}
    {tq : Q} {a k : Nat} {rest : List Cmd} {d d' : BDeme}
    (h : GroupInv T' n0 s0 allOps s g L done pend (.join tq a k :: rest))
    (hns : NJT allOps)
    (hpa : ∀ i q, pend = some (i, q) → a ≠ s.numDemes)
    (ha1 : 1 ≤ a) (ha2 : a ≤ s.numDemes) (hk1 : 1 ≤ k) (hk2 : k ≤ s.numDemes) (hak : a ≠ k)
    (haj : s.joined.contains (a - 1) = false) (hkj : s.joined.contains (k - 1) = false)
    (hd : s.demes[a - 1]? = some d) (hdinf : d.startTime = .inf)
    (hd' : d'.startTime = .fin T' ∧ bEndTime d' = bEndTime d)
    (hde : s'.demes = s.demes.set (a - 1) d') (hnum : s'.numDemes = s.numDemes)
    (hjo : s'.joined = s.joined ++ [a - 1]) (hpu : s'.pulses = s.pulses)
    (hg' : g'.params = joinParams g.params (a - 1) (k - 1))
    (hL : L' = L.map (fun (ir : Nat × Row) => (ir.1, (ir.2.set a 0).add k (ir.2.get a)))) :
    GroupInv T' n0 s0 allOps s' g' L' (done ++ flushOp s.numDemes pend ++ [(a, k, 1)]) none rest := by
  obtain ⟨pos1, jv1, last1⟩ := h.flushed
  have hlink : groupOpsAux s.numDemes pend (.join tq a k :: rest)
      = flushOp s.numDemes pend ++ (a, k, 1) :: groupOpsAux s.numDemes none rest := by
    cases hpe : pend with
    | none => rfl
    | some iq =>
      obtain ⟨i, q⟩ := iq
      have := hpa i q hpe
      show (if a = s.numDemes then _ else _) = _
      rw [if_neg this]; rfl
  have hall : allOps = (done ++ flushOp s.numDemes pend) ++ (a, k, 1) :: groupOpsAux s.numDemes none rest := by
    rw [h.link, hlink, List.append_assoc]
  have hal : a - 1 < s.demes.length := (List.getElem?_eq_some_iff.mp hd).1
  have hrowOld : ∀ ir ∈ L, (fun x => Row.get ir.2 x) = foldOps (done ++ flushOp s.numDemes pend) (delta ir.1) :=
    fun ir hir => funext (h.rows ir hir)
  refine ⟨?_, ?_, ?_, ?_, ?_, ?_, ?_, ?_, ?_, ?_, ?_, ?_, ?_, ?_, ?_, ?_, ?_⟩
  · rw [hnum, hall]; simp [List.append_assoc]
  · rw [hg', h.params, hnum]
    show joinParams _ _ _ = List.map op0 ((done ++ flushOp s.numDemes pend ++ [(a, k, 1)]) ++ [])
    rw [List.append_nil]
    unfold joinParams
    rw [redirect_none]
    · simp [List.map_append, op0]
    · intro e he
      obtain ⟨o, ho, rfl⟩ := List.mem_map.mp he
      have hne : o.2.1 ≠ a := by
        unfold NJT at hns
        rw [hall, List.pairwise_append] at hns
        exact hns.2.2 o ho (a, k, 1) (List.mem_cons_self ..) rfl
      obtain ⟨_, b2, _⟩ := pos1 o ho
      show o.2.1 - 1 ≠ a - 1
      omega
  · intro ir' hir' x
    rw [hL] at hir'
    obtain ⟨ir, hir, rfl⟩ := List.mem_map.mp hir'
    dsimp only
    show _ = foldOps ((done ++ flushOp s.numDemes pend ++ [(a, k, 1)]) ++ []) (delta ir.1) x
    rw [List.append_nil, foldOps_append, foldOps_cons, foldOps_nil, ← hrowOld ir hir]
    exact joinRow_get ir.2 a k hak x
  · intro ir' hir' x hx
    rw [hL] at hir'
    obtain ⟨ir, hir, rfl⟩ := List.mem_map.mp hir'
    dsimp only
    rw [hnum] at hx
    rw [Row.get_add, if_neg (by omega), Row.get_set, if_neg (by omega)]
    exact h.bound ir hir x hx
  · intro hc; cases hc
  · intro i q hc; cases hc
  · intro o ho
    rcases List.mem_append.mp ho with ho | ho
    · exact pos1 o ho
    · simp only [List.mem_singleton] at ho
      subst ho
      exact ⟨ha1, hk1, (by decide : (0 : Q) ≤ 1), (by decide : (1 : Q) ≤ 1)⟩
  · intro o ho hq
    rw [hjo, contains_append_single]
    rcases List.mem_append.mp ho with ho | ho
    · obtain ⟨c1, c2⟩ := h.joinedV o (jv1 o ho hq) hq
      exact ⟨by rw [c1]; rfl, c2⟩
    · simp only [List.mem_singleton] at ho
      subst ho
      exact ⟨by simp, fun e => hak e.symm⟩
  · rw [List.pairwise_append]
    refine ⟨last1, List.pairwise_singleton _ _, ?_⟩
    intro o ho o' ho' hq
    simp only [List.mem_singleton] at ho'
    subst ho'
    obtain ⟨c1, _⟩ := h.joinedV o (jv1 o ho hq) hq
    obtain ⟨d1, _⟩ := pos1 o ho
    have e1 := contains_ne c1 haj
    have e2 := contains_ne c1 hkj
    constructor <;> (dsimp only; omega)
  · rw [hnum]; exact h.n0le
  · intro j dd hj hdd
    rw [hde, List.getElem?_set] at hdd
    by_cases hja : a - 1 = j
    · rw [if_pos hja] at hdd
      simp only [← hja, hal, if_true, Option.some.injEq] at hdd
      subst hdd
      subst hja
      obtain ⟨d0, h0, e1, e2⟩ := h.dOld _ d hj hd
      refine ⟨d0, h0, by rw [hd'.2, e1], Or.inr ⟨hd'.1, ?_, (a, k, 1), by simp, by dsimp only; omega, rfl⟩⟩
      rcases e2 with e2 | ⟨e2, _⟩
      · rw [← e2]; exact hdinf
      · rw [hdinf] at e2; cases e2
    · rw [if_neg hja] at hdd
      obtain ⟨d0, h0, e1, e2⟩ := h.dOld j dd hj hdd
      refine ⟨d0, h0, e1, ?_⟩
      rcases e2 with e2 | ⟨e2, e3, o, ho, e4⟩
      · exact Or.inl e2
      · exact Or.inr ⟨e2, e3, o, List.mem_append_left _ (List.mem_append_left _ ho), e4⟩
  · intro j dd hj hdd
    rw [hde, List.getElem?_set] at hdd
    by_cases hja : a - 1 = j
    · rw [if_pos hja] at hdd
      simp only [← hja, hal, if_true, Option.some.injEq] at hdd
      subst hdd
      exact ⟨by rw [hd'.2]; exact (h.dNew _ d (by omega) hd).1, Or.inr hd'.1⟩
    · rw [if_neg hja] at hdd
      exact h.dNew j dd hj hdd
  · intro o ho hq
    rcases List.mem_append.mp ho with ho | ho
    · have hod := jv1 o ho hq
      obtain ⟨dd, hdd, e⟩ := h.dJoin o hod hq
      obtain ⟨c1, _⟩ := h.joinedV o hod hq
      have hne := contains_ne c1 haj
      refine ⟨dd, ?_, e⟩
      rw [hde, List.getElem?_set, if_neg (fun e => hne e.symm)]
      exact hdd
    · simp only [List.mem_singleton] at ho
      subst ho
      refine ⟨d', ?_, hd'.1⟩
      rw [hde, List.getElem?_set]
      simp [hal]
  · rw [hpu]; exact h.pulses
  · intro o ho
    rw [hnum]
    rw [flushOp, List.append_nil] at ho
    rcases List.mem_append.mp ho with ho | ho
    · exact h.ub o ho
    · simp only [List.mem_singleton] at ho
      subst ho
      exact ⟨ha2, hk2⟩
  · intro j hj
    rw [hjo, contains_append_single, h.joinedMono j hj]; rfl
  · intro o ho
    rw [flushOp, List.append_nil] at ho
    rcases List.mem_append.mp ho with ho | ho
    · exact h.srcAlive o ho
    · simp only [List.mem_singleton] at ho
      subst ho
      cases hc : s0.joined.contains (a - 1) with
      | false => rfl
      | true => rw [h.joinedMono _ hc] at haj; cases haj

/-- `groupInv_join'` from `NSAT` -/
theorem groupInv_join {T' : Q} {n0 : Nat} {s0 : BState} {allOps : List MOp}
    {s s' : BState} {g g' : GState} {L L' : List (Nat × Row)} {done : List MOp} {pend : Option (Nat × Q)}
    {tq : Q} {a k : Nat} {rest : List Cmd} {d d' : BDeme}
    (h : GroupInv T' n0 s0 allOps s g L done pend (.join tq a k :: rest))
    (hns : NSAT allOps)
    (hpa : ∀ i q, pend = some (i, q) → a ≠ s.numDemes)
    (ha1 : 1 ≤ a) (ha2 : a ≤ s.numDemes) (hk1 : 1 ≤ k) (hk2 : k ≤ s.numDemes) (hak : a ≠ k)
    (haj : s.joined.contains (a - 1) = false) (hkj : s.joined.contains (k - 1) = false)
    (hd : s.demes[a - 1]? = some d) (hdinf : d.startTime = .inf)
    (hd' : d'.startTime = .fin T' ∧ bEndTime d' = bEndTime d)
    (hde : s'.demes = s.demes.set (a - 1) d') (hnum : s'.numDemes = s.numDemes)
    (hjo : s'.joined = s.joined ++ [a - 1]) (hpu : s'.pulses = s.pulses)
    (hg' : g'.params = joinParams g.params (a - 1) (k - 1))
    (hL : L' = L.map (fun (ir : Nat × Row) => (ir.1, (ir.2.set a 0).add k (ir.2.get a)))) :
    GroupInv T' n0 s0 allOps s' g' L' (done ++ flushOp s.numDemes pend ++ [(a, k, 1)]) none rest :=
  groupInv_join' h (njt_of_nsat hns) hpa ha1 ha2 hk1 hk2 hak haj hkj hd hdinf hd' hde hnum hjo hpu hg' hL

/-- `-ej n k` right after the `-es i p` that created population `n`: an admixture -/
theorem groupInv_admix {T' : Q} {n0 : Nat} {s0 : BState} {allOps : List MOp}
    {s s' : BState} {g g' : GState} {L L' : List (Nat × Row)} {done : List MOp} {i : Nat} {q : Q}
    {tq : Q} {k : Nat} {rest : List Cmd} {d d' : BDeme}
    (h : GroupInv T' n0 s0 allOps s g L done (some (i, q)) (.join tq s.numDemes k :: rest))
    (hk1 : 1 ≤ k) (hk2 : k ≤ s.numDemes) (hak : s.numDemes ≠ k)
    (hkj : s.joined.contains (k - 1) = false)
    (hd : s.demes[s.numDemes - 1]? = some d)
    (hd' : d'.startTime = .fin T' ∧ bEndTime d' = bEndTime d)
    (hde : s'.demes = s.demes.set (s.numDemes - 1) d') (hnum : s'.numDemes = s.numDemes)
    (hjo : s'.joined = s.joined ++ [s.numDemes - 1]) (hpu : s'.pulses = s.pulses)
    (hg' : g'.params = joinParams g.params (s.numDemes - 1) (k - 1))
    (hL : L' = L.map (fun (ir : Nat × Row) => (ir.1, (ir.2.set s.numDemes 0).add k (ir.2.get s.numDemes)))) :
    GroupInv T' n0 s0 allOps s' g' L' (done ++ [(i, k, q)]) none rest := by
  obtain ⟨p1, p2, p3, p4, p5, p6, p7⟩ := h.pendOK i q rfl
  have hal : s.numDemes - 1 < s.demes.length := (List.getElem?_eq_some_iff.mp hd).1
  refine ⟨?_, ?_, ?_, ?_, ?_, ?_, ?_, ?_, ?_, ?_, ?_, ?_, ?_, ?_, ?_, ?_, ?_⟩
  · rw [hnum, h.link]
    show done ++ (if s.numDemes = s.numDemes then _ else _) = _
    rw [if_pos rfl]; simp
  · rw [hg', h.params, flushOp_some, List.map_append]
    show joinParams (List.map op0 done ++ [(i - 1, s.numDemes - 1, q)]) _ _ = _
    unfold joinParams
    rw [redirect_last]
    simp [op0, flushOp]
  · intro ir' hir' x
    rw [hL] at hir'
    obtain ⟨ir, hir, rfl⟩ := List.mem_map.mp hir'
    dsimp only
    show _ = foldOps ((done ++ [(i, k, q)]) ++ []) (delta ir.1) x
    rw [List.append_nil, foldOps_append, foldOps_cons, foldOps_nil]
    have hold : (fun x => Row.get ir.2 x) = opF (i, s.numDemes, q) (foldOps done (delta ir.1)) := by
      funext y
      rw [h.rows ir hir y, flushOp_some, foldOps_append, foldOps_cons, foldOps_nil]
    rw [joinRow_get ir.2 s.numDemes k hak x, hold]
    exact admix_get _ i s.numDemes k q (by omega) (fun e => hak e.symm) (h.pendCol rfl ir hir) x
  · intro ir' hir' x hx
    rw [hL] at hir'
    obtain ⟨ir, hir, rfl⟩ := List.mem_map.mp hir'
    dsimp only
    rw [hnum] at hx
    rw [Row.get_add, if_neg (by omega), Row.get_set, if_neg (by omega)]
    exact h.bound ir hir x hx
  · intro hc; cases hc
  · intro i q hc; cases hc
  · intro o ho
    rcases List.mem_append.mp ho with ho | ho
    · exact h.pos o ho
    · simp only [List.mem_singleton] at ho
      subst ho
      exact ⟨p1, hk1, p3, by linarith⟩
  · intro o ho hq
    rw [hjo, contains_append_single]
    rcases List.mem_append.mp ho with ho | ho
    · obtain ⟨c1, c2⟩ := h.joinedV o ho hq
      exact ⟨by rw [c1]; rfl, c2⟩
    · simp only [List.mem_singleton] at ho
      subst ho
      rw [show ((i, k, q) : MOp).2.2 = q from rfl] at hq
      rw [hq] at p4
      exact (Rat.lt_irrefl p4).elim
  · rw [List.pairwise_append]
    refine ⟨h.last, List.pairwise_singleton _ _, ?_⟩
    intro o ho o' ho' hq
    simp only [List.mem_singleton] at ho'
    subst ho'
    obtain ⟨c1, _⟩ := h.joinedV o ho hq
    obtain ⟨d1, _⟩ := h.pos o ho
    have e1 := contains_ne c1 p6
    have e2 := contains_ne c1 hkj
    constructor <;> (dsimp only; omega)
  · rw [hnum]; exact h.n0le
  · intro j dd hj hdd
    rw [hde, List.getElem?_set, if_neg (by omega)] at hdd
    obtain ⟨d0, h0, e1, e2⟩ := h.dOld j dd hj hdd
    refine ⟨d0, h0, e1, ?_⟩
    rcases e2 with e2 | ⟨e2, e3, o, ho, e4⟩
    · exact Or.inl e2
    · exact Or.inr ⟨e2, e3, o, List.mem_append_left _ ho, e4⟩
  · intro j dd hj hdd
    rw [hde, List.getElem?_set] at hdd
    by_cases hja : s.numDemes - 1 = j
    · rw [if_pos hja] at hdd
      simp only [← hja, hal, if_true, Option.some.injEq] at hdd
      subst hdd
      exact ⟨by rw [hd'.2]; exact (h.dNew _ d (by omega) hd).1, Or.inr hd'.1⟩
    · rw [if_neg hja] at hdd
      exact h.dNew j dd hj hdd
  · intro o ho hq
    rcases List.mem_append.mp ho with ho | ho
    · obtain ⟨dd, hdd, e⟩ := h.dJoin o ho hq
      obtain ⟨c1, _⟩ := h.joinedV o ho hq
      have hne := contains_ne c1 p7
      refine ⟨dd, ?_, e⟩
      rw [hde, List.getElem?_set, if_neg (fun e => hne e.symm)]
      exact hdd
    · simp only [List.mem_singleton] at ho
      subst ho
      rw [show ((i, k, q) : MOp).2.2 = q from rfl] at hq
      rw [hq] at p4
      exact (Rat.lt_irrefl p4).elim
  · rw [hpu]; exact h.pulses
  · intro o ho
    rw [hnum]
    rw [flushOp, List.append_nil] at ho
    rcases List.mem_append.mp ho with ho | ho
    · exact h.ub o (List.mem_append_left _ ho)
    · simp only [List.mem_singleton] at ho
      subst ho
      exact ⟨by dsimp only; omega, hk2⟩
  · intro j hj
    rw [hjo, contains_append_single, h.joinedMono j hj]; rfl
  · intro o ho
    rw [flushOp, List.append_nil] at ho
    rcases List.mem_append.mp ho with ho | ho
    · exact h.srcAlive o (List.mem_append_left _ ho)
    · simp only [List.mem_singleton] at ho
      subst ho
      exact h.srcAlive (i, s.numDemes, q) (List.mem_append_right _ (by rw [flushOp_some]; exact List.mem_singleton.mpr rfl))

theorem isMove_of_nonmove {ev : Event Num} {c : Cmd} (hc : cmdOf ev = some c)
    (h1 : isSplit ev = false) (h2 : isJoinEv ev = false) : isMove c = false := by
  cases ev with
  | growthRateChange o t alpha => obtain ⟨_, _, _, _, rfl⟩ := cmdOf_growthAll hc; rfl
  | popGrowthRateChange o t i alpha => obtain ⟨_, _, _, _, rfl⟩ := cmdOf_growth hc; rfl
  | sizeChange o t x => obtain ⟨_, _, _, _, rfl⟩ := cmdOf_sizeAll hc; rfl
  | popSizeChange o t i x => obtain ⟨_, _, _, _, rfl⟩ := cmdOf_size hc; rfl
  | migRateChange o t x => obtain ⟨_, _, _, _, rfl⟩ := cmdOf_migAll hc; rfl
  | migEntryChange o t i j r => obtain ⟨_, _, _, _, rfl⟩ := cmdOf_migEntry hc; rfl
  | migMatrixChange o t npop mm => obtain ⟨_, _, rfl⟩ := cmdOf_migMatrix hc; rfl
  | split o t i p => cases h1
  | join o t i j => cases h2

/-- the split fractions of a command are in `(0, 1]` -/
def FracOK : Cmd → Prop
  | .split _ _ p => 0 < p ∧ p ≤ 1
  | _ => True

/-- **one option of a time group** keeps the invariant -/
theorem stepEvent_groupInv' {N0 T T' : Q} {n0 : Nat} {s0 : BState} {allOps : List MOp}
    {s s' : BState} {g g' : GState} {σ σ' : St} {L L' : List (Nat × Row)} {ev : Event Num} {c : Cmd}
    {rest : List Cmd} {done : List MOp} {pend : Option (Nat × Q)}
    (hsim : SizeSim T s σ) (hc : cmdOf ev = some c)
    (hm : stepEvent N0 T' (s, g) ev = .ok (s', g')) (hs : Spec.MsSem.step N0 (σ, L) c = .ok (σ', L'))
    (hns : NJT allOps) (hp : FracOK c)
    (h : GroupInv T' n0 s0 allOps s g L done pend (c :: rest)) :
    ∃ done' pend', GroupInv T' n0 s0 allOps s' g' L' done' pend' rest := by
  have hlenD : s.demes.length = s.numDemes := by rw [hsim.len, hsim.num]
  by_cases hsp : isSplit ev = true
  · cases ev with
    | split o t i p =>
      obtain ⟨tq, a, rfl, rfl, rfl⟩ := cmdOf_split hc
      rw [stepEvent_split] at hm
      obtain ⟨pid, hpid, hm⟩ := bind_ok.1 hm
      obtain ⟨a', ha', hm⟩ := bind_ok.1 hm
      split at hm
      · exact (assertionErr_bind_ok.1 hm).elim
      · cases hm
        cases finArg_ok ha'
        obtain ⟨_, _, _, hL⟩ := step_split_ok hs
        obtain ⟨q1, q2, q3, q4, q5⟩ := convertPopulationId_ok hpid
        have hidx : i.toNat - 1 = pid := by omega
        rw [← hsim.num] at hL
        refine ⟨_, _, groupInv_split h (by omega) (by omega) (by rw [hidx]; exact q5) hsim.jlt hp.1 hp.2 hlenD
          (by rw [hidx]) hL⟩
    | _ => cases hsp
  · have hsp' : isSplit ev = false := by simpa using hsp
    by_cases hj : isJoinEv ev = true
    · cases ev with
      | join o t i j =>
        obtain ⟨tq, rfl, rfl⟩ := cmdOf_join hc
        rw [stepEvent_join] at hm
        obtain ⟨popI, hI, hm⟩ := bind_ok.1 hm
        obtain ⟨popJ, hJ, hm⟩ := bind_ok.1 hm
        obtain ⟨s1, h1, hm⟩ := bind_ok.1 hm
        cases hm
        obtain ⟨q, hq, _, hij, _, _, hL⟩ := step_join_ok hs
        obtain ⟨q1, q2, q3, q4, q5⟩ := convertPopulationId_ok hI
        obtain ⟨r1, r2, r3, r4, r5⟩ := convertPopulationId_ok hJ
        obtain ⟨d, d', hd, hfd, rfl⟩ := modifyDeme_ok h1
        have hidx : i.toNat - 1 = popI := by omega
        have hjdx : j.toNat - 1 = popJ := by omega
        obtain ⟨p1, p2, p3⟩ := pop_ok hq
        rw [hidx] at p2
        have hdinf : d.startTime = .inf := by
          obtain ⟨rr, _⟩ := hsim.rel popI d q hd p2
          rw [rr.2.2]
          simpa [alive] using p3
        have hd'e := joinDeme_ok hfd
        have hfr := joinMatrix_frame { s with demes := s.demes.set popI d' } T' popI
        have hd'f : d'.startTime = .fin T' ∧ bEndTime d' = bEndTime d := by rw [hd'e]; exact ⟨rfl, rfl⟩
        by_cases hadm : ∃ i0 q0, pend = some (i0, q0) ∧ i.toNat = s.numDemes
        · obtain ⟨i0, q0, rfl, hin⟩ := hadm
          rw [hin] at h hL hidx
          refine ⟨_, _, groupInv_admix h (by omega) (by omega) (by omega) (by rw [hjdx]; exact r5)
            (by rw [hidx]; exact hd) hd'f (by rw [hidx]; exact hfr.1) hfr.2.1
            (by rw [hidx]; show _ ++ _ = _; rw [hfr.2.2.1]) hfr.2.2.2 (by rw [hidx, hjdx]) hL⟩
        · refine ⟨_, _, groupInv_join' h hns (fun i0 q0 hpe hin => hadm ⟨i0, q0, hpe, hin⟩)
            (by omega) (by omega) (by omega) (by omega) hij (by rw [hidx]; exact q5) (by rw [hjdx]; exact r5)
            (by rw [hidx]; exact hd) hdinf hd'f (by rw [hidx]; exact hfr.1) hfr.2.1
            (by rw [hidx]; show _ ++ _ = _; rw [hfr.2.2.1]) hfr.2.2.2 (by rw [hidx, hjdx]) hL⟩
      | _ => cases hj
    · have hj' : isJoinEv ev = false := by simpa using hj
      obtain ⟨e1, e2⟩ := stepEvent_nonmove hsp' hj' hm
      obtain ⟨f1, f2, f3, f4⟩ := stepEvent_nonmove_frame hsp' hj' hm
      have hcm := isMove_of_nonmove hc hsp' hj'
      have e3 := step_nonmove hcm hs
      rw [e1, e3]
      exact ⟨done, pend, groupInv_nonmove hcm e2 f1 f2 f3 f4 h⟩

/-- `stepEvent_groupInv'` from `NSAT` -/
theorem stepEvent_groupInv {N0 T T' : Q} {n0 : Nat} {s0 : BState} {allOps : List MOp}
    {s s' : BState} {g g' : GState} {σ σ' : St} {L L' : List (Nat × Row)} {ev : Event Num} {c : Cmd}
    {rest : List Cmd} {done : List MOp} {pend : Option (Nat × Q)}
    (hsim : SizeSim T s σ) (hc : cmdOf ev = some c)
    (hm : stepEvent N0 T' (s, g) ev = .ok (s', g')) (hs : Spec.MsSem.step N0 (σ, L) c = .ok (σ', L'))
    (hns : NSAT allOps) (hp : FracOK c)
    (h : GroupInv T' n0 s0 allOps s g L done pend (c :: rest)) :
    ∃ done' pend', GroupInv T' n0 s0 allOps s' g' L' done' pend' rest :=
  stepEvent_groupInv' hsim hc hm hs (njt_of_nsat hns) hp h

end Demes.Proofs.FromMs
