"""C11 — conversion to generations rescales all the times and nothing else."""
from __future__ import annotations

import copy
import math
from fractions import Fraction

from props.common import *  # noqa: F401,F403

RULE = ("valid graphs with time units generations/years/weeks and generation times {1, 2, 4, 1/2} (times are "
        "multiples of 8, so every division is exact); a case is one graph; non-trivial = generation_time != 1; "
        "a second, noisy stream (generation times 25, 29, decimal times) is checked with tolerance against the "
        "specification only")
ASSUMPTIONS = ["exact stream: double division is exact on the chosen grid",
               "'original not modified' is observed at run time (asdict before/after); the Lean Model is pure"]
EXPLANATION = ("Theorems inGenerations_header/_times/_rest/_idem/_valid over the Lean Model; fact_in_generations_copies_first "
               "regenerated from the source AST; Model tied to the code by exact comparison of the converted graph; the "
               "six kinds of time re-checked on the code's own output; validity of the result checked by Spec.validGraph.")


def times_of(d):
    out = []
    for dm in d["demes"]:
        out.append(dm["start_time"])
        out += [e["end_time"] for e in dm["epochs"]]
    for m in d["migrations"]:
        out += [m["start_time"], m["end_time"]]
    out += [p["time"] for p in d["pulses"]]
    return out


def strip_times(d):
    d = copy.deepcopy(d)
    for dm in d["demes"]:
        dm["start_time"] = None
        for e in dm["epochs"]:
            e["end_time"] = None
    for m in d["migrations"]:
        m["start_time"] = m["end_time"] = None
    for p in d["pulses"]:
        p["time"] = None
    d["time_units"] = d["generation_time"] = None
    return d


def relation(g, g2, exact=True):
    a, b = g.asdict(), g2.asdict()
    if b["time_units"] != "generations" or b["generation_time"] != 1:
        return "header is not generations / 1"
    if strip_times(a) != strip_times(b):
        return "a non-time field changed"
    gt = g.generation_time
    for x, y in zip(times_of(a), times_of(b)):
        if math.isinf(x):
            if not math.isinf(y):
                return "infinite time became finite"
        elif exact:
            if Fraction(y) != Fraction(x) / Fraction(gt):
                return f"time {x} became {y}, not {x}/{gt}"
        elif not math.isclose(y, x / gt, rel_tol=1e-12):
            return f"time {x} became {y}, not {x}/{gt}"
    for d1, d2 in zip(g.demes, g2.demes):
        for e1, e2 in zip(d1.epochs, d2.epochs):
            if not math.isinf(e1.start_time) and Fraction(e2.start_time) != Fraction(e1.start_time) / Fraction(gt) and exact:
                return "epoch start_time not rescaled"
    return None


def run(ctx):
    n = 750 if ctx.tier == "quick" else 10000
    done = 0
    while done < n and ctx.time_left() > 8:
        batch = gen_valid_graphs(ctx, min(250, n - done))
        done += len(batch)
        graphs = [g for _, g, _ in batch]
        reps = ctx.driver.batch([{"op": "in_generations", "graph": enc(g.asdict())} for g in graphs])
        outs = []
        for (doc, g, _), r in zip(batch, reps):
            before = canon(g.asdict())
            idx_before = index_of(g)
            try:
                g2 = g.in_generations()
            except Exception as e:  # noqa: BLE001 - the conversion of a valid graph must exist
                ctx.count(show(before), True, tags=["raised"])
                ctx.violation(f"in_generations: raises {type(e).__name__} on a valid graph ({str(e)[:80]})", {"document": doc},
                              python=py_repro(doc, "g.in_generations().asdict()"))
                outs.append(g)
                continue
            outs.append(g2)
            ctx.count(show(before), g.generation_time != 1, tags=[f"generation_time={g.generation_time}", g.time_units])
            ctx.compared += 1
            if not (canon_eq(canon(g2.asdict()), dec(r["ok"])) and index_of(g2) == r["index"]):
                ctx.disagreement("in_generations", {"document": doc}, show(canon(g2.asdict())), r)
            why = relation(g, g2)
            if why is None and not canon_eq(canon(g.asdict()), before) or index_of(g) != idx_before:
                why = "the receiver was modified"
            if why is None and any(x is y for x, y in zip(g.demes, g2.demes)):
                why = "the result shares deme objects with the receiver"
            if why is None:
                g3 = g2.in_generations()
                if not canon_eq(canon(g3.asdict()), canon(g2.asdict())):
                    why = "applying the conversion twice changes the graph"
            if why:
                ctx.violation("in_generations: " + why, {"document": doc}, python=py_repro(doc, "g.in_generations().asdict()"))
        check_valid(ctx, outs, "in_generations", [d for d, _, _ in batch])
    # noisy stream: Spec relation with tolerance only
    m = 60 if ctx.tier == "quick" else 1500
    noisy = gen_valid_graphs(ctx, m, gen_times=(25, 29, 0.3, 7), time_scale=7)
    for doc, g, _ in noisy:
        g2 = g.in_generations()
        ctx.count(show(canon(g.asdict())), g.generation_time != 1, tags=["noisy"])
        why = relation(g, g2, exact=False)
        if why:
            ctx.violation("in_generations (noisy stream): " + why, {"document": doc}, python=py_repro(doc, "g.in_generations().asdict()"))


def replay(ctx, payload):
    import demes
    g = demes.Graph.fromdict(payload["input"]["document"])
    print(relation(g, g.in_generations(), exact=False))
    return 0
