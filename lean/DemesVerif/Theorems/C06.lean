/-
  C06 — the fully-resolved form is explicit, self-contained and a fixed point.

  `Graph.asdict g` (Model of Python `Graph.asdict()`) is the fully-resolved dictionary of `g`;
  `resolve` is the Model of `Graph.fromdict`; `Read.graph` is the strict reader of the machine
  data model.  `coerceO` is the `coerce_types` pass `attr.asdict` applies to every leaf (a Python
  `bool` becomes an `int`); it only ever touches the user's `metadata`.
-/
import DemesVerif.Proofs.AsdictResolve
import DemesVerif.Theorems.TablesResolve
import DemesVerif.Proofs.InGenerations
namespace Demes.Theorems
open Demes Demes.Spec

/-! ### 1. shape -/

/-- For every graph (valid or not) the key lists of the fully-resolved dictionary are exactly
the fields of the machine data model, in this order, at every level: no `defaults` anywhere, no
`start_time` in an epoch (epochs carry only end times), no `demes` in a migration (no symmetric
migrations). -/
theorem asdict_shape (g : Graph) :
    ∃ top, Graph.asdict g = .obj top
      ∧ Obj.keys top = ["description", "time_units", "generation_time", "doi", "metadata", "demes",
          "migrations", "pulses"]
      ∧ Obj.lookup "demes" top = some (.list (g.demes.map Deme.asdict))
      ∧ Obj.lookup "migrations" top = some (.list (g.migrations.map Migration.asdict))
      ∧ Obj.lookup "pulses" top = some (.list (g.pulses.map Pulse.asdict))
      ∧ (∀ d ∈ g.demes, ∃ o, Deme.asdict d = .obj o
          ∧ Obj.keys o = ["name", "description", "start_time", "ancestors", "proportions", "epochs"]
          ∧ Obj.lookup "epochs" o = some (.list (d.epochs.map Epoch.asdict))
          ∧ ∀ e ∈ d.epochs, ∃ eo, Epoch.asdict e = .obj eo
              ∧ Obj.keys eo = ["end_time", "start_size", "end_size", "size_function", "selfing_rate",
                  "cloning_rate"])
      ∧ (∀ m ∈ g.migrations, ∃ o, Migration.asdict m = .obj o
          ∧ Obj.keys o = ["source", "dest", "start_time", "end_time", "rate"])
      ∧ (∀ p ∈ g.pulses, ∃ o, Pulse.asdict p = .obj o
          ∧ Obj.keys o = ["sources", "dest", "time", "proportions"]) :=
  Proofs.Asdict.asdict_shape g

/-- Every emitted field has an explicit value (never `null`, so nothing is left to be
inferred): start times, sizes, size functions, rates, proportions, … -/
theorem asdict_explicit (g : Graph) (d : Deme) (e : Epoch) (m : Migration) (p : Pulse) :
    (∀ o, Graph.asdict g = .obj o → ∀ k ∈ Obj.keys o, ∃ v, Obj.lookup k o = some v ∧ v.isNull = false)
    ∧ (∀ o, Deme.asdict d = .obj o → ∀ k ∈ Obj.keys o, ∃ v, Obj.lookup k o = some v ∧ v.isNull = false)
    ∧ (∀ o, Epoch.asdict e = .obj o → ∀ k ∈ Obj.keys o, ∃ v, Obj.lookup k o = some v ∧ v.isNull = false)
    ∧ (∀ o, Migration.asdict m = .obj o →
        ∀ k ∈ Obj.keys o, ∃ v, Obj.lookup k o = some v ∧ v.isNull = false)
    ∧ (∀ o, Pulse.asdict p = .obj o → ∀ k ∈ Obj.keys o, ∃ v, Obj.lookup k o = some v ∧ v.isNull = false) :=
  ⟨fun _ h => by cases h; exact Proofs.Asdict.explicit_graphObj g,
   fun _ h => by cases h; exact Proofs.Asdict.explicit_demeObj d,
   fun _ h => by cases h; exact Proofs.Asdict.explicit_epochObj e,
   fun _ h => by cases h; exact Proofs.Asdict.explicit_migrationObj m,
   fun _ h => by cases h; exact Proofs.Asdict.explicit_pulseObj p⟩

/-! ### 2. only fields `Graph.fromdict` knows -/

/-- Every key emitted at each level is in the Model's list of allowed fields of that level. -/
theorem asdict_fields_allowed :
    (∀ (g : Graph) (o : Obj), Graph.asdict g = .obj o → ∀ k ∈ Obj.keys o, k ∈ allowedTop)
    ∧ (∀ (d : Deme) (o : Obj), Deme.asdict d = .obj o → ∀ k ∈ Obj.keys o, k ∈ allowedDemeInner)
    ∧ (∀ (e : Epoch) (o : Obj), Epoch.asdict e = .obj o → ∀ k ∈ Obj.keys o, k ∈ allowedEpoch)
    ∧ (∀ (m : Migration) (o : Obj), Migration.asdict m = .obj o →
        ∀ k ∈ Obj.keys o, k ∈ allowedMigration)
    ∧ (∀ (p : Pulse) (o : Obj), Pulse.asdict p = .obj o → ∀ k ∈ Obj.keys o, k ∈ allowedPulse) :=
  Proofs.Asdict.asdict_fields_allowed

/-- The same against the field lists regenerated from the Python source of `Graph.fromdict` on
this run (`Generated/Resolve.lean`, tied to the Model's by `Theorems/TablesResolve.lean`): a
change of the source's field lists breaks this theorem. -/
theorem asdict_fields_allowed_source :
    (∀ (g : Graph) (o : Obj), Graph.asdict g = .obj o → ∀ k ∈ Obj.keys o, k ∈ Generated.allowedTop)
    ∧ (∀ (d : Deme) (o : Obj), Deme.asdict d = .obj o →
        ∀ k ∈ Obj.keys o, k ∈ Generated.allowedDemeInner)
    ∧ (∀ (e : Epoch) (o : Obj), Epoch.asdict e = .obj o → ∀ k ∈ Obj.keys o, k ∈ Generated.allowedEpoch)
    ∧ (∀ (m : Migration) (o : Obj), Migration.asdict m = .obj o →
        ∀ k ∈ Obj.keys o, k ∈ Generated.allowedMigration)
    ∧ (∀ (p : Pulse) (o : Obj), Pulse.asdict p = .obj o →
        ∀ k ∈ Obj.keys o, k ∈ Generated.allowedPulse) := by
  rw [Tables.tables_allowed_top, Tables.tables_allowed_deme, Tables.tables_allowed_epoch,
    Tables.tables_allowed_migration, Tables.tables_allowed_pulse]
  exact Proofs.Asdict.asdict_fields_allowed

/-! ### 3. plain values -/

/-- The dictionary is built from `null`, numbers, strings, lists and mappings only — no `bool`,
whatever the user's metadata contains. -/
theorem asdict_plain (g : Graph) : (Graph.asdict g).plain = true :=
  Proofs.Asdict.asdict_plain g

/-- Outside `metadata` every number is a rational or `+∞` (never NaN, never `−∞`). -/
theorem asdict_plain_numbers (g : Graph) :
    ∃ top, Graph.asdict g = .obj top ∧ Value.plainStdO (Obj.erase "metadata" top) = true :=
  ⟨_, rfl, Proofs.Asdict.asdict_plainStd_noMeta g⟩

/-- `coerce_types` leaves `bool`-free values alone, and is idempotent. -/
theorem coerce_of_plain (m : Obj) (h : Value.plainO m = true) : coerceO m = m :=
  Proofs.Asdict.coerceO_of_plain m h
theorem coerce_idem (m : Obj) : coerceO (coerceO m) = coerceO m := Proofs.Asdict.coerceO_idem m

/-! ### 4. the strict reader inverts `asdict` -/

/-- With a correct name index (V0) and contiguous epochs (V5) the strict reader gives back the
graph, up to the `coerce_types` pass on the metadata. -/
theorem read_asdict (g : Graph) (h0 : v0 g = true) (h5 : v5 g = true) :
    Read.graph (Graph.asdict g) = .ok { g with metadata := coerceO g.metadata } :=
  Proofs.Asdict.read_asdict g h0 h5

/-- … and exactly the graph when its metadata contains no `bool`. -/
theorem read_asdict_plain (g : Graph) (h0 : v0 g = true) (h5 : v5 g = true)
    (hm : Value.plainO g.metadata = true) : Read.graph (Graph.asdict g) = .ok g :=
  Proofs.Asdict.read_asdict_plain g h0 h5 hm

/-! ### 5. `Graph.fromdict` accepts the fully-resolved form and rebuilds the graph -/

/-- Clause by clause, with the migration-rate check (`_check_migration_rates`, run on the graph
built by the deme and migration loops: `g`'s demes and migrations, no pulses yet) as a
hypothesis. -/
theorem resolve_asdict_of_rates_ok (g : Graph) (h0 : v0 g = true) (h1 : v1 g = true) (h2 : v2 g = true)
    (h3 : v3 g = true) (h4 : v4 g = true) (h5 : v5 g = true) (h6 : v6 g = true) (h8 : v8 g = true)
    (h9 : v9 g = true) (h11 : v11 g = true) (h12 : v12 g = true) (h13 : v13 g = true)
    (hrates : checkMigrationRates (Proofs.Asdict.withMigs g g.migrations) = .ok ()) :
    resolve (Graph.asdict g) = .ok { g with metadata := coerceO g.metadata } :=
  Proofs.Asdict.resolve_asdict_of_rates_ok g h0 h1 h2 h3 h4 h5 h6 h8 h9 h11 h12 h13 hrates

/-- that graph has the demes and migrations of `g`, which is all the rate check looks at -/
theorem rates_graph (g : Graph) :
    checkMigrationRates (Proofs.Asdict.withMigs g g.migrations) = checkMigrationRates g :=
  Proofs.Asdict.checkMigrationRates_withMigs g

/-- No spurious rejection: the fully-resolved dictionary of a valid graph is accepted, and
resolving it returns the graph (up to the `coerce_types` pass on the metadata). -/
theorem resolve_asdict (g : Graph) (hv : validGraph g = true) :
    resolve (Graph.asdict g) = .ok { g with metadata := coerceO g.metadata } :=
  Proofs.Asdict.resolve_asdict g hv

/-- … an equal graph when the metadata contains no `bool`. -/
theorem resolve_asdict_plain (g : Graph) (hv : validGraph g = true)
    (hm : Value.plainO g.metadata = true) : resolve (Graph.asdict g) = .ok g :=
  Proofs.Asdict.resolve_asdict_plain g hv hm

/-! ### 6. fixed point -/

/-- Resolving the fully-resolved dictionary of a valid graph succeeds, gives a valid graph,
and that graph's dictionary is identical. -/
theorem asdict_fixed_point (g : Graph) (hv : validGraph g = true) :
    ∃ g', resolve (Graph.asdict g) = .ok g' ∧ Graph.asdict g' = Graph.asdict g
      ∧ validGraph g' = true :=
  Proofs.Asdict.asdict_fixed_point g hv

/-! ### non-vacuity -/

section
open Proofs.Asdict   -- decidable equality of documents

/-- the C11 example (three demes with ancestry, three epochs kinds, three migrations, two
pulses, time units "years") with metadata containing `bool`s and a NaN -/
def c06Graph : Graph :=
  { Proofs.InGen.exampleYears with
    metadata := [("flag", .bool true), ("n", .num .nan),
                 ("nested", .obj [("xs", .list [.bool false, .str "s", .null])])] }

example : validGraph Proofs.InGen.exampleYears = true := by decide +kernel
example : validGraph c06Graph = true := by decide +kernel
example : Value.plainO Proofs.InGen.exampleYears.metadata = true
    ∧ Value.plainO c06Graph.metadata = false := by decide +kernel

-- the fixed point, by evaluation
example : (resolve (Graph.asdict Proofs.InGen.exampleYears)).toOption.map Graph.asdict
    = some (Graph.asdict Proofs.InGen.exampleYears) := by decide +kernel
example : (resolve (Graph.asdict c06Graph)).toOption.map Graph.asdict
    = some (Graph.asdict c06Graph) := by decide +kernel
example : (Read.graph (Graph.asdict c06Graph)).toOption.map Graph.asdict
    = some (Graph.asdict c06Graph) := by decide +kernel

-- the `bool`s of the metadata are the one thing that changes
example : (resolve (Graph.asdict c06Graph)).toOption.map (·.metadata)
    = some [("flag", .num (.fin 1)), ("n", .num .nan),
            ("nested", .obj [("xs", .list [.num (.fin 0), .str "s", .null])])] := by decide +kernel

-- the emitted form really has no `defaults`, infinite start time spelled out, …
example : (Graph.asdict c06Graph).plain = true := by decide +kernel
example : (Proofs.InGen.exampleYears.demes.map Deme.asdict).head? = some (.obj
    [("name", .str "A"), ("description", .str "ancestral"), ("start_time", .num .pinf),
     ("ancestors", .list []), ("proportions", .list []),
     ("epochs", .list [.obj [("end_time", .num (.fin 0)), ("start_size", .num (.fin 1000)),
        ("end_size", .num (.fin 1000)), ("size_function", .str "constant"),
        ("selfing_rate", .num (.fin 0)), ("cloning_rate", .num (.fin (1/10)))]])]) := by decide +kernel

-- an invalid graph's dictionary is (rightly) not accepted: the hypothesis matters
example : validGraph { c06Graph with pulses := c06Graph.pulses.reverse } = false
    ∧ (resolve (Graph.asdict { c06Graph with pulses := c06Graph.pulses.reverse })).toOption.map
        Graph.asdict ≠ some (Graph.asdict { c06Graph with pulses := c06Graph.pulses.reverse }) := by
  decide +kernel
end

end Demes.Theorems
