/-
  Semantic tie of `Graph.rename_demes` (C15): which attributes are renamed, in which loops, how the name index
  is rebuilt, and the validation of the result.

  `Generated.renameDemesUpdates` is the table of the function's update statements (the two renaming idioms
  `if x.a in names: x.a = names[x.a]` and `x.a = [names[v] if v in names else v for v in x.a]`, and the
  rebuilding of `_deme_map`), in source order; `applyUpdates` (Proofs/Guards2Updates.lean) gives a row its meaning.
  The Model's `renameDemes` is proved equal to the interpretation of the generated table for ALL graphs and
  renamings.  The three rejections are translated by the "Guards" translator; `renameNamesOk` (the Model of the
  validation) is proved to be `valid_deme_name` on every resulting name and the source's size test on the
  rebuilt index.  Every other statement, with its position among the updates, is pinned.
-/
import DemesVerif.Generated.GuardsRename
import DemesVerif.Proofs.Guards2Updates
import DemesVerif.Proofs.Guards
import DemesVerif.Proofs.Guards2Rename
namespace Demes.Tables
open Demes Demes.Proofs.Guards2
set_option linter.unusedSimpArgs false

theorem guards_tie_rename_demes (g : Graph) (r : Renaming) :
    applyUpdates r Generated.renameDemesUpdates g = some (renameDemes g r) := by
  simp [applyUpdates, Generated.renameDemesUpdates, applyUpdate, renameUpdate, renameDemes,
    mapDemes, mapEpochs, mapMigrations, mapPulses, List.map_map, Function.comp_def]

theorem guards_sites_rename : Generated.guardSitesRename = [("Graph.rename_demes", 7, 3)] := by decide +kernel

theorem guards_context_rename : Generated.guardContextRename =
    [("guard_rename_not_mapping", []), ("guard_rename_not_str", ["for v1 in v0.demes"]),
     ("guard_rename_collision", [])] := by decide +kernel

/-- the statements of `rename_demes` that are not updates, each with the number of updates that precede it:
the type test of `names` and the deep copy come first; the validation of the resulting names
(`isinstance(deme.name, str)`, `valid_deme_name`) and the size test of the rebuilt index come after all seven -/
theorem guards_rename_other : Generated.renameDemesOther =
    [
     ("if not isinstance(names, Mapping)", [], 0),
     ("raise TypeError('names is not a dictionary')", ["if not isinstance(names, Mapping)"], 0),
     ("v0 = copy.deepcopy(self)", [], 0),
     ("if not isinstance(v1.name, str)", ["for v1 in v0.demes"], 7),
     ("raise TypeError(f'deme name {v1.name!r} is not a string')", ["for v1 in v0.demes", "if not isinstance(v1.name, str)"], 7),
     ("valid_deme_name(v1, None, v1.name)", ["for v1 in v0.demes"], 7),
     ("if len(v0._deme_map) != len(v0.demes)", [], 7),
     ("raise ValueError('deme names must be unique after renaming')", ["if len(v0._deme_map) != len(v0.demes)"], 7),
     ("return v0", [], 7)] := by decide +kernel

/-- a `Renaming` is a mapping and its values are strings: the two `TypeError`s cannot happen in the Model -/
theorem guard_rename_types_meaning :
    Generated.guard_rename_not_mapping (isinstance_names_Mapping := true) = false
    ∧ Generated.guard_rename_not_str (isinstance_v1_name_str := true) = false := by
  unfold Generated.guard_rename_not_mapping Generated.guard_rename_not_str
  decide

/-- `len(graph._deme_map) != len(graph.demes)` on the renamed graph: two demes got the same name -/
theorem guard_rename_collision_meaning (g : Graph) (r : Renaming) :
    Generated.guard_rename_collision (len_v0_deme_map := (renameDemes g r).index.length)
        (len_v0_demes := (renameDemes g r).demes.length) = true
      ↔ ¬ ((renameDemes g r).demes.map (·.name)).Nodup := by
  unfold Generated.guard_rename_collision
  have h := rebuildIndex_length_iff (renameDemes g r).demes
  have hi : (renameDemes g r).index = rebuildIndex (renameDemes g r).demes := rfl
  rw [hi]
  simp only [bne_iff_ne, ne_eq, h]

/-- the Model's validation is the source's: `valid_deme_name` (an identifier) on every resulting name, and no collision -/
theorem guards_tie_rename_check (g : Graph) (r : Renaming) :
    renameNamesOk g r = (((renameDemes g r).demes.map (·.name)).all isIdentifier
      && !Generated.guard_rename_collision (len_v0_deme_map := (renameDemes g r).index.length)
          (len_v0_demes := (renameDemes g r).demes.length)) := by
  have hn : (renameDemes g r).demes.map (·.name) = g.demes.map (fun d => r.apply d.name) := by
    simp [renameDemes, List.map_map, Function.comp_def]
  have hc := guard_rename_collision_meaning g r
  rw [hn] at hc ⊢
  unfold renameNamesOk
  simp only [List.map_map, Function.comp_def]
  congr 1
  by_cases hnd : (g.demes.map (fun d => r.apply d.name)).Nodup
  · have : Generated.guard_rename_collision (len_v0_deme_map := (renameDemes g r).index.length)
        (len_v0_demes := (renameDemes g r).demes.length) = false := by
      cases hb : Generated.guard_rename_collision (len_v0_deme_map := (renameDemes g r).index.length)
        (len_v0_demes := (renameDemes g r).demes.length) with
      | false => rfl
      | true => exact absurd hnd (hc.mp hb)
    rw [this]; simp [hnd]
  · rw [hc.mpr hnd]; simp [hnd]

/-! ### the interpreter distinguishes tables; the collision test fires (closed instances on `exGraphM`) -/

section sensitivity
open Demes.Proofs.Guards

def exRenaming : Renaming := [("a", "x")]

example : (renameDemes exGraphM exRenaming).migrations
    = [{ source := "x", dest := "b", startTime := .fin 8, endTime := 2, rate := 1/10 }]
    ∧ ((renameDemes exGraphM exRenaming).demes.map (fun d => (d.name, d.ancestors))) = [("x", []), ("b", ["x"])]
    ∧ (renameDemes exGraphM exRenaming).index = [("x", 0), ("b", 1)] := by decide +kernel
-- without the row of the migration sources they keep the old name
example : (applyUpdates exRenaming (Generated.renameDemesUpdates.filter (fun u => u.2.1 != "source")) exGraphM).map (·.migrations)
    = some [{ source := "a", dest := "b", startTime := .fin 8, endTime := 2, rate := 1/10 }] := by decide +kernel
example : (applyUpdates exRenaming [(["demes"], "name", "RenameEach", "names")] exGraphM).isSome = false := by decide +kernel
-- renaming `a` to `b` collides: the rebuilt index has one entry for two demes
example : renameNamesOk exGraphM [("a", "b")] = false
    ∧ Generated.guard_rename_collision (len_v0_deme_map := (renameDemes exGraphM [("a", "b")]).index.length)
        (len_v0_demes := (renameDemes exGraphM [("a", "b")]).demes.length) = true
    ∧ renameNamesOk exGraphM exRenaming = true := by decide +kernel

end sensitivity

end Demes.Tables
