/-
  The event records of demes/demes.py — `Split`, `Branch`, `Merge`, `Admix` — with their validation,
  statement by statement in attrs order: the field validators in declaration order (a validator added
  with `@<field>.validator` runs right after that field's `validator=` argument), then
  `__attrs_post_init__`.  Only accept / reject is modelled (`true` = the constructor returns).

  Fields are given in the wire format: names are strings, lists are lists, numbers are document numbers
  (`Num`), so `instance_of(str)` / `instance_of(list)` hold by typing and `int_or_float` is "not NaN".
  `sum` is the exact sum (`Num.pysum`), `math.isclose(s, 1.0)` has Python's default tolerances
  (rel_tol = 1e-9 = `relTol`, abs_tol = 0).

  `discreteEventsChecked` is `discreteEvents` (Model/Views.lean) with every record validated at the
  place `Graph.discrete_demographic_events` constructs it: branches, mergers and admixtures inside
  the loop over `predecessors()`, splits afterwards.
-/
import DemesVerif.Model.Views
import DemesVerif.Model.Resolve
import DemesVerif.Model.NumClose
namespace Demes

/-! ### field validators -/

/-- `int_or_float` on a document number -/
def recordNumOk (n : Num) : Bool := !n.isNan

/-- `[attr.validators.instance_of(str), valid_deme_name]` on a string -/
def recordNameOk (s : String) : Bool := isIdentifier s

/-- `deep_iterable(member_validator=and_(instance_of(str), valid_deme_name), iterable_validator=instance_of(list))`
on a list of strings -/
def recordNamesOk (xs : List String) : Bool := xs.all recordNameOk

/-- `[int_or_float, non_negative, finite]` on a document number -/
def recordTimeOk (t : Num) : Bool :=
  recordNumOk t && (vNonNegative t).isOk && (vFinite t).isOk

/-- `deep_iterable(member_validator=int_or_float, iterable_validator=instance_of(list))` -/
def recordNumsOk (ps : List Num) : Bool := ps.all recordNumOk

/-- Python's `math.isclose(sum(ps), 1.0)` -/
def recordSumIsOne (ps : List Num) : Bool :=
  Num.isclose (Num.pysum ps) Num.one (Num.fin relTol) (Num.fin 0)

/-! ### `Split` -/

/-- `Split.__attrs_post_init__`: the parent is not a child; no child is repeated -/
def splitPostInitOk (parent : String) (children : List String) : Bool :=
  !children.contains parent && decide children.Nodup

/-- `Split(parent=…, children=…, time=…)` returns -/
def splitRecordOk (parent : String) (children : List String) (time : Num) : Bool :=
  recordNameOk parent
    && (recordNamesOk children && !children.isEmpty)      -- and_(deep_iterable(…), nonzero_len)
    && recordTimeOk time
    && splitPostInitOk parent children

/-! ### `Branch` -/

/-- `Branch.__attrs_post_init__` -/
def branchPostInitOk (parent child : String) : Bool := !(child == parent)

/-- `Branch(parent=…, child=…, time=…)` returns -/
def branchRecordOk (parent child : String) (time : Num) : Bool :=
  recordNameOk parent && recordNameOk child && recordTimeOk time && branchPostInitOk parent child

/-! ### `Merge` -/

/-- `Merge._check_proportions`: a non-empty list sums to 1 (`math.isclose`); then, for each
proportion, `unit_interval` and `positive` -/
def mergeCheckProportionsOk (proportions : List Num) : Bool :=
  !(decide (0 < proportions.length) && !recordSumIsOne proportions)
    && proportions.all (fun p => (vUnitInterval p).isOk && (vPositive p).isOk)

/-- `Merge.__attrs_post_init__`: at least two parents; as many proportions as parents; the child is
not a parent; no parent is repeated -/
def mergePostInitOk (parents : List String) (proportions : List Num) (child : String) : Bool :=
  !decide (parents.length < 2) && !decide (parents.length ≠ proportions.length)
    && !parents.contains child && decide parents.Nodup

/-- `Merge(parents=…, proportions=…, child=…, time=…)` returns -/
def mergeRecordOk (parents : List String) (proportions : List Num) (child : String) (time : Num) : Bool :=
  recordNamesOk parents
    && (recordNumsOk proportions && mergeCheckProportionsOk proportions)
    && recordNameOk child
    && recordTimeOk time
    && mergePostInitOk parents proportions child

/-! ### `Admix` (the class repeats `Merge` word for word; kept separate because the source does) -/

/-- `Admix._check_proportions` -/
def admixCheckProportionsOk (proportions : List Num) : Bool :=
  !(decide (0 < proportions.length) && !recordSumIsOne proportions)
    && proportions.all (fun p => (vUnitInterval p).isOk && (vPositive p).isOk)

/-- `Admix.__attrs_post_init__` -/
def admixPostInitOk (parents : List String) (proportions : List Num) (child : String) : Bool :=
  !decide (parents.length < 2) && !decide (parents.length ≠ proportions.length)
    && !parents.contains child && decide parents.Nodup

/-- `Admix(parents=…, proportions=…, child=…, time=…)` returns -/
def admixRecordOk (parents : List String) (proportions : List Num) (child : String) (time : Num) : Bool :=
  recordNamesOk parents
    && (recordNumsOk proportions && admixCheckProportionsOk proportions)
    && recordNameOk child
    && recordTimeOk time
    && admixPostInitOk parents proportions child

/-! ### the records `discrete_demographic_events` constructs -/

/-- the constructor call that produced this `SplitEv` returns -/
def SplitEv.recordOk (s : SplitEv) : Bool := splitRecordOk s.parent s.children (Num.fin s.time)

/-- the constructor call that produced this `BranchEv` returns -/
def BranchEv.recordOk (b : BranchEv) : Bool := branchRecordOk b.parent b.child (Num.ofETime b.time)

/-- `Merge(parents=…, proportions=…, child=…, time=…)` with the fields of this event returns -/
def MergeEv.mergeOk (m : MergeEv) : Bool :=
  mergeRecordOk m.parents (m.proportions.map Num.fin) m.child (Num.ofETime m.time)

/-- `Admix(parents=…, proportions=…, child=…, time=…)` with the fields of this event returns -/
def MergeEv.admixOk (m : MergeEv) : Bool :=
  admixRecordOk m.parents (m.proportions.map Num.fin) m.child (Num.ofETime m.time)

/-- every record of an event dictionary passes its class's validation -/
def Events.recordsOk (ev : Events) : Bool :=
  ev.splits.all SplitEv.recordOk && ev.branches.all BranchEv.recordOk
    && ev.mergers.all MergeEv.mergeOk && ev.admixtures.all MergeEv.admixOk

/-- the body of the loop over `self.predecessors().items()`, the record constructors validating -/
def eventsStepChecked (g : Graph) (acc : Events × NameMap) (cp : String × List String) :
    Except Err (Events × NameMap) := do
  let (ev, sp) := acc
  let (c, p) := cp
  match p with
  | [] => pure (ev, sp)
  | [p0] =>
    let cd ← getDeme g c
    let pd ← getDeme g p0
    if cd.startTime = ETime.fin pd.endTime then
      pure (ev, (sp.setDefault p0).append p0 c)
    else
      let b : BranchEv := { parent := p0, child := c, time := cd.startTime }
      if !b.recordOk then valueErr s!"Branch(parent={p0}, child={c}, …) raises" else
      pure ({ ev with branches := ev.branches ++ [b] }, sp)
  | _ =>
    let cd ← getDeme g c
    let ends ← p.mapM (fun a => (getDeme g a).map (fun d => ETime.fin d.endTime))
    let aligned := ends.all (fun e => cd.startTime = e)
    let e : MergeEv := { parents := cd.ancestors, proportions := cd.proportions, child := c, time := cd.startTime }
    if aligned then
      if !e.mergeOk then valueErr s!"Merge(…, child={c}, …) raises" else
      pure ({ ev with mergers := ev.mergers ++ [e] }, sp)
    else
      if !e.admixOk then valueErr s!"Admix(…, child={c}, …) raises" else
      pure ({ ev with admixtures := ev.admixtures ++ [e] }, sp)

/-- one iteration of the loop over `splits_to_add.items()` -/
def splitOfChecked (g : Graph) (kv : String × List String) : Except Err SplitEv := do
  let pd ← getDeme g kv.1
  let s : SplitEv := { parent := kv.1, children := kv.2, time := pd.endTime }
  if !s.recordOk then valueErr s!"Split(parent={kv.1}, …) raises" else
  pure s

/-- `Graph.discrete_demographic_events()` with the validation of every record it constructs, in the
order of construction.  An error is the exception the call raises (`KeyError` from a lookup,
otherwise the record's `ValueError` / `TypeError`, not distinguished). -/
def discreteEventsChecked (g : Graph) : Except Err Events := do
  let init : Events × NameMap :=
    ({ pulses := g.pulses, splits := [], branches := [], mergers := [], admixtures := [] }, [])
  let (ev, splitsToAdd) ← (predecessors g).foldlM (eventsStepChecked g) init
  let splits ← splitsToAdd.mapM (splitOfChecked g)
  pure { ev with splits := splits }

end Demes
