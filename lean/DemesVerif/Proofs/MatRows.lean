/-
  C12, third clause: the sum of a row of a migration matrix is the total ingress into that
  deme at the end time of the matrix's interval, which `validGraph` (V10) bounds.
-/
import DemesVerif.Proofs.MatValid
namespace Demes.Proofs
open Demes Demes.Spec

/-! ### sums -/

theorem foldl_add_eq (row : List Q) : ∀ a : Q, row.foldl (· + ·) a = a + qsumS row := by
  induction row with
  | nil => intro a; simp [qsumS, Rat.add_zero]
  | cons x xs ih =>
    intro a
    simp only [List.foldl_cons, ih, qsumS, List.foldr_cons]
    rw [Rat.add_assoc]

theorem rowSum_eq (row : List Q) : rowSum row = qsumS row := by
  rw [rowSum, foldl_add_eq, Rat.zero_add]

theorem qsumS_cons (x : Q) (xs : List Q) : qsumS (x :: xs) = x + qsumS xs := rfl

theorem qsumS_map_add {α} (f h : α → Q) : ∀ l : List α,
    qsumS (l.map (fun x => f x + h x)) = qsumS (l.map f) + qsumS (l.map h)
  | [] => (Rat.add_zero 0).symm
  | x :: xs => by
    simp only [List.map_cons, qsumS_cons, qsumS_map_add f h xs]
    grind

theorem qsumS_map_zero {α} (f : α → Q) : ∀ l : List α, (∀ x ∈ l, f x = 0) → qsumS (l.map f) = 0
  | [], _ => rfl
  | x :: xs, h => by
    simp only [List.map_cons, qsumS_cons, h x (by simp),
      qsumS_map_zero f xs (fun y hy => h y (by simp [hy])), Rat.add_zero]

theorem qsumS_map_single {α β} [DecidableEq β] (key : α → β) (k0 : β) (r : Q) : ∀ l : List α,
    (l.map key).Nodup → k0 ∈ l.map key →
    qsumS (l.map (fun x => if key x = k0 then r else 0)) = r
  | [], _, h => by simp at h
  | x :: xs, hn, hm => by
    simp only [List.map_cons, List.nodup_cons] at hn
    simp only [List.map_cons, qsumS_cons]
    by_cases hx : key x = k0
    · rw [if_pos hx, qsumS_map_zero, Rat.add_zero]
      intro y hy
      have : key y ≠ k0 := by
        intro h; apply hn.1; rw [hx, ← h]; exact List.mem_map_of_mem hy
      simp [this]
    · rw [if_neg hx, Rat.zero_add]
      apply qsumS_map_single key k0 r xs hn.2
      simp only [List.map_cons, List.mem_cons] at hm
      rcases hm with h | h
      · exact absurd h.symm hx
      · exact h

/-- if no two elements satisfy `p`, the sum over the filter is the value at the found element -/
theorem qsumS_filter_unique {α} (p : α → Bool) (f : α → Q) : ∀ l : List α,
    l.Pairwise (fun a b => ¬ (p a = true ∧ p b = true)) →
    qsumS ((l.filter p).map f) = ((l.find? p).map f).getD 0
  | [], _ => rfl
  | x :: xs, h => by
    rw [List.pairwise_cons] at h
    rw [List.filter_cons, List.find?_cons]
    cases hx : p x with
    | true =>
      have : xs.filter p = [] := by
        rw [List.filter_eq_nil_iff]
        intro y hy hpy; exact h.1 y hy ⟨hx, hpy⟩
      simp [this, qsumS, Rat.add_zero]
    | false =>
      simpa using qsumS_filter_unique p f xs h.2

/-! ### row sums and ingress -/

theorem active_not_disjoint {a b : Migration} {t : Q} (ha : activeAt a t = true)
    (hb : activeAt b t = true) : disjoint a b = false := by
  simp only [activeAt, Bool.and_eq_true, decide_eq_true_eq] at ha hb
  simp only [disjoint, Bool.not_eq_false', Bool.and_eq_true, decide_eq_true_eq]
  constructor
  · cases hst : a.startTime with
    | inf => simp
    | fin q => rw [hst] at ha; simp only [fin_lt_fin] at ha ⊢; grind
  · cases hst : b.startTime with
    | inf => simp
    | fin q => rw [hst] at hb; simp only [fin_lt_fin] at hb ⊢; grind

/-- the predicate of `rateAt` -/
def ratePred (src dst : String) (t : Q) : Migration → Bool :=
  fun m => m.source == src && m.dest == dst && activeAt m t

theorem rateAt_eq (g : Graph) (src dst : String) (t : Q) :
    rateAt g src dst t = ((g.migrations.find? (ratePred src dst t)).map (·.rate)).getD 0 := by
  unfold rateAt ratePred
  split <;> simp [*]

theorem rateAt_eq_sum {g : Graph} (hf : MigFacts g) (src dst : String) (t : Q) :
    rateAt g src dst t = qsumS ((g.migrations.filter (ratePred src dst t)).map (·.rate)) := by
  rw [qsumS_filter_unique, rateAt_eq]
  · refine List.Pairwise.imp ?_ hf.disj
    intro a b hab ⟨ha, hb⟩
    simp only [ratePred, Bool.and_eq_true, beq_iff_eq] at ha hb
    have hd := active_not_disjoint ha.2 hb.2
    simp [ha.1.1, ha.1.2, hb.1.1, hb.1.2, hd] at hab

/-- summing, over all demes as source, the rates of the migrations of `L` from that source into
`dst` active at `t` gives the total rate of the migrations of `L` into `dst` active at `t` -/
theorem sum_by_source {g : Graph} (hn : (g.demes.map (·.name)).Nodup) (dst : String) (t : Q) :
    ∀ L : List Migration, (∀ m ∈ L, m.source ∈ g.demes.map (·.name)) →
    qsumS (g.demes.map (fun dj => qsumS ((L.filter (ratePred dj.name dst t)).map (·.rate))))
      = qsumS ((L.filter (fun m => m.dest == dst && activeAt m t)).map (·.rate))
  | [], _ => by
    simp only [List.filter_nil, List.map_nil]
    exact qsumS_map_zero _ _ (fun _ _ => rfl)
  | m :: L, hsrc => by
    have ih := sum_by_source hn dst t L (fun x hx => hsrc x (by simp [hx]))
    have hfun : (fun dj : Deme => qsumS (((m :: L).filter (ratePred dj.name dst t)).map (·.rate)))
        = fun dj : Deme => (if dj.name = m.source then
              (if (m.dest == dst && activeAt m t) = true then m.rate else 0) else 0)
            + qsumS ((L.filter (ratePred dj.name dst t)).map (·.rate)) := by
      funext dj
      rw [List.filter_cons]
      by_cases h1 : dj.name = m.source
      · by_cases h2 : (m.dest == dst && activeAt m t) = true
        · have : ratePred dj.name dst t m = true := by
            simp only [Bool.and_eq_true, beq_iff_eq] at h2
            simp [ratePred, h1, h2.1, h2.2]
          rw [if_pos this, if_pos h1, if_pos h2]; rfl
        · have : ratePred dj.name dst t m = false := by
            cases hb : (m.dest == dst) <;> cases hc : activeAt m t <;> simp_all [ratePred]
          rw [if_neg (by rw [this]; exact Bool.false_ne_true), if_pos h1, if_neg h2, Rat.zero_add]
      · have h3 : (m.source == dj.name) = false := by
          rw [beq_eq_false_iff_ne]; exact fun h => h1 h.symm
        have : ratePred dj.name dst t m = false := by simp [ratePred, h3]
        rw [if_neg (by rw [this]; exact Bool.false_ne_true), if_neg h1, Rat.zero_add]
    rw [hfun, qsumS_map_add, ih, List.filter_cons,
      qsumS_map_single (fun d : Deme => d.name) m.source _ g.demes hn (hsrc m (by simp))]
    split
    · rfl
    · rw [Rat.zero_add]

theorem ingress_eq {g : Graph} (hf : MigFacts g) (dst : String) (t : Q) :
    qsumS (g.demes.map (fun dj => rateAt g dj.name dst t)) = ingressAt g dst t := by
  have : (fun dj : Deme => rateAt g dj.name dst t)
      = fun dj : Deme => qsumS ((g.migrations.filter (ratePred dj.name dst t)).map (·.rate)) := by
    funext dj; exact rateAt_eq_sum hf _ _ _
  rw [this, sum_by_source hf.nodup dst t g.migrations]
  · rfl
  · intro m hm
    obtain ⟨s, _, hs, _⟩ := hf.mig m hm
    obtain ⟨hmem, hname⟩ := findDeme_some hs
    rw [← hname]; exact List.mem_map_of_mem hmem

theorem mem_boundaries {g : Graph} {x : Q} (h : x ∈ migrationTimes g.migrations ∨ x = 0) :
    x ∈ boundaries g := by
  simp only [boundaries, List.mem_cons, List.mem_append]
  simp only [migrationTimes, List.mem_append] at h
  rcases h with (h | h) | h
  · exact Or.inr (Or.inr h)
  · exact Or.inr (Or.inl h)
  · exact Or.inl h

/-- a row of a matrix is the list of its entries -/
theorem row_eq {n : Nat} {mm : Matrix} (hs : Shape n mm) {i : Nat} {row : List Q}
    (hr : mm[i]? = some row) : row = (List.range n).map (fun j => mm.get i j) := by
  have hlen : row.length = n := hs.2 row (List.mem_of_getElem? hr)
  apply List.ext_getElem
  · simp [hlen]
  · intro j h1 h2
    simp [Matrix.get, List.getD_eq_getElem?_getD, hr, h1]

/-- row `i` of matrix `k` sums to the total ingress into deme `i` at the end time `ends[k]`
(from V1, V6, V8, V9 only) -/
theorem row_sum_of_facts {g : Graph} (hf : MigFacts g) {mms : List Matrix} {ends : List Q}
    (h : migrationMatrices g = .ok (mms, ends)) {k i : Nat} {e : Q} {mm : Matrix} {row : List Q}
    {di : Deme} (he : ends[k]? = some e) (hmm : mms[k]? = some mm) (hrow : mm[i]? = some row)
    (hi : g.demes[i]? = some di) :
    rowSum row = ingressAt g di.name e := by
  obtain ⟨mms0, h0, hl, hsh, hget⟩ := mm_main g hf
  obtain ⟨_, _, hp, hmem⟩ := mmEndTimes_props g.migrations (times_nonneg hf)
  rw [h0] at h
  simp only [Except.ok.injEq, Prod.mk.injEq] at h
  obtain ⟨rfl, rfl⟩ := h
  obtain ⟨hklt, rfl⟩ := List.getElem?_eq_some_iff.mp he
  have hs := hsh mm (List.mem_of_getElem? hmm)
  have hrow_eq : row = g.demes.map (fun dj => rateAt g dj.name di.name (mmEndTimes g.migrations)[k]) := by
    rw [row_eq hs hrow]
    apply List.ext_getElem
    · simp
    · intro j h1 h2
      simp only [List.length_map, List.length_range] at h1
      simp only [List.getElem_map, List.getElem_range]
      exact entry_eq hf hp hmem hget (intervalOf_self hp hklt) hmm hi (List.getElem?_eq_getElem h1)
  rw [rowSum_eq, hrow_eq, ingress_eq hf]

theorem mem_boundaries_iff {g : Graph} {x : Q} :
    x ∈ boundaries g ↔ (x ∈ migrationTimes g.migrations ∨ x = 0) := by
  simp only [boundaries, List.mem_cons, List.mem_append, migrationTimes]
  grind

end Demes.Proofs
