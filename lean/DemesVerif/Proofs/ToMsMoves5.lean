/-
  C07 — the moves `msSemG` records for the emitted command are the graph's moves.
-/
import DemesVerif.Proofs.ToMsMoves4
set_option linter.unusedSimpArgs false
set_option linter.unusedVariables false
namespace Demes.Proofs.ToMs
open Demes Demes.Ms Demes.Spec Demes.Spec.C07 Demes.Proofs.RV
open Demes.Spec.MsSem

/-- the move of the graph at time `T`, if its rows are not all identity -/
def moveOpt (g : Graph) (T : Q) : List Move :=
  if (canonRows (gRowsAt g T)).isEmpty then [] else [{ time := T, rows := canonRows (gRowsAt g T) }]

theorem gMoves_eq (g : Graph) : gMoves g = (gTimes g).flatMap (moveOpt g) := by
  unfold gMoves moveOpt
  induction gTimes g with
  | nil => rfl
  | cons T l ih =>
    simp only [List.map_cons, List.filter_cons, List.flatMap_cons]
    by_cases h : (canonRows (gRowsAt g T)).isEmpty = true
    · simp only [h, Bool.not_true, Bool.false_eq_true, if_false, if_true, List.nil_append]; exact ih
    · simp only [h, Bool.not_false, if_true, Bool.false_eq_true, if_false, List.cons_append, List.nil_append]
      rw [ih]

def timeOf (N0 : Q) (grp : List (Event Growth)) : Q := 4 * N0 * ((grp.head?.map evT).getD 0)

section
variable {g : Graph} (c : Clauses g) (hx : MsExpressible g = true) (hex : ExactProportions g = true)
  {N0 : Q} (hN : 0 < N0)
include c hx hex hN

/-- the moves recorded for one time group -/
theorem newMoves_group {pre grp post : List (Event Growth)} (hF : finalEvs g N0 = pre ++ grp ++ post)
    (hne : grp ≠ []) (hsame : ∀ a ∈ grp, ∀ b ∈ grp, evT a = evT b)
    (hpre : ∀ a ∈ pre, ∀ b ∈ grp, evT a < evT b) (hpost : ∀ a ∈ grp, ∀ b ∈ post, evT a < evT b) :
    newMoves N0 (runP N0 (s0Of N0 g.demes.length) pre) grp
      = if grp.any isSplitJoin then moveOpt g (timeOf N0 grp) else [] := by
  obtain ⟨h0, tl, rfl⟩ : ∃ h0 tl, grp = h0 :: tl := by
    cases grp with
    | nil => exact absurd rfl hne
    | cons h0 tl => exact ⟨h0, tl, rfl⟩
  have hT : timeOf N0 (h0 :: tl) / (4 * N0) = evT h0 := by
    simp only [timeOf, List.head?_cons, Option.map_some, Option.getD_some]
    exact mul_div_cancel_left4 hN _
  have hrows := group_rows c hx hex hN (T := timeOf N0 (h0 :: tl)) hF
    (fun a ha => by rw [hT]; exact hpre a ha h0 List.mem_cons_self)
    (fun a ha => by rw [hT]; exact hsame a ha h0 List.mem_cons_self)
    (fun b hb => by rw [hT]; exact hpost h0 List.mem_cons_self b hb)
  unfold newMoves moveOpt
  by_cases hsj : (h0 :: tl).any isSplitJoin = true
  · rw [if_pos hsj, if_pos hsj]
    simp only [hrows]
    rfl
  · rw [if_neg hsj, if_neg hsj]

/-- the moves recorded for the groups `G`, read after the options `pre` -/
theorem movesOf_groups : ∀ (G : List (List (Event Growth))) (pre : List (Event Growth)),
    finalEvs g N0 = pre ++ G.flatten → GroupsOK G →
    (∀ a ∈ pre, ∀ grp ∈ G, ∀ b ∈ grp, evT a < evT b) →
    movesOf N0 (runP N0 (s0Of N0 g.demes.length) pre) G
      = G.flatMap (fun grp => if grp.any isSplitJoin then moveOpt g (timeOf N0 grp) else [])
  | [], _, _, _, _ => rfl
  | grp :: rest, pre, hF, hok, hsep => by
    have hinc := List.pairwise_cons.1 hok.inc
    obtain ⟨hne, hsame⟩ := hok.same grp List.mem_cons_self
    have hF' : finalEvs g N0 = pre ++ grp ++ rest.flatten := by rw [hF]; simp
    have hpost : ∀ a ∈ grp, ∀ b ∈ rest.flatten, evT a < evT b := by
      intro a ha b hb
      obtain ⟨g2, hg2, hb2⟩ := List.mem_flatten.1 hb
      exact hinc.1 g2 hg2 a ha b hb2
    rw [movesOf, List.flatMap_cons, newMoves_group c hx hex hN hF' hne hsame
      (fun a ha b hb => hsep a ha grp List.mem_cons_self b hb) hpost, ← runP_append]
    congr 1
    apply movesOf_groups rest (pre ++ grp) (by rw [hF']) ⟨hinc.2, fun g2 hg2 => hok.same g2 (List.mem_cons_of_mem _ hg2)⟩
    intro a ha g2 hg2 b hb
    rcases List.mem_append.1 ha with ha | ha
    · exact hsep a ha g2 (List.mem_cons_of_mem _ hg2) b hb
    · exact hinc.1 g2 hg2 a ha b hb

end

end Demes.Proofs.ToMs
