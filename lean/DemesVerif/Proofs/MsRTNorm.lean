/-
  C09 — graph → ms → graph without the hypothesis `ExactProportions`: the command `to_ms` emits is
  the one it emits for `normalizeProportions g` (`ToMsNorm.toMs_norm`), to which
  `ms_roundtrip_sem_partial` / `ms_roundtrip_sem_tame` apply.
-/
import DemesVerif.Proofs.MsRTCompose
import DemesVerif.Proofs.ToMsNorm
namespace Demes.Proofs.MsRT
open Demes Demes.Ms Demes.Spec Demes.Spec.C07 Demes.Spec.C09
open Demes.Spec.MsSem (DemogSem PopSem msSem graphSem graphSemWith msGraphSem parse)
open Demes.Spec.C08 (semEquiv popEquiv SemAgree resultSem Tame' PlainTokens)
open Demes.Proofs.ToMs (clauses_of_valid)
open Demes.Proofs.ToMsNorm (validGraph_norm expr_norm samplesOk_norm exact_norm toMs_norm)

theorem constSizes_norm (g : Graph) : ConstSizes (normalizeProportions g) = ConstSizes g := by
  unfold ConstSizes
  rw [ToMsNorm.norm_demes, InGen.all_map']
  rfl

theorem pulsesTame_norm (g : Graph) : PulsesTame (normalizeProportions g) = PulsesTame g := rfl

/-- Statement of `Theorems.ms_roundtrip_sem_norm`. -/
theorem ms_roundtrip_sem_norm (c : NumCodec) (sa : Growth → String) {g : Graph} (hv : validGraph g = true)
    (hx : MsExpressible g = true) (hcs : ConstSizes g = true)
    {N0 : Q} (hN : 0 < N0) {samples : Option (List Int)} (hs : samplesOk g samples = true)
    {toks : List (Tok Growth)} (htoks : toMs g N0 samples = .ok toks) (hc : CodecCovers c toks)
    {mg : MsGraph} (hfrom : fromMs (renderG c sa toks) N0 none = .ok mg)
    {pr : Demes.Spec.MsSem.Parsed} (hpr : parse (renderG c sa toks) = .ok pr) (ht : Tame' pr = true) :
    ∃ sem rs gs, msSem (renderG c sa toks) N0 = .ok sem ∧ resultSem mg = .ok rs
      ∧ graphSem (inGenerations (normalizeProportions g)) none = .ok gs
      ∧ semEquiv sem rs = true ∧ SemRefines sem gs ∧ SemRefines rs gs :=
  ms_roundtrip_sem_partial c sa (validGraph_norm hv) (by rw [expr_norm]; exact hx)
    (exact_norm (clauses_of_valid hv).h4) (by rw [constSizes_norm]; exact hcs) hN
    (samples := samples) (by rw [samplesOk_norm]; exact hs)
    (by rw [toMs_norm hv hx hN hs]; exact htoks) hc hfrom hpr ht

/-- Statement of `Theorems.ms_roundtrip_sem_tame_norm`. -/
theorem ms_roundtrip_sem_tame_norm (c : NumCodec) (sa : Growth → String) {g : Graph} (hv : validGraph g = true)
    (hx : MsExpressible g = true) (hcs : ConstSizes g = true) (hpt : PulsesTame g = true)
    {N0 : Q} (hN : 0 < N0) {samples : Option (List Int)} (hs : samplesOk g samples = true)
    {toks : List (Tok Growth)} (htoks : toMs g N0 samples = .ok toks) (hc : CodecCovers c toks)
    {mg : MsGraph} (hfrom : fromMs (renderG c sa toks) N0 none = .ok mg) :
    ∃ sem rs gs, msSem (renderG c sa toks) N0 = .ok sem ∧ resultSem mg = .ok rs
      ∧ graphSem (inGenerations (normalizeProportions g)) none = .ok gs
      ∧ semEquiv sem rs = true ∧ SemRefines sem gs ∧ SemRefines rs gs := by
  obtain ⟨pr, hpr, ht⟩ := toMs_tame c sa hv hx hcs hpt hN hs htoks hc
  exact ms_roundtrip_sem_norm c sa hv hx hcs hN hs htoks hc hfrom hpr ht

#print axioms ms_roundtrip_sem_norm
#print axioms ms_roundtrip_sem_tame_norm

end Demes.Proofs.MsRT
