/-
  C08 — the ms interpreter `Spec.MsSem.step`, option by option (equations and what each leaves
  unchanged).
-/
import DemesVerif.Spec.C08
namespace Demes.Proofs.FromMs
open Demes Demes.Ms Demes.Spec.MsSem Demes.Spec.C08

/-! ## `Except String` -/

theorem sbind_ok {α β} {x : Except String α} {f : α → Except String β} {b : β} :
    (x >>= f) = .ok b ↔ ∃ a, x = .ok a ∧ f a = .ok b := by
  cases x <;> simp [bind, Except.bind]

theorem spure_ok {α} {a b : α} : (pure a : Except String α) = .ok b ↔ a = b := by
  simp [pure, Except.pure]

theorem sthrow_ok {α} {m : String} {a : α} : (throw m : Except String α) = .ok a ↔ False := by
  simp [throw, throwThe, MonadExceptOf.throw]

theorem sthrow_bind_ok {α β} {m : String} {f : α → Except String β} {b : β} :
    ((throw m : Except String α) >>= f) = .ok b ↔ False := by
  simp [throw, throwThe, MonadExceptOf.throw, bind, Except.bind]

/-! ## the options -/

/-- the new population of `-es` -/
def newPop (N0 T : Q) : Pop := { lo := T, t0 := T, size0 := Sz.ofQ N0 }

/-- the joined population after `-ej` -/
def joinedPop (p : Pop) (T : Q) : Pop :=
  { p with hi := .fin T, t0 := T, size0 := p.sizeAt T,
           segs := if p.t0 < T then p.segs ++ [mkSeg p.t0 (.fin T) p.size0 p.growth] else p.segs }

theorem step_setSize (N0 : Q) (σ : St) (L : List (Nat × Row)) (t : Q) (i : Nat) (x : Q) (reset : Bool) :
    step N0 (σ, L) (.setSize t i x reset) = (do
      let p ← σ.pop i
      pure (σ.setPop i (p.change (4 * N0 * t) (some (Sz.ofQ (x * N0))) (if reset then some 0 else none)), L)) := rfl

theorem step_setSizeAll (N0 : Q) (σ : St) (L : List (Nat × Row)) (t x : Q) :
    step N0 (σ, L) (.setSizeAll t x) =
      pure ({ σ with pops := σ.pops.map (fun p =>
        if alive p then p.change (4 * N0 * t) (some (Sz.ofQ (x * N0))) (some 0) else p) }, L) := rfl

theorem step_setGrowth (N0 : Q) (σ : St) (L : List (Nat × Row)) (t : Q) (i : Nat) (a : Q) :
    step N0 (σ, L) (.setGrowth t i a) = (do
      let p ← σ.pop i
      pure (σ.setPop i (p.change (4 * N0 * t) none (some (a / (4 * N0)))), L)) := rfl

theorem step_setGrowthAll (N0 : Q) (σ : St) (L : List (Nat × Row)) (t a : Q) :
    step N0 (σ, L) (.setGrowthAll t a) =
      pure ({ σ with pops := σ.pops.map (fun p =>
        if alive p then p.change (4 * N0 * t) none (some (a / (4 * N0))) else p) }, L) := rfl

/-- the migration options change `mat` and `snaps` only -/
theorem step_mig_pops {N0 : Q} {σ σ' : St} {L L' : List (Nat × Row)} {c : Cmd}
    (hc : match c with | .setMigEntry .. => True | .setMigAll .. => True | .setMigMatrix .. => True | _ => False)
    (h : step N0 (σ, L) c = .ok (σ', L')) : σ'.pops = σ.pops ∧ σ'.moves = σ.moves ∧ L' = L := by
  cases c with
  | setMigEntry t i j m =>
    simp only [step] at h
    obtain ⟨_, _, h⟩ := sbind_ok.1 h
    obtain ⟨_, _, h⟩ := sbind_ok.1 h
    split at h
    · exact (sthrow_bind_ok.1 h).elim
    · rw [spure_ok] at h
      cases h
      exact ⟨rfl, rfl, rfl⟩
  | setMigAll t x =>
    simp only [step] at h
    rw [spure_ok] at h
    cases h
    exact ⟨rfl, rfl, rfl⟩
  | setMigMatrix t npop entries =>
    simp only [step] at h
    repeat' split at h
    all_goals first
      | exact (sthrow_bind_ok.1 h).elim
      | (obtain ⟨rows, _, h⟩ := sbind_ok.1 h
         rw [spure_ok] at h
         cases h
         exact ⟨rfl, rfl, rfl⟩)
  | _ => exact hc.elim

theorem step_split_ok {N0 : Q} {σ σ' : St} {L L' : List (Nat × Row)} {t : Q} {i : Nat} {p : Q}
    (h : step N0 (σ, L) (.split t i p) = .ok (σ', L')) :
    (∃ q, σ.pop i = .ok q) ∧ σ'.pops = σ.pops ++ [newPop N0 (4 * N0 * t)] ∧ σ'.moves = σ.moves
    ∧ L' = L.map (fun (ir : Nat × Row) =>
        (ir.1, ((ir.2.set i (ir.2.get i * p)).set (σ.pops.length + 1) (ir.2.get i * (1 - p))))) := by
  simp only [step] at h
  obtain ⟨q, hq, h⟩ := sbind_ok.1 h
  rw [spure_ok] at h
  cases h
  exact ⟨⟨q, hq⟩, rfl, rfl, rfl⟩

theorem step_join_ok {N0 : Q} {σ σ' : St} {L L' : List (Nat × Row)} {t : Q} {i j : Nat}
    (h : step N0 (σ, L) (.join t i j) = .ok (σ', L')) :
    ∃ q, σ.pop i = .ok q ∧ (∃ q', σ.pop j = .ok q') ∧ i ≠ j
      ∧ σ'.pops = σ.pops.set (i - 1) (joinedPop q (4 * N0 * t)) ∧ σ'.moves = σ.moves
      ∧ L' = L.map (fun (ir : Nat × Row) => (ir.1, (ir.2.set i 0).add j (ir.2.get i))) := by
  simp only [step] at h
  obtain ⟨q, hq, h⟩ := sbind_ok.1 h
  obtain ⟨q', hq', h⟩ := sbind_ok.1 h
  split at h
  · exact (sthrow_bind_ok.1 h).elim
  · rename_i hij
    rw [spure_ok] at h
    cases h
    exact ⟨q, hq, ⟨q', hq'⟩, hij, rfl, rfl, rfl⟩

theorem pop_ok {σ : St} {i : Nat} {p : Pop} (h : σ.pop i = .ok p) :
    1 ≤ i ∧ σ.pops[i - 1]? = some p ∧ alive p = true := by
  unfold St.pop at h
  split at h
  · rename_i q hq
    split at h
    · rename_i hc
      rw [spure_ok] at h
      subst h
      simp only [ge_iff_le, Bool.and_eq_true, decide_eq_true_eq] at hc
      exact ⟨hc.1, hq, hc.2⟩
    · exact (sthrow_ok.1 h).elim
  · exact (sthrow_ok.1 h).elim

/-! ## the migration matrix after each option -/

theorem snap_fields (σ : St) (T : Q) (m : Mat) :
    (σ.snap T m).mat = m ∧ (σ.snap T m).snaps = σ.snaps ++ [(T, m)] ∧ (σ.snap T m).pops = σ.pops := ⟨rfl, rfl, rfl⟩

theorem step_setMigEntry_ok {N0 : Q} {σ σ' : St} {L L' : List (Nat × Row)} {t : Q} {i j : Nat} {m : Q}
    (h : step N0 (σ, L) (.setMigEntry t i j m) = .ok (σ', L')) :
    (∃ p, σ.pop i = .ok p) ∧ (∃ p, σ.pop j = .ok p) ∧ i ≠ j
      ∧ σ' = σ.snap (4 * N0 * t) (matSet σ.mat (i - 1) (j - 1) (m / (4 * N0))) := by
  simp only [step] at h
  obtain ⟨p, hp, h⟩ := sbind_ok.1 h
  obtain ⟨q, hq, h⟩ := sbind_ok.1 h
  split at h
  · exact (sthrow_bind_ok.1 h).elim
  · rename_i hij
    rw [spure_ok] at h
    cases h
    exact ⟨⟨p, hp⟩, ⟨q, hq⟩, hij, rfl⟩

theorem step_setMigAll_eq (N0 : Q) (σ : St) (L : List (Nat × Row)) (t x : Q) :
    step N0 (σ, L) (.setMigAll t x) = pure (σ.snap (4 * N0 * t)
      ((List.range σ.pops.length).map (fun i => (List.range σ.pops.length).map (fun j =>
        if i ≠ j && (σ.pops[i]?.map alive).getD false && (σ.pops[j]?.map alive).getD false
        then x / ((σ.pops.length : Q) - 1) / (4 * N0) else matGet σ.mat i j))), L) := rfl

theorem step_setMigMatrix_ok {N0 : Q} {σ σ' : St} {L L' : List (Nat × Row)} {t : Q} {npop : Option Nat}
    {entries : List String} (h : step N0 (σ, L) (.setMigMatrix t npop entries) = .ok (σ', L')) :
    ∃ rows, (List.range σ.pops.length).mapM (fun i => (List.range σ.pops.length).mapM (fun j =>
      if i = j || !((σ.pops[i]?.map alive).getD false && (σ.pops[j]?.map alive).getD false) then pure (0 : Q)
      else do
        let v ← nonneg (entries.getD (i * σ.pops.length + j) "")
        pure (v / (4 * N0)))) = .ok rows ∧ σ' = σ.snap (4 * N0 * t) rows := by
  simp only [step] at h
  repeat' split at h
  all_goals first
    | exact (sthrow_bind_ok.1 h).elim
    | (obtain ⟨rows, hr, h⟩ := sbind_ok.1 h
       rw [spure_ok] at h
       cases h
       exact ⟨rows, hr, rfl⟩)

theorem step_split_mat {N0 : Q} {σ σ' : St} {L L' : List (Nat × Row)} {t : Q} {i : Nat} {p : Q}
    (h : step N0 (σ, L) (.split t i p) = .ok (σ', L')) :
    σ'.mat = σ.mat.map (fun r => r ++ [0]) ++ [List.replicate (σ.pops.length + 1) 0]
    ∧ σ'.snaps = σ.snaps ++ [(4 * N0 * t, σ.mat.map (fun r => r ++ [0]) ++ [List.replicate (σ.pops.length + 1) 0])] := by
  simp only [step] at h
  obtain ⟨q, hq, h⟩ := sbind_ok.1 h
  rw [spure_ok] at h
  cases h
  exact ⟨rfl, rfl⟩

theorem step_join_mat {N0 : Q} {σ σ' : St} {L L' : List (Nat × Row)} {t : Q} {i j : Nat}
    (h : step N0 (σ, L) (.join t i j) = .ok (σ', L')) :
    σ'.mat = (List.range σ.pops.length).map (fun a => (List.range σ.pops.length).map (fun b =>
        if a = i - 1 || b = i - 1 then 0 else matGet σ.mat a b))
    ∧ σ'.snaps = σ.snaps ++ [(4 * N0 * t, σ'.mat)] := by
  simp only [step] at h
  obtain ⟨q, hq, h⟩ := sbind_ok.1 h
  obtain ⟨q', hq', h⟩ := sbind_ok.1 h
  split at h
  · exact (sthrow_bind_ok.1 h).elim
  · rw [spure_ok] at h
    cases h
    exact ⟨rfl, rfl⟩

end Demes.Proofs.FromMs
