/-
  C09 §8 — graph → ms → graph with exponential epochs: shared definitions.

  The definitions of `Proofs/MsRTDefs.lean` (growth-free fragment) with the option `-g` / `-eg` added:

  * `cmdOfV gv`: the command of the string interpreter (`MsSem.Cmd`) an option record of `to_ms` stands
    for, a symbolic growth rate `G` read as the rational `gv G` (`gv = growthVal sa`);
  * `isInitV`: the record is printed as `-n` / `-g` / `-m` (an initial-state option);
  * `EvG`: the option records `to_ms` emits, with finite non-negative numbers, positive indices, and
    `-es` / `-ej` at positive times;
  * `AlphaOK sa evs`: the printed growth rates of the records read as finite numbers and are arguments
    for argparse;
  * `prOfV`: what `MsSem.parse` reads off the rendered command;
  * `UpdWFV`: `UpdWF` without its clause on growth rates.

  Header tokens (`hdrToks`, `toksOf`, `HdrOK`) and tilings (`Tiles`) are those of `MsRTDefs`.
-/
import DemesVerif.Spec.C09
import DemesVerif.Proofs.ToMsSem
import DemesVerif.Proofs.MsPrint
import DemesVerif.Proofs.MsRTDefs
namespace Demes.Proofs.MsGrow
open Demes Demes.Ms Demes.Spec Demes.Spec.C07 Demes.Spec.C09
open Demes.Spec.MsSem (Cmd Parsed)
open Demes.Proofs.ToMs (printEv)
open Demes.Proofs.MsRT (hdrToks toksOf HdrOK Tiles)

/-- the option of the string interpreter that a record of `to_ms` stands for; the growth rate `G` of
`-g` / `-eg` is read as `gv G` -/
def cmdOfV (gv : Growth → Q) (e : Event Growth) : Cmd :=
  match e with
  | .popSizeChange _ t i (.fin x) => .setSize (evT e) i.toNat x (numPos t)
  | .popGrowthRateChange _ _ i G => .setGrowth (evT e) i.toNat (gv G)
  | .migEntryChange _ _ i j (.fin m) => .setMigEntry (evT e) i.toNat j.toNat m
  | .split _ _ i (.fin p) => .split (evT e) i.toNat p
  | .join _ _ i j => .join (evT e) i.toNat j.toNat
  | _ => .setSizeAll 0 0

/-- the record is printed as an initial-state option (`-n`, `-g`, `-m`) -/
def isInitV (e : Event Growth) : Bool :=
  match e with
  | .popSizeChange _ t _ _ => !numPos t
  | .popGrowthRateChange _ t _ _ => !numPos t
  | .migEntryChange _ t _ _ _ => !numPos t
  | _ => false

/-- the records `to_ms` emits: finite non-negative time, positive indices, finite non-negative size /
rate, any growth rate, a split fraction in `[0, 1]`, `-es` / `-ej` at positive times -/
def EvG : Event Growth → Prop
  | .popSizeChange o t i x => o = "" ∧ 1 ≤ i ∧ ∃ q y, t = .fin q ∧ 0 ≤ q ∧ x = .fin y ∧ 0 ≤ y
  | .popGrowthRateChange o t i _ => o = "" ∧ 1 ≤ i ∧ ∃ q, t = .fin q ∧ 0 ≤ q
  | .migEntryChange o t i j x => o = "" ∧ 1 ≤ i ∧ 1 ≤ j ∧ ∃ q y, t = .fin q ∧ 0 ≤ q ∧ x = .fin y ∧ 0 ≤ y
  | .split o t i p => o = "" ∧ 1 ≤ i ∧ ∃ q y, t = .fin q ∧ 0 < q ∧ p = .fin y ∧ 0 ≤ y ∧ y ≤ 1
  | .join o t i j => o = "" ∧ 1 ≤ i ∧ 1 ≤ j ∧ ∃ q, t = .fin q ∧ 0 < q
  | _ => False

/-- a record of the growth-free fragment is a record of the fragment -/
theorem evG_of_evRT {e : Event Growth} (h : MsRT.EvRT e) : EvG e := by
  cases e <;> first | exact h | exact h.elim

/-- the growth rates of the records -/
def alphasOf (evs : List (Event Growth)) : List Growth :=
  evs.filterMap (fun e => match e with | .popGrowthRateChange _ _ _ G => some G | _ => none)

theorem mem_alphasOf {evs : List (Event Growth)} {o : String} {t : Num} {i : Int} {G : Growth}
    (h : Event.popGrowthRateChange o t i G ∈ evs) : G ∈ alphasOf evs :=
  List.mem_filterMap.2 ⟨_, h, rfl⟩

/-- the printed growth rates of the records read as finite numbers (`float`) and are arguments for argparse -/
def AlphaOK (sa : Growth → String) (evs : List (Event Growth)) : Prop :=
  ∀ G ∈ alphasOf evs, (∃ q, pyFloat (sa G) = some (.fin q)) ∧ classify (sa G) = .ok .arg

theorem growthVal_of {sa : Growth → String} {G : Growth} {q : Q} (h : pyFloat (sa G) = some (.fin q)) :
    growthVal sa G = q := by
  unfold growthVal; rw [h]

theorem pyFloat_growthVal {sa : Growth → String} {G : Growth} (h : ∃ q, pyFloat (sa G) = some (.fin q)) :
    pyFloat (sa G) = some (.fin (growthVal sa G)) := by
  obtain ⟨q, hq⟩ := h
  rw [growthVal_of hq, hq]

/-- what the parser of the string interpreter reads off the rendered command -/
def prOfV (gv : Growth → Q) (hdr : Option (Nat × List String)) (evs : List (Event Growth)) : Parsed :=
  { npop := (hdr.map (·.1)).getD 1, islandRate := 0,
    initial := (evs.filter isInitV).map (cmdOfV gv),
    events := (evs.filter (fun e => !isInitV e)).map (cmdOfV gv),
    sawI := hdr.isSome }

/-! ### well-formedness of the observables -/

/-- the update list of a population of `msSemG` on a time-sorted command: chronological, starting with
an update at the population's creation time that sets its size, nothing after the population was joined -/
structure UpdWFV (p : PopSemG) : Prop where
  sorted : p.upd.Pairwise (fun u v => u.t ≤ v.t)
  head : ∃ u r, p.upd = u :: r ∧ u.t = p.lo ∧ u.size.isSome = true
  hi : ∀ u ∈ p.upd, ETime.fin u.t ≤ p.hi

theorem updWFV_of {p : PopSemG} (h : MsRT.UpdWF p) : UpdWFV p := ⟨h.sorted, h.head, h.hi⟩

end Demes.Proofs.MsGrow
