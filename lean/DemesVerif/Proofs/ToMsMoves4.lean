/-
  C07 — `group_rows`: the canonical rows the command produces for the time group `T` are the
  graph's.
-/
import DemesVerif.Proofs.ToMsMoves3
set_option linter.unusedSimpArgs false
set_option linter.unusedVariables false
namespace Demes.Proofs.ToMs
open Demes Demes.Ms Demes.Spec Demes.Spec.C07 Demes.Proofs.RV
open Demes.Spec.MsSem

theorem get_idRow (i j : Nat) : Row.get [(i, (1 : Q))] j = if j = i then 1 else 0 := by
  simp only [Row.get, lookup_cons', List.lookup_nil]
  by_cases h : j = i <;> simp [h]

theorem mem_rows0 {s : StG} {ir : Nat × Row} :
    ir ∈ rows0 s ↔ ∃ k p, s.pops[k]? = some p ∧ p.hi = .inf ∧ ir = (k + 1, [(k + 1, (1 : Q))]) := by
  unfold rows0
  simp only [List.mem_map, List.mem_filter, aliveG, decide_eq_true_eq]
  constructor
  · rintro ⟨pk, ⟨hm, ha⟩, rfl⟩
    refine ⟨pk.2, pk.1, ?_, ha, rfl⟩
    have := List.mem_zipIdx_iff_getElem?.1 hm
    simpa using this
  · rintro ⟨k, p, hp, ha, rfl⟩
    exact ⟨(p, k), ⟨List.mem_zipIdx_iff_getElem?.2 (by simpa using hp), ha⟩, rfl⟩

theorem rows0_sorted (s : StG) : (rows0 s).Pairwise (fun a b => a.1 < b.1) := by
  unfold rows0
  rw [List.pairwise_map]
  apply List.Pairwise.sublist List.filter_sublist
  rw [List.pairwise_iff_getElem]
  intro i j hi hj hij
  simp only [List.getElem_zipIdx]
  omega

section
variable {g : Graph} (c : Clauses g) (hx : MsExpressible g = true) (hex : ExactProportions g = true)
  {N0 : Q} (hN : 0 < N0)
include c hx hN

omit hx hN in
theorem gL0_sorted (T : Q) : (gL0 g T).Pairwise (fun a b => a.1 < b.1) := by
  unfold gL0
  rw [List.pairwise_map]
  apply List.Pairwise.sublist List.filter_sublist
  rw [List.pairwise_iff_getElem]
  intro i j hi hj hij
  rw [pidOf_getElem c (List.getElem?_eq_getElem hi), pidOf_getElem c (List.getElem?_eq_getElem hj)]
  omega

/-- the populations alive when the group of time `T` starts -/
theorem alive_pre {pre grp post : List (Event Growth)} {T : Q} (hF : finalEvs g N0 = pre ++ grp ++ post)
    (hpre : ∀ a ∈ pre, evT a < T / (4 * N0)) (hgrp : ∀ a ∈ grp, evT a = T / (4 * N0))
    (hpost : ∀ a ∈ post, T / (4 * N0) < evT a) {k : Nat} {p : PopG}
    (hp : (runP N0 (s0Of N0 g.demes.length) pre).pops[k]? = some p) :
    p.hi = .inf ↔ ∃ d, g.demes[k]? = some d ∧ ETime.fin T ≤ d.startTime := by
  have h4 : (0 : Q) < 4 * N0 := by grind
  have hpreF : ∀ x ∈ pre, x ∈ finalEvs g N0 := fun x hxp => by
    rw [hF]; exact List.mem_append_left _ (List.mem_append_left _ hxp)
  by_cases hk : k < g.demes.length
  · have hd : g.demes[k]? = some g.demes[k] := List.getElem?_eq_getElem hk
    have h0 : (s0Of N0 g.demes.length).pops[k]? = some { lo := 0, upd := [⟨0, some N0, some .zero⟩] } := by
      simp [s0Of, List.getElem?_replicate, hk]
    rw [runP_pops_get pre h0] at hp
    cases hp
    simp only [hiFrom]
    constructor
    · intro hinf
      refine ⟨_, hd, ?_⟩
      apply et_le_of_not_lt
      intro hlt
      cases hst : g.demes[k].startTime with
      | inf => rw [hst] at hlt; exact hlt.elim
      | fin st =>
        rw [hst] at hlt
        have hstT : st < T := hlt
        obtain ⟨x, hxF, hxj, hev⟩ := join_exists c hx hN hd hst
        have hxpre : x ∈ pre := by
          rw [hF] at hxF
          rcases List.mem_append.1 hxF with h | h
          · rcases List.mem_append.1 h with h | h
            · exact h
            · exfalso
              have := hgrp x h
              rw [hev] at this
              have := (InGen.div_eq_div h4).1 this
              grind
          · exfalso
            have := hpost x h
            rw [hev] at this
            have := (InGen.div_lt_div h4).1 this
            grind
        have hmem : x ∈ pre.filter (isJoinIdx k) := List.mem_filter.2 ⟨hxpre, hxj⟩
        cases hl : (pre.filter (isJoinIdx k)).getLast? with
        | none =>
          have : pre.filter (isJoinIdx k) = [] := by simpa using hl
          rw [this] at hmem; cases hmem
        | some y => rw [hl] at hinf; cases hinf
    · rintro ⟨d, hd', hle⟩
      rw [hd] at hd'; cases hd'
      cases hl : (pre.filter (isJoinIdx k)).getLast? with
      | none => rfl
      | some y =>
        exfalso
        have hym := List.mem_filter.1 (List.mem_of_getLast? hl)
        obtain ⟨st, hst, hev⟩ := join_time_final c hx hN hd (hpreF y hym.1) hym.2
        have := hpre y hym.1
        rw [hev] at this
        have hlt := (InGen.div_lt_div h4).1 this
        rw [hst] at hle
        have : T ≤ st := hle
        grind
  · -- populations created by splits have been joined
    have hdead : NewDead g.demes.length (runP N0 (s0Of N0 g.demes.length) pre) := by
      obtain ⟨h1, _⟩ := group_parts c hx hN hF hpre hgrp hpost
      apply pending_run
      · intro e he hsj i hi
        obtain ⟨y, hy, rfl⟩ := finalEvs_mem c hx (hpreF e he)
        rw [isSplitJoin_scale] at hsj
        rw [targets_scale] at hi
        obtain ⟨h1', h2', _⟩ := targetTime c hx hy hsj hi
        unfold idx; omega
      · intro e he hsp
        have hsj : isSplitJoin e = true := by cases e <;> simp [isSplitEv] at hsp <;> rfl
        obtain ⟨y, _, hy, hok⟩ := finalEvs_anc c hx (hpreF e he) hsj
        have hok' := ancEvOk_scale (N0 := N0) hok
        rw [← hy] at hok'
        cases e with
        | split o t i p' =>
          obtain ⟨_, ⟨v, rfl, _⟩, _⟩ := hok'
          rfl
        | _ => simp [isSplitEv] at hsp
      · simp [s0Of]
      · left
        refine ⟨?_, ?_⟩
        · intro k' p' hk' hp'
          have hlen : (s0Of N0 g.demes.length).pops.length = g.demes.length := by simp [s0Of]
          have := (List.getElem?_eq_some_iff.mp hp').1
          omega
        · have hlen : (s0Of N0 g.demes.length).pops.length = g.demes.length := by simp [s0Of]
          rw [hlen, h1]
          exact wellNumbered_ancEvs N0 _ _ (fun x hx' => dpOk_of_valid c hx x (mem_dpsOf.1 hx'))
    have := hdead k p (by omega) hp
    constructor
    · intro hinf; rw [hinf] at this; cases this
    · rintro ⟨d, hd, _⟩
      exact absurd (List.getElem?_eq_some_iff.mp hd).1 hk

include hex in
/-- the canonical rows of the time group `T` of the command are the graph's -/
theorem group_rows {pre grp post : List (Event Growth)} {T : Q} (hF : finalEvs g N0 = pre ++ grp ++ post)
    (hpre : ∀ a ∈ pre, evT a < T / (4 * N0)) (hgrp : ∀ a ∈ grp, evT a = T / (4 * N0))
    (hpost : ∀ a ∈ post, T / (4 * N0) < evT a) :
    canonRows (grp.foldl stepRow ((runP N0 (s0Of N0 g.demes.length) pre).pops.length,
        rows0 (runP N0 (s0Of N0 g.demes.length) pre))).2
      = canonRows (gRowsAt g T) := by
  obtain ⟨s, hs⟩ : ∃ s, s = runP N0 (s0Of N0 g.demes.length) pre := ⟨_, rfl⟩
  obtain ⟨n1, hn1⟩ : ∃ n1, n1 = ancCount g.demes.length (dpsLt g T) := ⟨_, rfl⟩
  have hcount : s.pops.length = n1 := by rw [hs, hn1]; exact count_pre c hx hN hF hpre hgrp hpost
  have hn1ge : g.demes.length ≤ n1 := by rw [hn1]; exact ancCount_ge _ _
  obtain ⟨_, hgsj⟩ := group_parts c hx hN hF hpre hgrp hpost
  have hEq : ∀ x ∈ dpsEq g T, ElemOk g x := fun x hx' => elemOk_dpsEq c hx hex hx'
  -- the rows of the command
  have hms : (grp.foldl stepRow (s.pops.length, rows0 s)).2
      = (rows0 s).map (fun ir => (ir.1, rowFold n1 ir.2 (ancEvs g n1 (dpsEq g T)))) := by
    rw [foldl_stepRow, hcount]
    apply List.map_congr_left
    intro ir _
    rw [rowFold_filter_sj, hgsj, ← hn1, rowFold_scale]
  rw [← hs, hms, gRowsAt_eq]
  -- agreement of the rows of population `k+1`
  have hagree : ∀ k, k < g.demes.length → ∀ j,
      (rowFold n1 [(k + 1, (1 : Q))] (ancEvs g n1 (dpsEq g T))).get j
        = ((dpsEq g T).foldl (gRowStep g) [(k + 1, (1 : Q))]).get j := by
    intro k hk
    exact (row_agree c hx (dpsEq g T) n1 _ _ hEq hn1ge (fun _ => rfl) (fun j hj => by
      rw [get_idRow]; have : ¬ j = k + 1 := by omega
      rw [if_neg this])).1
  apply canonRows_eq
  · rw [List.pairwise_map]; exact rows0_sorted s
  · rw [List.pairwise_map]; exact gL0_sorted c T
  · intro ir hir
    obtain ⟨ir0, hir0, rfl⟩ := List.mem_map.1 hir
    obtain ⟨k, p, _, _, rfl⟩ := mem_rows0.1 hir0
    exact keys_rowFold _ _ _ (by simp [Keys])
  · intro ir hir
    obtain ⟨ir0, hir0, rfl⟩ := List.mem_map.1 hir
    obtain ⟨d, _, rfl⟩ := List.mem_map.1 hir0
    exact keys_gRowFold _ _ (by simp [Keys])
  · intro ir hir
    obtain ⟨ir0, hir0, rfl⟩ := List.mem_map.1 hir
    obtain ⟨k, p, hp, hinf, rfl⟩ := mem_rows0.1 hir0
    rw [hs] at hp
    obtain ⟨d, hd, hle⟩ := (alive_pre c hx hN hF hpre hgrp hpost hp).1 hinf
    have hk : k < g.demes.length := (List.getElem?_eq_some_iff.mp hd).1
    have hdm : d ∈ g.demes := List.mem_of_getElem? hd
    have hpid : pidOf g d.name = k + 1 := pidOf_getElem c hd
    by_cases hend : d.endTime < T
    · left
      refine ⟨(dpsEq g T).foldl (gRowStep g) [(k + 1, (1 : Q))], ?_, hagree k hk⟩
      apply List.mem_map.2
      refine ⟨(k + 1, [(k + 1, (1 : Q))]), ?_, rfl⟩
      unfold gL0
      apply List.mem_map.2
      exact ⟨d, List.mem_filter.2 ⟨hdm, by simp [hend, hle]⟩, by rw [hpid]⟩
    · right
      intro j
      simp only []
      rw [hagree k hk j, gRowFold_untouched, get_idRow]
      intro x hx'
      obtain ⟨hxm, hxk⟩ := List.mem_filter.1 hx'
      simp only [decide_eq_true_eq] at hxk
      cases x with
      | pulse p' =>
        simp only []
        have hp' := mem_dps_pulse hxm
        obtain ⟨dd, hdd, hne, _, _, hsrc⟩ := pulse_facts c hp'
        obtain ⟨sname, hsn, _⟩ := (pulseOk_of_valid c hx hp').src
        obtain ⟨_, _, _, _, _, _, hddend⟩ := hsrc sname (by rw [hsn]; simp)
        have htime : p'.time = T := by simpa [DemeOrPulse.key] using hxk
        rw [get_idRow]
        have : ¬ pidOf g p'.dest = k + 1 := by
          intro h
          have hid := (idx_idOf c hdd).2.2
          have hidx : idx (idOf g p'.dest) = k := by rw [idOf_eq_pidOf, h]; exact idx_succ k
          rw [hidx, hd] at hid
          cases hid
          rw [htime] at hne hddend
          have : d.endTime < T := by grind
          exact hend this
        rw [if_neg this]
      | deme d' =>
        simp only []
        have hd' := mem_dps_deme hxm
        have hst : d'.startTime = ETime.fin T := hxk
        rw [get_idRow]
        have : ¬ pidOf g d'.name = k + 1 := by
          intro h
          have hid := (idx_idOf c (findDeme_of_mem c hd')).2.2
          have hidx : idx (idOf g d'.name) = k := by rw [idOf_eq_pidOf, h]; exact idx_succ k
          rw [hidx, hd] at hid
          cases hid
          have h5 := c.h5
          simp only [v5, List.all_eq_true, Bool.and_eq_true] at h5
          have hf := migFacts_of c.h1 c.h6 c.h8 c.h9
          -- the deme's end time is before its start time
          have hlt : ETime.fin d.endTime < d.startTime := by
            obtain ⟨hne', hcont⟩ := h5 d hd'
            obtain ⟨hfacts, _⟩ := contiguous_facts _ _ hcont
            cases hes : d.epochs.reverse with
            | nil =>
              have : d.epochs = [] := by simpa using hes
              rw [this] at hne'; simp at hne'
            | cons e1 rest =>
              rw [deme_endTime_eq hes]
              have he1 : e1 ∈ d.epochs := List.mem_reverse.1 (by rw [hes]; simp)
              exact et_lt_of_lt_of_le (hfacts e1 he1).1 (hfacts e1 he1).2
          rw [hst] at hlt
          exact hend hlt
        rw [if_neg this]
  · intro ir hir
    obtain ⟨ir0, hir0, rfl⟩ := List.mem_map.1 hir
    obtain ⟨d, hdf, rfl⟩ := List.mem_map.1 hir0
    obtain ⟨hdm, hcond⟩ := List.mem_filter.1 hdf
    simp only [Bool.and_eq_true, decide_eq_true_eq] at hcond
    obtain ⟨k, hd⟩ := List.mem_iff_getElem?.mp hdm
    have hk : k < g.demes.length := (List.getElem?_eq_some_iff.mp hd).1
    have hpid : pidOf g d.name = k + 1 := pidOf_getElem c hd
    simp only [hpid]
    refine ⟨rowFold n1 [(k + 1, (1 : Q))] (ancEvs g n1 (dpsEq g T)), ?_, hagree k hk⟩
    apply List.mem_map.2
    refine ⟨(k + 1, [(k + 1, (1 : Q))]), ?_, rfl⟩
    have hlen : g.demes.length ≤ s.pops.length := by rw [hcount]; exact hn1ge
    have hkp : k < s.pops.length := by omega
    obtain ⟨p, hp⟩ : ∃ p, s.pops[k]? = some p := ⟨_, List.getElem?_eq_getElem hkp⟩
    apply mem_rows0.2
    refine ⟨k, p, hp, ?_, rfl⟩
    rw [hs] at hp
    exact (alive_pre c hx hN hF hpre hgrp hpost hp).2 ⟨d, hd, hcond.2⟩

end

end Demes.Proofs.ToMs
