/-
  C02 — resolution fills in omitted fields exactly as the Demes specification says, and equivalent
  spellings of one model resolve identically.

  Model: `Demes.resolve` (`Graph.fromdict`) and its parts.  Spec: `DemesVerif/Spec/C02.lean` —
  every fill-in rule as a lookup by precedence:

  * `effective explicit demeLevel topLevel k`  explicit field > deme-level default > top-level
    default (`effectiveNN`: the same, a `null` then counting as omitted);
  * `specEpochFields prev isLast e demeLevel topLevel`  the raw values of one epoch after fill-in;
    `EpochsResolveTo start es demeLevel topLevel eps`  says that `eps` are those raw values,
    validated, epoch by epoch, each starting where the previous one ends;
  * `specStartTime`, `specAncestors`, `specProportions`  the deme header;
  * `specSymmetricExpansion names`  every ordered pair, `itertools.permutations` order;
    `asymmetricDict`  the written-out migration of one pair;
  * `StableSortedDesc key xs ys`  stable sort by descending key.
-/
import DemesVerif.Proofs.FillExamples
namespace Demes.Theorems
open Demes Demes.Obj Demes.Spec

/-! ## 1–2. Precedence of defaults -/

/-- `insert_defaults(d, D)`: a field of the result is `d`'s if `d` has the key (even with value
`null`), else `D`'s.  No hypothesis on either object. -/
theorem lookup_insertDefaults (k : String) (d D : Obj) :
    lookup k (insertDefaults d D) = (lookup k d <|> lookup k D) :=
  Proofs.lookup_insertDefaults k d D

theorem contains_insertDefaults (k : String) (d D : Obj) :
    contains k (insertDefaults d D) = (contains k d || contains k D) :=
  Proofs.contains_insertDefaults k d D

/-- `a.copy().update(b)`: a field of the result is `b`'s if `b` has the key, else `a`'s — for `b`
with pairwise distinct keys (every JSON / YAML / Python mapping). -/
theorem lookup_update (k : String) (a b : Obj) (hb : (keys b).Nodup) :
    lookup k (update a b) = (lookup k b <|> lookup k a) :=
  Proofs.lookup_update k a b hb

/-- Without the hypothesis, the truth: the *last* entry of `b` for the key wins. -/
theorem lookup_update_reverse (k : String) (a b : Obj) :
    lookup k (update a b) = (lookup k b.reverse <|> lookup k a) :=
  Proofs.lookup_update_reverse k a b

/-- … so the unqualified statement is false on an association list with a repeated key. -/
theorem lookup_update_counterexample :
    ∃ (k : String) (a b : Obj), lookup k (update a b) ≠ (lookup k b <|> lookup k a) :=
  Proofs.lookup_update_counterexample

/-- The epoch object handed to `_add_epoch` has, for every field, the explicit value, else the
deme-level `defaults.epoch` value, else the top-level `defaults.epoch` value. -/
theorem epoch_default_precedence (k : String) (e demeLevel topLevel : Obj)
    (hl : (keys demeLevel).Nodup) :
    lookup k (insertDefaults e (update topLevel demeLevel)) = effective e demeLevel topLevel k :=
  Proofs.epoch_default_precedence k e demeLevel topLevel hl

/-- the same for the fields read with `pop(k, None)`: an explicit `null` hides the defaults and
then counts as omitted -/
theorem epoch_default_precedenceNN (k : String) (e demeLevel topLevel : Obj)
    (hl : (keys demeLevel).Nodup) :
    lookupNN k (insertDefaults e (update topLevel demeLevel))
      = effectiveNN e demeLevel topLevel k :=
  Proofs.epoch_default_precedenceNN k e demeLevel topLevel hl

/-- deme / migration / pulse fields: explicit, else the top-level default of that kind -/
theorem lookupNN_insertDefaults (k : String) (d D : Obj) :
    lookupNN k (insertDefaults d D) = effectiveNN d D [] k :=
  Proofs.lookupNN_insertDefaults k d D

/-! ## 3. Epochs -/

/-- The epoch loop of a deme succeeds with `eps` **exactly when** every written epoch has only
known fields and `eps` is the resolution the Spec prescribes: as many epochs as written; the
`i`-th one has the validated forms of the raw values `specEpochFields` gives for the `i`-th
written epoch under the two levels of defaults and after the `i-1`-th resolved epoch
(`end_time` in force or `0` if last; `start_size` in force, else the previous `end_size`, else
the `end_size` in force; `end_size` in force else the start size; `size_function` in force else
`constant`/`exponential` by equality of the sizes; rates in force else `0`); it starts at the
deme's start (`i = 0`) or at the previous epoch's end; and it passes the consistency checks. -/
theorem resolveEpochs_iff (demeStart : ETime) (topLevel demeLevel : Obj) (es : List Obj)
    (eps : List Epoch) (hl : (keys demeLevel).Nodup) :
    resolveEpochs demeStart (update topLevel demeLevel) es = .ok eps ↔
      (∀ e ∈ es, checkAllowed e allowedEpoch = .ok ()) ∧
      EpochsResolveTo demeStart es demeLevel topLevel eps :=
  Proofs.resolveEpochs_iff demeStart topLevel demeLevel es eps hl

theorem resolveEpochs_spec (demeStart : ETime) (topLevel demeLevel : Obj) (es : List Obj)
    (eps : List Epoch) (hl : (keys demeLevel).Nodup)
    (h : resolveEpochs demeStart (update topLevel demeLevel) es = .ok eps) :
    EpochsResolveTo demeStart es demeLevel topLevel eps :=
  Proofs.resolveEpochs_spec demeStart topLevel demeLevel es eps hl h

/-- The Spec determines the resolved epoch: the rules and the validators are functions. -/
theorem epochResolvesToOf_unique {demeStart : ETime} {prev : Option Epoch} {isLast : Bool}
    {f : String → Option Value} {ep ep' : Epoch}
    (h : EpochResolvesToOf demeStart prev isLast f ep)
    (h' : EpochResolvesToOf demeStart prev isLast f ep') : ep = ep' :=
  Proofs.epochResolvesToOf_unique h h'

/-! ## 4. Deme header -/

/-- On success of `_add_deme`: the ancestors are the list in force (else `[]`) and name demes
already in the graph; the start time is the validated form of the one in force, else of the
single ancestor's end time, else of infinity without ancestors; the proportions are the
validated ones in force, else `[1]` for a single ancestor, else `[]`. -/
theorem addDemeHeader_spec {g : Graph} {nameV descV : Value} {ancV propV stV : Option Value}
    {d : Deme} (h : addDemeHeader g nameV descV ancV propV stV = .ok d) :
    nameV = .str d.name ∧ descV = .str d.description ∧ d.epochs = [] ∧
    (specAncestors ancV = .list (d.ancestors.map Value.str)
      ∧ ∀ a ∈ d.ancestors, g.hasName a = true) ∧
    (∃ v, specStartTime g stV d.ancestors = some v ∧ posTime v = .ok d.startTime) ∧
    (∃ ps, specProportions propV d.ancestors = .list ps ∧ ps.mapM unitExLoQ = .ok d.proportions) :=
  Proofs.addDemeHeader_spec h

/-- One successful iteration of the deme loop of `fromdict` appends one deme: header fields by the
Spec from the values in force (explicit, else `defaults.deme`), epochs by the Spec from the
written epochs `es` (`[{}]` when there are none) under the deme-level `defaults.epoch` `L` and
the top-level one `GE`. -/
theorem resolveDeme_spec {DD GE : Obj} {g g' : Graph} {demeData : Obj}
    (h : resolveDeme DD GE g demeData = .ok g')
    (hnd : ∀ ld L, popObject (insertDefaults demeData DD) "defaults" = .ok ld →
      popObject ld "epoch" = .ok L → (keys L).Nodup) :
    ∃ d ld L es,
      g'.demes = g.demes ++ [d] ∧
      lookup "name" demeData = some (.str d.name) ∧
      popObject (insertDefaults demeData DD) "defaults" = .ok ld ∧
      popObject ld "epoch" = .ok L ∧
      popObjList (insertDefaults demeData DD) "epochs" (some [[]]) = .ok es ∧
      specAncestors (effectiveNN demeData DD [] "ancestors") = .list (d.ancestors.map Value.str) ∧
      (∃ v, specStartTime g (effectiveNN demeData DD [] "start_time") d.ancestors = some v
        ∧ posTime v = .ok d.startTime) ∧
      (∃ ps, specProportions (effectiveNN demeData DD [] "proportions") d.ancestors = .list ps
        ∧ ps.mapM unitExLoQ = .ok d.proportions) ∧
      EpochsResolveTo d.startTime es L GE d.epochs :=
  Proofs.resolveDeme_spec h hnd

/-! ## 5. Symmetric migrations -/

/-- The Model's `itertools.permutations(names, 2)` is the Spec's enumeration of the ordered pairs
of distinct positions. -/
theorem permutations2_eq_spec {α} (xs : List α) : permutations2 xs = specSymmetricExpansion xs :=
  Proofs.permutations2_eq_spec xs

/-- `_add_symmetric_migration` adds one asymmetric migration per ordered pair, in that order,
with the same rate and the same *given* bounds (an omitted bound is defaulted inside
`addAsymmetricMigration`, from the `timeIntersection` of that pair). -/
theorem symmetric_expand (g : Graph) (names : List Value) (rateV : Value)
    (st et : Option Value) (hlen : 2 ≤ names.length) :
    addSymmetricMigration g (.list names) rateV st et
      = (specSymmetricExpansion names).foldlM (fun g (sd : Value × Value) =>
          addAsymmetricMigration g sd.1 sd.2 rateV st et) g :=
  Proofs.symmetric_expand g names rateV st et hlen

/-- A symmetric migration `m` (under `defaults.migration = D`) resolves exactly like its
written-out expansion: same graph, or same error. -/
theorem resolveMigration_symmetric_eq_asymmetric (D : Obj) (g : Graph) (m : Obj)
    (names : List Value)
    (hallowed : checkAllowed m allowedMigration = .ok ())
    (hdemes : lookupNN "demes" (insertDefaults m D) = some (.list names))
    (hsrc : lookupNN "source" (insertDefaults m D) = none)
    (hdst : lookupNN "dest" (insertDefaults m D) = none)
    (hD : lookupNN "demes" D = none)
    (hlen : 2 ≤ names.length) (hnn : ∀ v ∈ names, v ≠ Value.null) :
    resolveMigration D g m
      = ((specSymmetricExpansion names).map
          (asymmetricDict (lookup "rate" (insertDefaults m D))
            (lookup "start_time" (insertDefaults m D))
            (lookup "end_time" (insertDefaults m D)))).foldlM (resolveMigration D) g :=
  Proofs.resolveMigration_symmetric_eq_asymmetric D g m names hallowed hdemes hsrc hdst hD hlen hnn

/-- … also in the middle of a `migrations` list. -/
theorem migrations_symmetric_eq_asymmetric (D : Obj) (g : Graph) (pre post : List Obj) (m : Obj)
    (names : List Value)
    (hallowed : checkAllowed m allowedMigration = .ok ())
    (hdemes : lookupNN "demes" (insertDefaults m D) = some (.list names))
    (hsrc : lookupNN "source" (insertDefaults m D) = none)
    (hdst : lookupNN "dest" (insertDefaults m D) = none)
    (hD : lookupNN "demes" D = none)
    (hlen : 2 ≤ names.length) (hnn : ∀ v ∈ names, v ≠ Value.null) :
    (pre ++ [m] ++ post).foldlM (resolveMigration D) g
      = (pre ++ (specSymmetricExpansion names).map
          (asymmetricDict (lookup "rate" (insertDefaults m D))
            (lookup "start_time" (insertDefaults m D))
            (lookup "end_time" (insertDefaults m D))) ++ post).foldlM (resolveMigration D) g :=
  Proofs.migrations_symmetric_eq_asymmetric D g pre post m names hallowed hdemes hsrc hdst hD
    hlen hnn

/-- **Whole documents.** A document whose `migrations` list contains the symmetric migration `m`
resolves exactly (same graph, or same error) like the document in which `m` is replaced, in
place, by its written-out asymmetric migrations (`defaults.migration = MD` staying as it is). -/
theorem resolve_symmetric_eq_asymmetric (data defaults MD : Obj) (pre post : List Obj) (m : Obj)
    (names : List Value)
    (hdef : popObject data "defaults" = .ok defaults)
    (hMD : popObject defaults "migration" = .ok MD)
    (hallowed : checkAllowed m allowedMigration = .ok ())
    (hdemes : lookupNN "demes" (insertDefaults m MD) = some (.list names))
    (hsrc : lookupNN "source" (insertDefaults m MD) = none)
    (hdst : lookupNN "dest" (insertDefaults m MD) = none)
    (hD : lookupNN "demes" MD = none)
    (hlen : 2 ≤ names.length) (hnn : ∀ v ∈ names, v ≠ Value.null) :
    resolve (.obj (withMigrations data (pre ++ [m] ++ post)))
      = resolve (.obj (withMigrations data
          (pre ++ (specSymmetricExpansion names).map
            (asymmetricDict (lookup "rate" (insertDefaults m MD))
              (lookup "start_time" (insertDefaults m MD))
              (lookup "end_time" (insertDefaults m MD))) ++ post))) :=
  Proofs.resolve_symmetric_eq_asymmetric data defaults MD pre post m names hdef hMD hallowed hdemes
    hsrc hdst hD hlen hnn

/-- `hD` cannot be dropped: a default `demes` leaks into the written-out migrations. -/
theorem resolveMigration_symmetric_eq_asymmetric_counterexample :
    ∃ (D : Obj) (g : Graph) (m : Obj) (names : List Value),
      checkAllowed m allowedMigration = .ok () ∧
      lookupNN "demes" (insertDefaults m D) = some (.list names) ∧
      lookupNN "source" (insertDefaults m D) = none ∧
      lookupNN "dest" (insertDefaults m D) = none ∧
      2 ≤ names.length ∧ (∀ v ∈ names, v ≠ Value.null) ∧
      (resolveMigration D g m).toBool = true ∧
      (((specSymmetricExpansion names).map
          (asymmetricDict (lookup "rate" (insertDefaults m D))
            (lookup "start_time" (insertDefaults m D))
            (lookup "end_time" (insertDefaults m D)))).foldlM (resolveMigration D) g).toBool
        = false :=
  Proofs.resolveMigration_symmetric_eq_asymmetric_counterexample

/-- `hnn` is needed for the equality of the errors: with a `null` name both spellings fail, but
with different error classes. -/
theorem resolveMigration_symmetric_null_counterexample :
    ∃ (D : Obj) (g : Graph) (m : Obj) (names : List Value),
      checkAllowed m allowedMigration = .ok () ∧
      lookupNN "demes" (insertDefaults m D) = some (.list names) ∧
      lookupNN "source" (insertDefaults m D) = none ∧
      lookupNN "dest" (insertDefaults m D) = none ∧
      lookupNN "demes" D = none ∧ 2 ≤ names.length ∧
      Proofs.errKind? (resolveMigration D g m) = some .value ∧
      Proofs.errKind? (((specSymmetricExpansion names).map
          (asymmetricDict (lookup "rate" (insertDefaults m D))
            (lookup "start_time" (insertDefaults m D))
            (lookup "end_time" (insertDefaults m D)))).foldlM (resolveMigration D) g)
        = some .key :=
  Proofs.resolveMigration_symmetric_null_counterexample

/-! ## 6. Pulses -/

/-- `pulses.sort(key=time, reverse=True)`: a permutation, in descending time order, equal times
keeping their relative order. -/
theorem sortPulses_stable (ps : List Pulse) :
    StableSortedDesc (fun p : Pulse => p.time) ps (sortPulses ps) :=
  Proofs.sortPulses_stable ps

/-- **Whole documents.** The pulses of a resolved graph are the pulses accumulated by the pulse
loop over the document's `pulses` list, in document order, stably sorted by descending time. -/
theorem resolve_pulses_stable {dataV : Value} {g : Graph} (h : resolve dataV = .ok g) :
    ∃ data PD g2 pulses g3, dataV = .obj data ∧
      popObjList data "pulses" (some []) = .ok pulses ∧
      pulses.foldlM (resolvePulse PD) g2 = .ok g3 ∧
      StableSortedDesc (fun p : Pulse => p.time) g3.pulses g.pulses :=
  Proofs.resolve_pulses_stable h

/-! ## 7–8. Equivalent spellings of the epochs of a deme -/

/-- Writing an inferred epoch field explicitly does not change the resolved epochs (fields:
`size_function`, `start_size`, `end_size`, `selfing_rate`, `cloning_rate`, and the last epoch's
`end_time`; see `Spec.InferredField`).  `D` is the merged `defaults.epoch`. -/
theorem explicit_default_epoch (demeStart : ETime) (D : Obj) (es : List Obj) (eps : List Epoch)
    (h : resolveEpochs demeStart D es = .ok eps) (i : Nat) (hi : i < es.length)
    (hi' : i < eps.length) (k : String) (v : Value)
    (hk : InferredField (decide (i = es.length - 1)) eps[i] k v)
    (hn : lookup k (insertDefaults es[i] D) = none) :
    resolveEpochs demeStart D (es.set i (Obj.set k v es[i])) = .ok eps :=
  Proofs.explicit_default_epoch demeStart D es eps h i hi hi' k v hk hn

/-- For the sizes and the size function, `null` is the same as omitted: removing every explicit
`k: null` from the epochs of a deme (the merged defaults `D` not supplying `k`) resolves
identically (same epochs or same error). -/
theorem null_epoch_field_omitted (demeStart : ETime) (D : Obj) (es : List Obj) (k : String)
    (hk : k ∈ ["start_size", "end_size", "size_function"]) (hD : notNull (lookup k D) = none) :
    resolveEpochs demeStart D (es.map (dropNull k)) = resolveEpochs demeStart D es :=
  Proofs.null_epoch_field_omitted demeStart D es k hk hD

/-- If every epoch of a deme has the same explicit `k: v`, moving it into the deme-level
`defaults.epoch` and removing it from every epoch resolves identically (same epochs or same
error). -/
theorem hoist_epoch_default (demeStart : ETime) (topLevel demeLevel : Obj) (es : List Obj)
    (k : String) (v : Value) (hk : k ∈ allowedEpoch) (hl : (keys demeLevel).Nodup)
    (hall : ∀ e ∈ es, lookup k e = some v) :
    resolveEpochs demeStart (update topLevel (Obj.set k v demeLevel)) (es.map (erase k))
      = resolveEpochs demeStart (update topLevel demeLevel) es :=
  Proofs.hoist_epoch_default demeStart topLevel demeLevel es k v hk hl hall

/-- … or into the top-level `defaults.epoch`, when the deme-level defaults do not supply `k`. -/
theorem hoist_epoch_default_top (demeStart : ETime) (topLevel demeLevel : Obj) (es : List Obj)
    (k : String) (v : Value) (hk : k ∈ allowedEpoch) (hl : (keys demeLevel).Nodup)
    (hnone : lookup k demeLevel = none)
    (hall : ∀ e ∈ es, lookup k e = some v) :
    resolveEpochs demeStart (update (Obj.set k v topLevel) demeLevel) (es.map (erase k))
      = resolveEpochs demeStart (update topLevel demeLevel) es :=
  Proofs.hoist_epoch_default_top demeStart topLevel demeLevel es k v hk hl hnone hall

/-! ## Non-vacuity -/

section
open Proofs Proofs.C02

-- precedence: explicit > deme-level > top-level, on deme B's second epoch
example : effective [("start_size", n 700)] demeEpoch topEpoch "start_size" = some (n 700) := rfl
example : effective [("end_time", n 50)] demeEpoch topEpoch "start_size" = some (n 500) := rfl
example : effective [("end_time", n 50)] demeEpoch topEpoch "selfing_rate" = some (n (1/10)) := rfl
example : effective [("end_time", n 50)] demeEpoch topEpoch "end_size" = none := rfl
example : (keys demeEpoch).Nodup := by decide

-- `resolveEpochs_iff`: deme B of the example document (two levels of defaults, `end_time` of
-- the last epoch, `end_size`, `size_function` and a rate inferred)
example : (resolveEpochs (.fin 200) (update topEpoch demeEpoch) epochsB).toOption
    = some resolvedB := by decide +kernel
example : EpochsResolveTo (.fin 200) epochsB demeEpoch topEpoch resolvedB :=
  resolveEpochs_spec _ _ _ _ _ (by decide)
    (eq_ok_of_toOption (by decide +kernel))

-- `explicit_default_epoch`: all inferred fields of both epochs written out, one after the other
example : (resolveEpochs (.fin 200) (update topEpoch demeEpoch) epochsBExplicit).toOption
    = some resolvedB := by decide +kernel
example : InferredField (decide (1 = epochsB.length - 1)) resolvedB[1] "end_time" (n 0) :=
  .endTime (by decide)
example : lookup "end_time" (insertDefaults epochsB[1] (update topEpoch demeEpoch)) = none := rfl
example : ((epochsB.set 1 (Obj.set "end_time" (n 0) epochsB[1])).set 0
    (Obj.set "size_function" (.str "constant") epochsB[0]))
    = [[("end_time", n 50), ("size_function", .str "constant")],
       [("start_size", n 700), ("end_time", n 0)]] := rfl

-- `hoist_epoch_default`: `selfing_rate: 1/10` on both epochs ≡ in the deme-level defaults
example : ∀ e ∈ epochsB.map (Obj.set "selfing_rate" (n (1/10))),
    lookup "selfing_rate" e = some (n (1/10)) := by
  intro e he
  simp only [epochsB, List.map_cons, List.map_nil, List.mem_cons, List.not_mem_nil, or_false] at he
  rcases he with rfl | rfl <;> rfl
example : (resolveEpochs (.fin 200) (update [] demeEpoch)
      (epochsB.map (Obj.set "selfing_rate" (n (1/10))))).toOption = some resolvedB
    ∧ (resolveEpochs (.fin 200) (update [] (Obj.set "selfing_rate" (n (1/10)) demeEpoch))
      ((epochsB.map (Obj.set "selfing_rate" (n (1/10)))).map (erase "selfing_rate"))).toOption
      = some resolvedB := by decide +kernel

-- `null_epoch_field_omitted`
example : [[("end_time", n 50), ("end_size", .null)], [("start_size", n 700)]].map
    (dropNull "end_size") = epochsB := rfl
example : (resolveEpochs (.fin 200) (update topEpoch demeEpoch)
    [[("end_time", n 50), ("end_size", .null)], [("start_size", n 700)]]).toOption
    = some resolvedB := by decide +kernel

-- `addDemeHeader_spec`: deme A (start time from its single ancestor X ending at 200,
-- proportions `[1]`), deme C (explicit start time), in the graph holding X and A
example : (addDemeHeader gXA (.str "B") (.str "") (some (.list [.str "X"])) none none).toOption
    = some { name := "B", description := "", startTime := .fin 200, ancestors := ["X"],
             proportions := [1], epochs := [] } := by decide +kernel
example : (addDemeHeader gXA (.str "C") (.str "") (some (.list [.str "A"])) none
    (some (n 150))).toOption
    = some { name := "C", description := "", startTime := .fin 150, ancestors := ["A"],
             proportions := [1], epochs := [] } := by decide +kernel
example : (addDemeHeader emptyGraph (.str "X") (.str "") none none none).toOption
    = some { name := "X", description := "", startTime := .inf, ancestors := [],
             proportions := [], epochs := [] } := by decide +kernel

-- `resolveMigration_symmetric_eq_asymmetric`: the symmetric migration among A, B, C of the
-- example document (rate from `defaults.migration`, no bounds given): the hypotheses hold …
example : checkAllowed symMig allowedMigration = .ok ()
    ∧ lookupNN "demes" (insertDefaults symMig migDefaults) = some (.list names3)
    ∧ lookupNN "source" (insertDefaults symMig migDefaults) = none
    ∧ lookupNN "dest" (insertDefaults symMig migDefaults) = none
    ∧ lookupNN "demes" migDefaults = none ∧ 2 ≤ names3.length :=
  ⟨rfl, rfl, rfl, rfl, rfl, by decide⟩
-- … it resolves, into six migrations whose default start times differ pair by pair
example : (resolveMigration migDefaults gDemes symMig).toOption.map (·.migrations)
    = some [
      { source := "A", dest := "B", startTime := .fin 200, endTime := 0, rate := 1/100 },
      { source := "A", dest := "C", startTime := .fin 150, endTime := 0, rate := 1/100 },
      { source := "B", dest := "A", startTime := .fin 200, endTime := 0, rate := 1/100 },
      { source := "B", dest := "C", startTime := .fin 150, endTime := 0, rate := 1/100 },
      { source := "C", dest := "A", startTime := .fin 150, endTime := 0, rate := 1/100 },
      { source := "C", dest := "B", startTime := .fin 150, endTime := 0, rate := 1/100 }] := by
  decide +kernel
example : specSymmetricExpansion ["A", "B", "C"]
    = [("A", "B"), ("A", "C"), ("B", "A"), ("B", "C"), ("C", "A"), ("C", "B")] := by decide

-- `resolve_symmetric_eq_asymmetric`: the example document is of the required form
example : docA = .obj (withMigrations dataA ([] ++ [symMig] ++ [])) := rfl
example : popObject dataA "defaults" = .ok defaultsA
    ∧ popObject defaultsA "migration" = .ok migDefaults := ⟨rfl, rfl⟩
example : docAExpanded = .obj (withMigrations dataA
    ([] ++ (specSymmetricExpansion names3).map
      (asymmetricDict (lookup "rate" (insertDefaults symMig migDefaults))
        (lookup "start_time" (insertDefaults symMig migDefaults))
        (lookup "end_time" (insertDefaults symMig migDefaults))) ++ [])) := rfl

-- `sortPulses_stable`: the example document's pulses at times 10, 20, 10
example : (sortPulses [
      { sources := ["A"], dest := "B", time := 10, proportions := [1/10] },
      { sources := ["B"], dest := "C", time := 20, proportions := [1/10] },
      { sources := ["C"], dest := "A", time := 10, proportions := [1/10] }]).map (·.sources)
    = [["B"], ["A"], ["C"]] := by decide +kernel

-- whole documents: the document as written (defaults at two levels, inferred start times,
-- sizes, size functions, end times and proportions, a symmetric migration, unsorted pulses),
-- the same with the migration written out, and the same with nothing left to infer, resolve
-- to the same graph
example : (summary (resolve docA)).isSome = true := by decide +kernel
example : summary (resolve docA) = summary (resolve docAExpanded) := by decide +kernel
example : summary (resolve docA) = summary (resolve docB) := by decide +kernel

end

end Demes.Theorems
