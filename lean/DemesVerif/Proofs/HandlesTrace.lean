/-
  C17: the event log of the Model is faithful — replaying its `opened` / `closed` /
  `callerClosed` events gives exactly the handle flags and the caller-stream flag of the
  final state.  (The harness compares the log with the events observed on the real code; this
  lemma ties the log to the flags the property theorems speak about.)
-/
import DemesVerif.Proofs.Handles
namespace Demes.Proofs.Handles
open Demes.Handles Demes.Spec

theorem replay_eq (t : List Event) : replay t = t.foldl replayStep ([], false) := rfl

theorem replay_snoc (t : List Event) (e : Event) : replay (t ++ [e]) = replayStep (replay t) e := by
  simp [replay_eq, List.foldl_append]

def Faithful (s : State) : Prop := replay s.trace = (s.handles, s.callerClosed)

/-- events that say nothing about handles -/
def silent : Event → Bool
  | .opened _ | .closed _ | .callerClosed => false
  | _ => true

theorem faithful_log {s : State} (h : Faithful s) (e : Event) (he : silent e = true) :
    Faithful (s.log e) := by
  unfold Faithful State.log at *
  simp only [replay_snoc, h]
  cases e <;> simp_all [silent, replayStep]

theorem faithful_closeRef {s : State} (h : Faithful s) (f : FileRef) : Faithful (closeRef f s) := by
  unfold Faithful at *
  cases f with
  | handle i => simp only [closeRef, replay_snoc, h, replayStep]
  | callerStream => simp only [closeRef, replay_snoc, h, replayStep]
  | other => exact h

theorem faithful_exit {s : State} (h : Faithful s) (o : Obj) (f : FileRef) :
    Faithful (exitPolymorph o f s) := by
  unfold exitPolymorph
  split
  · exact faithful_closeRef h f
  · exact h

/-- the computation keeps the log faithful -/
def MKeeps {α} (m : M α) : Prop := ∀ s, Faithful s → Faithful (m s).2

theorem keeps_pure {α} (a : α) : MKeeps (pure a : M α) := fun _ h => h
theorem keeps_raise {α} (e : Exn) : MKeeps (raise e : M α) := fun _ h => h

theorem keeps_emit (e : Event) (he : silent e = true) : MKeeps (emit e) :=
  fun _ h => faithful_log h e he

theorem keeps_bind {α β} {m : M α} {f : α → M β} (hm : MKeeps m) (hf : ∀ a, MKeeps (f a)) :
    MKeeps (m >>= f) := by
  intro s hs
  have h1 := hm s hs
  rw [bind_eq]
  unfold M.bind
  split
  · next a s' heq => rw [heq] at h1; exact hf a s' h1
  · next e s' heq => rw [heq] at h1; exact h1

theorem keeps_ite {α} {c : Prop} [Decidable c] {a b : M α} (ha : MKeeps a) (hb : MKeeps b) :
    MKeeps (if c then a else b) := by
  split <;> assumption

theorem keeps_tryFin {α} {body : M α} {fin : State → State} (hb : MKeeps body)
    (hf : ∀ s, Faithful s → Faithful (fin s)) : MKeeps (tryFin body fin) := by
  intro s hs
  exact hf _ (hb s hs)

theorem keeps_newHandle : MKeeps newHandle := by
  intro s hs
  unfold Faithful at *
  simp only [newHandle, replay_snoc, hs, replayStep]

theorem keeps_stage (p : Plan) (st : Stage) (k : Nat) : MKeeps (stage p st k) := by
  unfold stage
  exact keeps_bind (keeps_emit _ rfl) (fun _ => keeps_ite (keeps_raise _) (keeps_pure _))

theorem keeps_fileStage (p : Plan) (f : FileRef) (st : Stage) (k : Nat) :
    MKeeps (fileStage p f st k) := by
  unfold fileStage
  exact keeps_bind (keeps_emit _ rfl) (fun _ => keeps_ite (keeps_raise _) (keeps_pure _))

theorem keeps_openPolymorph (p : Plan) (o : Obj) : MKeeps (openPolymorph p o) := by
  unfold openPolymorph
  refine keeps_bind (keeps_emit _ rfl) (fun _ => ?_)
  cases o with
  | str => exact keeps_ite (keeps_raise _) (keeps_bind keeps_newHandle (fun _ => keeps_pure _))
  | pathlike => exact keeps_ite (keeps_raise _) (keeps_bind keeps_newHandle (fun _ => keeps_pure _))
  | callerStream => exact keeps_pure _
  | libStream i => exact keeps_pure _
  | other => exact keeps_pure _

theorem keeps_withPolymorph {α} (p : Plan) (o : Obj) (body : FileRef → M α)
    (hb : ∀ f, MKeeps (body f)) : MKeeps (withPolymorph p o body) := by
  unfold withPolymorph
  exact keeps_bind (keeps_openPolymorph p o)
    (fun f => keeps_tryFin (hb f) (fun _ h => faithful_exit h o f))

theorem keeps_withStringIO {α} (p : Plan) (body : Obj → M α) (hb : ∀ o, MKeeps (body o)) :
    MKeeps (withStringIO p body) := by
  unfold withStringIO
  exact keeps_bind (keeps_emit _ rfl) (fun _ => keeps_ite (keeps_raise _)
    (keeps_bind keeps_newHandle (fun i => keeps_tryFin (hb _) (fun _ h => faithful_closeRef h _))))

theorem keeps_readData (p : Plan) (fmt : Format) (o : Obj) : MKeeps (readData p fmt o) := by
  unfold readData
  cases fmt
  · exact keeps_withPolymorph _ _ _ (fun f => keeps_fileStage _ _ _ _)
  · exact keeps_withPolymorph _ _ _ (fun f => keeps_fileStage _ _ _ _)
  · exact keeps_raise _

theorem keeps_loadAsdict (p : Plan) (fmt : Format) (o : Obj) : MKeeps (loadAsdict p fmt o) := by
  unfold loadAsdict
  exact keeps_bind (keeps_readData _ _ _)
    (fun _ => keeps_bind (keeps_stage _ _ _) (fun _ => keeps_stage _ _ _))

theorem keeps_loadsAsdict (p : Plan) (fmt : Format) : MKeeps (loadsAsdict p fmt) :=
  keeps_withStringIO _ _ (fun o => keeps_loadAsdict p fmt o)

theorem keeps_load (p : Plan) (fmt : Format) (o : Obj) : MKeeps (load p fmt o) := by
  unfold load
  exact keeps_bind (keeps_loadAsdict _ _ _) (fun _ => keeps_stage _ _ _)

theorem keeps_loads (p : Plan) (fmt : Format) : MKeeps (loads p fmt) := by
  unfold loads
  exact keeps_bind (keeps_loadsAsdict _ _) (fun _ => keeps_stage _ _ _)

theorem keeps_writeData (p : Plan) (fmt : Format) (o : Obj) : MKeeps (writeData p fmt o) := by
  unfold writeData
  cases fmt
  · exact keeps_withPolymorph _ _ _ (fun f => keeps_fileStage _ _ _ _)
  · exact keeps_withPolymorph _ _ _ (fun f => keeps_fileStage _ _ _ _)
  · exact keeps_raise _

theorem keeps_dump (p : Plan) (fmt : Format) (o : Obj) : MKeeps (dump p fmt o) := by
  unfold dump
  exact keeps_bind (keeps_stage _ _ _) (fun _ => keeps_writeData _ _ _)

theorem keeps_dumps (p : Plan) (fmt : Format) : MKeeps (dumps p fmt) :=
  keeps_withStringIO _ _ (fun o => keeps_dump p fmt o)

theorem keeps_dumpAllLoop (p : Plan) (f : FileRef) (i r : Nat) : MKeeps (dumpAllLoop p f i r) := by
  induction r generalizing i with
  | zero => unfold dumpAllLoop; exact keeps_pure _
  | succ r ih =>
    unfold dumpAllLoop
    exact keeps_bind (keeps_stage _ _ _) (fun _ => keeps_bind (keeps_fileStage _ _ _ _) (fun _ => ih _))

theorem keeps_dumpAll (p : Plan) (n : Nat) (o : Obj) : MKeeps (dumpAll p n o) :=
  keeps_withPolymorph _ _ _ (fun f => keeps_dumpAllLoop p f 0 n)

theorem keeps_genTurn (c : Cfg) (f : FileRef) (i : Nat) : MKeeps (genTurn c f i) := by
  unfold genTurn
  refine keeps_bind (keeps_fileStage _ _ _ _) (fun _ => keeps_ite ?_ (keeps_pure _))
  exact keeps_bind (keeps_stage _ _ _) (fun _ => keeps_bind (keeps_stage _ _ _)
    (fun _ => keeps_bind (keeps_stage _ _ _) (fun _ => keeps_pure _)))

theorem faithful_init : Faithful State.init := rfl

theorem faithful_finish (m : M Unit) (hm : MKeeps m) : Faithful (finish m).state := by
  have h := hm State.init faithful_init
  unfold finish
  split
  · next s heq => rw [heq] at h; exact faithful_log h _ rfl
  · next e s heq => rw [heq] at h; exact faithful_log h _ rfl

theorem faithful_genResume (c : Cfg) (f : FileRef) (i : Nat) (s : State) (h : Faithful s) :
    Faithful (genResume c f i s).2 := by
  have ht := keeps_genTurn c f i s h
  unfold genResume
  split
  · next s' heq => rw [heq] at ht; exact faithful_log ht _ rfl
  · next s' heq => rw [heq] at ht; exact faithful_log (faithful_exit ht _ _) _ rfl
  · next e s' heq => rw [heq] at ht; exact faithful_log (faithful_exit ht _ _) _ rfl

theorem faithful_genNext (c : Cfg) (g : Gen) (s : State) (h : Faithful s) :
    Faithful (genNext c g s).2 := by
  cases g with
  | notStarted =>
    have ho := keeps_openPolymorph c.plan c.obj s h
    simp only [genNext]
    split
    · next e s' heq => rw [heq] at ho; exact faithful_log ho _ rfl
    · next f s' heq => rw [heq] at ho; exact faithful_genResume c f 0 s' ho
  | suspended f i => exact faithful_genResume c f i s h
  | done d => exact faithful_log h _ rfl

theorem faithful_genClose (c : Cfg) (g : Gen) (s : State) (h : Faithful s) :
    Faithful (genClose c g s).2 := by
  cases g with
  | notStarted => exact h
  | suspended f i => exact faithful_exit h _ _
  | done d => exact h

theorem faithful_genExhaust (c : Cfg) (fuel : Nat) (g : Gen) (s : State) (h : Faithful s) :
    Faithful (genExhaust c fuel g s).2 := by
  induction fuel generalizing g s with
  | zero => exact h
  | succ fuel ih =>
    have hn := faithful_genNext c g s h
    unfold genExhaust
    split
    · next f i s' heq => rw [heq] at hn; exact ih _ _ hn
    · exact hn

theorem faithful_genStep (c : Cfg) (st : Step) (g : Gen) (s : State) (h : Faithful s) :
    Faithful (genStep c st g s).2 := by
  cases st with
  | next => exact faithful_genNext c g s h
  | exhaust => exact faithful_genExhaust c _ g s h
  | close => exact faithful_genClose c g _ (faithful_log h _ rfl)
  | collect => exact faithful_genClose c g _ (faithful_log h _ rfl)

theorem faithful_runScript (c : Cfg) (script : List Step) (g : Gen) (s : State) (h : Faithful s) :
    Faithful (runScript c script g s).2 := by
  induction script generalizing g s with
  | nil => exact h
  | cons st rest ih =>
    unfold runScript
    exact ih _ _ (faithful_genStep c st g s h)

theorem trace_faithful (r : Request) :
    replay (run r).state.trace = ((run r).state.handles, (run r).state.callerClosed) := by
  show Faithful (run r).state
  cases he : r.entry with
  | loadAll =>
    rw [run_loadAll r he]
    exact faithful_runScript _ _ _ _ faithful_init
  | loadAsdict fmt => unfold run; rw [he]; exact faithful_finish _ (keeps_loadAsdict _ _ _)
  | loadsAsdict fmt => unfold run; rw [he]; exact faithful_finish _ (keeps_loadsAsdict _ _)
  | load fmt => unfold run; rw [he]; exact faithful_finish _ (keeps_load _ _ _)
  | loads fmt => unfold run; rw [he]; exact faithful_finish _ (keeps_loads _ _)
  | dump fmt => unfold run; rw [he]; exact faithful_finish _ (keeps_dump _ _ _)
  | dumps fmt => unfold run; rw [he]; exact faithful_finish _ (keeps_dumps _ _)
  | dumpAll => unfold run; rw [he]; exact faithful_finish _ (keeps_dumpAll _ _ _)

end Demes.Proofs.Handles
