/-
  Semantic tie of the closeness of the event records (C14): `Split / Branch / Merge / Admix.assert_close`
  and `.isclose` of demes/demes.py.

  `Generated/GuardsRecordsClose.lean` holds, regenerated on every run, the Lean `Bool` function the predicate
  compiler of group "GuardsClose" produced from the WHOLE BODY of each of the eight methods ("completes without
  AssertionError" resp. "returns True"): every `assert`, `sorted(..) == sorted(..)`, the call of
  `isclose_deme_proportions` with the tolerances it forwards, the `try / except AssertionError` of `isclose`;
  attribute reads are named parameters, `sorted` and calls of other library functions are function parameters.

  The theorems say, for ALL records and ALL tolerances, that the Model's functions (Model/RecordsClose.lean) are
  these generated functions of the records' fields — `sorted` read as the sort by code points, the class test as
  "same class", `isclose_deme_proportions` as the generated function of group "GuardsClose" (itself tied to the
  Model's `iscloseDemeProportions`), each `isclose` wrapper instantiated by the generated `assert_close`.
  Comparing another attribute, `==` for `math.isclose` (or the converse), dropping an assert or a `sorted`, not
  forwarding a tolerance, or a changed return value makes a named theorem fail to compile.
-/
import DemesVerif.Generated.GuardsRecordsClose
import DemesVerif.Theorems.TablesGuardsClose
import DemesVerif.Proofs.RecordsClose
namespace Demes.Tables
open Demes Demes.Proofs.Guards2
set_option linter.unusedSimpArgs false
set_option linter.unusedTactic false
set_option linter.unreachableTactic false

/-- what a completing `assert_close` returns, per class: the Model's `AssertRet` (`record_assert_value`) -/
theorem guards_record_assert_close_returns : Generated.recordAssertCloseReturns =
    [("Split.assert_close", "True"), ("Branch.assert_close", "None"), ("Merge.assert_close", "None"),
     ("Admix.assert_close", "None")] := by decide +kernel

/-! ### `Split` -/

/-- the generated `Split.assert_close` read on two Model splits (`sorted` on names: by code points) -/
def splitAssertClose (x y : SplitEv) (r t : Num) : Bool :=
  Generated.close_split_assert_close (self_class_is_other_class := true) (rel_tol := r) (abs_tol := t)
    (sorted_String := sortBy cmpS)
    (self_parent := x.parent) (other_parent := y.parent) (self_children := x.children) (other_children := y.children)
    (self_time := .fin x.time) (other_time := .fin y.time)

theorem guards_tie_split_assert_close (t : Tol) (a b : SplitEv) :
    SplitEv.isclose t a b = splitAssertClose a b (.fin t.rel) (.fin t.abs) := by
  rw [Proofs.RecClose.split_isclose_eq]
  unfold splitAssertClose Generated.close_split_assert_close closeQ
  simp only [isclose_fin, Bool.true_and]

theorem guards_tie_split_isclose (t : Tol) (a b : SplitEv) :
    SplitEv.isclose t a b = Generated.close_split_isclose (Split_assert_close := splitAssertClose)
      (self := a) (other := b) (rel_tol := .fin t.rel) (abs_tol := .fin t.abs) :=
  guards_tie_split_assert_close t a b

/-! ### `Branch` -/

def branchAssertClose (x y : BranchEv) (r t : Num) : Bool :=
  Generated.close_branch_assert_close (self_class_is_other_class := true) (rel_tol := r) (abs_tol := t)
    (self_parent := x.parent) (other_parent := y.parent) (self_child := x.child) (other_child := y.child)
    (self_time := Num.ofETime x.time) (other_time := Num.ofETime y.time)

theorem guards_tie_branch_assert_close (t : Tol) (a b : BranchEv) :
    BranchEv.isclose t a b = branchAssertClose a b (.fin t.rel) (.fin t.abs) := by
  rw [Proofs.RecClose.branch_isclose_eq]
  unfold branchAssertClose Generated.close_branch_assert_close closeE
  simp only [isclose_ofETime, Bool.true_and]

theorem guards_tie_branch_isclose (t : Tol) (a b : BranchEv) :
    BranchEv.isclose t a b = Generated.close_branch_isclose (Branch_assert_close := branchAssertClose)
      (self := a) (other := b) (rel_tol := .fin t.rel) (abs_tol := .fin t.abs) :=
  guards_tie_branch_assert_close t a b

/-! ### `Merge` -/

def mergeAssertClose (x y : MergeEv) (r t : Num) : Bool :=
  Generated.close_merge_assert_close (self_class_is_other_class := true) (rel_tol := r) (abs_tol := t)
    (isclose_deme_proportions := demeProportions)
    (self_parents := x.parents) (other_parents := y.parents)
    (self_proportions := x.proportions.map Num.fin) (other_proportions := y.proportions.map Num.fin)
    (self_child := x.child) (other_child := y.child)
    (self_time := Num.ofETime x.time) (other_time := Num.ofETime y.time)

theorem guards_tie_merge_assert_close (t : Tol) (a b : MergeEv) :
    MergeEv.mergeIsclose t a b = mergeAssertClose a b (.fin t.rel) (.fin t.abs) := by
  rw [Proofs.RecClose.merge_isclose_eq]
  unfold mergeAssertClose Generated.close_merge_assert_close closeE
  simp only [isclose_ofETime, ← guards_tie_isclose_deme_proportions, Bool.true_and]

theorem guards_tie_merge_isclose (t : Tol) (a b : MergeEv) :
    MergeEv.mergeIsclose t a b = Generated.close_merge_isclose (Merge_assert_close := mergeAssertClose)
      (self := a) (other := b) (rel_tol := .fin t.rel) (abs_tol := .fin t.abs) :=
  guards_tie_merge_assert_close t a b

/-! ### `Admix` -/

def admixAssertClose (x y : MergeEv) (r t : Num) : Bool :=
  Generated.close_admix_assert_close (self_class_is_other_class := true) (rel_tol := r) (abs_tol := t)
    (isclose_deme_proportions := demeProportions)
    (self_parents := x.parents) (other_parents := y.parents)
    (self_proportions := x.proportions.map Num.fin) (other_proportions := y.proportions.map Num.fin)
    (self_child := x.child) (other_child := y.child)
    (self_time := Num.ofETime x.time) (other_time := Num.ofETime y.time)

theorem guards_tie_admix_assert_close (t : Tol) (a b : MergeEv) :
    MergeEv.admixIsclose t a b = admixAssertClose a b (.fin t.rel) (.fin t.abs) := by
  rw [Proofs.RecClose.admix_isclose_eq_merge, Proofs.RecClose.merge_isclose_eq]
  unfold admixAssertClose Generated.close_admix_assert_close closeE
  simp only [isclose_ofETime, ← guards_tie_isclose_deme_proportions, Bool.true_and]

theorem guards_tie_admix_isclose (t : Tol) (a b : MergeEv) :
    MergeEv.admixIsclose t a b = Generated.close_admix_isclose (Admix_assert_close := admixAssertClose)
      (self := a) (other := b) (rel_tol := .fin t.rel) (abs_tol := .fin t.abs) :=
  guards_tie_admix_assert_close t a b

/-! ### records with their class: the class test is the first conjunct of every generated function -/

/-- `Record.isclose` is the generated function of the record's class, its class test instantiated by "the two
records are of the same class" (other classes: the first assert fails, whatever the fields) -/
theorem guards_tie_record_isclose (t : Tol) (a b : Record) :
    Record.isclose t a b = (match a, b with
      | .split x, .split y => splitAssertClose x y (.fin t.rel) (.fin t.abs)
      | .branch x, .branch y => branchAssertClose x y (.fin t.rel) (.fin t.abs)
      | .merge x, .merge y => mergeAssertClose x y (.fin t.rel) (.fin t.abs)
      | .admix x, .admix y => admixAssertClose x y (.fin t.rel) (.fin t.abs)
      | _, _ => false) := by
  rw [Proofs.RecClose.record_isclose_eq]
  cases a <;> cases b <;>
    first
    | rfl
    | exact guards_tie_split_assert_close t _ _
    | exact guards_tie_branch_assert_close t _ _
    | exact guards_tie_merge_assert_close t _ _
    | exact guards_tie_admix_assert_close t _ _

/-- a failed class test makes each generated `assert_close` false whatever the fields -/
theorem guards_record_class_test (r t : Num) (p q : String) (cs ds : List String) (u v : Num)
    (srt : List String → List String) :
    Generated.close_split_assert_close (self_class_is_other_class := false) (rel_tol := r) (abs_tol := t)
      (sorted_String := srt) (self_parent := p) (other_parent := q) (self_children := cs) (other_children := ds)
      (self_time := u) (other_time := v) = false
    ∧ Generated.close_branch_assert_close (self_class_is_other_class := false) (rel_tol := r) (abs_tol := t)
      (self_parent := p) (other_parent := q) (self_child := p) (other_child := q)
      (self_time := u) (other_time := v) = false := by
  constructor <;> simp [Generated.close_split_assert_close, Generated.close_branch_assert_close]

/-! ### the generated functions really depend on what they read (closed instances) -/

section sensitivity
open Proofs.RecClose

example : branchAssertClose exBranch exBranch (.fin relTol) (.fin absTol) = true
    ∧ branchAssertClose exBranch { exBranch with parent := "Z" } (.fin 1) (.fin 1) = false
    ∧ branchAssertClose exBranch { exBranch with child := "Z" } (.fin 1) (.fin 1) = false
    ∧ branchAssertClose exBranch { exBranch with time := .fin 81 } (.fin 0) (.fin 0) = false
    ∧ branchAssertClose exBranch { exBranch with time := .fin 81 } (.fin (1/2)) (.fin 0) = true
    ∧ branchAssertClose exBranch { exBranch with time := .fin 81 } (.fin 0) (.fin 2) = true
    ∧ branchAssertClose exBranch { exBranch with time := .inf } (.fin 1) (.fin 1) = false := by decide +kernel
-- the `isclose` wrappers pass their arguments on in this order
example : Generated.close_split_isclose (Split_assert_close := fun (a b : Nat) r t => a == 1 && b == 2 && r == .fin 3 && t == .fin 4)
    (self := 1) (other := 2) (rel_tol := .fin 3) (abs_tol := .fin 4) = true
  ∧ Generated.close_admix_isclose (Admix_assert_close := fun (a b : Nat) r t => a == 1 && b == 2 && r == .fin 3 && t == .fin 4)
    (self := 1) (other := 2) (rel_tol := .fin 3) (abs_tol := .fin 4) = true := by decide +kernel
-- the tolerances reach `isclose_deme_proportions`
example : Generated.close_merge_assert_close (self_class_is_other_class := true) (rel_tol := .fin 3) (abs_tol := .fin 4)
    (isclose_deme_proportions := fun _ _ _ _ r t => r == .fin 3 && t == .fin 4)
    (self_parents := []) (other_parents := []) (self_proportions := []) (other_proportions := [])
    (self_child := "E") (other_child := "E") (self_time := .fin 1) (other_time := .fin 1) = true := by decide +kernel

end sensitivity

end Demes.Tables
