/-
  C09 §8 — graph → ms → graph with exponential epochs: the rendered command (growth options `-g` / `-eg`
  included) is read back by the parser of the string interpreter (`parse_renderV`) and is a plain command
  line (`plain_renderV`).  (`Proofs/MsRTParse.lean` with `-g` / `-eg`.)
-/
import DemesVerif.Proofs.MsGrowDefs
import DemesVerif.Proofs.MsRTParse
namespace Demes.Proofs.MsGrow
open Demes Demes.Ms Demes.Spec Demes.Spec.C07 Demes.Spec.C09
open Demes.Spec.MsSem (Cmd Parsed)
open Demes.Proofs.ToMs (printEv)
open Demes.Proofs.FromMsParse (idx_ok num_ok nonneg_ok need_ok sok_bind)
open Demes.Proofs.MsRT (hdrToks toksOf HdrOK pf_n pf_en pf_m pf_em pf_es pf_ej lt_zero_fin idx_int nonneg_fin num_fin
  evToks toksOf_eq evToks_cons renderG_append covers_append isArg_int isArg_num isArgTok_of pf_nil render_raw
  render_some render_none pOK argRun_args everySuffix_args plainTok_arg plainTok_known numPos_fin zero_of_not_pos
  render_evToks_cons)

/-! ### the growth options of the interpreter's parser -/

section Steps
variable {npop0 f : Nat} {acc : Parsed} {post : List String}

theorem pf_g {iS aS : String} {i : Nat} {a : Q} (hi : MsSem.idx iS = .ok i) (ha : MsSem.num aS = .ok a) :
    MsSem.parseFrom npop0 (f + 1) ("-g" :: iS :: aS :: post) acc
      = MsSem.parseFrom npop0 f post { acc with initial := acc.initial ++ [.setGrowth 0 i a] } := by
  simp (decide := true) only [MsSem.parseFrom, if_false, if_true, List.getD_cons_zero, List.getD_cons_succ,
    List.drop_succ_cons, List.drop_zero, need_ok (l := iS :: aS :: post) (k := 2) _ (by simp), hi, ha, sok_bind]

theorem pf_eg {tS iS aS : String} {t : Q} {i : Nat} {a : Q} (ht : MsSem.nonneg tS = .ok t)
    (hi : MsSem.idx iS = .ok i) (ha : MsSem.num aS = .ok a) :
    MsSem.parseFrom npop0 (f + 1) ("-eg" :: tS :: iS :: aS :: post) acc
      = MsSem.parseFrom npop0 f post { acc with events := acc.events ++ [.setGrowth t i a] } := by
  simp (decide := true) only [MsSem.parseFrom, if_false, if_true, List.getD_cons_zero, List.getD_cons_succ,
    List.drop_succ_cons, List.drop_zero, need_ok (l := tS :: iS :: aS :: post) (k := 3) _ (by simp), ht, hi, ha,
    sok_bind]

end Steps

/-! ### the printed growth rates -/

theorem alphaOK_tail {sa : Growth → String} {e : Event Growth} {evs : List (Event Growth)}
    (h : AlphaOK sa (e :: evs)) : AlphaOK sa evs := by
  intro G hG
  obtain ⟨x, hx, hxG⟩ := List.mem_filterMap.1 hG
  exact h G (List.mem_filterMap.2 ⟨x, List.mem_cons_of_mem _ hx, hxG⟩)

theorem alphaOK_head {sa : Growth → String} {o : String} {t : Num} {i : Int} {G : Growth}
    {evs : List (Event Growth)} (h : AlphaOK sa (.popGrowthRateChange o t i G :: evs)) :
    (∃ q, pyFloat (sa G) = some (.fin q)) ∧ classify (sa G) = .ok .arg :=
  h G (mem_alphasOf List.mem_cons_self)

theorem alphaOK_single {sa : Growth → String} {e : Event Growth} {evs : List (Event Growth)}
    (h : AlphaOK sa (e :: evs)) : AlphaOK sa [e] := by
  intro G hG
  obtain ⟨x, hx, hxG⟩ := List.mem_filterMap.1 hG
  simp only [List.mem_cons, List.not_mem_nil, or_false] at hx
  subst hx
  exact h G (List.mem_filterMap.2 ⟨x, List.mem_cons_self, hxG⟩)

theorem num_alpha {sa : Growth → String} {G : Growth} (h : ∃ q, pyFloat (sa G) = some (.fin q)) :
    MsSem.num (sa G) = .ok (growthVal sa G) :=
  num_ok.2 (pyFloat_growthVal h)

/-! ### the records of the fragment, one at a time -/

/-- add the option of one record to a parse result -/
def addEv (gv : Growth → Q) (acc : Parsed) (e : Event Growth) : Parsed :=
  if isInitV e then { acc with initial := acc.initial ++ [cmdOfV gv e] }
  else { acc with events := acc.events ++ [cmdOfV gv e] }

/-- add the options of a list of records to a parse result -/
def addEvs (gv : Growth → Q) (acc : Parsed) (evs : List (Event Growth)) : Parsed :=
  { acc with initial := acc.initial ++ (evs.filter isInitV).map (cmdOfV gv),
             events := acc.events ++ (evs.filter (fun e => !isInitV e)).map (cmdOfV gv) }

theorem addEvs_nil (gv : Growth → Q) (acc : Parsed) : addEvs gv acc [] = acc := by
  cases acc; simp [addEvs]

theorem addEvs_cons (gv : Growth → Q) (acc : Parsed) (e : Event Growth) (evs : List (Event Growth)) :
    addEvs gv acc (e :: evs) = addEvs gv (addEv gv acc e) evs := by
  unfold addEvs addEv
  cases h : isInitV e <;> simp [h]

/-- the options the fragment prints -/
def evFlags : List String := ["-n", "-en", "-g", "-eg", "-m", "-em", "-es", "-ej"]

section One
variable (c : NumCodec) (sa : Growth → String)

/-- the parser of the interpreter reads the printed record back -/
theorem pf_ev {npop0 f : Nat} {acc : Parsed} {post : List String} (e : Event Growth) (he : EvG e)
    (hc : CodecCovers c (printEv e)) (ha : AlphaOK sa [e]) :
    MsSem.parseFrom npop0 (f + 1) (renderG c sa (printEv e) ++ post) acc
      = MsSem.parseFrom npop0 f post (addEv (growthVal sa) acc e) := by
  cases e with
  | popSizeChange o t i x =>
    obtain ⟨rfl, hi, q, y, rfl, hq, rfl, hy⟩ := he
    by_cases hp : numPos (.fin q) = true
    · have hpr : printEv (.popSizeChange "" (.fin q) i (.fin y))
          = [.flag "-en", .num (.fin q), .int i, .num (.fin y)] := by simp [printEv, hp]
      rw [hpr] at hc ⊢
      have hcq : c.ok (.fin q) := hc (.num (.fin q)) (by simp)
      have hcy : c.ok (.fin y) := hc (.num (.fin y)) (by simp)
      simp only [renderG, List.map_cons, List.map_nil, renderTokG, List.cons_append, List.nil_append]
      rw [pf_en (nonneg_fin c q hcq hq) (idx_int i hi) (nonneg_fin c y hcy hy)]
      simp [addEv, isInitV, hp, cmdOfV, evT, Event.t]
    · obtain rfl := zero_of_not_pos hq hp
      have hpr : printEv (.popSizeChange "" (.fin 0) i (.fin y))
          = [.flag "-n", .int i, .num (.fin y)] := by simp [printEv, hp]
      rw [hpr] at hc ⊢
      have hcy : c.ok (.fin y) := hc (.num (.fin y)) (by simp)
      simp only [renderG, List.map_cons, List.map_nil, renderTokG, List.cons_append, List.nil_append]
      rw [pf_n (idx_int i hi) (nonneg_fin c y hcy hy)]
      simp [addEv, isInitV, hp, cmdOfV, evT, Event.t]
  | popGrowthRateChange o t i G =>
    obtain ⟨rfl, hi, q, rfl, hq⟩ := he
    obtain ⟨hG, _⟩ := alphaOK_head ha
    by_cases hp : numPos (.fin q) = true
    · have hpr : printEv (.popGrowthRateChange "" (.fin q) i G)
          = [.flag "-eg", .num (.fin q), .int i, .alpha G] := by simp [printEv, hp]
      rw [hpr] at hc ⊢
      have hcq : c.ok (.fin q) := hc (.num (.fin q)) (by simp)
      simp only [renderG, List.map_cons, List.map_nil, renderTokG, List.cons_append, List.nil_append]
      rw [pf_eg (nonneg_fin c q hcq hq) (idx_int i hi) (num_alpha hG)]
      simp [addEv, isInitV, hp, cmdOfV, evT, Event.t]
    · obtain rfl := zero_of_not_pos hq hp
      have hpr : printEv (.popGrowthRateChange "" (.fin 0) i G)
          = [.flag "-g", .int i, .alpha G] := by simp [printEv, hp]
      rw [hpr] at hc ⊢
      simp only [renderG, List.map_cons, List.map_nil, renderTokG, List.cons_append, List.nil_append]
      rw [pf_g (idx_int i hi) (num_alpha hG)]
      simp [addEv, isInitV, hp, cmdOfV, evT, Event.t]
  | migEntryChange o t i j x =>
    obtain ⟨rfl, hi, hj, q, y, rfl, hq, rfl, hy⟩ := he
    by_cases hp : numPos (.fin q) = true
    · have hpr : printEv (.migEntryChange "" (.fin q) i j (.fin y))
          = [.flag "-em", .num (.fin q), .int i, .int j, .num (.fin y)] := by simp [printEv, hp]
      rw [hpr] at hc ⊢
      have hcq : c.ok (.fin q) := hc (.num (.fin q)) (by simp)
      have hcy : c.ok (.fin y) := hc (.num (.fin y)) (by simp)
      simp only [renderG, List.map_cons, List.map_nil, renderTokG, List.cons_append, List.nil_append]
      rw [pf_em (nonneg_fin c q hcq hq) (idx_int i hi) (idx_int j hj) (nonneg_fin c y hcy hy)]
      simp [addEv, isInitV, hp, cmdOfV, evT, Event.t]
    · obtain rfl := zero_of_not_pos hq hp
      have hpr : printEv (.migEntryChange "" (.fin 0) i j (.fin y))
          = [.flag "-m", .int i, .int j, .num (.fin y)] := by simp [printEv, hp]
      rw [hpr] at hc ⊢
      have hcy : c.ok (.fin y) := hc (.num (.fin y)) (by simp)
      simp only [renderG, List.map_cons, List.map_nil, renderTokG, List.cons_append, List.nil_append]
      rw [pf_m (idx_int i hi) (idx_int j hj) (nonneg_fin c y hcy hy)]
      simp [addEv, isInitV, hp, cmdOfV, evT, Event.t]
  | split o t i p =>
    obtain ⟨rfl, hi, q, y, rfl, hq, rfl, hy0, hy1⟩ := he
    have hpr : printEv (.split "" (.fin q) i (.fin y))
        = [.flag "-es", .num (.fin q), .int i, .num (.fin y)] := rfl
    rw [hpr] at hc ⊢
    have hcq : c.ok (.fin q) := hc (.num (.fin q)) (by simp)
    have hcy : c.ok (.fin y) := hc (.num (.fin y)) (by simp)
    simp only [renderG, List.map_cons, List.map_nil, renderTokG, List.cons_append, List.nil_append]
    rw [pf_es (nonneg_fin c q hcq (Rat.le_of_lt hq)) (idx_int i hi) (num_fin c y hcy hy0) hy0 hy1]
    simp [addEv, isInitV, cmdOfV, evT, Event.t]
  | join o t i j =>
    obtain ⟨rfl, hi, hj, q, rfl, hq⟩ := he
    have hpr : printEv (.join "" (.fin q) i j)
        = [.flag "-ej", .num (.fin q), .int i, .int j] := rfl
    rw [hpr] at hc ⊢
    have hcq : c.ok (.fin q) := hc (.num (.fin q)) (by simp)
    simp only [renderG, List.map_cons, List.map_nil, renderTokG, List.cons_append, List.nil_append]
    rw [pf_ej (nonneg_fin c q hcq (Rat.le_of_lt hq)) (idx_int i hi) (idx_int j hj)]
    simp [addEv, isInitV, cmdOfV, evT, Event.t]
  | _ => exact absurd he (by simp [EvG])

/-- the printed record is one of the eight options followed by exactly its arguments -/
theorem render_shape (e : Event Growth) (he : EvG e) (hc : CodecCovers c (printEv e)) (ha : AlphaOK sa [e]) :
    ∃ fl args, renderG c sa (printEv e) = fl :: args ∧ fl ∈ evFlags
      ∧ arity.lookup fl = some (.fixed args.length) ∧ ∀ a ∈ args, C08.isArgTok a = true := by
  cases e with
  | popSizeChange o t i x =>
    obtain ⟨rfl, hi, q, y, rfl, hq, rfl, hy⟩ := he
    by_cases hp : numPos (.fin q) = true
    · have hpr : printEv (.popSizeChange "" (.fin q) i (.fin y))
          = [.flag "-en", .num (.fin q), .int i, .num (.fin y)] := by simp [printEv, hp]
      rw [hpr] at hc ⊢
      have hcq : c.ok (.fin q) := hc (.num (.fin q)) (by simp)
      have hcy : c.ok (.fin y) := hc (.num (.fin y)) (by simp)
      refine ⟨"-en", [c.str (.fin q), toString i, c.str (.fin y)], rfl, by decide, by simp only [List.length_cons, List.length_nil]; decide, ?_⟩
      intro a ha
      simp only [List.mem_cons, List.not_mem_nil, or_false] at ha
      rcases ha with rfl | rfl | rfl
      · exact isArg_num c _ hcq
      · exact isArg_int i
      · exact isArg_num c _ hcy
    · have hpr : printEv (.popSizeChange "" (.fin q) i (.fin y))
          = [.flag "-n", .int i, .num (.fin y)] := by simp [printEv, hp]
      rw [hpr] at hc ⊢
      have hcy : c.ok (.fin y) := hc (.num (.fin y)) (by simp)
      refine ⟨"-n", [toString i, c.str (.fin y)], rfl, by decide, by simp only [List.length_cons, List.length_nil]; decide, ?_⟩
      intro a ha
      simp only [List.mem_cons, List.not_mem_nil, or_false] at ha
      rcases ha with rfl | rfl
      · exact isArg_int i
      · exact isArg_num c _ hcy
  | popGrowthRateChange o t i G =>
    obtain ⟨rfl, hi, q, rfl, hq⟩ := he
    obtain ⟨_, hG⟩ := alphaOK_head ha
    by_cases hp : numPos (.fin q) = true
    · have hpr : printEv (.popGrowthRateChange "" (.fin q) i G)
          = [.flag "-eg", .num (.fin q), .int i, .alpha G] := by simp [printEv, hp]
      rw [hpr] at hc ⊢
      have hcq : c.ok (.fin q) := hc (.num (.fin q)) (by simp)
      refine ⟨"-eg", [c.str (.fin q), toString i, sa G], rfl, by decide, by simp only [List.length_cons, List.length_nil]; decide, ?_⟩
      intro a ha
      simp only [List.mem_cons, List.not_mem_nil, or_false] at ha
      rcases ha with rfl | rfl | rfl
      · exact isArg_num c _ hcq
      · exact isArg_int i
      · exact isArgTok_of hG
    · have hpr : printEv (.popGrowthRateChange "" (.fin q) i G)
          = [.flag "-g", .int i, .alpha G] := by simp [printEv, hp]
      rw [hpr] at hc ⊢
      refine ⟨"-g", [toString i, sa G], rfl, by decide, by simp only [List.length_cons, List.length_nil]; decide, ?_⟩
      intro a ha
      simp only [List.mem_cons, List.not_mem_nil, or_false] at ha
      rcases ha with rfl | rfl
      · exact isArg_int i
      · exact isArgTok_of hG
  | migEntryChange o t i j x =>
    obtain ⟨rfl, hi, hj, q, y, rfl, hq, rfl, hy⟩ := he
    by_cases hp : numPos (.fin q) = true
    · have hpr : printEv (.migEntryChange "" (.fin q) i j (.fin y))
          = [.flag "-em", .num (.fin q), .int i, .int j, .num (.fin y)] := by simp [printEv, hp]
      rw [hpr] at hc ⊢
      have hcq : c.ok (.fin q) := hc (.num (.fin q)) (by simp)
      have hcy : c.ok (.fin y) := hc (.num (.fin y)) (by simp)
      refine ⟨"-em", [c.str (.fin q), toString i, toString j, c.str (.fin y)], rfl, by decide, by simp only [List.length_cons, List.length_nil]; decide, ?_⟩
      intro a ha
      simp only [List.mem_cons, List.not_mem_nil, or_false] at ha
      rcases ha with rfl | rfl | rfl | rfl
      · exact isArg_num c _ hcq
      · exact isArg_int i
      · exact isArg_int j
      · exact isArg_num c _ hcy
    · have hpr : printEv (.migEntryChange "" (.fin q) i j (.fin y))
          = [.flag "-m", .int i, .int j, .num (.fin y)] := by simp [printEv, hp]
      rw [hpr] at hc ⊢
      have hcy : c.ok (.fin y) := hc (.num (.fin y)) (by simp)
      refine ⟨"-m", [toString i, toString j, c.str (.fin y)], rfl, by decide, by simp only [List.length_cons, List.length_nil]; decide, ?_⟩
      intro a ha
      simp only [List.mem_cons, List.not_mem_nil, or_false] at ha
      rcases ha with rfl | rfl | rfl
      · exact isArg_int i
      · exact isArg_int j
      · exact isArg_num c _ hcy
  | split o t i p =>
    obtain ⟨rfl, hi, q, y, rfl, hq, rfl, hy0, hy1⟩ := he
    have hpr : printEv (.split "" (.fin q) i (.fin y))
        = [.flag "-es", .num (.fin q), .int i, .num (.fin y)] := rfl
    rw [hpr] at hc ⊢
    have hcq : c.ok (.fin q) := hc (.num (.fin q)) (by simp)
    have hcy : c.ok (.fin y) := hc (.num (.fin y)) (by simp)
    refine ⟨"-es", [c.str (.fin q), toString i, c.str (.fin y)], rfl, by decide, by simp only [List.length_cons, List.length_nil]; decide, ?_⟩
    intro a ha
    simp only [List.mem_cons, List.not_mem_nil, or_false] at ha
    rcases ha with rfl | rfl | rfl
    · exact isArg_num c _ hcq
    · exact isArg_int i
    · exact isArg_num c _ hcy
  | join o t i j =>
    obtain ⟨rfl, hi, hj, q, rfl, hq⟩ := he
    have hpr : printEv (.join "" (.fin q) i j)
        = [.flag "-ej", .num (.fin q), .int i, .int j] := rfl
    rw [hpr] at hc ⊢
    have hcq : c.ok (.fin q) := hc (.num (.fin q)) (by simp)
    refine ⟨"-ej", [c.str (.fin q), toString i, toString j], rfl, by decide, by simp only [List.length_cons, List.length_nil]; decide, ?_⟩
    intro a ha
    simp only [List.mem_cons, List.not_mem_nil, or_false] at ha
    rcases ha with rfl | rfl | rfl
    · exact isArg_num c _ hcq
    · exact isArg_int i
    · exact isArg_int j
  | _ => exact absurd he (by simp [EvG])

end One

/-! ### the options of a command -/

theorem evFlags_known : ∀ s ∈ evFlags, s ∈ C08.knownFlags := by decide

theorem evFlags_ne : ∀ s ∈ evFlags, s ≠ "-I" ∧ s ≠ "-ma" ∧ s ≠ "-ema" := by decide

theorem evFlags_not_numbers : ∀ s ∈ evFlags, MsSem.isNumberLike s = false := by decide +kernel

section Many
variable (c : NumCodec) (sa : Growth → String)

/-- the rendered options are empty or start with one of the eight options -/
theorem render_head (evs : List (Event Growth)) (he : ∀ e ∈ evs, EvG e) (hc : CodecCovers c (evToks evs))
    (ha : AlphaOK sa evs) :
    renderG c sa (evToks evs) = [] ∨ ∃ fl r, renderG c sa (evToks evs) = fl :: r ∧ fl ∈ evFlags := by
  cases evs with
  | nil => left; rfl
  | cons e evs =>
    right
    rw [evToks_cons] at hc
    obtain ⟨fl, args, h, hfl, _, _⟩ := render_shape c sa e (he e List.mem_cons_self) (covers_append hc).1 (alphaOK_single ha)
    exact ⟨fl, args ++ renderG c sa (evToks evs), by rw [render_evToks_cons, h]; rfl, hfl⟩

theorem length_le_render (evs : List (Event Growth)) (he : ∀ e ∈ evs, EvG e) (hc : CodecCovers c (evToks evs))
    (ha : AlphaOK sa evs) :
    evs.length ≤ (renderG c sa (evToks evs)).length := by
  induction evs with
  | nil => exact Nat.zero_le _
  | cons e evs ih =>
    rw [evToks_cons] at hc
    obtain ⟨fl, args, h, _, _, _⟩ := render_shape c sa e (he e List.mem_cons_self) (covers_append hc).1 (alphaOK_single ha)
    have := ih (fun x hx => he x (List.mem_cons_of_mem _ hx)) (covers_append hc).2 (alphaOK_tail ha)
    rw [render_evToks_cons, h]
    simp only [List.length_cons, List.length_append]
    omega

theorem pf_nil (npop0 f : Nat) (acc : Parsed) : MsSem.parseFrom npop0 f [] acc = .ok acc := by
  cases f <;> rfl

/-- the parser of the interpreter reads the printed options back, in order -/
theorem pf_evs (npop0 : Nat) : ∀ (evs : List (Event Growth)) (f : Nat) (acc : Parsed), (∀ e ∈ evs, EvG e) →
    CodecCovers c (evToks evs) → AlphaOK sa evs → evs.length ≤ f →
    MsSem.parseFrom npop0 f (renderG c sa (evToks evs)) acc = .ok (addEvs (growthVal sa) acc evs)
  | [], f, acc, _, _, _, _ => by rw [addEvs_nil]; exact pf_nil npop0 f acc
  | e :: evs, 0, _, _, _, _, hf => by simp at hf
  | e :: evs, f + 1, acc, he, hc, ha, hf => by
    rw [evToks_cons] at hc
    rw [render_evToks_cons, pf_ev c sa e (he e List.mem_cons_self) (covers_append hc).1 (alphaOK_single ha),
      addEvs_cons]
    exact pf_evs npop0 evs f _ (fun x hx => he x (List.mem_cons_of_mem _ hx)) (covers_append hc).2
      (alphaOK_tail ha) (by simp only [List.length_cons] at hf; omega)

end Many

/-! ### plain command lines -/

theorem argRun_head {l : List String} (h : l = [] ∨ ∃ fl r, l = fl :: r ∧ fl ∈ evFlags) : C08.argRun l = 0 := by
  rcases h with rfl | ⟨fl, r, rfl, hfl⟩
  · rfl
  · simp only [C08.argRun, FromMsParse.known_not_arg (evFlags_known fl hfl), Bool.false_eq_true, if_false]

theorem groupOK_ev {N : Nat} {fl : String} {rest : List String} (hfl : fl ∈ evFlags) {k : Nat}
    (har : arity.lookup fl = some (.fixed k)) (hk : C08.argRun rest = k) : C08.groupOK N fl rest = true := by
  obtain ⟨h1, h2, h3⟩ := evFlags_ne fl hfl
  unfold C08.groupOK
  simp only [h1, h2, h3, if_false, har, hk, beq_self_eq_true]

section Plain
variable (c : NumCodec) (sa : Growth → String)

theorem plain_evs (N : Nat) : ∀ (evs : List (Event Growth)), (∀ e ∈ evs, EvG e) → CodecCovers c (evToks evs) →
    AlphaOK sa evs → (∀ s ∈ renderG c sa (evToks evs), C08.plainTok s = true) ∧ "-I" ∉ renderG c sa (evToks evs)
      ∧ C08.everySuffix (pOK N) (renderG c sa (evToks evs)) = true
  | [], _, _, _ => ⟨fun s hs => (by cases hs), fun hs => (by cases hs), rfl⟩
  | e :: evs, he, hc, ha => by
    rw [evToks_cons] at hc
    have he' : ∀ x ∈ evs, EvG x := fun x hx => he x (List.mem_cons_of_mem _ hx)
    obtain ⟨fl, args, h, hfl, har, hargs⟩ := render_shape c sa e (he e List.mem_cons_self) (covers_append hc).1 (alphaOK_single ha)
    obtain ⟨ih1, ih2, ih3⟩ := plain_evs N evs he' (covers_append hc).2 (alphaOK_tail ha)
    have hhead := render_head c sa evs he' (covers_append hc).2 (alphaOK_tail ha)
    rw [render_evToks_cons, h]
    refine ⟨?_, ?_, ?_⟩
    · intro s hs
      simp only [List.cons_append, List.mem_cons, List.mem_append] at hs
      rcases hs with rfl | hs | hs
      · exact plainTok_known (evFlags_known _ hfl)
      · exact plainTok_arg (hargs s hs)
      · exact ih1 s hs
    · intro hs
      simp only [List.cons_append, List.mem_cons, List.mem_append] at hs
      rcases hs with hs | hs | hs
      · exact (evFlags_ne fl hfl).1 hs.symm
      · exact FromMsParse.arg_ne_I (hargs _ hs) rfl
      · exact ih2 hs
    · simp only [List.cons_append, C08.everySuffix, Bool.and_eq_true]
      refine ⟨?_, ?_⟩
      · unfold pOK
        rw [groupOK_ev hfl har (by rw [argRun_args _ _ hargs, argRun_head hhead]; rfl), Bool.or_true]
      · rw [everySuffix_args N _ _ hargs]; exact ih3

end Plain

/-! ### the two theorems -/

theorem parse_renderV (c : NumCodec) (sa : Growth → String) (hdr : Option (Nat × List String)) (evs : List (Event Growth))
    (hh : HdrOK hdr) (he : ∀ e ∈ evs, EvG e) (hc : CodecCovers c (toksOf hdr evs)) (ha : AlphaOK sa evs) :
    Demes.Spec.MsSem.parse (renderG c sa (toksOf hdr evs)) = .ok (prOfV (growthVal sa) hdr evs) := by
  rw [toksOf_eq] at hc
  have hce := (covers_append hc).2
  have hlen := length_le_render c sa evs he hce ha
  cases hdr with
  | none =>
    rw [render_none]
    unfold MsSem.parse
    rw [FromMsParse.fs_no_I _ (plain_evs c sa 1 evs he hce ha).2.1]
    simp only [sok_bind]
    rw [pf_evs c sa 1 evs _ _ he hce ha hlen]
    simp [addEvs, prOfV]
  | some ns =>
    obtain ⟨n, ss⟩ := ns
    obtain ⟨hn, hss, _⟩ := hh
    have hA : ∀ r t, renderG c sa (evToks evs) = r :: t → MsSem.isNumberLike r = false := by
      intro r t hrt
      rcases render_head c sa evs he hce ha with h | ⟨fl, r', h, hfl⟩
      · rw [h] at hrt; cases hrt
      · rw [h] at hrt; cases hrt; exact evFlags_not_numbers _ hfl
    have hn1 : (1 : Int) ≤ (n : Int) := by omega
    have hl : ss.length = (n : Int).toNat := by rw [hss]; rfl
    rw [render_some]
    unfold MsSem.parse
    rw [FromMsParse.fs_I_A (MsPrint.pyInt_toString _) hn1 hl hA]
    simp only [sok_bind, List.length_cons]
    rw [FromMsParse.pf_I_A rfl (MsPrint.pyInt_toString _) hn1 hl hA,
      pf_evs c sa _ evs _ _ he hce ha (by simp only [List.length_append]; omega)]
    simp [addEvs, prOfV]

theorem plain_renderV (c : NumCodec) (sa : Growth → String) (hdr : Option (Nat × List String)) (evs : List (Event Growth))
    (hh : HdrOK hdr) (he : ∀ e ∈ evs, EvG e) (hc : CodecCovers c (toksOf hdr evs)) (ha : AlphaOK sa evs) :
    Demes.Spec.C08.PlainTokens (renderG c sa (toksOf hdr evs)) = true := by
  rw [toksOf_eq] at hc
  have hce := (covers_append hc).2
  have hhead := render_head c sa evs he hce ha
  cases hdr with
  | none =>
    rw [render_none]
    obtain ⟨h1, h2, h3⟩ := plain_evs c sa (C08.structNpop (renderG c sa (evToks evs))) evs he hce ha
    unfold C08.PlainTokens
    simp only [Bool.and_eq_true, List.all_eq_true, decide_eq_true_eq]
    refine ⟨⟨⟨h1, ?_⟩, ?_⟩, h3⟩
    · rcases hhead with h | ⟨fl, r, h, hfl⟩
      · rw [h]
      · rw [h]; simp only [FromMsParse.known_not_arg (evFlags_known fl hfl), Bool.not_false]
    · rw [List.count_eq_zero_of_not_mem h2]; exact Nat.zero_le _
  | some ns =>
    obtain ⟨n, ss⟩ := ns
    obtain ⟨hn, hss, hsa⟩ := hh
    rw [render_some]
    generalize hN : C08.structNpop ("-I" :: toString (n : Int) :: (ss ++ renderG c sa (evToks evs))) = N
    obtain ⟨h1, h2, h3⟩ := plain_evs c sa N evs he hce ha
    have hargs : ∀ a ∈ toString (n : Int) :: ss, C08.isArgTok a = true := by
      intro a ha
      rcases List.mem_cons.1 ha with rfl | ha
      · exact isArg_int _
      · exact isArgTok_of (hsa a ha)
    unfold C08.PlainTokens
    rw [hN]
    simp only [Bool.and_eq_true, List.all_eq_true, decide_eq_true_eq]
    refine ⟨⟨⟨?_, ?_⟩, ?_⟩, ?_⟩
    · intro s hs
      rcases List.mem_cons.1 hs with rfl | hs
      · exact plainTok_known (by decide)
      · rw [← List.cons_append] at hs
        rcases List.mem_append.1 hs with hs | hs
        · exact plainTok_arg (hargs s hs)
        · exact h1 s hs
    · simp only [FromMsParse.isArgTok_I, Bool.not_false]
    · rw [List.count_cons_self, List.count_eq_zero_of_not_mem]
      rw [← List.cons_append]
      intro hs
      rcases List.mem_append.1 hs with hs | hs
      · exact FromMsParse.arg_ne_I (hargs _ hs) rfl
      · exact h2 hs
    · have hk : C08.argRun (toString (n : Int) :: (ss ++ renderG c sa (evToks evs))) = 1 + (n : Int).toNat := by
        rw [← List.cons_append, argRun_args _ _ hargs, argRun_head hhead, List.length_cons, hss]
        simp only [Int.toNat_natCast]; omega
      change (pOK N "-I" _ && C08.everySuffix (pOK N) _) = true
      rw [← List.cons_append, everySuffix_args N _ _ hargs, h3, Bool.and_true]
      unfold pOK C08.groupOK
      simp only [List.cons_append, hk, if_true, MsPrint.pyInt_toString, beq_self_eq_true, Bool.true_or, Bool.and_true,
        Bool.or_eq_true, decide_eq_true_eq]
      right; omega

/-! ### non-vacuity -/

/-- `-I 2 0 0` -/
def exHdr : Option (Nat × List String) := some (2, ["0", "0"])

/-- `-n 1 2.0 -g 1 α(2, 1) -eg 0.5 2 α(1/2, 1) -eg 1.0 2 0.0 -es 1.0 1 0.5 -ej 2.0 2 1` -/
def exEvs : List (Event Growth) :=
  [.popSizeChange "" (.fin 0) 1 (.fin 2), .popGrowthRateChange "" (.fin 0) 1 (.sym 2 1),
   .popGrowthRateChange "" (.fin (1/2)) 2 (.sym (1/2) 1), .popGrowthRateChange "" (.fin 1) 2 .zero,
   .split "" (.fin 1) 1 (.fin (1/2)), .join "" (.fin 2) 2 1]

/-- a printer of growth rates: one positive rate for every non-zero symbolic rate -/
def exSa : Growth → String
  | .zero => "0.0"
  | .sym _ _ => "0.2772588722239781"

/-- a printer of growth rates that prints a negative rate, in fixed-point form (`-ln 2`, `ln 2`) -/
def exSaNeg : Growth → String
  | .zero => "0.0"
  | .sym r _ => if r < 1 then "0.6931471805599453" else "-0.6931471806"

theorem ex_evG : ∀ e ∈ exEvs, EvG e := by
  intro e he
  simp only [exEvs, List.mem_cons, List.not_mem_nil, or_false] at he
  rcases he with rfl | rfl | rfl | rfl | rfl | rfl
  · exact ⟨rfl, by decide, 0, 2, rfl, by decide, rfl, by decide⟩
  · exact ⟨rfl, by decide, 0, rfl, by decide⟩
  · exact ⟨rfl, by decide, 1/2, rfl, by decide +kernel⟩
  · exact ⟨rfl, by decide, 1, rfl, by decide⟩
  · exact ⟨rfl, by decide, 1, 1/2, rfl, by decide, rfl, by decide +kernel, by decide +kernel⟩
  · exact ⟨rfl, by decide, by decide, 2, rfl, by decide⟩

theorem ex_hdrOK : HdrOK exHdr := by
  refine ⟨by decide, rfl, fun s hs => ?_⟩
  simp only [List.mem_cons, List.not_mem_nil, or_false, or_self] at hs
  subst hs
  exact MsPrint.classify_of_head_ne_minus "0" (by decide)

theorem ex_alphas : alphasOf exEvs = [.sym 2 1, .sym (1/2) 1, .zero] := rfl

theorem ex_alphaOK : AlphaOK exSa exEvs := by
  intro G hG
  rw [ex_alphas] at hG
  simp only [List.mem_cons, List.not_mem_nil, or_false] at hG
  rcases hG with rfl | rfl | rfl
  · exact ⟨⟨2772588722239781 / 10000000000000000, by decide +kernel⟩, rfl⟩
  · exact ⟨⟨2772588722239781 / 10000000000000000, by decide +kernel⟩, rfl⟩
  · exact ⟨⟨0, by decide +kernel⟩, rfl⟩

theorem ex_alphaOK_neg : AlphaOK exSaNeg exEvs := by
  intro G hG
  rw [ex_alphas] at hG
  simp only [List.mem_cons, List.not_mem_nil, or_false] at hG
  rcases hG with rfl | rfl | rfl
  · rw [show exSaNeg (.sym 2 1) = "-0.6931471806" by decide +kernel]
    exact ⟨⟨-6931471806 / 10000000000, by decide +kernel⟩, rfl⟩
  · rw [show exSaNeg (.sym (1/2) 1) = "0.6931471805599453" by decide +kernel]
    exact ⟨⟨6931471805599453 / 10000000000000000, by decide +kernel⟩, rfl⟩
  · exact ⟨⟨0, by decide +kernel⟩, rfl⟩

/-- the hypotheses of `parse_renderV` / `plain_renderV` hold of a concrete command with a header, an
initial size, an initial growth rate, two changes of the growth rate (one to `0`), a split and a join;
the rendered command under the two printers -/
theorem ex_hyps : HdrOK exHdr ∧ (∀ e ∈ exEvs, EvG e) ∧ CodecCovers MsPrint.tableCodec (toksOf exHdr exEvs)
    ∧ AlphaOK exSa exEvs ∧ AlphaOK exSaNeg exEvs
    ∧ renderG MsPrint.tableCodec exSa (toksOf exHdr exEvs)
        = ["-I", "2", "0", "0", "-n", "1", "2.0", "-g", "1", "0.2772588722239781",
           "-eg", "0.5", "2", "0.2772588722239781", "-eg", "1.0", "2", "0.0",
           "-es", "1.0", "1", "0.5", "-ej", "2.0", "2", "1"]
    ∧ renderG MsPrint.tableCodec exSaNeg (toksOf exHdr exEvs)
        = ["-I", "2", "0", "0", "-n", "1", "2.0", "-g", "1", "-0.6931471806",
           "-eg", "0.5", "2", "0.6931471805599453", "-eg", "1.0", "2", "0.0",
           "-es", "1.0", "1", "0.5", "-ej", "2.0", "2", "1"] :=
  ⟨ex_hdrOK, ex_evG, by decide +kernel, ex_alphaOK, ex_alphaOK_neg, by decide +kernel, by decide +kernel⟩

/-- the rationals read off the printed rates -/
theorem ex_growthVal : growthVal exSa (.sym 2 1) = 2772588722239781 / 10000000000000000
    ∧ growthVal exSa .zero = 0
    ∧ growthVal exSaNeg (.sym 2 1) = -6931471806 / 10000000000
    ∧ growthVal exSaNeg (.sym (1/2) 1) = 6931471805599453 / 10000000000000000 := by decide +kernel

/-- what the parser is to read off the example: `-n`, `-g` are initial-state options, the rest events -/
theorem ex_prOfV (gv : Growth → Q) : prOfV gv exHdr exEvs
    = { npop := 2, islandRate := 0,
        initial := [.setSize 0 1 2 false, .setGrowth 0 1 (gv (.sym 2 1))],
        events := [.setGrowth (1/2) 2 (gv (.sym (1/2) 1)), .setGrowth 1 2 (gv .zero), .split 1 1 (1/2), .join 2 2 1],
        sawI := true } := by
  simp [prOfV, exHdr, exEvs, isInitV, cmdOfV, evT, Event.t, numPos_fin]

example : Demes.Spec.MsSem.parse ["-I", "2", "0", "0", "-n", "1", "2.0", "-g", "1", "0.2772588722239781",
    "-eg", "0.5", "2", "0.2772588722239781", "-eg", "1.0", "2", "0.0",
    "-es", "1.0", "1", "0.5", "-ej", "2.0", "2", "1"] = .ok (prOfV (growthVal exSa) exHdr exEvs) := by
  have h := parse_renderV MsPrint.tableCodec exSa exHdr exEvs ex_hyps.1 ex_hyps.2.1 ex_hyps.2.2.1 ex_alphaOK
  rwa [ex_hyps.2.2.2.2.2.1] at h

/-- the command with the negative rate is read back, the rate as `-0.6931471806` -/
example : Demes.Spec.MsSem.parse ["-I", "2", "0", "0", "-n", "1", "2.0", "-g", "1", "-0.6931471806",
    "-eg", "0.5", "2", "0.6931471805599453", "-eg", "1.0", "2", "0.0",
    "-es", "1.0", "1", "0.5", "-ej", "2.0", "2", "1"]
    = .ok { npop := 2, islandRate := 0,
            initial := [.setSize 0 1 2 false, .setGrowth 0 1 (-6931471806 / 10000000000)],
            events := [.setGrowth (1/2) 2 (6931471805599453 / 10000000000000000), .setGrowth 1 2 0,
                       .split 1 1 (1/2), .join 2 2 1],
            sawI := true } := by
  have h := parse_renderV MsPrint.tableCodec exSaNeg exHdr exEvs ex_hyps.1 ex_hyps.2.1 ex_hyps.2.2.1 ex_alphaOK_neg
  have hz : growthVal exSaNeg .zero = 0 := by decide +kernel
  rwa [ex_hyps.2.2.2.2.2.2, ex_prOfV, ex_growthVal.2.2.1, ex_growthVal.2.2.2, hz] at h

/-- … and is a plain command line -/
example : Demes.Spec.C08.PlainTokens ["-I", "2", "0", "0", "-n", "1", "2.0", "-g", "1", "-0.6931471806",
    "-eg", "0.5", "2", "0.6931471805599453", "-eg", "1.0", "2", "0.0",
    "-es", "1.0", "1", "0.5", "-ej", "2.0", "2", "1"] = true := by
  have h := plain_renderV MsPrint.tableCodec exSaNeg exHdr exEvs ex_hyps.1 ex_hyps.2.1 ex_hyps.2.2.1 ex_alphaOK_neg
  rwa [ex_hyps.2.2.2.2.2.2] at h

end Demes.Proofs.MsGrow

#print axioms Demes.Proofs.MsGrow.parse_renderV
#print axioms Demes.Proofs.MsGrow.plain_renderV
