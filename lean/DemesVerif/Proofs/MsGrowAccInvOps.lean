/-
  C09 §8, acceptance with exponential epochs — the moves of one time group.

  Everything `MsAccInvOps.lean` proves (`MsAcc.GroupX` option by option, `MsAcc.stepEvent_groupInvX`,
  `MsAcc.events_groupInvX`, `MsAcc.group_endX`, the facts `MsAcc.groupOps_move`, `MsAcc.groupOps_qpos` about
  `groupOps`) is stated without the fragment: an option that is neither `-es` nor `-ej` goes through the
  generic non-move case (`stepEvent_nonmove`, `groupX_nonmove`), and `-g` / `-eg` is such an option.  So that
  file is reused as it is; here are only the two facts that say so for `setGrowth`, and the readings of
  `fragCmdV`.
-/
import DemesVerif.Proofs.MsGrowAccInvBase
import DemesVerif.Proofs.MsAccInvOps
namespace Demes.Proofs.MsGrow
open Demes Demes.Ms Demes.Spec Demes.Spec.MsSem Demes.Spec.C08 Demes.Proofs.FromMs

/-- `-g` / `-eg` moves no lineage -/
theorem isMove_setGrowth (t : Q) (i : Nat) (a : Q) : isMove (.setGrowth t i a) = false := rfl

/-- `-g` / `-eg` contributes nothing to the moves of the group -/
theorem groupOpsAux_setGrowth (n : Nat) (pend : Option (Nat × Q)) (t : Q) (i : Nat) (a : Q) (rest : List Cmd) :
    groupOpsAux n pend (.setGrowth t i a :: rest) = groupOpsAux n pend rest :=
  groupOpsAux_nonmove n pend _ rest rfl

/-! ## reading `fragCmdV` -/

theorem frag_setSize {t x : Q} {i : Nat} {r : Bool} (h : fragCmdV (.setSize t i x r) = true) : 1 ≤ i ∧ 0 < x := by
  simp only [fragCmdV, Bool.and_eq_true, decide_eq_true_eq] at h
  exact ⟨h.1.2, h.2⟩

theorem frag_setGrowth {t a : Q} {i : Nat} (h : fragCmdV (.setGrowth t i a) = true) : 1 ≤ i := by
  simp only [fragCmdV, Bool.and_eq_true, decide_eq_true_eq] at h
  exact h.2

theorem frag_split {t p : Q} {i : Nat} (h : fragCmdV (.split t i p) = true) : 0 < t ∧ 0 < p ∧ p < 1 := by
  simp only [fragCmdV, Bool.and_eq_true, decide_eq_true_eq] at h
  exact ⟨h.1.1.1, h.1.2, h.2⟩

theorem frag_join {t : Q} {i j : Nat} (h : fragCmdV (.join t i j) = true) : 0 < t ∧ 1 ≤ i := by
  simp only [fragCmdV, Bool.and_eq_true, decide_eq_true_eq] at h
  exact ⟨h.1.1, h.1.2⟩

theorem frag_move_pos {c : Cmd} (h : fragCmdV c = true) (hm : isMove c = true) : 0 < c.t := by
  cases c with
  | split t i p => exact (frag_split h).1
  | join t i j => exact (frag_join h).1
  | _ => cases hm

end Demes.Proofs.MsGrow
