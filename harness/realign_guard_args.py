#!/usr/bin/env python3
"""Bring lean/DemesVerif/Theorems/TablesGuards*.lean in line with regenerated Generated/Guards*.lean after the
canonical names of locals have shifted (a binding was added, removed or moved in the source: DESIGN §4.1), or after
the naming scheme itself changed.

usage: realign_guard_args.py --old DIR [--new DIR] [--theorems DIR] [--dry-run]

  DIR (old): a copy of Generated/ from before the change (e.g. `git show HEAD:lean/DemesVerif/Generated/X.lean`)
  new      : default lean/DemesVerif/Generated of this tree (run harness/extract_tables.py first)

What it does, per group:
  * for every generated definition whose body is the same in both versions up to the names of identifiers, the
    correspondence old parameter -> new parameter is read off the two bodies token by token, and every named argument
    `(old := e)` of an application of that definition in the theorem files becomes `(new := e)`: each expression goes
    to the parameter that stands at the same places of the body, so the statements are unchanged up to the order of
    the arguments;
  * for every generated table (a definition without parameters) that a theorem pins as `Generated.<table> = <literal>`,
    the literal is replaced by the new value.
A definition whose body changed otherwise is reported and left alone: that is a change of the source a human has to
look at (the theorem about it is expected to fail).  Nothing is proved here: `lake build` judges the result, and
`check.py --update-lock` has to be run by hand after reviewing the new statements."""
import argparse
import os
import re
import sys

HERE = os.path.dirname(os.path.abspath(__file__))
VERIF = os.path.dirname(HERE)
GROUPS = {
    "Guards": ["TablesGuards", "TablesGuardsMatrices", "TablesGuardsSizeAt"],
    "GuardsClose": ["TablesGuardsClose"], "GuardsViews": ["TablesGuardsViews"], "GuardsIO": ["TablesGuardsIO"],
    "GuardsRescale": ["TablesGuardsRescale"], "GuardsRename": ["TablesGuardsRename"],
    "GuardsSimplify": ["TablesGuardsSimplify"], "GuardsToMs": ["TablesGuardsToMs"], "GuardsMsBuild": ["TablesGuardsMsBuild"],
}
DOC = re.compile(r"/--.*?-/\n?", re.S)
STR = re.compile(r'"(?:[^"\\]|\\.)*"')
TOK = re.compile(r'"(?:[^"\\]|\\.)*"|[A-Za-z_][A-Za-z0-9_\']*|\S')
IDENT = re.compile(r"[A-Za-z_]")


def defs_of(text):
    """name -> (parameters, type, body)"""
    text = DOC.sub("", text)
    out = {}
    for m in re.finditer(r"^def (\w+)(.*?)\n(?=\n|def |end |/--|\Z)", text, re.S | re.M):
        head, _, body = m.group(2).partition(":=")
        params = re.findall(r"\((\w+) : ", re.sub(r"\{[^}]*\}", "", head))
        out[m.group(1)] = (params, head, body.strip())
    return out


def ident_map(old, new):
    (po, _ho, bo), (pn, _hn, bn) = old, new
    to, tn = TOK.findall(bo), TOK.findall(bn)
    if len(to) != len(tn):
        return None
    m = {}
    for a, b in zip(to, tn):
        if a in po or b in pn:
            if m.setdefault(a, b) != b:
                return None
        elif a != b and not (IDENT.match(a) and IDENT.match(b)):
            return None
    if any(p not in m for p in po) or sorted(m[p] for p in po) != sorted(pn):
        return None
    return {p: m[p] for p in po}


def skip_group(s, i):
    """index just after the bracketed group that starts at s[i]"""
    d = 0
    while i < len(s):
        ch = s[i]
        if ch == '"':
            i = STR.match(s, i).end()
            continue
        if ch in "([":
            d += 1
        elif ch in ")]":
            d -= 1
            if d == 0:
                return i + 1
        i += 1
    raise SystemExit("unbalanced brackets")


def rename_named_args(s, maps):
    if not maps:
        return s, 0
    pat = re.compile(r"(?<![A-Za-z0-9_.])(?:Generated\.)?(" + "|".join(sorted(map(re.escape, maps), key=len, reverse=True))
                     + r")(?![A-Za-z0-9_'])")
    arg = re.compile(r"(\s*)\((\w+)( :=)")
    out, i, n = [], 0, 0
    while True:
        m = pat.search(s, i)
        if m is None:
            out.append(s[i:])
            break
        out.append(s[i:m.end()])
        i = m.end()
        mp = maps[m.group(1)]
        while True:
            a = arg.match(s, i)
            if a is None:
                break
            end = skip_group(s, a.start() + len(a.group(1)))
            inner, k = rename_named_args(s[a.end():end], maps)
            nm = a.group(2)
            n += k + (1 if mp.get(nm, nm) != nm else 0)
            out.append(a.group(1) + "(" + mp.get(nm, nm) + a.group(3) + inner)
            i = end
    return "".join(out), n


def replace_tables(s, tables):
    n = 0
    for name, value in tables.items():
        for m in list(re.finditer(r"Generated\." + re.escape(name) + r"\s*=\s*(?=[\[(])", s))[::-1]:
            end = skip_group(s, m.end())
            lit = re.sub(r"\n\s*", "\n     ", value)
            if re.sub(r"\s+", "", s[m.end():end]) != re.sub(r"\s+", "", lit):
                s = s[:m.end()] + ("\n    " if "\n" in lit else "") + lit + s[end:]
                n += 1
    return s, n


def main():
    ap = argparse.ArgumentParser()
    ap.add_argument("--old", required=True)
    ap.add_argument("--new", default=os.path.join(VERIF, "lean", "DemesVerif", "Generated"))
    ap.add_argument("--theorems", default=os.path.join(VERIF, "lean", "DemesVerif", "Theorems"))
    ap.add_argument("--dry-run", action="store_true")
    args = ap.parse_args()
    for group, files in GROUPS.items():
        po, pn = os.path.join(args.old, group + ".lean"), os.path.join(args.new, group + ".lean")
        if not (os.path.exists(po) and os.path.exists(pn)):
            print(f"{group}: missing generated file, skipped")
            continue
        do, dn = defs_of(open(po, encoding="utf-8").read()), defs_of(open(pn, encoding="utf-8").read())
        maps, tables = {}, {}
        for name, d in dn.items():
            if name not in do:
                print(f"{group}: {name} is new")
                continue
            if d[0] or do[name][0]:
                m = ident_map(do[name], d)
                if m is None:
                    print(f"{group}: the body of {name} changed (not only its names): left alone")
                elif any(a != b for a, b in m.items()):
                    maps[name] = m
            elif do[name][2] != d[2]:
                tables[name] = d[2]
        for name in do:
            if name not in dn:
                print(f"{group}: {name} disappeared")
        for f in files:
            path = os.path.join(args.theorems, f + ".lean")
            s = open(path, encoding="utf-8").read()
            s2, n = rename_named_args(s, maps)
            s3, k = replace_tables(s2, tables)
            print(f"{f}: {n} named arguments renamed, {k} pinned tables replaced")
            if not args.dry_run and s3 != s:
                open(path, "w", encoding="utf-8").write(s3)
    return 0


if __name__ == "__main__":
    sys.exit(main())
