/-
  C07 — sparse rows of the lineage-movement matrices (`Spec.MsSem.Row`): reading, writing, and
  the canonical form.
-/
import DemesVerif.Spec.MsSem
import DemesVerif.Proofs.ToMsSort
set_option linter.unusedSimpArgs false
set_option linter.unusedVariables false
namespace Demes.Proofs.ToMs
open Demes Demes.Ms
open Demes.Spec.MsSem

/-! ### `get` after `set` / `add` -/

theorem lookup_cons' (k a : Nat) (x : Q) (r : Row) :
    List.lookup k ((a, x) :: r) = if k = a then some x else r.lookup k := by
  by_cases h : k = a
  · subst h; simp [List.lookup]
  · have : (k == a) = false := by simp [h]
    simp [List.lookup, this, h]

theorem lookup_map_set (k : Nat) (v : Q) (k' : Nat) : ∀ r : Row,
    (r.map (fun e => if e.1 = k then (k, v) else e)).lookup k'
      = if k' = k then (if r.any (fun e => e.1 = k) then some v else none) else r.lookup k'
  | [] => by simp
  | (a, x) :: r => by
    have ih := lookup_map_set k v k' r
    simp only [List.map_cons, List.any_cons]
    by_cases hak : a = k
    · subst hak
      simp only [if_true, lookup_cons', decide_true, Bool.true_or]
      by_cases hk : k' = a
      · simp [hk]
      · simp only [hk, if_false] at ih ⊢
        exact ih
    · simp only [hak, if_false, lookup_cons', decide_false, Bool.false_or]
      by_cases hk : k' = k
      · have hka : ¬ k' = a := fun h => hak (by rw [← h, hk])
        simp only [hk, if_true] at ih ⊢
        have hka' : ¬ k = a := fun h => hak h.symm
        simp only [hka', if_false]
        exact ih
      · simp only [hk, if_false] at ih ⊢
        rw [ih]

theorem lookup_none_of_not_any {r : Row} {k : Nat} (h : r.any (fun e => e.1 = k) = false) : r.lookup k = none := by
  induction r with
  | nil => rfl
  | cons a r ih =>
    obtain ⟨a1, a2⟩ := a
    simp only [List.any_cons, Bool.or_eq_false_iff, decide_eq_false_iff_not] at h
    rw [lookup_cons', if_neg (fun h' => h.1 h'.symm)]
    exact ih h.2

theorem lookup_append' (r s : Row) (k : Nat) : (r ++ s).lookup k = (r.lookup k).or (s.lookup k) := by
  induction r with
  | nil => simp
  | cons a r ih =>
    obtain ⟨a1, a2⟩ := a
    rw [List.cons_append, lookup_cons', lookup_cons']
    by_cases h : k = a1
    · simp [h]
    · simp [h, ih]

theorem get_set (r : Row) (k : Nat) (v : Q) (k' : Nat) : (r.set k v).get k' = if k' = k then v else r.get k' := by
  unfold Row.set Row.get
  by_cases hany : r.any (fun e => e.1 = k) = true
  · simp only [hany, if_true, lookup_map_set]
    by_cases hk : k' = k <;> simp [hk]
  · have hany' : r.any (fun e => e.1 = k) = false := Bool.eq_false_iff.2 hany
    simp only [hany', Bool.false_eq_true, if_false, lookup_append']
    by_cases hk : k' = k
    · subst hk
      simp [lookup_none_of_not_any hany', lookup_cons']
    · simp [hk, lookup_cons']

theorem get_add (r : Row) (k : Nat) (v : Q) (k' : Nat) :
    (r.add k v).get k' = if k' = k then r.get k + v else r.get k' := by
  unfold Row.add; rw [get_set]

/-! ### distinct keys -/

def Keys (r : Row) : List Nat := r.map (·.1)

theorem keys_set (r : Row) (k : Nat) (v : Q) (h : (Keys r).Nodup) : (Keys (r.set k v)).Nodup := by
  unfold Row.set
  by_cases hany : r.any (fun e => e.1 = k) = true
  · simp only [hany, if_true]
    have : Keys (r.map (fun e => if e.1 = k then (k, v) else e)) = Keys r := by
      unfold Keys
      rw [List.map_map]
      apply List.map_congr_left
      intro e _
      simp only [Function.comp]
      split
      · rename_i h; exact h.symm
      · rfl
    rw [this]; exact h
  · have hany' : r.any (fun e => e.1 = k) = false := Bool.eq_false_iff.2 hany
    simp only [hany', Bool.false_eq_true, if_false]
    unfold Keys at h ⊢
    rw [List.map_append, List.nodup_append]
    refine ⟨h, by simp, ?_⟩
    intro a ha b hb
    simp only [List.map_cons, List.map_nil, List.mem_singleton] at hb
    subst hb
    obtain ⟨e, he, rfl⟩ := List.mem_map.1 ha
    intro heq
    have := List.any_eq_false.1 hany' e he
    simp [heq] at this

theorem keys_add (r : Row) (k : Nat) (v : Q) (h : (Keys r).Nodup) : (Keys (r.add k v)).Nodup := keys_set r k _ h

theorem mem_iff_lookup {r : Row} (h : (Keys r).Nodup) {k : Nat} {v : Q} : (k, v) ∈ r ↔ r.lookup k = some v := by
  induction r with
  | nil => simp
  | cons a r ih =>
    obtain ⟨a1, a2⟩ := a
    unfold Keys at h
    simp only [List.map_cons, List.nodup_cons] at h
    simp only [List.mem_cons, lookup_cons', Prod.mk.injEq]
    by_cases hk : k = a1
    · subst hk
      simp only [true_and, if_true, Option.some.injEq]
      constructor
      · rintro (h1 | h1)
        · exact h1.symm
        · exact absurd (List.mem_map.2 ⟨(k, v), h1, rfl⟩) h.1
      · intro h1; exact Or.inl h1.symm
    · simp only [hk, false_and, false_or, if_false]
      exact ih h.2

/-! ### the canonical form of a row -/

def leK {β} (a b : Nat × β) : Bool := decide (a.1 ≤ b.1)

theorem insertKey_eq {β} (x : Nat × β) : ∀ l, insertKey x l = insertBy leK x l
  | [] => rfl
  | y :: ys => by
    simp only [insertKey, insertBy, leK, decide_eq_true_eq]
    split
    · rfl
    · rw [insertKey_eq x ys]

theorem sortKey_eq {β} (l : List (Nat × β)) : sortKey l = sortBy leK l := by
  induction l with
  | nil => rfl
  | cons x l ih => simp only [sortKey, List.foldr_cons] at ih ⊢; rw [ih, insertKey_eq]; rfl

theorem totalPre_leK {β} : TotalPre (leK (β := β)) where
  total a b := by simp only [leK, decide_eq_true_eq]; omega
  trans a b c h1 h2 := by simp only [leK, decide_eq_true_eq] at *; omega

def canonRow (r : Row) : List (Nat × Q) := sortKey (r.filter (fun e => e.2 ≠ 0))

theorem mem_canonRow {r : Row} (h : (Keys r).Nodup) {x : Nat × Q} : x ∈ canonRow r ↔ r.get x.1 = x.2 ∧ x.2 ≠ 0 := by
  unfold canonRow
  rw [sortKey_eq, mem_sortBy, List.mem_filter]
  simp only [ne_eq, decide_not, Bool.not_eq_true', decide_eq_false_iff_not]
  constructor
  · rintro ⟨hx, hne⟩
    have := (mem_iff_lookup h (k := x.1) (v := x.2)).1 hx
    exact ⟨by simp [Row.get, this], hne⟩
  · rintro ⟨hg, hne⟩
    refine ⟨?_, hne⟩
    apply (mem_iff_lookup h (k := x.1) (v := x.2)).2
    unfold Row.get at hg
    cases hl : r.lookup x.1 with
    | none => rw [hl] at hg; simp at hg; exact absurd hg.symm hne
    | some v => rw [hl] at hg; simp at hg; rw [hg]

theorem sorted_strict_ext {β} : ∀ (l1 l2 : List (Nat × β)), l1.Pairwise (fun a b => a.1 < b.1) →
    l2.Pairwise (fun a b => a.1 < b.1) → (∀ x, x ∈ l1 ↔ x ∈ l2) → l1 = l2
  | [], [], _, _, _ => rfl
  | [], y :: ys, _, _, h => by have := (h y).2 List.mem_cons_self; cases this
  | x :: xs, [], _, _, h => by have := (h x).1 List.mem_cons_self; cases this
  | x :: xs, y :: ys, h1, h2, h => by
    have hx := List.pairwise_cons.1 h1
    have hy := List.pairwise_cons.1 h2
    have hxy : x = y := by
      have hx' := (h x).1 List.mem_cons_self
      have hy' := (h y).2 List.mem_cons_self
      rcases List.mem_cons.1 hx' with h' | h'
      · exact h'
      · rcases List.mem_cons.1 hy' with h'' | h''
        · exact h''.symm
        · have := hy.1 x h'
          have := hx.1 y h''
          omega
    subst hxy
    congr 1
    apply sorted_strict_ext xs ys hx.2 hy.2
    intro z
    constructor
    · intro hz
      rcases List.mem_cons.1 ((h z).1 (List.mem_cons_of_mem _ hz)) with h' | h'
      · subst h'; have := hx.1 z hz; omega
      · exact h'
    · intro hz
      rcases List.mem_cons.1 ((h z).2 (List.mem_cons_of_mem _ hz)) with h' | h'
      · subst h'; have := hy.1 z hz; omega
      · exact h'

theorem canonRow_sorted {r : Row} (h : (Keys r).Nodup) : (canonRow r).Pairwise (fun a b => a.1 < b.1) := by
  unfold canonRow
  rw [sortKey_eq]
  have hs := sorted_sortBy (totalPre_leK (β := Q)) (r.filter (fun e => e.2 ≠ 0))
  have hnd : ((sortBy leK (r.filter (fun e => e.2 ≠ 0))).map (·.1)).Nodup := by
    have hp := (sortBy_perm leK (r.filter (fun e => e.2 ≠ 0))).map (·.1)
    rw [hp.nodup_iff]
    exact (List.Sublist.map _ (List.filter_sublist)).nodup h
  unfold List.Nodup at hnd
  rw [List.pairwise_map] at hnd
  refine (hs.and hnd).imp ?_
  intro a b ⟨h1, h2⟩
  simp only [leK, decide_eq_true_eq] at h1
  omega

/-- rows with distinct keys that read the same have the same canonical form -/
theorem canonRow_ext {r r' : Row} (h : (Keys r).Nodup) (h' : (Keys r').Nodup) (hg : ∀ k, r.get k = r'.get k) :
    canonRow r = canonRow r' := by
  apply sorted_strict_ext _ _ (canonRow_sorted h) (canonRow_sorted h')
  intro x
  rw [mem_canonRow h, mem_canonRow h', hg]

theorem canonRow_identity {r : Row} (h : (Keys r).Nodup) {i : Nat} (hg : ∀ k, r.get k = if k = i then 1 else 0) :
    canonRow r = [(i, 1)] := by
  have h1 : canonRow [(i, (1 : Q))] = [(i, 1)] := by
    simp [canonRow, sortKey, insertKey]
  rw [← h1]
  apply canonRow_ext h (by simp [Keys])
  intro k
  rw [hg]
  simp only [Row.get, lookup_cons', List.lookup_nil]
  by_cases hk : k = i
  · simp [hk]
  · simp [hk]

end Demes.Proofs.ToMs
