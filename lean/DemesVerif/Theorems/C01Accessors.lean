/-
  C01 (and C15) — the read accessors of a graph the library hands out behave as the data model says.

  `Model/Accessors.lean` mirrors `Epoch.time_span`, `Deme.end_time`, `Deme.time_span`, `Graph.__getitem__`
  and `Graph.__contains__` (`Epoch.timeSpan`, `Deme.endTimeAcc`, `Deme.timeSpan`, `Graph.getItem`,
  `Graph.contains`), errors included (`IndexError` for a deme without epochs, `KeyError` for an unknown
  name).  On a valid graph (`Spec.validGraph`, which every returned graph satisfies: `resolve_valid`):

  * `graph[n]` succeeds exactly for the names of the graph's demes and returns THE deme of that name, found at
    the position the name index records; otherwise it is `KeyError(n)`; `n in graph` is the same test;
  * `deme.end_time` succeeds, is the end of the last epoch (the Model's total `Deme.endTime`), finite and ≥ 0;
  * `deme.time_span = start_time − end_time` is > 0, and infinite exactly for the demes without ancestors;
  * every epoch's `time_span` is > 0 and the epochs' spans add up to the deme's;
  * after `rename_demes` lookups by the new names succeed and by replaced old names fail.
-/
import DemesVerif.Proofs.Accessors
import DemesVerif.Proofs.ResolveValid
namespace Demes.Theorems
open Demes Demes.Spec
open Demes.Proofs.Accessors (spanSum)

/-! ### the accessors and the total forms used by the rest of the Model -/

/-- `graph[n]` returns `d` exactly when the Model's total lookup `Graph.deme?` finds `d` (any graph) -/
theorem getItem_ok_iff_deme? (g : Graph) (n : String) (d : Deme) :
    Graph.getItem g n = .ok d ↔ g.deme? n = some d :=
  Proofs.Accessors.getItem_ok_iff g n d

/-- `n in graph` is the Model's `Graph.hasName` (any graph) -/
theorem contains_eq_hasName (g : Graph) (n : String) : Graph.contains g n = g.hasName n :=
  Proofs.Accessors.contains_eq_hasName g n

/-- a name that is not a key of the index: `KeyError` carrying that name (any graph) -/
theorem getItem_keyError_of_not_contains (g : Graph) (n : String) (h : Graph.contains g n = false) :
    Graph.getItem g n = keyErr n :=
  Proofs.Accessors.getItem_keyErr_of_not_contains g n h

/-- `Deme.end_time` on a deme with an epoch is the Model's total `Deme.endTime`; without epochs it is `IndexError` -/
theorem endTimeAcc_eq_endTime (d : Deme) :
    (d.epochs ≠ [] → d.endTimeAcc = .ok d.endTime)
      ∧ (d.epochs = [] → d.endTimeAcc = indexErr "list index out of range" ∧ d.timeSpan = indexErr "list index out of range") := by
  refine ⟨Proofs.Accessors.endTimeAcc_eq d, fun h => ?_⟩
  have h1 := Proofs.Accessors.endTimeAcc_nil d h
  refine ⟨h1, ?_⟩
  unfold Deme.timeSpan; rw [h1]; rfl

/-! ### lookups on a valid graph -/

/-- `graph[n]` returns `d` exactly when `d` is a deme of the graph and `n` is its name -/
theorem valid_getItem_iff (g : Graph) (hv : validGraph g = true) (n : String) (d : Deme) :
    Graph.getItem g n = .ok d ↔ d ∈ g.demes ∧ d.name = n :=
  Proofs.Accessors.getItem_eq_iff g hv n d

/-- `graph[n]` succeeds exactly for the names of the graph's demes -/
theorem valid_getItem_succeeds_iff (g : Graph) (hv : validGraph g = true) (n : String) :
    (∃ d, Graph.getItem g n = .ok d) ↔ n ∈ g.demes.map (·.name) :=
  Proofs.Accessors.getItem_succeeds_iff g hv n

/-- … and raises `KeyError(n)` for every other string -/
theorem valid_getItem_keyError (g : Graph) (hv : validGraph g = true) {n : String}
    (h : n ∉ g.demes.map (·.name)) : Graph.getItem g n = keyErr n :=
  Proofs.Accessors.getItem_keyError g hv h

/-- there is only one deme of a given name (V1), so `graph[n]` is THE deme called `n` -/
theorem valid_deme_unique (g : Graph) (hv : validGraph g = true) {d e : Deme} (hd : d ∈ g.demes)
    (he : e ∈ g.demes) (hn : d.name = e.name) : d = e :=
  Proofs.Accessors.deme_unique g hv hd he hn

/-- the deme at position `i` is found under its name, and the index records position `i` for that name (V0) -/
theorem valid_getItem_position (g : Graph) (hv : validGraph g = true) {i : Nat} {d : Deme}
    (hi : g.demes[i]? = some d) : g.indexLookup d.name = some i ∧ Graph.getItem g d.name = .ok d :=
  Proofs.Accessors.index_position g hv hi

/-- `n in graph` holds exactly for the names of the graph's demes -/
theorem valid_contains_iff (g : Graph) (hv : validGraph g = true) (n : String) :
    Graph.contains g n = true ↔ n ∈ g.demes.map (·.name) :=
  Proofs.Accessors.contains_iff g hv n

/-! ### end times and time spans on a valid graph -/

/-- `deme.end_time` succeeds with the Model's `Deme.endTime`, which is the end time of the last epoch, a
(finite) rational ≥ 0 (V5, V7) -/
theorem valid_endTime (g : Graph) (hv : validGraph g = true) {d : Deme} (hd : d ∈ g.demes) :
    d.endTimeAcc = .ok d.endTime ∧ 0 ≤ d.endTime
      ∧ ∃ l, d.epochs.getLast? = some l ∧ d.endTime = l.endTime :=
  Proofs.Accessors.valid_endTime g hv hd

/-- `deme.time_span` succeeds with `start_time − end_time`, which is > 0, and is infinite exactly for the demes
without ancestors (V3, V5) -/
theorem valid_timeSpan (g : Graph) (hv : validGraph g = true) {d : Deme} (hd : d ∈ g.demes) :
    d.timeSpan = .ok (d.startTime.subQ d.endTime) ∧ ETime.fin 0 < d.startTime.subQ d.endTime
      ∧ ((d.startTime.subQ d.endTime).isInf = d.ancestors.isEmpty) :=
  Proofs.Accessors.valid_timeSpan g hv hd

/-- every epoch's `time_span` is > 0 -/
theorem valid_epoch_timeSpan_pos (g : Graph) (hv : validGraph g = true) {d : Deme} (hd : d ∈ g.demes)
    {e : Epoch} (he : e ∈ d.epochs) : ETime.fin 0 < e.timeSpan :=
  Proofs.Accessors.valid_epoch_timeSpan g hv hd he

/-- the epochs' time spans add up (float `+`: `inf + x = inf`) to the deme's time span -/
theorem valid_timeSpan_sum (g : Graph) (hv : validGraph g = true) {d : Deme} (hd : d ∈ g.demes) :
    d.timeSpan = .ok (spanSum d.epochs) :=
  Proofs.Accessors.valid_spanSum g hv hd

/-- the finite case in rationals: a deme starting at `s` has epochs whose spans add up to `s − end_time` -/
theorem valid_timeSpan_sum_fin (g : Graph) (hv : validGraph g = true) {d : Deme} (hd : d ∈ g.demes) {s : Q}
    (hs : d.startTime = .fin s) : spanSum d.epochs = .fin (s - d.endTime) :=
  Proofs.Accessors.valid_spanSum_fin g hv hd hs

/-- all of it for the graphs the resolver returns -/
theorem resolve_accessors (doc : Value) (g : Graph) (h : resolve doc = .ok g) :
    (∀ n, Graph.contains g n = true ↔ n ∈ g.demes.map (·.name))
      ∧ (∀ n d, Graph.getItem g n = .ok d ↔ d ∈ g.demes ∧ d.name = n)
      ∧ (∀ d ∈ g.demes, d.endTimeAcc = .ok d.endTime ∧ 0 ≤ d.endTime
          ∧ d.timeSpan = .ok (d.startTime.subQ d.endTime) ∧ ETime.fin 0 < d.startTime.subQ d.endTime
          ∧ d.timeSpan = .ok (spanSum d.epochs)) := by
  have hv := Proofs.resolve_valid doc g h
  exact ⟨fun n => Proofs.Accessors.contains_iff g hv n, fun n d => Proofs.Accessors.getItem_eq_iff g hv n d,
    fun d hd => ⟨(Proofs.Accessors.valid_endTime g hv hd).1, (Proofs.Accessors.valid_endTime g hv hd).2.1,
      (Proofs.Accessors.valid_timeSpan g hv hd).1, (Proofs.Accessors.valid_timeSpan g hv hd).2.1,
      Proofs.Accessors.valid_spanSum g hv hd⟩⟩

/-! ### after `rename_demes` (C15) -/

/-- lookup by a NEW name returns the renamed deme, and the new name is in the graph -/
theorem rename_getItem (g : Graph) (r : Renaming) (hr : RenameOK g r) {d : Deme} (hd : d ∈ g.demes) :
    Graph.getItem (renameDemes g r) (r.apply d.name) = .ok (renamedDeme r d)
      ∧ Graph.contains (renameDemes g r) (r.apply d.name) = true :=
  Proofs.Accessors.rename_getItem g r hr hd

/-- `n in graph` after renaming holds exactly for the new names -/
theorem rename_contains (g : Graph) (r : Renaming) (hr : RenameOK g r) (x : String) :
    Graph.contains (renameDemes g r) x = true ↔ ∃ d ∈ g.demes, x = r.apply d.name :=
  Proofs.Accessors.rename_contains g r hr x

/-- an old name that was renamed away and is not reused as a new name: `KeyError`, and not in the graph -/
theorem rename_getItem_old_name_gone (g : Graph) (r : Renaming) (hr : RenameOK g r) {n : String}
    (hk : n ∈ r.map (·.1)) (hv : n ∉ r.map (·.2)) :
    Graph.getItem (renameDemes g r) n = keyErr n ∧ Graph.contains (renameDemes g r) n = false :=
  Proofs.Accessors.rename_getItem_old_gone g r hr hk hv

/-- a name used neither by the original graph nor as a new name: `KeyError`, and not in the graph -/
theorem rename_getItem_unused_name (g : Graph) (r : Renaming) (hr : RenameOK g r) {x : String}
    (hn : x ∉ g.demes.map (·.name)) (hv : x ∉ r.map (·.2)) :
    Graph.getItem (renameDemes g r) x = keyErr x ∧ Graph.contains (renameDemes g r) x = false :=
  Proofs.Accessors.rename_getItem_unused g r hr hn hv

/-! ### non-vacuity -/

section
/-- A (∞,0] in two epochs; B (40,5] in three epochs, branching from A -/
def accGraph : Graph :=
  { description := "", timeUnits := "generations", generationTime := 1, doi := [], metadata := [],
    demes := [
      { name := "A", description := "", startTime := .inf, ancestors := [], proportions := [],
        epochs := [Proofs.exEpoch .inf 50, Proofs.exEpoch (.fin 50) 0] },
      { name := "B", description := "", startTime := .fin 40, ancestors := ["A"], proportions := [1],
        epochs := [Proofs.exEpoch (.fin 40) 30, Proofs.exEpoch (.fin 30) 20, Proofs.exEpoch (.fin 20) 5] }],
    migrations := [{ source := "A", dest := "B", startTime := .fin 40, endTime := 10, rate := 1/4 }],
    pulses := [{ sources := ["A"], dest := "B", time := 8, proportions := [1/2] }],
    index := [("A", 0), ("B", 1)] }

example : validGraph accGraph = true := by decide +kernel

/-- the accessors on it: lookups, membership (also of "" and of a non-ASCII string), end times, spans -/
example :
    (accGraph.demes.map (fun d => (Graph.getItem accGraph d.name).toOption == some d)) = [true, true]
    ∧ (["A", "B", "C", "", "δ"].map (Graph.contains accGraph)) = [true, true, false, false, false]
    ∧ ((Graph.getItem accGraph "C").toOption.isSome, (Graph.getItem accGraph "").toOption.isSome) = (false, false)
    ∧ accGraph.demes.map (fun d => d.endTimeAcc.toOption) = [some 0, some 5]
    ∧ accGraph.demes.map (fun d => d.timeSpan.toOption) = [some .inf, some (.fin 35)]
    ∧ accGraph.demes.map (fun d => d.epochs.map Epoch.timeSpan) = [[.inf, .fin 50], [.fin 10, .fin 10, .fin 15]]
    ∧ accGraph.demes.map (fun d => spanSum d.epochs) = [.inf, .fin 35] := by decide +kernel

/-- a deme without epochs (never handed out): both properties raise -/
example : (({ name := "X", description := "", startTime := .inf, ancestors := [], proportions := [], epochs := [] } : Deme).endTimeAcc.toOption,
    ({ name := "X", description := "", startTime := .inf, ancestors := [], proportions := [], epochs := [] } : Deme).timeSpan.toOption)
    = (none, none) := by decide +kernel

/-- a graph whose index is NOT the exact one (V0 fails): `graph["B"]` returns the deme named "A" — the
hypothesis `validGraph` of `valid_getItem_iff` is needed -/
example : validGraph { accGraph with index := [("A", 0), ("B", 0)] } = false
    ∧ ((Graph.getItem { accGraph with index := [("A", 0), ("B", 0)] } "B").toOption.map (·.name)) = some "A" := by
  decide +kernel

/-- renaming "C" to "D" on a three-deme graph meets the hypotheses of the `rename_*` theorems: the new name is
found, the replaced old name "C" is gone, the other names stay -/
example : RenameOK Proofs.exampleGraph3 [("C", "D")]
    ∧ (["A", "B", "C", "D"].map (Graph.contains (renameDemes Proofs.exampleGraph3 [("C", "D")]))) = [true, true, false, true]
    ∧ (["A", "B", "C", "D"].map (fun n => (Graph.getItem (renameDemes Proofs.exampleGraph3 [("C", "D")]) n).toOption.map (·.name)))
        = [some "A", some "B", none, some "D"] := by decide +kernel
end

end Demes.Theorems
