/-
  Vocabulary of the translator (harness/extract_tables.py, group "GuardsRecords"): what `len(set(xs))`
  means on a list of names.  Nothing of the Model proper depends on this file; the generated file and
  `Theorems/TablesGuardsRecords.lean` do.
-/
namespace Demes

/-- Python's `len(set(xs))`: the number of distinct members (an element counts at its last occurrence) -/
def pySetLen : List String → Nat
  | [] => 0
  | x :: xs => if xs.contains x then pySetLen xs else pySetLen xs + 1

end Demes
