/-
  Proofs for C03, part 3 — the migration loop of `Graph.fromdict` against the Spec's
  `fillMigration`: each iteration the Model accepts appends exactly the migrations the Spec
  prescribes for the entry (soundness), and an entry whose prescribed migrations each pass the
  checks `MigOk` against the graph holding the ones before is accepted (completeness).
-/
import DemesVerif.Proofs.AcceptsBasic
import DemesVerif.Proofs.AcceptsMigStep
namespace Demes.Proofs.Accepts
open Demes Demes.Obj Demes.Spec

/-! ### the expansion of a symmetric migration on mapped names -/

theorem specSymmetricExpansion_map {α β} (f : α → β) (xs : List α) :
    specSymmetricExpansion (xs.map f) = (specSymmetricExpansion xs).map (fun p => (f p.1, f p.2)) := by
  unfold specSymmetricExpansion
  rw [List.map_flatMap, List.length_map]
  apply Proofs.flatMap_congr'
  intro i _
  rw [List.map_filterMap]
  apply Proofs.filterMap_congr'
  intro j _
  by_cases hij : i = j
  · simp [hij]
  · simp only [ne_eq, hij, not_false_eq_true, if_true, List.getElem?_map]
    cases xs[i]? <;> cases xs[j]? <;> rfl

/-- with two names or more, every name is the first component of some ordered pair -/
theorem mem_fst_specSymmetricExpansion {α} {xs : List α} (hlen : 2 ≤ xs.length) {x : α} (hx : x ∈ xs) :
    ∃ p ∈ specSymmetricExpansion xs, p.1 = x := by
  obtain ⟨i, hi, rfl⟩ := List.getElem_of_mem hx
  have hj : ∃ j, j < xs.length ∧ i ≠ j := by
    by_cases h0 : i = 0
    · exact ⟨1, by omega, by omega⟩
    · exact ⟨0, by omega, h0⟩
  obtain ⟨j, hj, hij⟩ := hj
  refine ⟨(xs[i], xs[j]), ?_, rfl⟩
  simp only [specSymmetricExpansion, List.mem_flatMap, List.mem_filterMap, List.mem_range]
  refine ⟨i, hi, j, hj, ?_⟩
  rw [List.getElem?_eq_getElem hi, List.getElem?_eq_getElem hj]
  simp [hij]

theorem exists_strs : ∀ xs : List Value, (∀ x ∈ xs, ∃ s, x = Value.str s) →
    ∃ names : List String, xs = names.map Value.str
  | [], _ => ⟨[], rfl⟩
  | x :: xs, h => by
    obtain ⟨s, rfl⟩ := h x List.mem_cons_self
    obtain ⟨names, rfl⟩ := exists_strs xs (fun y hy => h y (List.mem_cons_of_mem _ hy))
    exact ⟨s :: names, rfl⟩

/-! ### the fold over the ordered pairs -/

/-- the pairs of a successful fold are pairs of strings, and if there is one the rate is a finite
number -/
theorem foldAsym_strs {rateV : Value} {stV etV : Option Value} :
    ∀ (ps : List (Value × Value)) (g g' : Graph),
      ps.foldlM (fun g (sd : Value × Value) => addAsymmetricMigration g sd.1 sd.2 rateV stV etV) g = .ok g' →
      (∀ p ∈ ps, ∃ s, p.1 = Value.str s) ∧ (ps ≠ [] → ∃ rate, finOf rateV = some rate) := by
  intro ps
  induction ps with
  | nil => intro g g' _; exact ⟨fun p hp => (by cases hp), fun h => (h rfl).elim⟩
  | cons p ps ih =>
    intro g g' h
    rw [List.foldlM_cons] at h
    obtain ⟨g1, h1, h⟩ := Proofs.bind_ok h
    obtain ⟨s, d, mg, rate, hs, hd, hr, _, _⟩ := addAsymmetricMigration_fill h1
    refine ⟨?_, fun _ => ⟨rate, hr⟩⟩
    intro q hq
    rcases List.mem_cons.1 hq with rfl | hq
    · exact ⟨s, hs⟩
    · exact (ih g1 g' h).1 q hq

/-- soundness of the fold over pairs of names -/
theorem foldAsym_fill {rateV : Value} {stV etV : Option Value} {rate : Q} (hr : finOf rateV = some rate) :
    ∀ (qs : List (String × String)) (g g' : Graph),
      (qs.map (fun p => (Value.str p.1, Value.str p.2))).foldlM
        (fun g (sd : Value × Value) => addAsymmetricMigration g sd.1 sd.2 rateV stV etV) g = .ok g' →
      ∃ ms, mapOpt (fillMigrationPair g rate stV etV) qs = some ms ∧
        g' = { g with migrations := g.migrations ++ ms } := by
  intro qs
  induction qs with
  | nil =>
    intro g g' h
    cases h
    exact ⟨[], rfl, by simp⟩
  | cons q qs ih =>
    intro g g' h
    rw [List.map_cons, List.foldlM_cons] at h
    obtain ⟨g1, h1, h⟩ := Proofs.bind_ok h
    obtain ⟨s, d, mg, rate', hs, hd, hr', hf, rfl⟩ := addAsymmetricMigration_fill h1
    rw [hr] at hr'
    cases hr'
    cases hs
    cases hd
    obtain ⟨ms, hms, rfl⟩ := ih _ g' h
    rw [funext (fillMigrationPair_congr (G := g) (G' := { g with migrations := g.migrations ++ [mg] })
      rfl rfl rate stV etV)] at hms
    refine ⟨mg :: ms, mapOpt_cons_some.2 ⟨mg, ms, hf, hms, rfl⟩, ?_⟩
    simp only [List.append_assoc, List.singleton_append]

/-- completeness of the fold over pairs of names -/
theorem foldAsym_complete {rateV : Value} {stV etV : Option Value} {rate : Q} (hr : finOf rateV = some rate) :
    ∀ (qs : List (String × String)) (ms : List Migration) (g : Graph),
      mapOpt (fillMigrationPair g rate stV etV) qs = some ms →
      (∀ pre mg post, ms = pre ++ mg :: post →
        ∃ s d, Asdict.MigOk { g with migrations := g.migrations ++ pre } mg s d) →
      (qs.map (fun p => (Value.str p.1, Value.str p.2))).foldlM
        (fun g (sd : Value × Value) => addAsymmetricMigration g sd.1 sd.2 rateV stV etV) g
          = .ok { g with migrations := g.migrations ++ ms } := by
  intro qs
  induction qs with
  | nil =>
    intro ms g h _
    cases h
    simp only [List.map_nil, List.foldlM_nil, List.append_nil]
    rfl
  | cons q qs ih =>
    intro ms g h hok
    obtain ⟨mg, ms', hf, hms, rfl⟩ := mapOpt_cons_some.1 h
    obtain ⟨s, d, hmg⟩ := hok [] mg ms' rfl
    have hmg' : Asdict.MigOk g mg s d := migOk_congr hmg rfl rfl (by simp)
    obtain ⟨e1, e2, e3⟩ := fillMigrationPair_fields hf
    have hf' : fillMigrationPair g mg.rate stV etV (mg.source, mg.dest) = some mg := by
      rw [e1, e2, e3]; exact hf
    rw [List.map_cons, List.foldlM_cons]
    show addAsymmetricMigration g (Value.str q.1) (Value.str q.2) rateV stV etV >>= _ = _
    rw [← e1, ← e2, addAsymmetricMigration_complete (by rw [e3]; exact hr) hf' hmg', Proofs.ok_bind]
    rw [← funext (fillMigrationPair_congr (G := g) (G' := { g with migrations := g.migrations ++ [mg] })
      rfl rfl rate stV etV)] at hms
    rw [ih ms' _ hms]
    · simp only [List.append_assoc, List.singleton_append]
    · intro pre mg2 post hpost
      obtain ⟨s2, d2, h2⟩ := hok (mg :: pre) mg2 post (by rw [hpost]; rfl)
      exact ⟨s2, d2, migOk_congr h2 rfl rfl (by simp)⟩

/-! ### `_add_symmetric_migration` -/

theorem addSymmetricMigration_inv {g g' : Graph} {demesV rateV : Value} {stV etV : Option Value}
    (h : addSymmetricMigration g demesV rateV stV etV = .ok g') :
    ∃ xs, demesV = .list xs ∧ 2 ≤ xs.length ∧
      (specSymmetricExpansion xs).foldlM (fun g (sd : Value × Value) =>
        addAsymmetricMigration g sd.1 sd.2 rateV stV etV) g = .ok g' := by
  cases demesV with
  | list xs =>
    by_cases hlen : xs.length < 2
    · have := Proofs.symmetric_short g xs rateV stV etV hlen
      rw [h] at this
      cases this
    · have hlen' : 2 ≤ xs.length := by omega
      rw [Proofs.symmetric_expand g xs rateV stV etV hlen'] at h
      exact ⟨xs, rfl, hlen', h⟩
  | _ => cases h

/-! ### one iteration of the migration loop -/

/-- `resolveMigration` with the lookups in the object with the defaults inserted written as the
Spec's values in force -/
theorem resolveMigration_unfold (MD : Obj) (g : Graph) (m : Obj) :
    resolveMigration MD g m =
      (checkAllowed m allowedMigration >>= fun _ =>
        (match effective m MD [] "rate" with
          | some v => pure v
          | none => keyErr "required field 'rate' not found") >>= fun rateV =>
        match effectiveNN m MD [] "demes", effectiveNN m MD [] "source", effectiveNN m MD [] "dest" with
        | some demes, none, none =>
          addSymmetricMigration g demes rateV (effectiveNN m MD [] "start_time") (effectiveNN m MD [] "end_time")
        | none, some s, some d =>
          addAsymmetricMigration g s d rateV (effectiveNN m MD [] "start_time") (effectiveNN m MD [] "end_time")
        | _, _, _ => keyErr "must be symmetric *or* asymmetric") := by
  unfold resolveMigration
  simp only [Proofs.lookupNN_insertDefaults, Proofs.lookup_insertDefaults_eff]
  cases effective m MD [] "rate" <;> rfl

/-- the ordered pairs of names of one entry of `migrations` -/
def pairsOf (MD m : Obj) : Option (List (String × String)) :=
  match effectiveNN m MD [] "demes", effectiveNN m MD [] "source", effectiveNN m MD [] "dest" with
  | some ds, none, none =>
    (strsOf ds).bind (fun names =>
      if names.length < 2 then none else some (specSymmetricExpansion names))
  | none, some s, some d =>
    (match strOf s, strOf d with
     | some s, some d => some [(s, d)]
     | _, _ => none)
  | _, _, _ => none

/-- `fillMigration` without the join point of its `do` block -/
theorem fillMigration_unfold (MD : Obj) (g : Graph) (m : Obj) :
    fillMigration MD g m =
      ((effective m MD [] "rate").bind finOf).bind fun rate =>
        (pairsOf MD m).bind fun pairs =>
          mapOpt (fillMigrationPair g rate (effectiveNN m MD [] "start_time")
            (effectiveNN m MD [] "end_time")) pairs := by
  unfold fillMigration pairsOf
  cases (effective m MD [] "rate").bind finOf with
  | none => rfl
  | some rate =>
    generalize effectiveNN m MD [] "demes" = a
    generalize effectiveNN m MD [] "source" = b
    generalize effectiveNN m MD [] "dest" = c
    cases a <;> cases b <;> cases c <;> rfl

/-- soundness of one iteration of the migration loop -/
theorem resolveMigration_fill {MD : Obj} {g g' : Graph} {m : Obj} (h : resolveMigration MD g m = .ok g') :
    onlyFields migrationFields m = true ∧
      ∃ ms, fillMigration MD g m = some ms ∧ g' = { g with migrations := g.migrations ++ ms } := by
  rw [resolveMigration_unfold] at h
  obtain ⟨_, hca, h⟩ := Proofs.bind_ok h
  refine ⟨by rw [migrationFields_eq]; exact (checkAllowed_iff_onlyFields _ _).1 hca, ?_⟩
  obtain ⟨rateV, hrate, h⟩ := Proofs.bind_ok h
  have hl : effective m MD [] "rate" = some rateV := by
    cases hl : effective m MD [] "rate" with
    | none => rw [hl] at hrate; cases hrate
    | some v => rw [hl] at hrate; cases hrate; rfl
  unfold fillMigration
  split at h
  · -- symmetric
    rename_i demes hdm hsrc hdst
    obtain ⟨xs, rfl, hlen, h⟩ := addSymmetricMigration_inv h
    obtain ⟨hstr, hrt⟩ := foldAsym_strs _ _ _ h
    obtain ⟨rate, hr⟩ := hrt (Proofs.specSymmetricExpansion_ne_nil hlen)
    obtain ⟨names, rfl⟩ := exists_strs xs (fun x hx => by
      obtain ⟨p, hp, rfl⟩ := mem_fst_specSymmetricExpansion hlen hx
      exact hstr p hp)
    rw [specSymmetricExpansion_map] at h
    obtain ⟨ms, hms, rfl⟩ := foldAsym_fill hr _ _ _ h
    have hlen' : ¬ names.length < 2 := by rw [List.length_map] at hlen; omega
    refine ⟨ms, ?_, rfl⟩
    simp only [hl, hr, hdm, hsrc, hdst, strsOf_eq_some.2 rfl, Option.bind_some, Option.bind_eq_bind,
      hlen', if_false]
    exact hms
  · -- asymmetric
    rename_i sV dV hdm hsrc hdst
    obtain ⟨s, d, mg, rate, rfl, rfl, hr, hf, rfl⟩ := addAsymmetricMigration_fill h
    refine ⟨[mg], ?_, rfl⟩
    simp only [hl, hr, hdm, hsrc, hdst, strOf, Option.bind_some, Option.bind_eq_bind, mapOpt, hf]
  · cases h

/-- completeness of one iteration: every migration the Spec prescribes for this entry passes the
checks against the graph holding the ones before it -/
theorem resolveMigration_complete {MD : Obj} {g : Graph} {m : Obj} {ms : List Migration}
    (hca : onlyFields migrationFields m = true) (hf : fillMigration MD g m = some ms)
    (hok : ∀ pre mg post, ms = pre ++ mg :: post →
      ∃ s d, Asdict.MigOk { g with migrations := g.migrations ++ pre } mg s d) :
    resolveMigration MD g m = .ok { g with migrations := g.migrations ++ ms } := by
  rw [migrationFields_eq, ← checkAllowed_iff_onlyFields] at hca
  rw [resolveMigration_unfold, hca, Proofs.ok_bind]
  rw [fillMigration_unfold] at hf
  obtain ⟨rate, hrate, hf⟩ := obind_some' hf
  obtain ⟨rateV, hl, hr⟩ := obind_some' hrate
  obtain ⟨pairs, hpairs, hf⟩ := obind_some' hf
  unfold pairsOf at hpairs
  rw [hl]
  show (match effectiveNN m MD [] "demes", effectiveNN m MD [] "source", effectiveNN m MD [] "dest" with
        | some demes, none, none =>
          addSymmetricMigration g demes rateV (effectiveNN m MD [] "start_time") (effectiveNN m MD [] "end_time")
        | none, some s, some d =>
          addAsymmetricMigration g s d rateV (effectiveNN m MD [] "start_time") (effectiveNN m MD [] "end_time")
        | _, _, _ => keyErr "must be symmetric *or* asymmetric") = _
  split at hpairs
  · -- symmetric
    rename_i ds hdm hsrc hdst
    obtain ⟨names, hnames, hpairs⟩ := obind_some' hpairs
    split at hpairs
    · cases hpairs
    · rename_i hlen
      cases hpairs
      rw [strsOf_eq_some] at hnames
      subst hnames
      rw [Proofs.symmetric_expand _ _ _ _ _ (by rw [List.length_map]; omega), specSymmetricExpansion_map]
      exact foldAsym_complete hr _ _ _ hf hok
  · -- asymmetric
    rename_i sV dV hdm hsrc hdst
    split at hpairs
    · rename_i s d hs hd
      cases hpairs
      rw [strOf_eq_some] at hs hd
      subst hs hd
      have := foldAsym_complete hr [(s, d)] ms g hf hok
      simp only [List.map_cons, List.map_nil, List.foldlM_cons, List.foldlM_nil, bind_pure] at this
      exact this
    · cases hpairs
  · cases hpairs

/-! ### the loops -/

theorem migrations_fill {MD : Obj} : ∀ (xs : List Obj) (g g' : Graph),
    xs.foldlM (resolveMigration MD) g = .ok g' →
    (∀ m ∈ xs, onlyFields migrationFields m = true) ∧
      ∃ mss, mapOpt (fillMigration MD g) xs = some mss ∧
        g' = { g with migrations := g.migrations ++ mss.flatten } := by
  intro xs
  induction xs with
  | nil =>
    intro g g' h
    cases h
    exact ⟨fun m hm => (by cases hm), [], rfl, by simp⟩
  | cons m xs ih =>
    intro g g' h
    rw [List.foldlM_cons] at h
    obtain ⟨g1, h1, h⟩ := Proofs.bind_ok h
    obtain ⟨hca, ms, hms, rfl⟩ := resolveMigration_fill h1
    obtain ⟨hall, mss, hmss, rfl⟩ := ih _ g' h
    rw [funext (fillMigration_congr (MD := MD) (G := g) (G' := { g with migrations := g.migrations ++ ms })
      rfl rfl)] at hmss
    refine ⟨?_, ms :: mss, mapOpt_cons_some.2 ⟨ms, mss, hms, hmss, rfl⟩, ?_⟩
    · intro m' hm'
      rcases List.mem_cons.1 hm' with rfl | hm'
      · exact hca
      · exact hall m' hm'
    · simp only [List.flatten_cons, List.append_assoc]

theorem migrations_complete {MD : Obj} : ∀ (xs : List Obj) (mss : List (List Migration)) (g : Graph),
    (∀ m ∈ xs, onlyFields migrationFields m = true) → mapOpt (fillMigration MD g) xs = some mss →
    (∀ pre mg post, mss.flatten = pre ++ mg :: post →
      ∃ s d, Asdict.MigOk { g with migrations := g.migrations ++ pre } mg s d) →
    xs.foldlM (resolveMigration MD) g = .ok { g with migrations := g.migrations ++ mss.flatten } := by
  intro xs
  induction xs with
  | nil =>
    intro mss g _ h _
    cases h
    simp only [List.flatten_nil, List.append_nil, List.foldlM_nil]
    rfl
  | cons m xs ih =>
    intro mss g hall h hok
    obtain ⟨ms, mss', hms, hmss, rfl⟩ := mapOpt_cons_some.1 h
    rw [List.foldlM_cons, resolveMigration_complete (hall m List.mem_cons_self) hms, Proofs.ok_bind]
    · rw [← funext (fillMigration_congr (MD := MD) (G := g)
        (G' := { g with migrations := g.migrations ++ ms }) rfl rfl)] at hmss
      rw [ih mss' _ (fun m' hm' => hall m' (List.mem_cons_of_mem _ hm')) hmss]
      · simp only [List.flatten_cons, List.append_assoc]
      · intro pre mg post hpost
        obtain ⟨s, d, h2⟩ := hok (ms ++ pre) mg post (by
          rw [List.flatten_cons, hpost, List.append_assoc])
        exact ⟨s, d, migOk_congr h2 rfl rfl (by simp)⟩
    · intro pre mg post hpost
      exact hok pre mg (post ++ mss'.flatten) (by
        rw [List.flatten_cons, hpost, List.append_assoc, List.cons_append])

/-! ### non-vacuity: a symmetric entry with the rate written as a boolean and both bounds omitted,
then an asymmetric one with explicit bounds, against the two demes of `exampleGraph` -/

def exGraph0 : Graph := { Proofs.exampleGraph with migrations := [] }
def exSym : Obj := [("demes", .list [.str "A", .str "B"]), ("rate", .bool false)]
def exAsym : Obj :=
  [("source", .str "A"), ("dest", .str "B"), ("start_time", .num (.fin 30)), ("end_time", .bool true)]
def exMD : Obj := [("rate", .num (.fin (1/8)))]

example : (resolveMigration exMD exGraph0 exSym).toBool = true := by decide +kernel
example : ([exSym, exAsym].foldlM (resolveMigration exMD) exGraph0).toBool = false := by decide +kernel
example : ([exAsym].foldlM (resolveMigration exMD) exGraph0).toBool = true := by decide +kernel
example : (fillMigration exMD exGraph0 exSym).map List.length = some 2 := by decide +kernel
example : onlyFields migrationFields exSym = true := by decide +kernel

end Demes.Proofs.Accepts

section
open Demes.Proofs.Accepts
end
