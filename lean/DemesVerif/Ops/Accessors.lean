/-
  Driver op `accessors`: the five read accessors of the Model (`Model/Accessors.lean`) on a graph received from the
  implementation, with its real name index.

    {"op": "accessors", "graph": <asdict>, "index": [[name, position], …]?, "names": [str, …]}
    ↦ {"ok": {"demes":   [{"end_time": {"ok": q} | {"err": …}, "time_span": {"ok": t} | {"err": …}, "epochs": [t, …]}, …],
              "lookups": [{"get": {"ok": {"pos": i, "name": s}} | {"err": "KeyError", "msg": name}, "contains": Bool}, …]}}
-/
import DemesVerif.Ops.Core
import DemesVerif.Model.Accessors
namespace Demes.Ops.Accessors
open Lean Demes Demes.Wire Demes.Ops.Core

def exceptJ {α} (f : α → Json) : Except Err α → Json
  | .ok a => okJ (f a)
  | .error e => errJ e

def demeJ (d : Deme) : Json :=
  Json.mkObj [("end_time", exceptJ qJ d.endTimeAcc), ("time_span", exceptJ tJ d.timeSpan),
              ("epochs", .arr (d.epochs.map (fun e => tJ e.timeSpan)).toArray)]

def lookupJ (g : Graph) (n : String) : Json :=
  Json.mkObj [("get", exceptJ (fun (d : Deme) =>
                  Json.mkObj [("pos", match g.indexLookup n with | some i => .num i | none => .null), ("name", .str d.name)])
                (Graph.getItem g n)),
              ("contains", .bool (Graph.contains g n))]

def dispatch? (op : String) (j : Json) : Option Json :=
  if op = "accessors" then some <|
    withGraph j "graph" (fun g =>
      let g := match j.getObjVal? "index" with
        | .ok (.arr kvs) => { g with index := kvs.toList.filterMap (fun kv => match kv with
            | .arr #[.str k, .num n] => some (k, n.mantissa.toNat) | _ => none) }
        | _ => g
      match j.getObjValAs? (Array String) "names" with
      | .error e => Json.mkObj [("fail", .str e)]
      | .ok names =>
        okJ (Json.mkObj [("demes", .arr (g.demes.map demeJ).toArray),
                         ("lookups", .arr (names.map (lookupJ g)))]))
  else none

end Demes.Ops.Accessors
