/-
  C07 — pure mirrors of the ancestry (`-es` / `-ej`) and migration (`-m` / `-em`) generators
  of `toMs`, and the conditions under which the generators succeed.
-/
import DemesVerif.Proofs.ToMsBasic
set_option linter.unusedSimpArgs false
set_option linter.unusedVariables false
namespace Demes.Proofs.ToMs
open Demes Demes.Ms Demes.Spec Demes.Spec.C07 Demes.Proofs.RV

/-! ### all demes' size options -/

def sizeEvsAll (N0 : Q) (ds : List (Deme × Nat)) : List (Event Growth) :=
  ds.flatMap (fun dj => sizeEvs N0 ((dj.2 + 1 : Nat) : Int) N0 .zero dj.1.epochs.reverse)

theorem fold_sizeEvsM_ok {N0 : Q} (hN : 0 < N0) :
    ∀ (ds : List (Deme × Nat)), (∀ dj ∈ ds, ∀ e ∈ dj.1.epochs, EpochOk e) → ∀ acc : List (Event Growth),
      ds.foldlM (fun (evs : List (Event Growth)) (dj : Deme × Nat) => do
        pure (evs ++ (← demeSizeEvents N0 (dj.2 + 1) dj.1))) acc = .ok (acc ++ sizeEvsAll N0 ds) := by
  intro ds
  induction ds with
  | nil => intro _ acc; simp [sizeEvsAll, pure, Except.pure]
  | cons dj ds ih =>
    intro hok acc
    rw [List.foldlM_cons, demeSizeEvents_ok hN (Nat.succ_pos _) dj.1 (hok dj List.mem_cons_self)]
    simp only [bind, Except.bind, pure, Except.pure]
    have := ih (fun x hx => hok x (List.mem_cons_of_mem _ hx)) (acc ++ sizeEvs N0 ((dj.2 + 1 : Nat) : Int) N0 .zero dj.1.epochs.reverse)
    simp only [bind, Except.bind, pure, Except.pure] at this
    rw [this]
    simp [sizeEvsAll, List.flatMap_cons, List.append_assoc]

theorem sizeEvsM_ok {N0 : Q} (hN : 0 < N0) (g : Graph) (hok : ∀ d ∈ g.demes, ∀ e ∈ d.epochs, EpochOk e) :
    sizeEvsM g N0 = .ok (sizeEvsAll N0 g.demes.zipIdx) := by
  have := fold_sizeEvsM_ok hN g.demes.zipIdx (fun dj hdj e he => by
    have hm : dj.1 ∈ g.demes := by
      have := List.mem_zipIdx hdj
      simp only [Nat.zero_add] at this
      obtain ⟨_, _, h3⟩ := this
      rw [h3]; exact List.getElem_mem _
    exact hok dj.1 hm e he) []
  simpa [sizeEvsM] using this

/-! ### ancestry options -/

def idOf (g : Graph) (name : String) : Int := (((g.demeId? name).getD 0 : Nat) : Int) + 1

theorem demeId_ok {g : Graph} {name : String} (h : (g.demeId? name).isSome = true) :
    demeId g name = .ok (idOf g name) := by
  unfold demeId idOf
  cases hd : g.demeId? name with
  | none => simp [hd] at h
  | some j => simp [pure, Except.pure]

theorem idOf_pos (g : Graph) (name : String) : 0 < idOf g name := by unfold idOf; omega

def ancDemeStepM (g : Graph) (d : Deme) (st : Nat × List (Event Growth)) (ak : String × Nat) :
    Except Err (Nat × List (Event Growth)) := do
  let (numDemes, evs) := st
  let (ancestor, k) := ak
  let ancId ← demeId g ancestor
  let pk ← match d.proportions[k]? with
    | some p => pure p
    | none => otherErr "IndexError"
  let den := sumFrom d.proportions k
  if den = 0 then otherErr "ZeroDivisionError"
  let proportion := pk / den
  let me ← demeId g d.name
  if k = d.ancestors.length - 1 then
    if !iscloseQ proportion 1 relTol 0 then assertionErr "math.isclose(proportion, 1)"
    let e ← mkJoin "" (Num.ofETime d.startTime) me ancId
    pure (numDemes, evs ++ [e])
  else
    let numDemes := numDemes + 1
    let e1 ← mkSplit "" (Num.ofETime d.startTime) me (.fin (1 - proportion))
    let e2 ← mkJoin "" (Num.ofETime d.startTime) (numDemes : Int) ancId
    pure (numDemes, evs ++ [e1, e2])

def ancStepM (g : Graph) (st : Nat × List (Event Growth)) (x : DemeOrPulse) :
    Except Err (Nat × List (Event Growth)) :=
  match x with
  | .deme d => (d.ancestors.zipIdx).foldlM (ancDemeStepM g d) st
  | .pulse p => do
    let (numDemes, evs) := st
    let numDemes := numDemes + 1
    if p.sources.length > 1 then valueErr "Currently pulses with only a single source are supported"
    let dest ← demeId g p.dest
    let p0 ← match p.proportions.head? with
      | some x => pure x
      | none => otherErr "IndexError"
    let e1 ← mkSplit "" (.fin p.time) dest (.fin (1 - p0))
    let src ← match p.sources.head? with
      | some s => demeId g s
      | none => otherErr "IndexError"
    let e2 ← mkJoin "" (.fin p.time) (numDemes : Int) src
    pure (numDemes, evs ++ [e1, e2])

theorem ancestryEvents_eq (g : Graph) (xs : List DemeOrPulse) (n : Nat) :
    ancestryEvents g xs n = (xs.foldlM (ancStepM g) (n, [])) >>= fun r => pure r.2 := rfl

/-- the proportion `p_k / sum(p[k:])` -/
def tailProp (d : Deme) (k : Nat) : Q := d.proportions.getD k 0 / sumFrom d.proportions k

/-- the options for the ancestors `(a, k)` of deme `d`, `n` = current number of populations -/
def ancDemeEvs (g : Graph) (d : Deme) : Nat → List (String × Nat) → List (Event Growth)
  | _, [] => []
  | n, (a, k) :: r =>
    if k = d.ancestors.length - 1 then
      Event.join "" (Num.ofETime d.startTime) (idOf g d.name) (idOf g a) :: ancDemeEvs g d n r
    else
      Event.split "" (Num.ofETime d.startTime) (idOf g d.name) (.fin (1 - tailProp d k))
        :: Event.join "" (Num.ofETime d.startTime) ((n + 1 : Nat) : Int) (idOf g a) :: ancDemeEvs g d (n + 1) r

/-- number of populations after the ancestors `aks` -/
def ancDemeCount (d : Deme) : Nat → List (String × Nat) → Nat
  | n, [] => n
  | n, (_, k) :: r => if k = d.ancestors.length - 1 then ancDemeCount d n r else ancDemeCount d (n + 1) r

def pulseEvs (g : Graph) (p : Pulse) (n : Nat) : List (Event Growth) :=
  [Event.split "" (.fin p.time) (idOf g p.dest) (.fin (1 - p.proportions.headD 0)),
   Event.join "" (.fin p.time) ((n + 1 : Nat) : Int) (idOf g (p.sources.headD ""))]

def ancEvs (g : Graph) : Nat → List DemeOrPulse → List (Event Growth)
  | _, [] => []
  | n, .deme d :: r => ancDemeEvs g d n d.ancestors.zipIdx ++ ancEvs g (ancDemeCount d n d.ancestors.zipIdx) r
  | n, .pulse p :: r => pulseEvs g p n ++ ancEvs g (n + 1) r

/-! sums of positive proportions -/

theorem foldl_add_ge : ∀ (l : List Q) (a : Q), (∀ x ∈ l, 0 < x) → a ≤ l.foldl (· + ·) a := by
  intro l
  induction l with
  | nil => intro a _; simp
  | cons x l ih =>
    intro a h
    have h1 := ih (a + x) (fun y hy => h y (List.mem_cons_of_mem _ hy))
    have h2 := h x List.mem_cons_self
    simp only [List.foldl_cons]
    grind

theorem sumFrom_ge {ps : List Q} (hp : ∀ x ∈ ps, 0 < x) {k : Nat} {pk : Q} (hk : ps[k]? = some pk) :
    pk ≤ sumFrom ps k := by
  unfold sumFrom
  have hlt : k < ps.length := by
    rcases Nat.lt_or_ge k ps.length with h | h
    · exact h
    · simp [List.getElem?_eq_none h] at hk
  have : ps.drop k = pk :: ps.drop (k + 1) := by
    rw [List.drop_eq_getElem_cons hlt]
    have : ps[k] = pk := by
      have := List.getElem?_eq_getElem hlt
      rw [this] at hk; exact Option.some.inj hk
    rw [this]
  rw [this, List.foldl_cons]
  have := foldl_add_ge (ps.drop (k + 1)) (0 + pk) (fun x hx => hp x (List.mem_of_mem_drop hx))
  grind

theorem sumFrom_last {ps : List Q} {k : Nat} {pk : Q} (hk : ps[k]? = some pk) (hl : k = ps.length - 1) :
    sumFrom ps k = pk := by
  unfold sumFrom
  have hlt : k < ps.length := by
    rcases Nat.lt_or_ge k ps.length with h | h
    · exact h
    · simp [List.getElem?_eq_none h] at hk
  have : ps.drop k = [pk] := by
    rw [List.drop_eq_getElem_cons hlt]
    have h1 : ps[k] = pk := by
      have := List.getElem?_eq_getElem hlt
      rw [this] at hk; exact Option.some.inj hk
    have h2 : ps.drop (k + 1) = [] := by
      apply List.drop_eq_nil_of_le; omega
    rw [h1, h2]
  rw [this]; simp only [List.foldl_cons, List.foldl_nil]; grind

theorem div_self_pos {a : Q} (h : 0 < a) : a / a = 1 := by
  rw [Rat.div_def, Rat.mul_inv_cancel _ (Rat.ne_of_gt h)]

theorem div_le_one {a c : Q} (hc : 0 < c) (h : a ≤ c) : a / c ≤ 1 := by
  have := (InGen.div_le_div (a := a) (b := c) hc).2 h
  rwa [div_self_pos hc] at this

structure DemeAncOk (g : Graph) (d : Deme) : Prop where
  anc : ∀ a ∈ d.ancestors, (g.demeId? a).isSome = true
  me : (g.demeId? d.name).isSome = true
  len : d.proportions.length = d.ancestors.length
  pos : ∀ p ∈ d.proportions, 0 < p
  start : d.ancestors ≠ [] → ∃ t, d.startTime = .fin t ∧ 0 ≤ t

theorem ancDemeStepM_ok {g : Graph} {d : Deme} (h : DemeAncOk g d) {a : String} {k : Nat}
    (ha : a ∈ d.ancestors) (hk : k < d.ancestors.length) (n : Nat) (evs : List (Event Growth)) :
    ancDemeStepM g d (n, evs) (a, k) = .ok (ancDemeCount d n [(a, k)], evs ++ ancDemeEvs g d n [(a, k)]) := by
  obtain ⟨t, hst, ht⟩ := h.start (List.ne_nil_of_mem ha)
  have hkp : k < d.proportions.length := by rw [h.len]; exact hk
  have hpk : d.proportions[k]? = some d.proportions[k] := List.getElem?_eq_getElem hkp
  have hpos : 0 < d.proportions[k] := h.pos _ (List.getElem_mem _)
  have hge := sumFrom_ge h.pos hpk
  have hden : sumFrom d.proportions k ≠ 0 := by grind
  have hdpos : 0 < sumFrom d.proportions k := by grind
  have hgetD : d.proportions.getD k 0 = d.proportions[k] := by
    simp [List.getD, hpk]
  unfold ancDemeStepM
  simp only [demeId_ok (h.anc a ha), demeId_ok h.me, hpk, hden, if_false, hst, Num.ofETime]
  by_cases hl : k = d.ancestors.length - 1
  · have hs : sumFrom d.proportions k = d.proportions[k] := sumFrom_last hpk (by rw [h.len]; exact hl)
    have h1 : d.proportions[k] / sumFrom d.proportions k = 1 := by rw [hs]; exact div_self_pos hpos
    simp [hl, h1, iscloseQ, mkJoin_ok ht (idOf_pos g d.name) (idOf_pos g a), bind, Except.bind, pure, Except.pure,
      ancDemeCount, ancDemeEvs, hst, Num.ofETime]
    simp [← hl, h1, iscloseQ, mkJoin_ok ht (idOf_pos g d.name) (idOf_pos g a)]
  · have hp1 : d.proportions[k] / sumFrom d.proportions k ≤ 1 := div_le_one hdpos hge
    have hp0 : 0 < d.proportions[k] / sumFrom d.proportions k := (InGen.div_pos hdpos).2 hpos
    have hn : (0 : Int) < ((n + 1 : Nat) : Int) := by omega
    have hs := mkSplit_ok (t := t) (p := 1 - d.proportions[k] / sumFrom d.proportions k) (i := idOf g d.name)
      ht (idOf_pos g d.name) (by grind) (by grind)
    have hj := mkJoin_ok (t := t) (i := ((n + 1 : Nat) : Int)) (j := idOf g a) ht hn (idOf_pos g a)
    have hj' : mkJoin (α := Growth) "" (Num.fin t) ((n : Int) + 1) (idOf g a) = Except.ok (Event.join "" (Num.fin t) ((n : Int) + 1) (idOf g a)) := by
      simpa using hj
    simp [hl, hs, hj', hpk, bind, Except.bind, pure, Except.pure, ancDemeCount, ancDemeEvs, hst, Num.ofETime, tailProp, hgetD]

theorem ancDemeEvs_cons (g : Graph) (d : Deme) (n : Nat) (ak : String × Nat) (r : List (String × Nat)) :
    ancDemeEvs g d n (ak :: r) = ancDemeEvs g d n [ak] ++ ancDemeEvs g d (ancDemeCount d n [ak]) r := by
  obtain ⟨a, k⟩ := ak
  by_cases hl : k = d.ancestors.length - 1 <;> simp [ancDemeEvs, ancDemeCount, hl]

theorem ancDemeCount_cons (d : Deme) (n : Nat) (ak : String × Nat) (r : List (String × Nat)) :
    ancDemeCount d n (ak :: r) = ancDemeCount d (ancDemeCount d n [ak]) r := by
  obtain ⟨a, k⟩ := ak
  by_cases hl : k = d.ancestors.length - 1 <;> simp [ancDemeCount, hl]

theorem fold_ancDemeStepM_ok {g : Graph} {d : Deme} (h : DemeAncOk g d) :
    ∀ (aks : List (String × Nat)), (∀ ak ∈ aks, ak.1 ∈ d.ancestors ∧ ak.2 < d.ancestors.length) →
      ∀ (n : Nat) (evs : List (Event Growth)),
        aks.foldlM (ancDemeStepM g d) (n, evs) = .ok (ancDemeCount d n aks, evs ++ ancDemeEvs g d n aks) := by
  intro aks
  induction aks with
  | nil => intro _ n evs; simp [ancDemeCount, ancDemeEvs, pure, Except.pure]
  | cons ak aks ih =>
    intro hok n evs
    obtain ⟨h1, h2⟩ := hok ak List.mem_cons_self
    rw [List.foldlM_cons, show ak = (ak.1, ak.2) from rfl, ancDemeStepM_ok h h1 h2]
    simp only [bind, Except.bind]
    rw [ih (fun x hx => hok x (List.mem_cons_of_mem _ hx)), ancDemeCount_cons d n (ak.1, ak.2) aks,
      ancDemeEvs_cons g d n (ak.1, ak.2) aks, List.append_assoc]

theorem mem_zipIdx_anc {d : Deme} {ak : String × Nat} (h : ak ∈ d.ancestors.zipIdx) :
    ak.1 ∈ d.ancestors ∧ ak.2 < d.ancestors.length := by
  have := List.mem_zipIdx h
  simp only [Nat.zero_add, Nat.sub_zero] at this
  obtain ⟨_, h2, h3⟩ := this
  exact ⟨by rw [h3]; exact List.getElem_mem _, h2⟩

structure PulseOk (g : Graph) (p : Pulse) : Prop where
  src : ∃ s, p.sources = [s] ∧ (g.demeId? s).isSome = true
  dest : (g.demeId? p.dest).isSome = true
  prop : ∃ p0, p.proportions.head? = some p0 ∧ 0 < p0 ∧ p0 ≤ 1
  time : 0 ≤ p.time

theorem ancStepM_pulse_ok {g : Graph} {p : Pulse} (h : PulseOk g p) (n : Nat) (evs : List (Event Growth)) :
    ancStepM g (n, evs) (.pulse p) = .ok (n + 1, evs ++ pulseEvs g p n) := by
  obtain ⟨s, hs, hsid⟩ := h.src
  obtain ⟨p0, hp0, hpos, hle⟩ := h.prop
  have hn : (0 : Int) < ((n : Int) + 1) := by omega
  have h1 := mkSplit_ok (t := p.time) (p := 1 - p0) (i := idOf g p.dest) h.time (idOf_pos g p.dest) (by grind) (by grind)
  have h2 := mkJoin_ok (t := p.time) (i := (n : Int) + 1) (j := idOf g s) h.time hn (idOf_pos g s)
  have hhd : p.proportions.headD 0 = p0 := by
    cases hpp : p.proportions with
    | nil => simp [hpp] at hp0
    | cons x xs => simp [hpp] at hp0 ⊢; exact hp0
  simp [ancStepM, hs, demeId_ok h.dest, demeId_ok hsid, hp0, h1, h2, bind, Except.bind, pure, Except.pure, pulseEvs, hhd]

def DpOk (g : Graph) : DemeOrPulse → Prop
  | .deme d => DemeAncOk g d
  | .pulse p => PulseOk g p

theorem fold_ancStepM_ok {g : Graph} :
    ∀ (xs : List DemeOrPulse), (∀ x ∈ xs, DpOk g x) → ∀ (n : Nat) (evs : List (Event Growth)),
      ∃ n', xs.foldlM (ancStepM g) (n, evs) = .ok (n', evs ++ ancEvs g n xs) := by
  intro xs
  induction xs with
  | nil => intro _ n evs; exact ⟨n, by simp [ancEvs, pure, Except.pure]⟩
  | cons x xs ih =>
    intro hok n evs
    have hx := hok x List.mem_cons_self
    have hr := fun y hy => hok y (List.mem_cons_of_mem _ hy)
    cases x with
    | deme d =>
      obtain ⟨n', h'⟩ := ih hr (ancDemeCount d n d.ancestors.zipIdx) (evs ++ ancDemeEvs g d n d.ancestors.zipIdx)
      refine ⟨n', ?_⟩
      rw [List.foldlM_cons]
      simp only [ancStepM]
      rw [fold_ancDemeStepM_ok hx _ (fun ak hak => mem_zipIdx_anc hak)]
      simp only [bind, Except.bind]
      rw [h', ancEvs, List.append_assoc]
    | pulse p =>
      obtain ⟨n', h'⟩ := ih hr (n + 1) (evs ++ pulseEvs g p n)
      refine ⟨n', ?_⟩
      rw [List.foldlM_cons, ancStepM_pulse_ok hx]
      simp only [bind, Except.bind]
      rw [h', ancEvs, List.append_assoc]

theorem ancestryEvents_ok {g : Graph} (xs : List DemeOrPulse) (hok : ∀ x ∈ xs, DpOk g x) (n : Nat) :
    ancestryEvents g xs n = .ok (ancEvs g n xs) := by
  obtain ⟨n', h⟩ := fold_ancStepM_ok xs hok n []
  rw [ancestryEvents_eq, h]; rfl

/-! ### migration options -/

def migOffStepM (g : Graph) (evs : List (Event Growth)) (m : Migration) : Except Err (List (Event Growth)) := do
  let dd ← lookupDeme g m.dest
  let sd ← lookupDeme g m.source
  if !m.startTime.isInf && m.startTime ≠ dd.startTime && m.startTime ≠ sd.startTime then
    let e ← mkMigEntryChange "" (Num.ofETime m.startTime) (← demeId g m.dest) (← demeId g m.source) (.fin 0)
    pure (evs ++ [e])
  else pure evs

def migOnM (N0 : Q) (g : Graph) (m : Migration) : Except Err (Event Growth) := do
  mkMigEntryChange (α := Growth) "" (.fin m.endTime) (← demeId g m.dest) (← demeId g m.source) (.fin (4 * N0 * m.rate))

theorem migrationEvents_eq (N0 : Q) (g : Graph) :
    migrationEvents N0 g = (g.migrations.foldlM (migOffStepM g) []) >>= fun offs =>
      (g.migrations.mapM (migOnM N0 g)) >>= fun ons => pure (offs ++ ons) := rfl

/-- start time of the deme `graph[name]` -/
def startOf (g : Graph) (name : String) : ETime := ((g.deme? name).map (·.startTime)).getD .inf

def offCond (g : Graph) (m : Migration) : Bool :=
  !m.startTime.isInf && m.startTime ≠ startOf g m.dest && m.startTime ≠ startOf g m.source

def migOff (g : Graph) (m : Migration) : Event Growth :=
  .migEntryChange "" (Num.ofETime m.startTime) (idOf g m.dest) (idOf g m.source) (.fin 0)

def migOn (N0 : Q) (g : Graph) (m : Migration) : Event Growth :=
  .migEntryChange "" (.fin m.endTime) (idOf g m.dest) (idOf g m.source) (.fin (4 * N0 * m.rate))

def migOffs (g : Graph) (ms : List Migration) : List (Event Growth) :=
  (ms.filter (offCond g)).map (migOff g)

def migOns (N0 : Q) (g : Graph) (ms : List Migration) : List (Event Growth) := ms.map (migOn N0 g)

structure MigOk (g : Graph) (m : Migration) : Prop where
  dest : (g.deme? m.dest).isSome = true
  source : (g.deme? m.source).isSome = true
  destId : (g.demeId? m.dest).isSome = true
  sourceId : (g.demeId? m.source).isSome = true
  endTime : 0 ≤ m.endTime
  rate : 0 ≤ m.rate
  start : ∀ t, m.startTime = .fin t → 0 ≤ t

theorem lookupDeme_ok {g : Graph} {name : String} (h : (g.deme? name).isSome = true) :
    ∃ d, g.deme? name = some d ∧ lookupDeme g name = .ok d := by
  unfold lookupDeme
  cases hd : g.deme? name with
  | none => simp [hd] at h
  | some d => exact ⟨d, rfl, rfl⟩

theorem migOffStepM_ok {g : Graph} {m : Migration} (h : MigOk g m) (evs : List (Event Growth)) :
    migOffStepM g evs m = .ok (evs ++ migOffs g [m]) := by
  obtain ⟨dd, hdd, hdl⟩ := lookupDeme_ok h.dest
  obtain ⟨sd, hsd, hsl⟩ := lookupDeme_ok h.source
  unfold migOffStepM
  simp only [hdl, hsl, demeId_ok h.destId, demeId_ok h.sourceId]
  have hc : (!m.startTime.isInf && decide (m.startTime ≠ dd.startTime) && decide (m.startTime ≠ sd.startTime)) = offCond g m := by
    simp [offCond, startOf, hdd, hsd]
  by_cases hoc : offCond g m = true
  · cases hst : m.startTime with
    | inf => simp [offCond, hst, ETime.isInf] at hoc
    | fin t =>
      have ht := h.start t hst
      have hmk := mkMigEntryChange_ok (t := t) (r := 0) (i := idOf g m.dest) (j := idOf g m.source) ht
        (idOf_pos _ _) (idOf_pos _ _) (by grind)
      rw [hst] at hc
      simp only [bind, Except.bind, pure, Except.pure]
      rw [hc, ← hst, hoc]
      simp [migOffs, hoc, migOff, hst, Num.ofETime, hmk]
  · simp only [bind, Except.bind, pure, Except.pure]
    rw [hc]
    simp [migOffs, hoc]

theorem fold_migOffStepM_ok {g : Graph} :
    ∀ (ms : List Migration), (∀ m ∈ ms, MigOk g m) → ∀ evs : List (Event Growth),
      ms.foldlM (migOffStepM g) evs = .ok (evs ++ migOffs g ms) := by
  intro ms
  induction ms with
  | nil => intro _ evs; simp [migOffs, pure, Except.pure]
  | cons m ms ih =>
    intro hok evs
    rw [List.foldlM_cons, migOffStepM_ok (hok m List.mem_cons_self)]
    simp only [bind, Except.bind]
    rw [ih (fun x hx => hok x (List.mem_cons_of_mem _ hx)), List.append_assoc]
    congr 2
    simp [migOffs, List.filter_cons]
    split <;> simp

theorem migOnM_ok {N0 : Q} (hN : 0 < N0) {g : Graph} {m : Migration} (h : MigOk g m) :
    migOnM N0 g m = .ok (migOn N0 g m) := by
  have hr : 0 ≤ 4 * N0 * m.rate := by
    have := h.rate
    have h4 : 0 ≤ 4 * N0 := by grind
    exact Rat.mul_nonneg h4 this
  have hmk := mkMigEntryChange_ok (t := m.endTime) (r := 4 * N0 * m.rate) (i := idOf g m.dest) (j := idOf g m.source)
    h.endTime (idOf_pos _ _) (idOf_pos _ _) hr
  simp [migOnM, demeId_ok h.destId, demeId_ok h.sourceId, hmk, migOn, bind, Except.bind]

theorem mapM_migOnM_ok {N0 : Q} (hN : 0 < N0) {g : Graph} :
    ∀ (ms : List Migration), (∀ m ∈ ms, MigOk g m) → ms.mapM (migOnM N0 g) = .ok (migOns N0 g ms) := by
  intro ms
  induction ms with
  | nil => intro _; simp [migOns, pure, Except.pure]
  | cons m ms ih =>
    intro hok
    rw [List.mapM_cons, migOnM_ok hN (hok m List.mem_cons_self), ih (fun x hx => hok x (List.mem_cons_of_mem _ hx))]
    simp [migOns, bind, Except.bind, pure, Except.pure]

def migEvs (N0 : Q) (g : Graph) : List (Event Growth) := migOffs g g.migrations ++ migOns N0 g g.migrations

theorem migrationEvents_ok {N0 : Q} (hN : 0 < N0) {g : Graph} (hok : ∀ m ∈ g.migrations, MigOk g m) :
    migrationEvents N0 g = .ok (migEvs N0 g) := by
  rw [migrationEvents_eq, fold_migOffStepM_ok _ hok, mapM_migOnM_ok hN _ hok]
  simp [migEvs, bind, Except.bind, pure, Except.pure]

end Demes.Proofs.ToMs
