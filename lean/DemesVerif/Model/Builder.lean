/-
  `demes.Builder` (demes/demes.py), statement by statement.

  A `BuilderCall` is one call of the public API on one Builder: the constructor, `add_deme`,
  `add_migration`, `add_pulse`, `resolve`.  Every keyword argument is an `Option Value`:
  `none` = the argument is not passed (the keyword default applies), `some v` = it is passed
  with the value `v` (`some .null` = an explicit Python `None`).

  * for the arguments whose keyword default is `None`, the methods test `x is not None`:
    not passed and `None` are the same thing (`setIfNotNone`);
  * `demes` / `source` / `dest` of `add_migration` have the sentinel default `NO_DEFAULT` and the
    methods test `x is not NO_DEFAULT`: an explicit `None` is stored (`setIfGiven`);
  * `time_units` of the constructor has the default `"generations"` and is stored untested.

  The Builder's state is its `data` dictionary.  The pure Model holds documents, not objects:
  that the stored sub-objects are the caller's own objects (aliasing) is the subject of the heap
  abstraction of C18 (`Model/Heap.lean`), not of this file.
-/
import DemesVerif.Model.Resolve
namespace Demes

inductive BuilderCall where
  /-- `Builder(description=…, time_units=…, generation_time=…, doi=…, defaults=…, metadata=…)` -/
  | init (description timeUnits generationTime doi defaults metadata : Option Value)
  /-- `add_deme(name, description=…, ancestors=…, proportions=…, start_time=…, epochs=…,
  defaults=…)` -/
  | addDeme (name : Value) (description ancestors proportions startTime epochs defaults : Option Value)
  /-- `add_migration(rate=…, demes=…, source=…, dest=…, start_time=…, end_time=…)` -/
  | addMigration (rate demes source dest startTime endTime : Option Value)
  /-- `add_pulse(sources=…, dest=…, proportions=…, time=…)` -/
  | addPulse (sources dest proportions time : Option Value)
  /-- `resolve()` -/
  | resolve
  deriving Repr, Inhabited

namespace Builder
open Obj

/-- `if x is not None: d[k] = x`, for a keyword whose default is `None` -/
def setIfNotNone (k : String) (x : Option Value) (d : Obj) : Obj :=
  match x with
  | none => d
  | some .null => d
  | some v => Obj.set k v d

/-- `if x is not NO_DEFAULT: d[k] = x`, for a keyword whose default is the sentinel -/
def setIfGiven (k : String) (x : Option Value) (d : Obj) : Obj :=
  match x with
  | none => d
  | some v => Obj.set k v d

/-- `if start_time == "Infinity": start_time = math.inf` -/
def convInfinity (v : Value) : Value :=
  match v with
  | .str s => if s = "Infinity" then .num .pinf else v
  | _ => v

/-- `Builder.__init__` -/
def initData (description timeUnits generationTime doi defaults metadata : Option Value) : Obj :=
  let data : Obj := [("time_units", timeUnits.getD (.str "generations"))]
  let data := setIfNotNone "description" description data
  let data := setIfNotNone "generation_time" generationTime data
  let data := setIfNotNone "doi" doi data
  let data := setIfNotNone "defaults" defaults data
  let data := setIfNotNone "metadata" metadata data
  data

/-- the `deme` dictionary of `add_deme` -/
def demeDict (name : Value) (description ancestors proportions startTime epochs defaults : Option Value) :
    Obj :=
  let deme : Obj := [("name", name)]
  let deme := setIfNotNone "description" description deme
  let deme := setIfNotNone "ancestors" ancestors deme
  let deme := setIfNotNone "proportions" proportions deme
  let deme := setIfNotNone "start_time" (startTime.map convInfinity) deme
  let deme := setIfNotNone "epochs" epochs deme
  let deme := setIfNotNone "defaults" defaults deme
  deme

/-- the `migration` dictionary of `add_migration` -/
def migrationDict (rate demes source dest startTime endTime : Option Value) : Obj :=
  let migration : Obj := []
  let migration := setIfNotNone "rate" rate migration
  let migration := setIfGiven "demes" demes migration
  let migration := setIfGiven "source" source migration
  let migration := setIfGiven "dest" dest migration
  let migration := setIfNotNone "start_time" (startTime.map convInfinity) migration
  let migration := setIfNotNone "end_time" endTime migration
  migration

/-- the `pulse` dictionary of `add_pulse` -/
def pulseDict (sources dest proportions time : Option Value) : Obj :=
  let pulse : Obj := []
  let pulse := setIfNotNone "sources" sources pulse
  let pulse := setIfNotNone "dest" dest pulse
  let pulse := setIfNotNone "proportions" proportions pulse
  let pulse := setIfNotNone "time" time pulse
  pulse

/-- `if key not in self.data: self.data[key] = []` then `self.data[key].append(item)`.
When `data[key]` exists and is not a list (possible only after `Builder.fromdict` or after the
caller edited `data`), `.append` raises `AttributeError` and the data is as before. -/
def appendTo (key : String) (item : Value) (data : Obj) : Obj :=
  let data := if contains key data then data else Obj.set key (.list []) data
  match lookup key data with
  | some (.list xs) => Obj.set key (.list (xs ++ [item])) data
  | _ => data

/-- does that `.append` raise? -/
def appendRaises (key : String) (data : Obj) : Bool :=
  match lookup key data with
  | none => false
  | some (.list _) => false
  | some _ => true

/-- the `data` dictionary after one call -/
def step (data : Obj) : BuilderCall → Obj
  | .init description timeUnits generationTime doi defaults metadata =>
      initData description timeUnits generationTime doi defaults metadata
  | .addDeme name description ancestors proportions startTime epochs defaults =>
      appendTo "demes" (.obj (demeDict name description ancestors proportions startTime epochs defaults)) data
  | .addMigration rate demes source dest startTime endTime =>
      appendTo "migrations" (.obj (migrationDict rate demes source dest startTime endTime)) data
  | .addPulse sources dest proportions time =>
      appendTo "pulses" (.obj (pulseDict sources dest proportions time)) data
  | .resolve => data

/-- `Builder()` -/
def emptyData : Obj := initData none none none none none none

/-- the `data` dictionary after a sequence of calls (a sequence normally starts with `init`; one
that does not is run on `Builder()`) -/
def run (calls : List BuilderCall) : Obj := calls.foldl step emptyData

/-- `Builder(...)`, calls, `.resolve()` -/
def resolve (calls : List BuilderCall) : Except Err Graph := Demes.resolve (.obj (run calls))

/-! ### `Builder.fromdict` and histories

`Builder.fromdict(data)` stores whatever it is given (`builder.data = data`), so here the state is
any `Value`.  On a non-mapping every `add_*` raises (`TypeError` from `"demes" not in data` or from
the item assignment) and leaves the data as it is. -/

def fromdict (data : Value) : Value := data

def stepV (data : Value) (c : BuilderCall) : Value :=
  match c with
  | .init description timeUnits generationTime doi defaults metadata =>
      .obj (initData description timeUnits generationTime doi defaults metadata)
  | c =>
    match data with
    | .obj d => .obj (step d c)
    | v => v

/-- does the call raise (for `resolve`: does `Graph.fromdict` raise)? -/
def raises (data : Value) : BuilderCall → Bool
  | .init .. => false
  | .addDeme .. => match data with | .obj d => appendRaises "demes" d | _ => true
  | .addMigration .. => match data with | .obj d => appendRaises "migrations" d | _ => true
  | .addPulse .. => match data with | .obj d => appendRaises "pulses" d | _ => true
  | .resolve => match Demes.resolve data with | .ok _ => false | .error _ => true

def runFrom (data : Value) (calls : List BuilderCall) : Value := calls.foldl stepV data

/-- what one call hands back: `resolve` a graph or an error, every other call nothing -/
def output (data : Value) : BuilderCall → Option (Except Err Graph)
  | .resolve => some (Demes.resolve data)
  | _ => none

/-- the results of the `resolve` calls of a history, in order -/
def outcomesFrom (data : Value) : List BuilderCall → List (Except Err Graph)
  | [] => []
  | c :: cs =>
    match output data c with
    | some r => r :: outcomesFrom (stepV data c) cs
    | none => outcomesFrom (stepV data c) cs

def outcomes (calls : List BuilderCall) : List (Except Err Graph) :=
  outcomesFrom (.obj emptyData) calls

end Builder
end Demes
