/-
  Proofs for the Builder route, part 2 — a Builder-expressible document entered through Builder
  calls: the data dictionary is the document with its keys in the Builder's order, and it resolves
  exactly like the document (same graph or same error).
-/
import DemesVerif.Proofs.BuilderDoc
namespace Demes.Proofs.BuilderRoute
open Demes Demes.Obj Demes.Spec Demes.Spec.BuilderRoute Demes.Builder Demes.Proofs

/-! ### resolution only looks fields up -/

/-- the two mappings pass the field whitelist and have the same fields -/
def ObjEquiv (allowed : List String) (x y : Obj) : Prop :=
  checkAllowed x allowed = .ok () ∧ checkAllowed y allowed = .ok () ∧ ∀ k, lookup k x = lookup k y

theorem resolveDeme_congr (dd ge : Obj) (g : Graph) (x y : Obj) (h : ObjEquiv allowedDemeInner x y) :
    resolveDeme dd ge g x = resolveDeme dd ge g y := by
  obtain ⟨hx, hy, hl⟩ := h
  have hl' : ∀ k, lookup k (insertDefaults x dd) = lookup k (insertDefaults y dd) := by
    intro k; rw [lookup_insertDefaults, lookup_insertDefaults, hl]
  unfold resolveDeme
  simp only [hx, hy, hl, hl', popObject, popObjList, lookupNN, contains]

theorem resolveMigration_congr (md : Obj) (g : Graph) (x y : Obj) (h : ObjEquiv allowedMigration x y) :
    resolveMigration md g x = resolveMigration md g y := by
  obtain ⟨hx, hy, hl⟩ := h
  have hl' : ∀ k, lookup k (insertDefaults x md) = lookup k (insertDefaults y md) := by
    intro k; rw [lookup_insertDefaults, lookup_insertDefaults, hl]
  unfold resolveMigration
  simp only [hx, hy, hl', lookupNN]

theorem resolvePulse_congr (pd : Obj) (g : Graph) (x y : Obj) (h : ObjEquiv allowedPulse x y) :
    resolvePulse pd g x = resolvePulse pd g y := by
  obtain ⟨hx, hy, hl⟩ := h
  have hl' : ∀ k, lookup k (insertDefaults x pd) = lookup k (insertDefaults y pd) := by
    intro k; rw [lookup_insertDefaults, lookup_insertDefaults, hl]
  unfold resolvePulse
  simp only [hx, hy, hl']

/-- lists of equal length whose elements are pairwise related -/
inductive ListRel (R : Obj → Obj → Prop) : List Obj → List Obj → Prop where
  | nil : ListRel R [] []
  | cons {a b : Obj} {l l' : List Obj} : R a b → ListRel R l l' → ListRel R (a :: l) (b :: l')

theorem foldlM_forall2 {R : Obj → Obj → Prop} {f : Graph → Obj → Except Err Graph} {l l' : List Obj}
    (h : ListRel R l l') (hf : ∀ g x y, R x y → f g x = f g y) (g : Graph) :
    l.foldlM f g = l'.foldlM f g := by
  induction h generalizing g with
  | nil => rfl
  | cons hxy _ ih =>
    rw [List.foldlM_cons, List.foldlM_cons, hf g _ _ hxy]
    congr 1
    funext g'
    exact ih g'

theorem isEmpty_forall2 {R : Obj → Obj → Prop} {l l' : List Obj} (h : ListRel R l l') :
    l.isEmpty = l'.isEmpty := by
  cases h <;> rfl

/-- `Graph.fromdict` on a mapping, with the three section lists as read from it made explicit -/
def resolveWith (data : Obj) (dl ml pl : Except Err (List Obj)) : Except Err Graph := do
  checkAllowed data allowedTop
  let defaults ← popObject data "defaults"
  checkAllowed defaults allowedDefaults
  let demeDefaults ← popObject defaults "deme"
  checkDefaults demeDefaults demeDefaultsTable
  let migrationDefaults ← popObject defaults "migration"
  checkDefaults migrationDefaults migrationDefaultsTable
  let pulseDefaults ← popObject defaults "pulse"
  checkDefaults pulseDefaults pulseDefaultsTable
  let globalEpochDefaults ← popObject defaults "epoch"
  checkDefaults globalEpochDefaults epochDefaultsTable
  let g ← resolveHeader data
  let demesList ← dl
  if demesList.isEmpty then valueErr "toplevel: 'demes' must be a non-empty list"
  let g ← demesList.foldlM (resolveDeme demeDefaults globalEpochDefaults) g
  let migs ← ml
  let g ← migs.foldlM (resolveMigration migrationDefaults) g
  checkMigrationRates g
  let pulses ← pl
  let g ← pulses.foldlM (resolvePulse pulseDefaults) g
  pure { g with pulses := sortPulses g.pulses }

theorem resolve_eq_resolveWith (data : Obj) :
    Demes.resolve (.obj data) = resolveWith data (popObjList data "demes" none)
      (popObjList data "migrations" (some [])) (popObjList data "pulses" (some [])) := rfl

/-- two readings of a section: the same error, or lists of pairwise equivalent mappings -/
inductive SecRel (allowed : List String) : Except Err (List Obj) → Except Err (List Obj) → Prop where
  | err (e : Err) : SecRel allowed (.error e) (.error e)
  | ok (l l' : List Obj) : ListRel (ObjEquiv allowed) l l' → SecRel allowed (.ok l) (.ok l')

theorem resolveWith_congr_demes (data : Obj) {dl dl' : Except Err (List Obj)}
    (ml pl : Except Err (List Obj)) (h : SecRel allowedDemeInner dl dl') :
    resolveWith data dl ml pl = resolveWith data dl' ml pl := by
  cases h with
  | err e => rfl
  | ok l l' h =>
    have h1 := isEmpty_forall2 h
    have h2 : ∀ dd ge g, List.foldlM (resolveDeme dd ge) g l = List.foldlM (resolveDeme dd ge) g l' :=
      fun dd ge g => foldlM_forall2 h (fun g x y hxy => resolveDeme_congr dd ge g x y hxy) g
    unfold resolveWith
    simp only [ok_bind, h1, h2]

theorem resolveWith_congr_migrations (data : Obj) (dl : Except Err (List Obj))
    {ml ml' : Except Err (List Obj)} (pl : Except Err (List Obj)) (h : SecRel allowedMigration ml ml') :
    resolveWith data dl ml pl = resolveWith data dl ml' pl := by
  cases h with
  | err e => rfl
  | ok l l' h =>
    have h2 : ∀ md g, List.foldlM (resolveMigration md) g l = List.foldlM (resolveMigration md) g l' :=
      fun md g => foldlM_forall2 h (fun g x y hxy => resolveMigration_congr md g x y hxy) g
    unfold resolveWith
    simp only [ok_bind, h2]

theorem resolveWith_congr_pulses (data : Obj) (dl ml : Except Err (List Obj))
    {pl pl' : Except Err (List Obj)} (h : SecRel allowedPulse pl pl') :
    resolveWith data dl ml pl = resolveWith data dl ml pl' := by
  cases h with
  | err e => rfl
  | ok l l' h =>
    have h2 : ∀ pd g, List.foldlM (resolvePulse pd) g l = List.foldlM (resolvePulse pd) g l' :=
      fun pd g => foldlM_forall2 h (fun g x y hxy => resolvePulse_congr pd g x y hxy) g
    unfold resolveWith
    simp only [ok_bind, h2]

/-- the header part of resolution reads six fields and checks the whitelist -/
theorem resolveWith_congr_data (a b : Obj) (dl ml pl : Except Err (List Obj))
    (hca : checkAllowed a allowedTop = checkAllowed b allowedTop)
    (h : ∀ k ∈ headerKeys, lookup k a = lookup k b) :
    resolveWith a dl ml pl = resolveWith b dl ml pl := by
  have h1 := h "defaults" (by decide)
  have h2 := h "description" (by decide)
  have h3 := h "time_units" (by decide)
  have h4 := h "generation_time" (by decide)
  have h5 := h "doi" (by decide)
  have h6 := h "metadata" (by decide)
  unfold resolveWith
  simp only [hca, popObject, resolveHeader, lookupNN, h1, h2, h3, h4, h5, h6]

/-! ### `pick` -/

theorem lookup_pick (k : String) (ks : List String) (o : Obj) :
    lookup k (pick ks o) = if k ∈ ks then lookup k o else none := by
  induction ks with
  | nil => simp [pick, lookup_nil]
  | cons k' ks ih =>
    have : pick (k' :: ks) o = field k' (lookup k' o) ++ pick ks o := by simp [pick]
    rw [this, lookup_append, lookup_field, ih]
    by_cases hk : k' = k
    · subst hk
      cases hl : lookup k' o <;> simp
    · have : ¬ k = k' := fun e => hk e.symm
      simp [hk, this]

theorem keys_field_subset (k : String) (x : Option Value) : ∀ k' ∈ keys (field k x), k' = k := by
  cases x <;> simp [field, keys]

theorem keys_pick_subset (ks : List String) (o : Obj) : ∀ k ∈ keys (pick ks o), k ∈ ks := by
  intro k hk
  simp only [pick, keys, List.map_flatMap, List.mem_flatMap] at hk
  obtain ⟨k', hk', hm⟩ := hk
  have := keys_field_subset k' (lookup k' o) k (by simpa [keys] using hm)
  exact this ▸ hk'

theorem keysWithin_mem {ks : List String} {o : Obj} (h : keysWithin ks o = true) :
    ∀ k ∈ keys o, k ∈ ks := by
  simp only [keysWithin, Bool.and_eq_true, List.all_eq_true, List.contains_iff_mem] at h
  exact h.2

theorem objEquiv_pick (ks allowed : List String) (o : Obj) (hks : ∀ k ∈ ks, k ∈ allowed)
    (hw : keysWithin ks o = true) : ObjEquiv allowed (pick ks o) o := by
  have hm := keysWithin_mem hw
  refine ⟨?_, ?_, ?_⟩
  · rw [checkAllowed_ok_iff]
    exact fun k hk => hks k (keys_pick_subset ks o k hk)
  · rw [checkAllowed_ok_iff]
    exact fun k hk => hks k (hm k hk)
  · intro k
    rw [lookup_pick]
    split
    · rfl
    · rename_i hk
      exact ((lookup_eq_none_iff k o).2 (fun h => hk (hm k h))).symm

/-! ### the forms -/

theorem noNullAt_notNull {ks : List String} {o : Obj} (h : noNullAt ks o = true) :
    ∀ k ∈ ks, notNull (lookup k o) = lookup k o := by
  intro k hk
  simp only [noNullAt, List.all_eq_true] at h
  have := h k hk
  unfold notNull
  split
  · rename_i heq; rw [heq] at this; simp at this
  · rfl

theorem map_infinityString {x : Option Value} (h : isInfinityString x = false) :
    x.map infinityString = x := by
  cases x with
  | none => rfl
  | some v =>
    cases v with
    | str s =>
      have : ¬ s = "Infinity" := by simpa [isInfinityString] using h
      simp [Option.map, infinityString, this]
    | _ => rfl

theorem specDeme_eq_pick (o : Obj) (h : demeForm o = true) :
    specDeme ((lookup "name" o).getD .null) (lookup "description" o) (lookup "ancestors" o)
      (lookup "proportions" o) (lookup "start_time" o) (lookup "epochs" o) (lookup "defaults" o)
      = pick demeKeys o := by
  simp only [demeForm, Bool.and_eq_true, Bool.not_eq_true'] at h
  obtain ⟨⟨⟨_, hname⟩, hnn⟩, hinf⟩ := h
  have hn := noNullAt_notNull hnn
  obtain ⟨v, hv⟩ : ∃ v, lookup "name" o = some v := by
    rw [contains_eq] at hname
    cases hl : lookup "name" o with
    | none => simp [hl] at hname
    | some v => exact ⟨v, rfl⟩
  simp only [specDeme, pick, demeKeys, List.flatMap_cons, List.flatMap_nil, List.append_nil]
  rw [hn "description" (by decide), hn "ancestors" (by decide), hn "proportions" (by decide),
    hn "start_time" (by decide), hn "epochs" (by decide), hn "defaults" (by decide),
    map_infinityString hinf, hv]
  simp [field]

theorem specMigration_eq_pick (o : Obj) (h : migrationForm o = true) :
    specMigration (lookup "rate" o) (lookup "demes" o) (lookup "source" o) (lookup "dest" o)
      (lookup "start_time" o) (lookup "end_time" o) = pick migrationKeys o := by
  simp only [migrationForm, Bool.and_eq_true, Bool.not_eq_true'] at h
  obtain ⟨⟨_, hnn⟩, hinf⟩ := h
  have hn := noNullAt_notNull hnn
  simp only [specMigration, pick, migrationKeys, List.flatMap_cons, List.flatMap_nil,
    List.append_nil]
  rw [hn "rate" (by decide), hn "start_time" (by decide), hn "end_time" (by decide),
    map_infinityString hinf]
  simp

theorem specPulse_eq_pick (o : Obj) (h : pulseForm o = true) :
    specPulse (lookup "sources" o) (lookup "dest" o) (lookup "proportions" o) (lookup "time" o)
      = pick pulseKeys o := by
  simp only [pulseForm, Bool.and_eq_true] at h
  have hn := noNullAt_notNull h.2
  simp only [specPulse, pick, pulseKeys, List.flatMap_cons, List.flatMap_nil, List.append_nil]
  rw [hn "sources" (by decide), hn "dest" (by decide), hn "proportions" (by decide),
    hn "time" (by decide)]
  simp

theorem specHeader_eq_pick (d : Obj) (htu : contains "time_units" d = true)
    (hnn : noNullAt ["description", "generation_time", "doi", "defaults", "metadata"] d = true) :
    specHeader (lookup "description" d) (lookup "time_units" d) (lookup "generation_time" d)
      (lookup "doi" d) (lookup "defaults" d) (lookup "metadata" d) = pick headerKeys d := by
  have hn := noNullAt_notNull hnn
  obtain ⟨v, hv⟩ : ∃ v, lookup "time_units" d = some v := by
    rw [contains_eq] at htu
    cases hl : lookup "time_units" d with
    | none => simp [hl] at htu
    | some v => exact ⟨v, rfl⟩
  simp only [specHeader, pick, headerKeys, List.flatMap_cons, List.flatMap_nil, List.append_nil]
  rw [hn "description" (by decide), hn "generation_time" (by decide), hn "doi" (by decide),
    hn "defaults" (by decide), hn "metadata" (by decide), hv]
  simp [field]

/-! ### the data dictionary of `callsOfDoc d` -/

theorem lookup_sectionEntry (k k' : String) (items : List Value) :
    lookup k (sectionEntry k' items)
      = if k' = k ∧ items ≠ [] then some (Value.list items) else none := by
  cases items with
  | nil => simp [sectionEntry, lookup_nil]
  | cons x xs => simp [sectionEntry, lookup_cons, lookup_nil]

theorem appendTo_first {key : String} {data : Obj} (hn : lookup key data = none) (i : Value) :
    appendTo key i data = data ++ [(key, .list [i])] := by
  unfold appendTo
  have hc : contains key data = false := by rw [contains_eq, hn]; rfl
  simp only [hc, Bool.false_eq_true, if_false]
  rw [set_eq_append hn, lookup_append, hn]
  simp only [lookup_cons, if_true, HOrElse.hOrElse, OrElse.orElse, Option.orElse]
  rw [set_append_right hn]
  simp [Obj.set]

theorem appendTo_next {key : String} {data : Obj} (hn : lookup key data = none) (pre : List Value)
    (i : Value) :
    appendTo key i (data ++ [(key, .list pre)]) = data ++ [(key, .list (pre ++ [i]))] := by
  unfold appendTo
  have hl : lookup key (data ++ [(key, Value.list pre)]) = some (.list pre) := by
    rw [lookup_append, hn]; simp [lookup_cons]
  have hc : contains key (data ++ [(key, Value.list pre)]) = true := by rw [contains_eq, hl]; rfl
  simp only [hc, if_true, hl]
  rw [set_append_right hn]
  simp [Obj.set]

theorem foldl_appendTo_next {key : String} {data : Obj} (hn : lookup key data = none)
    (items pre : List Value) :
    items.foldl (fun d i => appendTo key i d) (data ++ [(key, .list pre)])
      = data ++ [(key, .list (pre ++ items))] := by
  induction items generalizing pre with
  | nil => simp
  | cons i items ih => rw [List.foldl_cons, appendTo_next hn, ih]; simp

theorem foldl_appendTo {key : String} {data : Obj} (hn : lookup key data = none) (items : List Value) :
    items.foldl (fun d i => appendTo key i d) data = data ++ sectionEntry key items := by
  cases items with
  | nil => simp [sectionEntry]
  | cons i items =>
    rw [List.foldl_cons, appendTo_first hn, foldl_appendTo_next hn]
    simp [sectionEntry]

/-- what `callsOfDoc d` builds (no hypothesis on `d`) -/
def enteredDoc (d : Obj) : Obj :=
  specHeader (lookup "description" d) (lookup "time_units" d) (lookup "generation_time" d)
      (lookup "doi" d) (lookup "defaults" d) (lookup "metadata" d)
    ++ sectionEntry "demes" ((sectionItems "demes" d).map (fun o => Value.obj
        (specDeme ((lookup "name" o).getD .null) (lookup "description" o) (lookup "ancestors" o)
          (lookup "proportions" o) (lookup "start_time" o) (lookup "epochs" o) (lookup "defaults" o))))
    ++ sectionEntry "migrations" ((sectionItems "migrations" d).map (fun o => Value.obj
        (specMigration (lookup "rate" o) (lookup "demes" o) (lookup "source" o) (lookup "dest" o)
          (lookup "start_time" o) (lookup "end_time" o))))
    ++ sectionEntry "pulses" ((sectionItems "pulses" d).map (fun o => Value.obj
        (specPulse (lookup "sources" o) (lookup "dest" o) (lookup "proportions" o) (lookup "time" o))))

theorem foldl_appendTo_map {α} (f : α → Value) {key : String} {data : Obj}
    (hn : lookup key data = none) (xs : List α) :
    xs.foldl (fun d o => appendTo key (f o) d) data = data ++ sectionEntry key (xs.map f) := by
  have := foldl_appendTo hn (xs.map f)
  rwa [List.foldl_map] at this

theorem foldl_three_sections (H : Obj) (hd : lookup "demes" H = none)
    (hm : lookup "migrations" H = none) (hp : lookup "pulses" H = none)
    (fd fm fp : Obj → Value) (D M P : List Obj) :
    P.foldl (fun d o => appendTo "pulses" (fp o) d)
      (M.foldl (fun d o => appendTo "migrations" (fm o) d)
        (D.foldl (fun d o => appendTo "demes" (fd o) d) H))
      = H ++ sectionEntry "demes" (D.map fd) ++ sectionEntry "migrations" (M.map fm)
          ++ sectionEntry "pulses" (P.map fp) := by
  rw [foldl_appendTo_map fd hd]
  have hm' : lookup "migrations" (H ++ sectionEntry "demes" (D.map fd)) = none := by
    rw [lookup_append, lookup_sectionEntry, hm]; simp
  rw [foldl_appendTo_map fm hm']
  have hp' : lookup "pulses" (H ++ sectionEntry "demes" (D.map fd)
      ++ sectionEntry "migrations" (M.map fm)) = none := by
    rw [lookup_append, lookup_append, lookup_sectionEntry, lookup_sectionEntry, hp]; simp
  rw [foldl_appendTo_map fp hp']

theorem run_callsOfDoc (d : Obj) : run (callsOfDoc d) = enteredDoc d := by
  unfold run callsOfDoc enteredDoc
  simp only [List.foldl_append, List.foldl_cons, List.foldl_nil, List.foldl_map]
  simp only [step, demeCall, migrationCall, pulseCall, initData_eq, demeDict_eq, migrationDict_eq,
    pulseDict_eq]
  have h1 := lookup_specHeader_key (lookup "description" d) (lookup "time_units" d)
      (lookup "generation_time" d) (lookup "doi" d) (lookup "defaults" d) (lookup "metadata" d)
  exact foldl_three_sections _ (h1 .demes) (h1 .migrations) (h1 .pulses) _ _ _ _ _ _

/-! ### sections of a Builder-expressible document -/

theorem sectionForm_items {k : String} {form : Obj → Bool} {ne : Bool} {d : Obj}
    (h : sectionForm k form ne d = true) : ∀ o ∈ sectionItems k d, form o = true := by
  intro o ho
  unfold sectionForm at h
  unfold sectionItems at ho
  split at h
  · rename_i hl; simp [hl] at ho
  · rename_i xs hl
    simp only [hl, List.mem_filterMap] at ho
    obtain ⟨x, hx, hxo⟩ := ho
    simp only [Bool.and_eq_true, List.all_eq_true] at h
    have := h.1 x hx
    cases x <;> simp_all [Value.asObj?]
  · cases h

theorem filterMap_asObj_of_all {xs : List Value} {form : Obj → Bool}
    (h : ∀ x ∈ xs, (match x with | Value.obj o => form o | _ => false) = true) :
    xs = (xs.filterMap Value.asObj?).map Value.obj := by
  induction xs with
  | nil => rfl
  | cons x xs ih =>
    have hx := h x List.mem_cons_self
    cases x with
    | obj o =>
      simp only [List.filterMap_cons, Value.asObj?, List.map_cons]
      rw [← ih (fun y hy => h y (List.mem_cons_of_mem _ hy))]
    | _ => simp at hx

theorem mapM_instObj_map (os : List Obj) : (os.map Value.obj).mapM instObj = .ok os := by
  induction os with
  | nil => rfl
  | cons o os ih =>
    rw [List.map_cons, List.mapM_cons, ih]
    rfl

/-- reading section `k` from the document and from its canonical form -/
theorem secRel_section (k : String) (ks allowed : List String) (form : Obj → Bool) (ne : Bool)
    (dflt : Option (List Obj)) (d c : Obj)
    (hform : sectionForm k form ne d = true)
    (hc : lookup k c = lookup k (canonSection k ks d))
    (hf : ∀ o, form o = true → ObjEquiv allowed (pick ks o) o)
    (hd : (ne = true ∧ dflt = none) ∨ dflt = some []) :
    SecRel allowed (popObjList c k dflt) (popObjList d k dflt) := by
  have hitems := sectionForm_items hform
  unfold popObjList
  rw [hc]
  unfold canonSection
  rw [lookup_sectionEntry]
  unfold sectionForm at hform
  unfold sectionItems at hitems ⊢
  split at hform
  · -- the section is missing
    rename_i hl
    simp only [hl, List.map_nil, ne_eq, not_true_eq_false, and_false, if_false]
    cases dflt with
    | none => exact .err _
    | some x =>
      rcases hd with hd | hd
      · cases hd.2
      · cases hd; exact .ok [] [] .nil
  · rename_i xs hl
    simp only [Bool.and_eq_true, List.all_eq_true] at hform
    have hxs := filterMap_asObj_of_all (form := form) hform.1
    simp only [hl] at hitems ⊢
    generalize hos : xs.filterMap Value.asObj? = os at hxs hitems
    have hright : (instList (Value.list xs) >>= fun xs => xs.mapM instObj) = .ok os := by
      rw [hxs]; exact mapM_instObj_map os
    have hrel : ListRel (ObjEquiv allowed) (os.map (pick ks)) os := by
      clear hright hxs hos
      induction os with
      | nil => exact .nil
      | cons o os ih =>
        exact .cons (hf o (hitems o List.mem_cons_self))
          (ih (fun o' ho' => hitems o' (List.mem_cons_of_mem _ ho')))
    cases os with
    | nil =>
      have hxe : xs = [] := by simpa using hxs
      have hne : ne = false := by
        have := hform.2; simp [hxe] at this; exact this
      rcases hd with hd | hd
      · rw [hne] at hd; cases hd.1
      · subst hd
        simp only [List.map_nil, ne_eq, not_true_eq_false, and_false, if_false]
        show SecRel allowed (.ok []) (instList (Value.list xs) >>= fun xs => xs.mapM instObj)
        rw [hright]
        exact .ok [] [] .nil
    | cons o os =>
      simp only [List.map_cons, ne_eq, reduceCtorEq, not_false_eq_true, and_self, if_true]
      show SecRel allowed (instList (Value.list _) >>= fun xs => xs.mapM instObj)
        (instList (Value.list xs) >>= fun xs => xs.mapM instObj)
      rw [hright]
      have : (instList (Value.list (Value.obj (pick ks o) :: os.map (fun o => Value.obj (pick ks o))))
          >>= fun xs => xs.mapM instObj) = .ok ((o :: os).map (pick ks)) := by
        have h := mapM_instObj_map ((o :: os).map (pick ks))
        rw [List.map_map] at h
        exact h
      rw [this]
      exact .ok _ _ hrel
  · cases hform

end Demes.Proofs.BuilderRoute
