/-
  C09 §8, graph → ms → graph with exponential epochs: the sizes.

  The population the string interpreter builds from the size / growth updates `to_ms` emits for a deme
  (`embedPopV gv N0`, growth rates read through `gv`) has, at every time of the deme's lifetime, the size of
  the deme with every growth rate replaced by its printed value (`regrowPop gv N0`): `sizes_deme`.

  * `EvalInvV`, `embed_sizeV`: the size function of `embedPopV gv N0 p` is `popSizeAt` of the folded updates;
  * `regrowVal`: the value at `t` of the regrown segments, by recursion; `sizeAt_regrowSegs` (graph side);
  * `headV`, `fold_sizeEvs`: `Pop.change` along the updates of `sizeEvs` computes `regrowVal` (ms side).
-/
import DemesVerif.Proofs.MsGrowDefs
import DemesVerif.Proofs.MsRTSizes
import DemesVerif.Proofs.MsRTTransfer
import DemesVerif.Proofs.ToMsSemPops2
namespace Demes.Proofs.MsGrow
open Demes Demes.Ms Demes.Spec Demes.Spec.C07 Demes.Spec.C09
open Demes.Spec.MsSem (Seg PopSem Pop mkSeg)
open Demes.Spec.C08 (segRate segValue segOwns popSizeAt segsSizeAt finalSegs)
open Demes.Proofs.FromMs (PopWF SegChain change_wf joinedPop joinedPop_wf AscChain finalSegs_chain asc_owner
  segOwns_iff SegsBelow change_size popSizeAt_of_le mulExp_neg_zero_mul mulExp_neg_zero joinedPop_size
  finalSegs_size mulExp_mulExp mulExp_zero sizeAt_rebase mkSeg_fields)
open Demes.Proofs.MsRT (Tiles tiles_of_asc asc_growth tiles_lower)
open Demes.Proofs.ToMs (headEvs nextG g1Of sizeEvs sizeEvs_cons nextG_eq updClean segOf segGrowth_segOf EpochOk
  div_mul_cancelN updsOfDeme initUpd gPopOf)

/-! ## the ms side, generically: folding updates -/

/-- one update applied to a population of the string interpreter, growth rates read through `gv` -/
def applyV (gv : Growth → Q) (N0 : Q) (q : Pop) (u : Upd) : Pop :=
  q.change u.t (u.size.map Sz.ofQ) (u.growth.map (fun G => gv G / (4 * N0)))

def foldV (gv : Growth → Q) (N0 : Q) (q : Pop) (upds : List Upd) : Pop := upds.foldl (applyV gv N0) q

theorem evalUpdsV_eq (gv : Growth → Q) (N0 lo : Q) (upd : List Upd) :
    evalUpdsV gv N0 lo upd = foldV gv N0 { lo := lo, t0 := lo, size0 := Sz.ofQ 0 } upd := rfl

theorem foldV_append (gv : Growth → Q) (N0 : Q) (q : Pop) (a b : List Upd) :
    foldV gv N0 q (a ++ b) = foldV gv N0 (foldV gv N0 q a) b := by
  unfold foldV; rw [List.foldl_append]

theorem foldV_cons (gv : Growth → Q) (N0 : Q) (q : Pop) (u : Upd) (r : List Upd) :
    foldV gv N0 q (u :: r) = foldV gv N0 (applyV gv N0 q u) r := rfl

/-- the population built from the updates `upd` (all at or after `lo`, chronological) -/
structure EvalInvV (lo : Q) (upd : List Upd) (q : Pop) : Prop where
  wf : PopWF q
  below : SegsBelow q
  hiInf : q.hi = .inf
  loEq : q.lo = lo
  t0 : q.t0 = lo ∨ ∃ u ∈ upd, q.t0 = u.t

theorem evalInvV_init (lo : Q) : EvalInvV lo [] { lo := lo, t0 := lo, size0 := Sz.ofQ 0 } where
  wf := ⟨rfl, Or.inl rfl⟩
  below := fun s hs => by cases hs
  hiInf := rfl
  loEq := rfl
  t0 := Or.inl rfl

theorem evalInvV_step {gv : Growth → Q} {N0 lo : Q} {pre : List Upd} {q : Pop} {u : Upd} (h : EvalInvV lo pre q)
    (hord : ∀ v ∈ pre, v.t ≤ u.t) (hlo : lo ≤ u.t) : EvalInvV lo (pre ++ [u]) (applyV gv N0 q u) := by
  have hle : q.t0 ≤ u.t := by
    rcases h.t0 with e | ⟨v, hv, e⟩
    · rw [e]; exact hlo
    · rw [e]; exact hord v hv
  have ha : MsSem.alive q = true := by
    unfold MsSem.alive
    rw [h.hiInf]
    rfl
  unfold applyV
  obtain ⟨w1, _, _⟩ := change_wf u.t (u.size.map Sz.ofQ) (u.growth.map (fun G => gv G / (4 * N0))) h.wf ha
  obtain ⟨c1, _, _, c4, c5, c6, _⟩ := change_size q u.t (u.size.map Sz.ofQ) (u.growth.map (fun G => gv G / (4 * N0)))
    h.below hle
  exact ⟨w1, c6, by rw [c5, h.hiInf], by rw [c4, h.loEq], Or.inr ⟨u, by simp, c1⟩⟩

theorem evalInvV_fold {gv : Growth → Q} {N0 lo : Q} : ∀ (rest pre : List Upd) (q : Pop), EvalInvV lo pre q →
    (pre ++ rest).Pairwise (fun u v => u.t ≤ v.t) → (∀ u ∈ rest, lo ≤ u.t) →
    EvalInvV lo (pre ++ rest) (foldV gv N0 q rest)
  | [], pre, q, h, _, _ => by
    rw [List.append_nil]
    exact h
  | u :: r, pre, q, h, hs, hlo => by
    have hord : ∀ v ∈ pre, v.t ≤ u.t := by
      intro v hv
      exact (List.pairwise_append.mp hs).2.2 v hv u (List.mem_cons_self ..)
    have h1 := evalInvV_step (gv := gv) (N0 := N0) h hord (hlo u (List.mem_cons_self ..))
    have e : pre ++ u :: r = (pre ++ [u]) ++ r := by simp
    rw [foldV_cons, e]
    apply evalInvV_fold r (pre ++ [u]) _ h1
    · rw [← e]; exact hs
    · exact fun v hv => hlo v (List.mem_cons_of_mem _ hv)

theorem updWFV_lo {p : PopSemG} (hwf : UpdWFV p) : ∀ u ∈ p.upd, p.lo ≤ u.t := by
  obtain ⟨u0, r, e, h0, _⟩ := hwf.head
  have hs := hwf.sorted
  rw [e] at hs ⊢
  rw [List.pairwise_cons] at hs
  intro u hu
  rcases List.mem_cons.mp hu with rfl | hu
  · rw [h0]
  · rw [← h0]
    exact hs.1 u hu

theorem evalUpdsV_inv (gv : Growth → Q) (N0 : Q) {p : PopSemG} (hwf : UpdWFV p) :
    EvalInvV p.lo p.upd (evalUpdsV gv N0 p.lo p.upd) := by
  have := evalInvV_fold (gv := gv) (N0 := N0) p.upd [] _ (evalInvV_init p.lo)
    (by rw [List.nil_append]; exact hwf.sorted) (updWFV_lo hwf)
  rw [List.nil_append] at this
  exact this

theorem evalInvV_t0_le (gv : Growth → Q) (N0 : Q) {p : PopSemG} (hwf : UpdWFV p) {T : Q} (hT : p.hi = .fin T) :
    (evalUpdsV gv N0 p.lo p.upd).t0 ≤ T := by
  have hle : ∀ u ∈ p.upd, u.t ≤ T := by
    intro u hu
    have := hwf.hi u hu
    rw [hT] at this
    exact this
  rcases (evalUpdsV_inv gv N0 hwf).t0 with e | ⟨u, hu, e⟩
  · obtain ⟨u0, r, e0, h0, _⟩ := hwf.head
    rw [e, ← h0]
    exact hle u0 (by rw [e0]; exact List.mem_cons_self ..)
  · rw [e]; exact hle u hu

/-- the closed population: well formed, with the lifetime of `p` and the size function of the open one -/
theorem closePopV_inv (gv : Growth → Q) (N0 : Q) {p : PopSemG} (hwf : UpdWFV p) :
    PopWF (closePop (evalUpdsV gv N0 p.lo p.upd) p.hi) ∧ SegsBelow (closePop (evalUpdsV gv N0 p.lo p.upd) p.hi)
    ∧ (closePop (evalUpdsV gv N0 p.lo p.upd) p.hi).lo = p.lo ∧ (closePop (evalUpdsV gv N0 p.lo p.upd) p.hi).hi = p.hi
    ∧ ∀ t, popSizeAt (closePop (evalUpdsV gv N0 p.lo p.upd) p.hi) t = popSizeAt (evalUpdsV gv N0 p.lo p.upd) t := by
  have inv := evalUpdsV_inv gv N0 hwf
  cases hT : p.hi with
  | inf => exact ⟨inv.wf, inv.below, inv.loEq, inv.hiInf, fun _ => rfl⟩
  | fin T =>
    have hle := evalInvV_t0_le gv N0 hwf hT
    rw [MsRT.closePop_fin]
    obtain ⟨j1, _, j3, _, _⟩ := joinedPop_size (evalUpdsV gv N0 p.lo p.upd) T inv.below hle
    exact ⟨joinedPop_wf T inv.wf hle, j3, inv.loEq, rfl, j1⟩

/-- the segments of `embedPopV gv N0 p` tile the lifetime of `p`, each with an explicit growth rate -/
theorem embedPopV_tiles (gv : Growth → Q) (N0 : Q) {p : PopSemG} (hwf : UpdWFV p) :
    Tiles p.lo (embedPopV gv N0 p).segs p.hi ∧ ∀ s ∈ (embedPopV gv N0 p).segs, ∃ g, s.growth = some g := by
  obtain ⟨w, _, e1, e2, _⟩ := closePopV_inv gv N0 hwf
  have := finalSegs_chain w
  rw [e1, e2] at this
  exact ⟨tiles_of_asc this, asc_growth this⟩

/-- the size function of `embedPopV gv N0 p` on the lifetime of `p` -/
theorem embed_sizeV (gv : Growth → Q) (N0 : Q) {p : PopSemG} (hwf : UpdWFV p) {t : Q} (hlo : p.lo ≤ t)
    (hhi : ETime.fin t < p.hi) :
    C09.sizeAt (embedPopV gv N0 p) t = popSizeAt (evalUpdsV gv N0 p.lo p.upd) t := by
  obtain ⟨w, bl, e1, e2, e3⟩ := closePopV_inv gv N0 hwf
  have hasc := finalSegs_chain w
  rw [e1, e2] at hasc
  obtain ⟨sa, g, f1, f2, f3, f4, f5⟩ := asc_owner hasc hlo hhi
  have hv : segValue sa t = some (sa.size.mulExp (-g * (t - sa.t0))) := by
    have hr : segRate sa = some g := by unfold segRate; rw [f2]
    unfold segValue
    rw [hr]
    split
    · rename_i ht
      rw [ht, mulExp_neg_zero]
    · rfl
  have hs : C09.sizeAt (embedPopV gv N0 p) t = segValue sa t := by
    unfold C09.sizeAt embedPopV
    dsimp only
    rw [f1]
  rw [hs, hv, ← f5 t f3 f4, finalSegs_size _ bl t (by rw [e2]; exact hhi), e3 t]

/-! ## the graph side: the value of the regrown segments -/

/-- the size a regrown segment starts from -/
def sizeIn (prev : Option (Sz × Sz)) (s : Seg) : Sz :=
  match prev with
  | some (o, c) => if o = s.size then c else s.size
  | none => s.size

/-- the regrown segment -/
def segV (gv : Growth → Q) (N0 : Q) (prev : Option (Sz × Sz)) (s : Seg) : Seg :=
  { mkSeg s.t0 s.t1 (sizeIn prev s) (segRateV gv N0 s) with fn := s.fn }

/-- what the next segment is given: the original size at the older end, and the size reached there -/
def nextPrev (gv : Growth → Q) (N0 : Q) (prev : Option (Sz × Sz)) (s : Seg) : Option (Sz × Sz) :=
  match s.sizeOld, (segV gv N0 prev s).sizeOld with
  | some o, some o' => some (o, o')
  | _, _ => none

theorem regrowSegs_cons (gv : Growth → Q) (N0 : Q) (prev : Option (Sz × Sz)) (s : Seg) (ss : List Seg) :
    regrowSegs gv N0 prev (s :: ss) = segV gv N0 prev s :: regrowSegs gv N0 (nextPrev gv N0 prev s) ss := by
  cases prev with
  | none => rfl
  | some oc => rfl

theorem segV_t0 (gv : Growth → Q) (N0 : Q) (prev : Option (Sz × Sz)) (s : Seg) : (segV gv N0 prev s).t0 = s.t0 := rfl
theorem segV_t1 (gv : Growth → Q) (N0 : Q) (prev : Option (Sz × Sz)) (s : Seg) : (segV gv N0 prev s).t1 = s.t1 := rfl

theorem segOwns_segV (gv : Growth → Q) (N0 : Q) (prev : Option (Sz × Sz)) (s : Seg) (t : Q) :
    segOwns (segV gv N0 prev s) t = segOwns s t := rfl

theorem mem_regrowSegs {gv : Growth → Q} {N0 : Q} : ∀ (segs : List Seg) (prev : Option (Sz × Sz)) (s' : Seg),
    s' ∈ regrowSegs gv N0 prev segs → ∃ s ∈ segs, s'.t0 = s.t0 ∧ s'.t1 = s.t1
  | [], _, _, h => by simp [regrowSegs] at h
  | a :: r, prev, s', h => by
    rw [regrowSegs_cons] at h
    rcases List.mem_cons.mp h with rfl | h
    · exact ⟨a, List.mem_cons_self .., rfl, rfl⟩
    · obtain ⟨s, hs, e⟩ := mem_regrowSegs r _ s' h
      exact ⟨s, List.mem_cons_of_mem _ hs, e⟩

theorem tiles_regrow {gv : Growth → Q} {N0 : Q} : ∀ (segs : List Seg) (prev : Option (Sz × Sz)) (lo : Q) (hi : ETime),
    Tiles lo segs hi → Tiles lo (regrowSegs gv N0 prev segs) hi
  | [], _, _, _, h => h
  | a :: r, prev, lo, hi, h => by
    obtain ⟨h1, h3, h4⟩ := h
    rw [regrowSegs_cons]
    refine ⟨h1, h3, ?_⟩
    show (match a.t1 with
      | .fin b => Tiles b (regrowSegs gv N0 (nextPrev gv N0 prev a) r) hi
      | .inf => regrowSegs gv N0 (nextPrev gv N0 prev a) r = [] ∧ hi = .inf)
    cases hb : a.t1 with
    | inf =>
      rw [hb] at h4
      obtain ⟨e1, e2⟩ := h4
      subst e1
      exact ⟨rfl, e2⟩
    | fin b =>
      rw [hb] at h4
      exact tiles_regrow r _ b hi h4

/-- the value at `t` of the regrown segments (`none` when no segment owns `t`) -/
def regrowVal (gv : Growth → Q) (N0 : Q) : Option (Sz × Sz) → List Seg → Q → Option Sz
  | _, [], _ => none
  | prev, s :: ss, t =>
    if segOwns s t then some ((sizeIn prev s).mulExp (-(segRateV gv N0 s) * (t - s.t0)))
    else regrowVal gv N0 (nextPrev gv N0 prev s) ss t

/-- the size at `t` that a list of segments shows -/
def sizeAtL (segs : List Seg) (t : Q) : Option Sz :=
  match segs.filter (segOwns · t) with
  | [s] => segValue s t
  | _ => none

theorem sizeAt_eq_L (p : PopSem) (t : Q) : C09.sizeAt p t = sizeAtL p.segs t := rfl

theorem segValue_segV (gv : Growth → Q) (N0 : Q) (prev : Option (Sz × Sz)) (s : Seg) (t : Q) :
    segValue (segV gv N0 prev s) t = some ((sizeIn prev s).mulExp (-(segRateV gv N0 s) * (t - s.t0))) := by
  have hr : segRate (segV gv N0 prev s) = some (segRateV gv N0 s) := rfl
  unfold segValue
  rw [hr]
  split
  · rename_i ht
    rw [ht]
    show some (sizeIn prev s) = _
    rw [segV_t0, mulExp_neg_zero]
  · rfl

/-- **graph side**: on a tiling, the regrown segments show `regrowVal`, which is defined on the lifetime -/
theorem sizeAt_regrowSegs {gv : Growth → Q} {N0 : Q} : ∀ (segs : List Seg) (prev : Option (Sz × Sz)) (lo : Q) (hi : ETime)
    (t : Q), Tiles lo segs hi → lo ≤ t → ETime.fin t < hi →
    sizeAtL (regrowSegs gv N0 prev segs) t = regrowVal gv N0 prev segs t
      ∧ (regrowVal gv N0 prev segs t).isSome = true
  | [], _, lo, hi, t, h, h1, h2 => by
    have h' : hi = .fin lo := h
    rw [h'] at h2
    have : t < lo := h2
    grind
  | a :: r, prev, lo, hi, t, h, hlo, hhi => by
    obtain ⟨h1, h3, h4⟩ := h
    rw [regrowSegs_cons]
    by_cases hown : ETime.fin t < a.t1
    · have ho : segOwns a t = true := (segOwns_iff a t).mpr ⟨by rw [h1]; exact hlo, hown⟩
      have hrest : (regrowSegs gv N0 (nextPrev gv N0 prev a) r).filter (segOwns · t) = [] := by
        apply List.filter_eq_nil_iff.mpr
        intro s' hs' hso
        obtain ⟨s, hs, e0, _⟩ := mem_regrowSegs r _ s' hs'
        obtain ⟨hs1, _⟩ := (segOwns_iff s' t).mp hso
        cases hb : a.t1 with
        | inf => rw [hb] at h4; rw [h4.1] at hs; cases hs
        | fin b =>
          rw [hb] at h4 hown
          have := tiles_lower h4 s hs
          have : t < b := hown
          grind
      unfold sizeAtL regrowVal
      rw [List.filter_cons, segOwns_segV, if_pos ho, hrest, if_pos ho]
      exact ⟨segValue_segV gv N0 prev a t, rfl⟩
    · cases hb : a.t1 with
      | inf => rw [hb] at hown; exact absurd trivial hown
      | fin b =>
        rw [hb] at hown h4
        have hbt : b ≤ t := by
          have : ¬ t < b := hown
          grind
        have ho : segOwns a t = false := by
          cases hq : segOwns a t with
          | false => rfl
          | true =>
            have := ((segOwns_iff a t).mp hq).2
            rw [hb] at this
            exact absurd this hown
        obtain ⟨ih1, ih2⟩ := sizeAt_regrowSegs r (nextPrev gv N0 prev a) b hi t h4 hbt hhi
        unfold sizeAtL regrowVal
        rw [List.filter_cons, segOwns_segV, ho]
        simp only [Bool.false_eq_true, if_false]
        exact ⟨ih1, ih2⟩

/-- the first segment may as well be given a carried pair `(x, x)` -/
theorem sizeIn_none (s : Seg) (x : Sz) : sizeIn none s = sizeIn (some (x, x)) s := by
  unfold sizeIn
  by_cases h : x = s.size
  · simp [h]
  · simp [h]

theorem regrowVal_none (gv : Growth → Q) (N0 : Q) (x : Sz) (s : Seg) (ss : List Seg) (t : Q) :
    regrowVal gv N0 none (s :: ss) t = regrowVal gv N0 (some (x, x)) (s :: ss) t := by
  have h1 : sizeIn none s = sizeIn (some (x, x)) s := sizeIn_none s x
  have h2 : nextPrev gv N0 none s = nextPrev gv N0 (some (x, x)) s := by
    unfold nextPrev segV
    rw [h1]
  unfold regrowVal
  rw [h1, h2]

/-! ## the ms side: the updates of `sizeEvs` -/

/-- updates scheduled at one time `T` at or after the population's last change leave the sizes before `T` alone -/
theorem foldV_sameT {gv : Growth → Q} {N0 T : Q} : ∀ (upds : List Upd) (q : Pop), (∀ u ∈ upds, u.t = T) → SegsBelow q →
    q.t0 ≤ T → SegsBelow (foldV gv N0 q upds) ∧ (foldV gv N0 q upds).t0 ≤ T
      ∧ ∀ t, t < T → popSizeAt (foldV gv N0 q upds) t = popSizeAt q t
  | [], q, _, hb, hle => ⟨hb, hle, fun _ _ => rfl⟩
  | u :: r, q, hT, hb, hle => by
    have hu : u.t = T := hT u (List.mem_cons_self ..)
    obtain ⟨c1, _, _, _, _, c6, c7⟩ := change_size q u.t (u.size.map Sz.ofQ) (u.growth.map (fun G => gv G / (4 * N0)))
      hb (by rw [hu]; exact hle)
    obtain ⟨i1, i2, i3⟩ := foldV_sameT r (applyV gv N0 q u) (fun v hv => hT v (List.mem_cons_of_mem _ hv)) c6
      (by show (q.change u.t _ _).t0 ≤ T; rw [c1, hu])
    rw [foldV_cons]
    refine ⟨i1, i2, ?_⟩
    intro t ht
    rw [i3 t ht]
    show popSizeAt (q.change u.t _ _) t = _
    rw [c7 t, hu, if_neg (by grind)]

/-- what is known of the population when the updates of an epoch that ends at `T` are applied: `growth` is
the growth rate in force (as `to_ms` tracks it), `c` the size reached at `T` -/
structure Carry (gv : Growth → Q) (N0 : Q) (q : Pop) (T : Q) (growth : Growth) (c : Sz) : Prop where
  below : SegsBelow q
  t0le : q.t0 ≤ T
  growth : q.growth = gv growth / (4 * N0)
  size : q.sizeAt T = c

/-- one `Pop.change` at `T` -/
theorem carry_change {q : Pop} {T : Q} (hb : SegsBelow q) (hle : q.t0 ≤ T) (ns : Option Sz) (ng : Option Q) :
    SegsBelow (q.change T ns ng) ∧ (q.change T ns ng).t0 ≤ T ∧ (q.change T ns ng).growth = ng.getD q.growth
      ∧ (q.change T ns ng).sizeAt T = ns.getD (q.sizeAt T) := by
  obtain ⟨c1, c2, c3, _, _, c6, _⟩ := change_size q T ns ng hb hle
  refine ⟨c6, by rw [c1], c2, ?_⟩
  unfold Pop.sizeAt
  rw [c1, c3, mulExp_neg_zero]
  rfl

theorem updClean_size (N0 T : Q) (j : Int) (x : Q) :
    updClean N0 (.popSizeChange "" (.fin T) j (.fin x)) = ⟨T, some (x * N0), if 0 < T then some .zero else none⟩ := rfl

theorem updClean_growth (N0 T : Q) (j : Int) (G : Growth) :
    updClean N0 (.popGrowthRateChange "" (.fin T) j G) = ⟨T, none, some G⟩ := rfl

/-- **the updates of one epoch**: afterwards the growth rate in force is the one `to_ms` tracks (`nextG`), and
the size at the epoch's recent end is the epoch's end size when `-en` was printed, the size carried otherwise -/
theorem headV {gv : Growth → Q} {N0 : Q} (hN : 0 < N0) (hz : gv Growth.zero = 0) (j : Int) (size : Q)
    (growth : Growth) (e : Epoch) {q : Pop} {c : Sz} (hinv : growth = .zero ∨ 0 < e.endTime)
    (h : Carry gv N0 q e.endTime growth c) :
    Carry gv N0 (foldV gv N0 q ((headEvs N0 j size growth e).map (updClean N0))) e.endTime (nextG N0 size growth e)
      (if size = e.endSize then c else Sz.ofQ e.endSize) := by
  obtain ⟨hb, hle, hg, hs⟩ := h
  have hz4 : gv Growth.zero / (4 * N0) = 0 := by rw [hz]; simp
  unfold headEvs nextG g1Of
  by_cases h1 : size = e.endSize
  · -- no `-en`
    subst h1
    simp only [ne_eq, not_true_eq_false, if_false, List.nil_append, if_true]
    by_cases h2 : growth.eq (growthOf N0 e) = true
    · simp only [h2, Bool.not_true, Bool.false_eq_true, if_false, List.map_nil]
      exact ⟨hb, hle, hg, hs⟩
    · simp only [h2, Bool.not_false, if_true, List.map_cons, List.map_nil, updClean_growth]
      obtain ⟨a1, a2, a3, a4⟩ := carry_change hb hle none (some (gv (growthOf N0 e) / (4 * N0)))
      exact ⟨a1, a2, a3, a4.trans hs⟩
  · -- `-en` (or `-n`)
    simp only [ne_eq, h1, not_false_eq_true, if_true, if_false]
    have hg0 : q.growth = 0 ∨ 0 < e.endTime := by
      rcases hinv with h | h
      · left; rw [hg, h, hz4]
      · right; exact h
    -- the first update
    have hq1 := carry_change hb hle (some (Sz.ofQ (e.endSize / N0 * N0)))
      ((if 0 < e.endTime then some Growth.zero else none).map (fun G => gv G / (4 * N0)))
    obtain ⟨a1, a2, a3, a4⟩ := hq1
    have a3' : (q.change e.endTime (some (Sz.ofQ (e.endSize / N0 * N0)))
        ((if 0 < e.endTime then some Growth.zero else none).map (fun G => gv G / (4 * N0)))).growth
          = gv Growth.zero / (4 * N0) := by
      rw [a3, hz4]
      by_cases hp : 0 < e.endTime
      · simp [hp, hz]
      · simp only [hp, if_false, Option.map_none, Option.getD_none]
        rcases hg0 with h | h
        · exact h
        · exact absurd h hp
    have a4' : (q.change e.endTime (some (Sz.ofQ (e.endSize / N0 * N0)))
        ((if 0 < e.endTime then some Growth.zero else none).map (fun G => gv G / (4 * N0)))).sizeAt e.endTime
          = Sz.ofQ e.endSize := by
      rw [a4, div_mul_cancelN hN]; rfl
    by_cases h2 : Growth.zero.eq (growthOf N0 e) = true
    · simp only [h2, Bool.not_true, Bool.false_eq_true, if_false, List.append_nil, List.map_cons, List.map_nil,
        updClean_size]
      exact ⟨a1, a2, a3', a4'⟩
    · simp only [h2, Bool.not_false, if_true, List.map_append, List.map_cons, List.map_nil, updClean_size,
        updClean_growth]
      obtain ⟨b1, b2, b3, b4⟩ := carry_change a1 a2 none (some (gv (growthOf N0 e) / (4 * N0)))
      exact ⟨b1, b2, b3, b4.trans a4'⟩

theorem mem_headEvs_upd' {N0 : Q} {j : Int} {size : Q} {growth : Growth} {e : Epoch} :
    ∀ u ∈ (headEvs N0 j size growth e).map (updClean N0), u.t = e.endTime :=
  fun _ hu => ToMs.mem_headEvs_upd hu

theorem ofQ_inj {a b : Q} : Sz.ofQ a = Sz.ofQ b ↔ a = b := by
  constructor
  · intro h; injection h
  · intro h; rw [h]

theorem segRateV_segOf (gv : Growth → Q) {N0 : Q} {e : Epoch} (h : EpochOk e) :
    segRateV gv N0 (segOf e) = gv (growthOf N0 e) / (4 * N0) := by
  unfold segRateV
  rw [segGrowth_segOf h]
  rfl

theorem segOf_sizeOld (e : Epoch) : (segOf e).sizeOld = some (Sz.ofQ e.startSize) := rfl
theorem segOf_size (e : Epoch) : (segOf e).size = Sz.ofQ e.endSize := rfl
theorem segOf_t0 (e : Epoch) : (segOf e).t0 = e.endTime := rfl
theorem segOf_t1 (e : Epoch) : (segOf e).t1 = e.startTime := rfl

/-- **ms side**: folding the updates `to_ms` emits for the epochs `es` (youngest first) computes `regrowVal` -/
theorem fold_sizeEvs {gv : Growth → Q} {N0 : Q} (hN : 0 < N0) (hz : gv Growth.zero = 0) (j : Int)
    (InG : Growth → Prop)
    (hcg : ∀ G G', (G = .zero ∨ InG G) → InG G' → G.eq G' = true → gv G = gv G') :
    ∀ (es : List Epoch) (size : Q) (growth : Growth) (c : Sz) (q : Pop) (lo : Q) (hi : ETime),
      Tiles lo (es.map segOf) hi → (∀ e ∈ es, EpochOk e) → (∀ e ∈ es, InG (growthOf N0 e)) →
      (growth = .zero ∨ InG growth) → (growth = .zero ∨ 0 < lo) →
      Carry gv N0 q lo growth c →
      ∀ t, lo ≤ t → ∀ v, regrowVal gv N0 (some (Sz.ofQ size, c)) (es.map segOf) t = some v →
        popSizeAt (foldV gv N0 q ((sizeEvs N0 j size growth es).map (updClean N0))) t = some v
  | [], _, _, _, _, _, _, _, _, _, _, _, _, _, _, _, hv => by
    simp [regrowVal] at hv
  | e :: rest, size, growth, c, q, lo, hi, htile, hok, hin, hgin, hinv, hc, t, hlo, v, hv => by
    rw [List.map_cons] at htile hv
    obtain ⟨h1, h3, h4⟩ := htile
    have hlo' : e.endTime = lo := h1
    subst hlo'
    have heok := hok e (List.mem_cons_self ..)
    have hh := headV hN hz j size growth e hinv hc
    obtain ⟨hb', hle', hg', hs'⟩ := hh
    rw [sizeEvs_cons, List.map_append, foldV_append]
    unfold regrowVal at hv
    have hsz : sizeIn (some (Sz.ofQ size, c)) (segOf e) = (if size = e.endSize then c else Sz.ofQ e.endSize) := by
      unfold sizeIn
      rw [segOf_size]
      by_cases hse : size = e.endSize
      · simp [hse]
      · have : ¬ Sz.ofQ size = Sz.ofQ e.endSize := fun h => hse (ofQ_inj.mp h)
        simp [hse, this]
    -- the rate of the segment is the rate in force
    have hnext : nextG N0 size growth e = .zero ∨ InG (nextG N0 size growth e) := by
      unfold nextG g1Of
      by_cases hA : size = e.endSize
      · by_cases hB : growth.eq (growthOf N0 e) = true
        · simp only [ne_eq, hA, not_true_eq_false, if_false, hB, Bool.not_true, Bool.false_eq_true]
          exact hgin
        · simp only [ne_eq, hA, not_true_eq_false, if_false, hB, Bool.not_false, if_true]
          exact Or.inr (hin e (List.mem_cons_self ..))
      · by_cases hB : Growth.zero.eq (growthOf N0 e) = true
        · simp only [ne_eq, hA, not_false_eq_true, if_true, hB, Bool.not_true, Bool.false_eq_true, if_false]
          exact Or.inl trivial
        · simp only [ne_eq, hA, not_false_eq_true, if_true, hB, Bool.not_false]
          exact Or.inr (hin e (List.mem_cons_self ..))
    have hrate : gv (nextG N0 size growth e) / (4 * N0) = segRateV gv N0 (segOf e) := by
      rw [segRateV_segOf gv heok, hcg _ _ hnext (hin e (List.mem_cons_self ..)) (nextG_eq N0 size growth e)]
    by_cases hown : segOwns (segOf e) t = true
    · rw [if_pos hown] at hv
      injection hv with hv
      -- later updates are scheduled after `t`
      have hlt : ETime.fin t < e.startTime := ((segOwns_iff _ _).mp hown).2
      have hlater : popSizeAt (foldV gv N0 (foldV gv N0 q ((headEvs N0 j size growth e).map (updClean N0)))
          ((sizeEvs N0 j e.startSize (nextG N0 size growth e) rest).map (updClean N0))) t
          = popSizeAt (foldV gv N0 q ((headEvs N0 j size growth e).map (updClean N0))) t := by
        cases hb : e.startTime with
        | inf =>
          rw [show (segOf e).t1 = e.startTime from rfl, hb] at h4
          have hr : rest = [] := by
            have := h4.1
            simpa using this
          subst hr
          simp [sizeEvs, foldV]
        | fin b =>
          rw [show (segOf e).t1 = e.startTime from rfl, hb] at h4 h3
          rw [hb] at hlt
          exact later_sizeEvs (gv := gv) (N0 := N0) j rest _ _ _ b hi h4 hb' (by
            have : e.endTime < b := h3
            grind) t hlt
      rw [hlater, popSizeAt_of_le (by grind), ← hv, hsz, ← hs', ← hrate, ← hg']
      exact congrArg some (sizeAt_rebase _ _ _).symm
    · have hown' : segOwns (segOf e) t = false := by simpa using hown
      rw [hown'] at hv
      simp only [Bool.false_eq_true, if_false] at hv
      -- `t` is at or beyond the epoch's start
      cases hb : e.startTime with
      | inf =>
        exfalso
        have : segOwns (segOf e) t = true := (segOwns_iff _ _).mpr ⟨hlo, by
          show ETime.fin t < e.startTime
          rw [hb]; trivial⟩
        rw [this] at hown'
        cases hown'
      | fin b =>
        rw [show (segOf e).t1 = e.startTime from rfl, hb] at h4 h3
        have h3' : e.endTime < b := h3
        have hbt : b ≤ t := by
          by_cases hc' : t < b
          · exfalso
            have : segOwns (segOf e) t = true := (segOwns_iff _ _).mpr ⟨hlo, by
              show ETime.fin t < e.startTime
              rw [hb]; exact hc'⟩
            rw [this] at hown'
            cases hown'
          · grind
        -- the pair handed to the next segment
        have hnp : nextPrev gv N0 (some (Sz.ofQ size, c)) (segOf e)
            = some (Sz.ofQ e.startSize,
                (if size = e.endSize then c else Sz.ofQ e.endSize).mulExp (-(segRateV gv N0 (segOf e)) * (b - e.endTime))) := by
          unfold nextPrev segV
          rw [segOf_sizeOld, hsz]
          show (match some (Sz.ofQ e.startSize), (mkSeg e.endTime e.startTime _ _).sizeOld with
            | some o, some o' => some (o, o') | _, _ => none) = _
          unfold mkSeg
          rw [hb]
        rw [hnp] at hv
        have h0 : 0 ≤ e.endTime := heok.endTime
        refine fold_sizeEvs hN hz j InG hcg rest e.startSize (nextG N0 size growth e) _ _ b hi h4
          (fun x hx => hok x (List.mem_cons_of_mem _ hx)) (fun x hx => hin x (List.mem_cons_of_mem _ hx))
          hnext (Or.inr (by grind)) ?_ t hbt v hv
        refine ⟨hb', by grind, hg', ?_⟩
        rw [← hs', ← hrate, ← hg']
        exact (sizeAt_rebase _ _ _).symm
where
  /-- the updates of later epochs leave the sizes before them alone -/
  later_sizeEvs {gv : Growth → Q} {N0 : Q} (j : Int) : ∀ (es : List Epoch) (size : Q) (growth : Growth) (q : Pop) (lo : Q)
      (hi : ETime), Tiles lo (es.map segOf) hi → SegsBelow q → q.t0 ≤ lo → ∀ t, t < lo →
      popSizeAt (foldV gv N0 q ((sizeEvs N0 j size growth es).map (updClean N0))) t = popSizeAt q t
    | [], _, _, _, _, _, _, _, _, _, _ => by simp [sizeEvs, foldV]
    | e :: rest, size, growth, q, lo, hi, htile, hb, hle, t, ht => by
      rw [List.map_cons] at htile
      obtain ⟨h1, h3, h4⟩ := htile
      have hlo' : e.endTime = lo := h1
      subst hlo'
      rw [sizeEvs_cons, List.map_append, foldV_append]
      obtain ⟨i1, i2, i3⟩ := foldV_sameT (gv := gv) (N0 := N0) ((headEvs N0 j size growth e).map (updClean N0)) q
        mem_headEvs_upd' hb hle
      cases hbb : e.startTime with
      | inf =>
        rw [show (segOf e).t1 = e.startTime from rfl, hbb] at h4
        have hr : rest = [] := by
          have := h4.1
          simpa using this
        subst hr
        simp only [sizeEvs, List.map_nil]
        exact i3 t ht
      | fin b =>
        rw [show (segOf e).t1 = e.startTime from rfl, hbb] at h4 h3
        have h3' : e.endTime < b := h3
        rw [later_sizeEvs j rest _ _ _ b hi h4 i1 (by grind) t (by grind)]
        exact i3 t ht

/-! ## one deme -/

theorem eSeg_eq_segOf : MsRT.Tr.eSeg Sz.ofQ = segOf := rfl

theorem growth_eq_zero_left {G : Growth} (h : Growth.eq .zero G = true) : G = .zero := by
  cases G with
  | zero => rfl
  | sym r dt => cases h

/-- **sizes of one deme.**  For deme `k` of a valid ms-expressible graph in generations: the population the
string interpreter builds from the updates `to_ms` emits for the deme has, at every time of the deme's
lifetime, the size of the deme with every growth rate replaced by its printed value.  `InG` is any set of
growth rates that contains those of the graph's epochs and on which `gv` respects `Growth.eq`. -/
theorem sizes_deme {g : Graph} (c : ToMs.Clauses g) (hx : MsExpressible g = true) {N0 : Q} (hN : 0 < N0)
    {gv : Growth → Q} (hz : gv Growth.zero = 0) (InG : Growth → Prop)
    (hin : ∀ d ∈ g.demes, ∀ e ∈ d.epochs, InG (growthOf N0 e))
    (hcg : ∀ G G', InG G → InG G' → G.eq G' = true → gv G = gv G')
    {k : Nat} {d : Deme} (hd : g.demes[k]? = some d)
    (hwf : UpdWFV ⟨k + 1, 0, d.startTime, updsOfDeme N0 k d⟩) :
    ∀ t, d.endTime ≤ t → ETime.fin t < d.startTime →
      (C09.sizeAt (regrowPop gv N0 (gPopOf g d)) t).isSome = true ∧
      C09.sizeAt (embedPopV gv N0 ⟨k + 1, 0, d.startTime, updsOfDeme N0 k d⟩) t
        = C09.sizeAt (regrowPop gv N0 (gPopOf g d)) t := by
  intro t ht0 ht1
  have hdm : d ∈ g.demes := List.mem_of_getElem? hd
  have h5 := c.h5
  simp only [v5, List.all_eq_true, Bool.and_eq_true, Bool.not_eq_true', List.isEmpty_eq_false_iff] at h5
  obtain ⟨hne, hcont⟩ := h5 d hdm
  have htile : Tiles d.endTime (d.epochs.reverse.map segOf) d.startTime := by
    have := MsRT.Tr.contiguous_tiles Sz.ofQ d.epochs d.startTime hcont hne
    rw [eSeg_eq_segOf] at this
    exact this
  have hok : ∀ e ∈ d.epochs.reverse, EpochOk e := fun e he =>
    ToMs.epochOk_of_valid c hx hdm (List.mem_reverse.1 he)
  have hing : ∀ e ∈ d.epochs.reverse, InG (growthOf N0 e) := fun e he => hin d hdm e (List.mem_reverse.1 he)
  -- graph side
  obtain ⟨g1, g2⟩ := sizeAt_regrowSegs (gv := gv) (N0 := N0) (d.epochs.reverse.map segOf) none d.endTime d.startTime t
    htile ht0 ht1
  have hG : C09.sizeAt (regrowPop gv N0 (gPopOf g d)) t = regrowVal gv N0 none (d.epochs.reverse.map segOf) t := by
    rw [sizeAt_eq_L]
    exact g1
  rw [hG]
  refine ⟨g2, ?_⟩
  -- ms side
  have h0 : (0 : Q) ≤ d.endTime := by
    cases hes : d.epochs.reverse with
    | nil =>
      have : d.epochs = [] := by simpa using hes
      exact absurd this hne
    | cons e1 rest =>
      rw [hes, List.map_cons] at htile
      have h1 : e1.endTime = d.endTime := htile.1
      rw [← h1]
      exact (hok e1 (by rw [hes]; exact List.mem_cons_self ..)).endTime
  rw [embed_sizeV gv N0 hwf (t := t) (by show (0 : Q) ≤ t; grind) ht1]
  show popSizeAt (evalUpdsV gv N0 0 (updsOfDeme N0 k d)) t = _
  obtain ⟨v, hv⟩ := Option.isSome_iff_exists.mp g2
  rw [hv]
  have hq1 : evalUpdsV gv N0 0 (updsOfDeme N0 k d)
      = foldV gv N0 ({ lo := 0, t0 := 0, size0 := Sz.ofQ N0, growth := gv Growth.zero / (4 * N0) } : Pop)
          ((sizeEvs N0 ((k + 1 : Nat) : Int) N0 .zero d.epochs.reverse).map (updClean N0)) := by
    rw [evalUpdsV_eq]
    unfold updsOfDeme
    rw [foldV_cons]
    congr 1
  rw [hq1]
  have hz4 : gv Growth.zero / (4 * N0) = 0 := by rw [hz]; simp
  have hcg' : ∀ G G', (G = .zero ∨ InG G) → InG G' → G.eq G' = true → gv G = gv G' := by
    intro G G' h1 h2 h3
    rcases h1 with rfl | h1
    · rw [growth_eq_zero_left h3]
    · exact hcg G G' h1 h2 h3
  cases hes : d.epochs.reverse with
  | nil =>
    have : d.epochs = [] := by simpa using hes
    exact absurd this hne
  | cons e1 rest =>
    rw [hes] at hv htile hok hing
    rw [List.map_cons, regrowVal_none gv N0 (Sz.ofQ N0)] at hv
    rw [← List.map_cons] at hv
    refine fold_sizeEvs hN hz _ InG hcg' (e1 :: rest) N0 .zero (Sz.ofQ N0) _ d.endTime d.startTime htile hok hing
      (Or.inl rfl) (Or.inl rfl) ?_ t ht0 v hv
    refine ⟨(fun s hs => by cases hs), h0, rfl, ?_⟩
    show (Sz.ofQ N0).mulExp (-(gv Growth.zero / (4 * N0)) * (d.endTime - 0)) = Sz.ofQ N0
    rw [hz4]
    exact mulExp_neg_zero_mul _ _

#print axioms sizes_deme
#print axioms fold_sizeEvs
#print axioms sizeAt_regrowSegs
#print axioms embed_sizeV

end Demes.Proofs.MsGrow
