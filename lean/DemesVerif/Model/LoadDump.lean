/-
  demes/load_dump.py without the text layer: `_stringify_infinities`, `_unstringify_infinities`,
  `_no_null_values`, and the load / dump pipelines parametrised by an abstract text codec.
-/
import DemesVerif.Model.Simplify
namespace Demes

def infinityStr : String := "Infinity"

/-! ### `_stringify_infinities` (applied to the library's own dictionaries only) -/

def stringifyStart (kvs : Obj) : Obj :=
  kvs.map (fun kv =>
    if kv.1 = "start_time" then
      match kv.2 with
      | .num n => if n.isInf then (kv.1, Value.str infinityStr) else kv
      | _ => kv
    else kv)

def stringifyItems (v : Value) : Value :=
  match v with
  | .list xs => .list (xs.map (fun x => match x with | .obj kvs => .obj (stringifyStart kvs) | y => y))
  | y => y

/-- `_stringify_infinities(data)` -/
def stringifyInfinities (data : Obj) : Obj :=
  data.map (fun kv =>
    if kv.1 = "demes" || kv.1 = "migrations" then (kv.1, stringifyItems kv.2) else kv)

/-! ### `_unstringify_infinities` (applied to whatever the parser returned) -/

/-- `x.get("start_time") == "Infinity"` then `x["start_time"] = float("Infinity")` -/
def unstringifyStart (kvs : Obj) : Obj :=
  kvs.map (fun kv =>
    if kv.1 = "start_time" then
      match kv.2 with
      | .str s => if s = infinityStr then (kv.1, Value.num .pinf) else kv
      | _ => kv
    else kv)

/-- `for item in <v>: item.get(...)`: every element must be a mapping; iterating a mapping
yields its (string) keys, iterating a string its characters, both of which have no `.get` -/
def unstringifyItems (v : Value) : Except Err Value :=
  match v with
  | .list xs => do
    let ys ← xs.mapM (fun x => match x with
      | .obj kvs => pure (Value.obj (unstringifyStart kvs))
      | _ => (.error ⟨.other, "AttributeError: item has no attribute 'get'"⟩ : Except Err Value))
    pure (.list ys)
  | .obj kvs => if kvs.isEmpty then pure v else .error ⟨.other, "AttributeError: 'str' object has no attribute 'get'"⟩
  | .str s => if s.isEmpty then pure v else .error ⟨.other, "AttributeError: 'str' object has no attribute 'get'"⟩
  | _ => typeErr "object is not iterable"

/-- the `defaults` part: only `defaults.deme.start_time` and `defaults.migration.start_time` -/
def unstringifyDefaults (v : Value) : Except Err Value :=
  match v with
  | .obj kvs => do
    let kvs' ← kvs.mapM (fun kv =>
      if kv.1 = "migration" || kv.1 = "deme" then
        match kv.2 with
        | .obj inner => pure (kv.1, Value.obj (unstringifyStart inner))
        | _ => (.error ⟨.other, "AttributeError: no attribute 'get'"⟩ : Except Err (String × Value))
      else pure kv)
    pure (.obj kvs')
  | .list xs =>
    -- `data["defaults"][default]` with a string index on a list raises TypeError
    if xs.any (fun x => match x with | .str s => s = "migration" || s = "deme" | _ => false)
    then typeErr "list indices must be integers" else pure v
  | .str s =>
    -- iterating a string yields characters, never equal to "migration"/"deme"
    let _ := s; pure v
  | _ => typeErr "object is not iterable"

/-- `_unstringify_infinities(data)` -/
def unstringifyInfinities (data : Obj) : Except Err Obj := do
  if !(Obj.contains "demes" data) then keyErr "demes"
  data.mapM (fun kv =>
    if kv.1 = "demes" || kv.1 = "migrations" then do
      let v ← unstringifyItems kv.2; pure (kv.1, v)
    else if kv.1 = "defaults" then do
      let v ← unstringifyDefaults kv.2; pure (kv.1, v)
    else pure kv)

/-! ### `_no_null_values` -/

mutual
/-- `assert_no_nulls(d)` on a mapping's values -/
def noNullObj : List (String × Value) → Bool
  | [] => true
  | (_, v) :: rest => noNullVal v && noNullObj rest
/-- a value: mappings and lists are searched recursively (nested lists included) -/
def noNullVal : Value → Bool
  | .null => false
  | .obj kvs => noNullObj kvs
  | .list xs => noNullList xs
  | _ => true
def noNullList : List Value → Bool
  | [] => true
  | x :: xs => noNullVal x && noNullList xs
end

/-- `_no_null_values(data)`: everything except the top-level `metadata` -/
def noNullValues (data : Obj) : Except Err Unit :=
  if noNullObj (data.filter (fun kv => kv.1 ≠ "metadata")) then pure ()
  else valueErr "must have a non-null value"

/-! ### pipelines -/

inductive Format where
  | yaml | json
  deriving DecidableEq, Repr

/-- an abstract text codec (ruamel.yaml / json): `Text` is opaque -/
structure Codec (Text : Type) where
  ser : Format → Value → Option Text          -- `none`: serialisation error
  par : Format → Text → Option Value          -- `none`: syntax error
  serAll : List Value → Option Text           -- multi-document YAML
  parAll : Text → Option (List Value)

/-- `load_asdict` after parsing -/
def loadAsdictValue (v : Value) : Except Err Value := do
  let data ← match v with
    | .obj kvs => pure kvs
    | _ => (.error ⟨.other, "AttributeError: no attribute 'items'"⟩ : Except Err Obj)
  noNullValues data
  let data ← unstringifyInfinities data
  pure (.obj data)

def loadAsdict {Text} (c : Codec Text) (fmt : Format) (t : Text) : Except Err Value :=
  match c.par fmt t with
  | none => valueErr "syntax error"
  | some v => loadAsdictValue v

/-- `load` / `loads` -/
def load {Text} (c : Codec Text) (fmt : Format) (t : Text) : Except Err Graph := do
  let v ← loadAsdict c fmt t
  resolve v

/-- `load_all` consumed to the end -/
def loadAll {Text} (c : Codec Text) (t : Text) : Except Err (List Graph) :=
  match c.parAll t with
  | none => valueErr "syntax error"
  | some vs => vs.mapM (fun v => do let v' ← loadAsdictValue v; resolve v')

/-- the dictionary `dump` hands to the serialiser -/
def dumpValue (fmt : Format) (simplified : Bool) (g : Graph) : Value :=
  let d := if simplified then g.asdictSimplified else g.asdict
  match fmt, d with
  | .json, .obj kvs => .obj (stringifyInfinities kvs)
  | _, d => d

def dump {Text} (c : Codec Text) (fmt : Format) (simplified : Bool) (g : Graph) : Option Text :=
  c.ser fmt (dumpValue fmt simplified g)

def dumpAll {Text} (c : Codec Text) (simplified : Bool) (gs : List Graph) : Option Text :=
  c.serAll (gs.map (dumpValue .yaml simplified))

end Demes
