"""C10 — closeness comparison is a sound, symmetric equivalence on model semantics."""
from __future__ import annotations

from props.resolve_common import *  # noqa: F401,F403

RULE = ("pairs (g, g') with g' obtained from a generated valid graph by an allowed re-ordering / relabelling of non-semantic "
        "fields (descriptions, doi, metadata, migration order, ancestor order, valid deme order) or by perturbing exactly one "
        "semantic attribute by 2x / 1/2x the tolerance (relative or absolute), adding/removing an epoch, swapping pulses, "
        "changing header fields; both orders (g,g') and (g',g), default and custom tolerances; a case is one ordered pair; "
        "non-trivial = g' differs from g")
ASSUMPTIONS = ["perturbation factors are dyadic and a factor >= 2 away from the tolerance, so the double evaluation of math.isclose cannot disagree with the exact one",
               "'asserting and boolean forms agree' is checked on the Python pair (one function in the Model)"]
EXPLANATION = ("Theorems isclose_refl, isclose_symm, isclose_ignores, isclose_perm_migrations/_demes/_ancestors, isclose_sound "
               "(isclose => SemClose for every tolerance) and its contrapositives isclose_detects_* over the Lean Model of "
               "assert_close/isclose; Model tied to the code by exact comparison of the boolean on every pair; expected outcome of each "
               "perturbation evaluated independently.")

TOLS = [(None, None), (2.0 ** -20, 0.0), (0.0, 0.0), (0.0, 2.0 ** -10)]


def perturb(g, rng, rel, ab):
    """returns (kind, dict, expected)  expected: True close / False different / None unknown"""
    d = g.asdict()
    rel = 1e-9 if rel is None else rel
    ab = 1e-12 if ab is None else ab
    big = 1 + max(2 * rel, 2.0 ** -20) if rel > 0 else 1 + 2.0 ** -30
    small = 1 + rel / 2 if rel > 0 else 1.0
    kinds = ["none", "mig_order", "descriptions", "header_nonsemantic", "anc_order", "deme_order", "epoch_value_big", "epoch_value_small",
             "epoch_drop", "mig_value_big", "mig_value_small", "pulse_value_big", "pulse_swap", "time_units", "generation_time",
             "start_time_big", "deme_rename", "pulse_drop", "mig_drop", "pulse_props_permute", "pulse_props_permute", "anc_props_permute",
             "zero_time_abs_big", "zero_time_abs_big", "zero_time_abs_small",
             "anc_names_rotate", "pulse_sources_rotate", "equal_sizes_nonconstant", "equal_sizes_nonconstant"]
    kind = rng.choice(kinds)
    exp = None
    if kind == "none":
        exp = True
    elif kind == "mig_order":
        rng.shuffle(d["migrations"]); exp = True
    elif kind == "descriptions":
        for dm in d["demes"]:
            dm["description"] = rng.choice(["", "changed", dm["name"]])
        exp = True
    elif kind == "header_nonsemantic":
        d["description"] = "zzz"; d["doi"] = ["q"]; d["metadata"] = {"x": 1}; exp = True
    elif kind == "anc_order":
        hit = False
        for dm in d["demes"]:
            if len(dm["ancestors"]) > 1:
                dm["ancestors"].reverse(); dm["proportions"].reverse(); hit = True
        exp = True
    elif kind == "deme_order":
        # any order that still lists ancestors first
        names = [dm["name"] for dm in d["demes"]]
        for _ in range(4):
            i = rng.randrange(len(names) - 1) if len(names) > 1 else 0
            if len(names) > 1 and d["demes"][i]["name"] not in d["demes"][i + 1]["ancestors"]:
                d["demes"][i], d["demes"][i + 1] = d["demes"][i + 1], d["demes"][i]
        exp = True
    elif kind in ("epoch_value_big", "epoch_value_small"):
        e = rng.choice(rng.choice(d["demes"])["epochs"])
        k = rng.choice(["start_size", "end_size"])
        f = big if kind.endswith("big") else small
        if e["start_size"] == e["end_size"]:
            e["start_size"] *= f; e["end_size"] *= f
        else:
            e[k] *= f
        exp = (kind.endswith("small")) if abs(e[k] * (1 - 1 / f)) > 2 * ab or kind.endswith("small") else None
    elif kind == "epoch_drop":
        dm = rng.choice(d["demes"])
        if len(dm["epochs"]) > 1:
            dm["epochs"][-2]["end_time"] = dm["epochs"][-1]["end_time"]; dm["epochs"].pop(); exp = False
        else:
            exp = True
    elif kind in ("mig_value_big", "mig_value_small"):
        if d["migrations"]:
            m = rng.choice(d["migrations"])
            f = big if kind.endswith("big") else small
            old = m["rate"]
            m["rate"] = min(old * f, 1.0) if old else old
            if m["rate"] == old:
                exp = True
            else:
                exp = kind.endswith("small") or (abs(m["rate"] - old) <= ab) or None
                if kind.endswith("big") and abs(m["rate"] - old) > 2 * ab:
                    exp = False
        else:
            exp = True
    elif kind == "pulse_value_big":
        if d["pulses"]:
            p = rng.choice(d["pulses"])
            old = p["proportions"][0]
            p["proportions"][0] = old / big
            exp = False if abs(old - old / big) > 2 * ab else None
        else:
            exp = True
    elif kind in ("zero_time_abs_big", "zero_time_abs_small"):
        # a time that is 0 moved off 0: only the ABSOLUTE tolerance can call the two close
        slots = [m for m in d["migrations"] if m["end_time"] == 0]
        if rng.random() < 0.3 or not slots:
            slots = slots + [dm["epochs"][-1] for dm in d["demes"] if dm["epochs"][-1]["end_time"] == 0]
        if slots:
            x = rng.choice(slots)
            if kind.endswith("big"):
                x["end_time"] = 2.0 ** -35 if ab < 2.0 ** -37 else 4 * ab
                exp = False
            elif ab > 0:
                x["end_time"] = ab / 2; exp = True
            else:
                exp = True
        else:
            exp = True
    elif kind == "anc_names_rotate":
        # the same proportions in the same positions, attached to other ancestors
        cands = [dm for dm in d["demes"] if len(dm["ancestors"]) > 1 and max(dm["proportions"]) - min(dm["proportions"]) > 1e-3]
        if cands:
            dm = rng.choice(cands)
            dm["ancestors"] = dm["ancestors"][1:] + dm["ancestors"][:1]; exp = False
        else:
            exp = True
    elif kind == "pulse_sources_rotate":
        cands = [p for p in d["pulses"] if len(p["sources"]) > 1 and max(p["proportions"]) - min(p["proportions"]) > 1e-3]
        if cands:
            p = rng.choice(cands)
            p["sources"] = p["sources"][1:] + p["sources"][:1]; exp = False
        else:
            exp = True
    elif kind == "equal_sizes_nonconstant":
        # BOTH graphs are rebuilt: one has an epoch labelled exponential/linear whose sizes happen to be equal,
        # the other the same epoch with another end size
        cands = [(dm, j) for dm in d["demes"] for j, e in enumerate(dm["epochs"])
                 if not (j == 0 and math.isinf(dm["start_time"]))]
        if cands:
            dm, j = rng.choice(cands)
            e = dm["epochs"][j]
            e["size_function"] = rng.choice(["exponential", "linear"])
            e["end_size"] = e["start_size"]
            if j + 1 < len(dm["epochs"]) and False:
                pass
            d1 = copy.deepcopy(d)
            e["end_size"] = e["start_size"] * 2
            return kind, (d1, d), False
        exp = True
    elif kind == "pulse_props_permute":
        # same sources, proportions attached to different sources
        cands = [p for p in d["pulses"] if len(p["sources"]) > 1 and max(p["proportions"]) - min(p["proportions"]) > 1e-3]
        if cands:
            p = rng.choice(cands)
            p["proportions"].reverse(); exp = False
        else:
            exp = True
    elif kind == "anc_props_permute":
        cands = [dm for dm in d["demes"] if len(dm["ancestors"]) > 1 and max(dm["proportions"]) - min(dm["proportions"]) > 1e-3]
        if cands:
            dm = rng.choice(cands)
            dm["proportions"].reverse(); exp = False
        else:
            exp = True
    elif kind == "pulse_swap":
        if len(d["pulses"]) > 1 and d["pulses"][0] != d["pulses"][1]:
            d["pulses"][0], d["pulses"][1] = d["pulses"][1], d["pulses"][0]
            exp = None  # order matters unless resolution re-sorts them to the same order
        else:
            exp = True
    elif kind == "time_units":
        if d["time_units"] != "generations":
            d["time_units"] = d["time_units"] + "x"; exp = False
        else:
            exp = True
    elif kind == "generation_time":
        if d["time_units"] != "generations":
            d["generation_time"] = d["generation_time"] * 2; exp = False
        else:
            exp = True
    elif kind == "start_time_big":
        exp = True
        for dm in d["demes"]:
            if dm["ancestors"] and all(a_end < dm["start_time"] for a_end in [x["epochs"][-1]["end_time"] for x in d["demes"] if x["name"] in dm["ancestors"]]):
                pass
    elif kind == "deme_rename":
        exp = None
    elif kind == "pulse_drop":
        if d["pulses"]:
            d["pulses"].pop(); exp = False
        else:
            exp = True
    elif kind == "mig_drop":
        if d["migrations"]:
            d["migrations"].pop(); exp = False
        else:
            exp = True
    return kind, d, exp


def fixed_pairs():
    """pairs of valid graphs that differ in ONE semantic attribute carried by a value below the tolerances themselves: an
    ancestor (or pulse source) whose proportion is 2^-43 < abs_tol is exchanged for another deme — the SET of ancestors
    differs, so the graphs are not close whatever the tolerance says about the proportion"""
    tiny = 2.0 ** -43
    def g(anc, pulse_src=("Y",)):
        return {"time_units": "generations",
                "demes": [{"name": n, "epochs": [{"start_size": 100, "end_time": 0}]} for n in ("X", "Y", "Z")]
                + [{"name": "C", "ancestors": ["X", anc], "proportions": [1 - tiny, tiny], "start_time": 50, "epochs": [{"start_size": 10}]}],
                "pulses": [{"sources": ["X"] + list(pulse_src), "dest": "C", "time": 20, "proportions": [0.25, tiny]}]}
    return [("ancestor_set_tiny_proportion", g("Y"), g("Z"), False), ("pulse_source_set_tiny_proportion", g("Y", ("Y",)), g("Y", ("Z",)), False),
            ("identical_tiny_proportion", g("Y"), g("Y"), True)]


def check_fixed_pairs(ctx):
    for kind, da, db, exp in fixed_pairs():
        a = demes.Graph.fromdict(da); b = demes.Graph.fromdict(db)
        r = ctx.driver.batch([{"op": "isclose", "a": enc(a.asdict()), "b": enc(b.asdict())}])[0]
        v = a.isclose(b)
        ctx.count({"a": show(canon(a.asdict())), "b": show(canon(b.asdict())), "tol": [None, None]}, True, tags=[kind, f"close={v}"])
        ctx.compared += 1
        case = {"document": da, "perturbation": kind, "tolerances": [None, None], "b": show(canon(b.asdict())), "a": show(canon(a.asdict()))}
        if "ok" not in r or r["ok"] != v:
            ctx.disagreement("isclose", case, v, r)
        if v != b.isclose(a):
            ctx.violation("isclose is not symmetric", case)
        if v != exp:
            ctx.violation(f"isclose is {v} after perturbation '{kind}' (expected {exp})", case)
        for x, y in ((a, b), (b, a)):
            for dx, dy in zip(x.demes, y.demes):
                if dx.isclose(dy) != (exp or dx.name != "C" or kind.startswith("pulse")):
                    ctx.violation(f"Deme.isclose is {dx.isclose(dy)} after perturbation '{kind}' on deme {dx.name}", case)
            for px, py in zip(x.pulses, y.pulses):
                if px.isclose(py) != (exp or not kind.startswith("pulse")):
                    ctx.violation(f"Pulse.isclose is {px.isclose(py)} after perturbation '{kind}'", case)


def run(ctx):
    n = 160 if ctx.tier == "quick" else 3000
    done = 0
    check_fixed_pairs(ctx)
    while done < n and ctx.time_left() > 10:
        batch = gen_valid_graphs(ctx, min(80, n - done))
        done += len(batch)
        reqs, meta = [], []
        for doc, g, _ in batch:
            # graphs DERIVED from a graph that has already been compared (renamed copy: a rotation of the names; the
            # generations view) are the same models as their own fully-resolved dictionaries, resolved afresh
            try:
                g.isclose(g)
                names = [x.name for x in g.demes]
                derived = [("derived:in_generations", g.in_generations())]
                if len(names) > 1:
                    derived.append(("derived:rename_rotation", g.rename_demes(dict(zip(names, names[1:] + names[:1])))))
                    derived.append(("derived:rename_reversed_order", g.rename_demes(dict(zip(names, sorted(names, reverse=True))))
                                    if sorted(names, reverse=True) != names else g.rename_demes({names[0]: "zz_" + names[0]})))
                for kind, gd in derived:
                    ref = demes.Graph.fromdict(gd.asdict())
                    for a, b in ((gd, ref), (ref, gd)):
                        reqs.append({"op": "isclose", "a": enc(a.asdict()), "b": enc(b.asdict())}); meta.append((doc, kind, a, b, None, None, True))
            except Exception as e:  # noqa: BLE001
                ctx.violation(f"a derived graph cannot be built / resolved afresh ({type(e).__name__})", {"document": show(canon_doc(doc))})
            for _ in range(8):
                rel, ab = ctx.rng.choice(TOLS)
                kind, d2, exp = perturb(g, ctx.rng, rel, ab)
                try:
                    if isinstance(d2, tuple):
                        ga = demes.Graph.fromdict(d2[0]); g2 = demes.Graph.fromdict(d2[1])
                    elif kind == "deme_rename":
                        names = [x.name for x in g.demes]
                        g2 = g.rename_demes({names[0]: names[0] + "_q"}); exp = False
                    else:
                        g2 = demes.Graph.fromdict(d2)
                except Exception:  # noqa: BLE001
                    continue
                if kind == "pulse_swap" and exp is None:
                    exp = None if g2.asdict()["pulses"] != g.asdict()["pulses"] else True
                g1 = ga if isinstance(d2, tuple) else g
                for a, b in ((g1, g2), (g2, g1)):
                    req = {"op": "isclose", "a": enc(a.asdict()), "b": enc(b.asdict())}
                    if rel is not None:
                        req["rel"] = wire_num(rel); req["abs"] = wire_num(ab)
                    reqs.append(req); meta.append((doc, kind, a, b, rel, ab, exp))
        reps = ctx.driver.batch(reqs)
        for i, ((doc, kind, a, b, rel, ab, exp), r) in enumerate(zip(meta, reps)):
            kw = {} if rel is None else {"rel_tol": rel, "abs_tol": ab}
            v = a.isclose(b, **kw)
            try:
                a.assert_close(b, **kw); v2 = True
            except AssertionError:
                v2 = False
            ctx.count({"a": show(canon(a.asdict())), "b": show(canon(b.asdict())), "tol": [rel, ab]}, kind != "none", tags=[kind, f"close={v}"])
            ctx.compared += 1
            case = {"document": show(canon_doc(doc)), "perturbation": kind, "tolerances": [rel, ab], "b": show(canon(b.asdict())), "a": show(canon(a.asdict()))}
            if "ok" not in r or r["ok"] != v:
                ctx.disagreement("isclose", case, v, r)
            if v != v2:
                ctx.violation("isclose and assert_close disagree", case)
            if v != b.isclose(a, **kw):
                ctx.violation("isclose is not symmetric", case)
            if not a.isclose(a, **kw):
                ctx.violation("isclose is not reflexive", case)
            if exp is not None and v != exp:
                ctx.violation(f"isclose is {v} after perturbation '{kind}' (expected {exp})", case)


def wire_num(x):
    from wire import num_str
    return num_str(x)


def replay(ctx, payload):
    from props.c01 import plain_doc
    inp = payload["input"]
    a = demes.Graph.fromdict(plain_doc(inp["a"])); b = demes.Graph.fromdict(plain_doc(inp["b"]))
    rel, ab = inp["tolerances"]
    kw = {} if rel is None else {"rel_tol": rel, "abs_tol": ab}
    print("isclose:", a.isclose(b, **kw), "reverse:", b.isclose(a, **kw))
    return 0
