/-
  C08, after the event loop: invariants of the ms interpreter (`Spec/MsSem.lean`) that the
  read-back relies on.

  * `PopWF`: the closed segments of a population chain from its creation time `lo` up to the start
    `t0` of its open piece, each of positive length and with an explicit growth rate; a joined
    population ends where its open piece starts.
  * the matrix snapshots are chronological.
-/
import DemesVerif.Proofs.FromMsMigFold
import DemesVerif.Proofs.FromMsPostMig
namespace Demes.Proofs.FromMs
open Demes Demes.Ms Demes.Spec.MsSem Demes.Spec.C08

/-- the closed segments chain from `lo` up to `t0` -/
def SegChain : Q → List Seg → Q → Prop
  | lo, [], t0 => lo = t0
  | lo, s :: r, t0 => s.t0 = lo ∧ ∃ b, s.t1 = .fin b ∧ lo < b ∧ (∃ g, s.growth = some g) ∧ SegChain b r t0

theorem segChain_le : ∀ {segs : List Seg} {lo t0 : Q}, SegChain lo segs t0 → lo ≤ t0
  | [], lo, t0, h => by have : lo = t0 := h; grind
  | s :: r, lo, t0, h => by
    obtain ⟨_, b, _, hlt, _, hr⟩ := h
    have := segChain_le hr
    grind

theorem segChain_snoc : ∀ {segs : List Seg} {lo t0 : Q} (T : Q) (sz : Sz) (g : Q), SegChain lo segs t0 → t0 < T →
    SegChain lo (segs ++ [mkSeg t0 (.fin T) sz g]) T
  | [], lo, t0, T, sz, g, h, hT => by
    have h' : lo = t0 := h
    subst h'
    exact ⟨rfl, T, rfl, hT, ⟨g, rfl⟩, rfl⟩
  | s :: r, lo, t0, T, sz, g, h, hT => by
    obtain ⟨h1, b, h2, h3, h4, hr⟩ := h
    exact ⟨h1, b, h2, h3, h4, segChain_snoc T sz g hr hT⟩

structure PopWF (p : Pop) : Prop where
  chain : SegChain p.lo p.segs p.t0
  hi : p.hi = .inf ∨ p.hi = .fin p.t0

theorem change_wf {p : Pop} (T : Q) (ns : Option Sz) (ng : Option Q) (h : PopWF p) (ha : alive p = true) :
    PopWF (p.change T ns ng) ∧ ((p.change T ns ng).t0 ≤ T ∨ (p.change T ns ng).t0 = p.t0)
    ∧ alive (p.change T ns ng) = true := by
  have hinf : p.hi = .inf := by simpa [alive] using ha
  unfold Pop.change
  split
  · rename_i hlt
    exact ⟨⟨segChain_snoc T _ _ h.chain hlt, Or.inl hinf⟩, Or.inl Rat.le_refl, by simpa [alive] using hinf⟩
  · exact ⟨⟨h.chain, Or.inl hinf⟩, Or.inr rfl, by simpa [alive] using hinf⟩

theorem joinedPop_wf {p : Pop} (T : Q) (h : PopWF p) (hle : p.t0 ≤ T) : PopWF (joinedPop p T) := by
  unfold joinedPop
  refine ⟨?_, Or.inr rfl⟩
  dsimp only
  split
  · rename_i hlt
    exact segChain_snoc T _ _ h.chain hlt
  · have : p.t0 = T := by grind
    rw [← this]
    exact h.chain

/-- the interpreter invariant -/
structure SpecInv (T : Q) (σ : St) : Prop where
  pops : ∀ p ∈ σ.pops, PopWF p ∧ p.t0 ≤ T
  chron : σ.snaps.Pairwise (fun a b => a.1 ≤ b.1)
  snapLe : ∀ x ∈ σ.snaps, x.1 ≤ T

theorem SpecInv.mono {T T' : Q} {σ : St} (h : SpecInv T σ) (hT : T ≤ T') : SpecInv T' σ :=
  ⟨fun p hp => ⟨(h.pops p hp).1, by have := (h.pops p hp).2; grind⟩, h.chron,
    fun x hx => by have := h.snapLe x hx; grind⟩

theorem SpecInv.snoc {T T' : Q} {σ σ' : St} (h : SpecInv T σ) (hT : T ≤ T') (m : Mat)
    (hp : σ'.pops = σ.pops) (hs : σ'.snaps = σ.snaps ++ [(T', m)]) : SpecInv T' σ' := by
  refine ⟨by rw [hp]; exact (h.mono hT).pops, ?_, ?_⟩
  · rw [hs, List.pairwise_append]
    refine ⟨h.chron, List.pairwise_singleton _ _, ?_⟩
    intro a ha b hb
    simp only [List.mem_singleton] at hb
    subst hb
    have := h.snapLe a ha
    show a.1 ≤ T'
    grind
  · rw [hs]
    intro x hx
    rcases List.mem_append.mp hx with hx | hx
    · exact (h.mono hT).snapLe x hx
    · simp only [List.mem_singleton] at hx
      subst hx
      exact Rat.le_refl

theorem specInv_setPop {T T' : Q} {σ : St} (h : SpecInv T σ) (hT : T ≤ T') {i : Nat} {p p' : Pop}
    (hp : σ.pops[i - 1]? = some p) (hw : PopWF p') (ht : p'.t0 ≤ T' ∨ p'.t0 = p.t0) : SpecInv T' (σ.setPop i p') := by
  refine ⟨?_, (h.mono hT).chron, (h.mono hT).snapLe⟩
  intro x hx
  rw [setPop_pops] at hx
  rcases List.mem_or_eq_of_mem_set hx with hx | hx
  · exact (h.mono hT).pops x hx
  · subst hx
    refine ⟨hw, ?_⟩
    rcases ht with ht | ht
    · exact ht
    · rw [ht]; exact ((h.mono hT).pops p (List.mem_of_getElem? hp)).2

theorem specInv_mapAlive {T T' : Q} {σ σ' : St} (h : SpecInv T σ) (hT : T ≤ T') (ns : Option Sz) (ng : Option Q)
    (hp : σ'.pops = σ.pops.map (fun p => if alive p then p.change T' ns ng else p)) (hs : σ'.snaps = σ.snaps) :
    SpecInv T' σ' := by
  refine ⟨?_, by rw [hs]; exact h.chron, by rw [hs]; exact (h.mono hT).snapLe⟩
  intro x hx
  rw [hp] at hx
  obtain ⟨p, hp', rfl⟩ := List.mem_map.mp hx
  obtain ⟨w, t⟩ := (h.mono hT).pops p hp'
  split
  · rename_i ha
    obtain ⟨c1, c2, _⟩ := change_wf T' ns ng w ha
    refine ⟨c1, ?_⟩
    rcases c2 with c2 | c2
    · exact c2
    · rw [c2]; exact t
  · exact ⟨w, t⟩

theorem specInv_step {N0 T T' : Q} {σ σ' : St} {L L' : List (Nat × Row)} {c : Cmd}
    (h : SpecInv T σ) (hT : T ≤ T') (hT' : T' = 4 * N0 * c.t)
    (hs : Spec.MsSem.step N0 (σ, L) c = .ok (σ', L')) : SpecInv T' σ' := by
  cases c with
  | setSize t i x reset =>
    rw [step_setSize] at hs
    obtain ⟨p, hp, hs⟩ := sbind_ok.1 hs
    rw [spure_ok] at hs
    cases hs
    obtain ⟨_, hpi, ha⟩ := pop_ok hp
    obtain ⟨w, _⟩ := h.pops p (List.mem_of_getElem? hpi)
    obtain ⟨c1, c2, _⟩ := change_wf (4 * N0 * t) (some (Sz.ofQ (x * N0))) (if reset then some 0 else none) w ha
    have hT'' : T' = 4 * N0 * t := hT'
    rw [← hT''] at c1 c2 ⊢
    exact specInv_setPop h hT hpi c1 c2
  | setSizeAll t x =>
    rw [step_setSizeAll] at hs
    rw [spure_ok] at hs
    cases hs
    have hT'' : T' = 4 * N0 * t := hT'
    rw [← hT'']
    exact specInv_mapAlive h hT _ _ rfl rfl
  | setGrowth t i a =>
    rw [step_setGrowth] at hs
    obtain ⟨p, hp, hs⟩ := sbind_ok.1 hs
    rw [spure_ok] at hs
    cases hs
    obtain ⟨_, hpi, ha⟩ := pop_ok hp
    obtain ⟨w, _⟩ := h.pops p (List.mem_of_getElem? hpi)
    obtain ⟨c1, c2, _⟩ := change_wf (4 * N0 * t) none (some (a / (4 * N0))) w ha
    have hT'' : T' = 4 * N0 * t := hT'
    rw [← hT''] at c1 c2 ⊢
    exact specInv_setPop h hT hpi c1 c2
  | setGrowthAll t a =>
    rw [step_setGrowthAll] at hs
    rw [spure_ok] at hs
    cases hs
    have hT'' : T' = 4 * N0 * t := hT'
    rw [← hT'']
    exact specInv_mapAlive h hT _ _ rfl rfl
  | setMigEntry t i j m =>
    obtain ⟨_, _, _, rfl⟩ := step_setMigEntry_ok hs
    have hT'' : T' = 4 * N0 * t := hT'
    rw [← hT'']
    exact h.snoc hT _ rfl rfl
  | setMigAll t x =>
    rw [step_setMigAll_eq, spure_ok] at hs
    cases hs
    have hT'' : T' = 4 * N0 * t := hT'
    rw [← hT'']
    exact h.snoc hT _ rfl rfl
  | setMigMatrix t npop entries =>
    obtain ⟨rows, _, rfl⟩ := step_setMigMatrix_ok hs
    have hT'' : T' = 4 * N0 * t := hT'
    rw [← hT'']
    exact h.snoc hT _ rfl rfl
  | split t i p =>
    obtain ⟨_, hp, _, _⟩ := step_split_ok hs
    obtain ⟨_, hsn⟩ := step_split_mat hs
    have hT'' : T' = 4 * N0 * t := hT'
    rw [← hT''] at hp hsn
    have h1 : SpecInv T' { σ' with pops := σ.pops } := h.snoc hT _ rfl hsn
    refine ⟨?_, h1.chron, h1.snapLe⟩
    intro x hx
    rw [hp] at hx
    rcases List.mem_append.mp hx with hx | hx
    · exact h1.pops x hx
    · simp only [List.mem_singleton] at hx
      subst hx
      exact ⟨⟨rfl, Or.inl rfl⟩, Rat.le_refl⟩
  | join t i j =>
    obtain ⟨q, hq, _, _, hp, _, _⟩ := step_join_ok hs
    obtain ⟨_, hsn⟩ := step_join_mat hs
    have hT'' : T' = 4 * N0 * t := hT'
    rw [← hT''] at hp hsn
    have h1 : SpecInv T' { σ' with pops := σ.pops } := h.snoc hT _ rfl hsn
    obtain ⟨_, hqi, _⟩ := pop_ok hq
    obtain ⟨w, tq⟩ := (h.mono hT).pops q (List.mem_of_getElem? hqi)
    refine ⟨?_, h1.chron, h1.snapLe⟩
    intro x hx
    rw [hp] at hx
    rcases List.mem_or_eq_of_mem_set hx with hx | hx
    · exact h1.pops x hx
    · subst hx
      exact ⟨joinedPop_wf T' w tq, Rat.le_refl⟩

theorem specInv_inv (N0 : Q) : SimInv N0 (fun T _ σ => SpecInv T σ) where
  step := fun h hT _ hT' _ hs => specInv_step h hT hT' hs
  mono := fun h hT => h.mono hT
  frameM := fun _ _ h => h
  frameS := fun h hp _ hs => ⟨by rw [hp]; exact h.pops, by rw [hs]; exact h.chron, by rw [hs]; exact h.snapLe⟩

theorem initSt_specInv (pr : Parsed) (N0 : Q) : SpecInv 0 (initSt pr N0) := by
  refine ⟨?_, List.pairwise_singleton _ _, ?_⟩
  · intro p hp
    unfold initSt at hp
    simp only [List.mem_replicate] at hp
    rw [hp.2]
    exact ⟨⟨rfl, Or.inl rfl⟩, Rat.le_refl⟩
  · intro x hx
    unfold initSt at hx
    simp only [List.mem_singleton] at hx
    rw [hx]

/-- **the interpreter invariant at the end of the run** -/
theorem runState_specInv {args : Args} {pr : Parsed} {N0 : Q} {s : BState} {σ : St}
    (ha : ArgsAgree args pr) (hm : buildState args N0 = .ok s) (hs : runState pr N0 = .ok σ) :
    ∃ T, SpecInv T σ :=
  buildState_inv (specInv_inv N0) ha (fun _ => initSt_specInv pr N0) hm hs

end Demes.Proofs.FromMs
