/-
  Request dispatch of the driver: chains the topic dispatchers.
-/
import DemesVerif.Ops.Core
import DemesVerif.Ops.IO
import DemesVerif.Ops.Handles
import DemesVerif.Ops.Cli
import DemesVerif.Ops.Cost
import DemesVerif.Ops.Ms
import DemesVerif.Ops.Heap
import DemesVerif.Ops.Spec
import DemesVerif.Ops.Builder
import DemesVerif.Ops.Records
import DemesVerif.Ops.RecordsClose
import DemesVerif.Ops.Accessors
namespace Demes.Ops
open Lean

def dispatchers : List (String → Json → Option Json) :=
  [Core.dispatch?, IO.dispatch?, Handles.dispatch?, Cli.dispatch?, Cost.dispatch?, Ms.dispatch?, Heap.dispatch?, SpecOps.dispatch?, Builder.dispatch?, Records.dispatch?, RecordsClose.dispatch?, Accessors.dispatch?]

def dispatch (j : Json) : Json :=
  match j.getObjValAs? String "op" with
  | .error e => Json.mkObj [("fail", .str e)]
  | .ok op =>
    match dispatchers.findSome? (fun f => f op j) with
    | some r => r
    | none => Json.mkObj [("fail", .str s!"unknown op {op}")]

end Demes.Ops
