/-
  Support for `Theorems/TablesGuardsClose.lean` (the semantic tie of `assert_close` / `isclose` /
  `isclose_deme_proportions` to `Model/Close.lean`).  Nothing here depends on `Generated/`.

  * what the translator's vocabulary (`Num.isclose`, `Num.pysum`, `Num.eqIEEE`) is on validated values;
  * `sortKey0`: the meaning given to `sorted(pairs, key=operator.itemgetter(0))`.
-/
import DemesVerif.Model.NumClose
import DemesVerif.Model.Close
namespace Demes.Proofs.Guards2
open Demes

/-! ### `math.isclose` and `sum` on validated values -/

theorem isclose_fin (a b r t : Q) : Num.isclose (.fin a) (.fin b) (.fin r) (.fin t) = iscloseQ a b r t := rfl

theorem isclose_ofETime (a b : ETime) (r t : Q) :
    Num.isclose (Num.ofETime a) (Num.ofETime b) (.fin r) (.fin t) = iscloseE a b r t := by
  cases a <;> cases b <;> rfl

theorem add_fin (a b : Q) : Num.add (.fin a) (.fin b) = .fin (a + b) := rfl

theorem pysum_map_fin (qs : List Q) : Num.pysum (qs.map Num.fin) = .fin (qsumL qs) := by
  unfold Num.pysum qsumL
  generalize (0 : Q) = acc
  induction qs generalizing acc with
  | nil => rfl
  | cons q qs ih =>
    simp only [List.map_cons, List.foldl_cons, add_fin]
    exact ih (acc + q)

theorem eqIEEE_fin (a b : Q) : Num.eqIEEE (.fin a) (.fin b) = (a == b) := by
  show decide (a = b) = (a == b)
  by_cases h : a = b <;> simp [h]

/-! ### `sorted(zip(names, numbers), key=operator.itemgetter(0))` -/

/-- a (name, validated number) pair seen as a (name, document number) pair -/
def finPair : String × Q → String × Num := Prod.map id Num.fin

/-- `sorted(pairs, key=operator.itemgetter(0))` on (name, number) pairs: Python's stable sort by the
first component (string order) -/
def sortKey0 (xs : List (String × Num)) : List (String × Num) :=
  xs.mergeSort (fun a b => cmpS a.1 b.1 != .gt)

theorem sortKey0_map (xs : List (String × Q)) : sortKey0 (xs.map finPair) = (sortPairs xs).map finPair := by
  unfold sortKey0 sortPairs
  symm
  apply List.map_mergeSort
  intro a _ b _
  simp only [finPair, Prod.map_fst, id]

theorem zip_map_fin (ns : List String) (qs : List Q) : ns.zip (qs.map Num.fin) = (ns.zip qs).map finPair :=
  List.zip_map_right

end Demes.Proofs.Guards2
