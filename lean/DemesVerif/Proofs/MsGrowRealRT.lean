/-
  C09 §8, the precision clause — composition of the round trip with exponential epochs
  (`ms_roundtrip_growth_sem_all`) with the real-number estimate for `regrow` (`regrow_real_close_anchor`):
  at every time of every deme's lifetime the size of the graph that comes back is within the factor
  `exp(±ε·Δ)` of the size of the original graph, `ε` the accuracy of the printed growth rates (ms units) and
  `Δ` the distance (in `4·N0` generations) of the time to the last point, towards the present, where the size
  was set exactly.
-/
import DemesVerif.Proofs.MsGrowReal
import DemesVerif.Proofs.MsGrowAccFinal
namespace Demes.Proofs.MsGrow
open Demes Demes.Ms Demes.Spec Demes.Spec.C07 Demes.Spec.C09
open Demes.Spec.MsSem (msSem graphSem DemogSem PopSem)
open Demes.Spec.C08 (resultSem segOwns)
open Demes.Proofs.MsRT (zip_mem_index zip_of_index)

/-- **the precision clause.**  For a valid ms-expressible graph with tame pulses, `N0 > 0`, a codec that covers
the numbers of the command and a growth printer accurate to `ε` (ms units) on the growth rates of the graph:
`from_ms(to_ms(g, N0), N0)` returns a graph whose size, at every time `t` of the lifetime of every deme, is the
original size (`segReal`: the exponential interpolation of the epoch that owns `t`) up to the factor
`exp(±(ε/(4·N0))·(t - runStart))`, where `runStart ≥ lo` is the recent end of the run of epochs with continuous
size that contains `t`. -/
theorem ms_roundtrip_growth_real (c : NumCodec) (sa : Growth → String) {g : Graph} (hv : validGraph g = true)
    (hx : MsExpressible g = true) (hpt : PulsesTame g = true)
    {N0 : Q} (hN : 0 < N0) {samples : Option (List Int)} (hs : samplesOk g samples = true)
    {toks : List (Tok Growth)} (htoks : toMs g N0 samples = .ok toks) (hc : CodecCovers c toks)
    (hsa : GrowthPrinter sa (epochGrowths g N0)) {ε : ℝ}
    (hacc : ∀ G ∈ epochGrowths g N0, |((growthVal sa G : Q) : ℝ) - growthReal G| ≤ ε) :
    ∃ mg rs gs, fromMs (renderG c sa toks) N0 none = .ok mg ∧ resultSem mg = .ok rs
      ∧ graphSem (inGenerations (normalizeProportions g)) none = .ok gs
      ∧ rs.pops.map (·.id) = gs.pops.map (·.id)
      ∧ ∀ ab ∈ rs.pops.zip gs.pops, ∀ t : Q, ab.2.lo ≤ t → ETime.fin t < ab.2.hi →
          ∃ s ∈ ab.2.segs, segOwns s t = true ∧ ∃ z, C09.sizeAt ab.1 t = some z
            ∧ ab.2.lo ≤ runStart ab.2 t ∧ runStart ab.2 t ≤ t
            ∧ segReal N0 s t * Real.exp (-(ε / (4 * (N0 : ℝ))) * ((t : ℝ) - (runStart ab.2 t : ℝ))) ≤ szReal z
            ∧ szReal z ≤ segReal N0 s t * Real.exp ((ε / (4 * (N0 : ℝ))) * ((t : ℝ) - (runStart ab.2 t : ℝ))) := by
  obtain ⟨mg, sem, rs, gs, h1, _, h3, h4, _, _, h7, _, _⟩ :=
    ms_roundtrip_growth_sem_all c sa hv hx hpt hN hs htoks hc hsa
  have hv' : validGraph (inGenerations (normalizeProportions g)) = true :=
    InGen.inGenerations_valid _ (ToMsNorm.validGraph_norm hv)
  have hx' : MsExpressible (inGenerations (normalizeProportions g)) = true := by
    rw [ToMs.expr_inGen, ToMsNorm.expr_norm]; exact hx
  have hok := graph_segOK hv' hx' N0 h4
  have hmem := graph_segGrowth_mem hv' hx' N0 h4
  refine ⟨mg, rs, gs, h1, h3, h4, ?_, ?_⟩
  · rw [h7.ids, regrow_pops, List.map_map]; rfl
  · intro ab hab t ht0 ht1
    have hp : ab.2 ∈ gs.pops := (List.of_mem_zip hab).2
    have hzip : (ab.1, regrowPop (growthVal sa) N0 ab.2) ∈ rs.pops.zip (regrow (growthVal sa) N0 gs).pops := by
      obtain ⟨k, e1, e2⟩ := zip_mem_index hab
      exact zip_of_index e1 (by rw [regrow_pops, List.getElem?_map, e2]; rfl)
    obtain ⟨_, hsz⟩ := h7.sizes _ hzip t ht0 ht1
    have hacc' : ∀ s ∈ ab.2.segs, ∀ G, C07.segGrowth N0 s = some G →
        |((growthVal sa G : Q) : ℝ) - growthReal G| ≤ ε := by
      intro s hs' G hG
      apply hacc
      have := hmem ab.2 hp s hs' G hG
      rw [← epochGrowths_norm]
      exact this
    obtain ⟨s, hs', hown, z, hz, r1, r2, r3, r4⟩ :=
      regrow_real_close_anchor (gv := growthVal sa) hN ab.2 (hok ab.2 hp).1 (hok ab.2 hp).2 hacc' t ht0 ht1
    exact ⟨s, hs', hown, z, by rw [hsz]; exact hz, r1, r2, r3, r4⟩

/-- the special case `ε = 0` (every printed rate reads as exactly the real rate): the sizes are those of the
original graph -/
theorem ms_roundtrip_growth_real_exact (c : NumCodec) (sa : Growth → String) {g : Graph} (hv : validGraph g = true)
    (hx : MsExpressible g = true) (hpt : PulsesTame g = true)
    {N0 : Q} (hN : 0 < N0) {samples : Option (List Int)} (hs : samplesOk g samples = true)
    {toks : List (Tok Growth)} (htoks : toMs g N0 samples = .ok toks) (hc : CodecCovers c toks)
    (hsa : GrowthPrinter sa (epochGrowths g N0))
    (hacc : ∀ G ∈ epochGrowths g N0, ((growthVal sa G : Q) : ℝ) = growthReal G) :
    ∃ mg rs gs, fromMs (renderG c sa toks) N0 none = .ok mg ∧ resultSem mg = .ok rs
      ∧ graphSem (inGenerations (normalizeProportions g)) none = .ok gs
      ∧ ∀ ab ∈ rs.pops.zip gs.pops, ∀ t : Q, ab.2.lo ≤ t → ETime.fin t < ab.2.hi →
          ∃ s ∈ ab.2.segs, segOwns s t = true ∧ ∃ z, C09.sizeAt ab.1 t = some z ∧ szReal z = segReal N0 s t := by
  obtain ⟨mg, rs, gs, h1, h2, h3, _, h5⟩ := ms_roundtrip_growth_real c sa hv hx hpt hN hs htoks hc hsa (ε := 0)
    (fun G hG => by rw [hacc G hG]; simp)
  refine ⟨mg, rs, gs, h1, h2, h3, ?_⟩
  intro ab hab t ht0 ht1
  obtain ⟨s, hs', hown, z, hz, _, _, r3, r4⟩ := h5 ab hab t ht0 ht1
  refine ⟨s, hs', hown, z, hz, ?_⟩
  simp only [zero_div, neg_zero, zero_mul, Real.exp_zero, mul_one] at r3 r4
  exact le_antisymm r4 r3

#print axioms ms_roundtrip_growth_real
#print axioms ms_roundtrip_growth_real_exact

end Demes.Proofs.MsGrow
