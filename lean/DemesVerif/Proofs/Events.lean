/-
  Proofs for C14: predecessors / successors / discrete demographic events are exact views of
  the ancestry relation.
-/
import DemesVerif.Spec.C14
namespace Demes.Proofs
open Demes Demes.Spec

/-! ### the name map -/

theorem setDefault_of_not_key (m : NameMap) (k : String) (h : ∀ kv ∈ m, kv.1 ≠ k) :
    m.setDefault k = m ++ [(k, [])] := by
  unfold NameMap.setDefault
  rw [if_neg]
  simp only [List.any_eq_true, decide_eq_true_eq, not_exists, not_and]
  exact fun kv hkv => h kv hkv

theorem setDefault_of_key (m : NameMap) (k : String) (h : ∃ kv ∈ m, kv.1 = k) :
    m.setDefault k = m := by
  unfold NameMap.setDefault
  rw [if_pos]
  simpa only [List.any_eq_true, decide_eq_true_eq] using h

theorem append_of_not_key (m : NameMap) (k v : String) (h : ∀ kv ∈ m, kv.1 ≠ k) :
    m.append k v = m := by
  unfold NameMap.append
  conv => rhs; rw [← List.map_id m]
  apply List.map_congr_left
  intro kv hkv
  simp [h kv hkv]

theorem append_append (m m' : NameMap) (k v : String) :
    NameMap.append (m ++ m') k v = NameMap.append m k v ++ NameMap.append m' k v := by
  simp [NameMap.append]

theorem append_keys (m : NameMap) (k v : String) :
    (NameMap.append m k v).map (·.1) = m.map (·.1) := by
  unfold NameMap.append
  rw [List.map_map]
  apply List.map_congr_left
  intro kv _
  simp only [Function.comp]
  split <;> rfl

/-! ### predecessors -/

def predStep (pred : NameMap) (d : Deme) : NameMap :=
  d.ancestors.foldl (fun p a => p.append d.name a) (pred.setDefault d.name)

theorem pred_inner (m : NameMap) (k : String) (h : ∀ kv ∈ m, kv.1 ≠ k) (as l : List String) :
    as.foldl (fun p a => NameMap.append p k a) (m ++ [(k, l)]) = m ++ [(k, l ++ as)] := by
  induction as generalizing l with
  | nil => simp
  | cons a as ih =>
    rw [List.foldl_cons, append_append, append_of_not_key m k a h]
    have : NameMap.append [(k, l)] k a = [(k, l ++ [a])] := by simp [NameMap.append]
    rw [this, ih]; simp

theorem predStep_eq (m : NameMap) (d : Deme) (h : ∀ kv ∈ m, kv.1 ≠ d.name) :
    predStep m d = m ++ [(d.name, d.ancestors)] := by
  unfold predStep
  rw [setDefault_of_not_key m _ h, pred_inner m _ h]; simp

theorem pred_fold (rest pre : List Deme) (h : ((pre ++ rest).map (·.name)).Nodup) :
    rest.foldl predStep (pre.map (fun d => (d.name, d.ancestors)))
      = (pre ++ rest).map (fun d => (d.name, d.ancestors)) := by
  induction rest generalizing pre with
  | nil => simp
  | cons d rest ih =>
    rw [List.foldl_cons, predStep_eq]
    · have := ih (pre ++ [d]) (by simpa using h)
      simpa using this
    · intro kv hkv heq
      simp only [List.mem_map] at hkv
      obtain ⟨e, he, rfl⟩ := hkv
      simp only [List.map_append, List.map_cons, List.nodup_append, List.mem_map, List.mem_cons] at h
      exact h.2.2 e.name ⟨e, he, rfl⟩ d.name (Or.inl rfl) heq

theorem pred_of_nodup (g : Graph) (h : (g.demes.map (·.name)).Nodup) :
    predecessors g = g.demes.map (fun d => (d.name, d.ancestors)) := by
  have := pred_fold g.demes [] (by simpa using h)
  simp only [List.map_nil, List.nil_append] at this
  exact this

/-! ### well-formed ancestry (what V1 and V2 give) -/

/-- names are distinct; every deme's ancestors are distinct names of earlier demes -/
def AncWF (l : List Deme) : Prop :=
  (l.map (·.name)).Nodup ∧
  ∀ pre d post, l = pre ++ d :: post →
    d.ancestors.Nodup ∧ ∀ a ∈ d.ancestors, a ∈ pre.map (·.name)

theorem ancWF_of_valid (g : Graph) (hv : validGraph g = true) : AncWF g.demes := by
  simp only [validGraph, validData, Bool.and_eq_true] at hv
  have h1 := hv.2.1.1.1.1.1.1.1.1.1.1.1
  have h2 := hv.2.1.1.1.1.1.1.1.1.1.1.2
  simp only [v1, Bool.and_eq_true, decide_eq_true_eq] at h1
  refine ⟨h1.2, ?_⟩
  intro pre d post hl
  simp only [v2, List.all_eq_true] at h2
  have hmem : (d, pre.length) ∈ g.demes.zipIdx := by
    rw [List.mem_zipIdx_iff_getElem?, hl]
    simp
  have := h2 _ hmem
  simp only [Bool.and_eq_true, decide_eq_true_eq, List.all_eq_true, List.any_eq_true] at this
  refine ⟨this.1.2, ?_⟩
  intro a ha
  obtain ⟨e, he, hea⟩ := this.1.1 a ha
  rw [hl, List.take_left' rfl] at he
  exact List.mem_map.mpr ⟨e, he, hea⟩

theorem AncWF.not_self {pre : List Deme} {d : Deme} {post : List Deme}
    (h : AncWF (pre ++ d :: post)) : d.name ∉ pre.map (·.name) := by
  have := h.1
  simp only [List.map_append, List.map_cons, List.nodup_append, List.mem_cons] at this
  intro hd
  exact this.2.2 _ hd _ (Or.inl rfl) rfl

theorem AncWF.not_anc_of_earlier {pre : List Deme} {d : Deme} {post : List Deme}
    (h : AncWF (pre ++ d :: post)) : ∀ e ∈ pre, d.name ∉ e.ancestors := by
  intro e he hd
  obtain ⟨p1, p2, rfl⟩ := List.append_of_mem he
  have := (h.2 p1 e (p2 ++ d :: post) (by simp)).2 _ hd
  apply h.not_self
  simp only [List.map_append, List.mem_append]
  exact Or.inl this

/-! ### successors -/

def succStep (succ : NameMap) (d : Deme) : NameMap :=
  d.ancestors.foldl (fun s a => (s.setDefault a).append a d.name) (succ.setDefault d.name)

/-- the transpose of the ancestry relation of `l` -/
def succT (l : List Deme) : NameMap :=
  l.map (fun d => (d.name, (l.filter (fun c => c.ancestors.contains d.name)).map (·.name)))

theorem succ_inner (v : String) (as : List String) (m : NameMap) (hnd : as.Nodup)
    (hk : ∀ a ∈ as, a ∈ m.map (·.1)) :
    as.foldl (fun s a => (NameMap.setDefault s a).append a v) m
      = m.map (fun kv => if as.contains kv.1 then (kv.1, kv.2 ++ [v]) else kv) := by
  induction as generalizing m with
  | nil => simp
  | cons a as ih =>
    have hnd' := List.nodup_cons.mp hnd
    rw [List.foldl_cons, setDefault_of_key]
    · rw [ih _ hnd'.2]
      · unfold NameMap.append
        rw [List.map_map]
        apply List.map_congr_left
        intro kv _
        simp only [Function.comp]
        by_cases hka : kv.1 = a
        · simp [hka, hnd'.1]
        · simp [hka]
      · intro b hb
        rw [append_keys]
        exact hk b (List.mem_cons_of_mem _ hb)
    · have := hk a (List.mem_cons_self)
      simpa [List.mem_map] using this

theorem succStep_eq (pre : List Deme) (d : Deme)
    (h1 : d.name ∉ pre.map (·.name)) (h2 : ∀ a ∈ d.ancestors, a ∈ pre.map (·.name))
    (h3 : d.ancestors.Nodup) (h4 : ∀ e ∈ pre, d.name ∉ e.ancestors) :
    succStep (succT pre) d = succT (pre ++ [d]) := by
  have hself : d.ancestors.contains d.name = false := by
    simp only [List.contains_eq_mem, decide_eq_false_iff_not]
    exact fun h => h1 (h2 _ h)
  have hpre : pre.filter (fun c => c.ancestors.contains d.name) = [] := by
    simp only [List.filter_eq_nil_iff, List.contains_eq_mem, decide_eq_true_eq]
    exact h4
  unfold succStep
  rw [setDefault_of_not_key, succ_inner _ _ _ h3]
  · unfold succT
    simp only [List.map_append, List.filter_append, List.map_cons, List.map_nil, List.map_map,
      hself, hpre, List.filter_cons, List.filter_nil, List.append_nil, Bool.false_eq_true, if_false]
    congr 1
    apply List.map_congr_left
    intro e _
    simp only [Function.comp]
    split <;> simp
  · intro a ha
    have := h2 a ha
    simp only [succT, List.map_append, List.map_map, List.mem_append]
    left
    simpa [Function.comp] using this
  · intro kv hkv heq
    simp only [succT, List.mem_map] at hkv
    obtain ⟨e, he, rfl⟩ := hkv
    exact h1 (List.mem_map.mpr ⟨e, he, heq⟩)

theorem succ_fold (rest pre : List Deme) (h : AncWF (pre ++ rest)) :
    rest.foldl succStep (succT pre) = succT (pre ++ rest) := by
  induction rest generalizing pre with
  | nil => simp
  | cons d rest ih =>
    rw [List.foldl_cons, succStep_eq pre d h.not_self (h.2 pre d rest rfl).2
      (h.2 pre d rest rfl).1 h.not_anc_of_earlier]
    have := ih (pre ++ [d]) (by simpa using h)
    simpa using this

theorem succ_of_wf (g : Graph) (h : AncWF g.demes) :
    successors g = g.demes.map (fun d =>
      (d.name, (g.demes.filter (fun c => c.ancestors.contains d.name)).map (·.name))) := by
  have := succ_fold g.demes [] (by simpa using h)
  simp only [List.nil_append] at this
  exact this

/-! ### lookup through the name index = lookup by own name (V0) -/

theorem index_find (n : String) (l pre : List Deme) :
    (match ((((l.zipIdx pre.length).map (fun (d, i) => (d.name, i))).find?
        (fun kv => kv.1 = n)).map (·.2)) with
      | some i => (pre ++ l)[i]?
      | none => none) = l.find? (fun d => d.name = n) := by
  induction l generalizing pre with
  | nil => simp
  | cons d l ih =>
    simp only [List.zipIdx_cons, List.map_cons, List.find?_cons]
    by_cases h : d.name = n
    · simp [h]
    · simp only [h, decide_false]
      have := ih (pre ++ [d])
      simpa using this

theorem deme?_eq_findDeme (g : Graph) (h0 : v0 g = true) (n : String) :
    g.deme? n = findDeme g n := by
  have hidx : g.index = g.demes.zipIdx.map (fun (d, i) => (d.name, i)) := by
    simpa [v0] using h0
  have := index_find n g.demes []
  simp only [List.length_nil, List.nil_append] at this
  unfold Graph.deme? Graph.indexLookup findDeme
  rw [hidx]
  exact this

theorem findDeme_mem (g : Graph) (h : (g.demes.map (·.name)).Nodup) (d : Deme) (hd : d ∈ g.demes) :
    findDeme g d.name = some d := by
  unfold findDeme
  obtain ⟨s, t, hst⟩ := List.append_of_mem hd
  rw [hst] at h ⊢
  rw [List.find?_append]
  have : s.find? (fun e => decide (e.name = d.name)) = none := by
    simp only [List.find?_eq_none, decide_eq_true_eq]
    intro e he heq
    simp only [List.map_append, List.map_cons, List.nodup_append, List.mem_map, List.mem_cons] at h
    exact h.2.2 e.name ⟨e, he, rfl⟩ d.name (Or.inl rfl) heq
  simp [this]

theorem findDeme_some (g : Graph) (n : String) (d : Deme) (h : findDeme g n = some d) :
    d ∈ g.demes ∧ d.name = n := by
  unfold findDeme at h
  exact ⟨List.mem_of_find?_eq_some h, by simpa using List.find?_some h⟩

/-! ### discrete events: the loop as a pure fold -/

def evInit (g : Graph) : Events × NameMap :=
  ({ pulses := g.pulses, splits := [], branches := [], mergers := [], admixtures := [] }, [])

/-- the body of the loop of `discreteEvents`, verbatim -/
def evStepM (g : Graph) (acc : Events × NameMap) (cp : String × List String) :
    Option (Events × NameMap) := do
  let (ev, sp) := acc
  let (c, p) := cp
  match p with
  | [] => pure (ev, sp)
  | [p0] =>
    let cd ← g.deme? c
    let pd ← g.deme? p0
    if cd.startTime = ETime.fin pd.endTime then
      pure (ev, (sp.setDefault p0).append p0 c)
    else
      pure ({ ev with branches := ev.branches ++ [{ parent := p0, child := c, time := cd.startTime }] }, sp)
  | _ =>
    let cd ← g.deme? c
    let ends ← p.mapM (fun a => (g.deme? a).map (fun d => ETime.fin d.endTime))
    let aligned := ends.all (fun e => cd.startTime = e)
    let e : MergeEv := { parents := cd.ancestors, proportions := cd.proportions, child := c, time := cd.startTime }
    if aligned then pure ({ ev with mergers := ev.mergers ++ [e] }, sp)
    else pure ({ ev with admixtures := ev.admixtures ++ [e] }, sp)

def splitOfM (g : Graph) (kv : String × List String) : Option SplitEv := do
  let pd ← g.deme? kv.1
  pure ({ parent := kv.1, children := kv.2, time := pd.endTime } : SplitEv)

theorem discreteEvents_eq (g : Graph) :
    discreteEvents g = (do
      let (ev, splitsToAdd) ← (predecessors g).foldlM (evStepM g) (evInit g)
      let splits ← splitsToAdd.mapM (splitOfM g)
      pure { ev with splits := splits }) := rfl

/-- the loop body as a total function of the deme, lookups by own name -/
def evStep (g : Graph) (acc : Events × NameMap) (d : Deme) : Events × NameMap :=
  match d.ancestors with
  | [] => acc
  | [p0] =>
    if endsAt g p0 d.startTime then (acc.1, (acc.2.setDefault p0).append p0 d.name)
    else ({ acc.1 with branches := acc.1.branches ++
            [{ parent := p0, child := d.name, time := d.startTime }] }, acc.2)
  | _ =>
    if aligned g d then ({ acc.1 with mergers := acc.1.mergers ++ [mergeEvOf d] }, acc.2)
    else ({ acc.1 with admixtures := acc.1.admixtures ++ [mergeEvOf d] }, acc.2)

theorem mapM_some {α β : Type} (f : α → Option β) (h : α → β) (l : List α)
    (hl : ∀ a ∈ l, f a = some (h a)) : l.mapM f = some (l.map h) := by
  induction l with
  | nil => simp
  | cons a l ih =>
    rw [List.mapM_cons, hl a List.mem_cons_self, ih (fun b hb => hl b (List.mem_cons_of_mem _ hb))]
    rfl

theorem endsAt_of_find (g : Graph) (a : String) (t : ETime) (pd : Deme)
    (h : findDeme g a = some pd) : endsAt g a t = decide (t = ETime.fin pd.endTime) := by
  unfold endsAt
  rw [h]
  rfl

theorem evStepM_eq (g : Graph) (hfd : ∀ n, g.deme? n = findDeme g n) (acc : Events × NameMap)
    (d : Deme) (hd : findDeme g d.name = some d)
    (ha : ∀ a ∈ d.ancestors, ∃ pd, findDeme g a = some pd) :
    evStepM g acc (d.name, d.ancestors) = some (evStep g acc d) := by
  unfold evStepM evStep
  rcases hanc : d.ancestors with _ | ⟨p0, _ | ⟨p1, ps⟩⟩
  · rfl
  · obtain ⟨pd, hpd⟩ := ha p0 (by simp [hanc])
    simp only [hfd, hd, hpd, endsAt_of_find g p0 _ pd hpd, Option.bind_eq_bind, Option.bind_some,
      Option.pure_def, decide_eq_true_eq]
    split <;> rfl
  · have hm := mapM_some (fun a => (g.deme? a).map (fun d => ETime.fin d.endTime))
      (fun a => ETime.fin ((findDeme g a).getD default).endTime) (p0 :: p1 :: ps) (by
        intro a hmem
        obtain ⟨pd, hpd⟩ := ha a (by rw [hanc]; exact hmem)
        simp [hfd, hpd])
    have hal : ((p0 :: p1 :: ps).map (fun a => ETime.fin ((findDeme g a).getD default).endTime)).all
        (fun e => decide (d.startTime = e)) = aligned g d := by
      unfold aligned
      rw [hanc, List.all_map, Bool.eq_iff_iff, List.all_eq_true, List.all_eq_true]
      constructor
      · intro h a hmem
        obtain ⟨pd, hpd⟩ := ha a (by rw [hanc]; exact hmem)
        have := h a hmem
        rw [endsAt_of_find g a _ pd hpd]
        simpa [hpd] using this
      · intro h a hmem
        obtain ⟨pd, hpd⟩ := ha a (by rw [hanc]; exact hmem)
        have := h a hmem
        rw [endsAt_of_find g a _ pd hpd] at this
        simpa [hpd] using this
    simp only [hfd, hd, Option.bind_eq_bind, Option.bind_some, Option.pure_def]
    simp only [hfd] at hm
    rw [hm]
    simp only [Option.bind_some, hal]
    split <;> simp [mergeEvOf, hanc]

theorem evFoldM_eq (g : Graph) (hfd : ∀ n, g.deme? n = findDeme g n) (l : List Deme)
    (acc : Events × NameMap)
    (hl : ∀ d ∈ l, findDeme g d.name = some d ∧ ∀ a ∈ d.ancestors, ∃ pd, findDeme g a = some pd) :
    (l.map (fun d => (d.name, d.ancestors))).foldlM (evStepM g) acc
      = some (l.foldl (evStep g) acc) := by
  induction l generalizing acc with
  | nil => rfl
  | cons d l ih =>
    have hd := hl d List.mem_cons_self
    rw [List.map_cons, List.foldlM_cons, evStepM_eq g hfd acc d hd.1 hd.2]
    simp only [Option.bind_eq_bind, Option.bind_some, List.foldl_cons]
    exact ih _ (fun e he => hl e (List.mem_cons_of_mem _ he))

/-- what the loop does to the pending-splits map -/
def spStep (g : Graph) (sp : NameMap) (d : Deme) : NameMap :=
  match d.ancestors with
  | [p0] => if endsAt g p0 d.startTime then (sp.setDefault p0).append p0 d.name else sp
  | _ => sp

theorem evStep_components (g : Graph) (acc : Events × NameMap) (d : Deme) :
    (evStep g acc d).1.pulses = acc.1.pulses
    ∧ (evStep g acc d).1.branches = acc.1.branches ++ (branchEvOf? g d).toList
    ∧ (evStep g acc d).1.mergers
        = acc.1.mergers ++ (if isMergerChild g d then [mergeEvOf d] else [])
    ∧ (evStep g acc d).1.admixtures
        = acc.1.admixtures ++ (if isAdmixChild g d then [mergeEvOf d] else [])
    ∧ (evStep g acc d).2 = spStep g acc.2 d := by
  unfold evStep branchEvOf? isMergerChild isAdmixChild spStep
  rcases hanc : d.ancestors with _ | ⟨p0, _ | ⟨p1, ps⟩⟩
  · simp
  · by_cases h : endsAt g p0 d.startTime = true <;> simp [h]
  · by_cases h : aligned g d = true <;> simp [h]

theorem evFold_components (g : Graph) (l : List Deme) (acc : Events × NameMap) :
    (l.foldl (evStep g) acc).1.pulses = acc.1.pulses
    ∧ (l.foldl (evStep g) acc).1.branches = acc.1.branches ++ l.filterMap (branchEvOf? g)
    ∧ (l.foldl (evStep g) acc).1.mergers
        = acc.1.mergers ++ (l.filter (isMergerChild g)).map mergeEvOf
    ∧ (l.foldl (evStep g) acc).1.admixtures
        = acc.1.admixtures ++ (l.filter (isAdmixChild g)).map mergeEvOf
    ∧ (l.foldl (evStep g) acc).2 = l.foldl (spStep g) acc.2 := by
  induction l generalizing acc with
  | nil => simp
  | cons d l ih =>
    obtain ⟨h1, h2, h3, h4, h5⟩ := evStep_components g acc d
    obtain ⟨i1, i2, i3, i4, i5⟩ := ih (evStep g acc d)
    simp only [List.foldl_cons]
    refine ⟨by rw [i1, h1], ?_, ?_, ?_, by rw [i5, h5]⟩
    · rw [i2, h2, List.filterMap_cons]
      cases branchEvOf? g d <;> simp
    · rw [i3, h3, List.filter_cons]
      split <;> simp
    · rw [i4, h4, List.filter_cons]
      split <;> simp

/-! ### the pending-splits map, read through its lookup function -/

def nmGet (m : NameMap) (k : String) : Option (List String) :=
  (m.find? (fun kv => kv.1 = k)).map (·.2)

theorem nmGet_isSome_iff (m : NameMap) (k : String) :
    (nmGet m k).isSome ↔ ∃ kv ∈ m, kv.1 = k := by
  unfold nmGet
  rw [Option.isSome_map, List.find?_isSome]
  simp

theorem nmGet_setDefault (m : NameMap) (k k' : String) :
    nmGet (m.setDefault k) k' = if k' = k then some ((nmGet m k).getD []) else nmGet m k' := by
  by_cases hk : ∃ kv ∈ m, kv.1 = k
  · rw [setDefault_of_key m k hk]
    split
    · next h =>
      subst h
      have := (nmGet_isSome_iff m k').mpr hk
      obtain ⟨v, hv⟩ := Option.isSome_iff_exists.mp this
      simp [hv]
    · rfl
  · have hk' : ∀ kv ∈ m, kv.1 ≠ k := fun kv hkv heq => hk ⟨kv, hkv, heq⟩
    rw [setDefault_of_not_key m k hk']
    have hnone : nmGet m k = none := by
      cases h : nmGet m k with
      | none => rfl
      | some v => exact absurd ((nmGet_isSome_iff m k).mp (by simp [h])) hk
    unfold nmGet at hnone ⊢
    rw [List.find?_append]
    split
    · next h =>
      subst h
      simp only [Option.map_eq_none_iff] at hnone
      simp [hnone]
    · next h =>
      cases hf : List.find? (fun kv => decide (kv.1 = k')) m with
      | some x => simp
      | none => simp [Ne.symm h]

theorem nmGet_append (m : NameMap) (k v k' : String) :
    nmGet (m.append k v) k' = if k' = k then (nmGet m k).map (· ++ [v]) else nmGet m k' := by
  unfold nmGet NameMap.append
  induction m with
  | nil => simp
  | cons kv m ih =>
    simp only [List.map_cons, List.find?_cons]
    by_cases h1 : kv.1 = k
    · by_cases h2 : k' = k
      · simp [h1, h2]
      · have : ¬ kv.1 = k' := fun h => h2 (h ▸ h1)
        have h3 : ¬ k = k' := fun h => h2 h.symm
        simp only [h1, if_true, h3, decide_false, h2, if_false]
        simp only [h2, if_false] at ih
        simpa [h1, h3] using ih
    · by_cases h2 : kv.1 = k'
      · have : ¬ k' = k := fun h => h1 (h ▸ h2)
        simp [h2, this]
      · simp only [h1, if_false, h2, decide_false]
        exact ih

theorem setDefault_keys_nodup (m : NameMap) (k : String) (h : (m.map (·.1)).Nodup) :
    ((m.setDefault k).map (·.1)).Nodup := by
  by_cases hk : ∃ kv ∈ m, kv.1 = k
  · rwa [setDefault_of_key m k hk]
  · have hk' : ∀ kv ∈ m, kv.1 ≠ k := fun kv hkv heq => hk ⟨kv, hkv, heq⟩
    rw [setDefault_of_not_key m k hk']
    simp only [List.map_append, List.map_cons, List.map_nil, List.nodup_append]
    refine ⟨h, by simp, ?_⟩
    intro a ha b hb
    simp only [List.mem_map] at ha
    obtain ⟨kv, hkv, rfl⟩ := ha
    simp only [List.mem_singleton] at hb
    subst hb
    exact hk' kv hkv

theorem mem_iff_nmGet (m : NameMap) (h : (m.map (·.1)).Nodup) (k : String) (v : List String) :
    (k, v) ∈ m ↔ nmGet m k = some v := by
  unfold nmGet
  induction m with
  | nil => simp
  | cons kv m ih =>
    simp only [List.map_cons, List.nodup_cons, List.mem_map, not_exists, not_and] at h
    simp only [List.mem_cons, List.find?_cons]
    by_cases hk : kv.1 = k
    · simp only [hk, decide_true, Option.map_some, Option.some.injEq]
      constructor
      · rintro (h1 | h1)
        · rw [← h1]
        · exact absurd hk.symm (by simpa using h.1 (k, v) h1)
      · intro h1
        left
        rw [← h1, ← hk]
    · simp only [hk, decide_false]
      rw [← ih h.2]
      constructor
      · rintro (h1 | h1)
        · exact absurd (by rw [← h1]) hk
        · exact h1
      · exact Or.inr

/-- `c` is a split child of the deme called `k` -/
def isSC (g : Graph) (k : String) (c : Deme) : Bool :=
  c.ancestors == [k] && endsAt g k c.startTime

/-- the value the pending-splits map must hold for `k` after the demes `pre` -/
def scValue (g : Graph) (pre : List Deme) (k : String) : Option (List String) :=
  if (pre.filter (isSC g k)).isEmpty then none else some ((pre.filter (isSC g k)).map (·.name))

def SpInv (g : Graph) (pre : List Deme) (sp : NameMap) : Prop :=
  (sp.map (·.1)).Nodup ∧ ∀ k, nmGet sp k = scValue g pre k

theorem scValue_snoc_false (g : Graph) (pre : List Deme) (d : Deme) (k : String)
    (h : isSC g k d = false) : scValue g (pre ++ [d]) k = scValue g pre k := by
  unfold scValue
  simp [List.filter_append, h]

theorem scValue_snoc_true (g : Graph) (pre : List Deme) (d : Deme) (k : String)
    (h : isSC g k d = true) :
    scValue g (pre ++ [d]) k = some ((scValue g pre k).getD [] ++ [d.name]) := by
  unfold scValue
  simp only [List.filter_append, List.filter_cons, h, if_true, List.filter_nil, List.map_append,
    List.map_cons, List.map_nil]
  by_cases he : (pre.filter (isSC g k)) = []
  · simp [he]
  · simp [he]

theorem spStep_inv (g : Graph) (pre : List Deme) (sp : NameMap) (d : Deme)
    (h : SpInv g pre sp) : SpInv g (pre ++ [d]) (spStep g sp d) := by
  unfold spStep
  rcases hanc : d.ancestors with _ | ⟨p0, _ | ⟨p1, ps⟩⟩
  · refine ⟨h.1, fun k => ?_⟩
    rw [h.2 k, scValue_snoc_false]
    simp [isSC, hanc]
  · by_cases he : endsAt g p0 d.startTime = true
    · simp only [he, if_true]
      refine ⟨?_, fun k => ?_⟩
      · rw [append_keys]
        exact setDefault_keys_nodup _ _ h.1
      · rw [nmGet_append]
        by_cases hk : k = p0
        · subst hk
          have : isSC g k d = true := by simp [isSC, hanc, he]
          rw [if_pos rfl, nmGet_setDefault, if_pos rfl, scValue_snoc_true g pre d k this, ← h.2 k]
          simp
        · have : isSC g k d = false := by
            simp only [isSC, hanc, Bool.and_eq_false_imp, beq_iff_eq, List.cons.injEq, and_true]
            intro h'
            exact absurd h'.symm hk
          rw [if_neg hk, nmGet_setDefault, if_neg hk, scValue_snoc_false g pre d k this, ← h.2 k]
    · simp only [he, Bool.false_eq_true, if_false]
      refine ⟨h.1, fun k => ?_⟩
      rw [h.2 k, scValue_snoc_false]
      simp only [isSC, hanc, Bool.and_eq_false_imp, beq_iff_eq, List.cons.injEq, and_true]
      intro h'
      subst h'
      simpa using he
  · refine ⟨h.1, fun k => ?_⟩
    rw [h.2 k, scValue_snoc_false]
    simp [isSC, hanc]

theorem spFold_inv (g : Graph) (rest pre : List Deme) (sp : NameMap) (h : SpInv g pre sp) :
    SpInv g (pre ++ rest) (rest.foldl (spStep g) sp) := by
  induction rest generalizing pre sp with
  | nil => simpa using h
  | cons d rest ih =>
    have := ih (pre ++ [d]) _ (spStep_inv g pre sp d h)
    simpa using this

theorem spFold_inv_all (g : Graph) : SpInv g g.demes (g.demes.foldl (spStep g) []) := by
  have := spFold_inv g g.demes [] [] ⟨by simp, fun k => by simp [nmGet, scValue]⟩
  simpa using this

/-! ### splits: the map read out against the specification -/

theorem endsAt_true (g : Graph) (a : String) (t : ETime) (h : endsAt g a t = true) :
    ∃ pd, findDeme g a = some pd ∧ t = ETime.fin pd.endTime := by
  unfold endsAt at h
  cases hf : findDeme g a with
  | none => simp [hf] at h
  | some pd =>
    rw [hf] at h
    exact ⟨pd, rfl, by simpa using h⟩

theorem scValue_some (g : Graph) (l : List Deme) (k : String) (v : List String)
    (h : scValue g l k = some v) :
    v = (l.filter (isSC g k)).map (·.name) ∧ ∃ pd, findDeme g k = some pd := by
  unfold scValue at h
  split at h
  · exact absurd h (by simp)
  · next hne =>
    refine ⟨by simpa using h.symm, ?_⟩
    cases hf : l.filter (isSC g k) with
    | nil => simp [hf] at hne
    | cons c cs =>
      have hc : c ∈ l.filter (isSC g k) := by rw [hf]; exact List.mem_cons_self
      have := (List.mem_filter.mp hc).2
      simp only [isSC, Bool.and_eq_true] at this
      obtain ⟨pd, hpd, _⟩ := endsAt_true g k _ this.2
      exact ⟨pd, hpd⟩

theorem splitChildren_eq (g : Graph) (k : String) (pd : Deme) (h : findDeme g k = some pd) :
    splitChildren g pd = g.demes.filter (isSC g k) := by
  unfold splitChildren
  apply List.filter_congr
  intro c _
  have hn := (findDeme_some g k pd h).2
  simp only [isSC, endsAt_of_find g k _ pd h, hn]
  rfl

def splitOf (g : Graph) (kv : String × List String) : SplitEv :=
  { parent := kv.1, children := kv.2, time := ((findDeme g kv.1).getD default).endTime }

theorem nodup_of_map {α β : Type} (f : α → β) (l : List α) (h : (l.map f).Nodup) : l.Nodup := by
  unfold List.Nodup at h ⊢
  rw [List.pairwise_map] at h
  exact h.imp (fun hab heq => hab (by rw [heq]))

theorem specSplits_nodup (g : Graph) (h : (g.demes.map (·.name)).Nodup) :
    (specSplits g).Nodup := by
  unfold List.Nodup at h ⊢
  rw [List.pairwise_map] at h
  unfold specSplits
  apply List.Pairwise.filterMap _ _ h
  intro a a' hne b hb b' hb' heq
  simp only at hb hb'
  split at hb
  · exact absurd hb (by simp)
  · split at hb'
    · exact absurd hb' (by simp)
    · simp only [Option.some.injEq] at hb hb'
      rw [← hb, ← hb'] at heq
      simp only [SplitEv.mk.injEq] at heq
      exact hne heq.1

theorem splits_perm (g : Graph) (hnd : (g.demes.map (·.name)).Nodup) (sp : NameMap)
    (h : SpInv g g.demes sp) : (sp.map (splitOf g)).Perm (specSplits g) := by
  rw [List.perm_ext_iff_of_nodup _ (specSplits_nodup g hnd)]
  · intro x
    simp only [List.mem_map, specSplits, List.mem_filterMap]
    constructor
    · rintro ⟨⟨k, v⟩, hkv, rfl⟩
      have hget := (mem_iff_nmGet sp h.1 k v).mp hkv
      rw [h.2 k] at hget
      obtain ⟨hv, pd, hpd⟩ := scValue_some g g.demes k v hget
      have hpdm := findDeme_some g k pd hpd
      refine ⟨pd, hpdm.1, ?_⟩
      have hne : ¬ (g.demes.filter (isSC g k)).isEmpty = true := by
        intro he
        simp [scValue, he] at hget
      simp only [splitChildren_eq g k pd hpd, hne, if_false, Bool.false_eq_true, splitOf, hpd,
        Option.getD_some, hpdm.2, hv]
    · rintro ⟨pd, hpdm, hx⟩
      have hpd := findDeme_mem g hnd pd hpdm
      simp only [splitChildren_eq g pd.name pd hpd] at hx
      split at hx
      · exact absurd hx (by simp)
      · next hne =>
        simp only [Option.some.injEq] at hx
        have hget : nmGet sp pd.name
            = some ((g.demes.filter (isSC g pd.name)).map (·.name)) := by
          rw [h.2 pd.name]
          simp only [scValue, hne, if_false, Bool.false_eq_true]
        have hmem := (mem_iff_nmGet sp h.1 _ _).mpr hget
        refine ⟨_, hmem, ?_⟩
        rw [← hx]
        simp [splitOf, hpd]
  · apply nodup_of_map (·.parent)
    rw [List.map_map]
    exact h.1

/-! ### the events theorem -/

theorem splitsPointwise_refl (xs : List SplitEv) : splitsPointwise xs xs := by
  induction xs with
  | nil => trivial
  | cons x xs ih => exact ⟨⟨rfl, rfl, List.Perm.refl _⟩, ih⟩

theorem splitsAgree_of_perm (xs ys : List SplitEv) (h : xs.Perm ys) : splitsAgree xs ys :=
  ⟨xs, h, splitsPointwise_refl xs⟩

/-- the events theorem from the three facts validity provides -/
theorem events_core (g : Graph) (hfd : ∀ n, g.deme? n = findDeme g n)
    (hnd : (g.demes.map (·.name)).Nodup)
    (hanc : ∀ d ∈ g.demes, ∀ a ∈ d.ancestors, ∃ pd, findDeme g a = some pd) :
    ∃ ev, discreteEvents g = some ev ∧ ev.pulses = g.pulses
      ∧ ev.branches = specBranches g ∧ ev.mergers = specMergers g
      ∧ ev.admixtures = specAdmixtures g ∧ ev.splits.Perm (specSplits g) := by
  obtain ⟨c1, c2, c3, c4, c5⟩ := evFold_components g g.demes (evInit g)
  have hinv := spFold_inv_all g
  have hfold := evFoldM_eq g hfd g.demes (evInit g)
    (fun d hd => ⟨findDeme_mem g hnd d hd, hanc d hd⟩)
  have hsp : (g.demes.foldl (evStep g) (evInit g)).2 = g.demes.foldl (spStep g) [] := c5
  have hmap := mapM_some (splitOfM g) (splitOf g) (g.demes.foldl (spStep g) []) (by
    rintro ⟨k, v⟩ hkv
    have hget := (mem_iff_nmGet _ hinv.1 k v).mp hkv
    rw [hinv.2 k] at hget
    obtain ⟨_, pd, hpd⟩ := scValue_some g g.demes k v hget
    simp [splitOfM, splitOf, hfd, hpd])
  refine ⟨{ (g.demes.foldl (evStep g) (evInit g)).1 with
            splits := (g.demes.foldl (spStep g) []).map (splitOf g) }, ?_, c1, ?_, ?_, ?_, ?_⟩
  · rw [discreteEvents_eq, pred_of_nodup g hnd, hfold]
    simp only [Option.bind_eq_bind, Option.bind_some, hsp, hmap, Option.pure_def]
  · simpa [evInit, specBranches] using c2
  · simpa [evInit, specMergers] using c3
  · simpa [evInit, specAdmixtures] using c4
  · exact splits_perm g hnd _ hinv

theorem valid_facts (g : Graph) (hv : validGraph g = true) :
    (∀ n, g.deme? n = findDeme g n) ∧ (g.demes.map (·.name)).Nodup
      ∧ ∀ d ∈ g.demes, ∀ a ∈ d.ancestors, ∃ pd, findDeme g a = some pd := by
  have hwf := ancWF_of_valid g hv
  simp only [validGraph, validData, Bool.and_eq_true] at hv
  have h0 := hv.1
  have h3 := hv.2.1.1.1.1.1.1.1.1.1.2
  refine ⟨deme?_eq_findDeme g h0, hwf.1, ?_⟩
  intro d hd a ha
  simp only [v3, List.all_eq_true, Bool.and_eq_true] at h3
  have := (h3 d hd).1.1 a ha
  cases hf : findDeme g a with
  | none => simp [hf] at this
  | some pd => exact ⟨pd, rfl⟩

theorem pred_is_ancestors (g : Graph) (hv : validGraph g = true) :
    predecessors g = g.demes.map (fun d => (d.name, d.ancestors)) :=
  pred_of_nodup g (valid_facts g hv).2.1

theorem succ_is_transpose (g : Graph) (hv : validGraph g = true) :
    successors g = g.demes.map (fun d =>
      (d.name, (g.demes.filter (fun c => c.ancestors.contains d.name)).map (·.name))) :=
  succ_of_wf g (ancWF_of_valid g hv)

theorem pred_succ_total (g : Graph) (hv : validGraph g = true) :
    (predecessors g).map (·.1) = g.demes.map (·.name)
      ∧ (successors g).map (·.1) = g.demes.map (·.name) := by
  rw [pred_is_ancestors g hv, succ_is_transpose g hv]
  simp [List.map_map, Function.comp_def]

theorem events_spec_ordered (g : Graph) (hv : validGraph g = true) :
    ∃ ev, discreteEvents g = some ev ∧ ev.pulses = g.pulses
      ∧ ev.branches = specBranches g ∧ ev.mergers = specMergers g
      ∧ ev.admixtures = specAdmixtures g ∧ ev.splits.Perm (specSplits g) :=
  events_core g (valid_facts g hv).1 (valid_facts g hv).2.1 (valid_facts g hv).2.2

theorem events_spec (g : Graph) (hv : validGraph g = true) :
    ∃ ev, discreteEvents g = some ev ∧ ev.pulses = g.pulses
      ∧ ev.branches = specBranches g ∧ ev.mergers = specMergers g
      ∧ ev.admixtures = specAdmixtures g ∧ splitsAgree ev.splits (specSplits g) := by
  obtain ⟨ev, h1, h2, h3, h4, h5, h6⟩ := events_spec_ordered g hv
  exact ⟨ev, h1, h2, h3, h4, h5, splitsAgree_of_perm _ _ h6⟩

/-! ### the classification is exhaustive and exclusive (Spec only) -/

theorem filter_or_perm {α : Type} (p q : α → Bool) (l : List α)
    (hd : ∀ x ∈ l, ¬ (p x = true ∧ q x = true)) :
    (l.filter p ++ l.filter q).Perm (l.filter (fun x => p x || q x)) := by
  induction l with
  | nil => simp
  | cons x l ih =>
    have ih' := ih (fun y hy => hd y (List.mem_cons_of_mem _ hy))
    have hx := hd x List.mem_cons_self
    cases hp : p x <;> cases hq : q x
    · simpa [List.filter_cons, hp, hq] using ih'
    · simp only [List.filter_cons, hp, hq, Bool.false_eq_true, if_false, if_true, Bool.or_true]
      exact List.perm_middle.trans (ih'.cons x)
    · simp only [List.filter_cons, hp, hq, Bool.false_eq_true, if_false, if_true, Bool.or_false,
        List.cons_append]
      exact ih'.cons x
    · exact absurd ⟨hp, hq⟩ hx

/-- `c` is a split child of the deme `pd` (the test inside `splitChildren`) -/
def scOf (pd c : Deme) : Bool := c.ancestors == [pd.name] && c.startTime == ETime.fin pd.endTime

theorem specSplits_children (g : Graph) (ps : List Deme) :
    (ps.filterMap (fun pd =>
      let cs := splitChildren g pd
      if cs.isEmpty then none
      else some ({ parent := pd.name, children := cs.map (·.name), time := pd.endTime } : SplitEv))).flatMap
        (·.children)
      = ps.flatMap (fun pd => (g.demes.filter (scOf pd)).map (·.name)) := by
  induction ps with
  | nil => rfl
  | cons pd ps ih =>
    rw [List.filterMap_cons, List.flatMap_cons, ← ih]
    by_cases he : (splitChildren g pd).isEmpty = true
    · have : g.demes.filter (scOf pd) = [] := by simpa [splitChildren, scOf] using he
      simp [he, this]
    · simp only [he, Bool.false_eq_true, if_false, List.flatMap_cons]
      rfl

theorem flatMap_children_perm (cs ps : List Deme) (hnd : (ps.map (·.name)).Nodup) :
    (ps.flatMap (fun pd => (cs.filter (scOf pd)).map (·.name))).Perm
      ((cs.filter (fun c => ps.any (fun pd => scOf pd c))).map (·.name)) := by
  induction ps with
  | nil => simp
  | cons pd ps ih =>
    have hnd' : pd.name ∉ ps.map (·.name) ∧ (ps.map (·.name)).Nodup := by
      rw [List.map_cons] at hnd
      exact List.nodup_cons.mp hnd
    rw [List.flatMap_cons]
    refine ((List.Perm.refl _).append (ih hnd'.2)).trans ?_
    rw [← List.map_append]
    apply List.Perm.map
    have := filter_or_perm (scOf pd) (fun c => ps.any (fun pd => scOf pd c)) cs (by
      rintro c _ ⟨h1, h2⟩
      simp only [List.any_eq_true] at h2
      obtain ⟨pd', hpd', h2⟩ := h2
      simp only [scOf, Bool.and_eq_true, beq_iff_eq] at h1 h2
      have : pd.name = pd'.name := by
        have := h1.1.symm.trans h2.1
        simpa using this
      exact hnd'.1 (this ▸ List.mem_map.mpr ⟨pd', hpd', rfl⟩))
    simpa [List.any_cons] using this

theorem any_scOf_eq (g : Graph) (hnd : (g.demes.map (·.name)).Nodup) (c : Deme) :
    g.demes.any (fun pd => scOf pd c) = isSplitChild g c := by
  rw [Bool.eq_iff_iff]
  simp only [List.any_eq_true, scOf, Bool.and_eq_true, beq_iff_eq, isSplitChild, aligned,
    List.all_eq_true]
  constructor
  · rintro ⟨pd, hpd, h1, h2⟩
    refine ⟨by simp [h1], ?_⟩
    intro a ha
    rw [h1, List.mem_singleton] at ha
    subst ha
    rw [endsAt_of_find g _ _ pd (findDeme_mem g hnd pd hpd)]
    simpa using h2
  · rintro ⟨h1, h2⟩
    rcases hanc : c.ancestors with _ | ⟨p0, _ | ⟨p1, ps⟩⟩
    · simp [hanc] at h1
    · obtain ⟨pd, hpd, ht⟩ := endsAt_true g p0 _ (h2 p0 (by simp [hanc]))
      have := findDeme_some g p0 pd hpd
      exact ⟨pd, this.1, by rw [this.2], ht⟩
    · simp [hanc] at h1

theorem split_children_perm (g : Graph) (hnd : (g.demes.map (·.name)).Nodup) :
    ((specSplits g).flatMap (·.children)).Perm ((g.demes.filter (isSplitChild g)).map (·.name)) := by
  unfold specSplits
  rw [specSplits_children g g.demes]
  refine (flatMap_children_perm g.demes g.demes hnd).trans ?_
  rw [List.filter_congr (fun c _ => any_scOf_eq g hnd c)]

theorem branchEvOf?_child (g : Graph) (d : Deme) :
    (branchEvOf? g d).map (·.child) = if isBranchChild g d then some d.name else none := by
  unfold branchEvOf? isBranchChild aligned
  rcases hanc : d.ancestors with _ | ⟨p0, _ | ⟨p1, ps⟩⟩
  · simp
  · by_cases h : endsAt g p0 d.startTime = true <;> simp [h]
  · simp

theorem branch_children (g : Graph) (l : List Deme) :
    (l.filterMap (branchEvOf? g)).map (·.child) = (l.filter (isBranchChild g)).map (·.name) := by
  induction l with
  | nil => rfl
  | cons d l ih =>
    have := branchEvOf?_child g d
    rw [List.filterMap_cons, List.filter_cons]
    cases hb : branchEvOf? g d with
    | none =>
      rw [hb] at this
      have hi : isBranchChild g d = false := by
        cases h : isBranchChild g d
        · rfl
        · simp [h] at this
      simp [hi, ih]
    | some b =>
      rw [hb] at this
      have hi : isBranchChild g d = true ∧ b.child = d.name := by
        cases h : isBranchChild g d
        · simp [h] at this
        · simpa [h] using this
      simp [hi.1, hi.2, ih]

theorem class_cover (g : Graph) (d : Deme) :
    (((isSplitChild g d || isBranchChild g d) || isMergerChild g d) || isAdmixChild g d)
      = !d.ancestors.isEmpty := by
  unfold isSplitChild isBranchChild isMergerChild isAdmixChild
  generalize aligned g d = b
  rcases d.ancestors with _ | ⟨p0, _ | ⟨p1, ps⟩⟩ <;> cases b <;> simp

theorem events_partition_nodup (g : Graph) (hnd : (g.demes.map (·.name)).Nodup) :
    (accountedChildren g).Perm
      ((g.demes.filter (fun d => !d.ancestors.isEmpty)).map (·.name)) := by
  unfold accountedChildren specBranches specMergers specAdmixtures
  rw [branch_children, List.map_map, List.map_map]
  have hm : (MergeEv.child ∘ mergeEvOf) = (·.name) := rfl
  rw [hm]
  refine (((split_children_perm g hnd).append (List.Perm.refl _)).append
    (List.Perm.refl _)).append (List.Perm.refl _) |>.trans ?_
  rw [← List.map_append, ← List.map_append, ← List.map_append]
  apply List.Perm.map
  rw [← List.filter_congr (fun d _ => class_cover g d)]
  have p1 := filter_or_perm (isSplitChild g) (isBranchChild g) g.demes (by
    intro d _
    unfold isSplitChild isBranchChild
    cases aligned g d <;> simp)
  have p2 := filter_or_perm (fun d => isSplitChild g d || isBranchChild g d) (isMergerChild g)
    g.demes (by
    intro d _
    unfold isSplitChild isBranchChild isMergerChild
    generalize aligned g d = b
    rcases d.ancestors with _ | ⟨p0, _ | ⟨p1, ps⟩⟩ <;> cases b <;> simp)
  have p3 := filter_or_perm
    (fun d => (isSplitChild g d || isBranchChild g d) || isMergerChild g d) (isAdmixChild g)
    g.demes (by
    intro d _
    unfold isSplitChild isBranchChild isMergerChild isAdmixChild
    generalize aligned g d = b
    rcases d.ancestors with _ | ⟨p0, _ | ⟨p1, ps⟩⟩ <;> cases b <;> simp)
  exact (((p1.append (List.Perm.refl _)).trans p2).append (List.Perm.refl _)).trans p3

theorem events_partition (g : Graph) (hv : validGraph g = true) :
    (accountedChildren g).Perm
      ((g.demes.filter (fun d => !d.ancestors.isEmpty)).map (·.name)) :=
  events_partition_nodup g (valid_facts g hv).2.1

theorem events_partition_count (g : Graph) (hv : validGraph g = true) (d : Deme)
    (hd : d ∈ g.demes) :
    (accountedChildren g).count d.name = if d.ancestors.isEmpty then 0 else 1 := by
  have hnd := (valid_facts g hv).2.1
  rw [(events_partition g hv).count_eq]
  have hsub : ((g.demes.filter (fun d => !d.ancestors.isEmpty)).map (·.name)).Nodup :=
    List.Nodup.sublist (List.Sublist.map _ List.filter_sublist) hnd
  rw [hsub.count]
  by_cases he : d.ancestors.isEmpty = true
  · rw [if_pos he, if_neg]
    simp only [List.mem_map, List.mem_filter, not_exists, not_and]
    rintro e ⟨hem, hea⟩ hn
    have h1 := findDeme_mem g hnd e hem
    rw [hn, findDeme_mem g hnd d hd] at h1
    simp only [Option.some.injEq] at h1
    subst h1
    simp [he] at hea
  · rw [if_neg he, if_pos]
    exact List.mem_map.mpr ⟨d, List.mem_filter.mpr ⟨hd, by simp [he]⟩, rfl⟩

/-! ### a concrete graph with every kind of event -/

def evEpoch (s : ETime) (e : Q) : Epoch :=
  { startTime := s, endTime := e, startSize := 100, endSize := 100, sizeFunction := "constant",
    selfingRate := 0, cloningRate := 0 }

def evDeme (name : String) (s : ETime) (e : Q) (anc : List String) (props : List Q) : Deme :=
  { name := name, description := "", startTime := s, ancestors := anc, proportions := props,
    epochs := [evEpoch s e] }

/-- Two roots `A` (∞,100] and `X` (∞,60].  `X` splits into `Y` at 60 (one child, listed
before the children of `A`); `A` splits into `B` (100,0] and `C` (100,50] at 100; `D` (80,50]
branches off `B` at 80; `E` (50,0] is the merger of `C` and `D` at 50; `F` (20,0] is an
admixture of `B` and `E` at 20.  One migration and one pulse. -/
def eventsGraph : Graph :=
  { description := "", timeUnits := "generations", generationTime := 1, doi := [], metadata := [],
    demes := [
      evDeme "A" .inf 100 [] [],
      evDeme "X" .inf 60 [] [],
      evDeme "Y" (.fin 60) 0 ["X"] [1],
      evDeme "B" (.fin 100) 0 ["A"] [1],
      evDeme "C" (.fin 100) 50 ["A"] [1],
      evDeme "D" (.fin 80) 50 ["B"] [1],
      evDeme "E" (.fin 50) 0 ["C", "D"] [1/2, 1/2],
      evDeme "F" (.fin 20) 0 ["B", "E"] [1/4, 3/4]],
    migrations := [{ source := "B", dest := "E", startTime := .fin 40, endTime := 10, rate := 1/10 }],
    pulses := [{ sources := ["B"], dest := "E", time := 30, proportions := [1/2] }],
    index := [("A", 0), ("X", 1), ("Y", 2), ("B", 3), ("C", 4), ("D", 5), ("E", 6), ("F", 7)] }

theorem eventsGraph_valid : validGraph eventsGraph = true := by decide +kernel

deriving instance DecidableEq for Events

theorem eventsGraph_events :
    discreteEvents eventsGraph = some {
      pulses := [{ sources := ["B"], dest := "E", time := 30, proportions := [1/2] }],
      splits := [{ parent := "X", children := ["Y"], time := 60 },
                 { parent := "A", children := ["B", "C"], time := 100 }],
      branches := [{ parent := "B", child := "D", time := .fin 80 }],
      mergers := [{ parents := ["C", "D"], proportions := [1/2, 1/2], child := "E", time := .fin 50 }],
      admixtures :=
        [{ parents := ["B", "E"], proportions := [1/4, 3/4], child := "F", time := .fin 20 }] } := by
  decide +kernel

theorem eventsGraph_specSplits :
    specSplits eventsGraph =
      [{ parent := "A", children := ["B", "C"], time := 100 },
       { parent := "X", children := ["Y"], time := 60 }] := by
  decide +kernel

theorem eventsGraph_views :
    predecessors eventsGraph = [("A", []), ("X", []), ("Y", ["X"]), ("B", ["A"]), ("C", ["A"]),
      ("D", ["B"]), ("E", ["C", "D"]), ("F", ["B", "E"])]
    ∧ successors eventsGraph = [("A", ["B", "C"]), ("X", ["Y"]), ("Y", []), ("B", ["D", "F"]),
      ("C", ["E"]), ("D", ["E"]), ("E", ["F"]), ("F", [])] := by
  decide +kernel

theorem eventsGraph_accounted :
    accountedChildren eventsGraph = ["B", "C", "Y", "D", "E", "F"] := by
  decide +kernel

end Demes.Proofs
