/-
  C10 — closeness comparison (`Graph.assert_close` / `Graph.isclose`, Model `Graph.isclose`)
  is reflexive and symmetric, is unaffected by descriptions, DOIs, metadata, migration order,
  deme order and the order of a deme's ancestors, and reports a difference whenever a semantic
  attribute differs by more than the tolerance.

  `t : Tol` carries `rel_tol` / `abs_tol`; *no* theorem below needs them to be non-negative.
  `Spec.SemClose t a b` (Spec/C10.lean) is the declarative "same model up to `t`":
  equal time units and generation time, a rearrangement of `b`'s demes matching `a`'s one by
  one (`Spec.DemeClose`: same name, close start time, same ancestry up to order, the same number
  of epochs, pairwise close epochs), likewise for migrations, and pulses matching in the given
  order (`Spec.PulseClose`).

  In the Model the asserting and the boolean form are one function, so their agreement is
  checked on the Python pair by the test harness, not here.

  Findings (see the `_counterexample` theorems):
  * (repaired) `Pulse.assert_close` used to compare the per-source proportions with the
    *default* tolerances whatever `rel_tol`/`abs_tol` were passed, so soundness failed below
    the defaults; the Model follows the repaired code and `isclose_sound` now holds for every
    tolerance (`isclose_exact_detects_shift` is the regression test of the former witness).
  * deme descriptions are part of the sort key; they are harmless only because deme names are
    pairwise distinct (`isclose_ignores_counterexample`); the same holds for duplicated
    ancestor names (`isclose_perm_ancestors_counterexample`).
-/
import DemesVerif.Proofs.Close
namespace Demes.Theorems
open Demes Demes.Spec

/-! ### reflexive, symmetric -/

/-- Every graph is close to itself, for every tolerance. -/
theorem isclose_refl (t : Tol) (g : Graph) : Graph.isclose t g g = true :=
  Proofs.isclose_refl t g

/-- Closeness is symmetric, for every tolerance. -/
theorem isclose_symm (t : Tol) (a b : Graph) : Graph.isclose t a b = Graph.isclose t b a :=
  Proofs.isclose_symm t a b

/-! ### ignored attributes -/

/-- Changing the description, DOIs and metadata of either graph and the description of any
deme on either side does not change the result, when deme names are pairwise distinct (as
they are in every valid graph, `valid_names_nodup`). -/
theorem isclose_ignores (t : Tol) (a b : Graph) (da db : String) (doia doib : List String)
    (ma mb : Obj) (dsa dsb : List Deme)
    (ha : Pointwise SameUpToDescription a.demes dsa)
    (hb : Pointwise SameUpToDescription b.demes dsb)
    (hna : (a.demes.map (·.name)).Nodup) (hnb : (b.demes.map (·.name)).Nodup) :
    Graph.isclose t { a with description := da, doi := doia, metadata := ma, demes := dsa }
        { b with description := db, doi := doib, metadata := mb, demes := dsb }
      = Graph.isclose t a b :=
  Proofs.isclose_ignores t a b da db doia doib ma mb dsa dsb ha hb hna hnb

/-- Without distinct names it is false: exchanging the descriptions of two demes both called
"A" turns a close pair into a pair that is not close. -/
theorem isclose_ignores_counterexample :
    ∃ ds, Pointwise SameUpToDescription Proofs.c10Dup.demes ds
      ∧ Graph.isclose defaultTol Proofs.c10Dup Proofs.c10Dup = true
      ∧ Graph.isclose defaultTol { Proofs.c10Dup with demes := ds } Proofs.c10Dup = false :=
  Proofs.isclose_ignores_counterexample

/-- Valid graphs have pairwise distinct deme names and, per deme, distinct ancestors. -/
theorem valid_names_nodup (g : Graph) (hv : validGraph g = true) : (g.demes.map (·.name)).Nodup :=
  Proofs.valid_names_nodup g hv
theorem valid_ancestors_nodup (g : Graph) (hv : validGraph g = true) :
    ∀ d ∈ g.demes, d.ancestors.Nodup :=
  Proofs.valid_ancestors_nodup g hv

/-! ### order of migrations, demes and ancestors -/

/-- Listing the migrations in another order does not change the result. -/
theorem isclose_perm_migrations (t : Tol) (a b : Graph) (ms : List Migration)
    (h : ms.Perm a.migrations) :
    Graph.isclose t { a with migrations := ms } b = Graph.isclose t a b :=
  Proofs.isclose_perm_migrations t a b ms h

/-- Listing the demes in another order (any permutation, whether or not it keeps ancestors
before descendants) does not change the result. -/
theorem isclose_perm_demes (t : Tol) (a b : Graph) (ds : List Deme) (h : ds.Perm a.demes) :
    Graph.isclose t { a with demes := ds } b = Graph.isclose t a b :=
  Proofs.isclose_perm_demes t a b ds h

/-- Rearranging the (ancestor, proportion) pairs of any demes does not change the result,
when deme names and each deme's ancestor names are pairwise distinct (valid graphs). -/
theorem isclose_perm_ancestors (t : Tol) (a b : Graph) (ds : List Deme)
    (h : Pointwise SameUpToAncestorOrder a.demes ds) (hn : (a.demes.map (·.name)).Nodup)
    (hanc : ∀ d ∈ a.demes, d.ancestors.Nodup) :
    Graph.isclose t { a with demes := ds } b = Graph.isclose t a b :=
  Proofs.isclose_perm_ancestors t a b ds h hn hanc

/-- With an ancestor listed twice the order of the pairs matters. -/
theorem isclose_perm_ancestors_counterexample :
    ∃ ds, Pointwise SameUpToAncestorOrder Proofs.c10Twice.demes ds
      ∧ (Proofs.c10Twice.demes.map (·.name)).Nodup
      ∧ Graph.isclose defaultTol Proofs.c10Twice Proofs.c10Twice = true
      ∧ Graph.isclose defaultTol { Proofs.c10Twice with demes := ds } Proofs.c10Twice = false :=
  Proofs.isclose_perm_ancestors_counterexample

/-! ### soundness -/

/-- Graphs reported close describe the same model up to the tolerance, for every tolerance. -/
theorem isclose_sound (t : Tol) (a b : Graph) (h : Graph.isclose t a b = true) : SemClose t a b :=
  Proofs.isclose_sound t a b h

/-- Regression test of the repaired defect: with exact comparison (`rel_tol = abs_tol = 0`) two
valid graphs whose first pulse has proportions (1/4, 1/4) resp. (1/4 + 1e-13, 1/4 - 1e-13)
(equal sums) are not close; under the default tolerances they are. -/
theorem isclose_exact_detects_shift :
    validGraph Proofs.c10Graph = true ∧ validGraph Proofs.c10GraphShift = true
    ∧ Graph.isclose Proofs.c10Exact Proofs.c10Graph Proofs.c10GraphShift = false
    ∧ Graph.isclose defaultTol Proofs.c10Graph Proofs.c10GraphShift = true :=
  Proofs.isclose_exact_detects_shift

/-! ### differences that are reported (contrapositives of `isclose_sound`; by `isclose_symm`
each also holds with the roles of `a` and `b` exchanged) -/

theorem isclose_detects_time_units (t : Tol) (a b : Graph) (h : a.timeUnits ≠ b.timeUnits) :
    Graph.isclose t a b = false :=
  Proofs.isclose_detects_time_units t a b h

theorem isclose_detects_generation_time (t : Tol) (a b : Graph)
    (h : a.generationTime ≠ b.generationTime) : Graph.isclose t a b = false :=
  Proofs.isclose_detects_generation_time t a b h

/-- different numbers of demes -/
theorem isclose_detects_deme_count (t : Tol) (a b : Graph) (h : a.demes.length ≠ b.demes.length) :
    Graph.isclose t a b = false :=
  Proofs.isclose_detects_deme_count t a b h

/-- the deme names (with multiplicity) differ -/
theorem isclose_detects_deme_names (t : Tol) (a b : Graph)
    (h : ¬ (a.demes.map (·.name)).Perm (b.demes.map (·.name))) : Graph.isclose t a b = false :=
  Proofs.isclose_detects_deme_names t a b h

/-- some name is a deme of one graph only -/
theorem isclose_detects_deme_name_set (t : Tol) (a b : Graph) (n : String)
    (h : (n ∈ a.demes.map (·.name) ∧ n ∉ b.demes.map (·.name))
       ∨ (n ∈ b.demes.map (·.name) ∧ n ∉ a.demes.map (·.name))) :
    Graph.isclose t a b = false :=
  Proofs.isclose_detects_deme_name_set t a b n h

/-- a deme of `a` agrees with no deme of the same name in `b` -/
theorem isclose_detects_deme (t : Tol) (a b : Graph) (d : Deme) (hd : d ∈ a.demes)
    (h : ∀ d' ∈ b.demes, d'.name = d.name → ¬ DemeClose t d d') : Graph.isclose t a b = false :=
  Proofs.isclose_detects_deme t a b d hd h

/-- a start time differs by more than the tolerance -/
theorem isclose_detects_start_time (t : Tol) (a b : Graph) (d : Deme) (hd : d ∈ a.demes)
    (h : ∀ d' ∈ b.demes, d'.name = d.name → ¬ WithinTolE t d.startTime d'.startTime) :
    Graph.isclose t a b = false :=
  Proofs.isclose_detects_start_time t a b d hd h

/-- ancestors or proportions differ -/
theorem isclose_detects_ancestry (t : Tol) (a b : Graph) (d : Deme) (hd : d ∈ a.demes)
    (h : ∀ d' ∈ b.demes, d'.name = d.name →
      ¬ WeightsClose t d.ancestors d.proportions d'.ancestors d'.proportions) :
    Graph.isclose t a b = false :=
  Proofs.isclose_detects_ancestry t a b d hd h

/-- the number of epochs differs -/
theorem isclose_detects_epoch_count (t : Tol) (a b : Graph) (d : Deme) (hd : d ∈ a.demes)
    (h : ∀ d' ∈ b.demes, d'.name = d.name → d.epochs.length ≠ d'.epochs.length) :
    Graph.isclose t a b = false :=
  Proofs.isclose_detects_epoch_count t a b d hd h

/-- some epoch value (any of the seven attributes) differs by more than the tolerance -/
theorem isclose_detects_epoch (t : Tol) (a b : Graph) (d : Deme) (hd : d ∈ a.demes)
    (h : ∀ d' ∈ b.demes, d'.name = d.name → ∃ (i : Nat) (e e' : Epoch),
      d.epochs[i]? = some e ∧ d'.epochs[i]? = some e' ∧ ¬ EpochClose t e e') :
    Graph.isclose t a b = false :=
  Proofs.isclose_detects_epoch t a b d hd h

theorem isclose_detects_migration_count (t : Tol) (a b : Graph)
    (h : a.migrations.length ≠ b.migrations.length) : Graph.isclose t a b = false :=
  Proofs.isclose_detects_migration_count t a b h

/-- a migration of `a` agrees (in all five attributes) with no migration of `b` -/
theorem isclose_detects_migration (t : Tol) (a b : Graph) (m : Migration) (hm : m ∈ a.migrations)
    (h : ∀ m' ∈ b.migrations, ¬ MigrationClose t m m') : Graph.isclose t a b = false :=
  Proofs.isclose_detects_migration t a b m hm h

theorem isclose_detects_pulse_count (t : Tol) (a b : Graph)
    (h : a.pulses.length ≠ b.pulses.length) : Graph.isclose t a b = false :=
  Proofs.isclose_detects_pulse_count t a b h

/-- the pulses at some position differ (so the order of the pulses matters) -/
theorem isclose_detects_pulse (t : Tol) (a b : Graph) (i : Nat) (p q : Pulse)
    (hp : a.pulses[i]? = some p) (hq : b.pulses[i]? = some q)
    (h : ¬ PulseClose t p q) : Graph.isclose t a b = false :=
  Proofs.isclose_detects_pulse t a b i p q hp hq h

/-! ### non-vacuity and tests on concrete graphs

`Proofs.c10Graph`: demes A (∞,0], B (40,0] from A with epochs (40,20] and (20,0] (size 1000),
C (30,0] from A and B; two migrations; two pulses.  `List.mergeSort` does not reduce in the
kernel, so closed instances are evaluated through `Proofs.isclose_eq_eval` (the same
function with insertion sort, proved equal). -/

section
open Proofs

example : validGraph c10Graph = true := by decide +kernel

-- `isclose_sound` has a non-trivial instance: a close pair that is not equal
example : Graph.isclose defaultTol c10Graph c10GraphShift = true ∧ c10Graph.pulses ≠ c10GraphShift.pulses := by
  refine ⟨by rw [isclose_eq_eval]; decide +kernel, by decide +kernel⟩
-- with exact comparison requested the same pair is not close (the per-source pulse
-- proportions are compared with the requested tolerances)
example : Graph.isclose ⟨0, 0⟩ c10Graph c10GraphShift = false := by
  rw [isclose_eq_eval]; decide +kernel
-- the hypothesis of `isclose_detects_pulse` for that pair
example : ¬ PulseClose ⟨0, 0⟩ (c10P1 (1/4) (1/4)) (c10P1 (1/4 + 1/10000000000000) (1/4 - 1/10000000000000)) := by
  intro h
  obtain ⟨y, hy, hn, hw⟩ := pairsClose_mem h.proportions.pairs (x := ("A", 1/4)) (by decide +kernel)
  have hall : ∀ y ∈ ["A", "B"].zip [(1/4 + 1/10000000000000 : Q), 1/4 - 1/10000000000000],
      ¬ (("A", (1/4 : Q)).1 = y.1 ∧ WithinTol ⟨0, 0⟩ ("A", (1/4 : Q)).2 y.2) := by
    decide +kernel
  exact hall y hy ⟨hn, hw⟩

-- an epoch size differing by 2× the (relative, 1e-9) tolerance is reported, ½× is not
example : Graph.isclose defaultTol c10Graph
    { c10Graph with demes := [c10A, c10B (1000 + 2/1000000), c10C] } = false := by
  rw [isclose_eq_eval]; decide +kernel
example : Graph.isclose defaultTol c10Graph
    { c10Graph with demes := [c10A, c10B (1000 + 1/2000000), c10C] } = true := by
  rw [isclose_eq_eval]; decide +kernel
-- the same with rel_tol = 1/100, abs_tol = 0
example : Graph.isclose ⟨1/100, 0⟩ c10Graph
    { c10Graph with demes := [c10A, c10B 1020, c10C] } = false := by
  rw [isclose_eq_eval]; decide +kernel
example : Graph.isclose ⟨1/100, 0⟩ c10Graph
    { c10Graph with demes := [c10A, c10B 1005, c10C] } = true := by
  rw [isclose_eq_eval]; decide +kernel
-- the hypothesis of `isclose_detects_epoch` for the 2× pair
example : ∀ d' ∈ [c10A, c10B (1000 + 2/1000000), c10C], d'.name = (c10B 1000).name →
    (c10B 1000).epochs[1]? = some (c10Epoch (.fin 20) 0 1000)
    ∧ d'.epochs[1]? = some (c10Epoch (.fin 20) 0 (1000 + 2/1000000))
    ∧ ¬ WithinTol defaultTol (c10Epoch (.fin 20) 0 1000).startSize
          (c10Epoch (.fin 20) 0 (1000 + 2/1000000)).startSize := by decide +kernel

-- different numbers of epochs (B with one epoch (40,0] instead of (40,20], (20,0])
example : validGraph { c10Graph with demes := [c10A, c10B1, c10C] } = true := by decide +kernel
example : Graph.isclose defaultTol c10Graph { c10Graph with demes := [c10A, c10B1, c10C] }
    = false := by rw [isclose_eq_eval]; decide +kernel
example : c10B 1000 ∈ c10Graph.demes ∧ ∀ d' ∈ [c10A, c10B1, c10C], d'.name = (c10B 1000).name →
    (c10B 1000).epochs.length ≠ d'.epochs.length := by decide +kernel

-- `isclose_ignores`: other descriptions, DOIs, metadata
example : (c10Graph.demes.map (·.name)).Nodup := by decide +kernel
example : Pointwise SameUpToDescription c10Graph.demes
    [{ c10A with description := "" }, { (c10B 1000) with description := "second" }, c10C] :=
  (pointwise_iff_forall₂ _ _ _).2 (.cons rfl (.cons rfl (.cons rfl .nil)))
example : Graph.isclose defaultTol
    { c10Graph with
      description := "", doi := [], metadata := [("k", .str "v")],
      demes := [{ c10A with description := "" }, { (c10B 1000) with description := "second" }, c10C] }
    c10Graph = true := by rw [isclose_eq_eval]; decide +kernel

-- `isclose_perm_migrations`, `isclose_perm_demes` (a permutation that puts C before its ancestors)
example : [c10M2, c10M1].Perm c10Graph.migrations := List.Perm.swap _ _ _
example : [c10C, c10B 1000, c10A].Perm c10Graph.demes := by decide +kernel
example : Graph.isclose defaultTol
    { c10Graph with demes := [c10C, c10B 1000, c10A], migrations := [c10M2, c10M1] } c10Graph
    = true := by rw [isclose_eq_eval]; decide +kernel

-- `isclose_perm_ancestors`: C from (B: 3/4, A: 1/4) instead of (A: 1/4, B: 3/4)
example : Pointwise SameUpToAncestorOrder c10Graph.demes [c10A, c10B 1000, c10C'] :=
  (pointwise_iff_forall₂ _ _ _).2
    (.cons ⟨rfl, rfl, rfl, rfl, rfl, rfl, .refl _⟩
      (.cons ⟨rfl, rfl, rfl, rfl, rfl, rfl, .refl _⟩
        (.cons ⟨rfl, rfl, rfl, rfl, rfl, rfl, List.Perm.swap _ _ _⟩ .nil)))
example : ∀ d ∈ c10Graph.demes, d.ancestors.Nodup := by decide +kernel
example : Graph.isclose defaultTol { c10Graph with demes := [c10A, c10B 1000, c10C'] } c10Graph
    = true := by rw [isclose_eq_eval]; decide +kernel

-- the other reported differences, evaluated
example : Graph.isclose defaultTol c10Graph { c10Graph with timeUnits := "years", generationTime := 25 }
    = false := by rw [isclose_eq_eval]; decide +kernel
example : Graph.isclose defaultTol c10Graph
    { c10Graph with demes := [c10A, c10B 1000, { c10C with name := "D" }] } = false := by
  rw [isclose_eq_eval]; decide +kernel
example : "D" ∈ [c10A, c10B 1000, { c10C with name := "D" }].map (·.name)
    ∧ "D" ∉ c10Graph.demes.map (·.name) := by decide +kernel
example : Graph.isclose defaultTol c10Graph
    { c10Graph with demes := [c10A, c10B 1000, { c10C with startTime := .fin 31 }] } = false := by
  rw [isclose_eq_eval]; decide +kernel
example : Graph.isclose defaultTol c10Graph
    { c10Graph with demes := [c10A, c10B 1000, { c10C with proportions := [1/2, 1/2] }] } = false := by
  rw [isclose_eq_eval]; decide +kernel
example : Graph.isclose defaultTol c10Graph
    { c10Graph with migrations := [c10M1, { c10M2 with rate := 1/4 }] } = false := by
  rw [isclose_eq_eval]; decide +kernel
example : c10M2 ∈ c10Graph.migrations ∧ ∀ m' ∈ [c10M1, { c10M2 with rate := 1/4 }],
    ¬ (c10M2.source = m'.source ∧ c10M2.dest = m'.dest ∧ WithinTol defaultTol c10M2.rate m'.rate) := by
  decide +kernel
example : Graph.isclose defaultTol c10Graph { c10Graph with migrations := [c10M1] } = false := by
  rw [isclose_eq_eval]; decide +kernel
example : Graph.isclose defaultTol c10Graph { c10Graph with pulses := [c10P1 (1/4) (1/4)] } = false := by
  rw [isclose_eq_eval]; decide +kernel
-- the order of the pulses matters
example : Graph.isclose defaultTol c10Graph { c10Graph with pulses := [c10P2, c10P1 (1/4) (1/4)] }
    = false := by rw [isclose_eq_eval]; decide +kernel
-- a pulse proportion differing by 2× / ½× the default tolerance
example : Graph.isclose defaultTol c10Graph
    { c10Graph with pulses := [c10P1 (1/4 + 1/2000000000) (1/4), c10P2] } = false := by
  rw [isclose_eq_eval]; decide +kernel
example : Graph.isclose defaultTol c10Graph
    { c10Graph with pulses := [c10P1 (1/4 + 1/8000000000) (1/4), c10P2] } = true := by
  rw [isclose_eq_eval]; decide +kernel
-- hypotheses of `isclose_detects_deme` / `_start_time` (C starting at 31 instead of 30),
-- `_ancestry` (C from A, B in proportions 1/2, 1/2 instead of 1/4, 3/4), `_pulse` (swapped)
example : c10C ∈ c10Graph.demes ∧ ∀ d' ∈ [c10A, c10B 1000, { c10C with startTime := .fin 31 }],
    d'.name = c10C.name → ¬ WithinTolE defaultTol c10C.startTime d'.startTime := by decide +kernel
example : ∀ d' ∈ [c10A, c10B 1000, { c10C with startTime := .fin 31 }],
    d'.name = c10C.name → ¬ DemeClose defaultTol c10C d' := by
  have h : ∀ d' ∈ [c10A, c10B 1000, { c10C with startTime := .fin 31 }],
      d'.name = c10C.name → ¬ WithinTolE defaultTol c10C.startTime d'.startTime := by decide +kernel
  exact fun d' hd' hn hc => h d' hd' hn hc.startTime
example : ¬ WeightsClose defaultTol c10C.ancestors c10C.proportions ["A", "B"] [1/2, 1/2] := by
  intro h
  obtain ⟨y, hy, hn, hw⟩ := pairsClose_mem h.pairs (x := ("A", 1/4)) (by decide +kernel)
  have hall : ∀ y ∈ ["A", "B"].zip [(1/2 : Q), 1/2],
      ¬ (("A", (1/4 : Q)).1 = y.1 ∧ WithinTol defaultTol ("A", (1/4 : Q)).2 y.2) := by
    decide +kernel
  exact hall y hy ⟨hn, hw⟩
example : c10Graph.pulses[0]? = some (c10P1 (1/4) (1/4))
    ∧ ({ c10Graph with pulses := [c10P2, c10P1 (1/4) (1/4)] } : Graph).pulses[0]? = some c10P2
    ∧ ¬ PulseClose defaultTol (c10P1 (1/4) (1/4)) c10P2 :=
  ⟨rfl, rfl, fun h => absurd h.dest (by decide)⟩
-- closeness is not transitive (so it is not an equivalence relation in the strict sense)
example : Graph.isclose ⟨1/100, 0⟩ { c10Graph with demes := [c10A, c10B 1000, c10C] }
      { c10Graph with demes := [c10A, c10B 1008, c10C] } = true
    ∧ Graph.isclose ⟨1/100, 0⟩ { c10Graph with demes := [c10A, c10B 1008, c10C] }
      { c10Graph with demes := [c10A, c10B 1016, c10C] } = true
    ∧ Graph.isclose ⟨1/100, 0⟩ { c10Graph with demes := [c10A, c10B 1000, c10C] }
      { c10Graph with demes := [c10A, c10B 1016, c10C] } = false := by
  simp only [isclose_eq_eval]; decide +kernel
end

end Demes.Theorems
