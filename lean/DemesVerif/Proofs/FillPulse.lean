/-
  Proofs for C02, part 2 — `sortPulses` is a stable sort by descending time.
-/
import DemesVerif.Spec.C02
namespace Demes.Proofs
open Demes Demes.Spec

theorem insertPulse_perm (p : Pulse) (qs : List Pulse) : (insertPulse p qs).Perm (p :: qs) := by
  induction qs with
  | nil => exact List.Perm.refl _
  | cons q qs ih =>
    simp only [insertPulse]
    split
    · exact List.Perm.refl _
    · exact (List.Perm.cons q ih).trans (List.Perm.swap p q qs)

theorem insertPulse_sorted (p : Pulse) (qs : List Pulse)
    (h : qs.Pairwise (fun a b => b.time ≤ a.time)) :
    (insertPulse p qs).Pairwise (fun a b => b.time ≤ a.time) := by
  induction qs with
  | nil => simp [insertPulse]
  | cons q qs ih =>
    rw [List.pairwise_cons] at h
    simp only [insertPulse]
    split
    · rename_i hq
      rw [List.pairwise_cons]
      refine ⟨?_, List.pairwise_cons.2 h⟩
      intro b hb
      rcases List.mem_cons.1 hb with rfl | hb
      · exact hq
      · exact Rat.le_trans (h.1 b hb) hq
    · rename_i hq
      rw [List.pairwise_cons]
      refine ⟨?_, ih h.2⟩
      intro b hb
      rcases List.mem_cons.1 ((insertPulse_perm p qs).mem_iff.1 hb) with rfl | hb
      · exact Rat.le_of_lt (Rat.not_le.1 hq)
      · exact h.1 b hb

theorem insertPulse_filter (p : Pulse) (qs : List Pulse) (k : Q) :
    (insertPulse p qs).filter (fun a => a.time = k) = (p :: qs).filter (fun a => a.time = k) := by
  induction qs with
  | nil => rfl
  | cons q qs ih =>
    simp only [insertPulse]
    split
    · rfl
    · rename_i hq
      rw [List.filter_cons, ih]
      by_cases hp : p.time = k
      · have hqk : q.time ≠ k := by
          intro e; apply hq; rw [e, hp]; exact Rat.le_refl
        simp [hp, hqk]
      · simp [List.filter_cons, hp]

/-- **C02 (6)** `sortPulses` (the Model of `pulses.sort(key=time, reverse=True)`) returns a
permutation of its input in descending time order in which pulses with equal times keep their
relative order. -/
theorem sortPulses_stable (ps : List Pulse) :
    StableSortedDesc (fun p : Pulse => p.time) ps (sortPulses ps) := by
  induction ps with
  | nil => exact ⟨List.Perm.refl _, List.Pairwise.nil, fun _ => rfl⟩
  | cons p ps ih =>
    have hs : sortPulses (p :: ps) = insertPulse p (sortPulses ps) := rfl
    rw [hs]
    refine ⟨?_, insertPulse_sorted _ _ ih.sorted, ?_⟩
    · exact (insertPulse_perm _ _).trans (List.Perm.cons p ih.perm)
    · intro k
      rw [insertPulse_filter, List.filter_cons, List.filter_cons, ih.stable k]

end Demes.Proofs
