import DemesVerif.Spec.C08
import Std.Data.String.ToNat

/-!
# `from_ms` post-processing: three groups of small lemmas

* (A) the placeholder table of `Model/Ms.lean` is invertible on the sizes of the document;
* (B) population numbers: `demeName` is injective and `popId (popNames n)` reads it back;
* (C) the insertion sort `sortKey` is determined by any strictly key-sorted permutation.
-/

namespace Demes.Proofs.FromMs

open Demes Demes.Ms Demes.Spec.MsSem Demes.Spec.C08

/-! ## (A) the placeholder table -/

theorem le_qmax_left (a b : Q) : a ≤ qmax a b := by unfold qmax; split <;> grind
theorem le_qmax_right (a b : Q) : b ≤ qmax a b := by unfold qmax; split <;> grind

/-- a `qmax`-fold dominates its start value and every element -/
theorem foldl_qmax_ge {α} (f : α → Q) : ∀ (l : List α) (m : Q),
    m ≤ l.foldl (fun m s => qmax m (f s)) m ∧ ∀ s ∈ l, f s ≤ l.foldl (fun m s => qmax m (f s)) m
  | [], m => ⟨Rat.le_refl, by simp⟩
  | a :: as, m => by
    have ih := foldl_qmax_ge f as (qmax m (f a))
    have h1 := le_qmax_left m (f a)
    have h2 := le_qmax_right m (f a)
    simp only [List.foldl_cons, List.mem_cons]
    refine ⟨by grind, ?_⟩
    rintro s (rfl | hs)
    · grind
    · exact ih.2 s hs

/-- `lookup` in an indexed table finds (the first) position of a member -/
theorem lookup_zipIdx_map {α β} [BEq α] [LawfulBEq α] (f : Nat → β) : ∀ (l : List α) (k : Nat) (x : α),
    x ∈ l → ∃ i, l[i]? = some x ∧
      ((l.zipIdx k).map (fun (si : α × Nat) => (si.1, f si.2))).lookup x = some (f (k + i))
  | [], _, _, h => by simp at h
  | a :: as, k, x, h => by
    rw [List.zipIdx_cons, List.map_cons, List.lookup_cons]
    by_cases hxa : x = a
    · subst hxa
      exact ⟨0, by simp⟩
    · have hx : x ∈ as := by
        rcases List.mem_cons.1 h with h | h
        · exact absurd h hxa
        · exact h
      obtain ⟨i, hi, hl⟩ := lookup_zipIdx_map f as (k + 1) x hx
      refine ⟨i + 1, by simpa using hi, ?_⟩
      have hb : (x == a) = false := by simpa using hxa
      rw [hb]
      simp only [hl]
      congr 2
      omega

/-- `find?` by value in an indexed table with injective values finds the entry of that index -/
theorem find?_zipIdx_map {α} (f : Nat → Q) (hf : ∀ a b, f a = f b → a = b) :
    ∀ (l : List α) (k i : Nat) (x : α), l[i]? = some x →
      ((l.zipIdx k).map (fun (si : α × Nat) => (si.1, f si.2))).find? (fun e => e.2 = f (k + i))
        = some (x, f (k + i))
  | [], _, _, _, h => by simp at h
  | a :: as, k, 0, x, h => by
    simp only [List.getElem?_cons_zero, Option.some.injEq] at h
    subst h
    simp
  | a :: as, k, i + 1, x, h => by
    simp only [List.getElem?_cons_succ] at h
    have ih := find?_zipIdx_map f hf as (k + 1) i x h
    have e : k + 1 + i = k + (i + 1) := by omega
    rw [e] at ih
    rw [List.zipIdx_cons, List.map_cons, List.find?_cons]
    have hne : decide (f k = f (k + (i + 1))) = false := by
      simp only [decide_eq_false_iff_not]
      intro h'
      have := hf _ _ h'
      omega
    simp only [hne]
    exact ih

theorem placeholder_val_inj (c : Q) (a b : Nat) (h : c + 1 + (a : Q) = c + 1 + (b : Q)) : a = b := by
  have : (a : Q) = (b : Q) := by grind
  exact Rat.natCast_inj.1 this

/-- every table value is above `c` -/
theorem find?_zipIdx_map_none {α} (c q : Q) (hq : q ≤ c) (l : List α) (k : Nat) :
    ((l.zipIdx k).map (fun (si : α × Nat) => (si.1, c + 1 + (si.2 : Q)))).find? (fun e => e.2 = q)
      = none := by
  rw [List.find?_eq_none]
  intro e he
  obtain ⟨si, _, rfl⟩ := List.mem_map.1 he
  have : (0 : Q) ≤ (si.2 : Q) := Rat.natCast_nonneg
  simp only [decide_eq_true_eq]
  grind

/-- the placeholder table is invertible on the sizes of the document -/
theorem placeholders_roundtrip (doc : MsDoc) (s : Sz) (hs : s ∈ doc.sizes) :
    qToSz (placeholders doc) (szToQ (placeholders doc) s) = s := by
  by_cases hx : s.expo = 0
  · have hex : s.isExact = true := by simp [Sz.isExact, hx]
    have hle := (foldl_qmax_ge (fun s : Sz => s.coef) (doc.sizes.filter Sz.isExact) 1).2 s
      (List.mem_filter.2 ⟨hs, hex⟩)
    simp only [szToQ, hex, if_true, qToSz, placeholders]
    rw [find?_zipIdx_map_none _ _ hle]
    cases s
    simp_all [Sz.ofQ]
  · have hex : s.isExact = false := by simp [Sz.isExact, hx]
    have hm : s ∈ (doc.sizes.filter (fun s => !s.isExact)).eraseDups :=
      List.mem_eraseDups.2 (List.mem_filter.2 ⟨hs, by simp [hex]⟩)
    obtain ⟨i, hi, hl⟩ := lookup_zipIdx_map
      (fun n : Nat => (doc.sizes.filter Sz.isExact).foldl (fun m s => qmax m s.coef) 1 + 1 + (n : Q))
      _ 0 s hm
    have hfd := find?_zipIdx_map
      (fun n : Nat => (doc.sizes.filter Sz.isExact).foldl (fun m s => qmax m s.coef) 1 + 1 + (n : Q))
      (fun a b h => placeholder_val_inj _ a b h) _ 0 i s hi
    simp only [szToQ, hex, qToSz, placeholders] at hl hfd ⊢
    simp only [Bool.false_eq_true, if_false, hl, Option.getD_some, hfd]

/-- distinct sizes of the document get distinct rationals -/
theorem szToQ_inj (doc : MsDoc) (s s' : Sz) (hs : s ∈ doc.sizes) (hs' : s' ∈ doc.sizes)
    (h : szToQ (placeholders doc) s = szToQ (placeholders doc) s') : s = s' := by
  rw [← placeholders_roundtrip doc s hs, ← placeholders_roundtrip doc s' hs', h]

/-- non-vacuity: a document with an exact size and two distinct symbolic sizes -/
def tableDoc : MsDoc :=
  { demes := [{ name := "deme1", startTime := .inf,
                epochs := [{ endSize := ⟨100, 0⟩, endTime := 1 },
                           { endSize := ⟨100, 2⟩, endTime := 0, startSize := some ⟨50, -1⟩ }] }],
    migrations := [], pulses := none, numPops := 1 }

theorem tableDoc_mem : (⟨50, -1⟩ : Sz) ∈ tableDoc.sizes ∧ (⟨100, 2⟩ : Sz) ∈ tableDoc.sizes
    ∧ (⟨100, 0⟩ : Sz) ∈ tableDoc.sizes := by
  simp [tableDoc, MsDoc.sizes]

example : qToSz (placeholders tableDoc) (szToQ (placeholders tableDoc) ⟨50, -1⟩) = ⟨50, -1⟩ :=
  placeholders_roundtrip _ _ tableDoc_mem.1

example : szToQ (placeholders tableDoc) ⟨100, 2⟩ ≠ szToQ (placeholders tableDoc) ⟨100, 0⟩ :=
  fun h => by
    have := szToQ_inj _ _ _ tableDoc_mem.2.1 tableDoc_mem.2.2 h
    simp at this

/-! ## (C) `sortKey` -/

theorem insertKey_perm {β} (x : Nat × β) : ∀ l : List (Nat × β), (insertKey x l).Perm (x :: l)
  | [] => List.Perm.refl _
  | y :: ys => by
    unfold insertKey
    split
    · exact List.Perm.refl _
    · exact ((insertKey_perm x ys).cons y).trans (List.Perm.swap x y ys)

theorem sortKey_perm {β} : ∀ xs : List (Nat × β), (sortKey xs).Perm xs
  | [] => List.Perm.refl _
  | x :: xs => by
    show (insertKey x (sortKey xs)).Perm (x :: xs)
    exact (insertKey_perm x _).trans ((sortKey_perm xs).cons x)

theorem insertKey_sorted {β} (x : Nat × β) : ∀ l : List (Nat × β),
    l.Pairwise (fun a b => a.1 ≤ b.1) → (insertKey x l).Pairwise (fun a b => a.1 ≤ b.1)
  | [], _ => List.pairwise_singleton _ _
  | y :: ys, h => by
    unfold insertKey
    split
    · rename_i hxy
      refine List.Pairwise.cons ?_ h
      intro b hb
      rcases List.mem_cons.1 hb with rfl | hb
      · exact hxy
      · exact Nat.le_trans hxy (List.rel_of_pairwise_cons h hb)
    · rename_i hxy
      refine List.Pairwise.cons ?_ (insertKey_sorted x ys (List.Pairwise.of_cons h))
      intro b hb
      rcases List.mem_cons.1 ((insertKey_perm x ys).mem_iff.1 hb) with rfl | hb
      · omega
      · exact List.rel_of_pairwise_cons h hb

theorem sortKey_sorted {β} : ∀ xs : List (Nat × β), (sortKey xs).Pairwise (fun a b => a.1 ≤ b.1)
  | [] => List.Pairwise.nil
  | x :: xs => insertKey_sorted x _ (sortKey_sorted xs)

/-- a strictly key-sorted permutation of `xs` *is* `sortKey xs` -/
theorem sortKey_eq_of_perm {β} (xs ys : List (Nat × β)) (hp : xs.Perm ys)
    (hs : ys.Pairwise (fun a b => a.1 < b.1)) : sortKey xs = ys := by
  have hp' : (sortKey xs).Perm ys := (sortKey_perm xs).trans hp
  have hne : ys.Pairwise (fun a b => a.1 ≠ b.1) := hs.imp (fun h => Nat.ne_of_lt h)
  have hne' : (sortKey xs).Pairwise (fun a b => a.1 ≠ b.1) :=
    (hp'.pairwise_iff (fun h => Ne.symm h)).2 hne
  have hlt : (sortKey xs).Pairwise (fun a b => a.1 < b.1) :=
    ((sortKey_sorted xs).and hne').imp (fun h => Nat.lt_of_le_of_ne h.1 h.2)
  exact List.Perm.eq_of_pairwise (le := fun a b => a.1 < b.1)
    (fun a b _ _ h1 h2 => absurd h1 (Nat.lt_asymm h2)) hlt hs hp'

example : sortKey [(3, 'c'), (1, 'a'), (2, 'b')] = [(1, 'a'), (2, 'b'), (3, 'c')] :=
  sortKey_eq_of_perm _ _ (by decide) (by decide)

/-! ## (B) population numbers -/

theorem demeName_injective {j k : Nat} (h : Ms.demeName j = Ms.demeName k) : j = k := by
  unfold Ms.demeName at h
  have h1 : toString (j + 1) = toString (k + 1) := (String.append_right_inj _).1 h
  have h2 : j + 1 = k + 1 := Nat.repr_injective h1
  omega

theorem popId_popNames {n k : Nat} (hk : k < n) :
    popId (popNames n) (Ms.demeName k) = .ok (k + 1) := by
  have hf : (popNames n).findIdx? (· = Ms.demeName k) = some k := by
    rw [List.findIdx?_eq_some_iff_getElem]
    refine ⟨by simpa [popNames] using hk, by simp [popNames], ?_⟩
    intro j hj
    simp only [popNames, List.getElem_map, List.getElem_range, decide_eq_true_eq]
    intro h
    have := demeName_injective h
    omega
  unfold popId
  rw [hf]
  rfl

example : popId (popNames 3) (Ms.demeName 2) = .ok 3 := popId_popNames (by decide)

end Demes.Proofs.FromMs
