/-
  Proofs for C02, part 3 — a symmetric migration is its expansion into every ordered pair.
-/
import DemesVerif.Proofs.FillObj
namespace Demes.Proofs
open Demes Demes.Obj Demes.Spec

/-! ### list helpers -/

theorem flatMap_congr' {α β} {l : List α} {f g : α → List β} (h : ∀ x ∈ l, f x = g x) :
    l.flatMap f = l.flatMap g := by
  induction l with
  | nil => rfl
  | cons a l ih =>
    rw [List.flatMap_cons, List.flatMap_cons, h a List.mem_cons_self,
      ih (fun x hx => h x (List.mem_cons_of_mem _ hx))]

theorem filterMap_congr' {α β} {l : List α} {f g : α → Option β} (h : ∀ x ∈ l, f x = g x) :
    l.filterMap f = l.filterMap g := by
  induction l with
  | nil => rfl
  | cons a l ih =>
    rw [List.filterMap_cons, List.filterMap_cons, h a List.mem_cons_self,
      ih (fun x hx => h x (List.mem_cons_of_mem _ hx))]

theorem zipIdx_flatMap {α β} (xs : List α) (k : Nat) (f : α × Nat → List β) :
    (xs.zipIdx k).flatMap f
      = (List.range xs.length).flatMap (fun i => match xs[i]? with
          | some a => f (a, k + i) | none => []) := by
  induction xs generalizing k with
  | nil => simp
  | cons a xs ih =>
    rw [List.zipIdx_cons, List.flatMap_cons, ih, List.length_cons, List.range_succ_eq_map,
      List.flatMap_cons, List.flatMap_map]
    simp only [List.getElem?_cons_zero, Nat.add_zero, List.getElem?_cons_succ]
    congr 1
    apply flatMap_congr'
    intro i _
    rw [Nat.add_assoc, Nat.add_comm 1 i]

theorem zipIdx_filterMap {α β} (xs : List α) (k : Nat) (f : α × Nat → Option β) :
    (xs.zipIdx k).filterMap f
      = (List.range xs.length).filterMap (fun i => match xs[i]? with
          | some a => f (a, k + i) | none => none) := by
  induction xs generalizing k with
  | nil => simp
  | cons a xs ih =>
    rw [List.zipIdx_cons, List.filterMap_cons, List.length_cons, List.range_succ_eq_map,
      List.filterMap_cons, List.filterMap_map, ih]
    simp only [List.getElem?_cons_zero, Nat.add_zero]
    have : (fun i => match xs[i]? with | some a => f (a, k + 1 + i) | none => none)
        = ((fun i => match (a :: xs)[i]? with | some a => f (a, k + i) | none => none) ∘ Nat.succ) := by
      funext i
      simp only [Function.comp, Nat.succ_eq_add_one, List.getElem?_cons_succ]
      rw [Nat.add_assoc, Nat.add_comm 1 i]
    rw [this]

/-- `itertools.permutations(xs, 2)` (Model) is the Spec's enumeration of ordered pairs by positions. -/
theorem permutations2_eq_spec {α} (xs : List α) : permutations2 xs = specSymmetricExpansion xs := by
  unfold permutations2 specSymmetricExpansion
  rw [zipIdx_flatMap]
  apply flatMap_congr'
  intro i hi
  rw [List.mem_range] at hi
  rw [List.getElem?_eq_getElem hi]
  simp only [Nat.zero_add]
  rw [zipIdx_filterMap]
  apply filterMap_congr'
  intro j hj
  rw [List.mem_range] at hj
  rw [List.getElem?_eq_getElem hj]
  simp only [Nat.zero_add]

theorem mem_specSymmetricExpansion {α} {xs : List α} {p : α × α}
    (h : p ∈ specSymmetricExpansion xs) : p.1 ∈ xs ∧ p.2 ∈ xs := by
  simp only [specSymmetricExpansion, List.mem_flatMap, List.mem_filterMap, List.mem_range] at h
  obtain ⟨i, hi, j, hj, h⟩ := h
  rw [List.getElem?_eq_getElem hi, List.getElem?_eq_getElem hj] at h
  split at h
  · simp only [Option.some.injEq] at h
    subst h
    exact ⟨List.getElem_mem hi, List.getElem_mem hj⟩
  · cases h

theorem specSymmetricExpansion_ne_nil {α} {xs : List α} (h : 2 ≤ xs.length) :
    specSymmetricExpansion xs ≠ [] := by
  match xs, h with
  | a :: b :: rest, _ =>
    rw [← permutations2_eq_spec]
    simp [permutations2, List.zipIdx_cons]

/-! ### **C02 (5)** symmetric migrations -/

/-- `_add_symmetric_migration` is the fold of `_add_asymmetric_migration` over every ordered pair
of the listed names (same rate, same *given* bounds; an omitted bound is defaulted pair by pair
inside `addAsymmetricMigration`, from that pair's `timeIntersection`). -/
theorem symmetric_expand (g : Graph) (names : List Value) (rateV : Value)
    (st et : Option Value) (hlen : 2 ≤ names.length) :
    addSymmetricMigration g (.list names) rateV st et
      = (specSymmetricExpansion names).foldlM (fun g (sd : Value × Value) =>
          addAsymmetricMigration g sd.1 sd.2 rateV st et) g := by
  have : ¬ names.length < 2 := by omega
  simp only [addSymmetricMigration, this, if_false, pure_bind, permutations2_eq_spec]

/-- … and fewer than two names are rejected. -/
theorem symmetric_short (g : Graph) (names : List Value) (rateV : Value)
    (st et : Option Value) (hlen : names.length < 2) :
    (addSymmetricMigration g (.list names) rateV st et).toBool = false := by
  simp only [addSymmetricMigration, hlen, if_true]
  rfl

/-! #### the written-out asymmetric migration of one pair -/

theorem checkAllowed_asymmetricDict (r st et : Option Value) (sd : Value × Value) :
    checkAllowed (asymmetricDict r st et sd) allowedMigration = .ok () := by
  cases r <;> cases st <;> cases et <;> rfl

theorem lookup_asymmetricDict_source (r st et : Option Value) (sd : Value × Value) :
    lookup "source" (asymmetricDict r st et sd) = some sd.1 := rfl

theorem lookup_asymmetricDict_dest (r st et : Option Value) (sd : Value × Value) :
    lookup "dest" (asymmetricDict r st et sd) = some sd.2 := by
  simp [asymmetricDict, lookup_cons]

theorem lookup_asymmetricDict_demes (r st et : Option Value) (sd : Value × Value) :
    lookup "demes" (asymmetricDict r st et sd) = none := by
  cases r <;> cases st <;> cases et <;> simp [asymmetricDict, lookup_cons, lookup_nil]

theorem lookup_asymmetricDict_rate (r st et : Option Value) (sd : Value × Value) :
    lookup "rate" (asymmetricDict r st et sd) = r := by
  cases r <;> cases st <;> cases et <;> simp [asymmetricDict, lookup_cons, lookup_nil]

theorem lookup_asymmetricDict_start (r st et : Option Value) (sd : Value × Value) :
    lookup "start_time" (asymmetricDict r st et sd) = st := by
  cases r <;> cases st <;> cases et <;> simp [asymmetricDict, lookup_cons, lookup_nil]

theorem lookup_asymmetricDict_end (r st et : Option Value) (sd : Value × Value) :
    lookup "end_time" (asymmetricDict r st et sd) = et := by
  cases r <;> cases st <;> cases et <;> simp [asymmetricDict, lookup_cons, lookup_nil]

theorem orElse_idem_right {α} (x y : Option α) : ((x <|> y) <|> y) = (x <|> y) := by
  cases x <;> cases y <;> rfl

theorem lookupNN_of_ne_null {k : String} {d : Obj} {v : Value} (h : lookup k d = some v)
    (hv : v ≠ .null) : lookupNN k d = some v := by
  simp only [lookupNN, h]
  cases v <;> first | rfl | exact (hv rfl).elim

theorem lookupNN_eq_of_lookup_eq {k : String} {d d' : Obj} (h : lookup k d = lookup k d') :
    lookupNN k d = lookupNN k d' := by
  simp only [lookupNN, h]

/-- The migration step on the written-out dict of one pair is `addAsymmetricMigration` with the
rate and the bounds in force for the symmetric migration `m`. -/
theorem resolveMigration_asymmetricDict (D : Obj) (g : Graph) (m : Obj) (sd : Value × Value)
    (hD : lookupNN "demes" D = none) (h1 : sd.1 ≠ .null) (h2 : sd.2 ≠ .null) :
    resolveMigration D g (asymmetricDict (lookup "rate" (insertDefaults m D))
        (lookup "start_time" (insertDefaults m D)) (lookup "end_time" (insertDefaults m D)) sd)
      = (match lookup "rate" (insertDefaults m D) with
          | some v => pure v
          | none => keyErr "required field 'rate' not found") >>= fun rateV =>
        addAsymmetricMigration g sd.1 sd.2 rateV (lookupNN "start_time" (insertDefaults m D))
          (lookupNN "end_time" (insertDefaults m D)) := by
  have hr : lookup "rate" (insertDefaults (asymmetricDict (lookup "rate" (insertDefaults m D))
        (lookup "start_time" (insertDefaults m D)) (lookup "end_time" (insertDefaults m D)) sd) D)
      = lookup "rate" (insertDefaults m D) := by
    rw [lookup_insertDefaults, lookup_asymmetricDict_rate, lookup_insertDefaults, orElse_idem_right]
  have hs : lookup "start_time" (insertDefaults (asymmetricDict (lookup "rate" (insertDefaults m D))
        (lookup "start_time" (insertDefaults m D)) (lookup "end_time" (insertDefaults m D)) sd) D)
      = lookup "start_time" (insertDefaults m D) := by
    rw [lookup_insertDefaults, lookup_asymmetricDict_start, lookup_insertDefaults,
      orElse_idem_right]
  have he : lookup "end_time" (insertDefaults (asymmetricDict (lookup "rate" (insertDefaults m D))
        (lookup "start_time" (insertDefaults m D)) (lookup "end_time" (insertDefaults m D)) sd) D)
      = lookup "end_time" (insertDefaults m D) := by
    rw [lookup_insertDefaults, lookup_asymmetricDict_end, lookup_insertDefaults, orElse_idem_right]
  have hdm : lookupNN "demes" (insertDefaults (asymmetricDict (lookup "rate" (insertDefaults m D))
        (lookup "start_time" (insertDefaults m D)) (lookup "end_time" (insertDefaults m D)) sd) D)
      = none := by
    rw [← hD]
    apply lookupNN_eq_of_lookup_eq
    rw [lookup_insertDefaults, lookup_asymmetricDict_demes]; rfl
  have hsrc : lookupNN "source" (insertDefaults (asymmetricDict (lookup "rate" (insertDefaults m D))
        (lookup "start_time" (insertDefaults m D)) (lookup "end_time" (insertDefaults m D)) sd) D)
      = some sd.1 := by
    apply lookupNN_of_ne_null _ h1
    rw [lookup_insertDefaults, lookup_asymmetricDict_source]; rfl
  have hdst : lookupNN "dest" (insertDefaults (asymmetricDict (lookup "rate" (insertDefaults m D))
        (lookup "start_time" (insertDefaults m D)) (lookup "end_time" (insertDefaults m D)) sd) D)
      = some sd.2 := by
    apply lookupNN_of_ne_null _ h2
    rw [lookup_insertDefaults, lookup_asymmetricDict_dest]; rfl
  unfold resolveMigration
  rw [checkAllowed_asymmetricDict]
  simp only [hr, hdm, hsrc, hdst, lookupNN_eq_of_lookup_eq hs, lookupNN_eq_of_lookup_eq he]
  cases lookup "rate" (insertDefaults m D) <;> rfl

/-- The migration step on a symmetric migration. -/
theorem resolveMigration_symmetric (D : Obj) (g : Graph) (m : Obj) (names : List Value)
    (hallowed : checkAllowed m allowedMigration = .ok ())
    (hdemes : lookupNN "demes" (insertDefaults m D) = some (.list names))
    (hsrc : lookupNN "source" (insertDefaults m D) = none)
    (hdst : lookupNN "dest" (insertDefaults m D) = none) :
    resolveMigration D g m
      = (match lookup "rate" (insertDefaults m D) with
          | some v => pure v
          | none => keyErr "required field 'rate' not found") >>= fun rateV =>
        addSymmetricMigration g (.list names) rateV (lookupNN "start_time" (insertDefaults m D))
          (lookupNN "end_time" (insertDefaults m D)) := by
  unfold resolveMigration
  rw [hallowed]
  simp only [hdemes, hsrc, hdst]
  cases lookup "rate" (insertDefaults m D) <;> rfl

/-- **C02 (5)** One symmetric migration resolves exactly like its written-out expansion: the list
of asymmetric migrations `{source, dest, rate, start_time?, end_time?}` for every ordered pair, in
`itertools.permutations` order, each carrying the rate and the bounds *in force* for the
symmetric migration (a bound that is not given is not given in the expansion either, so each
pair defaults it from its own two demes). -/
theorem resolveMigration_symmetric_eq_asymmetric (D : Obj) (g : Graph) (m : Obj)
    (names : List Value)
    (hallowed : checkAllowed m allowedMigration = .ok ())
    (hdemes : lookupNN "demes" (insertDefaults m D) = some (.list names))
    (hsrc : lookupNN "source" (insertDefaults m D) = none)
    (hdst : lookupNN "dest" (insertDefaults m D) = none)
    (hD : lookupNN "demes" D = none)
    (hlen : 2 ≤ names.length) (hnn : ∀ v ∈ names, v ≠ Value.null) :
    resolveMigration D g m
      = ((specSymmetricExpansion names).map
          (asymmetricDict (lookup "rate" (insertDefaults m D))
            (lookup "start_time" (insertDefaults m D))
            (lookup "end_time" (insertDefaults m D)))).foldlM (resolveMigration D) g := by
  rw [resolveMigration_symmetric D g m names hallowed hdemes hsrc hdst, List.foldlM_map]
  rw [foldlM_congr' (g := fun g sd =>
      (match lookup "rate" (insertDefaults m D) with
          | some v => pure v
          | none => keyErr "required field 'rate' not found") >>= fun rateV =>
        addAsymmetricMigration g sd.1 sd.2 rateV (lookupNN "start_time" (insertDefaults m D))
          (lookupNN "end_time" (insertDefaults m D)))]
  · cases hr : lookup "rate" (insertDefaults m D) with
    | some v =>
      simp only [pure_bind]
      exact symmetric_expand g names v _ _ hlen
    | none =>
      cases hx : specSymmetricExpansion names with
      | nil => exact (specSymmetricExpansion_ne_nil hlen hx).elim
      | cons p ps => rfl
  · intro g' sd hsd
    obtain ⟨m1, m2⟩ := mem_specSymmetricExpansion hsd
    exact resolveMigration_asymmetricDict D g' m sd hD (hnn _ m1) (hnn _ m2)

/-- The same inside a `migrations` list: replacing a symmetric migration by its expansion, in
place, does not change the outcome of the migration loop. -/
theorem migrations_symmetric_eq_asymmetric (D : Obj) (g : Graph) (pre post : List Obj) (m : Obj)
    (names : List Value)
    (hallowed : checkAllowed m allowedMigration = .ok ())
    (hdemes : lookupNN "demes" (insertDefaults m D) = some (.list names))
    (hsrc : lookupNN "source" (insertDefaults m D) = none)
    (hdst : lookupNN "dest" (insertDefaults m D) = none)
    (hD : lookupNN "demes" D = none)
    (hlen : 2 ≤ names.length) (hnn : ∀ v ∈ names, v ≠ Value.null) :
    (pre ++ [m] ++ post).foldlM (resolveMigration D) g
      = (pre ++ (specSymmetricExpansion names).map
          (asymmetricDict (lookup "rate" (insertDefaults m D))
            (lookup "start_time" (insertDefaults m D))
            (lookup "end_time" (insertDefaults m D))) ++ post).foldlM (resolveMigration D) g := by
  simp only [List.foldlM_append, List.foldlM_cons, List.foldlM_nil, bind_pure]
  cases List.foldlM (resolveMigration D) g pre with
  | error e => rfl
  | ok g' =>
    simp only [bind, Except.bind]
    rw [resolveMigration_symmetric_eq_asymmetric D g' m names hallowed hdemes hsrc hdst hD hlen hnn]

end Demes.Proofs
