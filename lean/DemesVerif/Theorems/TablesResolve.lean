/-
  The tables regenerated from /repo's demes/demes.py on this run equal the ones the Model uses.
  A failure here means `Graph.fromdict`'s field lists / defaults validators or a class's
  attr.ib validators changed: a broken proof obligation (DESIGN §4.1, §5.3).
-/
import DemesVerif.Generated.Resolve
import DemesVerif.Model.Resolve
import DemesVerif.Model.Pinned
namespace Demes.Tables
open Demes

def specs (t : List FieldSpec) : List (String × String × String) := t.map (fun f => (f.name, f.ty, f.validator))

theorem tables_allowed_top : Generated.allowedTop = allowedTop := by decide +kernel
theorem tables_allowed_defaults : Generated.allowedDefaults = allowedDefaults := by decide +kernel
theorem tables_allowed_deme : Generated.allowedDemeInner = allowedDemeInner := by decide +kernel
theorem tables_allowed_local_defaults : Generated.allowedLocalDefaults = allowedLocalDefaults := by decide +kernel
theorem tables_allowed_epoch : Generated.allowedEpoch = allowedEpoch := by decide +kernel
theorem tables_allowed_migration : Generated.allowedMigration = allowedMigration := by decide +kernel
theorem tables_allowed_pulse : Generated.allowedPulse = allowedPulse := by decide +kernel
theorem tables_defaults_deme : Generated.demeDefaultsTable = specs demeDefaultsTable := by decide +kernel
theorem tables_defaults_migration : Generated.migrationDefaultsTable = specs migrationDefaultsTable := by decide +kernel
theorem tables_defaults_pulse : Generated.pulseDefaultsTable = specs pulseDefaultsTable := by decide +kernel
theorem tables_defaults_epoch : Generated.epochDefaultsTable = specs epochDefaultsTable := by decide +kernel
theorem tables_defaults_local_epoch : Generated.localEpochDefaultsTable = specs epochDefaultsTable := by decide +kernel
theorem tables_class_epoch : Generated.classEpoch = Pinned.classEpoch := by decide +kernel
theorem tables_class_migration : Generated.classAsymmetricMigration = Pinned.classAsymmetricMigration := by decide +kernel
theorem tables_class_pulse : Generated.classPulse = Pinned.classPulse := by decide +kernel
theorem tables_class_deme : Generated.classDeme = Pinned.classDeme := by decide +kernel
theorem tables_class_graph : Generated.classGraph = Pinned.classGraph := by decide +kernel
theorem tables_class_split : Generated.classSplit = Pinned.classSplit := by decide +kernel
theorem tables_class_branch : Generated.classBranch = Pinned.classBranch := by decide +kernel
theorem tables_class_merge : Generated.classMerge = Pinned.classMerge := by decide +kernel
theorem tables_class_admix : Generated.classAdmix = Pinned.classAdmix := by decide +kernel

/-- every validator text used in a defaults table has an interpretation in the Model -/
theorem tables_validators_interpreted :
    (demeDefaultsTable ++ migrationDefaultsTable ++ pulseDefaultsTable ++ epochDefaultsTable).all
      (fun f => match interpValidator f.validator (.str "?") with
        | .error e => e.msg ≠ s!"unknown validator {f.validator}"
        | .ok _ => true) = true := by decide +kernel

end Demes.Tables
