/-
  C09, graph → ms → graph: the sizes.  If the update list of a population of `msSemG` realises
  (C07's `popMatch`) the growth-free segments of a graph population `b`, then the population the
  string interpreter builds from these updates (`embedPop`) has `b`'s size at every time of `b`'s
  lifetime (`sizes_embed`).

  * `tiles_owner`, `tiles_of_asc`, `embedPop_tiles`: tilings of a lifetime by segments;
  * `stateAt`: the (size, growth) state the updates up to a time add up to (`applyUpd`);
  * `walk`: `segsMatch` along a tiling reads `stateAt` on every segment;
  * `evalUpds_inv`: `Pop.change` along the updates computes `stateAt`;
  * `embed_size`: the size function of `embedPop p`.
-/
import DemesVerif.Proofs.MsRTDefs
import DemesVerif.Proofs.FromMsPostPop
import DemesVerif.Proofs.FromMsFinal
import DemesVerif.Proofs.FromMsSizes
import DemesVerif.Proofs.FromMsSizeSim
import DemesVerif.Proofs.FromMsPostSpecInv
namespace Demes.Proofs.MsRT
open Demes Demes.Ms Demes.Spec Demes.Spec.C07 Demes.Spec.C09
open Demes.Spec.MsSem (Seg PopSem Pop mkSeg)
open Demes.Spec.C08 (segRate segValue segOwns popSizeAt segsSizeAt finalSegs)
open Demes.Proofs.FromMs (PopWF SegChain change_wf joinedPop joinedPop_wf AscChain finalSegs_chain asc_owner
  segOwns_iff SegsBelow change_size popSizeAt_of_le mulExp_neg_zero_mul mulExp_neg_zero joinedPop_size
  finalSegs_size)

/-! ## tilings -/

theorem tiles_of_asc : ∀ {A : List Seg} {lo : Q} {hi : ETime}, AscChain lo A hi → Tiles lo A hi
  | [], _, _, h => h
  | s :: r, lo, hi, h => by
    obtain ⟨h1, _, h3, h4⟩ := h
    refine ⟨h1, h3, ?_⟩
    cases hb : s.t1 with
    | inf => rw [hb] at h4; exact h4
    | fin b => rw [hb] at h4; exact tiles_of_asc h4

theorem asc_growth : ∀ {A : List Seg} {lo : Q} {hi : ETime}, AscChain lo A hi → ∀ s ∈ A, ∃ g, s.growth = some g
  | [], _, _, _, s, hs => by cases hs
  | a :: r, lo, hi, h, s, hs => by
    obtain ⟨_, h2, _, h4⟩ := h
    rcases List.mem_cons.mp hs with rfl | hs
    · exact h2
    · cases hb : a.t1 with
      | inf => rw [hb] at h4; rw [h4.1] at hs; cases hs
      | fin b => rw [hb] at h4; exact asc_growth h4 s hs

theorem tiles_lower : ∀ {A : List Seg} {lo : Q} {hi : ETime}, Tiles lo A hi → ∀ s ∈ A, lo ≤ s.t0
  | [], _, _, _, s, hs => by cases hs
  | a :: r, lo, hi, h, s, hs => by
    obtain ⟨h1, h3, h4⟩ := h
    rcases List.mem_cons.mp hs with rfl | hs
    · rw [h1]
    · cases hb : a.t1 with
      | inf => rw [hb] at h4; rw [h4.1] at hs; cases hs
      | fin b =>
        rw [hb] at h3 h4
        have := tiles_lower h4 s hs
        have h3' : lo < b := h3
        grind

/-- inside the lifetime exactly one segment of a tiling owns a time -/
theorem tiles_owner : ∀ {A : List Seg} {lo : Q} {hi : ETime} {t : Q}, Tiles lo A hi → lo ≤ t → ETime.fin t < hi →
    ∃ s, A.filter (segOwns · t) = [s] ∧ s ∈ A ∧ s.t0 ≤ t ∧ ETime.fin t < s.t1
  | [], lo, hi, t, h, h1, h2 => by
    have h' : hi = .fin lo := h
    rw [h'] at h2
    have : t < lo := h2
    grind
  | a :: r, lo, hi, t, h, hlo, hhi => by
    obtain ⟨h1, h3, h4⟩ := h
    by_cases hown : ETime.fin t < a.t1
    · have ho : segOwns a t = true := (segOwns_iff a t).mpr ⟨by rw [h1]; exact hlo, hown⟩
      refine ⟨a, ?_, List.mem_cons_self .., by rw [h1]; exact hlo, hown⟩
      rw [List.filter_cons, if_pos ho]
      congr 1
      apply List.filter_eq_nil_iff.mpr
      intro s hs hso
      obtain ⟨hs1, _⟩ := (segOwns_iff s t).mp hso
      cases hb : a.t1 with
      | inf => rw [hb] at h4; rw [h4.1] at hs; cases hs
      | fin b =>
        rw [hb] at h4 hown
        have := tiles_lower h4 s hs
        have : t < b := hown
        grind
    · cases hb : a.t1 with
      | inf => rw [hb] at hown; exact absurd trivial hown
      | fin b =>
        rw [hb] at hown h4
        have hbt : b ≤ t := by
          have : ¬ t < b := hown
          grind
        obtain ⟨sa, e1, e2, e3, e4⟩ := tiles_owner h4 hbt hhi
        have ho : segOwns a t = false := by
          cases hq : segOwns a t with
          | false => rfl
          | true =>
            have := ((segOwns_iff a t).mp hq).2
            rw [hb] at this
            exact absurd this hown
        refine ⟨sa, ?_, List.mem_cons_of_mem _ e2, e3, e4⟩
        rw [List.filter_cons, ho]
        exact e1

/-! ## the state of a list of updates -/

/-- the (size, growth) state reached at time `t`: the updates at or before `t`, applied in order -/
def stateAt (upd : List Upd) (t : Q) : Q × Growth :=
  (upd.filter (fun u => decide (u.t ≤ t))).foldl applyUpd (0, .zero)

theorem fold_growth_zero : ∀ (l : List Upd) (st : Q × Growth),
    (∀ u ∈ l, u.growth = none ∨ u.growth = some .zero) → st.2 = .zero → (l.foldl applyUpd st).2 = .zero
  | [], _, _, h => h
  | u :: r, st, hg, h => by
    rw [List.foldl_cons]
    apply fold_growth_zero r _ (fun v hv => hg v (List.mem_cons_of_mem _ hv))
    unfold applyUpd
    rcases hg u (List.mem_cons_self ..) with h1 | h1
    · rw [h1]; exact h
    · rw [h1]; rfl

theorem stateAt_growth {upd : List Upd} (hg : ∀ u ∈ upd, u.growth = none ∨ u.growth = some .zero) (t : Q) :
    (stateAt upd t).2 = .zero :=
  fold_growth_zero _ _ (fun u hu => hg u (List.mem_filter.mp hu).1) rfl

/-- in a chronological list the updates at or before `x` are those before `x` followed by those at `x` -/
theorem filter_le_split : ∀ (l : List Upd) (x : Q), l.Pairwise (fun u v => u.t ≤ v.t) →
    l.filter (fun u => decide (u.t ≤ x))
      = l.filter (fun u => decide (u.t < x)) ++ l.filter (fun u => decide (u.t = x))
  | [], _, _ => rfl
  | u :: r, x, h => by
    rw [List.pairwise_cons] at h
    have ih := filter_le_split r x h.2
    by_cases hlt : u.t < x
    · have hle : u.t ≤ x := by grind
      simp only [List.filter_cons]
      have hne : ¬ u.t = x := by grind
      have d1 : decide (u.t ≤ x) = true := decide_eq_true hle
      have d2 : decide (u.t < x) = true := decide_eq_true hlt
      have d3 : decide (u.t = x) = false := decide_eq_false hne
      simp only [d1, d2, d3, if_true, Bool.false_eq_true, if_false, List.cons_append]
      rw [ih]
    · have hnil : r.filter (fun u => decide (u.t < x)) = [] := by
        apply List.filter_eq_nil_iff.mpr
        intro v hv hvx
        have := h.1 v hv
        have : v.t < x := by simpa using hvx
        grind
      rw [hnil, List.nil_append] at ih
      simp only [List.filter_cons]
      rw [hnil, ih]
      by_cases he : u.t = x
      · have hle : u.t ≤ x := by grind
        have d1 : decide (u.t ≤ x) = true := decide_eq_true hle
        have d2 : decide (u.t < x) = false := decide_eq_false hlt
        have d3 : decide (u.t = x) = true := decide_eq_true he
        simp only [d1, d2, d3, if_true, Bool.false_eq_true, if_false, List.nil_append]
      · have hle : ¬ u.t ≤ x := by grind
        have d1 : decide (u.t ≤ x) = false := decide_eq_false hle
        have d2 : decide (u.t < x) = false := decide_eq_false hlt
        have d3 : decide (u.t = x) = false := decide_eq_false he
        simp only [d1, d2, d3, Bool.false_eq_true, if_false, List.nil_append]

/-! ## the graph side: a growth-free segment that `segsMatch` accepts is constant -/

theorem szQ_some {z : Sz} {a : Q} (h : szQ z = some a) : z = Sz.ofQ a := by
  unfold szQ at h
  split at h
  · rename_i he
    injection h with h
    cases z with
    | mk c x =>
      simp only at he h
      subst he h
      rfl
  · cases h

theorem seg_const {N0 : Q} {s : Seg} {a b : Q} {γ : Growth} (h1 : szQ s.size = some a)
    (h2 : segGrowth N0 s = some γ) (h3 : s.sizeOld.bind szQ = some b) (hγ : Growth.eq .zero γ = true) :
    s.size = Sz.ofQ a ∧ s.sizeOld = some s.size ∧ b = a := by
  have hγ0 : γ = .zero := by
    cases γ with
    | zero => rfl
    | sym r dt => cases hγ
  subst hγ0
  have hab : a = b := by
    unfold segGrowth at h2
    rw [h1, h3] at h2
    split at h2
    · dsimp only at h2
      split at h2
      · assumption
      · split at h2 <;> cases h2
    · cases h2
  subst hab
  have hs := szQ_some h1
  refine ⟨hs, ?_, rfl⟩
  cases ho : s.sizeOld with
  | none => rw [ho] at h3; cases h3
  | some o =>
    rw [ho] at h3
    have := szQ_some (show szQ o = some a from h3)
    rw [this, hs]

theorem segValue_const {s : Seg} (hg : s.growth = none) (ho : s.sizeOld = some s.size) (t : Q) :
    segValue s t = some s.size := by
  have hr : segRate s = some 0 := by
    unfold segRate
    rw [hg, ho]
    simp only [decide_true, Bool.or_true, if_true]
  unfold segValue
  rw [hr]
  split
  · rfl
  · simp only [Option.map_some]
    rw [mulExp_neg_zero_mul]

/-! ## `segsMatch` along a tiling -/

/-- the state after the updates scheduled at `x`, from `st` -/
def stepAt (upd : List Upd) (st : Q × Growth) (x : Q) : Q × Growth :=
  (upd.filter (fun u => decide (u.t = x))).foldl applyUpd st

theorem segsMatch_cons (N0 : Q) (upd : List Upd) (st : Q × Growth) (s : Seg) (ss : List Seg) :
    segsMatch N0 upd st (s :: ss) =
      (match szQ s.size, segGrowth N0 s, s.sizeOld.bind szQ with
       | some a, some γ, some b =>
         (stepAt upd st s.t0).1 == a && (stepAt upd st s.t0).2.eq γ
           && upd.all (fun u => !(decide (s.t0 < u.t) && decide (ETime.fin u.t < s.t1)))
           && segsMatch N0 upd (b, (stepAt upd st s.t0).2) ss
       | _, _, _ => false) := rfl

theorem segsMatch_cons_true {N0 : Q} {upd : List Upd} {st : Q × Growth} {s : Seg} {ss : List Seg}
    (h : segsMatch N0 upd st (s :: ss) = true) :
    ∃ a γ b, szQ s.size = some a ∧ segGrowth N0 s = some γ ∧ s.sizeOld.bind szQ = some b
      ∧ (stepAt upd st s.t0).1 = a ∧ (stepAt upd st s.t0).2.eq γ = true
      ∧ (∀ u ∈ upd, ¬ (s.t0 < u.t ∧ ETime.fin u.t < s.t1))
      ∧ segsMatch N0 upd (b, (stepAt upd st s.t0).2) ss = true := by
  rw [segsMatch_cons] at h
  split at h
  · rename_i a γ b h1 h2 h3
    simp only [Bool.and_eq_true] at h
    obtain ⟨⟨⟨e1, e2⟩, e3⟩, e4⟩ := h
    refine ⟨a, γ, b, h1, h2, h3, by simpa using e1, e2, ?_, e4⟩
    intro u hu hc
    have := List.all_eq_true.mp e3 u hu
    rw [decide_eq_true hc.1, decide_eq_true hc.2] at this
    cases this
  · cases h

theorem stateAt_eq_of_iff {upd : List Upd} {x y : Q} (h : ∀ u ∈ upd, (u.t ≤ x ↔ u.t ≤ y)) :
    stateAt upd x = stateAt upd y := by
  unfold stateAt
  congr 1
  apply List.filter_congr
  intro u hu
  exact decide_eq_decide.mpr (h u hu)

theorem stateAt_split {upd : List Upd} (hs : upd.Pairwise (fun u v => u.t ≤ v.t)) (x : Q) :
    stateAt upd x = stepAt upd ((upd.filter (fun u => decide (u.t < x))).foldl applyUpd (0, .zero)) x := by
  unfold stateAt stepAt
  rw [filter_le_split upd x hs, List.foldl_append]

/-- walking a tiling from the state before `lo`: on every segment the graph's size is the size
component of the state of the updates -/
theorem walk {N0 : Q} {upd : List Upd} (hs : upd.Pairwise (fun u v => u.t ≤ v.t))
    (hg : ∀ u ∈ upd, u.growth = none ∨ u.growth = some .zero) :
    ∀ (segs : List Seg) (lo : Q) (hi : ETime) (st : Q × Growth), Tiles lo segs hi → (∀ s ∈ segs, s.growth = none) →
      st = (upd.filter (fun u => decide (u.t < lo))).foldl applyUpd (0, .zero) →
      segsMatch N0 upd st segs = true →
      ∀ s ∈ segs, ∀ t, s.t0 ≤ t → ETime.fin t < s.t1 → segValue s t = some (Sz.ofQ (stateAt upd t).1)
  | [], _, _, _, _, _, _, _, s, hs' => by cases hs'
  | a :: r, lo, hi, st, htile, hgn, hst, hm, s, hmem => by
    obtain ⟨h1, h3, h4⟩ := htile
    obtain ⟨x, γ, y, e1, e2, e3, e4, e5, e6, e7⟩ := segsMatch_cons_true hm
    have hst' : stepAt upd st a.t0 = stateAt upd a.t0 := by
      rw [stateAt_split hs, hst, h1]
    rw [hst'] at e4 e5 e7
    have hz : (stateAt upd a.t0).2 = .zero := stateAt_growth hg _
    rw [hz] at e5
    obtain ⟨c1, c2, c3⟩ := seg_const e1 e2 e3 e5
    rcases List.mem_cons.mp hmem with rfl | hmem
    · intro t ht0 ht1
      rw [segValue_const (hgn _ (List.mem_cons_self ..)) c2, c1]
      have : stateAt upd t = stateAt upd s.t0 := by
        apply stateAt_eq_of_iff
        intro u hu
        constructor
        · intro hle
          by_cases hc : u.t ≤ s.t0
          · exact hc
          · exfalso
            apply e6 u hu
            refine ⟨by grind, ?_⟩
            cases hb : s.t1 with
            | inf => trivial
            | fin b =>
              rw [hb] at ht1
              have : t < b := ht1
              show u.t < b
              grind
        · intro hle
          grind
      rw [this, e4]
    · cases hb : a.t1 with
      | inf => rw [hb] at h4; rw [h4.1] at hmem; cases hmem
      | fin b =>
        rw [hb] at h3 h4 e6
        have h3' : lo < b := h3
        apply walk hs hg r b hi (y, (stateAt upd a.t0).2) h4 (fun s hs => hgn s (List.mem_cons_of_mem _ hs)) ?_ e7 s hmem
        have hy : (y, (stateAt upd a.t0).2) = stateAt upd a.t0 := by
          rw [c3, ← e4]
        rw [hy]
        unfold stateAt
        congr 1
        apply List.filter_congr
        intro u hu
        apply decide_eq_decide.mpr
        constructor
        · intro hle
          grind
        · intro hlt
          by_cases hc : u.t ≤ a.t0
          · exact hc
          · exfalso
            apply e6 u hu
            exact ⟨by grind, hlt⟩

/-! ## the ms side: `Pop.change` along the updates computes `stateAt` -/

/-- the population built from the updates `upd` (all at or after `lo`, chronological, growth-free) -/
structure EvalInv (lo : Q) (upd : List Upd) (q : Pop) : Prop where
  wf : PopWF q
  below : SegsBelow q
  growth : q.growth = 0
  hiInf : q.hi = .inf
  loEq : q.lo = lo
  t0 : q.t0 = lo ∨ ∃ u ∈ upd, q.t0 = u.t
  size : ∀ t, lo ≤ t → popSizeAt q t = some (Sz.ofQ (stateAt upd t).1)

theorem evalInv_init (lo : Q) : EvalInv lo [] { lo := lo, t0 := lo, size0 := Sz.ofQ 0 } where
  wf := ⟨rfl, Or.inl rfl⟩
  below := fun s hs => by cases hs
  growth := rfl
  hiInf := rfl
  loEq := rfl
  t0 := Or.inl rfl
  size := fun t ht => by
    rw [popSizeAt_of_le ht]
    unfold Pop.sizeAt
    rw [mulExp_neg_zero_mul]
    rfl

theorem stateAt_all {upd : List Upd} {x : Q} (h : ∀ u ∈ upd, u.t ≤ x) :
    stateAt upd x = upd.foldl applyUpd (0, .zero) := by
  unfold stateAt
  congr 1
  apply List.filter_eq_self.mpr
  intro u hu
  exact decide_eq_true (h u hu)

theorem stateAt_snoc_ge {pre : List Upd} {u : Upd} {t : Q} (h : ∀ v ∈ pre, v.t ≤ u.t) (ht : u.t ≤ t) :
    stateAt (pre ++ [u]) t = applyUpd (stateAt pre u.t) u := by
  rw [stateAt_all (x := t), stateAt_all h, List.foldl_append]
  · rfl
  · intro v hv
    rcases List.mem_append.mp hv with hv | hv
    · have := h v hv
      grind
    · rw [List.mem_singleton.mp hv]
      exact ht

theorem stateAt_snoc_lt {pre : List Upd} {u : Upd} {t : Q} (ht : ¬ u.t ≤ t) :
    stateAt (pre ++ [u]) t = stateAt pre t := by
  unfold stateAt
  rw [List.filter_append]
  have : [u].filter (fun u => decide (u.t ≤ t)) = [] := by
    rw [List.filter_cons, decide_eq_false ht]
    rfl
  rw [this, List.append_nil]

theorem evalInv_step {lo : Q} {pre : List Upd} {q : Pop} {u : Upd} (h : EvalInv lo pre q)
    (hord : ∀ v ∈ pre, v.t ≤ u.t) (hlo : lo ≤ u.t) (hg : u.growth = none ∨ u.growth = some .zero) :
    EvalInv lo (pre ++ [u]) (q.change u.t (u.size.map Sz.ofQ) (u.growth.map growthQ)) := by
  have hle : q.t0 ≤ u.t := by
    rcases h.t0 with e | ⟨v, hv, e⟩
    · rw [e]; exact hlo
    · rw [e]; exact hord v hv
  have ha : MsSem.alive q = true := by
    unfold MsSem.alive
    rw [h.hiInf]
    rfl
  obtain ⟨w1, _, _⟩ := change_wf u.t (u.size.map Sz.ofQ) (u.growth.map growthQ) h.wf ha
  obtain ⟨c1, c2, _, c4, c5, c6, c7⟩ := change_size q u.t (u.size.map Sz.ofQ) (u.growth.map growthQ) h.below hle
  have hng : (u.growth.map growthQ).getD q.growth = 0 := by
    rcases hg with e | e
    · rw [e]; exact h.growth
    · rw [e]; rfl
  refine ⟨w1, c6, by rw [c2, hng], by rw [c5, h.hiInf], by rw [c4, h.loEq], Or.inr ⟨u, by simp, c1⟩, ?_⟩
  intro t ht
  rw [c7 t, hng]
  by_cases hut : u.t ≤ t
  · rw [if_pos hut, mulExp_neg_zero_mul, stateAt_snoc_ge hord hut]
    have hq : q.sizeAt u.t = Sz.ofQ (stateAt pre u.t).1 := by
      have := h.size u.t hlo
      rw [popSizeAt_of_le hle] at this
      injection this
    rw [hq]
    unfold applyUpd
    cases u.size <;> rfl
  · rw [if_neg hut, stateAt_snoc_lt hut]
    exact h.size t ht

theorem evalInv_fold {lo : Q} : ∀ (rest pre : List Upd) (q : Pop), EvalInv lo pre q →
    (pre ++ rest).Pairwise (fun u v => u.t ≤ v.t) → (∀ u ∈ rest, lo ≤ u.t) →
    (∀ u ∈ rest, u.growth = none ∨ u.growth = some .zero) →
    EvalInv lo (pre ++ rest)
      (rest.foldl (fun q u => q.change u.t (u.size.map Sz.ofQ) (u.growth.map growthQ)) q)
  | [], pre, q, h, _, _, _ => by
    rw [List.append_nil]
    exact h
  | u :: r, pre, q, h, hs, hlo, hg => by
    have hord : ∀ v ∈ pre, v.t ≤ u.t := by
      intro v hv
      exact (List.pairwise_append.mp hs).2.2 v hv u (List.mem_cons_self ..)
    have h1 := evalInv_step h hord (hlo u (List.mem_cons_self ..)) (hg u (List.mem_cons_self ..))
    have e : pre ++ u :: r = (pre ++ [u]) ++ r := by simp
    rw [List.foldl_cons, e]
    apply evalInv_fold r (pre ++ [u]) _ h1
    · rw [← e]; exact hs
    · exact fun v hv => hlo v (List.mem_cons_of_mem _ hv)
    · exact fun v hv => hg v (List.mem_cons_of_mem _ hv)

theorem updWF_lo {p : PopSemG} (hwf : UpdWF p) : ∀ u ∈ p.upd, p.lo ≤ u.t := by
  obtain ⟨u0, r, e, h0, _⟩ := hwf.head
  have hs := hwf.sorted
  rw [e] at hs ⊢
  rw [List.pairwise_cons] at hs
  intro u hu
  rcases List.mem_cons.mp hu with rfl | hu
  · rw [h0]
  · rw [← h0]
    exact hs.1 u hu

theorem evalUpds_inv {p : PopSemG} (hwf : UpdWF p) : EvalInv p.lo p.upd (evalUpds p.lo p.upd) := by
  have := evalInv_fold p.upd [] _ (evalInv_init p.lo) (by rw [List.nil_append]; exact hwf.sorted)
    (updWF_lo hwf) hwf.growth
  rw [List.nil_append] at this
  exact this

/-! ## closing the population, and its observable -/

theorem closePop_fin (q : Pop) (T : Q) : closePop q (.fin T) = joinedPop q T := rfl

theorem evalInv_t0_le {p : PopSemG} (hwf : UpdWF p) {T : Q} (hT : p.hi = .fin T) :
    (evalUpds p.lo p.upd).t0 ≤ T := by
  have hle : ∀ u ∈ p.upd, u.t ≤ T := by
    intro u hu
    have := hwf.hi u hu
    rw [hT] at this
    exact this
  rcases (evalUpds_inv hwf).t0 with e | ⟨u, hu, e⟩
  · obtain ⟨u0, r, e0, h0, _⟩ := hwf.head
    rw [e, ← h0]
    exact hle u0 (by rw [e0]; exact List.mem_cons_self ..)
  · rw [e]; exact hle u hu

/-- the closed population: well formed, with the lifetime of `p` and the size function of the
open one -/
theorem closePop_inv {p : PopSemG} (hwf : UpdWF p) :
    PopWF (closePop (evalUpds p.lo p.upd) p.hi) ∧ SegsBelow (closePop (evalUpds p.lo p.upd) p.hi)
    ∧ (closePop (evalUpds p.lo p.upd) p.hi).lo = p.lo ∧ (closePop (evalUpds p.lo p.upd) p.hi).hi = p.hi
    ∧ ∀ t, popSizeAt (closePop (evalUpds p.lo p.upd) p.hi) t = popSizeAt (evalUpds p.lo p.upd) t := by
  have inv := evalUpds_inv hwf
  cases hT : p.hi with
  | inf => exact ⟨inv.wf, inv.below, inv.loEq, inv.hiInf, fun _ => rfl⟩
  | fin T =>
    have hle := evalInv_t0_le hwf hT
    rw [closePop_fin]
    obtain ⟨j1, _, j3, _, _⟩ := joinedPop_size (evalUpds p.lo p.upd) T inv.below hle
    exact ⟨joinedPop_wf T inv.wf hle, j3, inv.loEq, rfl, j1⟩

/-- the segments of `embedPop p` tile the lifetime of `p`, each with an explicit growth rate -/
theorem embedPop_tiles {p : PopSemG} (hwf : UpdWF p) :
    Tiles p.lo (embedPop p).segs p.hi ∧ ∀ s ∈ (embedPop p).segs, ∃ g, s.growth = some g := by
  obtain ⟨w, _, e1, e2, _⟩ := closePop_inv hwf
  have := finalSegs_chain w
  rw [e1, e2] at this
  exact ⟨tiles_of_asc this, asc_growth this⟩

/-- the size function of `embedPop p` on the lifetime of `p` -/
theorem embed_size {p : PopSemG} (hwf : UpdWF p) {t : Q} (hlo : p.lo ≤ t) (hhi : ETime.fin t < p.hi) :
    C09.sizeAt (embedPop p) t = some (Sz.ofQ (stateAt p.upd t).1) := by
  obtain ⟨w, bl, e1, e2, e3⟩ := closePop_inv hwf
  have hasc := finalSegs_chain w
  rw [e1, e2] at hasc
  obtain ⟨sa, g, f1, f2, f3, f4, f5⟩ := asc_owner hasc hlo hhi
  have hv : segValue sa t = some (sa.size.mulExp (-g * (t - sa.t0))) := by
    have hr : segRate sa = some g := by unfold segRate; rw [f2]
    unfold segValue
    rw [hr]
    split
    · rename_i ht
      rw [ht, mulExp_neg_zero]
    · rfl
  have hs : C09.sizeAt (embedPop p) t = segValue sa t := by
    unfold C09.sizeAt embedPop
    dsimp only
    rw [f1]
  rw [hs, hv, ← f5 t f3 f4, finalSegs_size _ bl t (by rw [e2]; exact hhi), e3 t]
  exact (evalUpds_inv hwf).size t hlo

/-! ## the theorem -/

/-- **sizes.**  If the update list of an ms population realises (C07's `popMatch`) the growth-free
segments of a graph population `b`, then at every time of `b`'s lifetime the evaluated ms
population has `b`'s size. -/
theorem sizes_embed {N0 : Q} (p : Demes.Spec.C07.PopSemG) (b : Demes.Spec.MsSem.PopSem)
    (hwf : UpdWF p) (hm : Demes.Spec.C07.popMatch N0 p.upd b = true)
    (hlo : p.lo ≤ b.lo) (hhi : p.hi = b.hi)
    (htile : Tiles b.lo b.segs b.hi) (hgn : ∀ s ∈ b.segs, s.growth = none) :
    ∀ t, b.lo ≤ t → ETime.fin t < b.hi →
      (Demes.Spec.C09.sizeAt b t).isSome = true ∧
      Demes.Spec.C09.sizeAt (Demes.Spec.C09.embedPop p) t = Demes.Spec.C09.sizeAt b t := by
  intro t ht0 ht1
  have hm' : segsMatch N0 p.upd ((p.upd.filter (fun u => decide (u.t < b.lo))).foldl applyUpd (0, .zero)) b.segs = true := by
    unfold popMatch at hm
    simp only [Bool.and_eq_true] at hm
    exact hm.2
  obtain ⟨s, f1, f2, f3, f4⟩ := tiles_owner htile ht0 ht1
  have hb : C09.sizeAt b t = some (Sz.ofQ (stateAt p.upd t).1) := by
    unfold C09.sizeAt
    rw [f1]
    exact walk hwf.sorted hwf.growth b.segs b.lo b.hi _ htile hgn rfl hm' s f2 t f3 f4
  have ha := embed_size hwf (t := t) (by grind) (by rw [hhi]; exact ht1)
  rw [hb, ha]
  exact ⟨rfl, rfl⟩

/-! ## non-vacuity: a population with a size change at time 5, joined at time 10 -/

def exP : PopSemG := { id := 1, lo := 0, hi := .fin 10, upd := [⟨0, some 100, some .zero⟩, ⟨5, some 50, some .zero⟩] }

def exB : PopSem :=
  { id := 1, lo := 0, hi := .fin 10,
    segs := [{ t0 := 0, t1 := .fin 5, size := Sz.ofQ 100, growth := none, sizeOld := some (Sz.ofQ 100), fn := "constant" },
             { t0 := 5, t1 := .fin 10, size := Sz.ofQ 50, growth := none, sizeOld := some (Sz.ofQ 50), fn := "constant" }] }

theorem exP_wf : UpdWF exP where
  sorted := by decide +kernel
  head := ⟨_, _, rfl, rfl, rfl⟩
  hi := by decide +kernel
  growth := by decide +kernel

theorem exB_tiles : Tiles exB.lo exB.segs exB.hi :=
  ⟨rfl, by decide +kernel, rfl, by decide +kernel, rfl⟩

example : ∀ t, exB.lo ≤ t → ETime.fin t < exB.hi →
    (C09.sizeAt exB t).isSome = true ∧ C09.sizeAt (embedPop exP) t = C09.sizeAt exB t :=
  sizes_embed (N0 := 1) exP exB exP_wf (by decide +kernel) (by decide +kernel) rfl exB_tiles (by decide +kernel)

example : C09.sizeAt (embedPop exP) 7 = some (Sz.ofQ 50) := by decide +kernel

#print axioms sizes_embed
#print axioms tiles_owner
#print axioms tiles_of_asc
#print axioms embedPop_tiles

end Demes.Proofs.MsRT
