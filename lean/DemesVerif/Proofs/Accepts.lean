/-
  Proofs for C03, part 10 — the property-level statements: `resolve` accepts exactly the documents
  the Spec accepts.
-/
import DemesVerif.Proofs.AcceptsComplete
import DemesVerif.Proofs.ResolveValid
namespace Demes.Proofs.Accepts
open Demes Demes.Obj Demes.Spec

/-- `accepts` is decidable by evaluation -/
theorem accepts_iff (d : Value) : accepts d ↔ acceptsB d = true := by
  unfold accepts acceptsB
  cases fill d with
  | none => simp
  | some g => simp

instance (d : Value) : Decidable (accepts d) := decidable_of_iff _ (accepts_iff d).symm

/-- soundness: a resolved document is accepted by the Spec -/
theorem resolve_sound {d : Value} {g : Graph} (hwf : d.wf = true) (h : resolve d = .ok g) : accepts d :=
  ⟨resolve_schema h, g, resolve_eq_fill hwf h, Proofs.resolve_valid d g h⟩

/-- completeness: a document accepted by the Spec is resolved — to the graph the Spec prescribes -/
theorem resolve_complete {d : Value} (hwf : d.wf = true) (h : accepts d) : ∃ g, resolve d = .ok g := by
  obtain ⟨hs, g, hf, hv⟩ := h
  exact ⟨g, resolve_of_fill hwf hs hf hv⟩

theorem resolve_ok_iff_fill {d : Value} {g : Graph} (hwf : d.wf = true) :
    resolve d = .ok g ↔ schemaOK d = true ∧ fill d = some g ∧ validGraph g = true :=
  ⟨fun h => ⟨resolve_schema h, resolve_eq_fill hwf h, Proofs.resolve_valid d g h⟩,
   fun ⟨hs, hf, hv⟩ => resolve_of_fill hwf hs hf hv⟩

theorem resolve_ok_iff {d : Value} (hwf : d.wf = true) : (∃ g, resolve d = .ok g) ↔ accepts d :=
  ⟨fun ⟨_, h⟩ => resolve_sound hwf h, resolve_complete hwf⟩

/-- a document that breaks a rule of the Spec is rejected: an error, no graph -/
theorem resolve_rejects {d : Value} (hwf : d.wf = true) (h : ¬ accepts d) :
    ∃ e, resolve d = .error e := by
  cases hr : resolve d with
  | error e => exact ⟨e, rfl⟩
  | ok g => exact (h (resolve_sound hwf hr)).elim

/-- `toOption` views, for the evaluated examples -/
theorem ok_of_toOption_isSome {α} {x : Except Err α} (h : x.toOption.isSome = true) : ∃ a, x = .ok a := by
  cases x with
  | ok a => exact ⟨a, rfl⟩
  | error e => cases h

theorem error_of_toOption_isSome {α} {x : Except Err α} (h : x.toOption.isSome = false) :
    ∃ e, x = .error e := by
  cases x with
  | ok a => cases h
  | error e => exact ⟨e, rfl⟩

end Demes.Proofs.Accepts
