/-
  Heap abstraction: the frame property of mutation scripts, and the confinement of programs
  (code that holds references only in its registers can reach, hence mutate, only what is
  reachable from what it was given, plus what it allocates).
-/
import DemesVerif.Proofs.HeapTree
namespace Demes.Proofs.Heap
open Demes Demes.Heap Demes.Spec.C18

/-! ### stores -/

theorem modify_length (s : Store) (a : Addr) (f : Cell → Cell) : (Store.modify s a f).length = s.length := by
  unfold Store.modify; split <;> simp

theorem modify_getElem?_ne (s : Store) (a b : Addr) (f : Cell → Cell) (h : b ≠ a) :
    (Store.modify s a f)[b]? = s[b]? := by
  unfold Store.modify; split
  · rfl
  · rw [List.getElem?_set_ne (Ne.symm h)]

theorem modify_getElem?_eq (s : Store) (a : Addr) (f : Cell → Cell) (c : Cell) (h : s[a]? = some c) :
    (Store.modify s a f)[a]? = some (f c) := by
  unfold Store.modify; rw [h]
  have hlt : a < s.length := by
    rcases Nat.lt_or_ge a s.length with h' | h'
    · exact h'
    · rw [List.getElem?_eq_none h'] at h; cases h
  simp [hlt]

theorem apply_length_le (s : Store) (m : Mut) : s.length ≤ (Mut.apply s m).length := by
  cases m with
  | upd a u => simp [Mut.apply, modify_length]
  | alloc c => simp [Mut.apply]

/-- a mutation leaves every existing object other than its target as it was -/
theorem apply_other (s : Store) (m : Mut) (b : Addr) (hb : b < s.length) (h : m.target ≠ some b) :
    (Mut.apply s m)[b]? = s[b]? := by
  cases m with
  | upd a u =>
    simp only [Mut.apply]
    exact modify_getElem?_ne s a b _ (fun e => h (by simp [Mut.target, e]))
  | alloc c => simp only [Mut.apply]; rw [List.getElem?_append_left hb]

theorem runMuts_length_le : ∀ (ms : List Mut) (s : Store), s.length ≤ (runMuts s ms).length
  | [], _ => Nat.le_refl _
  | m :: ms, s => Nat.le_trans (apply_length_le s m) (runMuts_length_le ms (Mut.apply s m))

/-- FRAME, objects: a script that never targets an object of `P` leaves the objects of `P`
as they were -/
theorem frame_cells (P : Addr → Prop) : ∀ (ms : List Mut) (s : Store), (∀ a, P a → a < s.length) →
    Avoids P ms → SameOn P s (runMuts s ms)
  | [], _, _, _ => fun a _ => rfl
  | m :: ms, s, hP, hav => by
    intro a ha
    have h1 : (Mut.apply s m)[a]? = s[a]? :=
      apply_other s m a (hP a ha) (fun e => hav m (by simp) a e ha)
    have h2 := frame_cells P ms (Mut.apply s m)
      (fun b hb => Nat.lt_of_lt_of_le (hP b hb) (apply_length_le s m))
      (fun m' hm' => hav m' (by simp [hm'])) a ha
    show (runMuts (Mut.apply s m) ms)[a]? = s[a]?
    rw [h2, h1]

/-- FRAME, documents: …hence every document rooted in the closed set `P` is unchanged -/
theorem frame_unfold (P : Addr → Prop) (s : Store) (hP : ∀ a, P a → a < s.length)
    (hcl : ClosedOn P s) (ms : List Mut) (hav : Avoids P ms) (n : Nat) (r : Ref) (hr : RefIn P r) :
    unfold n (runMuts s ms) r = unfold n s r :=
  fold_sameOn _ _ P s (runMuts s ms) hcl (frame_cells P ms s hP hav) n r hr

/-! ### one object update -/

theorem setKV_refs (k : String) (r : Ref) : ∀ (kvs : List (String × Ref)) (x : Ref),
    x ∈ (setKV k r kvs).map (·.2) → x ∈ kvs.map (·.2) ∨ x = r
  | [], x, h => by simp [setKV] at h; exact Or.inr h
  | (k', r') :: rest, x, h => by
    simp only [setKV] at h
    split at h
    · simp only [List.map_cons, List.mem_cons] at h
      rcases h with h | h
      · exact Or.inr h
      · exact Or.inl (by simp [List.mem_map] at h ⊢; exact Or.inr h)
    · simp only [List.map_cons, List.mem_cons] at h
      rcases h with h | h
      · exact Or.inl (by simp [h])
      · rcases setKV_refs k r rest x h with h | h
        · exact Or.inl (by simp only [List.map_cons, List.mem_cons]; exact Or.inr h)
        · exact Or.inr h

/-- an update writes only its operands -/
theorem Upd.apply_refs (u : Upd Ref) (c : Cell) (x : Ref) (h : x ∈ (u.apply c).refs) :
    x ∈ c.refs ∨ x ∈ u.refs := by
  cases u <;> cases c <;> simp only [Upd.apply, Upd.refs, Cell.refs] at h ⊢ <;> try exact Or.inl h
  case setKey.dict k r kvs =>
    rcases setKV_refs k r kvs x h with h | h
    · exact Or.inl h
    · exact Or.inr (by simp [h])
  case delKey.dict k kvs =>
    left
    obtain ⟨kv, hkv, rfl⟩ := List.mem_map.mp h
    exact List.mem_map.mpr ⟨kv, (List.mem_filter.mp hkv).1, rfl⟩
  case append.list r xs =>
    rcases List.mem_append.mp h with h | h
    · exact Or.inl h
    · exact Or.inr h
  case setIndex.list i r xs =>
    rcases List.mem_or_eq_of_mem_set h with h | h
    · exact Or.inl h
    · exact Or.inr (by simp [h])
  case delIndex.list i xs => exact Or.inl (List.mem_of_mem_eraseIdx h)
  case insertAt.list i r xs =>
    rcases List.mem_append.mp h with h | h
    · exact Or.inl (List.mem_of_mem_take h)
    · rcases List.mem_cons.mp h with h | h
      · exact Or.inr (by simp [h])
      · exact Or.inl (List.mem_of_mem_drop h)
  case replaceDict.dict kvs kvs' => exact Or.inr h
  case replaceList.list xs xs' => exact Or.inr h

theorem Upd.map_refs (f : Nat → Ref) (u : Upd Nat) : ∀ x ∈ (u.map f).refs, ∃ j, x = f j := by
  intro x hx
  cases u <;> simp only [Upd.map, Upd.refs, List.mem_singleton, List.not_mem_nil, List.map_map,
    List.mem_map] at hx
  case setKey k j => exact ⟨j, hx⟩
  case append j => exact ⟨j, hx⟩
  case setIndex i j => exact ⟨j, hx⟩
  case insertAt i j => exact ⟨j, hx⟩
  case replaceDict kvs => obtain ⟨kv, _, rfl⟩ := hx; exact ⟨kv.2, rfl⟩
  case replaceList xs => obtain ⟨j, _, rfl⟩ := hx; exact ⟨j, rfl⟩

/-! ### programs -/

/-- the registers hold only references into `P`, and the objects of `P` refer only to `P` -/
structure Owned (P : Addr → Prop) (st : State) : Prop where
  regs : ∀ r ∈ st.regs, RefIn P r
  closed : ClosedOn P st.store

theorem regAt_refIn (P : Addr → Prop) (regs : List Ref) (h : ∀ r ∈ regs, RefIn P r) (i : Nat) :
    RefIn P (regAt regs i) := by
  unfold regAt
  cases hi : regs[i]? with
  | none => exact trivial
  | some r => exact h r (List.mem_of_getElem? hi)

theorem lookupKV_mem (k : String) : ∀ (kvs : List (String × Ref)) (r : Ref),
    lookupKV k kvs = some r → r ∈ kvs.map (·.2)
  | [], _, h => by simp [lookupKV] at h
  | (k', r') :: rest, r, h => by
    simp only [lookupKV] at h
    split at h
    · cases h; simp
    · simp only [List.map_cons, List.mem_cons]; exact Or.inr (lookupKV_mem k rest r h)

/-- what a program reads is in `P` -/
theorem read_refIn (P : Addr → Prop) (st : State) (ho : Owned P st) (ins : Instr) (r : Ref)
    (hnew : ∀ c, ins.mut? st.regs = some (.alloc c) → P st.store.length)
    (h : ins.read? st = some r) : RefIn P r := by
  cases ins with
  | getKey i k =>
    simp only [Instr.read?] at h
    have hi := regAt_refIn P st.regs ho.regs i
    split at h
    · rename_i a ha
      rw [ha] at hi
      split at h
      · rename_i kvs hc
        exact ho.closed a _ hi hc r (lookupKV_mem k kvs r h)
      · cases h
    · cases h
  | getIndex i j =>
    simp only [Instr.read?] at h
    have hi := regAt_refIn P st.regs ho.regs i
    split at h
    · rename_i a ha
      rw [ha] at hi
      split at h
      · rename_i xs hc
        exact ho.closed a _ hi hc r (List.mem_of_getElem? h)
      · cases h
    · cases h
  | const v => simp only [Instr.read?, Option.some.injEq] at h; subst h; exact trivial
  | newDict kvs =>
    simp only [Instr.read?, Option.some.injEq] at h; subst h
    exact hnew _ rfl
  | newList xs =>
    simp only [Instr.read?, Option.some.injEq] at h; subst h
    exact hnew _ rfl
  | upd i u => simp [Instr.read?] at h

/-- the store effect of one instruction -/
theorem step_store (st : State) (ins : Instr) :
    (ins.step st).store = (match ins.mut? st.regs with | some m => Mut.apply st.store m | none => st.store) := rfl

theorem step_length_le (st : State) (ins : Instr) : st.store.length ≤ (ins.step st).store.length := by
  rw [step_store]; split
  · exact apply_length_le _ _
  · exact Nat.le_refl _

theorem run_length_le : ∀ (p : List Instr) (st : State), st.store.length ≤ (run st p).store.length
  | [], _ => Nat.le_refl _
  | ins :: p, st => Nat.le_trans (step_length_le st ins) (run_length_le p (ins.step st))

/-- the mutation an instruction performs targets an object of `P`, writes references into `P`,
or allocates an object holding references into `P` -/
theorem mut_owned (P : Addr → Prop) (regs : List Ref) (hregs : ∀ r ∈ regs, RefIn P r) (ins : Instr)
    (m : Mut) (h : ins.mut? regs = some m) :
    (∀ a, m.target = some a → P a) ∧ ∀ x ∈ m.refs, RefIn P x := by
  cases ins with
  | getKey i k => simp [Instr.mut?] at h
  | getIndex i j => simp [Instr.mut?] at h
  | const v => simp [Instr.mut?] at h
  | newDict kvs =>
    simp only [Instr.mut?, Option.some.injEq] at h; subst h
    refine ⟨fun a ha => by simp [Mut.target] at ha, ?_⟩
    intro x hx
    simp only [Mut.refs, Cell.refs, List.map_map, List.mem_map] at hx
    obtain ⟨kv, _, rfl⟩ := hx
    exact regAt_refIn P regs hregs _
  | newList xs =>
    simp only [Instr.mut?, Option.some.injEq] at h; subst h
    refine ⟨fun a ha => by simp [Mut.target] at ha, ?_⟩
    intro x hx
    simp only [Mut.refs, Cell.refs, List.mem_map] at hx
    obtain ⟨j, _, rfl⟩ := hx
    exact regAt_refIn P regs hregs _
  | upd i u =>
    simp only [Instr.mut?] at h
    have hi := regAt_refIn P regs hregs i
    split at h
    · rename_i a ha
      rw [ha] at hi
      simp only [Option.some.injEq] at h; subst h
      refine ⟨fun b hb => by simp only [Mut.target, Option.some.injEq] at hb; subst hb; exact hi, ?_⟩
      intro x hx
      obtain ⟨j, rfl⟩ := Upd.map_refs (regAt regs) u x hx
      exact regAt_refIn P regs hregs j
    · cases h

/-- applying a mutation whose target and operands are in `P` keeps `P` closed and does not
touch anything outside `P` -/
theorem apply_owned (P : Addr → Prop) (s : Store) (m : Mut) (hcl : ClosedOn P s)
    (htgt : ∀ a, m.target = some a → P a) (hrefs : ∀ x ∈ m.refs, RefIn P x) :
    ClosedOn P (Mut.apply s m) ∧ ∀ b, ¬ P b → b < s.length → (Mut.apply s m)[b]? = s[b]? := by
  refine ⟨?_, fun b hb hlt => apply_other s m b hlt (fun e => hb (htgt b e))⟩
  cases m with
  | upd a u =>
    intro b c hb hc x hx
    simp only [Mut.apply] at hc
    by_cases hba : b = a
    · subst hba
      cases hold : s[b]? with
      | none =>
        simp only [Store.modify, hold] at hc
        cases hc
      | some c0 =>
        rw [modify_getElem?_eq s b _ c0 hold] at hc
        cases hc
        rcases Upd.apply_refs u c0 x hx with h | h
        · exact hcl b c0 hb hold x h
        · exact hrefs x h
    · rw [modify_getElem?_ne s a b _ hba] at hc
      exact hcl b c hb hc x hx
  | alloc c0 =>
    intro b c hb hc x hx
    simp only [Mut.apply] at hc
    rcases getElem?_append_singleton_some s c0 c b hc with ⟨_, hc'⟩ | ⟨_, rfl⟩
    · exact hcl b c hb hc' x hx
    · exact hrefs x hx

/-- CONFINEMENT, one instruction -/
theorem step_owned (P : Addr → Prop) (st : State) (ins : Instr) (ho : Owned P st)
    (hnew : st.store.length < (ins.step st).store.length → P st.store.length) :
    Owned P (ins.step st) ∧ ∀ b, ¬ P b → b < st.store.length → (ins.step st).store[b]? = st.store[b]? := by
  have hnew' : ∀ c, ins.mut? st.regs = some (.alloc c) → P st.store.length := by
    intro c hc
    apply hnew
    rw [step_store, hc]; simp [Mut.apply]
  have hregs : ∀ r ∈ (ins.step st).regs, RefIn P r := by
    intro r hr
    simp only [Instr.step] at hr
    split at hr
    · rename_i r' hr'
      rcases List.mem_append.mp hr with h | h
      · exact ho.regs r h
      · simp only [List.mem_singleton] at h; subst h
        exact read_refIn P st ho ins r hnew' hr'
    · exact ho.regs r hr
  cases hm : ins.mut? st.regs with
  | none =>
    have : (ins.step st).store = st.store := by rw [step_store, hm]
    exact ⟨⟨hregs, by rw [this]; exact ho.closed⟩, fun b _ _ => by rw [this]⟩
  | some m =>
    have : (ins.step st).store = Mut.apply st.store m := by rw [step_store, hm]
    obtain ⟨ht, hr⟩ := mut_owned P st.regs ho.regs ins m hm
    obtain ⟨hcl, hsame⟩ := apply_owned P st.store m ho.closed ht hr
    exact ⟨⟨hregs, by rw [this]; exact hcl⟩, fun b hb hlt => by rw [this]; exact hsame b hb hlt⟩

/-- CONFINEMENT: a program that starts with references into a closed set `P` of objects, where
everything it allocates joins `P`, ends with references into `P` only, leaves `P` closed, and
has not touched any object outside `P`. -/
theorem run_owned (P : Addr → Prop) : ∀ (p : List Instr) (st : State),
    (∀ a, st.store.length ≤ a → a < (run st p).store.length → P a) → Owned P st →
    Owned P (run st p) ∧ ∀ b, ¬ P b → b < st.store.length → (run st p).store[b]? = st.store[b]?
  | [], st, _, ho => ⟨ho, fun _ _ _ => rfl⟩
  | ins :: p, st, hfut, ho => by
    have hle1 := step_length_le st ins
    have hle2 := run_length_le p (ins.step st)
    obtain ⟨ho1, hs1⟩ := step_owned P st ins ho
      (fun hlt => hfut _ (Nat.le_refl _) (Nat.lt_of_lt_of_le hlt hle2))
    obtain ⟨ho2, hs2⟩ := run_owned P p (ins.step st)
      (fun a ha hlt => hfut a (Nat.le_trans hle1 ha) hlt) ho1
    refine ⟨ho2, fun b hb hlt => ?_⟩
    show (run (ins.step st) p).store[b]? = st.store[b]?
    rw [hs2 b hb (Nat.lt_of_lt_of_le hlt hle1), hs1 b hb hlt]

/-- no dangling references before ⇒ none after -/
theorem run_wf (p : List Instr) (st : State) (h : WF st.store st.regs) :
    WF (run st p).store (run st p).regs := by
  have hle := run_length_le p st
  have ho : Owned (· < (run st p).store.length) st := by
    refine ⟨fun r hr => RefIn.mono (fun a ha => Nat.lt_of_lt_of_le ha hle) r (h.1 r hr), ?_⟩
    intro a c _ hc x hx
    have hlt : a < st.store.length := by
      rcases Nat.lt_or_ge a st.store.length with h' | h'
      · exact h'
      · rw [List.getElem?_eq_none h'] at hc; cases hc
    exact RefIn.mono (fun b hb => Nat.lt_of_lt_of_le hb hle) x (h.2 a c hlt hc x hx)
  obtain ⟨ho', _⟩ := run_owned (· < (run st p).store.length) p st (fun a _ hlt => hlt) ho
  exact ⟨ho'.regs, ho'.closed⟩

/-- a program's effect on the store is the effect of the mutation script it performs -/
theorem run_eq_trace : ∀ (p : List Instr) (st : State), (run st p).store = runMuts st.store (trace st p)
  | [], _ => rfl
  | ins :: p, st => by
    show (run (ins.step st) p).store = _
    rw [run_eq_trace p (ins.step st)]
    simp only [trace]
    cases hm : ins.mut? st.regs with
    | none => simp only [step_store, hm]
    | some m => simp only [step_store, hm, runMuts, List.foldl_cons]

end Demes.Proofs.Heap
