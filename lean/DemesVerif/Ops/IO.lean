/-
  Driver ops for asdict_simplified and the load/dump pipelines (text layer excluded).
-/
import DemesVerif.Ops.Core
import DemesVerif.Model.LoadDump
namespace Demes.Ops.IO
open Lean Demes Demes.Wire Demes.Ops.Core

def dispatch? (op : String) (j : Json) : Option Json :=
  if op = "simplified" then some <|
    withGraph j "graph" (fun g => okJ (ofValue g.asdictSimplified))
  else if op = "dump_value" then some <|
    withGraph j "graph" (fun g =>
      let fmt := match j.getObjValAs? String "format" with | .ok "json" => Format.json | _ => Format.yaml
      let simp := match j.getObjValAs? Bool "simplified" with | .ok b => b | _ => true
      okJ (ofValue (dumpValue fmt simp g)))
  else if op = "load_asdict_value" then some <|
    withValue j "doc" (fun v =>
      match loadAsdictValue v with
      | .error e => errJ e
      | .ok v' => okJ (ofValue v'))
  else if op = "load_value" then some <|
    withValue j "doc" (fun v =>
      match (do let v' ← loadAsdictValue v; resolve v') with
      | .error e => errJ e
      | .ok g => Json.mkObj [("ok", ofValue g.asdict), ("index", indexJ g)])
  else none

end Demes.Ops.IO
