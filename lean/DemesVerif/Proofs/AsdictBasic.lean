/-
  Proofs for C06, part 1: the shape of `Graph.asdict`'s output (key lists, allowed fields,
  plain values) and the `coerce_types` pass.
-/
import DemesVerif.Spec.C06
import DemesVerif.Spec.Valid
import DemesVerif.Model.Dict
namespace Demes.Proofs.Asdict
open Demes Demes.Spec Value

/-! ### the association lists behind each `asdict` -/

def epochObj (e : Epoch) : Obj :=
  [("end_time", numV e.endTime), ("start_size", numV e.startSize),
   ("end_size", numV e.endSize), ("size_function", .str e.sizeFunction),
   ("selfing_rate", numV e.selfingRate), ("cloning_rate", numV e.cloningRate)]

def demeObj (d : Deme) : Obj :=
  [("name", .str d.name), ("description", .str d.description),
   ("start_time", timeV d.startTime), ("ancestors", strsV d.ancestors),
   ("proportions", numsV d.proportions), ("epochs", .list (d.epochs.map Epoch.asdict))]

def migrationObj (m : Migration) : Obj :=
  [("source", .str m.source), ("dest", .str m.dest), ("start_time", timeV m.startTime),
   ("end_time", numV m.endTime), ("rate", numV m.rate)]

def pulseObj (p : Pulse) : Obj :=
  [("sources", strsV p.sources), ("dest", .str p.dest), ("time", numV p.time),
   ("proportions", numsV p.proportions)]

def graphObj (g : Graph) : Obj :=
  [("description", .str g.description), ("time_units", .str g.timeUnits),
   ("generation_time", numV g.generationTime), ("doi", strsV g.doi),
   ("metadata", .obj (coerceO g.metadata)),
   ("demes", .list (g.demes.map Deme.asdict)),
   ("migrations", .list (g.migrations.map Migration.asdict)),
   ("pulses", .list (g.pulses.map Pulse.asdict))]

theorem epoch_asdict (e : Epoch) : Epoch.asdict e = .obj (epochObj e) := rfl
theorem deme_asdict (d : Deme) : Deme.asdict d = .obj (demeObj d) := rfl
theorem migration_asdict (m : Migration) : Migration.asdict m = .obj (migrationObj m) := rfl
theorem pulse_asdict (p : Pulse) : Pulse.asdict p = .obj (pulseObj p) := rfl
theorem graph_asdict (g : Graph) : Graph.asdict g = .obj (graphObj g) := rfl

/-! ### key lists -/

def topKeys : List String :=
  ["description", "time_units", "generation_time", "doi", "metadata", "demes", "migrations", "pulses"]
def demeKeys : List String :=
  ["name", "description", "start_time", "ancestors", "proportions", "epochs"]
def epochKeys : List String :=
  ["end_time", "start_size", "end_size", "size_function", "selfing_rate", "cloning_rate"]
def migrationKeys : List String := ["source", "dest", "start_time", "end_time", "rate"]
def pulseKeys : List String := ["sources", "dest", "time", "proportions"]

theorem keys_graphObj (g : Graph) : Obj.keys (graphObj g) = topKeys := rfl
theorem keys_demeObj (d : Deme) : Obj.keys (demeObj d) = demeKeys := rfl
theorem keys_epochObj (e : Epoch) : Obj.keys (epochObj e) = epochKeys := rfl
theorem keys_migrationObj (m : Migration) : Obj.keys (migrationObj m) = migrationKeys := rfl
theorem keys_pulseObj (p : Pulse) : Obj.keys (pulseObj p) = pulseKeys := rfl

theorem topKeys_allowed : ∀ k ∈ topKeys, k ∈ allowedTop := by decide +kernel
theorem demeKeys_allowed : ∀ k ∈ demeKeys, k ∈ allowedDemeInner := by decide +kernel
theorem epochKeys_allowed : ∀ k ∈ epochKeys, k ∈ allowedEpoch := by decide +kernel
theorem migrationKeys_allowed : ∀ k ∈ migrationKeys, k ∈ allowedMigration := by decide +kernel
theorem pulseKeys_allowed : ∀ k ∈ pulseKeys, k ∈ allowedPulse := by decide +kernel

/-! ### shape: key lists, absent fields, nothing left `null` -/

theorem asdict_shape (g : Graph) :
    ∃ top, Graph.asdict g = .obj top
      ∧ Obj.keys top = ["description", "time_units", "generation_time", "doi", "metadata", "demes",
          "migrations", "pulses"]
      ∧ Obj.lookup "demes" top = some (.list (g.demes.map Deme.asdict))
      ∧ Obj.lookup "migrations" top = some (.list (g.migrations.map Migration.asdict))
      ∧ Obj.lookup "pulses" top = some (.list (g.pulses.map Pulse.asdict))
      ∧ (∀ d ∈ g.demes, ∃ o, Deme.asdict d = .obj o
          ∧ Obj.keys o = ["name", "description", "start_time", "ancestors", "proportions", "epochs"]
          ∧ Obj.lookup "epochs" o = some (.list (d.epochs.map Epoch.asdict))
          ∧ ∀ e ∈ d.epochs, ∃ eo, Epoch.asdict e = .obj eo
              ∧ Obj.keys eo = ["end_time", "start_size", "end_size", "size_function", "selfing_rate",
                  "cloning_rate"])
      ∧ (∀ m ∈ g.migrations, ∃ o, Migration.asdict m = .obj o
          ∧ Obj.keys o = ["source", "dest", "start_time", "end_time", "rate"])
      ∧ (∀ p ∈ g.pulses, ∃ o, Pulse.asdict p = .obj o
          ∧ Obj.keys o = ["sources", "dest", "time", "proportions"]) :=
  ⟨graphObj g, rfl, rfl, rfl, rfl, rfl,
    fun d _ => ⟨demeObj d, rfl, rfl, rfl, fun e _ => ⟨epochObj e, rfl, rfl⟩⟩,
    fun m _ => ⟨migrationObj m, rfl, rfl⟩, fun p _ => ⟨pulseObj p, rfl, rfl⟩⟩

/-- the fields the human-friendly form may use and the machine form must not -/
theorem asdict_absent (g : Graph) (d : Deme) (e : Epoch) (m : Migration) :
    Obj.lookup "defaults" (graphObj g) = none ∧ Obj.lookup "defaults" (demeObj d) = none
      ∧ Obj.lookup "start_time" (epochObj e) = none ∧ Obj.lookup "demes" (migrationObj m) = none :=
  ⟨rfl, rfl, rfl, rfl⟩

theorem timeV_not_null (t : ETime) : (timeV t).isNull = false := by cases t <;> rfl

/-- every emitted field has a value other than `null` -/
def explicit (o : Obj) : Prop := ∀ k ∈ Obj.keys o, ∃ v, Obj.lookup k o = some v ∧ v.isNull = false

theorem explicit_graphObj (g : Graph) : explicit (graphObj g) := by
  intro k hk
  rw [keys_graphObj] at hk
  simp only [topKeys, List.mem_cons, List.not_mem_nil, or_false] at hk
  rcases hk with rfl | rfl | rfl | rfl | rfl | rfl | rfl | rfl <;> exact ⟨_, rfl, rfl⟩

theorem explicit_demeObj (d : Deme) : explicit (demeObj d) := by
  intro k hk
  rw [keys_demeObj] at hk
  simp only [demeKeys, List.mem_cons, List.not_mem_nil, or_false] at hk
  rcases hk with rfl | rfl | rfl | rfl | rfl | rfl
  · exact ⟨_, rfl, rfl⟩
  · exact ⟨_, rfl, rfl⟩
  · exact ⟨_, rfl, timeV_not_null _⟩
  · exact ⟨_, rfl, rfl⟩
  · exact ⟨_, rfl, rfl⟩
  · exact ⟨_, rfl, rfl⟩

theorem explicit_epochObj (e : Epoch) : explicit (epochObj e) := by
  intro k hk
  rw [keys_epochObj] at hk
  simp only [epochKeys, List.mem_cons, List.not_mem_nil, or_false] at hk
  rcases hk with rfl | rfl | rfl | rfl | rfl | rfl <;> exact ⟨_, rfl, rfl⟩

theorem explicit_migrationObj (m : Migration) : explicit (migrationObj m) := by
  intro k hk
  rw [keys_migrationObj] at hk
  simp only [migrationKeys, List.mem_cons, List.not_mem_nil, or_false] at hk
  rcases hk with rfl | rfl | rfl | rfl | rfl
  · exact ⟨_, rfl, rfl⟩
  · exact ⟨_, rfl, rfl⟩
  · exact ⟨_, rfl, timeV_not_null _⟩
  · exact ⟨_, rfl, rfl⟩
  · exact ⟨_, rfl, rfl⟩

theorem explicit_pulseObj (p : Pulse) : explicit (pulseObj p) := by
  intro k hk
  rw [keys_pulseObj] at hk
  simp only [pulseKeys, List.mem_cons, List.not_mem_nil, or_false] at hk
  rcases hk with rfl | rfl | rfl | rfl <;> exact ⟨_, rfl, rfl⟩

theorem asdict_fields_allowed :
    (∀ (g : Graph) (o : Obj), Graph.asdict g = .obj o → ∀ k ∈ Obj.keys o, k ∈ allowedTop)
    ∧ (∀ (d : Deme) (o : Obj), Deme.asdict d = .obj o → ∀ k ∈ Obj.keys o, k ∈ allowedDemeInner)
    ∧ (∀ (e : Epoch) (o : Obj), Epoch.asdict e = .obj o → ∀ k ∈ Obj.keys o, k ∈ allowedEpoch)
    ∧ (∀ (m : Migration) (o : Obj), Migration.asdict m = .obj o →
        ∀ k ∈ Obj.keys o, k ∈ allowedMigration)
    ∧ (∀ (p : Pulse) (o : Obj), Pulse.asdict p = .obj o → ∀ k ∈ Obj.keys o, k ∈ allowedPulse) := by
  refine ⟨?_, ?_, ?_, ?_, ?_⟩
  · intro g o h; cases h; exact topKeys_allowed
  · intro d o h; cases h; exact demeKeys_allowed
  · intro e o h; cases h; exact epochKeys_allowed
  · intro m o h; cases h; exact migrationKeys_allowed
  · intro p o h; cases h; exact pulseKeys_allowed

/-! ### `coerce_types` -/

mutual
theorem coerceV_plain : ∀ v : Value, (coerceV v).plain = true
  | .null => rfl
  | .bool _ => rfl
  | .num _ => rfl
  | .str _ => rfl
  | .list xs => by simp only [coerceV, Value.plain]; exact coerceL_plain xs
  | .obj kvs => by simp only [coerceV, Value.plain]; exact coerceO_plain kvs
theorem coerceL_plain : ∀ xs : List Value, plainL (coerceL xs) = true
  | [] => rfl
  | x :: xs => by simp only [coerceL, plainL, coerceV_plain x, coerceL_plain xs, Bool.and_self]
theorem coerceO_plain : ∀ kvs : List (String × Value), plainO (coerceO kvs) = true
  | [] => rfl
  | (k, v) :: r => by simp only [coerceO, plainO, coerceV_plain v, coerceO_plain r, Bool.and_self]
end

mutual
theorem coerceV_of_plain : ∀ v : Value, v.plain = true → coerceV v = v
  | .null, _ => rfl
  | .bool _, h => by simp [Value.plain] at h
  | .num _, _ => rfl
  | .str _, _ => rfl
  | .list xs, h => by simp only [Value.plain] at h; simp only [coerceV, coerceL_of_plain xs h]
  | .obj kvs, h => by simp only [Value.plain] at h; simp only [coerceV, coerceO_of_plain kvs h]
theorem coerceL_of_plain : ∀ xs : List Value, plainL xs = true → coerceL xs = xs
  | [], _ => rfl
  | x :: xs, h => by
    simp only [plainL, Bool.and_eq_true] at h
    simp only [coerceL, coerceV_of_plain x h.1, coerceL_of_plain xs h.2]
theorem coerceO_of_plain : ∀ kvs : List (String × Value), plainO kvs = true → coerceO kvs = kvs
  | [], _ => rfl
  | (k, v) :: r, h => by
    simp only [plainO, Bool.and_eq_true] at h
    simp only [coerceO, coerceV_of_plain v h.1, coerceO_of_plain r h.2]
end

theorem coerceO_idem (kvs : Obj) : coerceO (coerceO kvs) = coerceO kvs :=
  coerceO_of_plain _ (coerceO_plain kvs)

/-! ### plain values -/

mutual
theorem plain_of_plainStd : ∀ v : Value, v.plainStd = true → v.plain = true
  | .null, _ => rfl
  | .bool _, h => by simp [Value.plainStd] at h
  | .num _, _ => rfl
  | .str _, _ => rfl
  | .list xs, h => by simp only [Value.plainStd] at h; simp only [Value.plain, plainL_of_plainStdL xs h]
  | .obj kvs, h => by simp only [Value.plainStd] at h; simp only [Value.plain, plainO_of_plainStdO kvs h]
theorem plainL_of_plainStdL : ∀ xs : List Value, plainStdL xs = true → plainL xs = true
  | [], _ => rfl
  | x :: xs, h => by
    simp only [plainStdL, Bool.and_eq_true] at h
    simp only [plainL, plain_of_plainStd x h.1, plainL_of_plainStdL xs h.2, Bool.and_self]
theorem plainO_of_plainStdO : ∀ kvs : List (String × Value), plainStdO kvs = true → plainO kvs = true
  | [], _ => rfl
  | (k, v) :: r, h => by
    simp only [plainStdO, Bool.and_eq_true] at h
    simp only [plainO, plain_of_plainStd v h.1, plainO_of_plainStdO r h.2, Bool.and_self]
end

theorem plainStdL_map {α} (f : α → Value) (hf : ∀ x, (f x).plainStd = true) :
    ∀ l : List α, plainStdL (l.map f) = true
  | [] => rfl
  | x :: xs => by simp only [List.map_cons, plainStdL, hf x, plainStdL_map f hf xs, Bool.and_self]

theorem numV_plainStd (x : Q) : (numV x).plainStd = true := rfl
theorem timeV_plainStd (t : ETime) : (timeV t).plainStd = true := by cases t <;> rfl
theorem strV_plainStd (s : String) : (Value.str s).plainStd = true := rfl
theorem strsV_plainStd (xs : List String) : (strsV xs).plainStd = true := by
  simp only [strsV, Value.plainStd]; exact plainStdL_map _ strV_plainStd xs
theorem numsV_plainStd (xs : List Q) : (numsV xs).plainStd = true := by
  simp only [numsV, Value.plainStd]; exact plainStdL_map _ numV_plainStd xs

theorem epoch_plainStd (e : Epoch) : (Epoch.asdict e).plainStd = true := by
  simp only [Epoch.asdict, Value.plainStd, plainStdO, numV_plainStd, Bool.and_self]
theorem deme_plainStd (d : Deme) : (Deme.asdict d).plainStd = true := by
  simp only [Deme.asdict, Value.plainStd, plainStdO, timeV_plainStd, strsV_plainStd, numsV_plainStd,
    plainStdL_map _ epoch_plainStd, Bool.and_self]
theorem migration_plainStd (m : Migration) : (Migration.asdict m).plainStd = true := by
  simp only [Migration.asdict, Value.plainStd, plainStdO, timeV_plainStd, numV_plainStd, Bool.and_self]
theorem pulse_plainStd (p : Pulse) : (Pulse.asdict p).plainStd = true := by
  simp only [Pulse.asdict, Value.plainStd, plainStdO, strsV_plainStd, numsV_plainStd, numV_plainStd,
    Bool.and_self]

/-- the document without its `metadata` entry -/
def graphObjNoMeta (g : Graph) : Obj := Obj.erase "metadata" (graphObj g)

theorem graphObjNoMeta_eq (g : Graph) : graphObjNoMeta g =
    [("description", .str g.description), ("time_units", .str g.timeUnits),
     ("generation_time", numV g.generationTime), ("doi", strsV g.doi),
     ("demes", .list (g.demes.map Deme.asdict)),
     ("migrations", .list (g.migrations.map Migration.asdict)),
     ("pulses", .list (g.pulses.map Pulse.asdict))] := by
  simp [graphObjNoMeta, graphObj, Obj.erase]

theorem asdict_plainStd_noMeta (g : Graph) : plainStdO (graphObjNoMeta g) = true := by
  rw [graphObjNoMeta_eq]
  simp only [plainStdO, Value.plainStd, numV_plainStd, strsV_plainStd,
    plainStdL_map _ deme_plainStd, plainStdL_map _ migration_plainStd,
    plainStdL_map _ pulse_plainStd, Bool.and_self]

theorem asdict_plain (g : Graph) : (Graph.asdict g).plain = true := by
  have h := plainO_of_plainStdO _ (asdict_plainStd_noMeta g)
  rw [graphObjNoMeta_eq] at h
  simp only [plainO, Value.plain, strsV, numV, Bool.and_eq_true, true_and, and_true] at h
  simp only [Graph.asdict, Value.plain, plainO, strsV, numV, coerceO_plain, h, Bool.and_self]

/-! ### decidable equality of documents (for the closed examples) -/

mutual
def vbeq : Value → Value → Bool
  | .null, .null => true
  | .bool a, .bool b => a == b
  | .num a, .num b => a == b
  | .str a, .str b => a == b
  | .list a, .list b => vbeqL a b
  | .obj a, .obj b => vbeqO a b
  | _, _ => false
def vbeqL : List Value → List Value → Bool
  | [], [] => true
  | x :: xs, y :: ys => vbeq x y && vbeqL xs ys
  | _, _ => false
def vbeqO : List (String × Value) → List (String × Value) → Bool
  | [], [] => true
  | (k, x) :: xs, (l, y) :: ys => k == l && vbeq x y && vbeqO xs ys
  | _, _ => false
end

mutual
theorem vbeq_sound : ∀ a b : Value, vbeq a b = true → a = b
  | .null, .null, _ => rfl
  | .bool a, .bool b, h => by simp only [vbeq, beq_iff_eq] at h; rw [h]
  | .num a, .num b, h => by simp only [vbeq, beq_iff_eq] at h; rw [h]
  | .str a, .str b, h => by simp only [vbeq, beq_iff_eq] at h; rw [h]
  | .list a, .list b, h => by simp only [vbeq] at h; rw [vbeqL_sound a b h]
  | .obj a, .obj b, h => by simp only [vbeq] at h; rw [vbeqO_sound a b h]
  | .null, .bool _, h | .null, .num _, h | .null, .str _, h | .null, .list _, h | .null, .obj _, h
  | .bool _, .null, h | .bool _, .num _, h | .bool _, .str _, h | .bool _, .list _, h | .bool _, .obj _, h
  | .num _, .null, h | .num _, .bool _, h | .num _, .str _, h | .num _, .list _, h | .num _, .obj _, h
  | .str _, .null, h | .str _, .bool _, h | .str _, .num _, h | .str _, .list _, h | .str _, .obj _, h
  | .list _, .null, h | .list _, .bool _, h | .list _, .num _, h | .list _, .str _, h | .list _, .obj _, h
  | .obj _, .null, h | .obj _, .bool _, h | .obj _, .num _, h | .obj _, .str _, h | .obj _, .list _, h => by
    simp [vbeq] at h
theorem vbeqL_sound : ∀ a b : List Value, vbeqL a b = true → a = b
  | [], [], _ => rfl
  | x :: xs, y :: ys, h => by
    simp only [vbeqL, Bool.and_eq_true] at h
    rw [vbeq_sound x y h.1, vbeqL_sound xs ys h.2]
  | [], _ :: _, h | _ :: _, [], h => by simp [vbeqL] at h
theorem vbeqO_sound : ∀ a b : List (String × Value), vbeqO a b = true → a = b
  | [], [], _ => rfl
  | (k, x) :: xs, (l, y) :: ys, h => by
    simp only [vbeqO, Bool.and_eq_true, beq_iff_eq] at h
    rw [h.1.1, vbeq_sound x y h.1.2, vbeqO_sound xs ys h.2]
  | [], _ :: _, h | _ :: _, [], h => by simp [vbeqO] at h
end

mutual
theorem vbeq_refl : ∀ a : Value, vbeq a a = true
  | .null => rfl
  | .bool _ => by simp only [vbeq, beq_self_eq_true]
  | .num _ => by simp only [vbeq, beq_self_eq_true]
  | .str _ => by simp only [vbeq, beq_self_eq_true]
  | .list a => by simp only [vbeq]; exact vbeqL_refl a
  | .obj a => by simp only [vbeq]; exact vbeqO_refl a
theorem vbeqL_refl : ∀ a : List Value, vbeqL a a = true
  | [] => rfl
  | x :: xs => by simp only [vbeqL, vbeq_refl x, vbeqL_refl xs, Bool.and_self]
theorem vbeqO_refl : ∀ a : List (String × Value), vbeqO a a = true
  | [] => rfl
  | (k, x) :: xs => by simp only [vbeqO, beq_self_eq_true, vbeq_refl x, vbeqO_refl xs, Bool.and_self]
end

/-- decidable equality of documents, for closed examples (`open Demes.Proofs.Asdict` to use it) -/
scoped instance instDecidableEqValue : DecidableEq Value := fun a b =>
  if h : vbeq a b = true then isTrue (vbeq_sound a b h)
  else isFalse (fun e => h (e ▸ vbeq_refl a))

end Demes.Proofs.Asdict
