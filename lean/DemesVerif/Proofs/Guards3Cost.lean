/-
  Support for `Theorems/TablesGuardsCost.lean` (C20).  Nothing here depends on `Generated/`.
-/
import DemesVerif.Model.CostNest
namespace Demes.Proofs.Guards3
open Demes Demes.Cost Demes.Cost.Nest

/-- `_check_migration_rates`: the matrices once, then matrices × rows × entries -/
def nestCheckRates : Nest := .seq .matrices (.loop .endTimes (.loop .demeIndex (.scan .demeIndex)))

/-- `in_generations` -/
def nestInGenerations : Nest :=
  .seq (.loop .demes (.loop .epochs .none)) (.seq (.loop .migrations .none) (.loop .pulses .none))

/-- the explicit loops of `asdict` (after `attr.asdict`) -/
def nestAsdict : Nest := .loop .demes (.loop .epochs .none)

theorem ticks_checkRates (g : Graph) : ticks g none nestCheckRates = costMatrices g + costCheckRates g := by
  simp [nestCheckRates, ticks, size, costCheckRates]

theorem ticks_inGenerations (g : Graph) : 3 + ticks g none nestInGenerations = costInGenerations g := by
  have h : (fun (x : Deme) => 1 + x.epochs.length) = costDemeScale := by funext x; rfl
  simp [nestInGenerations, ticks, size, costInGenerations, h]
  omega

theorem sum_map_le {α} (f h : α → Nat) (l : List α) (hle : ∀ x, f x ≤ h x) : (l.map f).sum ≤ (l.map h).sum := by
  induction l with
  | nil => simp
  | cons x xs ih =>
    simp only [List.map_cons, List.sum_cons]
    have := hle x
    omega

theorem ticks_asdict_le (g : Graph) : ticks g none nestAsdict ≤ costAsdict g := by
  have h : ticks g none nestAsdict ≤ (g.demes.map costDemeAsdict).sum := by
    simp only [nestAsdict, ticks, size]
    apply sum_map_le
    intro d
    simp only [costDemeAsdict]
    omega
  unfold costAsdict
  omega

end Demes.Proofs.Guards3
