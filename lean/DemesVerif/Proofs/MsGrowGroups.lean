/-
  C09 §8 — the time groups of the two interpreters coincide on a time-sorted command of `to_ms` (growth
  options included): `cmdGroups (prOfV gv hdr evs) = (groupsByTime evs).map (List.map (cmdOfV gv))`.
  (`Proofs/MsRTGroups.lean` with `-g` / `-eg`.)
-/
import DemesVerif.Proofs.MsGrowDefs
import DemesVerif.Proofs.MsRTGroups
namespace Demes.Proofs.MsGrow
open Demes Demes.Ms Demes.Spec Demes.Spec.C07 Demes.Spec.C09
open Demes.Spec.MsSem (Cmd Parsed insertCmd)
open Demes.Spec.C08 (cmdGroups)
open Demes.Proofs.MsRT (groupsByTime_eq numPos_fin insertCmd_sorted foldr_insertCmd_sorted)

/-! ### the commands of the fragment -/

theorem cmdOfV_t (gv : Growth → Q) {e : Event Growth} (h : EvG e) : (cmdOfV gv e).t = evT e := by
  cases e with
  | popSizeChange o t i x => obtain ⟨_, _, q, y, rfl, _, rfl, _⟩ := h; rfl
  | popGrowthRateChange o t i G => rfl
  | migEntryChange o t i j x => obtain ⟨_, _, _, q, y, rfl, _, rfl, _⟩ := h; rfl
  | split o t i p => obtain ⟨_, _, q, y, rfl, _, rfl, _⟩ := h; rfl
  | join o t i j => rfl
  | growthRateChange => exact h.elim
  | sizeChange => exact h.elim
  | migRateChange => exact h.elim
  | migMatrixChange => exact h.elim

theorem evT_nonneg {e : Event Growth} (h : EvG e) : 0 ≤ evT e := by
  cases e with
  | popSizeChange o t i x => obtain ⟨_, _, q, y, rfl, hq, rfl, _⟩ := h; exact hq
  | popGrowthRateChange o t i G => obtain ⟨_, _, q, rfl, hq⟩ := h; exact hq
  | migEntryChange o t i j x => obtain ⟨_, _, _, q, y, rfl, hq, rfl, _⟩ := h; exact hq
  | split o t i p => obtain ⟨_, _, q, y, rfl, hq, rfl, _⟩ := h; exact Rat.le_of_lt hq
  | join o t i j => obtain ⟨_, _, _, q, rfl, hq⟩ := h; exact Rat.le_of_lt hq
  | growthRateChange => exact h.elim
  | sizeChange => exact h.elim
  | migRateChange => exact h.elim
  | migMatrixChange => exact h.elim


/-- an initial-state option is at time 0, every other option at a positive time -/
theorem isInitV_iff {e : Event Growth} (h : EvG e) : isInitV e = true ↔ evT e = 0 := by
  cases e with
  | popSizeChange o t i x =>
    obtain ⟨_, _, q, y, rfl, hq, rfl, _⟩ := h
    simp only [isInitV, numPos_fin, evT, Event.t, Bool.not_eq_true', decide_eq_false_iff_not]
    grind
  | popGrowthRateChange o t i G =>
    obtain ⟨_, _, q, rfl, hq⟩ := h
    simp only [isInitV, numPos_fin, evT, Event.t, Bool.not_eq_true', decide_eq_false_iff_not]
    grind
  | migEntryChange o t i j x =>
    obtain ⟨_, _, _, q, y, rfl, hq, rfl, _⟩ := h
    simp only [isInitV, numPos_fin, evT, Event.t, Bool.not_eq_true', decide_eq_false_iff_not]
    grind
  | split o t i p =>
    obtain ⟨_, _, q, y, rfl, hq, rfl, _⟩ := h
    simp only [isInitV, evT, Event.t]
    constructor
    · intro h; cases h
    · intro h; grind
  | join o t i j =>
    obtain ⟨_, _, _, q, rfl, hq⟩ := h
    simp only [isInitV, evT, Event.t]
    constructor
    · intro h; cases h
    · intro h; grind
  | growthRateChange => exact h.elim
  | sizeChange => exact h.elim
  | migRateChange => exact h.elim
  | migMatrixChange => exact h.elim

/-- in a time-sorted command the initial-state options form a prefix -/
theorem init_prefix : ∀ (evs : List (Event Growth)), (∀ e ∈ evs, EvG e) →
    evs.Pairwise (fun a b => evT a ≤ evT b) →
    evs = evs.filter isInitV ++ evs.filter (fun e => !isInitV e)
  | [], _, _ => rfl
  | e :: r, he, hs => by
    have hr := init_prefix r (fun x hx => he x (List.mem_cons_of_mem _ hx)) (List.pairwise_cons.1 hs).2
    by_cases hi : isInitV e = true
    · simp only [List.filter_cons, hi, if_true, Bool.not_true, Bool.false_eq_true, if_false, List.cons_append]
      rw [← hr]
    · -- `e` is at a positive time, so nothing after it is at time 0
      have hall : ∀ x ∈ r, isInitV x = false := by
        intro x hx
        have h1 := (List.pairwise_cons.1 hs).1 x hx
        have h2 : evT e ≠ 0 := fun h => hi ((isInitV_iff (he e List.mem_cons_self)).2 h)
        have h3 := evT_nonneg (he e List.mem_cons_self)
        cases hxi : isInitV x with
        | false => rfl
        | true =>
          have := (isInitV_iff (he x (List.mem_cons_of_mem _ hx))).1 hxi
          grind
      have hf1 : r.filter isInitV = [] := List.filter_eq_nil_iff.2 (fun x hx => by simp [hall x hx])
      have hf2 : r.filter (fun e => !isInitV e) = r := List.filter_eq_self.2 (fun x hx => by simp [hall x hx])
      simp only [List.filter_cons, hi, Bool.false_eq_true, if_false, Bool.not_false, if_true, hf1, hf2, List.nil_append]



/-- the options in the order the string interpreter applies them are the options of the command -/
theorem cmds_prOfV (gv : Growth → Q) (hdr : Option (Nat × List String)) (evs : List (Event Growth)) (he : ∀ e ∈ evs, EvG e)
    (hs : evs.Pairwise (fun a b => evT a ≤ evT b)) :
    (prOfV gv hdr evs).initial ++ (prOfV gv hdr evs).events.foldr insertCmd [] = evs.map (cmdOfV gv) := by
  have hsorted : ((evs.filter (fun e => !isInitV e)).map (cmdOfV gv)).Pairwise (fun a b => a.t ≤ b.t) := by
    rw [List.pairwise_map]
    refine (hs.sublist List.filter_sublist).imp_of_mem ?_
    intro a b ha hb hab
    rw [cmdOfV_t gv (he a (List.mem_filter.1 ha).1), cmdOfV_t gv (he b (List.mem_filter.1 hb).1)]
    exact hab
  show (evs.filter isInitV).map (cmdOfV gv) ++ ((evs.filter (fun e => !isInitV e)).map (cmdOfV gv)).foldr insertCmd [] = _
  rw [foldr_insertCmd_sorted _ hsorted, ← List.map_append, ← init_prefix evs he hs]

/-- **the time groups of the two interpreters coincide** -/
theorem cmdGroups_prOfV (gv : Growth → Q) (hdr : Option (Nat × List String)) (evs : List (Event Growth)) (he : ∀ e ∈ evs, EvG e)
    (hs : evs.Pairwise (fun a b => evT a ≤ evT b)) :
    cmdGroups (prOfV gv hdr evs) = (groupsByTime evs).map (List.map (cmdOfV gv)) := by
  unfold cmdGroups
  rw [cmds_prOfV gv hdr evs he hs, groupsByTime_eq]
  exact Demes.Proofs.FromMs.splitBy_map (cmdOfV gv) (fun a b => evT a == evT b) (fun a b => a.t == b.t) EvG
    (fun x y hx hy => by rw [cmdOfV_t gv hx, cmdOfV_t gv hy]) evs he

end Demes.Proofs.MsGrow
