/-
  Driver operations of the ms converter: `to_ms`, `from_ms`, `ms_sem`, `graph_sem`,
  `from_ms_sem`, `print_option`, `parse_option`.
-/
import DemesVerif.Ops.Core
import DemesVerif.Model.Ms
import DemesVerif.Spec.MsSem
import DemesVerif.Spec.C08
namespace Demes.Ops.Ms
open Lean Demes Demes.Wire Demes.Ms Demes.Ops.Core

def numJ (x : Num) : Json := Json.mkObj [("n", .str (numToString x))]
def szJ (s : Sz) : Json := Json.mkObj [("coef", qJ s.coef), ("expo", qJ s.expo)]
def strsJ (xs : List String) : Json := .arr (xs.map Json.str).toArray
def qsJ (xs : List Q) : Json := .arr (xs.map qJ).toArray
def natJ (n : Nat) : Json := .num n
def intJ (i : Int) : Json := .num (Lean.JsonNumber.fromInt i)
def failJ (m : String) : Json := Json.mkObj [("fail", .str m)]

def getStrs (j : Json) (key : String) : Option (List String) :=
  match j.getObjVal? key with
  | .ok (.arr xs) => xs.toList.mapM (fun x => match x with | .str s => some s | _ => none)
  | _ => none

def getOptStrs (j : Json) (key : String) : Option (Option (List String)) :=
  match j.getObjVal? key with
  | .ok .null => some none
  | .error _ => some none
  | .ok (.arr xs) => (xs.toList.mapM (fun (x : Json) => match x with | .str s => some s | _ => none)).map some
  | _ => none

def getQ (j : Json) (key : String) : Option Q :=
  match j.getObjValAs? String key with
  | .ok s => parseRat s
  | _ => none

def getNum (j : Json) (key : String) : Option Num :=
  match j.getObjValAs? String key with
  | .ok s => parseNum s
  | _ => none

def getInt (j : Json) (key : String) : Option Int :=
  match j.getObjVal? key with
  | .ok (.num n) => if n.exponent = 0 then some n.mantissa else none
  | _ => none

def growthJ : Growth → Json
  | .zero => numJ (.fin 0)
  | .sym r dt => Json.mkObj [("sym", .arr #[qJ r, qJ dt])]

def tokJ {α} (aJ : α → Json) : Tok α → Json
  | .flag s => Json.mkObj [("flag", .str s)]
  | .int i => Json.mkObj [("int", intJ i)]
  | .num x => numJ x
  | .alpha a => aJ a
  | .raw s => Json.mkObj [("raw", .str s)]

def eventJ (e : Event Num) : Json :=
  let base (opt : String) (t : Num) (rest : List (String × Json)) : Json :=
    Json.mkObj ([("kind", .str e.kind), ("opt", .str opt), ("t", numJ t)] ++ rest)
  match e with
  | .growthRateChange o t a => base o t [("alpha", numJ a)]
  | .popGrowthRateChange o t i a => base o t [("i", intJ i), ("alpha", numJ a)]
  | .sizeChange o t x => base o t [("x", numJ x)]
  | .popSizeChange o t i x => base o t [("i", intJ i), ("x", numJ x)]
  | .migRateChange o t x => base o t [("x", numJ x)]
  | .migEntryChange o t i j r => base o t [("i", intJ i), ("j", intJ j), ("rate", numJ r)]
  | .migMatrixChange o t n mm => base o t [("npop", intJ n), ("mm_vector", strsJ mm)]
  | .split o t i p => base o t [("i", intJ i), ("p", numJ p)]
  | .join o t i j => base o t [("i", intJ i), ("j", intJ j)]

def structureJ (s : Structure) : Json :=
  Json.mkObj [("kind", .str "Structure"), ("npop", intJ s.npop), ("n", strsJ s.n), ("rate", numJ s.rate)]

/-- the resolved graph of the Model's `from_ms` with symbolic sizes -/
def msGraphJ (mg : MsGraph) : Json :=
  let g := mg.graph
  let epochJ (e : Epoch) : Json := Json.mkObj [
    ("end_time", qJ e.endTime), ("start_size", szJ (mg.size e.startSize)), ("end_size", szJ (mg.size e.endSize)),
    ("size_function", .str e.sizeFunction), ("selfing_rate", qJ e.selfingRate), ("cloning_rate", qJ e.cloningRate)]
  let demeJ (d : Deme) : Json := Json.mkObj [
    ("name", .str d.name), ("description", .str d.description), ("start_time", tJ d.startTime),
    ("ancestors", strsJ d.ancestors), ("proportions", qsJ d.proportions),
    ("epochs", .arr (d.epochs.map epochJ).toArray)]
  Json.mkObj [
    ("description", .str g.description), ("time_units", .str g.timeUnits), ("generation_time", qJ g.generationTime),
    ("demes", .arr (g.demes.map demeJ).toArray),
    ("migrations", .arr (g.migrations.map (fun m => ofValue m.asdict)).toArray),
    ("pulses", .arr (g.pulses.map (fun p => ofValue p.asdict)).toArray)]

/-- the document handed to `Builder.resolve()` (symbolic sizes) -/
def msDocJ (doc : MsDoc) : Json :=
  let optSz (s : Option Sz) : Json := match s with | some z => szJ z | none => .null
  let epochJ (e : BEpoch) : Json := Json.mkObj [("end_time", qJ e.endTime), ("end_size", szJ e.endSize), ("start_size", optSz e.startSize)]
  let demeJ (d : BDeme) : Json := Json.mkObj [
    ("name", .str d.name), ("start_time", tJ d.startTime),
    ("ancestors", match d.ancestors with | some a => strsJ a | none => .null),
    ("proportions", match d.proportions with | some p => qsJ p | none => .null),
    ("epochs", .arr (d.epochs.map epochJ).toArray)]
  let migJ (m : BMigration) : Json := Json.mkObj [("source", .str m.source), ("dest", .str m.dest),
    ("start_time", tJ m.startTime), ("end_time", qJ m.endTime), ("rate", numJ m.rate)]
  let pulseJ (p : BPulse) : Json := Json.mkObj [("sources", strsJ p.sources), ("dest", .str p.dest),
    ("time", qJ p.time), ("proportions", qsJ p.proportions)]
  Json.mkObj [("demes", .arr (doc.demes.map demeJ).toArray), ("migrations", .arr (doc.migrations.map migJ).toArray),
              ("pulses", match doc.pulses with | some ps => .arr (ps.map pulseJ).toArray | none => .null),
              ("num_pops", natJ doc.numPops)]

open Demes.Spec.MsSem in
def semJ (d : DemogSem) : Json :=
  let segJ (s : Seg) : Json := Json.mkObj [
    ("t0", qJ s.t0), ("t1", tJ s.t1), ("size", szJ s.size),
    ("growth", match s.growth with | some g => qJ g | none => .null),
    ("size_old", match s.sizeOld with | some z => szJ z | none => .null),
    ("fn", .str s.fn)]
  let popJ (p : PopSem) : Json := Json.mkObj [
    ("id", natJ p.id), ("lo", qJ p.lo), ("hi", tJ p.hi), ("segs", .arr (p.segs.map segJ).toArray)]
  let migJ (m : MigSeg) : Json := .arr #[natJ m.dest, natJ m.source, qJ m.t0, tJ m.t1, qJ m.rate]
  let moveJ (m : Move) : Json := Json.mkObj [
    ("time", qJ m.time),
    ("rows", .arr (m.rows.map (fun (ir : Nat × List (Nat × Q)) =>
      Json.arr #[natJ ir.1, .arr (ir.2.map (fun (jp : Nat × Q) => Json.arr #[natJ jp.1, qJ jp.2])).toArray])).toArray)]
  Json.mkObj [("pops", .arr (d.pops.map popJ).toArray), ("migs", .arr (d.migs.map migJ).toArray),
              ("moves", .arr (d.moves.map moveJ).toArray)]

def semResJ (r : Except String Demes.Spec.MsSem.DemogSem) : Json :=
  match r with
  | .ok d => okJ (semJ d)
  | .error e => Json.mkObj [("err", .str "SpecError"), ("msg", .str e)]

/-- build one option record from a JSON description (as `to_ms` or a user would) -/
def recordOf (j : Json) : Except Err (Structure ⊕ Event Num) := do
  let kind ← match j.getObjValAs? String "kind" with
    | .ok k => pure k
    | .error _ => otherErr "kind"
  let num (k : String) : Except Err Num := match getNum j k with | some x => pure x | none => otherErr s!"field {k}"
  let int (k : String) : Except Err Int := match getInt j k with | some x => pure x | none => otherErr s!"field {k}"
  let fin (x : Num) : Except Err Unit := vFinite x
  if kind = "Structure" then
    let n := (getStrs j "n").getD []
    pure (.inl (← mkStructure (← int "npop") n (← num "rate")))
  else
    let t ← num "t"
    let e ← if kind = "GrowthRateChange" then mkGrowthRateChange fin "" t (← num "alpha")
      else if kind = "PopulationGrowthRateChange" then mkPopGrowthRateChange fin "" t (← int "i") (← num "alpha")
      else if kind = "SizeChange" then mkSizeChange "" t (← num "x")
      else if kind = "PopulationSizeChange" then mkPopSizeChange "" t (← int "i") (← num "x")
      else if kind = "MigrationRateChange" then mkMigRateChange "" t (← num "x")
      else if kind = "MigrationMatrixEntryChange" then mkMigEntryChange "" t (← int "i") (← int "j") (← num "rate")
      else if kind = "MigrationMatrixChange" then mkMigMatrixChange "" t (← int "npop") ((getStrs j "mm_vector").getD [])
      else if kind = "Split" then mkSplit "" t (← int "i") (← num "p")
      else if kind = "Join" then mkJoin "" t (← int "i") (← int "j")
      else otherErr s!"kind {kind}"
    pure (.inr e)

def dispatch? (op : String) (j : Json) : Option Json :=
  if op = "to_ms" then some <|
    withGraph j "graph" (fun g =>
      match getQ j "N0" with
      | none => failJ "N0"
      | some n0 =>
        let samples : Option (Option (List Int)) := match j.getObjVal? "samples" with
          | .ok (.arr xs) => (xs.toList.mapM (fun (x : Json) => match x with
              | .num n => if n.exponent = 0 then some n.mantissa else none | _ => none)).map some
          | _ => some none
        match samples with
        | none => failJ "samples"
        | some smp =>
          match toMs g n0 smp with
          | .error e => errJ e
          | .ok toks => okJ (.arr (toks.map (tokJ growthJ)).toArray))
  else if op = "from_ms" || op = "from_ms_sem" then some <|
    match getStrs j "tokens", getQ j "N0", getOptStrs j "names" with
    | some toks, some n0, some names =>
      match fromMs toks n0 names with
      | .error e => errJ e
      | .ok mg =>
        if op = "from_ms" then Json.mkObj [("ok", msGraphJ mg), ("index", indexJ mg.graph), ("doc", msDocJ mg.doc)]
        else
          -- population k is `deme{k}` (or the k-th given name)
          let pops : List String := match names with
            | some ns => ns
            | none => (List.range mg.doc.numPops).map Demes.Ms.demeName
          semResJ (Demes.Spec.MsSem.msGraphSem mg (some pops))
    | _, _, _ => failJ "tokens / N0 / names"
  else if op = "ms_sem" then some <|
    match getStrs j "tokens", getQ j "N0" with
    | some toks, some n0 => semResJ (Demes.Spec.MsSem.msSem toks n0)
    | _, _ => failJ "tokens / N0"
  else if op = "ms_tame" then some <|
    -- is the command inside the fragments on which `fromMs_sem` / `fromMs_sem2` are proved?
    match getStrs j "tokens" with
    | some toks =>
      match Demes.Spec.MsSem.parse toks with
      | .ok pr => okJ (Json.mkObj [("tame1", .bool (Demes.Spec.C08.Tame' pr)), ("tame2", .bool (Demes.Spec.C08.Tame2 pr)),
                               ("tame3", .bool (Demes.Spec.C08.Tame3 pr)),
                               ("tame13", .bool (Demes.Spec.C08.Tame13 pr))])
      | .error e => Json.mkObj [("err", .str e)]
    | none => failJ "tokens"
  else if op = "graph_sem" then some <|
    withGraph j "graph" (fun g =>
      match getOptStrs j "names" with
      | some names => semResJ (Demes.Spec.MsSem.graphSem (inGenerations g) names)
      | none => failJ "names")
  else if op = "print_option" then some <|
    match j.getObjVal? "record" with
    | .error e => failJ e
    | .ok r =>
      match recordOf r with
      | .error e => errJ e
      | .ok (.inl s) => okJ (.arr ((s.print (α := Num)).map (tokJ numJ)).toArray)
      | .ok (.inr e) =>
        match e.print with
        | .error er => errJ er
        | .ok toks => okJ (.arr (toks.map (tokJ numJ)).toArray)
  else if op = "parse_option" then some <|
    match getStrs j "tokens" with
    | none => failJ "tokens"
    | some toks =>
      match parseKnownArgs toks with
      | .error e => errJ e
      | .ok a => okJ (Json.mkObj [
          ("structure", match a.structure_ with | some s => structureJ s | none => .null),
          ("initial_state", .arr (a.initialState.map eventJ).toArray),
          ("demographic_events", .arr (a.demographicEvents.map eventJ).toArray),
          ("unknown", strsJ a.unknown)])
  else none

end Demes.Ops.Ms
