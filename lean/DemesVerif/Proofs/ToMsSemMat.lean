/-
  C07 — the migration matrix of `msSemG`: shape, entries and snapshots along a run.
-/
import DemesVerif.Proofs.ToMsSemPops2
set_option linter.unusedSimpArgs false
set_option linter.unusedVariables false
namespace Demes.Proofs.ToMs
open Demes Demes.Ms Demes.Spec Demes.Spec.C07 Demes.Proofs.RV
open Demes.Spec.MsSem

/-! ### matrices -/

/-- a `k × k` matrix -/
def Square (k : Nat) (m : Mat) : Prop := m.length = k ∧ ∀ r ∈ m, r.length = k

theorem matGet_matSet {k : Nat} {m : Mat} (h : Square k m) {i j : Nat} (hi : i < k) (hj : j < k) (v : Q) (a b : Nat) :
    matGet (matSet m i j v) a b = if a = i ∧ b = j then v else matGet m a b := by
  unfold matGet matSet
  have hlen : i < m.length := by rw [h.1]; exact hi
  by_cases ha : a = i
  · subst ha
    have hrow : (m.modify a (fun r => r.set j v)).getD a [] = (m.getD a []).set j v := by
      simp [List.getD, List.getElem?_modify, List.getElem?_eq_getElem hlen]
    rw [hrow]
    have hrl : (m.getD a []).length = k := by
      simp only [List.getD, List.getElem?_eq_getElem hlen, Option.getD_some]
      exact h.2 _ (List.getElem_mem _)
    have hrl' : (m[a]?.getD []).length = k := hrl
    by_cases hb : b = j
    · subst hb
      simp [List.getD, List.getElem?_set, hrl', hj]
    · have : ¬ (a = a ∧ b = j) := fun h => hb h.2
      simp only [this, if_false, List.getD, List.getElem?_set]
      have : ¬ j = b := fun h => hb h.symm
      simp [this]
      intro h; exact absurd h hb
  · have : ¬ (a = i ∧ b = j) := fun h => ha h.1
    simp only [this, if_false]
    have hrow : (m.modify i (fun r => r.set j v)).getD a [] = m.getD a [] := by
      simp only [List.getD, List.getElem?_modify]
      have : ¬ i = a := fun h => ha h.symm
      simp [this]
    rw [hrow]

theorem square_matSet {k : Nat} {m : Mat} (h : Square k m) (i j : Nat) (v : Q) : Square k (matSet m i j v) := by
  unfold matSet
  refine ⟨by simp [h.1], ?_⟩
  intro r hr
  obtain ⟨a, ha⟩ := List.mem_iff_getElem?.mp hr
  rw [List.getElem?_modify] at ha
  cases hm : m[a]? with
  | none => rw [hm] at ha; simp at ha
  | some r0 =>
    rw [hm] at ha
    simp only [Option.map_eq_map, Option.map_some, Option.some.injEq] at ha
    have hr0 := h.2 r0 (List.mem_of_getElem? hm)
    rw [← ha]
    split <;> simp [hr0]

theorem matGet_extendMat {k : Nat} {m : Mat} (h : Square k m) {a b : Nat} (ha : a < k) (hb : b < k) :
    matGet (extendMat m k) a b = matGet m a b := by
  unfold matGet extendMat
  have hlen : a < m.length := by rw [h.1]; exact ha
  have hlen' : a < (m.map (fun r => r ++ [(0 : Q)])).length := by simpa using hlen
  have hrow : (m.map (fun r => r ++ [(0 : Q)]) ++ [List.replicate (k + 1) 0]).getD a [] = m.getD a [] ++ [0] := by
    simp [List.getD, List.getElem?_append_left hlen', List.getElem?_map, List.getElem?_eq_getElem hlen]
  rw [hrow]
  have hrl : (m.getD a []).length = k := by
    simp only [List.getD, List.getElem?_eq_getElem hlen, Option.getD_some]
    exact h.2 _ (List.getElem_mem _)
  have hrl' : (m[a]?.getD []).length = k := hrl
  simp only [List.getD]
  rw [List.getElem?_append_left (by rw [hrl']; exact hb)]

theorem square_extendMat {k : Nat} {m : Mat} (h : Square k m) : Square (k + 1) (extendMat m k) := by
  unfold extendMat
  refine ⟨by simp [h.1], ?_⟩
  intro r hr
  rcases List.mem_append.1 hr with hr | hr
  · obtain ⟨r0, hr0, rfl⟩ := List.mem_map.1 hr
    simp [h.2 r0 hr0]
  · simp only [List.mem_singleton] at hr
    subst hr; simp

theorem matGet_zeroRC {k : Nat} (m : Mat) (i : Nat) {a b : Nat} (ha : a < k) (hb : b < k) :
    matGet (zeroRC m k i) a b = if a = i ∨ b = i then 0 else matGet m a b := by
  unfold zeroRC
  simp only [matGet, List.getD, List.getElem?_map, List.getElem?_range ha, List.getElem?_range hb, Option.map_some,
    Option.getD_some, Bool.or_eq_true, decide_eq_true_eq]

theorem square_zeroRC (k : Nat) (m : Mat) (i : Nat) : Square k (zeroRC m k i) := by
  unfold zeroRC
  refine ⟨by simp, ?_⟩
  intro r hr
  obtain ⟨a, _, rfl⟩ := List.mem_map.1 hr
  simp

theorem matGet_zeros (n a b : Nat) : matGet (List.replicate n (List.replicate n (0 : Q))) a b = 0 := by
  unfold matGet
  simp only [List.getD, List.getElem?_replicate]
  split
  · simp only [Option.getD_some, List.getElem?_replicate]
    split <;> rfl
  · rfl

theorem square_zeros (n : Nat) : Square n (List.replicate n (List.replicate n (0 : Q))) := by
  refine ⟨by simp, ?_⟩
  intro r hr
  rw [(List.mem_replicate.1 hr).2]; simp

end Demes.Proofs.ToMs
