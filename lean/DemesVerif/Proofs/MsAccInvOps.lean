/-
  C09, acceptance — the moves of one time group, beside C08's `GroupInv`: the target of a move is alive at the
  end of the group, and the single ancestor that `-ej` writes is the target of a move (`GroupX`), carried
  through the options of the group together with `GroupInv`; facts about `groupOps`.
-/
import DemesVerif.Proofs.MsAccInvBase
import DemesVerif.Proofs.FromMsFrag3Sem
namespace Demes.Proofs.MsAcc
open Demes Demes.Ms Demes.Spec Demes.Spec.MsSem Demes.Spec.C08 Demes.Proofs.FromMs


/-! ## `GroupX` option by option -/

theorem groupX_nonmove {s0 s s' : BState} {done : List MOp} {pend : Option (Nat × Q)}
    (hnum : s'.numDemes = s.numDemes) (hj : s'.joined = s.joined)
    (hjd : ∀ j, s.joined.contains j = true → s'.demes[j]? = s.demes[j]?)
    (h : GroupX s0 s done pend) : GroupX s0 s' done pend := by
  refine ⟨?_, ?_, ?_⟩
  · rw [hnum, hj]; exact h.tgtAlive
  · rw [hnum]; exact h.pendFresh
  · intro j d hd hjs hj0
    rw [hj] at hjs
    rw [hjd j hjs] at hd
    exact h.ancTgt j d hd hjs hj0

theorem not_contains_numDemes {s : BState} (hjlt : ∀ j ∈ s.joined, j < s.numDemes) :
    s.joined.contains s.numDemes = false := by
  rw [List.contains_eq_mem]
  simp only [decide_eq_false_iff_not]
  intro hm
  exact Nat.lt_irrefl _ (hjlt _ hm)

theorem groupX_split {T' N0 : Q} {n0 : Nat} {s0 : BState} {allOps : List MOp}
    {s : BState} {g : GState} {L : List (Nat × Row)} {done : List MOp} {pend : Option (Nat × Q)}
    {tq : Q} {i : Nat} {p : Q} {rest : List Cmd}
    (h : GroupInv T' n0 s0 allOps s g L done pend (.split tq i p :: rest)) (hx : GroupX s0 s done pend)
    (hjlt : ∀ j ∈ s.joined, j < s.numDemes) (hlenD : s.demes.length = s.numDemes) :
    GroupX s0 (splitState N0 T' s) (done ++ flushOp s.numDemes pend) (some (i, 1 - p)) := by
  have hnum : (splitState N0 T' s).numDemes = s.numDemes + 1 := rfl
  have hjo : (splitState N0 T' s).joined = s.joined := rfl
  have hde : (splitState N0 T' s).demes = s.demes ++ [newDeme N0 T' s.numDemes] := rfl
  refine ⟨?_, ?_, ?_⟩
  · intro o ho
    rw [hjo]
    rcases List.mem_append.mp ho with ho | ho
    · exact hx.tgtAlive o ho
    · rw [hnum, flushOp_some, List.mem_singleton] at ho
      subst ho
      show s.joined.contains (s.numDemes + 1 - 1) = false
      rw [Nat.add_sub_cancel]
      exact not_contains_numDemes hjlt
  · intro _ o ho
    rw [hnum]
    have := (h.ub o ho).2
    omega
  · intro j d hd hjs hj0
    rw [hjo] at hjs
    have hjl : j < s.demes.length := by
      rw [hlenD]
      exact hjlt j (by simpa using hjs)
    rw [hde, List.getElem?_append_left hjl] at hd
    obtain ⟨k, e1, e2, o, ho, e3⟩ := hx.ancTgt j d hd hjs hj0
    exact ⟨k, e1, e2, o, List.mem_append_left _ ho, e3⟩

/-- `-ej a k` that is not an admixture (`NJT`: no earlier move has `a` as its target) -/
theorem groupX_join' {T' : Q} {n0 : Nat} {s0 : BState} {allOps : List MOp}
    {s s' : BState} {g : GState} {L : List (Nat × Row)} {done : List MOp} {pend : Option (Nat × Q)}
    {tq : Q} {a k : Nat} {rest : List Cmd} {d' : BDeme}
    (h : GroupInv T' n0 s0 allOps s g L done pend (.join tq a k :: rest)) (hx : GroupX s0 s done pend)
    (hns : NJT allOps) (hpa : ∀ i q, pend = some (i, q) → a ≠ s.numDemes)
    (ha1 : 1 ≤ a) (hk1 : 1 ≤ k) (hak : a ≠ k) (hkj : s.joined.contains (k - 1) = false)
    (hal : a - 1 < s.demes.length) (hanc : d'.ancestors = some [Ms.demeName (k - 1)])
    (hde : s'.demes = s.demes.set (a - 1) d') (_hnum : s'.numDemes = s.numDemes)
    (hjo : s'.joined = s.joined ++ [a - 1]) :
    GroupX s0 s' (done ++ flushOp s.numDemes pend ++ [(a, k, 1)]) none := by
  obtain ⟨pos1, _, _⟩ := h.flushed
  have hlink : groupOpsAux s.numDemes pend (.join tq a k :: rest)
      = flushOp s.numDemes pend ++ (a, k, 1) :: groupOpsAux s.numDemes none rest := by
    cases hpe : pend with
    | none => rfl
    | some iq =>
      obtain ⟨i, q⟩ := iq
      have := hpa i q hpe
      show (if a = s.numDemes then _ else _) = _
      rw [if_neg this]; rfl
  have hall : allOps = (done ++ flushOp s.numDemes pend) ++ (a, k, 1) :: groupOpsAux s.numDemes none rest := by
    rw [h.link, hlink, List.append_assoc]
  refine ⟨?_, ?_, ?_⟩
  · intro o ho
    rw [flushOp, List.append_nil] at ho
    rw [hjo, contains_append_single]
    rcases List.mem_append.mp ho with ho | ho
    · rw [hx.tgtAlive o ho]
      have hne : o.2.1 ≠ a := by
        unfold NJT at hns
        rw [hall, List.pairwise_append] at hns
        exact hns.2.2 o ho (a, k, 1) (List.mem_cons_self ..) rfl
      obtain ⟨_, b2, _⟩ := pos1 o ho
      have : ¬ o.2.1 - 1 = a - 1 := by omega
      simp [this]
    · simp only [List.mem_singleton] at ho
      subst ho
      show (s.joined.contains (k - 1) || decide (k - 1 = a - 1)) = false
      rw [hkj]
      have : ¬ k - 1 = a - 1 := by omega
      simp [this]
  · intro hc; cases hc
  · intro j d hd hjs hj0
    rw [hde, List.getElem?_set] at hd
    by_cases hja : a - 1 = j
    · rw [if_pos hja] at hd
      simp only [hal, if_true, Option.some.injEq] at hd
      subst hd
      refine ⟨k - 1, hanc, by omega, (a, k, 1), by simp, ?_⟩
      show k = k - 1 + 1
      omega
    · rw [if_neg hja] at hd
      rw [hjo, contains_append_single] at hjs
      have hjs' : s.joined.contains j = true := by
        have : ¬ j = a - 1 := fun e => hja e.symm
        simpa [this] using hjs
      obtain ⟨k', e1, e2, o, ho, e3⟩ := hx.ancTgt j d hd hjs' hj0
      exact ⟨k', e1, e2, o, List.mem_append_left _ (List.mem_append_left _ ho), e3⟩

/-- `groupX_join'` from `NSAT` -/
theorem groupX_join {T' : Q} {n0 : Nat} {s0 : BState} {allOps : List MOp}
    {s s' : BState} {g : GState} {L : List (Nat × Row)} {done : List MOp} {pend : Option (Nat × Q)}
    {tq : Q} {a k : Nat} {rest : List Cmd} {d' : BDeme}
    (h : GroupInv T' n0 s0 allOps s g L done pend (.join tq a k :: rest)) (hx : GroupX s0 s done pend)
    (hns : NSAT allOps) (hpa : ∀ i q, pend = some (i, q) → a ≠ s.numDemes)
    (ha1 : 1 ≤ a) (hk1 : 1 ≤ k) (hak : a ≠ k) (hkj : s.joined.contains (k - 1) = false)
    (hal : a - 1 < s.demes.length) (hanc : d'.ancestors = some [Ms.demeName (k - 1)])
    (hde : s'.demes = s.demes.set (a - 1) d') (hnum : s'.numDemes = s.numDemes)
    (hjo : s'.joined = s.joined ++ [a - 1]) :
    GroupX s0 s' (done ++ flushOp s.numDemes pend ++ [(a, k, 1)]) none :=
  groupX_join' h hx (njt_of_nsat hns) hpa ha1 hk1 hak hkj hal hanc hde hnum hjo

theorem groupX_admix {T' : Q} {n0 : Nat} {s0 : BState} {allOps : List MOp}
    {s s' : BState} {g : GState} {L : List (Nat × Row)} {done : List MOp} {i : Nat} {q : Q}
    {tq : Q} {k : Nat} {rest : List Cmd} {d' : BDeme}
    (h : GroupInv T' n0 s0 allOps s g L done (some (i, q)) (.join tq s.numDemes k :: rest))
    (hx : GroupX s0 s done (some (i, q)))
    (hk1 : 1 ≤ k) (hak : s.numDemes ≠ k) (hkj : s.joined.contains (k - 1) = false)
    (hal : s.numDemes - 1 < s.demes.length) (hanc : d'.ancestors = some [Ms.demeName (k - 1)])
    (hde : s'.demes = s.demes.set (s.numDemes - 1) d') (hnum : s'.numDemes = s.numDemes)
    (hjo : s'.joined = s.joined ++ [s.numDemes - 1]) :
    GroupX s0 s' (done ++ [(i, k, q)]) none := by
  obtain ⟨p1, p2, _⟩ := h.pendOK i q rfl
  refine ⟨?_, ?_, ?_⟩
  · intro o ho
    rw [flushOp, List.append_nil] at ho
    rw [hjo, contains_append_single]
    rcases List.mem_append.mp ho with ho | ho
    · rw [hx.tgtAlive o (List.mem_append_left _ ho)]
      have hne := hx.pendFresh rfl o ho
      obtain ⟨_, b2, _⟩ := h.pos o ho
      have : ¬ o.2.1 - 1 = s.numDemes - 1 := by omega
      simp [this]
    · simp only [List.mem_singleton] at ho
      subst ho
      show (s.joined.contains (k - 1) || decide (k - 1 = s.numDemes - 1)) = false
      rw [hkj]
      have : ¬ k - 1 = s.numDemes - 1 := by omega
      simp [this]
  · intro hc; cases hc
  · intro j d hd hjs hj0
    rw [hde, List.getElem?_set] at hd
    by_cases hja : s.numDemes - 1 = j
    · rw [if_pos hja] at hd
      simp only [hal, if_true, Option.some.injEq] at hd
      subst hd
      refine ⟨k - 1, hanc, by omega, (i, k, q), by simp, ?_⟩
      show k = k - 1 + 1
      omega
    · rw [if_neg hja] at hd
      rw [hjo, contains_append_single] at hjs
      have hjs' : s.joined.contains j = true := by
        have : ¬ j = s.numDemes - 1 := fun e => hja e.symm
        simpa [this] using hjs
      obtain ⟨k', e1, e2, o, ho, e3⟩ := hx.ancTgt j d hd hjs' hj0
      exact ⟨k', e1, e2, o, List.mem_append_left _ ho, e3⟩

/-! ## one option: `GroupInv` and `GroupX` together -/

theorem stepEvent_groupInvX' {N0 T T' : Q} {n0 : Nat} {s0 : BState} {allOps : List MOp}
    {s s' : BState} {g g' : GState} {σ σ' : St} {L L' : List (Nat × Row)} {ev : Event Num} {c : Cmd}
    {rest : List Cmd} {done : List MOp} {pend : Option (Nat × Q)}
    (hsim : SizeSim T s σ) (hc : cmdOf ev = some c)
    (hm : stepEvent N0 T' (s, g) ev = .ok (s', g')) (hs : Spec.MsSem.step N0 (σ, L) c = .ok (σ', L'))
    (hns : NJT allOps) (hp : FracOK c)
    (h : GroupInv T' n0 s0 allOps s g L done pend (c :: rest)) (hx : GroupX s0 s done pend) :
    ∃ done' pend', GroupInv T' n0 s0 allOps s' g' L' done' pend' rest ∧ GroupX s0 s' done' pend' := by
  have hlenD : s.demes.length = s.numDemes := by rw [hsim.len, hsim.num]
  by_cases hsp : isSplit ev = true
  · cases ev with
    | split o t i p =>
      obtain ⟨tq, a, rfl, rfl, rfl⟩ := cmdOf_split hc
      rw [stepEvent_split] at hm
      obtain ⟨pid, hpid, hm⟩ := RV.bind_ok.1 hm
      obtain ⟨a', ha', hm⟩ := RV.bind_ok.1 hm
      split at hm
      · exact (assertionErr_bind_ok.1 hm).elim
      · cases hm
        cases finArg_ok ha'
        obtain ⟨_, _, _, hL⟩ := step_split_ok hs
        obtain ⟨q1, q2, q3, q4, q5⟩ := convertPopulationId_ok hpid
        have hidx : i.toNat - 1 = pid := by omega
        rw [← hsim.num] at hL
        exact ⟨_, _, groupInv_split h (by omega) (by omega) (by rw [hidx]; exact q5) hsim.jlt hp.1 hp.2 hlenD
          (by rw [hidx]) hL, groupX_split h hx hsim.jlt hlenD⟩
    | _ => cases hsp
  · have hsp' : isSplit ev = false := by simpa using hsp
    by_cases hj : isJoinEv ev = true
    · cases ev with
      | join o t i j =>
        obtain ⟨tq, rfl, rfl⟩ := cmdOf_join hc
        rw [stepEvent_join] at hm
        obtain ⟨popI, hI, hm⟩ := RV.bind_ok.1 hm
        obtain ⟨popJ, hJ, hm⟩ := RV.bind_ok.1 hm
        obtain ⟨s1, h1, hm⟩ := RV.bind_ok.1 hm
        cases hm
        obtain ⟨q, hq, _, hij, _, _, hL⟩ := step_join_ok hs
        obtain ⟨q1, q2, q3, q4, q5⟩ := convertPopulationId_ok hI
        obtain ⟨r1, r2, r3, r4, r5⟩ := convertPopulationId_ok hJ
        obtain ⟨d, d', hd, hfd, rfl⟩ := modifyDeme_ok h1
        have hidx : i.toNat - 1 = popI := by omega
        have hjdx : j.toNat - 1 = popJ := by omega
        obtain ⟨p1, p2, p3⟩ := pop_ok hq
        rw [hidx] at p2
        have hdinf : d.startTime = .inf := by
          obtain ⟨rr, _⟩ := hsim.rel popI d q hd p2
          rw [rr.2.2]
          simpa [MsSem.alive] using p3
        have hd'e := joinDeme_ok hfd
        have hfr := joinMatrix_frame { s with demes := s.demes.set popI d' } T' popI
        have hd'f : d'.startTime = .fin T' ∧ bEndTime d' = bEndTime d := by rw [hd'e]; exact ⟨rfl, rfl⟩
        have hd'a : d'.ancestors = some [Ms.demeName (j.toNat - 1)] := by rw [hd'e, hjdx]
        have hal : popI < s.demes.length := (List.getElem?_eq_some_iff.mp hd).1
        by_cases hadm : ∃ i0 q0, pend = some (i0, q0) ∧ i.toNat = s.numDemes
        · obtain ⟨i0, q0, rfl, hin⟩ := hadm
          rw [hin] at h hL hidx
          exact ⟨_, _, groupInv_admix h (by omega) (by omega) (by omega) (by rw [hjdx]; exact r5)
            (by rw [hidx]; exact hd) hd'f (by rw [hidx]; exact hfr.1) hfr.2.1
            (by rw [hidx]; show _ ++ _ = _; rw [hfr.2.2.1]) hfr.2.2.2 (by rw [hidx, hjdx]) hL,
            groupX_admix h hx (by omega) (by omega) (by rw [hjdx]; exact r5) (by rw [hidx]; exact hal) hd'a
              (by rw [hidx]; exact hfr.1) hfr.2.1 (by rw [hidx]; show _ ++ _ = _; rw [hfr.2.2.1])⟩
        · exact ⟨_, _, groupInv_join' h hns (fun i0 q0 hpe hin => hadm ⟨i0, q0, hpe, hin⟩)
            (by omega) (by omega) (by omega) (by omega) hij (by rw [hidx]; exact q5) (by rw [hjdx]; exact r5)
            (by rw [hidx]; exact hd) hdinf hd'f (by rw [hidx]; exact hfr.1) hfr.2.1
            (by rw [hidx]; show _ ++ _ = _; rw [hfr.2.2.1]) hfr.2.2.2 (by rw [hidx, hjdx]) hL,
            groupX_join' h hx hns (fun i0 q0 hpe hin => hadm ⟨i0, q0, hpe, hin⟩) (by omega) (by omega) hij
              (by rw [hjdx]; exact r5) (by rw [hidx]; exact hal) hd'a (by rw [hidx]; exact hfr.1) hfr.2.1
              (by rw [hidx]; show _ ++ _ = _; rw [hfr.2.2.1])⟩
      | _ => cases hj
    · have hj' : isJoinEv ev = false := by simpa using hj
      obtain ⟨e1, e2⟩ := stepEvent_nonmove hsp' hj' hm
      obtain ⟨f1, f2, f3, f4⟩ := stepEvent_nonmove_frame hsp' hj' hm
      have hcm := isMove_of_nonmove hc hsp' hj'
      have e3 := step_nonmove hcm hs
      have hjd := (stepEvent_joined (sizeSim_jlt hsim) hm).2
      rw [e1, e3]
      exact ⟨done, pend, groupInv_nonmove hcm e2 f1 f2 f3 f4 h,
        groupX_nonmove e2 f1 (fun j hj => (hjd j hj).2) hx⟩

/-- `stepEvent_groupInvX'` from `NSAT` -/
theorem stepEvent_groupInvX {N0 T T' : Q} {n0 : Nat} {s0 : BState} {allOps : List MOp}
    {s s' : BState} {g g' : GState} {σ σ' : St} {L L' : List (Nat × Row)} {ev : Event Num} {c : Cmd}
    {rest : List Cmd} {done : List MOp} {pend : Option (Nat × Q)}
    (hsim : SizeSim T s σ) (hc : cmdOf ev = some c)
    (hm : stepEvent N0 T' (s, g) ev = .ok (s', g')) (hs : Spec.MsSem.step N0 (σ, L) c = .ok (σ', L'))
    (hns : NSAT allOps) (hp : FracOK c)
    (h : GroupInv T' n0 s0 allOps s g L done pend (c :: rest)) (hx : GroupX s0 s done pend) :
    ∃ done' pend', GroupInv T' n0 s0 allOps s' g' L' done' pend' rest ∧ GroupX s0 s' done' pend' :=
  stepEvent_groupInvX' hsim hc hm hs (njt_of_nsat hns) hp h hx

/-- all options of the group (`NJT`: either fragment) -/
theorem events_groupInvX' {N0 T' : Q} {n0 : Nat} {s0 : BState} {allOps : List MOp} (hns : NJT allOps) :
    ∀ (evs : List (Event Num)) {T : Q} {s s' : BState} {g g' : GState} {σ σ' : St}
      {L L' : List (Nat × Row)} {done : List MOp} {pend : Option (Nat × Q)},
    SizeSim T s σ → T ≤ T' → (∀ e ∈ evs, HasCmd e) → (∀ e ∈ evs, 4 * N0 * (cmdOfD e).t = T') →
    (∀ e ∈ evs, FracOK (cmdOfD e)) →
    GroupInv T' n0 s0 allOps s g L done pend (evs.map cmdOfD) → GroupX s0 s done pend →
    LmRel g.lm L → (∀ row ∈ g.lm, row.length = s.numDemes + (evs.filter isSplit).length) →
    evs.foldlM (stepEvent N0 T') (s, g) = .ok (s', g') →
    (evs.map cmdOfD).foldlM (Spec.MsSem.step N0) (σ, L) = .ok (σ', L') →
    ∃ done' pend', SizeSim T' s' σ' ∧ GroupInv T' n0 s0 allOps s' g' L' done' pend' []
      ∧ GroupX s0 s' done' pend' ∧ LmRel g'.lm L' ∧ ∀ row ∈ g'.lm, row.length = s'.numDemes := by
  intro evs
  induction evs with
  | nil =>
    intro T s s' g g' σ σ' L L' done pend hsim hT _ _ _ hinv hx hrel hlen hm hs
    cases hm
    cases hs
    exact ⟨done, pend, hsim.mono hT, hinv, hx, hrel, by simpa using hlen⟩
  | cons e evs ih =>
    intro T s s' g g' σ σ' L L' done pend hsim hT hall htime hfr hinv hx hrel hlen hm hs
    rw [List.foldlM_cons] at hm
    obtain ⟨⟨s1, g1⟩, h1, hm⟩ := RV.bind_ok.1 hm
    rw [List.map_cons, List.foldlM_cons] at hs
    obtain ⟨⟨σ1, L1⟩, hs1, hs⟩ := sbind_ok.1 hs
    have he := hall e (List.mem_cons_self ..)
    have ht := htime e (List.mem_cons_self ..)
    have hsim' := stepEvent_sizeSim hsim hT he ht.symm h1 hs1
    obtain ⟨done1, pend1, hinv1, hx1⟩ :=
      stepEvent_groupInvX' hsim he h1 hs1 hns (hfr e (List.mem_cons_self ..)) hinv hx
    obtain ⟨hrel1, hlen1⟩ := stepEvent_lm evs hsim he h1 hs1 hrel hlen
    exact ih hsim' (Rat.le_refl) (fun x hx => hall x (List.mem_cons_of_mem _ hx))
      (fun x hx => htime x (List.mem_cons_of_mem _ hx)) (fun x hx => hfr x (List.mem_cons_of_mem _ hx))
      hinv1 hx1 hrel1 hlen1 hm hs

/-- all options of the group -/
theorem events_groupInvX {N0 T' : Q} {n0 : Nat} {s0 : BState} {allOps : List MOp} (hns : NSAT allOps) :
    ∀ (evs : List (Event Num)) {T : Q} {s s' : BState} {g g' : GState} {σ σ' : St}
      {L L' : List (Nat × Row)} {done : List MOp} {pend : Option (Nat × Q)},
    SizeSim T s σ → T ≤ T' → (∀ e ∈ evs, HasCmd e) → (∀ e ∈ evs, 4 * N0 * (cmdOfD e).t = T') →
    (∀ e ∈ evs, FracOK (cmdOfD e)) →
    GroupInv T' n0 s0 allOps s g L done pend (evs.map cmdOfD) → GroupX s0 s done pend →
    LmRel g.lm L → (∀ row ∈ g.lm, row.length = s.numDemes + (evs.filter isSplit).length) →
    evs.foldlM (stepEvent N0 T') (s, g) = .ok (s', g') →
    (evs.map cmdOfD).foldlM (Spec.MsSem.step N0) (σ, L) = .ok (σ', L') →
    ∃ done' pend', SizeSim T' s' σ' ∧ GroupInv T' n0 s0 allOps s' g' L' done' pend' []
      ∧ GroupX s0 s' done' pend' ∧ LmRel g'.lm L' ∧ ∀ row ∈ g'.lm, row.length = s'.numDemes :=
  events_groupInvX' (njt_of_nsat hns)

theorem groupX_init (s : BState) : GroupX s s [] none := by
  refine ⟨?_, ?_, ?_⟩
  · intro o ho; cases ho
  · intro hc; cases hc
  · intro j d _ h1 h2
    rw [h1] at h2; cases h2

/-! ## the end of the options of a good group -/

/-- beside `GroupEnd`: the targets of the moves are alive at the end of the options; a deme joined in the
group has (before `applyParams`) as its single ancestor the target of a move -/
structure GroupEndX (s s1 : BState) (ops : List MOp) : Prop where
  tgtAlive : ∀ o ∈ ops, s1.joined.contains (o.2.1 - 1) = false
  ancTgt : ∀ (j : Nat) (d : BDeme), s1.demes[j]? = some d → s1.joined.contains j = true →
    s.joined.contains j = false → ∃ k, d.ancestors = some [Ms.demeName k] ∧ k ≠ j ∧ ∃ o ∈ ops, o.2.1 = k + 1

/-- `group_end_ok` of C08 (a group of either fragment, `GroupOK`) with `GroupEndX` -/
theorem group_endX_ok {N0 T T' : Q} {s s1 : BState} {g1 : GState} {σ σ1 : St} {L1 : List (Nat × Row)}
    {evs : List (Event Num)}
    (hsim : SizeSim T s σ) (hT : T ≤ T') (hall : ∀ e ∈ evs, HasCmd e)
    (htime : ∀ e ∈ evs, 4 * N0 * (cmdOfD e).t = T')
    (hm : evs.foldlM (stepEvent N0 T') (s, { lm := initLm s evs, params := [] }) = .ok (s1, g1))
    (hs : (evs.map cmdOfD).foldlM (Spec.MsSem.step N0) (σ, initL σ) = .ok (σ1, L1))
    (hok : GroupOK s.numDemes (evs.map cmdOfD)) (hnames : NameInv s) :
    SizeSim T' s1 σ1 ∧ GroupEnd T' s σ s1 g1 L1 (groupOps s.numDemes (evs.map cmdOfD))
      ∧ GroupEndX s s1 (groupOps s.numDemes (evs.map cmdOfD)) := by
  have hns : NJT (groupOps s.numDemes (evs.map cmdOfD)) := njt_of_frag hok.1
  have hfr : ∀ e ∈ evs, FracOK (cmdOfD e) :=
    fun e he => hok.2 _ (List.mem_map.mpr ⟨e, he, rfl⟩)
  obtain ⟨done, pend, hsim1, hinv, hx, _, _⟩ := events_groupInvX' hns evs hsim hT hall htime hfr
    (groupInv_init hsim _ _ rfl) (groupX_init s) (initLm_rel hsim evs) (initLm_length s evs) hm hs
  have hlink : groupOps s.numDemes (evs.map cmdOfD) = done ++ flushOp s1.numDemes pend := hinv.link
  obtain ⟨hsim1', he⟩ := group_end_ok hsim hT hall htime hm hs hok hnames
  refine ⟨hsim1, he, ?_, ?_⟩
  · rw [hlink]; exact hx.tgtAlive
  · intro j d hd h1 h2
    obtain ⟨k, e1, e2, o, ho, e3⟩ := hx.ancTgt j d hd h1 h2
    exact ⟨k, e1, e2, o, by rw [hlink]; exact List.mem_append_left _ ho, e3⟩

/-- `group_end` of C08 with `GroupEndX` -/
theorem group_endX {N0 T T' : Q} {s s1 : BState} {g1 : GState} {σ σ1 : St} {L1 : List (Nat × Row)}
    {evs : List (Event Num)}
    (hsim : SizeSim T s σ) (hT : T ≤ T') (hall : ∀ e ∈ evs, HasCmd e)
    (htime : ∀ e ∈ evs, 4 * N0 * (cmdOfD e).t = T')
    (hm : evs.foldlM (stepEvent N0 T') (s, { lm := initLm s evs, params := [] }) = .ok (s1, g1))
    (hs : (evs.map cmdOfD).foldlM (Spec.MsSem.step N0) (σ, initL σ) = .ok (σ1, L1))
    (hgood : GoodGroup s.numDemes (evs.map cmdOfD) = true) (hnames : NameInv s) :
    SizeSim T' s1 σ1 ∧ GroupEnd T' s σ s1 g1 L1 (groupOps s.numDemes (evs.map cmdOfD))
      ∧ GroupEndX s s1 (groupOps s.numDemes (evs.map cmdOfD)) :=
  group_endX_ok hsim hT hall htime hm hs (groupOK_of_good hgood) hnames

/-! ## facts about `groupOps` -/

/-- a group without `-es` / `-ej` moves no lineage -/
theorem groupOpsAux_nil : ∀ (cs : List Cmd) (n : Nat), cs.any isMove = false → groupOpsAux n none cs = [] := by
  intro cs
  induction cs with
  | nil => intro n _; rfl
  | cons c cs ih =>
    intro n h
    simp only [List.any_cons, Bool.or_eq_false_iff] at h
    rw [groupOpsAux_nonmove _ _ _ _ h.1]
    exact ih n h.2

theorem groupOps_move {n : Nat} {cs : List Cmd} (h : groupOps n cs ≠ []) : cs.any isMove = true := by
  by_contra hc
  exact h (groupOpsAux_nil cs n (by simpa using hc))

/-- proper splits (`p < 1`) give moves with a positive fraction -/
theorem groupOpsAux_qpos : ∀ (cs : List Cmd) (n : Nat) (pend : Option (Nat × Q)),
    (∀ c ∈ cs, ∀ t i p, c = .split t i p → p < 1) → (∀ i q, pend = some (i, q) → 0 < q) →
    ∀ o ∈ groupOpsAux n pend cs, 0 < o.2.2 := by
  intro cs
  induction cs with
  | nil =>
    intro n pend _ hp o ho
    obtain ⟨i, q, e, rfl⟩ := mem_flushOp ho
    exact hp i q e
  | cons c cs ih =>
    intro n pend hc hp o ho
    have hcs : ∀ c' ∈ cs, ∀ t i p, c' = .split t i p → p < 1 :=
      fun c' hc' => hc c' (List.mem_cons_of_mem _ hc')
    by_cases hmv : isMove c = true
    · cases c with
      | split t i p =>
        have hp1 := hc _ (List.mem_cons_self ..) t i p rfl
        have ho' : o ∈ flushOp n pend ++ groupOpsAux (n + 1) (some (i, 1 - p)) cs := ho
        rcases List.mem_append.mp ho' with ho' | ho'
        · obtain ⟨i0, q0, e, rfl⟩ := mem_flushOp ho'
          exact hp i0 q0 e
        · exact ih (n + 1) (some (i, 1 - p)) hcs (fun i' q' e => by cases e; linarith) o ho'
      | join t a k =>
        have hnone : ∀ o ∈ groupOpsAux n none cs, 0 < o.2.2 :=
          ih n none hcs (fun i q e => by cases e)
        cases hpe : pend with
        | none =>
          rw [hpe] at ho
          have ho' : o ∈ (a, k, (1 : Q)) :: groupOpsAux n none cs := ho
          rcases List.mem_cons.mp ho' with rfl | ho'
          · show (0 : Q) < 1; decide
          · exact hnone o ho'
        | some iq =>
          obtain ⟨i0, q0⟩ := iq
          rw [hpe] at ho
          have hq0 := hp i0 q0 hpe
          have ho' : o ∈ (if a = n then (i0, k, q0) :: groupOpsAux n none cs
              else (i0, n, q0) :: (a, k, 1) :: groupOpsAux n none cs) := ho
          split at ho'
          · rcases List.mem_cons.mp ho' with rfl | ho'
            · exact hq0
            · exact hnone o ho'
          · rcases List.mem_cons.mp ho' with rfl | ho'
            · exact hq0
            · rcases List.mem_cons.mp ho' with rfl | ho'
              · show (0 : Q) < 1; decide
              · exact hnone o ho'
      | _ => cases hmv
    · rw [groupOpsAux_nonmove _ _ _ _ (by simpa using hmv)] at ho
      exact ih n pend hcs hp o ho

theorem groupOps_qpos {n : Nat} {cs : List Cmd} (h : ∀ c ∈ cs, ∀ t i p, c = .split t i p → p < 1) :
    ∀ o ∈ groupOps n cs, 0 < o.2.2 :=
  groupOpsAux_qpos cs n none h (fun i q e => by cases e)

end Demes.Proofs.MsAcc
