/-
  C13 — deme size lookup (`Deme.size_at`, Model `sizeAt`) matches the epoch size functions at
  every time.

  `Spec.alive d t` / `Spec.inEpoch e t` are the half-open intervals `(start, end]` (start
  exclusive, end inclusive); `Spec.specSize e t` is the documented constant / exponential /
  linear size of epoch `e` at `t`; `SizeResult.expo n0 n1 dt` stands for the real number
  `n0 * exp(log(n1/n0) * dt)` (see `Proofs/RealBridge.lean` for its real-analysis reading).
-/
import DemesVerif.Proofs.SizeAt
namespace Demes.Theorems
open Demes Demes.Spec

/-- Outside the deme's lifetime `(start, end]` the reported size is 0 (finite times). -/
theorem sizeAt_outside (g : Graph) (hv : validGraph g = true) (d : Deme) (hd : d ∈ g.demes)
    (t : Q) (ht : ¬ alive d t) : sizeAt d (ETime.fin t) = .exact 0 :=
  Proofs.sizeAt_outside g hv d hd t ht

/-- At infinite time a deme with a finite start time reports 0. -/
theorem sizeAt_outside_inf (g : Graph) (hv : validGraph g = true) (d : Deme) (hd : d ∈ g.demes)
    (hs : d.startTime ≠ ETime.inf) : sizeAt d ETime.inf = .exact 0 :=
  Proofs.sizeAt_outside_inf g hv d hd hs

/-- At infinite time a deme with infinite start reports its first epoch's (start) size. -/
theorem sizeAt_inf (g : Graph) (hv : validGraph g = true) (d : Deme) (hd : d ∈ g.demes)
    (hs : d.startTime = ETime.inf) :
    ∃ e0, d.epochs.head? = some e0 ∧ sizeAt d ETime.inf = .exact e0.startSize :=
  Proofs.sizeAt_inf g hv d hd hs

/-- Contiguity: every time in the deme's lifetime lies in exactly one of its epochs. -/
theorem sizeAt_unique_epoch (g : Graph) (hv : validGraph g = true) (d : Deme) (hd : d ∈ g.demes)
    (t : Q) (ht : alive d t) :
    ∃ e, e ∈ d.epochs ∧ inEpoch e t ∧ ∀ e', e' ∈ d.epochs → inEpoch e' t → e' = e :=
  Proofs.sizeAt_unique_epoch g hv d hd t ht

/-- At each epoch's end time the reported size is exactly that epoch's end size (so at an
epoch boundary the *older* epoch's end size is reported, not the younger one's start size). -/
theorem sizeAt_end (g : Graph) (hv : validGraph g = true) (d : Deme) (hd : d ∈ g.demes)
    (e : Epoch) (he : e ∈ d.epochs) : sizeAt d (ETime.fin e.endTime) = .exact e.endSize :=
  Proofs.sizeAt_end g hv d hd e he

/-- Inside an epoch, away from its end, the reported size is the documented constant,
exponential or linear interpolation for that epoch. -/
theorem sizeAt_interior (g : Graph) (hv : validGraph g = true) (d : Deme) (hd : d ∈ g.demes)
    (e : Epoch) (he : e ∈ d.epochs) (t : Q) (hin : inEpoch e t)
    (hfar : closeDefault t e.endTime = false) : sizeAt d (ETime.fin t) = specSize e t :=
  Proofs.sizeAt_interior g hv d hd e he t hin hfar

/-- Within relative 1e-9 of an epoch's end the implementation's shortcut reports the end
size exactly. -/
theorem sizeAt_near_end (g : Graph) (hv : validGraph g = true) (d : Deme) (hd : d ∈ g.demes)
    (e : Epoch) (he : e ∈ d.epochs) (t : Q) (hin : inEpoch e t)
    (hclose : closeDefault t e.endTime = true) : sizeAt d (ETime.fin t) = .exact e.endSize :=
  Proofs.sizeAt_near_end g hv d hd e he t hin hclose

/-- The interpolation parameter of an epoch with finite start lies in `(0, 1]` on the epoch
(it is 1 at the epoch's end, and tends to 0 towards its start). -/
theorem sizeAt_dt_range (e : Epoch) (s : Q) (hs : e.startTime = ETime.fin s) (t : Q)
    (hin : inEpoch e t) :
    0 < (s - t) / (s - e.endTime) ∧ (s - t) / (s - e.endTime) ≤ 1 :=
  Proofs.sizeAt_dt_range e s hs t hin

/-- The linear interpolation lies between the epoch's start and end sizes. -/
theorem sizeAt_linear_between (e : Epoch) (s : Q) (hs : e.startTime = ETime.fin s) (t : Q)
    (hin : inEpoch e t) :
    qmin e.startSize e.endSize ≤ e.startSize + (e.endSize - e.startSize) * ((s - t) / (s - e.endTime))
    ∧ e.startSize + (e.endSize - e.startSize) * ((s - t) / (s - e.endTime))
        ≤ qmax e.startSize e.endSize :=
  Proofs.sizeAt_linear_between e s hs t hin

/-- Inside an epoch the reported size is either an exact number between the epoch's start
and end sizes, or (exponential epochs only) the symbolic exponential interpolation between
them with parameter in `(0, 1]`. -/
theorem sizeAt_between (g : Graph) (hv : validGraph g = true) (d : Deme) (hd : d ∈ g.demes)
    (e : Epoch) (he : e ∈ d.epochs) (t : Q) (hin : inEpoch e t) :
    (∃ v, sizeAt d (ETime.fin t) = .exact v
        ∧ qmin e.startSize e.endSize ≤ v ∧ v ≤ qmax e.startSize e.endSize)
    ∨ (∃ dt, sizeAt d (ETime.fin t) = .expo e.startSize e.endSize dt ∧ 0 < dt ∧ dt ≤ 1
        ∧ e.sizeFunction = "exponential") :=
  Proofs.sizeAt_between g hv d hd e he t hin

/-! ### non-vacuity: a valid graph with a three-epoch deme (constant, exponential, linear),
a finite-start deme, and a deme whose single infinite epoch is labelled "exponential" -/

open Proofs in
example : validGraph c13Graph = true := by decide +kernel
open Proofs in
example : c13A ∈ c13Graph.demes ∧ c13B ∈ c13Graph.demes ∧ c13C ∈ c13Graph.demes := by
  decide +kernel

section
open Proofs
-- `sizeAt_outside`: B lives on (80,20]; 80 (its start), 90 and 10 are outside, 20 is inside
example : ¬ alive c13B 80 ∧ ¬ alive c13B 90 ∧ ¬ alive c13B 10 ∧ alive c13B 20 := by decide +kernel
example : sizeAt c13B (.fin 80) = .exact 0 ∧ sizeAt c13B (.fin 10) = .exact 0
    ∧ sizeAt c13B (.fin 20) = .exact 150 := by decide +kernel
-- `sizeAt_outside_inf` / `sizeAt_inf`
example : c13B.startTime ≠ .inf ∧ sizeAt c13B .inf = .exact 0 := by decide +kernel
example : c13A.startTime = .inf ∧ sizeAt c13A .inf = .exact 100 := by decide +kernel
-- `sizeAt_unique_epoch`, `sizeAt_interior`: 75 is in the middle of A's exponential epoch,
-- 25 in the middle of its linear epoch, 500 in its infinite constant epoch
example : alive c13A 75 ∧ alive c13A 25 ∧ alive c13A 500 := by decide +kernel
example : ∃ e ∈ c13A.epochs, inEpoch e 75 ∧ closeDefault 75 e.endTime = false
    ∧ specSize e 75 = .expo 100 400 (1/2) ∧ sizeAt c13A (.fin 75) = .expo 100 400 (1/2) := by
  decide +kernel
example : ∃ e ∈ c13A.epochs, inEpoch e 25 ∧ closeDefault 25 e.endTime = false
    ∧ specSize e 25 = .exact 300 ∧ sizeAt c13A (.fin 25) = .exact 300 := by
  decide +kernel
example : sizeAt c13A (.fin 500) = .exact 100 := by decide +kernel
-- both sides of the boundary at 50: at 50 the older (exponential) epoch's end size 400 …
example : sizeAt c13A (.fin 50) = .exact 400 ∧ sizeAt c13A (.fin 100) = .exact 100
    ∧ sizeAt c13A (.fin 0) = .exact 200 := by decide +kernel
-- … and just below 50 the linear epoch's interpolation from 400
example : sizeAt c13A (.fin (50 - 1/100)) = .exact (400 - 1/25) := by decide +kernel
-- `sizeAt_near_end`: 50·(1 + 1e-10) is within relative 1e-9 of the end 50 of (100,50]
example : ∃ e ∈ c13A.epochs, inEpoch e (50 + 1/200000000) ∧ (50 + 1/200000000 : Q) ≠ e.endTime
    ∧ closeDefault (50 + 1/200000000) e.endTime = true
    ∧ sizeAt c13A (.fin (50 + 1/200000000)) = .exact 400 := by decide +kernel
-- the F16 shape (infinite epoch labelled "exponential", equal sizes) is valid and now reports
-- its size instead of NaN
example : ∃ e ∈ c13C.epochs, inEpoch e 7 ∧ e.startTime = .inf ∧ e.sizeFunction = "exponential"
    ∧ closeDefault 7 e.endTime = false ∧ sizeAt c13C (.fin 7) = .exact 100 := by decide +kernel
end

end Demes.Theorems
