"""C12 — migration matrices agree pointwise with the graph's migrations."""
from __future__ import annotations

import copy

import demes
import math
from fractions import Fraction

from props.common import *  # noqa: F401,F403

RULE = ("valid graphs from the boundary-directed generator (times on a grid of <= 6 values); a case is "
        "one graph; non-trivial = has at least one migration; distinct by canonical fully-resolved dict")
ASSUMPTIONS = ["exact comparison: all times/rates dyadic, so double arithmetic is exact",
               "float(rate) and list/dict iteration order as in CPython"]
EXPLANATION = ("Theorems matrices_end_times / matrices_pointwise / matrices_row_sum / matrices_rows_le_one over the "
               "Lean Model of migration_matrices(); Model tied to the code by exact comparison of matrices and end "
               "times; pointwise relation re-evaluated on the code's own output.")


def pointwise_ok(g, mm, ends):
    """the property's relation evaluated directly on the implementation's output"""
    names = [d.name for d in g.demes]
    if len(mm) != len(ends) or not ends or ends[-1] != 0:
        return "end times do not finish at 0 / lengths differ"
    if any(not (a > b) for a, b in zip(ends, ends[1:])):
        return "end times not strictly decreasing"
    probes = set()
    for k, e in enumerate(ends):
        s = ends[k - 1] if k > 0 else math.inf
        probes.add(e)
        probes.add((e + s) / 2 if not math.isinf(s) else e + 1)
    probes.add(0)
    for t in sorted(probes):
        ks = [k for k, e in enumerate(ends) if e <= t]
        k = ks[0]
        for i, di in enumerate(names):
            row = mm[k][i]
            for j, dj in enumerate(names):
                act = [m for m in g.migrations if m.source == dj and m.dest == di and m.start_time > t >= m.end_time]
                want = act[0].rate if act else 0
                if len(act) > 1:
                    return f"two migrations {dj}->{di} active at t={t}"
                if row[j] != want:
                    return f"entry [{k}][{i}][{j}] = {row[j]} but migration {dj}->{di} at t={t} has rate {want}"
            s = sum(Fraction(x) for x in row)
            if s > 1 and not math.isclose(float(s), 1, rel_tol=1e-9):
                return f"row {i} of matrix {k} sums to {float(s)}"
    return None


def run(ctx):
    n = 1000 if ctx.tier == "quick" else 15000
    done = 0
    accepted_mutants(ctx)
    while done < n and ctx.time_left() > 5:
        batch = gen_valid_graphs(ctx, min(250, n - done), corpus=True, max_demes=6 if ctx.tier == "quick" else 8)
        done += len(batch)
        graphs = [g for _, g, _ in batch]
        reps = ctx.driver.batch([{"op": "matrices", "graph": enc(g.asdict())} for g in graphs])
        for (doc, g, feats), r in zip(batch, reps):
            mm, ends = g.migration_matrices()
            ctx.count(show(canon(g.asdict())), len(g.migrations) > 0,
                      tags=[f"migrations={min(len(g.migrations), 6)}", f"demes={len(g.demes)}", f"matrices={len(ends)}"])
            ctx.compared += 1
            ok = "ok" in r and canon(mm) == dec(r["ok"]["mm"]) and canon(ends) == dec(r["ok"]["end_times"])
            if not ok:
                ctx.disagreement("matrices", {"document": doc}, show(canon([mm, ends])), r)
            why = pointwise_ok(g, mm, ends)
            if why:
                ctx.violation("migration_matrices: " + why, {"document": doc},
                              python=py_repro(doc, "g.migration_matrices()"))
            # the graphs DERIVED from a graph whose matrices have been computed are valid graphs too: the generations
            # view and a renamed copy (a rotation of the names) must satisfy the same relation with their own times / order
            derived = [("in_generations()", lambda: g.in_generations())]
            if len(g.demes) > 1:
                names = [d.name for d in g.demes]
                derived.append((f"rename_demes({dict(zip(names, names[1:] + names[:1]))!r})",
                                lambda: g.rename_demes(dict(zip(names, names[1:] + names[:1])))))
            # the same model with two neighbouring demes listed in the other order (where the ancestry allows it): same
            # migrations, another deme order, hence other row / column indices
            a = g.asdict()
            for i in range(len(a["demes"]) - 1):
                if a["demes"][i]["name"] not in a["demes"][i + 1]["ancestors"]:
                    a2 = copy.deepcopy(a)
                    a2["demes"][i], a2["demes"][i + 1] = a2["demes"][i + 1], a2["demes"][i]
                    derived.append((f"<demes {i} and {i + 1} listed in the other order>", lambda a2=a2: demes.Graph.fromdict(a2)))
                    break
            for expr, make in derived:
                try:
                    h = make()
                    mm2, ends2 = h.migration_matrices()
                    why = pointwise_ok(h, mm2, ends2)
                except Exception as e:  # noqa: BLE001
                    why = f"raises {type(e).__name__}: {str(e)[:80]}"
                if why:
                    ctx.violation(f"migration_matrices of g.{expr.split('(')[0]}(...): " + why, {"document": doc, "derived_by": expr},
                                  python=py_repro(doc, f"g.{expr}.migration_matrices()"))


def accepted_mutants(ctx):
    """every graph the library hands out is, for C12, a valid graph: rule-directed mutants of valid documents (rates and
    symmetric groups pushed over the ingress bound, overlapping windows, ...) that the library ACCEPTS must satisfy the
    relation too — in particular no row may sum to more than one (on the unchanged tree resolve_valid + matrices_rows_le_one
    say this cannot fail)"""
    import gen_graphs as G
    import gen_mutations as M
    n = 150 if ctx.tier == "quick" else 3000
    # fixed documents the library must refuse (ingress above 1 in ONE window of a pair that has a second, low-rate window
    # listed later / earlier); if it returns a graph, that graph's matrices break the row-sum clause
    three = [{"name": x, "epochs": [{"start_size": 100, "end_time": 0}]} for x in "ABC"]
    for order in ((0, 1, 2), (0, 2, 1), (2, 1, 0), (1, 0, 2)):
        migs = [{"source": "C", "dest": "A", "rate": 0.5}, {"source": "B", "dest": "A", "rate": 0.75, "start_time": 200, "end_time": 100},
                {"source": "B", "dest": "A", "rate": 0.125, "start_time": 100, "end_time": 0}]
        d = {"time_units": "generations", "demes": copy.deepcopy(three), "migrations": [migs[i] for i in order]}
        c = impl.resolve(d)
        ctx.count(d, True, tags=["must_refuse:ingress_in_one_window", "accepted" if c[0] == "ok" else "rejected"])
        if c[0] == "ok":
            mm, ends = c[2].migration_matrices()
            ctx.violation("migration_matrices of a graph the library returned: " + (pointwise_ok(c[2], mm, ends) or "a row sums to more than one in (200, 100]"),
                          {"document": d}, python=py_repro(d, "g.migration_matrices()"))
    for _ in range(n):
        m = G.gen_model(ctx.rng, max_demes=5)
        base = G.spell(m, ctx.rng, level=ctx.rng.choice([0, 0.5, 1]))
        for _k in range(3):
            op = ctx.rng.choice([M.m_sym_big_rate, M.m_rate, M.m_overlap_migration, M.m_migration_shape])
            d = copy.deepcopy(base)
            try:
                t = op(d, ctx.rng, [])
            except Exception:  # noqa: BLE001
                t = None
            if t is None:
                continue
            c = impl.resolve(d)
            if c[0] != "ok":
                continue
            g = c[2]
            ctx.count(show(canon(g.asdict())), len(g.migrations) > 0, tags=["accepted_mutant:" + str(t).split(":")[0]])
            try:
                mm, ends = g.migration_matrices()
                why = pointwise_ok(g, mm, ends)
            except Exception as e:  # noqa: BLE001
                why = f"raises {type(e).__name__}"
            if why:
                ctx.violation("migration_matrices of a graph the library returned: " + why, {"document": d},
                              python=py_repro(d, "g.migration_matrices()"))


def replay(ctx, payload):
    import demes, json
    doc = payload["input"]["document"]
    g = demes.Graph.fromdict(doc)
    mm, ends = g.migration_matrices()
    print("implementation:", mm, ends)
    print("model:", ctx.driver.batch([{"op": "matrices", "graph": enc(g.asdict())}])[0])
    print("relation:", pointwise_ok(g, mm, ends))
    return 0
