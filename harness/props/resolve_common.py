"""Shared machinery of C01/C02/C03/C06: documents, three entry routes, model comparison."""
from __future__ import annotations

import copy
import io
import json
import math

import demes

import gen_graphs as G
import gen_mutations as M
import impl
from props.common import *  # noqa: F401,F403
from wire import canon, canon_eq, dec, enc, show


def via_builder(doc):
    """the same document entered through Builder calls"""
    kw = {k: copy.deepcopy(doc[k]) for k in ("description", "time_units", "generation_time", "doi", "defaults", "metadata") if k in doc}
    b = demes.Builder(**kw)
    for d in doc.get("demes", []):
        d = copy.deepcopy(d)
        b.add_deme(d.pop("name"), **d)
    for m in doc.get("migrations", []):
        b.add_migration(**copy.deepcopy(m))
    for p in doc.get("pulses", []):
        b.add_pulse(**copy.deepcopy(p))
    return b


def route_results(doc, routes=("dict", "yaml", "json", "builder")):
    """resolve one document through several entry routes; returns {route: ('ok', canon asdict, graph)|('err', cls, None)}"""
    out = {}
    for r in routes:
        try:
            if r == "dict":
                g = demes.Graph.fromdict(copy.deepcopy(doc))
            elif r == "builder":
                g = via_builder(doc).resolve()
            elif r == "builder_fromdict":
                g = demes.Builder.fromdict(copy.deepcopy(doc)).resolve()
            elif r == "yaml":
                s = io.StringIO()
                demes.load_dump._dump_yaml_fromdict(copy.deepcopy(doc), s)
                spoil_earlier_load(s.getvalue(), "yaml")
                g = demes.loads(s.getvalue())
            elif r == "json":
                d = copy.deepcopy(doc)
                text = json.dumps(stringify_doc(d))
                spoil_earlier_load(text, "json")
                g = demes.loads(text, format="json")
            out[r] = ("ok", canon(g.asdict()), g)
        except Exception as e:  # noqa: BLE001
            out[r] = ("err", type(e).__name__, None)
    return out


def spoil_earlier_load(text, fmt):
    """a user loads the same text first as a dictionary and edits what they got, at every depth: a later load of the
    text must not see any of it (each load parses the text afresh)"""
    try:
        d = demes.loads_asdict(text, format=fmt)
    except Exception:  # noqa: BLE001
        return

    def spoil(v):
        if isinstance(v, dict):
            for x in list(v.values()):
                spoil(x)
            v["zz_spoilt"] = 1
        elif isinstance(v, list):
            for x in v:
                spoil(x)
            v.append({"name": "zz_spoilt"})
    spoil(d)


def inplace_assign(old, new):
    """make the container `old` equal to `new` by editing it IN PLACE, keeping the identity of every nested dict /
    list that exists on both sides (what a user does who edits Builder.data after a first resolve())"""
    if isinstance(old, dict) and isinstance(new, dict):
        for k in [k for k in old if k not in new]:
            del old[k]
        for k, v in new.items():
            if k in old and type(old[k]) is type(v) and isinstance(v, (dict, list)):
                inplace_assign(old[k], v)
            else:
                old[k] = v
        # same key order as `new` (a dict keeps the position of a key that is overwritten)
        for k in list(new):
            old[k] = old.pop(k)
    elif isinstance(old, list) and isinstance(new, list):
        for i, v in enumerate(new):
            if i < len(old) and type(old[i]) is type(v) and isinstance(v, (dict, list)):
                inplace_assign(old[i], v)
            elif i < len(old):
                old[i] = v
            else:
                old.append(v)
        del old[len(new):]


def builder_edit_route(base, doc):
    """Builder.fromdict(base).resolve(), then Builder.data edited in place into `doc`, then resolve() again"""
    try:
        b = demes.Builder.fromdict(copy.deepcopy(base))
        try:
            b.resolve()
        except Exception:  # noqa: BLE001
            pass
        inplace_assign(b.data, copy.deepcopy(doc))
        g = b.resolve()
        return ("ok", canon(g.asdict()), g)
    except Exception as e:  # noqa: BLE001
        return ("err", type(e).__name__, None)


def stringify_doc(d):
    """infinite start times as the string 'Infinity', as a user would write them in JSON"""
    for dm in d.get("demes", []):
        if isinstance(dm.get("start_time"), float) and dm["start_time"] == math.inf:
            dm["start_time"] = "Infinity"
    for m in d.get("migrations", []):
        if isinstance(m.get("start_time"), float) and m["start_time"] == math.inf:
            m["start_time"] = "Infinity"
    for sec in ("deme", "migration"):
        s = d.get("defaults", {}).get(sec, {})
        if isinstance(s.get("start_time"), float) and s["start_time"] == math.inf:
            s["start_time"] = "Infinity"
    return d


def json_safe(doc):
    """can this document be written as strict JSON (no non-finite numbers outside the positions
    stringify_doc handles)?"""
    try:
        json.dumps(stringify_doc(copy.deepcopy(doc)), allow_nan=False)
        return True
    except (ValueError, TypeError, AttributeError):
        return False


def model_resolve(ctx, docs):
    return ctx.driver.batch([{"op": "resolve", "doc": enc(d)} for d in docs])


def compare_with_model(ctx, doc, code, rep, op="resolve"):
    """code = ('ok', canon, graph) | ('err', cls, None); rep = driver reply.  Records a disagreement."""
    ctx.compared += 1
    mok = "ok" in rep
    if (code[0] == "ok") != mok:
        ctx.disagreement(op, {"document": show(canon_doc(doc))}, code[:2] if code[0] == "err" else "accepted",
                         {k: rep.get(k) for k in ("err", "msg")} if not mok else "accepted")
        return False
    if mok:
        if not canon_eq(code[1], dec(rep["ok"])):
            ctx.disagreement(op, {"document": show(canon_doc(doc))}, show(code[1]), show(dec(rep["ok"])))
            return False
        if index_of(code[2]) != rep.get("index"):
            ctx.disagreement(op + ":index", {"document": show(canon_doc(doc))}, index_of(code[2]), rep.get("index"))
            return False
    return True


def canon_doc(doc):
    try:
        return canon(doc)
    except TypeError:
        return repr(doc)


def gen_models(ctx, n, **kw):
    out = []
    for _ in range(n):
        m = G.gen_model(ctx.rng, **kw)
        out.append(m)
    return out
