/-
  C07 — `msSemG` on the emitted command: it succeeds, and its result is the pure run.
-/
import DemesVerif.Proofs.ToMsAlive4
set_option linter.unusedSimpArgs false
set_option linter.unusedVariables false
namespace Demes.Proofs.ToMs
open Demes Demes.Ms Demes.Spec Demes.Spec.C07 Demes.Proofs.RV
open Demes.Spec.MsSem (Row Mat matGet matSet canonRows Move DemogSem PopSem Seg MigSeg)

/-- the header `toMs` emits for a graph in generations -/
def headerOf (g : Graph) (samples : Option (List Int)) : Option (Nat × List String) :=
  if g.demes.length > 1 then
    some (g.demes.length, (samples.getD (List.replicate g.demes.length 0)).map toString)
  else none

/-- the populations `msSemG` reports -/
def popsObs (pops : List PopG) : List PopSemG :=
  (pops.zipIdx).filterMap (fun (p, k) =>
    if decide (ETime.fin p.lo < p.hi) then some { id := k + 1, lo := p.lo, hi := p.hi, upd := p.upd } else none)

theorem demes_pos {g : Graph} (c : Clauses g) : 0 < g.demes.length := by
  have := c.h1
  simp only [v1, Bool.and_eq_true, Bool.not_eq_true', List.isEmpty_eq_false_iff] at this
  exact List.length_pos_iff.mpr this.1.1

theorem msSemG_finalEvs {g : Graph} (c : Clauses g) (hx : MsExpressible g = true) {N0 : Q} (hN : 0 < N0)
    (samples : Option (List Int)) :
    ∃ sem, msSemG ⟨headerOf g samples, finalEvs g N0⟩ N0 = .ok sem
      ∧ sem.pops = popsObs (runP N0 (s0Of N0 g.demes.length) (finalEvs g N0)).pops
      ∧ sem.snaps = (runP N0 (s0Of N0 g.demes.length) (finalEvs g N0)).snaps
      ∧ sem.moves = movesOf N0 (s0Of N0 g.demes.length) (groupsByTime (finalEvs g N0)) := by
  have hn : ((headerOf g samples).map (·.1)).getD 1 = g.demes.length := by
    unfold headerOf
    have := demes_pos c
    by_cases h1 : g.demes.length > 1
    · simp [h1]
    · simp [h1]; omega
  have hsort : (finalEvs g N0).foldr insertEv [] = finalEvs g N0 := by
    rw [foldr_insertEv, sortBy_of_sorted _ (sorted_byQ_finalEvs c hx hN)]
  obtain ⟨s', hs', hcore, hmoves⟩ := groups_ok (N0 := N0) (groupsByTime (finalEvs g N0)) (s0Of N0 g.demes.length)
    (fun pre e post h => by
      rw [flatten_groupsByTime] at h
      exact okEv_finalEvs c hx hN h)
  rw [flatten_groupsByTime] at hcore
  have hNle : ¬ N0 ≤ 0 := by grind
  refine ⟨{ pops := popsObs s'.pops, snaps := s'.snaps, moves := s'.moves }, ?_, ?_, ?_, ?_⟩
  · unfold msSemG
    simp only [hNle, if_false, hn, hsort]
    have h0 : ({ pops := List.replicate g.demes.length { lo := 0, upd := [⟨0, some N0, some .zero⟩] },
                 mat := List.replicate g.demes.length (List.replicate g.demes.length 0),
                 snaps := [(0, List.replicate g.demes.length (List.replicate g.demes.length 0))] } : StG)
        = s0Of N0 g.demes.length := rfl
    rw [h0]
    simp only [bind, Except.bind, pure, Except.pure]
    rw [hs']
    rfl
  · show popsObs s'.pops = _
    rw [hcore.1]
  · exact hcore.2.2
  · rw [hmoves]; rfl

end Demes.Proofs.ToMs
