/-
  C01, stage 6: every graph `resolve` hands out is valid.

  Stage 4 (V10 from `checkMigrationRates`) is `Proofs.v10_of_checkMigrationRates`
  (`Proofs/MatRates.lean`).
-/
import DemesVerif.Proofs.ResolvePulses
namespace Demes.Proofs.RV
open Demes Demes.Spec

/-- the stages of `Graph.fromdict` -/
theorem resolve_stages {dataV : Value} {g : Graph} (h : resolve dataV = .ok g) :
    ∃ (data dd ged md pd : Obj) (g0 g1 g2 g3 : Graph) (demesList migs pulses : List Obj),
      resolveHeader data = .ok g0 ∧ demesList ≠ []
      ∧ List.foldlM (resolveDeme dd ged) g0 demesList = .ok g1
      ∧ List.foldlM (resolveMigration md) g1 migs = .ok g2
      ∧ checkMigrationRates g2 = .ok ()
      ∧ List.foldlM (resolvePulse pd) g2 pulses = .ok g3
      ∧ g = { g3 with pulses := sortPulses g3.pulses } := by
  unfold resolve at h
  obtain ⟨data, _, h⟩ := bind_ok.1 h
  obtain ⟨_, _, h⟩ := bind_ok.1 h
  obtain ⟨defaults, _, h⟩ := bind_ok.1 h
  obtain ⟨_, _, h⟩ := bind_ok.1 h
  obtain ⟨dd, _, h⟩ := bind_ok.1 h
  obtain ⟨_, _, h⟩ := bind_ok.1 h
  obtain ⟨md, _, h⟩ := bind_ok.1 h
  obtain ⟨_, _, h⟩ := bind_ok.1 h
  obtain ⟨pd, _, h⟩ := bind_ok.1 h
  obtain ⟨_, _, h⟩ := bind_ok.1 h
  obtain ⟨ged, _, h⟩ := bind_ok.1 h
  obtain ⟨_, _, h⟩ := bind_ok.1 h
  obtain ⟨g0, hg0, h⟩ := bind_ok.1 h
  obtain ⟨demesList, _, h⟩ := bind_ok.1 h
  extract_lets jp1 at h
  obtain ⟨hne, h⟩ := ite_verr h
  dsimp -zeta only [jp1] at h
  obtain ⟨g1, hg1, h⟩ := bind_ok.1 h
  obtain ⟨migs, _, h⟩ := bind_ok.1 h
  obtain ⟨g2, hg2, h⟩ := bind_ok.1 h
  obtain ⟨_, hrates, h⟩ := bind_ok.1 h
  obtain ⟨pulses, _, h⟩ := bind_ok.1 h
  obtain ⟨g3, hg3, h⟩ := bind_ok.1 h
  rw [pure_ok] at h
  exact ⟨data, dd, ged, md, pd, g0, g1, g2, g3, demesList, migs, pulses, hg0,
    by simpa using hne, hg1, hg2, hrates, hg3, h.symm⟩

theorem v1_of_inv {g : Graph} (hd : DInv g) (hne : g.demes ≠ []) : v1 g = true := by
  simp only [v1, Bool.and_eq_true, Bool.not_eq_true', decide_eq_true_eq]
  refine ⟨⟨?_, hd.hid⟩, hd.hnd⟩
  cases h : g.demes with
  | nil => exact (hne h).elim
  | cons _ _ => rfl

end Demes.Proofs.RV

namespace Demes.Proofs
open Demes Demes.Spec RV

/-- **C01**: every graph that `resolve` hands out satisfies every clause of the validator. -/
theorem resolve_valid (d : Value) (g : Graph) (h : resolve d = .ok g) : validGraph g = true := by
  obtain ⟨data, dd, ged, md, pd, g0, g1, g2, g3, demesList, migs, pulses, hg0, hne, hg1, hg2, hrates,
    hg3, rfl⟩ := resolve_stages h
  have i0 := Inv2_header hg0
  obtain ⟨i1, hne1⟩ := demeLoop_ok i0 (resolveHeader_ok hg0).2.1 hne hg1
  have i2 := migrationLoop_ok i1 hne1 hg2
  have h10 : v10 g2 = true :=
    v10_of_checkMigrationRates g2 (v1_of_inv i2.d i2.ne) i2.d.h5 i2.d.h6 i2.h8 i2.h9 hrates
  have i3 := pulseLoop_ok i2 h10 hg3
  have hd : DInv { g3 with pulses := sortPulses g3.pulses } := DInv.congr (g := g3) rfl rfl i3.d
  simp only [validGraph, validData, Bool.and_eq_true]
  refine ⟨hd.h0, ⟨⟨⟨⟨⟨⟨⟨⟨⟨⟨⟨v1_of_inv hd i3.ne, hd.h2⟩, hd.h3⟩, hd.h4⟩, hd.h5⟩, hd.h6⟩, ?_⟩, ?_⟩, ?_⟩, ?_⟩, ?_⟩, ?_⟩⟩
  · exact (v8_congr (g := g3) (g' := { g3 with pulses := sortPulses g3.pulses }) rfl rfl).trans i3.h8
  · exact (v9_congr (g := g3) (g' := { g3 with pulses := sortPulses g3.pulses }) rfl).trans i3.h9
  · exact (v10_congr (g := g3) (g' := { g3 with pulses := sortPulses g3.pulses }) rfl rfl).trans i3.h10
  · have h11 := i3.h11
    rw [v11_eq] at h11 ⊢
    show (sortPulses g3.pulses).all _ = true
    rw [(sortPulses_perm g3.pulses).all_eq]
    rw [List.all_eq_true] at h11 ⊢
    intro x hx
    exact (v11body_congr (g := g3) (g' := { g3 with pulses := sortPulses g3.pulses }) rfl x).trans (h11 x hx)
  · show pairwiseB _ (sortPulses g3.pulses) = true
    rw [pairwiseB_iff]
    exact (sortPulses_sorted g3.pulses).imp (fun h => decide_eq_true h)
  · exact v13_congr rfl rfl rfl i3.h13


/-! ### corollaries, clause by clause -/

theorem validGraph_clauses {g : Graph} (h : validGraph g = true) :
    v0 g = true ∧ v1 g = true ∧ v2 g = true ∧ v3 g = true ∧ v4 g = true ∧ v5 g = true ∧ v6 g = true
      ∧ v8 g = true ∧ v9 g = true ∧ v10 g = true ∧ v11 g = true ∧ v12 g = true ∧ v13 g = true := by
  simp only [validGraph, validData, Bool.and_eq_true] at h
  obtain ⟨h0, ⟨⟨⟨⟨⟨⟨⟨⟨⟨⟨⟨h1, h2⟩, h3⟩, h4⟩, h5⟩, h6⟩, h8⟩, h9⟩, h10⟩, h11⟩, h12⟩, h13⟩⟩ := h
  exact ⟨h0, h1, h2, h3, h4, h5, h6, h8, h9, h10, h11, h12, h13⟩

theorem resolve_names_unique (d : Value) (g : Graph) (h : resolve d = .ok g) :
    g.demes ≠ [] ∧ (∀ x ∈ g.demes, isIdentifier x.name = true) ∧ (g.demes.map (·.name)).Nodup := by
  have h1 := (validGraph_clauses (resolve_valid d g h)).2.1
  simp only [v1, Bool.and_eq_true, Bool.not_eq_true', decide_eq_true_eq, List.all_eq_true] at h1
  refine ⟨?_, h1.1.2, h1.2⟩
  intro he
  rw [he] at h1
  exact absurd h1.1.1 (by decide)

theorem resolve_epochs_contiguous (d : Value) (g : Graph) (h : resolve d = .ok g) :
    ∀ x ∈ g.demes, x.epochs ≠ [] ∧ contiguous x.startTime x.epochs = true := by
  have h5 := (validGraph_clauses (resolve_valid d g h)).2.2.2.2.2.1
  simp only [v5, List.all_eq_true, Bool.and_eq_true, Bool.not_eq_true'] at h5
  intro x hx
  refine ⟨?_, (h5 x hx).2⟩
  intro he
  have := (h5 x hx).1
  rw [he] at this
  exact absurd this (by decide)

theorem resolve_migrations_disjoint (d : Value) (g : Graph) (h : resolve d = .ok g) :
    g.migrations.Pairwise (fun a b => a.source = b.source → a.dest = b.dest → disjoint a b = true) := by
  have h9 := (validGraph_clauses (resolve_valid d g h)).2.2.2.2.2.2.2.2.1
  rw [v9, pairwiseB_iff] at h9
  refine h9.imp ?_
  intro a b hab h1 h2
  simpa [h1, h2] using hab

theorem resolve_ingress_le_one (d : Value) (g : Graph) (h : resolve d = .ok g) :
    ∀ t ∈ boundaries g, ∀ x ∈ g.demes, ingressOk (ingressAt g x.name t) = true := by
  have h10 := (validGraph_clauses (resolve_valid d g h)).2.2.2.2.2.2.2.2.2.1
  simp only [v10, List.all_eq_true] at h10
  exact h10

theorem resolve_pulses_sorted (d : Value) (g : Graph) (h : resolve d = .ok g) :
    g.pulses.Pairwise (fun a b => b.time ≤ a.time) := by
  have h12 := (validGraph_clauses (resolve_valid d g h)).2.2.2.2.2.2.2.2.2.2.2.1
  rw [v12, pairwiseB_iff] at h12
  exact h12.imp (fun h => of_decide_eq_true h)

/-! ### V10 at every time -/

theorem ingressAt_congr {g : Graph} (dst : String) (t e : Q)
    (h : ∀ m ∈ g.migrations, activeAt m t = activeAt m e) : ingressAt g dst t = ingressAt g dst e := by
  simp only [ingressAt]
  congr 2
  apply List.filter_congr
  intro m hm
  rw [h m hm]

/-- V10 at every time, not only at the boundaries: the set of active migrations is constant
between consecutive boundaries, and empty before time 0 -/
theorem ingress_all_times {g : Graph} (hv : validGraph g = true) (t : Q) :
    ∀ x ∈ g.demes, ingressOk (ingressAt g x.name t) = true := by
  obtain ⟨_, h1, _, _, _, _, h6, h8, h9, h10, _⟩ := validGraph_clauses hv
  have hf := migFacts_of h1 h6 h8 h9
  rw [v10_iff] at h10
  intro x hx
  by_cases ht : 0 ≤ t
  · obtain ⟨_, hl, hp, hmem⟩ := mmEndTimes_props g.migrations (times_nonneg hf)
    obtain ⟨k, hk⟩ := intervalOf_exists hl ht
    obtain ⟨hklt, _, _⟩ := intervalOf_spec hk
    have hself := intervalOf_self hp hklt
    have hti : ∀ m ∈ g.migrations, TimesIn (mmEndTimes g.migrations) m := by
      intro m hm
      refine ⟨(hmem _).2 (.inl ((mem_migrationTimes _ _).2 ⟨m, hm, .inr rfl⟩)), ?_⟩
      intro q hq
      exact (hmem _).2 (.inl ((mem_migrationTimes _ _).2 ⟨m, hm, .inl hq⟩))
    rw [ingressAt_congr x.name t ((mmEndTimes g.migrations)[k]) (fun m hm => by
      rw [← cov_eq_active hp hk m (hti m hm), ← cov_eq_active hp hself m (hti m hm)])]
    exact h10 _ (mem_boundaries ((hmem _).1 (List.getElem_mem hklt))) x hx
  · have : ingressAt g x.name t = 0 := by
      simp only [ingressAt]
      rw [List.filter_eq_nil_iff.2]
      · rfl
      · intro m hm
        have := mig_end_nonneg hf hm
        simp only [activeAt, Bool.and_eq_true, decide_eq_true_eq, not_and]
        intro _ _ _
        grind
    rw [this]
    decide +kernel

theorem resolve_ingress_all_times (d : Value) (g : Graph) (h : resolve d = .ok g) (t : Q) :
    ∀ x ∈ g.demes, ingressOk (ingressAt g x.name t) = true :=
  ingress_all_times (resolve_valid d g h) t

end Demes.Proofs
