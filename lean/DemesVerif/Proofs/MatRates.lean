/-
  Bridge between the Model's rate check (`Graph._check_migration_rates`) and the Spec clause
  V10, from V1, V6, V8, V9 only.
-/
import DemesVerif.Proofs.Matrices
namespace Demes.Proofs
open Demes Demes.Spec

/-! ### arithmetic: `closeTo1` is `math.isclose(·, 1, rel_tol=1e-9, abs_tol=0)` -/

theorem relTol_pos : (0 : Q) < relTol := by decide +kernel
theorem qabs_one : qabs 1 = 1 := by decide +kernel

theorem one_le_qmax (a : Q) : 1 ≤ qmax a 1 := by
  simp only [qmax]; split <;> grind

theorem qmax_zero_of_nonneg {y : Q} (h : 0 ≤ y) : qmax y 0 = y := by
  simp only [qmax]; split <;> grind

theorem closeTo1_eq (x : Q) : closeTo1 x = iscloseQ x 1 relTol 0 := by
  have h1 := one_le_qmax (qabs x)
  have h2 : 0 ≤ relTol * qmax (qabs x) 1 :=
    Rat.mul_nonneg (Rat.le_of_lt relTol_pos) (by grind)
  simp only [closeTo1, iscloseQ, qabs_one, qmax_zero_of_nonneg h2]

/-- the test applied to each row sum by `_check_migration_rates` -/
def rowBad (s : Q) : Bool := s > 1 && !(iscloseQ s 1 relTol 0)

theorem ingressOk_iff (x : Q) : ingressOk x = true ↔ rowBad x = false := by
  simp only [ingressOk, rowBad, closeTo1_eq]
  cases iscloseQ x 1 relTol 0 <;> simp <;> grind

/-! ### `forM` in `Except` -/

theorem forM_ok_iff {ε α} (f : α → Except ε Unit) : ∀ l : List α,
    l.forM f = .ok () ↔ ∀ x ∈ l, f x = .ok ()
  | [] => by simp [pure, Except.pure]
  | x :: xs => by
    show (f x >>= fun _ => xs.forM f) = _ ↔ _
    cases h : f x with
    | error e => simp [bind, Except.bind, h]
    | ok u => simpa [bind, Except.bind, h] using forM_ok_iff f xs

theorem checkRow_ok_iff (row : List Q) :
    (let s := rowSum row
     if s > 1 && !(iscloseQ s 1 relTol 0) then
       (valueErr "sum of migration rates into deme is greater than 1" : Except Err Unit)
     else pure ()) = .ok () ↔ ingressOk (rowSum row) = true := by
  rw [ingressOk_iff]
  simp only [rowBad]
  split <;> simp_all [valueErr, pure, Except.pure]

theorem checkMigrationRates_eq {g : Graph} {mms : List Matrix} {ends : List Q}
    (h : migrationMatrices g = .ok (mms, ends)) :
    checkMigrationRates g = .ok () ↔ ∀ mm ∈ mms, ∀ row ∈ mm, ingressOk (rowSum row) = true := by
  simp only [checkMigrationRates, h, bind, Except.bind]
  rw [forM_ok_iff]
  constructor
  · intro hh mm hmm row hrow
    exact (checkRow_ok_iff row).mp (((forM_ok_iff _ mm).mp (hh mm hmm)) row hrow)
  · intro hh mm hmm
    exact (forM_ok_iff _ mm).mpr (fun row hrow => (checkRow_ok_iff row).mpr (hh mm hmm row hrow))

/-! ### rows versus boundaries -/

/-- from V1, V6, V8, V9 alone: all row sums pass iff the ingress is within bounds at every
boundary time for every deme -/
theorem rows_ok_iff_ingress {g : Graph} (hf : MigFacts g) {mms : List Matrix} {ends : List Q}
    (h : migrationMatrices g = .ok (mms, ends)) :
    (∀ mm ∈ mms, ∀ row ∈ mm, ingressOk (rowSum row) = true) ↔
      ∀ t ∈ boundaries g, ∀ d ∈ g.demes, ingressOk (ingressAt g d.name t) = true := by
  obtain ⟨mms0, h0, hl, hsh, _⟩ := mm_main g hf
  obtain ⟨_, _, _, hmem⟩ := mmEndTimes_props g.migrations (times_nonneg hf)
  have h' := h
  rw [h0] at h'
  simp only [Except.ok.injEq, Prod.mk.injEq] at h'
  obtain ⟨rfl, rfl⟩ := h'
  constructor
  · intro hrows t ht d hd
    obtain ⟨k, hk⟩ := List.mem_iff_getElem?.mp ((hmem t).mpr (mem_boundaries_iff.mp ht))
    obtain ⟨i, hi⟩ := List.mem_iff_getElem?.mp hd
    have hklt : k < mms0.length := by rw [hl]; exact (List.getElem?_eq_some_iff.mp hk).1
    have hs := hsh mms0[k] (List.getElem_mem _)
    have hilt : i < mms0[k].length := by rw [hs.1]; exact (List.getElem?_eq_some_iff.mp hi).1
    rw [← row_sum_of_facts hf h hk (List.getElem?_eq_getElem hklt) (List.getElem?_eq_getElem hilt) hi]
    exact hrows _ (List.getElem_mem _) _ (List.getElem_mem _)
  · intro hing mm hmm row hrow
    obtain ⟨k, hk⟩ := List.mem_iff_getElem?.mp hmm
    obtain ⟨i, hi⟩ := List.mem_iff_getElem?.mp hrow
    have hs := hsh mm hmm
    have hilt : i < g.demes.length := by rw [← hs.1]; exact (List.getElem?_eq_some_iff.mp hi).1
    have hklt : k < (mmEndTimes g.migrations).length := by
      rw [← hl]; exact (List.getElem?_eq_some_iff.mp hk).1
    rw [row_sum_of_facts hf h (List.getElem?_eq_getElem hklt) hk hi (List.getElem?_eq_getElem hilt)]
    exact hing _ (mem_boundaries_iff.mpr ((hmem _).mp (List.getElem_mem _))) _ (List.getElem_mem _)

/-! ### the bridge -/

/-- `migration_matrices()` does not raise once V1, V6, V8, V9 hold (V5 is not needed) -/
theorem migrationMatrices_ok_of' (g : Graph) (h1 : v1 g = true) (h6 : v6 g = true)
    (h8 : v8 g = true) (h9 : v9 g = true) :
    ∃ mms ends, migrationMatrices g = .ok (mms, ends) := by
  obtain ⟨mms, h, _⟩ := mm_main g (migFacts_of h1 h6 h8 h9)
  exact ⟨mms, _, h⟩

/-- `_check_migration_rates()` passes exactly when V10 holds (given V1, V6, V8, V9; V5 is not
needed) -/
theorem checkMigrationRates_iff_v10' (g : Graph) (h1 : v1 g = true) (h6 : v6 g = true)
    (h8 : v8 g = true) (h9 : v9 g = true) :
    checkMigrationRates g = .ok () ↔ v10 g = true := by
  have hf := migFacts_of h1 h6 h8 h9
  obtain ⟨mms, h, _⟩ := mm_main g hf
  rw [checkMigrationRates_eq h, rows_ok_iff_ingress hf h, v10_iff]

theorem migrationMatrices_ok_of (g : Graph) (h1 : v1 g = true) (_h5 : v5 g = true)
    (h6 : v6 g = true) (h8 : v8 g = true) (h9 : v9 g = true) :
    ∃ mms ends, migrationMatrices g = .ok (mms, ends) :=
  migrationMatrices_ok_of' g h1 h6 h8 h9

theorem checkMigrationRates_iff_v10 (g : Graph) (h1 : v1 g = true) (_h5 : v5 g = true)
    (h6 : v6 g = true) (h8 : v8 g = true) (h9 : v9 g = true) :
    checkMigrationRates g = .ok () ↔ v10 g = true :=
  checkMigrationRates_iff_v10' g h1 h6 h8 h9

theorem v10_of_checkMigrationRates (g : Graph) (h1 : v1 g = true) (h5 : v5 g = true)
    (h6 : v6 g = true) (h8 : v8 g = true) (h9 : v9 g = true)
    (h : checkMigrationRates g = .ok ()) : v10 g = true :=
  (checkMigrationRates_iff_v10 g h1 h5 h6 h8 h9).mp h

theorem checkMigrationRates_of_v10 (g : Graph) (h1 : v1 g = true) (h5 : v5 g = true)
    (h6 : v6 g = true) (h8 : v8 g = true) (h9 : v9 g = true)
    (h : v10 g = true) : checkMigrationRates g = .ok () :=
  (checkMigrationRates_iff_v10 g h1 h5 h6 h8 h9).mpr h

end Demes.Proofs
