/-
  Spec definitions for C04 — dump then load reproduces the graph.

  The text layer (ruamel.yaml / the `json` module) is third-party code: the Model
  (`Model/LoadDump.lean`) abstracts it into a `Codec Text` and its behaviour enters the theorems
  of C04 only through the explicit hypothesis `CodecLaws c` below — a structure of three laws,
  each restricted to the smallest domain the theorems need, `InCodecDomain`: the dictionaries
  `dump` itself hands to the serialiser.  (The test harness checks these laws against the
  installed libraries on exactly this domain.)

  * `jsonSafe g`          the user's `metadata` holds no `inf`, `-inf` or `nan` (`json.dump` is
                          called with `allow_nan=False` and raises `ValueError` on such a number)
  * `InCodecDomain fmt v` `v` is `dumpValue fmt simplified g` for a valid graph `g` (`jsonSafe`
                          if `fmt = json`): `Graph.asdict()` / `Graph.asdict_simplified()`, after
                          `_stringify_infinities` for JSON
  * `CodecLaws c`         what is assumed of the text layer
  * `sameModel g g'`      `g'` is `g` up to the order of the migrations and `coerce_types` on
                          `metadata`
-/
import DemesVerif.Model.LoadDump
import DemesVerif.Spec.Valid
import DemesVerif.Spec.C16
namespace Demes.Spec
open Demes

/-- no `inf`, `-inf`, `nan` anywhere inside the user's `metadata`: the condition under which
`json.dump(..., allow_nan=False)` can write the graph at all -/
def jsonSafe (g : Graph) : Bool := !hasNonFinite (.obj g.metadata)

/-- the values the library hands to the serialiser: the fully-resolved or the simplified
dictionary of a valid graph, for JSON after `_stringify_infinities` and with JSON-safe metadata -/
def InCodecDomain (fmt : Format) (v : Value) : Prop :=
  ∃ (simplified : Bool) (g : Graph), validGraph g = true ∧ (fmt = .json → jsonSafe g = true)
    ∧ v = dumpValue fmt simplified g

/-- What is assumed of the text layer, on the library's own dictionaries only. -/
structure CodecLaws {Text : Type} (c : Codec Text) : Prop where
  /-- writing a dictionary in either format succeeds and parsing the text with the parser of the
  same format gives the dictionary back -/
  par_ser : ∀ (fmt : Format) (v : Value), InCodecDomain fmt v →
    ∃ t, c.ser fmt v = some t ∧ c.par fmt t = some v
  /-- a multi-document YAML stream of any length (0 included) splits back into its documents -/
  parAll_serAll : ∀ vs : List Value, (∀ v ∈ vs, InCodecDomain .yaml v) →
    ∃ t, c.serAll vs = some t ∧ c.parAll t = some vs
  /-- the JSON text of a dictionary, read by the YAML parser, is the same dictionary -/
  yaml_reads_json : ∀ (v : Value) (t : Text), InCodecDomain .json v →
    c.ser .json v = some t → c.par .yaml t = some v

/-- `g'` is the same fully-resolved model as `g`: identical, except that the migrations may be
listed in a different order (the same records as a multiset) and `metadata` has gone through
`coerce_types` (a `bool` became an `int`), as `Graph.asdict` does to every leaf -/
def sameModel (g g' : Graph) : Prop :=
  ∃ ms : List Migration, ms.Perm g.migrations
    ∧ g' = { g with migrations := ms, metadata := coerceO g.metadata }

end Demes.Spec
