/-
  Semantic tie of the guard conditions of `Graph.migration_matrices` and
  `Graph._check_migration_rates` (see `Theorems/TablesGuards.lean` for the method).
-/
import DemesVerif.Generated.Guards
import DemesVerif.Proofs.Guards
namespace Demes.Tables
open Demes Demes.Proofs.Guards
set_option linter.unusedSimpArgs false

theorem guards_sites_matrices : Generated.guardSitesMatrices =
    [("Graph._check_migration_rates", 1, 1), ("Graph.migration_matrices", 4, 1)] := by decide +kernel

theorem guards_context_matrices : Generated.guardContextMatrices =
    [("guard_migration_rates", ["for (v3, v4) in zip(v1, v2)",
        "for (v5, v6) in enumerate(v3)"]),
     ("guard_matrices_break", ["for v5 in self.migrations", "for (v7, v8) in enumerate(v1)"]),
     ("guard_matrices_active", ["for v5 in self.migrations", "for (v7, v8) in enumerate(v1)"]),
     ("guard_matrices_occupied", ["for v5 in self.migrations", "for (v7, v8) in enumerate(v1)",
        "if v8 < v5.start_time"])] := by decide +kernel

/-! ### the inner loop of `Graph.migration_matrices` (Model: `sweep`) -/

/-- `start_time <= migration.end_time` (leave the loop: the migration has ended) -/
theorem guard_matrices_break_meaning (start : ETime) (migEnd : Q) :
    Generated.guard_matrices_break (v6 := Num.ofETime start) (v5_end_time := Num.fin migEnd) = true
      ↔ start ≤ ETime.fin migEnd := by
  unfold Generated.guard_matrices_break
  cases start <;> guard_close

/-- `end_time < migration.start_time` (the interval ending at `end_time` lies inside the migration) -/
theorem guard_matrices_active_meaning (e : Q) (migStart : ETime) :
    Generated.guard_matrices_active (v8 := Num.fin e) (v5_start_time := Num.ofETime migStart) = true
      ↔ ETime.fin e < migStart := by
  unfold Generated.guard_matrices_active
  cases migStart <;> guard_close

/-- `mm_list[k][dest_id][source_id] > 0` (the cell already holds a rate) -/
theorem guard_matrices_occupied_meaning (x : Q) :
    Generated.guard_matrices_occupied (v3_v7_v10_v9 := Num.fin x) = true ↔ x > 0 := by
  unfold Generated.guard_matrices_occupied
  guard_close

theorem guards_tie_sweep : sweep = sweepWith
    (fun s e => Generated.guard_matrices_break (v6 := s) (v5_end_time := e))
    (fun e s => Generated.guard_matrices_active (v8 := e) (v5_start_time := s))
    (fun x => Generated.guard_matrices_occupied (v3_v7_v10_v9 := x)) := by
  funext mig src dst start es mms
  induction es generalizing start mms with
  | nil => simp only [sweep, sweepWith]
  | cons e es ih =>
    cases mms with
    | nil => simp only [sweep, sweepWith]
    | cons mm mms =>
      simp only [sweep, sweepWith, guard_matrices_break_meaning, guard_matrices_active_meaning,
        guard_matrices_occupied_meaning, ih]
      first | done | rfl

theorem guards_tie_migration_matrices : migrationMatrices = migrationMatricesWith
    (fun s e => Generated.guard_matrices_break (v6 := s) (v5_end_time := e))
    (fun e s => Generated.guard_matrices_active (v8 := e) (v5_start_time := s))
    (fun x => Generated.guard_matrices_occupied (v3_v7_v10_v9 := x)) := by
  funext g
  unfold migrationMatrices migrationMatricesWith
  rw [guards_tie_sweep]
  first | done | rfl

/-! ### `Graph._check_migration_rates` (Model: `checkMigrationRates`); `math.isclose(row_sum, 1)`
is an opaque Boolean for the translator, the Model supplies `iscloseQ s 1 relTol 0` (`relTol` is
tied to the source by `tables_rel_tol`) -/

theorem guard_migration_rates_meaning (s : Q) (close : Bool) :
    Generated.guard_migration_rates (sum_v6 := Num.fin s) (isclose_v7_1 := close)
      = (decide (s > 1) && !close) := by
  unfold Generated.guard_migration_rates
  cases close <;> guard_close

theorem guards_tie_check_migration_rates : checkMigrationRates = checkMigrationRatesWith
    (fun s c => Generated.guard_migration_rates (sum_v6 := s) (isclose_v7_1 := c)) := by
  funext g
  unfold checkMigrationRates checkMigrationRatesWith
  simp only [guard_migration_rates_meaning]
  first | done | rfl

/-! ### the `…With` functions really use their guard arguments: the migration a → b on (8, 2] of
`exGraphM` gives end times 8, 2, 0 and the rate 1/10 in the middle matrix only -/

section sensitivity

example : (migrationMatrices exGraphM).toOption
    = some ([[[0, 0], [0, 0]], [[0, 0], [1/10, 0]], [[0, 0], [0, 0]]], [8, 2, 0]) := by decide +kernel
-- leaving the loop at once: nothing is written
example : ((migrationMatricesWith yes2 yes2 (fun _ => false) exGraphM).toOption.map (·.1))
    = some [[[0, 0], [0, 0]], [[0, 0], [0, 0]], [[0, 0], [0, 0]]] := by decide +kernel
-- never leaving, every interval counted as inside the migration: written everywhere
example : ((migrationMatricesWith no2 yes2 (fun _ => false) exGraphM).toOption.map (·.1))
    = some [[[0, 0], [1/10, 0]], [[0, 0], [1/10, 0]], [[0, 0], [1/10, 0]]] := by decide +kernel
-- no interval counted as inside
example : ((migrationMatricesWith no2 no2 (fun _ => false) exGraphM).toOption.map (·.1))
    = some [[[0, 0], [0, 0]], [[0, 0], [0, 0]], [[0, 0], [0, 0]]] := by decide +kernel
-- every cell counted as occupied: the first write raises
example : (migrationMatricesWith no2 yes2 (fun _ => true) exGraphM).isOk = false := by decide +kernel
-- the rates test
example : (checkMigrationRates exGraphM).isOk = true
    ∧ (checkMigrationRatesWith (fun _ _ => true) exGraphM).isOk = false
    ∧ (checkMigrationRatesWith (fun _ _ => false) exGraphM).isOk = true := by decide +kernel
example : (checkMigrationRates { exGraphM with migrations :=
      [{ source := "a", dest := "b", startTime := .fin 8, endTime := 2, rate := 1 }] }).isOk = true := by
  decide +kernel

end sensitivity

end Demes.Tables
