"""C14 — predecessor, successor and discrete-event views are exact views of ancestry."""
from __future__ import annotations

from fractions import Fraction

from props.common import *  # noqa: F401,F403

RULE = ("valid graphs from the generator, whose ancestry DAGs favour the coincidence 'descendant start == ancestor "
        "end'; a case is one graph; non-trivial = at least one deme has ancestors; distinct by ancestry structure")
ASSUMPTIONS = ["children of a Split come out of a Python set: compared as sorted lists"]
EXPLANATION = ("Theorems pred_is_ancestors, succ_is_transpose, pred_succ_total, events_spec(_ordered), events_partition(_count) "
               "over the Lean Model; Model tied to the code by exact comparison; the classification rules re-evaluated "
               "on the code's own output.")


def spec_check(g, pred, succ, ev):
    names = [d.name for d in g.demes]
    if list(pred) != names or list(succ) != names:
        return "pred/succ keys are not the deme names in order"
    for d in g.demes:
        if pred[d.name] != d.ancestors:
            return f"predecessors[{d.name}] != ancestors"
        want = [c.name for c in g.demes if d.name in c.ancestors]
        if succ[d.name] != want:
            return f"successors[{d.name}] is not the transpose"
    if ev["pulses"] != g.pulses:
        return "pulse list changed"
    seen = {}
    for s in ev["splits"]:
        for c in s.children:
            seen.setdefault(c, []).append(("split", s.parent, s.time))
    for b in ev["branches"]:
        seen.setdefault(b.child, []).append(("branch", b.parent, b.time))
    for m in ev["mergers"]:
        seen.setdefault(m.child, []).append(("merger", tuple(m.parents), m.time, tuple(m.proportions)))
    for m in ev["admixtures"]:
        seen.setdefault(m.child, []).append(("admixture", tuple(m.parents), m.time, tuple(m.proportions)))
    for d in g.demes:
        got = seen.get(d.name, [])
        if not d.ancestors:
            if got:
                return f"{d.name} has no ancestors but appears in {got}"
            continue
        if len(got) != 1:
            return f"{d.name} classified {len(got)} times"
        ends = [g[a].end_time for a in d.ancestors]
        if len(d.ancestors) == 1:
            want = ("split" if ends[0] == d.start_time else "branch", d.ancestors[0], d.start_time)
        else:
            kind = "merger" if all(e == d.start_time for e in ends) else "admixture"
            want = (kind, tuple(d.ancestors), d.start_time, tuple(d.proportions))
        if got[0] != want:
            return f"{d.name}: event {got[0]} but expected {want}"
    return None


def run(ctx):
    n = 1200 if ctx.tier == "quick" else 20000
    done = 0
    while done < n and ctx.time_left() > 5:
        batch = gen_valid_graphs(ctx, min(300, n - done), corpus=True, max_demes=7 if ctx.tier == "quick" else 10)
        done += len(batch)
        reqs = []
        for doc, g, _ in batch:
            ga = enc(g.asdict())
            reqs.append({"op": "pred_succ", "graph": ga})
            reqs.append({"op": "events", "graph": ga})
        reps = ctx.driver.batch(reqs)
        for i, (doc, g, _) in enumerate(batch):
            r1, r2 = reps[2 * i], reps[2 * i + 1]
            try:
                pred, succ, ev = g.predecessors(), g.successors(), g.discrete_demographic_events()
            except Exception as e:  # noqa: BLE001  a view of a valid graph must exist
                ctx.count({"names": [d.name for d in g.demes], "raised": True}, True, tags=["view_raised"])
                ctx.violation(f"ancestry views: a view of a valid graph raises {type(e).__name__} ({str(e)[:80]})", {"document": doc},
                              python=py_repro(doc, "g.predecessors(), g.successors(), g.discrete_demographic_events()"))
                continue
            struct = [[d.ancestors, d.start_time in [g[a].end_time for a in d.ancestors]] for d in g.demes]
            ctx.count({"ancestry": struct, "names": [d.name for d in g.demes]}, any(d.ancestors for d in g.demes),
                      tags=[f"splits={len(ev['splits'])}", f"branches={len(ev['branches'])}",
                            f"mergers={len(ev['mergers'])}", f"admixtures={len(ev['admixtures'])}"])
            ctx.compared += 1
            ok = [[k, v] for k, v in pred.items()] == r1["ok"]["pred"] and [[k, v] for k, v in succ.items()] == r1["ok"]["succ"]
            mine = r2.get("ok")
            if mine is None:
                ok = False
            else:
                ok = ok and [canon({"sources": p.sources, "dest": p.dest, "time": p.time, "proportions": p.proportions}) for p in ev["pulses"]] == [dec(p) for p in mine["pulses"]]
                ok = ok and [(s.parent, sorted(s.children), Fraction(s.time)) for s in ev["splits"]] == [(s["parent"], sorted(s["children"]), dec(s["time"])) for s in mine["splits"]]
                ok = ok and [(b.parent, b.child, canon(b.time)) for b in ev["branches"]] == [(b["parent"], b["child"], dec(b["time"])) for b in mine["branches"]]
                for key in ("mergers", "admixtures"):
                    ok = ok and [(b.parents, canon(b.proportions), b.child, canon(b.time)) for b in ev[key]] == [(b["parents"], dec(b["proportions"]), b["child"], dec(b["time"])) for b in mine[key]]
            if not ok:
                ctx.disagreement("pred_succ/events", {"document": doc}, None, [r1, r2])
            why = spec_check(g, pred, succ, ev)
            if why is None and i % 4 == 0 and len(g.demes) > 1:
                # the views of a RENAMED copy of a graph whose views have just been computed (a swap of two names
                # plus a fresh name) must be the views of that copy, not remembered ones
                names = [d.name for d in g.demes]
                mp = {names[0]: names[1], names[1]: names[0]}
                if len(names) > 2:
                    mp[names[2]] = names[2] + "_r"
                try:
                    g2 = g.rename_demes(mp)
                    why2 = spec_check(g2, g2.predecessors(), g2.successors(), g2.discrete_demographic_events())
                except Exception as e:  # noqa: BLE001
                    why2 = f"a view of the renamed graph raises {type(e).__name__}"
                ctx.count({"renamed_views": [d.name for d in g.demes], "map": mp}, True, tags=["views_after_rename"])
                if why2:
                    ctx.violation("ancestry views after rename_demes: " + why2, {"document": doc, "rename": mp},
                                  python=py_repro(doc, f"(lambda h: (h.predecessors(), h.successors(), h.discrete_demographic_events()))((g.predecessors(), g.rename_demes({mp!r}))[1])"))
            if why:
                ctx.violation("ancestry views: " + why, {"document": doc},
                              python=py_repro(doc, "g.predecessors(), g.successors(), g.discrete_demographic_events()"))


def replay(ctx, payload):
    import demes
    g = demes.Graph.fromdict(payload["input"]["document"])
    print(g.predecessors(), g.successors(), g.discrete_demographic_events())
    print(spec_check(g, g.predecessors(), g.successors(), g.discrete_demographic_events()))
    return 0
