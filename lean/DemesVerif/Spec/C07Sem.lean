/-
  Spec for C07, part 2 — the demography denoted by an emitted command (`msSemG`) and its
  comparison with the demography of the graph (`semMatches`, the relation `≈`).

  `Spec.MsSem.msSem` interprets a command given as strings, with rational growth rates.  The
  commands `toMs` emits carry *symbolic* growth rates (`Growth`: `-ln(r)/dt`), so the same
  backwards-time interpreter is written here over the typed option records `parseCmd` reads
  (`msSemG`).  It is the interpreter of `Spec/MsSem.lean` restricted to the options
  `-n -en -g -eg -m -em -es -ej`, with two presentational differences:
  * the size history of a population is recorded as its list of *updates* (time, new size if
    set, new growth rate if set) instead of being evaluated into segments — a symbolic
    exponential is never evaluated;
  * the migration matrix history is the list of matrix snapshots itself (`matAt` reads the
    matrix in force at a time) instead of its run-length encoding.
  The lineage-movement matrices are those of `MsSem` (`Row`, `canonRows`, `Move`).  Units are
  those of `MsSem`: time `4·N0·t`, size `N0·x`, migration rate `M/(4·N0)`; growth rates stay in
  ms units (`α`, per `4·N0` generations).
-/
import DemesVerif.Spec.C07
namespace Demes.Spec.C07
open Demes Demes.Ms
open Demes.Spec.MsSem (Row Mat matGet matSet canonRows Move DemogSem PopSem Seg MigSeg)

/-! ## The observable -/

/-- a change of a population's size and/or growth rate -/
structure Upd where
  t : Q
  size : Option Q
  growth : Option Growth
  deriving DecidableEq, Repr

structure PopG where
  lo : Q
  hi : ETime := .inf
  upd : List Upd
  deriving DecidableEq, Repr

structure PopSemG where
  id : Nat
  lo : Q
  hi : ETime
  upd : List Upd
  deriving DecidableEq, Repr

structure DemogSemG where
  pops : List PopSemG
  /-- chronological snapshots of the migration matrix (entry `[i-1][j-1]`: rate at which a
  lineage of population `i` moves to population `j`, per generation) -/
  snaps : List (Q × Mat)
  moves : List Move
  deriving DecidableEq, Repr

/-! ## The interpreter -/

structure StG where
  pops : List PopG
  mat : Mat
  snaps : List (Q × Mat)
  moves : List Move := []
  deriving Repr

def aliveG (p : PopG) : Bool := p.hi = .inf

def StG.pop (s : StG) (i : Int) : Except String PopG :=
  if i < 1 then throw s!"population index {i}"
  else match s.pops[(i - 1).toNat]? with
    | some p => if aliveG p then pure p else throw s!"population {i} is not available (joined)"
    | none => throw s!"population {i} is not available (out of range)"

def StG.setPop (s : StG) (i : Int) (p : PopG) : StG := { s with pops := s.pops.set (i - 1).toNat p }

def StG.snap (s : StG) (T : Q) (m : Mat) : StG := { s with mat := m, snaps := s.snaps ++ [(T, m)] }

/-- the effect of one option on the populations and the migration matrix -/
def stepSt (N0 : Q) (s : StG) (e : Event Growth) : Except String StG := do
  let T ← match e.t with
    | .fin q => pure (4 * N0 * q)
    | _ => throw "non-finite time"
  let n := s.pops.length
  match e with
  | .popSizeChange _ t i (.fin x) =>
    let p ← s.pop i
    -- `-en` (positive time) also resets the growth rate; `-n` does not
    pure (s.setPop i { p with upd := p.upd ++ [⟨T, some (x * N0), if numPos t then some .zero else none⟩] })
  | .popGrowthRateChange _ _ i a =>
    let p ← s.pop i
    pure (s.setPop i { p with upd := p.upd ++ [⟨T, none, some a⟩] })
  | .migEntryChange _ _ i j (.fin m) =>
    let _ ← s.pop i
    let _ ← s.pop j
    if i = j then throw "diagonal migration entry"
    pure (s.snap T (matSet s.mat (i - 1).toNat (j - 1).toNat (m / (4 * N0))))
  | .split _ _ i (.fin p) =>
    let _ ← s.pop i
    if p < 0 || p > 1 then throw "-es: p outside [0,1]"
    let newPop : PopG := { lo := T, upd := [⟨T, some N0, some .zero⟩] }
    let m := s.mat.map (fun r => r ++ [0]) ++ [List.replicate (n + 1) 0]
    pure (({ s with pops := s.pops ++ [newPop] }).snap T m)
  | .join _ _ i j =>
    let p ← s.pop i
    let _ ← s.pop j
    if i = j then throw "-ej: i = j"
    let m := (List.range n).map (fun a => (List.range n).map (fun b =>
      if a = (i - 1).toNat || b = (i - 1).toNat then 0 else matGet s.mat a b))
    pure ((s.setPop i { p with hi := .fin T }).snap T m)
  | _ => throw "option outside the fragment -n -en -g -eg -m -em -es -ej"

/-- the effect of one option on the lineage-movement matrix of its time group; `n` is the
current number of populations -/
def stepRow (nL : Nat × List (Nat × Row)) (e : Event Growth) : Nat × List (Nat × Row) :=
  match e with
  | .split _ _ i (.fin p) =>
    (nL.1 + 1, nL.2.map (fun (ir : Nat × Row) =>
      let v := ir.2.get i.toNat
      (ir.1, (ir.2.set i.toNat (v * p)).set (nL.1 + 1) (v * (1 - p)))))
  | .join _ _ i j =>
    (nL.1, nL.2.map (fun (ir : Nat × Row) =>
      let v := ir.2.get i.toNat
      (ir.1, (ir.2.set i.toNat 0).add j.toNat v)))
  | _ => nL

/-- identity rows of the populations alive at the start of a time group -/
def rows0 (s : StG) : List (Nat × Row) :=
  ((s.pops.zipIdx).filter (fun pi => aliveG pi.1)).map (fun pi => (pi.2 + 1, [(pi.2 + 1, (1 : Q))]))

/-- all options of one time -/
def stepGroupG (N0 : Q) (s : StG) (group : List (Event Growth)) : Except String StG := do
  let T := 4 * N0 * ((group.head?.map evT).getD 0)
  let s' ← group.foldlM (stepSt N0) s
  if group.any isSplitJoin then
    let rows := canonRows (group.foldl stepRow (s.pops.length, rows0 s)).2
    pure (if rows.isEmpty then s' else { s' with moves := s'.moves ++ [{ time := T, rows := rows }] })
  else pure s'

def insertEv (e : Event Growth) : List (Event Growth) → List (Event Growth)
  | [] => [e]
  | d :: ds => if evT e ≤ evT d then e :: d :: ds else d :: insertEv e ds

/-- maximal runs of options with the same time -/
def groupEv (e : Event Growth) : List (List (Event Growth)) → List (List (Event Growth))
  | (h :: g) :: gs => if evT h = evT e then (e :: h :: g) :: gs else [e] :: (h :: g) :: gs
  | gs => [e] :: gs

def groupsByTime (evs : List (Event Growth)) : List (List (Event Growth)) := evs.foldr groupEv []

/-- the demography a parsed command denotes -/
def msSemG (cmd : MsCmd) (N0 : Q) : Except String DemogSemG := do
  if N0 ≤ 0 then throw "N0 must be positive"
  let n := (cmd.header.map (·.1)).getD 1
  let mat0 : Mat := List.replicate n (List.replicate n 0)
  let s0 : StG := { pops := List.replicate n { lo := 0, upd := [⟨0, some N0, some .zero⟩] }, mat := mat0,
                    snaps := [(0, mat0)] }
  -- options in time order, options of equal time in command-line order
  let evs := cmd.events.foldr insertEv []
  let s ← (groupsByTime evs).foldlM (stepGroupG N0) s0
  let pops : List PopSemG := (s.pops.zipIdx).filterMap (fun (p, k) =>
    if decide (ETime.fin p.lo < p.hi) then some { id := k + 1, lo := p.lo, hi := p.hi, upd := p.upd } else none)
  pure { pops := pops, snaps := s.snaps, moves := s.moves }

/-- the migration matrix in force at time `t`: the last snapshot taken at or before `t` -/
def matAt (snaps : List (Q × Mat)) (t : Q) : Mat :=
  ((snaps.filter (fun tm => decide (tm.1 ≤ t))).getLast?.map (·.2)).getD []

/-! ## The relation `≈` between the demography of a command and the demography of a graph

`gs` is the observable `Spec.MsSem.graphSem` computes for a graph in generations: it fixes the
lifetime `[lo, hi)` of every population.  The command must agree with it on each lifetime
(every initial population of an ms command exists from time 0, so nothing is required of it
before `lo`), must end each population where the graph does, and must not let a lineage enter
a population outside its lifetime. -/

def applyUpd (st : Q × Growth) (u : Upd) : Q × Growth := (u.size.getD st.1, u.growth.getD st.2)

/-- exact size of a graph segment's end point -/
def szQ (s : Sz) : Option Q := if s.expo = 0 then some s.coef else none

/-- the growth rate (ms units) of a graph segment -/
def segGrowth (N0 : Q) (s : Seg) : Option Growth :=
  if s.fn = "constant" || s.fn = "exponential" then
    match szQ s.size, s.sizeOld.bind szQ with
    | some a, some b =>
      if a = b then some .zero
      else match s.t1 with
        | .fin t1 => some (.sym (b / a) ((t1 - s.t0) / (4 * N0)))
        | .inf => none
    | _, _ => none
  else none

/-- walking the segments of a graph population from the present, `st` = (size, growth rate)
reached at the recent end of the segment before the updates scheduled there -/
def segsMatch (N0 : Q) (upd : List Upd) : Q × Growth → List Seg → Bool
  | _, [] => true
  | st, s :: ss =>
    let st' := (upd.filter (fun u => u.t = s.t0)).foldl applyUpd st
    (match szQ s.size, segGrowth N0 s, s.sizeOld.bind szQ with
     | some a, some γ, some b =>
       st'.1 == a && st'.2.eq γ
         && upd.all (fun u => !(decide (s.t0 < u.t) && decide (ETime.fin u.t < s.t1)))
         && segsMatch N0 upd (b, st'.2) ss
     | _, _, _ => false)

/-- the size history `upd` of an ms population realises the segments of graph population `p`
on its lifetime: before `p.lo` the growth rate is never set to a non-zero value (so the size
at `p.lo` is the last size set), and from there on `segsMatch` -/
def popMatch (N0 : Q) (upd : List Upd) (p : PopSem) : Bool :=
  let before := upd.filter (fun u => decide (u.t < p.lo))
  before.all (fun u => u.growth = none || u.growth = some .zero)
    && segsMatch N0 upd (before.foldl applyUpd (0, .zero)) p.segs

def inLife (p : PopSem) (t : Q) : Bool := decide (p.lo ≤ t) && decide (ETime.fin t < p.hi)

/-- a graph migration segment for `(dest, source)` covering `t` -/
def covers (m : MigSeg) (i j : Nat) (t : Q) : Bool :=
  m.dest = i && m.source = j && decide (m.t0 ≤ t) && decide (ETime.fin t < m.t1)

/-- at time `t`, for lineages of population `pi` (inside its lifetime): the rate of moving to
`pj` is the graph's when `pj` exists, and `0` when it does not -/
def migMatchAt (sem : DemogSemG) (gs : DemogSem) (pi pj : PopSem) (t : Q) : Bool :=
  let r := matGet (matAt sem.snaps t) (pi.id - 1) (pj.id - 1)
  if inLife pj t then
    if r = 0 then gs.migs.all (fun m => !covers m pi.id pj.id t)
    else gs.migs.any (fun m => covers m pi.id pj.id t && m.rate = r)
  else r = 0

def finTimes (ts : List ETime) : List Q := ts.filterMap (fun t => match t with | .fin q => some q | .inf => none)

/-- the times at which one of the two step functions can change -/
def migCuts (sem : DemogSemG) (gs : DemogSem) : List Q :=
  0 :: sem.snaps.map (·.1) ++ gs.migs.map (·.t0) ++ finTimes (gs.migs.map (·.t1))
    ++ gs.pops.map (·.lo) ++ finTimes (gs.pops.map (·.hi))

def lifeOf (gs : DemogSem) (i : Nat) : Option PopSem := gs.pops.find? (fun p => p.id = i)

/-- the rows of an ms movement matrix that concern the graph: rows of populations inside their
lifetime (recent side), none of whose entries leaves the lifetimes; `none` = a lineage enters
a population outside its lifetime -/
def restrictRows (gs : DemogSem) (T : Q) (rows : List (Nat × List (Nat × Q))) : Option (List (Nat × List (Nat × Q))) :=
  let keep := rows.filter (fun ir =>
    match lifeOf gs ir.1 with
    | some p => decide (p.lo < T) && decide (ETime.fin T ≤ p.hi)
    | none => false)
  if keep.all (fun ir => ir.2.all (fun jp =>
      match lifeOf gs jp.1 with
      | some p => inLife p T
      | none => false)) then some keep else none

def restrictMoves (gs : DemogSem) : List Move → Option (List Move)
  | [] => some []
  | m :: ms =>
    match restrictRows gs m.time m.rows, restrictMoves gs ms with
    | some rows, some rest => some (if rows.isEmpty then rest else { time := m.time, rows := rows } :: rest)
    | _, _ => none

/-- the same populations, in the graph's deme order, ending where the graph's do, with the
graph's sizes over their lifetimes -/
def popsMatch (N0 : Q) (sem : DemogSemG) (gs : DemogSem) : Bool :=
  sem.pops.map (·.id) == gs.pops.map (·.id)
  && (sem.pops.zip gs.pops).all (fun ab =>
        ab.1.hi == ab.2.hi && decide (ab.1.lo ≤ ab.2.lo) && popMatch N0 ab.1.upd ab.2)

/-- the same migration rates at every time of a population's lifetime, none into a population
outside its lifetime (step functions: checked at every time one of them can change) -/
def migsMatch (sem : DemogSemG) (gs : DemogSem) : Bool :=
  gs.pops.all (fun pi => gs.pops.all (fun pj => pi.id = pj.id ||
    (migCuts sem gs).all (fun t => !inLife pi t || migMatchAt sem gs pi pj t)))

/-- the same lineage movements at every event time -/
def movesMatch (sem : DemogSemG) (gs : DemogSem) : Bool :=
  restrictMoves gs sem.moves == some gs.moves

/-- The ancestry proportions of every deme sum to *exactly* one.  Validity only asks for a sum
within 1e-9 of one; `to_ms` renormalises the proportions (`p_k / sum(p[k:])`), so the lineage
movements of the emitted command are those of the graph only when no renormalisation is
needed (see `toMs_movements_counterexample`). -/
def ExactProportions (g : Graph) : Bool :=
  g.demes.all (fun d => d.proportions.isEmpty || qsumS d.proportions == 1)

/-- `sem ≈ gs` -/
def semMatches (N0 : Q) (sem : DemogSemG) (gs : DemogSem) : Bool :=
  popsMatch N0 sem gs && migsMatch sem gs && movesMatch sem gs

/-- the whole chain on one graph: `toMs`, reading the command back, its demography, the graph's
demography, and the three parts of `≈` (populations, migrations, movements); `none` if one of
the stages fails -/
def toMsDenotes (g : Graph) (N0 : Q) (samples : Option (List Int)) : Option (Bool × Bool × Bool) :=
  match (toMs g N0 samples).toOption.bind parseCmd with
  | some c =>
    match msSemG c N0, Demes.Spec.MsSem.graphSem (inGenerations g) none with
    | .ok sem, .ok gs => some (popsMatch N0 sem gs, migsMatch sem gs, movesMatch sem gs)
    | _, _ => none
  | none => none

/-! ## What `to_ms` does with ancestry proportions whose sum is only close to one

`to_ms` emits, for the `k`-th ancestor of a deme, the fraction `p_k / sum(p[k:])`: the chain of
`-es`/`-ej` it produces moves a lineage to ancestor `k` with probability `p_k / sum(p)`, not
`p_k` — the proportions are renormalised.  (For a single ancestor only `-ej` is emitted: all the
lineages move, whatever the stored proportion.)  Pulse proportions are emitted as they are. -/

/-- a deme with its ancestry proportions divided by their sum; nothing else changes -/
def normDeme (d : Deme) : Deme :=
  { d with proportions := d.proportions.map (fun p => p / qsumS d.proportions) }

/-- the graph with every deme's ancestry proportions `p` replaced by `p / sum p`; demes without
ancestors, epochs, migrations, pulses (and their proportions), header and name index are
unchanged -/
def normalizeProportions (g : Graph) : Graph :=
  { g with demes := g.demes.map normDeme }

/-- `toMsDenotes` against the normalised graph: the command emitted for `g` compared with the
demography of `normalizeProportions g` -/
def toMsDenotesNorm (g : Graph) (N0 : Q) (samples : Option (List Int)) : Option (Bool × Bool × Bool) :=
  match (toMs g N0 samples).toOption.bind parseCmd with
  | some c =>
    match msSemG c N0, Demes.Spec.MsSem.graphSem (inGenerations (normalizeProportions g)) none with
    | .ok sem, .ok gs => some (popsMatch N0 sem gs, migsMatch sem gs, movesMatch sem gs)
    | _, _ => none
  | none => none

end Demes.Spec.C07
