/-
  Support for `Theorems/TablesGuardsRecords.lean` (the semantic tie of the validators of the record
  classes, of `Deme` and of `Graph` to the Model).  Nothing here depends on the generated files.

  * `pySetLen` (`len(set(xs))`) against `List.Nodup`;
  * the pointwise meaning of the Model's validators on document numbers;
  * `addDemeHeaderWith2`, `resolveHeaderWith`: the Model functions written once more with the tests of
    `Deme._check_ancestors` / `_check_proportions` / `__attrs_post_init__` resp. `Graph.__attrs_post_init__`
    abstracted to parameters (see Proofs/Guards.lean for the pattern).
-/
import DemesVerif.Proofs.Guards
import DemesVerif.Model.Records
import DemesVerif.Model.RecordGuards
namespace Demes.Proofs.GuardsRecords
open Demes Obj Demes.Proofs.Guards
set_option linter.unusedSimpArgs false

/-! ### `len(set(xs))` -/

theorem pySetLen_le (xs : List String) : pySetLen xs ≤ xs.length := by
  induction xs with
  | nil => exact Nat.le_refl 0
  | cons x xs ih =>
    simp only [pySetLen, List.length_cons]
    split <;> omega

theorem pySetLen_eq_length_iff (xs : List String) : pySetLen xs = xs.length ↔ xs.Nodup := by
  induction xs with
  | nil => simp [pySetLen]
  | cons x xs ih =>
    have hle := pySetLen_le xs
    simp only [pySetLen, List.length_cons, List.nodup_cons, List.contains_eq_mem, decide_eq_true_eq]
    split
    · rename_i hmem
      constructor
      · intro h; omega
      · intro h; exact absurd hmem h.1
    · rename_i hmem
      constructor
      · intro h; exact ⟨hmem, ih.mp (by omega)⟩
      · intro h; have := ih.mpr h.2; omega

/-- `len(set(xs)) != len(xs)`: some member is repeated -/
theorem pySetLen_ne_length (xs : List String) : (pySetLen xs != xs.length) = !decide xs.Nodup := by
  by_cases h : xs.Nodup
  · simp [h, (pySetLen_eq_length_iff xs).mpr h]
  · have : pySetLen xs ≠ xs.length := fun e => h ((pySetLen_eq_length_iff xs).mp e)
    simp [h, this]

/-! ### the Model's validators on a document number, as Booleans -/

theorem vUnitInterval_isOk (n : Num) :
    (vUnitInterval n).isOk = (Num.le (Num.fin 0) n && Num.le n (Num.fin 1)) := by
  unfold vUnitInterval Num.zero Num.one
  split <;> simp_all [Except.isOk, Except.toBool, pure, Except.pure, valueErr]

theorem vPositive_isOk (n : Num) : (vPositive n).isOk = !Num.le n (Num.fin 0) := by
  unfold vPositive Num.zero
  split <;> simp_all [Except.isOk, Except.toBool, pure, Except.pure, valueErr]

theorem relTol_eq : relTol = (4835703278458517 : Q) / 4835703278458516698824704 := by decide +kernel

/-! ### Model functions with the validators' tests abstracted -/

/-- a validator given by its raising test -/
def vWith (g : Num → Bool) (msg : String) (n : Num) : Except Err Unit :=
  if g n then valueErr msg else pure ()

/-- `Demes.addDemeHeader` with the tests of `Deme`'s own validators abstracted:
`gDup (len(set(ancestors))) (len(ancestors))` and `gOwn name ancestors` (`_check_ancestors`),
`gUnit p` / `gPos p` for each proportion and `gSum (len(proportions)) (sum(proportions))` (`_check_proportions`),
`gLen (len(ancestors)) (len(proportions))` (`__attrs_post_init__`) — each `true` = raise.
(The two tests of `Graph._add_deme` stay as in the Model: they are the subject of `addDemeHeaderWith`.) -/
def addDemeHeaderWith2 (gDup : Nat → Nat → Bool) (gOwn : String → List String → Bool)
    (gUnit gPos : Num → Bool) (gSum : Nat → Num → Bool) (gLen : Nat → Nat → Bool)
    (g : Graph) (nameV descriptionV : Value)
    (ancestorsV proportionsV startTimeV : Option Value) : Except Err Deme := do
  let name ← match nameV with
    | .str s => pure s
    | _ => typeErr "deme name must be a str"
  if g.hasName name then valueErr s!"{name}: field 'name' must be unique"
  let ancVals ← match ancestorsV with
    | none => pure []
    | some v => instList v
  let ancestors ← ancVals.mapM (existingName g)
  let propVals : Option Value := match proportionsV with
    | some v => some v
    | none => none
  let startTime ← match startTimeV with
    | some v => do
        let n ← intOrFloat v
        pure n
    | none =>
      match ancestors with
      | [] => pure Num.pinf
      | [a] => do let d ← getDeme g a; pure (Num.fin d.endTime)
      | _ => valueErr "field 'start_time' not found, but is required for demes with multiple ancestors"
  if ancestors.isEmpty && !startTime.isInf then
    valueErr "field 'ancestors' not found, but is required for demes with a finite 'start_time'"
  ancestors.forM (fun a => do
    let anc ← getDeme g a
    if Num.lt startTime (Num.ofETime anc.startTime) && Num.le (Num.fin anc.endTime) startTime then pure ()
    else valueErr s!"start_time is outside the interval of existence for ancestor '{a}'")
  if !isIdentifier name then valueErr s!"Invalid deme name '{name}'"
  let description ← instStr descriptionV
  vPositive startTime
  let st ← toETime startTime
  if gDup (pySetLen ancestors) ancestors.length then valueErr "duplicate ancestors"
  if gOwn name ancestors then valueErr "deme cannot be its own ancestor"
  let proportions ← match propVals with
    | none => pure (if ancestors.length = 1 then [(1 : Q)] else [])
    | some v => do
      let xs ← instList v
      let ns ← xs.mapM intOrFloat
      let qs ← ns.mapM (fun n => do
        vWith gUnit "must have 0 <= x <= 1" n; vWith gPos "must be greater than zero" n; toQ n)
      pure qs
  if gSum proportions.length (Num.fin (qsum proportions)) then
    valueErr "ancestry proportions must sum to 1.0"
  if gLen ancestors.length proportions.length then
    valueErr "ancestors and proportions have different lengths" else
  pure { name, description, startTime := st, ancestors, proportions, epochs := [] }

/-- `Demes.resolveHeader` with the two tests of `Graph.__attrs_post_init__` abstracted:
`gNeed time_units (generation_time is None)` before the default `generation_time = 1` is filled in,
`gGen time_units generation_time` after it -/
def resolveHeaderWith (gNeed : String → Bool → Bool) (gGen : String → Num → Bool) (data : Obj) :
    Except Err Graph := do
  let description ← instStr ((lookup "description" data).getD (.str ""))
  let timeUnits ← match lookup "time_units" data with
    | none => keyErr "toplevel: required field 'time_units' not found"
    | some v => instStr v
  if timeUnits.isEmpty then valueErr "time_units must be a non-empty string"
  let gt ← match lookupNN "generation_time" data with
    | none => pure none
    | some v => do let q ← posFiniteQ v; pure (some q)
  let doiRaw ← instList ((lookup "doi" data).getD (.list []))
  let doi ← doiRaw.mapM (fun v => do
    let s ← instStr v
    if s.isEmpty then valueErr "doi must be a non-empty string" else pure s)
  let metadata ← instObj ((lookup "metadata" data).getD (.obj []))
  if gNeed timeUnits gt.isNone then
    valueErr "if time_units!=\"generations\", generation_time must be specified"
  let gt' := gt.getD 1
  if gGen timeUnits (Num.fin gt') then
    valueErr "time_units==\"generations\", but generation_time!=1"
  pure { emptyGraph with description, timeUnits, generationTime := gt', doi, metadata }

end Demes.Proofs.GuardsRecords
