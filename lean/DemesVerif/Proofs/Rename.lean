/-
  Proofs for C15: `Graph.rename_demes` yields an isomorphic, fully usable graph.
-/
import DemesVerif.Spec.C15
import DemesVerif.Proofs.Matrices
import Mathlib.Data.List.Nodup
namespace Demes.Proofs
open Demes Demes.Spec

/-! ### generic list helpers -/

theorem find?_congr_rn {α} {p q : α → Bool} {l : List α} (h : ∀ x ∈ l, p x = q x) :
    l.find? p = l.find? q := by
  induction l with
  | nil => rfl
  | cons a l ih =>
    have ha := h a (List.mem_cons_self)
    have hl : ∀ x ∈ l, p x = q x := fun x hx => h x (List.mem_cons_of_mem _ hx)
    simp only [List.find?_cons, ha, ih hl]

theorem all_congr' {α} {p q : α → Bool} {l : List α} (h : ∀ x ∈ l, p x = q x) :
    l.all p = l.all q := by
  induction l with
  | nil => rfl
  | cons a l ih =>
    have ha := h a (List.mem_cons_self)
    have hl : ∀ x ∈ l, p x = q x := fun x hx => h x (List.mem_cons_of_mem _ hx)
    simp only [List.all_cons, ha, ih hl]

theorem filter_congr' {α} {p q : α → Bool} {l : List α} (h : ∀ x ∈ l, p x = q x) :
    l.filter p = l.filter q := by
  induction l with
  | nil => rfl
  | cons a l ih =>
    have ha := h a (List.mem_cons_self)
    have hl : ∀ x ∈ l, p x = q x := fun x hx => h x (List.mem_cons_of_mem _ hx)
    simp only [List.filter_cons, ha, ih hl]

/-- `pairwiseB` of a mapped list, when the relation is preserved on the elements of the list -/
theorem pairwiseB_map {α β} (f : α → β) (R : α → α → Bool) (R' : β → β → Bool) (l : List α)
    (h : ∀ a ∈ l, ∀ b ∈ l, R' (f a) (f b) = R a b) :
    pairwiseB R' (l.map f) = pairwiseB R l := by
  induction l with
  | nil => rfl
  | cons a l ih =>
    have hl : ∀ x ∈ l, ∀ y ∈ l, R' (f x) (f y) = R x y :=
      fun x hx y hy => h x (List.mem_cons_of_mem _ hx) y (List.mem_cons_of_mem _ hy)
    have ha : ∀ y ∈ l, (R' (f a) ∘ f) y = R a y :=
      fun y hy => h a List.mem_cons_self y (List.mem_cons_of_mem _ hy)
    simp only [List.map_cons, pairwiseB, List.all_map, ih hl, all_congr' ha]

/-! ### the renamed graph, field by field -/

theorem rename_demes_eq (g : Graph) (r : Renaming) :
    (renameDemes g r).demes = g.demes.map (renamedDeme r) := rfl
theorem rename_migrations_eq (g : Graph) (r : Renaming) :
    (renameDemes g r).migrations = g.migrations.map (renamedMigration r) := rfl
theorem rename_pulses_eq (g : Graph) (r : Renaming) :
    (renameDemes g r).pulses = g.pulses.map (renamedPulse r) := rfl
theorem rename_index_eq (g : Graph) (r : Renaming) :
    (renameDemes g r).index = rebuildIndex (g.demes.map (renamedDeme r)) := rfl

theorem renamedDeme_endTime (r : Renaming) (d : Deme) : (renamedDeme r d).endTime = d.endTime := rfl

/-! ### injectivity of a legitimate renaming on the names of the graph -/

/-- `r.apply` is injective on the names of the demes of `g` -/
def InjNames (g : Graph) (r : Renaming) : Prop :=
  ∀ a ∈ nameList g, ∀ b ∈ nameList g, r.apply a = r.apply b → a = b

theorem renameOK_inj {g : Graph} {r : Renaming} (h : RenameOK g r) : InjNames g r := by
  have hn : ((nameList g).map r.apply).Nodup := by
    have := h.2.2.1
    simpa only [nameList, List.map_map, Function.comp_def] using this
  intro a ha b hb hab
  exact List.inj_on_of_nodup_map hn ha hb hab

theorem mem_nameList {g : Graph} {d : Deme} (h : d ∈ g.demes) : d.name ∈ nameList g :=
  List.mem_map_of_mem h

theorem mem_nameList_iff {g : Graph} {n : String} : n ∈ nameList g ↔ ∃ d ∈ g.demes, d.name = n := by
  simp only [nameList, List.mem_map]

/-! ### `findDeme` -/

theorem findDeme_some_rn {g : Graph} {n : String} {d : Deme} (h : findDeme g n = some d) :
    d ∈ g.demes ∧ d.name = n := by
  refine ⟨List.mem_of_find?_eq_some h, ?_⟩
  have := List.find?_some h
  simpa using this

theorem findDeme_name_mem {g : Graph} {n : String} {d : Deme} (h : findDeme g n = some d) :
    n ∈ nameList g := by
  obtain ⟨hm, hn⟩ := findDeme_some_rn h
  exact hn ▸ mem_nameList hm

/-- in the renamed graph, the image of a name finds the image of the deme -/
theorem findDeme_rename {g : Graph} {r : Renaming} (hi : InjNames g r) {n : String}
    (hn : n ∈ nameList g) :
    findDeme (renameDemes g r) (r.apply n) = (findDeme g n).map (renamedDeme r) := by
  unfold findDeme
  rw [rename_demes_eq, List.find?_map]
  congr 1
  apply find?_congr_rn
  intro d hd
  simp only [Function.comp_def, renamedDeme]
  by_cases h : d.name = n
  · simp [h]
  · have : r.apply d.name ≠ r.apply n := fun e => h (hi _ (mem_nameList hd) _ hn e)
    simp [h, this]

/-! ### the clauses that do not look at names: V4, V5, V6, V12, V13 -/

section clauses
variable {g : Graph} {r : Renaming}

theorem rename_v4 (h : v4 g = true) : v4 (renameDemes g r) = true := by
  unfold v4 at h ⊢
  rw [rename_demes_eq, List.all_map]
  rw [← h]
  apply all_congr'
  intro d _
  simp only [Function.comp_def, renamedDeme, List.length_map]

theorem rename_v5 (h : v5 g = true) : v5 (renameDemes g r) = true := by
  unfold v5 at h ⊢
  rw [rename_demes_eq, List.all_map]
  exact h

theorem rename_v6 (h : v6 g = true) : v6 (renameDemes g r) = true := by
  unfold v6 at h ⊢
  rw [rename_demes_eq, List.all_map]
  exact h

theorem rename_v12 (h : v12 g = true) : v12 (renameDemes g r) = true := by
  unfold v12 at h ⊢
  rw [rename_pulses_eq, pairwiseB_map (renamedPulse r) (fun a b => decide (b.time ≤ a.time))]
  · exact h
  · intros; rfl

theorem rename_v13 (h : v13 g = true) : v13 (renameDemes g r) = true := h

/-! ### V1 -/

theorem rename_v1 (h : v1 g = true) (hr : RenameOK g r) : v1 (renameDemes g r) = true := by
  unfold v1 at h ⊢
  simp only [Bool.and_eq_true, decide_eq_true_eq, List.all_eq_true, Bool.not_eq_true',
    List.isEmpty_eq_false_iff] at h ⊢
  rw [rename_demes_eq]
  refine ⟨⟨?_, ?_⟩, ?_⟩
  · intro e; exact h.1.1 (List.map_eq_nil_iff.mp e)
  · intro d hd
    obtain ⟨d0, hd0, rfl⟩ := List.mem_map.mp hd
    exact hr.2.2.2 d0 hd0
  · have := hr.2.2.1
    simpa only [List.map_map, Function.comp_def, renamedDeme] using this

/-! ### V3 -/

theorem v3_anc (h : v3 g = true) {d : Deme} (hd : d ∈ g.demes) {a : String} (ha : a ∈ d.ancestors) :
    ∃ anc, findDeme g a = some anc := by
  unfold v3 at h
  simp only [List.all_eq_true, Bool.and_eq_true] at h
  have := (h d hd).1.1 a ha
  split at this
  · exact ⟨_, by assumption⟩
  · exact absurd this (by simp)

theorem anc_mem_names (h : v3 g = true) {d : Deme} (hd : d ∈ g.demes) {a : String}
    (ha : a ∈ d.ancestors) : a ∈ nameList g := by
  obtain ⟨anc, hf⟩ := v3_anc h hd ha
  exact findDeme_name_mem hf

theorem rename_v3 (h : v3 g = true) (hi : InjNames g r) : v3 (renameDemes g r) = true := by
  have h' := h
  unfold v3 at h ⊢
  rw [rename_demes_eq, List.all_map]
  rw [List.all_eq_true] at h ⊢
  intro d hd
  have hd' := h d hd
  simp only [Bool.and_eq_true] at hd'
  obtain ⟨⟨h1, h2⟩, h3⟩ := hd'
  simp only [Function.comp_def, Bool.and_eq_true]
  refine ⟨⟨?_, ?_⟩, h3⟩
  · show (d.ancestors.map r.apply).all _ = true
    rw [List.all_map, List.all_eq_true]
    rw [List.all_eq_true] at h1
    intro a ha
    have h1a := h1 a ha
    obtain ⟨anc, hf⟩ := v3_anc h' hd ha
    simp only [Function.comp_def, findDeme_rename hi (findDeme_name_mem hf), hf, Option.map_some] at h1a ⊢
    exact h1a
  · show ((d.ancestors.map r.apply).isEmpty == d.startTime.isInf) = true
    rw [List.isEmpty_map]; exact h2

/-! ### V2 -/

theorem fst_mem_of_mem_zipIdx {α} {l : List α} {x : α} {i k : Nat} (h : (x, i) ∈ l.zipIdx k) : x ∈ l := by
  obtain ⟨_, _, e⟩ := List.mem_zipIdx h
  rw [e]; exact List.getElem_mem _

theorem rename_v2 (h : v2 g = true) (h3 : v3 g = true) (hi : InjNames g r) :
    v2 (renameDemes g r) = true := by
  unfold v2 at h ⊢
  rw [rename_demes_eq, List.zipIdx_map, List.all_map]
  rw [List.all_eq_true] at h ⊢
  rintro ⟨d, i⟩ hdi
  have hd : d ∈ g.demes := fst_mem_of_mem_zipIdx hdi
  have hdi' := h (d, i) hdi
  simp only [Bool.and_eq_true, decide_eq_true_eq, Bool.not_eq_true', List.all_eq_true] at hdi'
  obtain ⟨⟨h1, h2⟩, h4⟩ := hdi'
  simp only [Function.comp_def, Prod.map, id, Bool.and_eq_true, decide_eq_true_eq, Bool.not_eq_true']
  refine ⟨⟨?_, ?_⟩, ?_⟩
  · show (d.ancestors.map r.apply).all _ = true
    rw [List.all_map, List.all_eq_true]
    intro a ha
    have h1a := h1 a ha
    rw [List.any_eq_true] at h1a
    obtain ⟨e, he, hea⟩ := h1a
    simp only [Function.comp_def, List.any_eq_true]
    refine ⟨renamedDeme r e, ?_, ?_⟩
    · rw [← List.map_take]; exact List.mem_map_of_mem he
    · simp only [decide_eq_true_eq] at hea ⊢
      show r.apply e.name = r.apply a
      rw [hea]
  · show (d.ancestors.map r.apply).Nodup
    apply List.Nodup.map_on _ h2
    intro a ha b hb hab
    exact hi a (anc_mem_names h3 hd ha) b (anc_mem_names h3 hd hb) hab
  · show (d.ancestors.map r.apply).contains (r.apply d.name) = false
    rw [List.contains_eq_mem, decide_eq_false_iff_not, List.mem_map]
    rintro ⟨a, ha, hab⟩
    have : a = d.name := hi a (anc_mem_names h3 hd ha) _ (mem_nameList hd) hab
    rw [List.contains_eq_mem, decide_eq_false_iff_not] at h4
    exact h4 (this ▸ ha)

/-! ### V8 -/

theorem v8_ends (h : v8 g = true) {m : Migration} (hm : m ∈ g.migrations) :
    ∃ s d, findDeme g m.source = some s ∧ findDeme g m.dest = some d := by
  unfold v8 at h
  have := List.all_eq_true.mp h m hm
  simp only [Bool.and_eq_true] at this
  obtain ⟨_, h2⟩ := this
  split at h2
  · exact ⟨_, _, by assumption, by assumption⟩
  · exact absurd h2 (by simp)

theorem mig_source_mem (h : v8 g = true) {m : Migration} (hm : m ∈ g.migrations) :
    m.source ∈ nameList g := by
  obtain ⟨s, d, hs, hd⟩ := v8_ends h hm
  exact findDeme_name_mem hs

theorem mig_dest_mem (h : v8 g = true) {m : Migration} (hm : m ∈ g.migrations) :
    m.dest ∈ nameList g := by
  obtain ⟨s, d, hs, hd⟩ := v8_ends h hm
  exact findDeme_name_mem hd

theorem rename_v8 (h : v8 g = true) (hi : InjNames g r) : v8 (renameDemes g r) = true := by
  have h' := h
  unfold v8 at h ⊢
  rw [rename_migrations_eq, List.all_map]
  rw [List.all_eq_true] at h ⊢
  intro m hm
  have hm' := h m hm
  obtain ⟨s, d, hs, hd⟩ := v8_ends h' hm
  have hsn := findDeme_name_mem hs
  have hdn := findDeme_name_mem hd
  simp only [hs, hd, Bool.and_eq_true, bne_iff_ne, ne_eq] at hm'
  obtain ⟨h1, h2⟩ := hm'
  simp only [Function.comp_def, renamedMigration, findDeme_rename hi hsn, findDeme_rename hi hdn,
    hs, hd, Option.map_some, Bool.and_eq_true, bne_iff_ne, ne_eq]
  refine ⟨fun e => h1 (hi _ hsn _ hdn e), ?_⟩
  exact h2

/-! ### V9, V10 -/

theorem apply_beq (hi : InjNames g r) {a b : String} (ha : a ∈ nameList g) (hb : b ∈ nameList g) :
    (r.apply a == r.apply b) = (a == b) := by
  by_cases e : a = b
  · subst e; simp
  · have : r.apply a ≠ r.apply b := fun e' => e (hi a ha b hb e')
    simp [e, this]

theorem rename_v9 (h : v9 g = true) (h8 : v8 g = true) (hi : InjNames g r) :
    v9 (renameDemes g r) = true := by
  unfold v9 at h ⊢
  rw [rename_migrations_eq, pairwiseB_map (renamedMigration r)
    (fun a b => !(a.source == b.source && a.dest == b.dest) || disjoint a b)]
  · exact h
  · intro a ha b hb
    show (!(r.apply a.source == r.apply b.source && r.apply a.dest == r.apply b.dest)
      || disjoint a b) = _
    rw [apply_beq hi (mig_source_mem h8 ha) (mig_source_mem h8 hb),
      apply_beq hi (mig_dest_mem h8 ha) (mig_dest_mem h8 hb)]

theorem rename_boundaries : boundaries (renameDemes g r) = boundaries g := by
  unfold boundaries
  rw [rename_migrations_eq, List.map_map, List.filterMap_map]
  rfl

theorem rename_ingressAt (h8 : v8 g = true) (hi : InjNames g r) {n : String} (hn : n ∈ nameList g)
    (t : Q) : ingressAt (renameDemes g r) (r.apply n) t = ingressAt g n t := by
  unfold ingressAt
  rw [rename_migrations_eq, List.filter_map, List.map_map]
  have e : g.migrations.filter ((fun m => m.dest == r.apply n && activeAt m t) ∘ renamedMigration r)
      = g.migrations.filter (fun m => m.dest == n && activeAt m t) := by
    apply filter_congr'
    intro m hm
    show (r.apply m.dest == r.apply n && activeAt m t) = _
    rw [apply_beq hi (mig_dest_mem h8 hm) hn]
  rw [e]
  rfl

theorem rename_v10 (h : v10 g = true) (h8 : v8 g = true) (hi : InjNames g r) :
    v10 (renameDemes g r) = true := by
  unfold v10 at h ⊢
  rw [rename_boundaries, rename_demes_eq]
  rw [List.all_eq_true] at h ⊢
  intro t ht
  have := h t ht
  rw [List.all_map]
  rw [List.all_eq_true] at this ⊢
  intro d hd
  show ingressOk (ingressAt (renameDemes g r) (r.apply d.name) t) = true
  rw [rename_ingressAt h8 hi (mem_nameList hd)]
  exact this d hd

/-! ### V11 -/

theorem v11_ends (h : v11 g = true) {p : Pulse} (hp : p ∈ g.pulses) :
    ∃ d, findDeme g p.dest = some d ∧ ∀ s ∈ p.sources, ∃ sd, findDeme g s = some sd := by
  unfold v11 at h
  have := List.all_eq_true.mp h p hp
  simp only [Bool.and_eq_true] at this
  obtain ⟨_, h2⟩ := this
  split at h2
  · exact absurd h2 (by simp)
  · rename_i d hd
    refine ⟨d, hd, ?_⟩
    simp only [Bool.and_eq_true, List.all_eq_true] at h2
    intro s hs
    have := h2.2 s hs
    split at this
    · exact absurd this (by simp)
    · exact ⟨_, by assumption⟩

theorem pulse_dest_mem (h : v11 g = true) {p : Pulse} (hp : p ∈ g.pulses) : p.dest ∈ nameList g := by
  obtain ⟨d, hd, _⟩ := v11_ends h hp
  exact findDeme_name_mem hd

theorem pulse_source_mem (h : v11 g = true) {p : Pulse} (hp : p ∈ g.pulses) {s : String}
    (hs : s ∈ p.sources) : s ∈ nameList g := by
  obtain ⟨d, _, h2⟩ := v11_ends h hp
  obtain ⟨sd, hsd⟩ := h2 s hs
  exact findDeme_name_mem hsd

theorem rename_v11 (h : v11 g = true) (hi : InjNames g r) : v11 (renameDemes g r) = true := by
  have h' := h
  unfold v11 at h ⊢
  rw [rename_pulses_eq, List.all_map]
  rw [List.all_eq_true] at h ⊢
  intro p hp
  have hp' := h p hp
  obtain ⟨d, hd, hsrc⟩ := v11_ends h' hp
  have hdn := findDeme_name_mem hd
  simp only [hd, Bool.and_eq_true, decide_eq_true_eq, Bool.not_eq_true', List.all_eq_true] at hp'
  obtain ⟨⟨⟨⟨⟨⟨⟨h1, h2⟩, h3⟩, h4⟩, h5⟩, h6⟩, h7⟩, h8, h9⟩ := hp'
  simp only [Function.comp_def, renamedPulse, findDeme_rename hi hdn, hd, Option.map_some,
    Bool.and_eq_true, decide_eq_true_eq, Bool.not_eq_true', List.all_eq_true, List.isEmpty_map,
    List.length_map]
  refine ⟨⟨⟨⟨⟨⟨⟨h1, decide_eq_true ?_⟩, ?_⟩, h4⟩, h5⟩, decide_eq_true h6⟩, decide_eq_true h7⟩, h8, ?_⟩
  · apply List.Nodup.map_on _ h2
    intro a ha b hb hab
    exact hi a (pulse_source_mem h' hp ha) b (pulse_source_mem h' hp hb) hab
  · rw [List.contains_eq_mem, decide_eq_false_iff_not, List.mem_map]
    rintro ⟨a, ha, hab⟩
    have : a = p.dest := hi a (pulse_source_mem h' hp ha) _ hdn hab
    rw [List.contains_eq_mem, decide_eq_false_iff_not] at h3
    exact h3 (this ▸ ha)
  · intro s' hs'
    obtain ⟨s, hs, rfl⟩ := List.mem_map.mp hs'
    have h9s := h9 s hs
    obtain ⟨sd, hsd⟩ := hsrc s hs
    simp only [hsd] at h9s
    simp only [findDeme_rename hi (findDeme_name_mem hsd), hsd, Option.map_some]
    exact h9s

/-! ### all data clauses together -/

/-- everything but the name index is valid after any legitimate renaming (swaps included) -/
theorem rename_data_valid (g : Graph) (r : Renaming) (hd : validData g = true) (hr : RenameOK g r) :
    validData (renameDemes g r) = true := by
  have hi := renameOK_inj hr
  unfold validData at hd ⊢
  simp only [Bool.and_eq_true] at hd ⊢
  obtain ⟨⟨⟨⟨⟨⟨⟨⟨⟨⟨⟨h1, h2⟩, h3⟩, h4⟩, h5⟩, h6⟩, h8⟩, h9⟩, h10⟩, h11⟩, h12⟩, h13⟩ := hd
  exact ⟨⟨⟨⟨⟨⟨⟨⟨⟨⟨⟨rename_v1 h1 hr, rename_v2 h2 h3 hi⟩, rename_v3 h3 hi⟩, rename_v4 h4⟩,
    rename_v5 h5⟩, rename_v6 h6⟩, rename_v8 h8 hi⟩, rename_v9 h9 h8 hi⟩, rename_v10 h10 h8 hi⟩,
    rename_v11 h11 hi⟩, rename_v12 h12⟩, rename_v13 h13⟩

end clauses

/-! ### the rebuilt name index -/

/-- the index a graph with demes `ds` should have (clause V0) -/
def expectedIndex (ds : List Deme) : List (String × Nat) := ds.zipIdx.map (fun (d, i) => (d.name, i))

theorem v0_iff (g : Graph) : v0 g = true ↔ g.index = expectedIndex g.demes := by
  unfold v0 expectedIndex
  exact beq_iff_eq

theorem rebuild_fold (l : List (Deme × Nat)) (acc : List (String × Nat))
    (hn : (l.map (fun di => di.1.name)).Nodup)
    (hacc : ∀ di ∈ l, ∀ kv ∈ acc, kv.1 ≠ di.1.name) :
    l.foldl (fun idx (di : Deme × Nat) =>
      if idx.any (fun kv => kv.1 = di.1.name) then
        idx.map (fun kv => if kv.1 = di.1.name then (kv.1, di.2) else kv)
      else idx ++ [(di.1.name, di.2)]) acc
    = acc ++ l.map (fun di => (di.1.name, di.2)) := by
  induction l generalizing acc with
  | nil => simp
  | cons di l ih =>
    have hany : acc.any (fun kv => decide (kv.1 = di.1.name)) = false := by
      rw [List.any_eq_false]
      intro kv hkv
      simpa using hacc di List.mem_cons_self kv hkv
    rw [List.foldl_cons, if_neg (by rw [hany]; simp)]
    rw [List.map_cons, List.nodup_cons] at hn
    rw [ih _ hn.2]
    · simp
    · intro dj hdj kv hkv
      rcases List.mem_append.mp hkv with hkv | hkv
      · exact hacc dj (List.mem_cons_of_mem _ hdj) kv hkv
      · rw [List.mem_singleton] at hkv
        subst hkv
        intro e
        exact hn.1 (List.mem_map.mpr ⟨dj, hdj, e.symm⟩)

/-- with pairwise distinct names the dict comprehension lists each name once, in deme order,
with its position -/
theorem rebuildIndex_eq (ds : List Deme) (hn : (ds.map (·.name)).Nodup) :
    rebuildIndex ds = expectedIndex ds := by
  unfold rebuildIndex expectedIndex
  rw [rebuild_fold ds.zipIdx [] ?_ (by simp)]
  · simp
  · have : ds.zipIdx.map (fun di => di.1.name) = ds.map (·.name) := by
      have e : ds.zipIdx.map (fun di => di.1.name) = (ds.zipIdx.map Prod.fst).map (·.name) := by
        rw [List.map_map]; rfl
      rw [e, List.zipIdx_map_fst]
    rw [this]; exact hn

/-- V0 after renaming: the index is rebuilt from the renamed demes, whose names are distinct -/
theorem rename_index (g : Graph) (r : Renaming) (hr : RenameOK g r) : v0 (renameDemes g r) = true := by
  rw [v0_iff, rename_index_eq, rename_demes_eq]
  apply rebuildIndex_eq
  have := hr.2.2.1
  simpa only [List.map_map, Function.comp_def, renamedDeme] using this

theorem rename_valid (g : Graph) (r : Renaming) (hv : validGraph g = true) (hr : RenameOK g r) :
    validGraph (renameDemes g r) = true := by
  unfold validGraph at hv ⊢
  rw [Bool.and_eq_true] at hv ⊢
  exact ⟨rename_index g r hr, rename_data_valid g r hv.2 hr⟩

/-! ### lookup through the index of a valid graph -/

theorem expectedIndex_find (ds : List Deme) (k : Nat) (hn : (ds.map (·.name)).Nodup) {i : Nat} {d : Deme}
    (hi : ds[i]? = some d) :
    ((ds.zipIdx k).map (fun (d, i) => (d.name, i))).find? (fun kv => kv.1 = d.name)
      = some (d.name, k + i) := by
  induction ds generalizing k i with
  | nil => simp at hi
  | cons e ds ih =>
    rw [List.map_cons, List.nodup_cons] at hn
    cases i with
    | zero =>
      simp only [List.getElem?_cons_zero, Option.some.injEq] at hi
      subst hi
      simp
    | succ j =>
      simp only [List.getElem?_cons_succ] at hi
      have hne : e.name ≠ d.name := by
        intro e'
        exact hn.1 (e' ▸ List.mem_map_of_mem (List.mem_of_getElem? hi))
      simp only [List.zipIdx_cons, List.map_cons, List.find?_cons, hne, decide_false]
      rw [ih (k + 1) hn.2 hi]
      congr 2
      omega

/-- `graph[name]` in a graph satisfying V0 and V1 returns the deme of that name -/
theorem deme?_of_valid {g : Graph} (h0 : v0 g = true) (hn : (g.demes.map (·.name)).Nodup)
    {d : Deme} (hd : d ∈ g.demes) : g.deme? d.name = some d := by
  obtain ⟨i, hi⟩ := List.getElem?_of_mem hd
  rw [v0_iff] at h0
  unfold Graph.deme? Graph.indexLookup
  rw [h0]
  unfold expectedIndex
  rw [expectedIndex_find g.demes 0 hn hi]
  simpa using hi

/-- `name in graph` in a graph satisfying V0 holds exactly for the names of its demes -/
theorem hasName_iff_of_v0 {g : Graph} (h0 : v0 g = true) (x : String) :
    g.hasName x = true ↔ x ∈ nameList g := by
  rw [v0_iff] at h0
  unfold Graph.hasName Graph.indexLookup
  rw [h0, Option.isSome_map, List.find?_isSome]
  unfold expectedIndex nameList
  constructor
  · rintro ⟨kv, hkv, hx⟩
    obtain ⟨⟨d, i⟩, hdi, rfl⟩ := List.mem_map.mp hkv
    simp only [decide_eq_true_eq] at hx
    exact List.mem_map.mpr ⟨d, fst_mem_of_mem_zipIdx hdi, hx⟩
  · intro hx
    obtain ⟨d, hd, rfl⟩ := List.mem_map.mp hx
    obtain ⟨i, hi⟩ := List.getElem?_of_mem hd
    refine ⟨(d.name, i), List.mem_map.mpr ⟨(d, i), ?_, rfl⟩, by simp⟩
    rw [List.mem_iff_getElem?]
    exact ⟨i, by simp [List.getElem?_zipIdx, hi]⟩

theorem deme?_none_of_not_hasName {g : Graph} {x : String} (h : g.hasName x = false) :
    g.deme? x = none := by
  unfold Graph.hasName at h
  unfold Graph.deme?
  cases hl : g.indexLookup x with
  | none => rfl
  | some i => rw [hl] at h; simp at h

/-- lookup by a new name returns the renamed deme -/
theorem rename_lookup (g : Graph) (r : Renaming) (hr : RenameOK g r) {d : Deme} (hd : d ∈ g.demes) :
    (renameDemes g r).deme? (r.apply d.name) = some (renamedDeme r d) := by
  have hn : ((renameDemes g r).demes.map (·.name)).Nodup := by
    have := hr.2.2.1
    simpa only [rename_demes_eq, List.map_map, Function.comp_def, renamedDeme] using this
  have hm : renamedDeme r d ∈ (renameDemes g r).demes := by
    rw [rename_demes_eq]; exact List.mem_map_of_mem hd
  exact deme?_of_valid (rename_index g r hr) hn hm

/-- membership by name in the renamed graph: exactly the new names -/
theorem rename_hasName (g : Graph) (r : Renaming) (hr : RenameOK g r) (x : String) :
    (renameDemes g r).hasName x = true ↔ ∃ d ∈ g.demes, x = r.apply d.name := by
  rw [hasName_iff_of_v0 (rename_index g r hr)]
  unfold nameList
  rw [rename_demes_eq, List.map_map, List.mem_map]
  constructor
  · rintro ⟨d, hd, e⟩; exact ⟨d, hd, e.symm⟩
  · rintro ⟨d, hd, e⟩; exact ⟨d, hd, e.symm⟩

/-! ### renamings as finite maps -/

theorem get?_mem {r : Renaming} {k v : String} (h : r.get? k = some v) : (k, v) ∈ r := by
  unfold Renaming.get? at h
  rw [Option.map_eq_some_iff] at h
  obtain ⟨kv, hf, rfl⟩ := h
  have h1 := List.find?_some hf
  have h2 := List.mem_of_find?_eq_some hf
  simp only [decide_eq_true_eq] at h1
  rw [← h1]; exact h2

theorem get?_none {r : Renaming} {k : String} : r.get? k = none ↔ k ∉ r.map (·.1) := by
  unfold Renaming.get?
  rw [Option.map_eq_none_iff, List.find?_eq_none, List.mem_map]
  constructor
  · rintro h ⟨kv, hkv, rfl⟩; exact h kv hkv (by simp)
  · intro h kv hkv e
    simp only [decide_eq_true_eq] at e
    exact h ⟨kv, hkv, e⟩

theorem get?_of_mem {r : Renaming} (hk : (r.map (·.1)).Nodup) {k v : String} (h : (k, v) ∈ r) :
    r.get? k = some v := by
  induction r with
  | nil => simp at h
  | cons kv r ih =>
    rw [List.map_cons, List.nodup_cons] at hk
    unfold Renaming.get?
    rw [List.find?_cons]
    by_cases e : kv.1 = k
    · simp only [e, decide_true, Option.map_some]
      rcases List.mem_cons.mp h with h | h
      · rw [← h]
      · exact absurd (List.mem_map.mpr ⟨(k, v), h, rfl⟩) (e ▸ hk.1)
    · simp only [e, decide_false]
      rcases List.mem_cons.mp h with h | h
      · exact absurd (by rw [← h]) e
      · exact ih hk.2 h

theorem apply_of_mem {r : Renaming} (hk : (r.map (·.1)).Nodup) {k v : String} (h : (k, v) ∈ r) :
    r.apply k = v := by
  unfold Renaming.apply; rw [get?_of_mem hk h]; rfl

theorem apply_of_not_key {r : Renaming} {k : String} (h : k ∉ r.map (·.1)) : r.apply k = k := by
  unfold Renaming.apply; rw [get?_none.mpr h]; rfl

/-- either the name is not a key and stays, or the pair is an entry of the renaming -/
theorem apply_cases (r : Renaming) (k : String) :
    (k ∉ r.map (·.1) ∧ r.apply k = k) ∨ (k, r.apply k) ∈ r := by
  cases h : r.get? k with
  | none => left; exact ⟨get?_none.mp h, by unfold Renaming.apply; rw [h]; rfl⟩
  | some v => right; have := get?_mem h; unfold Renaming.apply; rw [h]; exact this

theorem mem_inverse {r : Renaming} {a b : String} : (a, b) ∈ inverseRenaming r ↔ (b, a) ∈ r := by
  unfold inverseRenaming
  rw [List.mem_map]
  constructor
  · rintro ⟨kv, hkv, e⟩
    simp only [Prod.mk.injEq] at e
    obtain ⟨rfl, rfl⟩ := e
    exact hkv
  · intro h; exact ⟨(b, a), h, rfl⟩

/-- the inverse renaming undoes the renaming on every name of the graph -/
theorem inverse_apply {g : Graph} {r : Renaming} (hr : RenameOK g r) {n : String}
    (hn : n ∈ nameList g) : (inverseRenaming r).apply (r.apply n) = n := by
  have hi := renameOK_inj hr
  have hk := hr.1
  rcases apply_cases (inverseRenaming r) (r.apply n) with ⟨_, h⟩ | h
  · -- `r.apply n` is no value of `r`: then `n` is not a key
    rw [h]
    rcases apply_cases r n with ⟨_, h'⟩ | h'
    · exact h'
    · rename_i hnk
      exact absurd (List.mem_map.mpr ⟨_, mem_inverse.mpr h', rfl⟩) hnk
  · -- some entry `k ↦ r.apply n`
    rw [mem_inverse] at h
    have hkn : (inverseRenaming r).apply (r.apply n) ∈ nameList g :=
      hr.2.1 _ (List.mem_map.mpr ⟨_, h, rfl⟩)
    exact hi _ hkn _ hn (apply_of_mem hk h)

/-! ### renaming back -/

theorem map_inverse_apply {g : Graph} {r : Renaming} (hr : RenameOK g r) {l : List String}
    (hl : ∀ a ∈ l, a ∈ nameList g) : (l.map r.apply).map (inverseRenaming r).apply = l := by
  rw [List.map_map]
  conv => rhs; rw [← List.map_id l]
  apply List.map_congr_left
  intro a ha
  exact inverse_apply hr (hl a ha)

theorem graph_ext {g h : Graph} (h1 : g.description = h.description) (h2 : g.timeUnits = h.timeUnits)
    (h3 : g.generationTime = h.generationTime) (h4 : g.doi = h.doi) (h5 : g.metadata = h.metadata)
    (h6 : g.demes = h.demes) (h7 : g.migrations = h.migrations) (h8 : g.pulses = h.pulses)
    (h9 : g.index = h.index) : g = h := by
  cases g; cases h; simp_all

theorem rename_inverse_demes {g : Graph} {r : Renaming} (hv : validData g = true) (hr : RenameOK g r) :
    (g.demes.map (renamedDeme r)).map (renamedDeme (inverseRenaming r)) = g.demes := by
  have h3 : v3 g = true := by
    unfold validData at hv; simp only [Bool.and_eq_true] at hv; exact hv.1.1.1.1.1.1.1.1.1.2
  rw [List.map_map]
  conv => rhs; rw [← List.map_id g.demes]
  apply List.map_congr_left
  intro d hd
  have e1 := inverse_apply hr (mem_nameList hd)
  have e2 := map_inverse_apply hr (fun a ha => anc_mem_names h3 hd ha)
  cases d
  simp only [Function.comp_def, renamedDeme, id] at e1 e2 ⊢
  rw [e1, e2]

theorem rename_inverse_migrations {g : Graph} {r : Renaming} (hv : validData g = true)
    (hr : RenameOK g r) :
    (g.migrations.map (renamedMigration r)).map (renamedMigration (inverseRenaming r))
      = g.migrations := by
  have h8 : v8 g = true := by
    unfold validData at hv; simp only [Bool.and_eq_true] at hv; exact hv.1.1.1.1.1.2
  rw [List.map_map]
  conv => rhs; rw [← List.map_id g.migrations]
  apply List.map_congr_left
  intro m hm
  have e1 := inverse_apply hr (mig_source_mem h8 hm)
  have e2 := inverse_apply hr (mig_dest_mem h8 hm)
  cases m
  simp only [Function.comp_def, renamedMigration, id] at e1 e2 ⊢
  rw [e1, e2]

theorem rename_inverse_pulses {g : Graph} {r : Renaming} (hv : validData g = true)
    (hr : RenameOK g r) :
    (g.pulses.map (renamedPulse r)).map (renamedPulse (inverseRenaming r)) = g.pulses := by
  have h11 : v11 g = true := by
    unfold validData at hv; simp only [Bool.and_eq_true] at hv; exact hv.1.1.2
  rw [List.map_map]
  conv => rhs; rw [← List.map_id g.pulses]
  apply List.map_congr_left
  intro p hp
  have e1 := inverse_apply hr (pulse_dest_mem h11 hp)
  have e2 := map_inverse_apply hr (fun a ha => pulse_source_mem h11 hp ha)
  cases p
  simp only [Function.comp_def, renamedPulse, id] at e1 e2 ⊢
  rw [e1, e2]

/-- renaming back with the inverse map restores the graph exactly (index included: it is
rebuilt in deme order, which is what V0 says of the original index) -/
theorem rename_inverse (g : Graph) (r : Renaming) (hv : validGraph g = true) (hr : RenameOK g r) :
    renameDemes (renameDemes g r) (inverseRenaming r) = g := by
  unfold validGraph at hv
  rw [Bool.and_eq_true] at hv
  obtain ⟨h0, hd⟩ := hv
  have h1 : v1 g = true := by
    unfold validData at hd; simp only [Bool.and_eq_true] at hd; exact hd.1.1.1.1.1.1.1.1.1.1.1
  have hn : (g.demes.map (·.name)).Nodup := by
    unfold v1 at h1; simp only [Bool.and_eq_true, decide_eq_true_eq] at h1; exact h1.2
  have hdm := rename_inverse_demes hd hr
  apply graph_ext
  · rfl
  · rfl
  · rfl
  · rfl
  · rfl
  · rw [rename_demes_eq, rename_demes_eq]; exact hdm
  · rw [rename_migrations_eq, rename_migrations_eq]; exact rename_inverse_migrations hd hr
  · rw [rename_pulses_eq, rename_pulses_eq]; exact rename_inverse_pulses hd hr
  · rw [rename_index_eq, rename_demes_eq, hdm, rebuildIndex_eq _ hn]
    exact ((v0_iff g).mp h0).symm

/-- the inverse map is itself a legitimate renaming of the renamed graph -/
theorem rename_inverse_ok (g : Graph) (r : Renaming) (hv : validGraph g = true) (hr : RenameOK g r) :
    RenameOK (renameDemes g r) (inverseRenaming r) := by
  unfold validGraph at hv
  rw [Bool.and_eq_true] at hv
  obtain ⟨h0, hd⟩ := hv
  have h1 : v1 g = true := by
    unfold validData at hd; simp only [Bool.and_eq_true] at hd; exact hd.1.1.1.1.1.1.1.1.1.1.1
  unfold v1 at h1
  simp only [Bool.and_eq_true, decide_eq_true_eq, List.all_eq_true] at h1
  have hi := renameOK_inj hr
  have hvals : (inverseRenaming r).map (·.1) = (r.map (·.1)).map r.apply := by
    unfold inverseRenaming
    rw [List.map_map, List.map_map]
    apply List.map_congr_left
    intro kv hkv
    exact (apply_of_mem hr.1 (k := kv.1) (v := kv.2) hkv).symm
  have hnames : (renameDemes g r).demes.map (fun d => (inverseRenaming r).apply d.name)
      = g.demes.map (·.name) := by
    rw [rename_demes_eq, List.map_map]
    apply List.map_congr_left
    intro d hd'
    exact inverse_apply hr (mem_nameList hd')
  refine ⟨?_, ?_, ?_, ?_⟩
  · rw [hvals]
    apply List.Nodup.map_on _ hr.1
    intro a ha b hb hab
    exact hi a (hr.2.1 a ha) b (hr.2.1 b hb) hab
  · intro k hk
    rw [hvals] at hk
    obtain ⟨a, ha, rfl⟩ := List.mem_map.mp hk
    obtain ⟨d, hd', e⟩ := List.mem_map.mp (hr.2.1 a ha)
    rw [rename_demes_eq, List.map_map]
    exact List.mem_map.mpr ⟨d, hd', by simp only [Function.comp_def, renamedDeme, e]⟩
  · rw [hnames]; exact h1.2
  · intro d' hd'
    rw [rename_demes_eq] at hd'
    obtain ⟨d, hd'', rfl⟩ := List.mem_map.mp hd'
    show isIdentifier ((inverseRenaming r).apply (r.apply d.name)) = true
    rw [inverse_apply hr (mem_nameList hd'')]
    exact h1.1.2 d hd''

/-! ### names by position, numbers unchanged -/

theorem rename_names (g : Graph) (r : Renaming) :
    (∀ (i : Nat) (d : Deme), g.demes[i]? = some d → ∃ d' : Deme, (renameDemes g r).demes[i]? = some d'
        ∧ d'.name = r.apply d.name ∧ d'.ancestors = d.ancestors.map r.apply)
    ∧ (∀ (i : Nat) (m : Migration), g.migrations[i]? = some m → ∃ m' : Migration, (renameDemes g r).migrations[i]? = some m'
        ∧ m'.source = r.apply m.source ∧ m'.dest = r.apply m.dest)
    ∧ (∀ (i : Nat) (p : Pulse), g.pulses[i]? = some p → ∃ p' : Pulse, (renameDemes g r).pulses[i]? = some p'
        ∧ p'.sources = p.sources.map r.apply ∧ p'.dest = r.apply p.dest) := by
  refine ⟨?_, ?_, ?_⟩
  · intro i d h
    exact ⟨renamedDeme r d, by rw [rename_demes_eq, List.getElem?_map, h]; rfl, rfl, rfl⟩
  · intro i m h
    exact ⟨renamedMigration r m, by rw [rename_migrations_eq, List.getElem?_map, h]; rfl, rfl, rfl⟩
  · intro i p h
    exact ⟨renamedPulse r p, by rw [rename_pulses_eq, List.getElem?_map, h]; rfl, rfl, rfl⟩

theorem rename_numbers_unchanged (g : Graph) (r : Renaming) :
    (renameDemes g r).description = g.description
    ∧ (renameDemes g r).timeUnits = g.timeUnits
    ∧ (renameDemes g r).generationTime = g.generationTime
    ∧ (renameDemes g r).doi = g.doi
    ∧ (renameDemes g r).metadata = g.metadata
    ∧ (renameDemes g r).demes.length = g.demes.length
    ∧ (renameDemes g r).migrations.length = g.migrations.length
    ∧ (renameDemes g r).pulses.length = g.pulses.length
    ∧ (∀ (i : Nat) (d d' : Deme), g.demes[i]? = some d → (renameDemes g r).demes[i]? = some d' →
        d'.description = d.description ∧ d'.startTime = d.startTime
        ∧ d'.proportions = d.proportions ∧ d'.epochs = d.epochs)
    ∧ (∀ (i : Nat) (m m' : Migration), g.migrations[i]? = some m → (renameDemes g r).migrations[i]? = some m' →
        m'.startTime = m.startTime ∧ m'.endTime = m.endTime ∧ m'.rate = m.rate)
    ∧ (∀ (i : Nat) (p p' : Pulse), g.pulses[i]? = some p → (renameDemes g r).pulses[i]? = some p' →
        p'.time = p.time ∧ p'.proportions = p.proportions) := by
  refine ⟨rfl, rfl, rfl, rfl, rfl, ?_, ?_, ?_, ?_, ?_, ?_⟩
  · rw [rename_demes_eq, List.length_map]
  · rw [rename_migrations_eq, List.length_map]
  · rw [rename_pulses_eq, List.length_map]
  · intro i d d' h h'
    rw [rename_demes_eq, List.getElem?_map, h, Option.map_some, Option.some.injEq] at h'
    subst h'; exact ⟨rfl, rfl, rfl, rfl⟩
  · intro i m m' h h'
    rw [rename_migrations_eq, List.getElem?_map, h, Option.map_some, Option.some.injEq] at h'
    subst h'; exact ⟨rfl, rfl, rfl⟩
  · intro i p p' h h'
    rw [rename_pulses_eq, List.getElem?_map, h, Option.map_some, Option.some.injEq] at h'
    subst h'; exact ⟨rfl, rfl⟩

/-! ### names that are gone -/

/-- a name that is not the image of a deme name is absent from the renamed graph -/
theorem rename_absent (g : Graph) (r : Renaming) (hr : RenameOK g r) {x : String}
    (hx : ∀ d ∈ g.demes, r.apply d.name ≠ x) :
    (renameDemes g r).hasName x = false ∧ (renameDemes g r).deme? x = none := by
  have h : (renameDemes g r).hasName x = false := by
    rw [← Bool.not_eq_true, rename_hasName g r hr]
    rintro ⟨d, hd, e⟩
    exact hx d hd e.symm
  exact ⟨h, deme?_none_of_not_hasName h⟩

/-- an old name that was renamed away and is not reused as a new name is absent -/
theorem rename_old_name_gone (g : Graph) (r : Renaming) (hr : RenameOK g r) {n : String}
    (hk : n ∈ r.map (·.1)) (hv : n ∉ r.map (·.2)) :
    (renameDemes g r).hasName n = false ∧ (renameDemes g r).deme? n = none := by
  apply rename_absent g r hr
  intro d _ e
  rcases apply_cases r d.name with ⟨hnk, h⟩ | h
  · rw [h] at e; rw [e] at hnk; exact hnk hk
  · rw [e] at h; exact hv (List.mem_map.mpr ⟨_, h, rfl⟩)

/-- a name used neither before nor after is absent -/
theorem rename_unused_name (g : Graph) (r : Renaming) (hr : RenameOK g r) {x : String}
    (hn : x ∉ g.demes.map (·.name)) (hv : x ∉ r.map (·.2)) :
    (renameDemes g r).hasName x = false ∧ (renameDemes g r).deme? x = none := by
  apply rename_absent g r hr
  intro d hd e
  rcases apply_cases r d.name with ⟨_, h⟩ | h
  · rw [h] at e; exact hn (e ▸ List.mem_map_of_mem hd)
  · rw [e] at h; exact hv (List.mem_map.mpr ⟨_, h, rfl⟩)

/-! ### a three-deme graph for the non-vacuity examples -/

/-- A (∞,0]; B (100,0] branching from A; C (50,0] merging A and B half and half; migrations
A→B on (100,60] and B→C on (50,0]; one pulse from A and B into C at time 20 -/
def exampleGraph3 : Graph :=
  { description := "three demes", timeUnits := "years", generationTime := 25, doi := ["x"],
    metadata := [],
    demes := [
      { name := "A", description := "root", startTime := .inf, ancestors := [], proportions := [],
        epochs := [exEpoch .inf 0] },
      { name := "B", description := "", startTime := .fin 100, ancestors := ["A"], proportions := [1],
        epochs := [exEpoch (.fin 100) 0] },
      { name := "C", description := "", startTime := .fin 50, ancestors := ["A", "B"],
        proportions := [1/2, 1/2], epochs := [exEpoch (.fin 50) 0] }],
    migrations := [
      { source := "A", dest := "B", startTime := .fin 100, endTime := 60, rate := 1/10 },
      { source := "B", dest := "C", startTime := .fin 50, endTime := 0, rate := 1/5 }],
    pulses := [{ sources := ["A", "B"], dest := "C", time := 20, proportions := [1/4, 1/4] }],
    index := [("A", 0), ("B", 1), ("C", 2)] }

end Demes.Proofs
