/-
  C09, first sentence — graph → ms → graph: the rendered command of the growth-free fragment is
  read back by the parser of the string interpreter (`parse_render`) and is a plain command line
  (`plain_render`).
-/
import DemesVerif.Proofs.MsRTDefs
import DemesVerif.Proofs.FromMsParseAgree
namespace Demes.Proofs.MsRT
open Demes Demes.Ms Demes.Spec Demes.Spec.C07 Demes.Spec.C09
open Demes.Spec.MsSem (Cmd Parsed)
open Demes.Proofs.ToMs (printEv)
open Demes.Proofs.FromMsParse (idx_ok num_ok nonneg_ok need_ok sok_bind)

/-! ### single tokens -/

theorem lt_zero_fin (q : Q) (h : 0 ≤ q) : Num.lt (.fin q) Num.zero = false := by
  simp only [Num.lt, Num.zero, decide_eq_false_iff_not, Rat.not_lt]
  exact h

theorem idx_int (i : Int) (h : 1 ≤ i) : MsSem.idx (toString i) = .ok i.toNat :=
  idx_ok.2 ⟨i, MsPrint.pyInt_toString i, h, rfl⟩

theorem pyFloat_fin (c : NumCodec) (q : Q) (hc : c.ok (.fin q)) (h : 0 ≤ q) :
    pyFloat (c.str (.fin q)) = some (.fin q) :=
  c.nonneg_parse _ hc.1 (lt_zero_fin q h)

theorem nonneg_fin (c : NumCodec) (q : Q) (hc : c.ok (.fin q)) (h : 0 ≤ q) :
    MsSem.nonneg (c.str (.fin q)) = .ok q :=
  nonneg_ok.2 ⟨pyFloat_fin c q hc h, h⟩

theorem num_fin (c : NumCodec) (q : Q) (hc : c.ok (.fin q)) (h : 0 ≤ q) :
    MsSem.num (c.str (.fin q)) = .ok q :=
  num_ok.2 (pyFloat_fin c q hc h)

/-! ### one option of the interpreter's parser -/

section Steps
variable {npop0 f : Nat} {acc : Parsed} {post : List String}

theorem pf_n {iS xS : String} {i : Nat} {x : Q} (hi : MsSem.idx iS = .ok i) (hx : MsSem.nonneg xS = .ok x) :
    MsSem.parseFrom npop0 (f + 1) ("-n" :: iS :: xS :: post) acc
      = MsSem.parseFrom npop0 f post { acc with initial := acc.initial ++ [.setSize 0 i x false] } := by
  simp (decide := true) only [MsSem.parseFrom, if_false, if_true, List.getD_cons_zero, List.getD_cons_succ,
    List.drop_succ_cons, List.drop_zero, need_ok (l := iS :: xS :: post) (k := 2) _ (by simp), hi, hx, sok_bind]

theorem pf_en {tS iS xS : String} {t : Q} {i : Nat} {x : Q} (ht : MsSem.nonneg tS = .ok t)
    (hi : MsSem.idx iS = .ok i) (hx : MsSem.nonneg xS = .ok x) :
    MsSem.parseFrom npop0 (f + 1) ("-en" :: tS :: iS :: xS :: post) acc
      = MsSem.parseFrom npop0 f post { acc with events := acc.events ++ [.setSize t i x true] } := by
  simp (decide := true) only [MsSem.parseFrom, if_false, if_true, List.getD_cons_zero, List.getD_cons_succ,
    List.drop_succ_cons, List.drop_zero, need_ok (l := tS :: iS :: xS :: post) (k := 3) _ (by simp), ht, hi, hx,
    sok_bind]

theorem pf_m {iS jS xS : String} {i j : Nat} {x : Q} (hi : MsSem.idx iS = .ok i) (hj : MsSem.idx jS = .ok j)
    (hx : MsSem.nonneg xS = .ok x) :
    MsSem.parseFrom npop0 (f + 1) ("-m" :: iS :: jS :: xS :: post) acc
      = MsSem.parseFrom npop0 f post { acc with initial := acc.initial ++ [.setMigEntry 0 i j x] } := by
  simp (decide := true) only [MsSem.parseFrom, if_false, if_true, List.getD_cons_zero, List.getD_cons_succ,
    List.drop_succ_cons, List.drop_zero, need_ok (l := iS :: jS :: xS :: post) (k := 3) _ (by simp), hi, hj, hx,
    sok_bind]

theorem pf_em {tS iS jS xS : String} {t : Q} {i j : Nat} {x : Q} (ht : MsSem.nonneg tS = .ok t)
    (hi : MsSem.idx iS = .ok i) (hj : MsSem.idx jS = .ok j) (hx : MsSem.nonneg xS = .ok x) :
    MsSem.parseFrom npop0 (f + 1) ("-em" :: tS :: iS :: jS :: xS :: post) acc
      = MsSem.parseFrom npop0 f post { acc with events := acc.events ++ [.setMigEntry t i j x] } := by
  simp (decide := true) only [MsSem.parseFrom, if_false, if_true, List.getD_cons_zero, List.getD_cons_succ,
    List.drop_succ_cons, List.drop_zero, need_ok (l := tS :: iS :: jS :: xS :: post) (k := 4) _ (by simp),
    ht, hi, hj, hx, sok_bind]

theorem pf_es {tS iS pS : String} {t : Q} {i : Nat} {p : Q} (ht : MsSem.nonneg tS = .ok t)
    (hi : MsSem.idx iS = .ok i) (hp : MsSem.num pS = .ok p) (hp0 : 0 ≤ p) (hp1 : p ≤ 1) :
    MsSem.parseFrom npop0 (f + 1) ("-es" :: tS :: iS :: pS :: post) acc
      = MsSem.parseFrom npop0 f post { acc with events := acc.events ++ [.split t i p] } := by
  have h0 : ¬ p < 0 := Rat.not_lt.2 hp0
  have h1 : ¬ p > 1 := Rat.not_lt.2 hp1
  simp (decide := true) only [MsSem.parseFrom, if_false, if_true, List.getD_cons_zero, List.getD_cons_succ,
    List.drop_succ_cons, List.drop_zero, need_ok (l := tS :: iS :: pS :: post) (k := 3) _ (by simp),
    ht, hi, hp, sok_bind, h0, h1, decide_false, Bool.or_self, Bool.false_eq_true]

theorem pf_ej {tS iS jS : String} {t : Q} {i j : Nat} (ht : MsSem.nonneg tS = .ok t)
    (hi : MsSem.idx iS = .ok i) (hj : MsSem.idx jS = .ok j) :
    MsSem.parseFrom npop0 (f + 1) ("-ej" :: tS :: iS :: jS :: post) acc
      = MsSem.parseFrom npop0 f post { acc with events := acc.events ++ [.join t i j] } := by
  simp (decide := true) only [MsSem.parseFrom, if_false, if_true, List.getD_cons_zero, List.getD_cons_succ,
    List.drop_succ_cons, List.drop_zero, need_ok (l := tS :: iS :: jS :: post) (k := 3) _ (by simp),
    ht, hi, hj, sok_bind]

end Steps

/-! ### the records of the fragment, one at a time -/

/-- the typed tokens of the options of a command -/
def evToks (evs : List (Event Growth)) : List (Tok Growth) := (evs.map printEv).flatten

theorem toksOf_eq (hdr : Option (Nat × List String)) (evs : List (Event Growth)) :
    toksOf hdr evs = hdrToks hdr ++ evToks evs := rfl

theorem evToks_cons (e : Event Growth) (evs : List (Event Growth)) :
    evToks (e :: evs) = printEv e ++ evToks evs := by
  simp only [evToks, List.map_cons, List.flatten_cons]

theorem renderG_append (c : NumCodec) (sa : Growth → String) (a b : List (Tok Growth)) :
    renderG c sa (a ++ b) = renderG c sa a ++ renderG c sa b := by
  simp only [renderG, List.map_append]

theorem covers_append {c : NumCodec} {a b : List (Tok Growth)} (h : CodecCovers c (a ++ b)) :
    CodecCovers c a ∧ CodecCovers c b :=
  ⟨fun t ht => h t (List.mem_append_left _ ht), fun t ht => h t (List.mem_append_right _ ht)⟩

/-- add the option of one record to a parse result -/
def addEv (acc : Parsed) (e : Event Growth) : Parsed :=
  if isInit e then { acc with initial := acc.initial ++ [cmdOfG e] }
  else { acc with events := acc.events ++ [cmdOfG e] }

/-- add the options of a list of records to a parse result -/
def addEvs (acc : Parsed) (evs : List (Event Growth)) : Parsed :=
  { acc with initial := acc.initial ++ (evs.filter isInit).map cmdOfG,
             events := acc.events ++ (evs.filter (fun e => !isInit e)).map cmdOfG }

theorem addEvs_nil (acc : Parsed) : addEvs acc [] = acc := by
  cases acc; simp [addEvs]

theorem addEvs_cons (acc : Parsed) (e : Event Growth) (evs : List (Event Growth)) :
    addEvs acc (e :: evs) = addEvs (addEv acc e) evs := by
  unfold addEvs addEv
  cases h : isInit e <;> simp [h]

theorem numPos_fin (q : Q) : numPos (.fin q) = decide (0 < q) := by
  simp [numPos, Num.lt, Num.zero]

theorem zero_of_not_pos {q : Q} (h0 : 0 ≤ q) (hp : ¬ numPos (.fin q) = true) : q = 0 := by
  rw [numPos_fin, decide_eq_true_eq, Rat.not_lt] at hp
  exact Rat.le_antisymm hp h0

/-- the options the fragment prints -/
def evFlags : List String := ["-n", "-en", "-m", "-em", "-es", "-ej"]

theorem isArgTok_of {s : String} (h : classify s = .ok .arg) : C08.isArgTok s = true := by
  unfold C08.isArgTok; rw [h]

theorem isArg_int (i : Int) : C08.isArgTok (toString i) = true := isArgTok_of (MsPrint.classify_toString_int i)

theorem isArg_num (c : NumCodec) (x : Num) (hx : c.ok x) : C08.isArgTok (c.str x) = true :=
  isArgTok_of (MsPrint.classify_num c x hx)

section One
variable (c : NumCodec) (sa : Growth → String)

/-- the parser of the interpreter reads the printed record back -/
theorem pf_ev {npop0 f : Nat} {acc : Parsed} {post : List String} (e : Event Growth) (he : EvRT e)
    (hc : CodecCovers c (printEv e)) :
    MsSem.parseFrom npop0 (f + 1) (renderG c sa (printEv e) ++ post) acc
      = MsSem.parseFrom npop0 f post (addEv acc e) := by
  cases e with
  | popSizeChange o t i x =>
    obtain ⟨rfl, hi, q, y, rfl, hq, rfl, hy⟩ := he
    by_cases hp : numPos (.fin q) = true
    · have hpr : printEv (.popSizeChange "" (.fin q) i (.fin y))
          = [.flag "-en", .num (.fin q), .int i, .num (.fin y)] := by simp [printEv, hp]
      rw [hpr] at hc ⊢
      have hcq : c.ok (.fin q) := hc (.num (.fin q)) (by simp)
      have hcy : c.ok (.fin y) := hc (.num (.fin y)) (by simp)
      simp only [renderG, List.map_cons, List.map_nil, renderTokG, List.cons_append, List.nil_append]
      rw [pf_en (nonneg_fin c q hcq hq) (idx_int i hi) (nonneg_fin c y hcy hy)]
      simp [addEv, isInit, hp, cmdOfG, evT, Event.t]
    · obtain rfl := zero_of_not_pos hq hp
      have hpr : printEv (.popSizeChange "" (.fin 0) i (.fin y))
          = [.flag "-n", .int i, .num (.fin y)] := by simp [printEv, hp]
      rw [hpr] at hc ⊢
      have hcy : c.ok (.fin y) := hc (.num (.fin y)) (by simp)
      simp only [renderG, List.map_cons, List.map_nil, renderTokG, List.cons_append, List.nil_append]
      rw [pf_n (idx_int i hi) (nonneg_fin c y hcy hy)]
      simp [addEv, isInit, hp, cmdOfG, evT, Event.t]
  | migEntryChange o t i j x =>
    obtain ⟨rfl, hi, hj, q, y, rfl, hq, rfl, hy⟩ := he
    by_cases hp : numPos (.fin q) = true
    · have hpr : printEv (.migEntryChange "" (.fin q) i j (.fin y))
          = [.flag "-em", .num (.fin q), .int i, .int j, .num (.fin y)] := by simp [printEv, hp]
      rw [hpr] at hc ⊢
      have hcq : c.ok (.fin q) := hc (.num (.fin q)) (by simp)
      have hcy : c.ok (.fin y) := hc (.num (.fin y)) (by simp)
      simp only [renderG, List.map_cons, List.map_nil, renderTokG, List.cons_append, List.nil_append]
      rw [pf_em (nonneg_fin c q hcq hq) (idx_int i hi) (idx_int j hj) (nonneg_fin c y hcy hy)]
      simp [addEv, isInit, hp, cmdOfG, evT, Event.t]
    · obtain rfl := zero_of_not_pos hq hp
      have hpr : printEv (.migEntryChange "" (.fin 0) i j (.fin y))
          = [.flag "-m", .int i, .int j, .num (.fin y)] := by simp [printEv, hp]
      rw [hpr] at hc ⊢
      have hcy : c.ok (.fin y) := hc (.num (.fin y)) (by simp)
      simp only [renderG, List.map_cons, List.map_nil, renderTokG, List.cons_append, List.nil_append]
      rw [pf_m (idx_int i hi) (idx_int j hj) (nonneg_fin c y hcy hy)]
      simp [addEv, isInit, hp, cmdOfG, evT, Event.t]
  | split o t i p =>
    obtain ⟨rfl, hi, q, y, rfl, hq, rfl, hy0, hy1⟩ := he
    have hpr : printEv (.split "" (.fin q) i (.fin y))
        = [.flag "-es", .num (.fin q), .int i, .num (.fin y)] := rfl
    rw [hpr] at hc ⊢
    have hcq : c.ok (.fin q) := hc (.num (.fin q)) (by simp)
    have hcy : c.ok (.fin y) := hc (.num (.fin y)) (by simp)
    simp only [renderG, List.map_cons, List.map_nil, renderTokG, List.cons_append, List.nil_append]
    rw [pf_es (nonneg_fin c q hcq (Rat.le_of_lt hq)) (idx_int i hi) (num_fin c y hcy hy0) hy0 hy1]
    simp [addEv, isInit, cmdOfG, evT, Event.t]
  | join o t i j =>
    obtain ⟨rfl, hi, hj, q, rfl, hq⟩ := he
    have hpr : printEv (.join "" (.fin q) i j)
        = [.flag "-ej", .num (.fin q), .int i, .int j] := rfl
    rw [hpr] at hc ⊢
    have hcq : c.ok (.fin q) := hc (.num (.fin q)) (by simp)
    simp only [renderG, List.map_cons, List.map_nil, renderTokG, List.cons_append, List.nil_append]
    rw [pf_ej (nonneg_fin c q hcq (Rat.le_of_lt hq)) (idx_int i hi) (idx_int j hj)]
    simp [addEv, isInit, cmdOfG, evT, Event.t]
  | _ => exact absurd he (by simp [EvRT])

/-- the printed record is one of the six options followed by exactly its arguments -/
theorem render_shape (e : Event Growth) (he : EvRT e) (hc : CodecCovers c (printEv e)) :
    ∃ fl args, renderG c sa (printEv e) = fl :: args ∧ fl ∈ evFlags
      ∧ arity.lookup fl = some (.fixed args.length) ∧ ∀ a ∈ args, C08.isArgTok a = true := by
  cases e with
  | popSizeChange o t i x =>
    obtain ⟨rfl, hi, q, y, rfl, hq, rfl, hy⟩ := he
    by_cases hp : numPos (.fin q) = true
    · have hpr : printEv (.popSizeChange "" (.fin q) i (.fin y))
          = [.flag "-en", .num (.fin q), .int i, .num (.fin y)] := by simp [printEv, hp]
      rw [hpr] at hc ⊢
      have hcq : c.ok (.fin q) := hc (.num (.fin q)) (by simp)
      have hcy : c.ok (.fin y) := hc (.num (.fin y)) (by simp)
      refine ⟨"-en", [c.str (.fin q), toString i, c.str (.fin y)], rfl, by decide, by simp only [List.length_cons, List.length_nil]; decide, ?_⟩
      intro a ha
      simp only [List.mem_cons, List.not_mem_nil, or_false] at ha
      rcases ha with rfl | rfl | rfl
      · exact isArg_num c _ hcq
      · exact isArg_int i
      · exact isArg_num c _ hcy
    · have hpr : printEv (.popSizeChange "" (.fin q) i (.fin y))
          = [.flag "-n", .int i, .num (.fin y)] := by simp [printEv, hp]
      rw [hpr] at hc ⊢
      have hcy : c.ok (.fin y) := hc (.num (.fin y)) (by simp)
      refine ⟨"-n", [toString i, c.str (.fin y)], rfl, by decide, by simp only [List.length_cons, List.length_nil]; decide, ?_⟩
      intro a ha
      simp only [List.mem_cons, List.not_mem_nil, or_false] at ha
      rcases ha with rfl | rfl
      · exact isArg_int i
      · exact isArg_num c _ hcy
  | migEntryChange o t i j x =>
    obtain ⟨rfl, hi, hj, q, y, rfl, hq, rfl, hy⟩ := he
    by_cases hp : numPos (.fin q) = true
    · have hpr : printEv (.migEntryChange "" (.fin q) i j (.fin y))
          = [.flag "-em", .num (.fin q), .int i, .int j, .num (.fin y)] := by simp [printEv, hp]
      rw [hpr] at hc ⊢
      have hcq : c.ok (.fin q) := hc (.num (.fin q)) (by simp)
      have hcy : c.ok (.fin y) := hc (.num (.fin y)) (by simp)
      refine ⟨"-em", [c.str (.fin q), toString i, toString j, c.str (.fin y)], rfl, by decide, by simp only [List.length_cons, List.length_nil]; decide, ?_⟩
      intro a ha
      simp only [List.mem_cons, List.not_mem_nil, or_false] at ha
      rcases ha with rfl | rfl | rfl | rfl
      · exact isArg_num c _ hcq
      · exact isArg_int i
      · exact isArg_int j
      · exact isArg_num c _ hcy
    · have hpr : printEv (.migEntryChange "" (.fin q) i j (.fin y))
          = [.flag "-m", .int i, .int j, .num (.fin y)] := by simp [printEv, hp]
      rw [hpr] at hc ⊢
      have hcy : c.ok (.fin y) := hc (.num (.fin y)) (by simp)
      refine ⟨"-m", [toString i, toString j, c.str (.fin y)], rfl, by decide, by simp only [List.length_cons, List.length_nil]; decide, ?_⟩
      intro a ha
      simp only [List.mem_cons, List.not_mem_nil, or_false] at ha
      rcases ha with rfl | rfl | rfl
      · exact isArg_int i
      · exact isArg_int j
      · exact isArg_num c _ hcy
  | split o t i p =>
    obtain ⟨rfl, hi, q, y, rfl, hq, rfl, hy0, hy1⟩ := he
    have hpr : printEv (.split "" (.fin q) i (.fin y))
        = [.flag "-es", .num (.fin q), .int i, .num (.fin y)] := rfl
    rw [hpr] at hc ⊢
    have hcq : c.ok (.fin q) := hc (.num (.fin q)) (by simp)
    have hcy : c.ok (.fin y) := hc (.num (.fin y)) (by simp)
    refine ⟨"-es", [c.str (.fin q), toString i, c.str (.fin y)], rfl, by decide, by simp only [List.length_cons, List.length_nil]; decide, ?_⟩
    intro a ha
    simp only [List.mem_cons, List.not_mem_nil, or_false] at ha
    rcases ha with rfl | rfl | rfl
    · exact isArg_num c _ hcq
    · exact isArg_int i
    · exact isArg_num c _ hcy
  | join o t i j =>
    obtain ⟨rfl, hi, hj, q, rfl, hq⟩ := he
    have hpr : printEv (.join "" (.fin q) i j)
        = [.flag "-ej", .num (.fin q), .int i, .int j] := rfl
    rw [hpr] at hc ⊢
    have hcq : c.ok (.fin q) := hc (.num (.fin q)) (by simp)
    refine ⟨"-ej", [c.str (.fin q), toString i, toString j], rfl, by decide, by simp only [List.length_cons, List.length_nil]; decide, ?_⟩
    intro a ha
    simp only [List.mem_cons, List.not_mem_nil, or_false] at ha
    rcases ha with rfl | rfl | rfl
    · exact isArg_num c _ hcq
    · exact isArg_int i
    · exact isArg_int j
  | _ => exact absurd he (by simp [EvRT])

end One

/-! ### the options of a command -/

theorem evFlags_known : ∀ s ∈ evFlags, s ∈ C08.knownFlags := by decide

theorem evFlags_ne : ∀ s ∈ evFlags, s ≠ "-I" ∧ s ≠ "-ma" ∧ s ≠ "-ema" := by decide

theorem evFlags_not_numbers : ∀ s ∈ evFlags, MsSem.isNumberLike s = false := by decide +kernel

section Many
variable (c : NumCodec) (sa : Growth → String)

theorem render_evToks_cons (e : Event Growth) (evs : List (Event Growth)) :
    renderG c sa (evToks (e :: evs)) = renderG c sa (printEv e) ++ renderG c sa (evToks evs) := by
  rw [evToks_cons, renderG_append]

/-- the rendered options are empty or start with one of the six options -/
theorem render_head (evs : List (Event Growth)) (he : ∀ e ∈ evs, EvRT e) (hc : CodecCovers c (evToks evs)) :
    renderG c sa (evToks evs) = [] ∨ ∃ fl r, renderG c sa (evToks evs) = fl :: r ∧ fl ∈ evFlags := by
  cases evs with
  | nil => left; rfl
  | cons e evs =>
    right
    rw [evToks_cons] at hc
    obtain ⟨fl, args, h, hfl, _, _⟩ := render_shape c sa e (he e List.mem_cons_self) (covers_append hc).1
    exact ⟨fl, args ++ renderG c sa (evToks evs), by rw [render_evToks_cons, h]; rfl, hfl⟩

theorem length_le_render (evs : List (Event Growth)) (he : ∀ e ∈ evs, EvRT e) (hc : CodecCovers c (evToks evs)) :
    evs.length ≤ (renderG c sa (evToks evs)).length := by
  induction evs with
  | nil => exact Nat.zero_le _
  | cons e evs ih =>
    rw [evToks_cons] at hc
    obtain ⟨fl, args, h, _, _, _⟩ := render_shape c sa e (he e List.mem_cons_self) (covers_append hc).1
    have := ih (fun x hx => he x (List.mem_cons_of_mem _ hx)) (covers_append hc).2
    rw [render_evToks_cons, h]
    simp only [List.length_cons, List.length_append]
    omega

theorem pf_nil (npop0 f : Nat) (acc : Parsed) : MsSem.parseFrom npop0 f [] acc = .ok acc := by
  cases f <;> rfl

/-- the parser of the interpreter reads the printed options back, in order -/
theorem pf_evs (npop0 : Nat) : ∀ (evs : List (Event Growth)) (f : Nat) (acc : Parsed), (∀ e ∈ evs, EvRT e) →
    CodecCovers c (evToks evs) → evs.length ≤ f →
    MsSem.parseFrom npop0 f (renderG c sa (evToks evs)) acc = .ok (addEvs acc evs)
  | [], f, acc, _, _, _ => by rw [addEvs_nil]; exact pf_nil npop0 f acc
  | e :: evs, 0, _, _, _, hf => by simp at hf
  | e :: evs, f + 1, acc, he, hc, hf => by
    rw [evToks_cons] at hc
    rw [render_evToks_cons, pf_ev c sa e (he e List.mem_cons_self) (covers_append hc).1, addEvs_cons]
    exact pf_evs npop0 evs f _ (fun x hx => he x (List.mem_cons_of_mem _ hx)) (covers_append hc).2
      (by simp only [List.length_cons] at hf; omega)

end Many

/-! ### the header -/

theorem render_raw (c : NumCodec) (sa : Growth → String) (ss : List String) :
    renderG c sa (ss.map Tok.raw) = ss := by
  induction ss with
  | nil => rfl
  | cons s ss ih =>
    simp only [renderG, List.map_cons, renderTokG] at ih ⊢
    rw [ih]

theorem render_some (c : NumCodec) (sa : Growth → String) (n : Nat) (ss : List String) (evs : List (Event Growth)) :
    renderG c sa (toksOf (some (n, ss)) evs)
      = "-I" :: toString (n : Int) :: (ss ++ renderG c sa (evToks evs)) := by
  rw [toksOf_eq, renderG_append]
  simp only [hdrToks, List.cons_append, List.nil_append]
  rw [show renderG c sa (Tok.flag "-I" :: Tok.int (n : Int) :: ss.map Tok.raw)
      = "-I" :: toString (n : Int) :: renderG c sa (ss.map Tok.raw) from rfl, render_raw]
  rfl

theorem render_none (c : NumCodec) (sa : Growth → String) (evs : List (Event Growth)) :
    renderG c sa (toksOf none evs) = renderG c sa (evToks evs) := by
  rw [toksOf_eq]; rfl

/-! ### plain command lines -/

/-- the condition `PlainTokens` puts on every suffix -/
def pOK (N : Nat) (flag : String) (rest : List String) : Bool := C08.isArgTok flag || C08.groupOK N flag rest

theorem argRun_args (args l : List String) (h : ∀ a ∈ args, C08.isArgTok a = true) :
    C08.argRun (args ++ l) = args.length + C08.argRun l := by
  induction args with
  | nil => simp
  | cons a args ih =>
    simp only [List.cons_append, C08.argRun, h a List.mem_cons_self, if_true, List.length_cons]
    rw [ih (fun x hx => h x (List.mem_cons_of_mem _ hx))]; omega

theorem everySuffix_args (N : Nat) (args l : List String) (h : ∀ a ∈ args, C08.isArgTok a = true) :
    C08.everySuffix (pOK N) (args ++ l) = C08.everySuffix (pOK N) l := by
  induction args with
  | nil => rfl
  | cons a args ih =>
    simp only [List.cons_append, C08.everySuffix, pOK, h a List.mem_cons_self, Bool.true_or, Bool.true_and]
    exact ih (fun x hx => h x (List.mem_cons_of_mem _ hx))

theorem plainTok_arg {s : String} (h : C08.isArgTok s = true) : C08.plainTok s = true := by
  simp [C08.plainTok, h]

theorem plainTok_known {s : String} (h : s ∈ C08.knownFlags) : C08.plainTok s = true := by
  simp [C08.plainTok, h]

theorem argRun_head {l : List String} (h : l = [] ∨ ∃ fl r, l = fl :: r ∧ fl ∈ evFlags) : C08.argRun l = 0 := by
  rcases h with rfl | ⟨fl, r, rfl, hfl⟩
  · rfl
  · simp only [C08.argRun, FromMsParse.known_not_arg (evFlags_known fl hfl), Bool.false_eq_true, if_false]

theorem groupOK_ev {N : Nat} {fl : String} {rest : List String} (hfl : fl ∈ evFlags) {k : Nat}
    (har : arity.lookup fl = some (.fixed k)) (hk : C08.argRun rest = k) : C08.groupOK N fl rest = true := by
  obtain ⟨h1, h2, h3⟩ := evFlags_ne fl hfl
  unfold C08.groupOK
  simp only [h1, h2, h3, if_false, har, hk, beq_self_eq_true]

section Plain
variable (c : NumCodec) (sa : Growth → String)

theorem plain_evs (N : Nat) : ∀ (evs : List (Event Growth)), (∀ e ∈ evs, EvRT e) → CodecCovers c (evToks evs) →
    (∀ s ∈ renderG c sa (evToks evs), C08.plainTok s = true) ∧ "-I" ∉ renderG c sa (evToks evs)
      ∧ C08.everySuffix (pOK N) (renderG c sa (evToks evs)) = true
  | [], _, _ => ⟨fun s hs => (by cases hs), fun hs => (by cases hs), rfl⟩
  | e :: evs, he, hc => by
    rw [evToks_cons] at hc
    have he' : ∀ x ∈ evs, EvRT x := fun x hx => he x (List.mem_cons_of_mem _ hx)
    obtain ⟨fl, args, h, hfl, har, hargs⟩ := render_shape c sa e (he e List.mem_cons_self) (covers_append hc).1
    obtain ⟨ih1, ih2, ih3⟩ := plain_evs N evs he' (covers_append hc).2
    have hhead := render_head c sa evs he' (covers_append hc).2
    rw [render_evToks_cons, h]
    refine ⟨?_, ?_, ?_⟩
    · intro s hs
      simp only [List.cons_append, List.mem_cons, List.mem_append] at hs
      rcases hs with rfl | hs | hs
      · exact plainTok_known (evFlags_known _ hfl)
      · exact plainTok_arg (hargs s hs)
      · exact ih1 s hs
    · intro hs
      simp only [List.cons_append, List.mem_cons, List.mem_append] at hs
      rcases hs with hs | hs | hs
      · exact (evFlags_ne fl hfl).1 hs.symm
      · exact FromMsParse.arg_ne_I (hargs _ hs) rfl
      · exact ih2 hs
    · simp only [List.cons_append, C08.everySuffix, Bool.and_eq_true]
      refine ⟨?_, ?_⟩
      · unfold pOK
        rw [groupOK_ev hfl har (by rw [argRun_args _ _ hargs, argRun_head hhead]; rfl), Bool.or_true]
      · rw [everySuffix_args N _ _ hargs]; exact ih3

end Plain

/-! ### the two theorems -/

theorem parse_render (c : NumCodec) (sa : Growth → String) (hdr : Option (Nat × List String)) (evs : List (Event Growth))
    (hh : HdrOK hdr) (he : ∀ e ∈ evs, EvRT e) (hc : CodecCovers c (toksOf hdr evs)) :
    Demes.Spec.MsSem.parse (renderG c sa (toksOf hdr evs)) = .ok (prOf hdr evs) := by
  rw [toksOf_eq] at hc
  have hce := (covers_append hc).2
  have hlen := length_le_render c sa evs he hce
  cases hdr with
  | none =>
    rw [render_none]
    unfold MsSem.parse
    rw [FromMsParse.fs_no_I _ (plain_evs c sa 1 evs he hce).2.1]
    simp only [sok_bind]
    rw [pf_evs c sa 1 evs _ _ he hce hlen]
    simp [addEvs, prOf]
  | some ns =>
    obtain ⟨n, ss⟩ := ns
    obtain ⟨hn, hss, _⟩ := hh
    have hA : ∀ r t, renderG c sa (evToks evs) = r :: t → MsSem.isNumberLike r = false := by
      intro r t hrt
      rcases render_head c sa evs he hce with h | ⟨fl, r', h, hfl⟩
      · rw [h] at hrt; cases hrt
      · rw [h] at hrt; cases hrt; exact evFlags_not_numbers _ hfl
    have hn1 : (1 : Int) ≤ (n : Int) := by omega
    have hl : ss.length = (n : Int).toNat := by rw [hss]; rfl
    rw [render_some]
    unfold MsSem.parse
    rw [FromMsParse.fs_I_A (MsPrint.pyInt_toString _) hn1 hl hA]
    simp only [sok_bind, List.length_cons]
    rw [FromMsParse.pf_I_A rfl (MsPrint.pyInt_toString _) hn1 hl hA,
      pf_evs c sa _ evs _ _ he hce (by simp only [List.length_append]; omega)]
    simp [addEvs, prOf]

theorem plain_render (c : NumCodec) (sa : Growth → String) (hdr : Option (Nat × List String)) (evs : List (Event Growth))
    (hh : HdrOK hdr) (he : ∀ e ∈ evs, EvRT e) (hc : CodecCovers c (toksOf hdr evs)) :
    Demes.Spec.C08.PlainTokens (renderG c sa (toksOf hdr evs)) = true := by
  rw [toksOf_eq] at hc
  have hce := (covers_append hc).2
  have hhead := render_head c sa evs he hce
  cases hdr with
  | none =>
    rw [render_none]
    obtain ⟨h1, h2, h3⟩ := plain_evs c sa (C08.structNpop (renderG c sa (evToks evs))) evs he hce
    unfold C08.PlainTokens
    simp only [Bool.and_eq_true, List.all_eq_true, decide_eq_true_eq]
    refine ⟨⟨⟨h1, ?_⟩, ?_⟩, h3⟩
    · rcases hhead with h | ⟨fl, r, h, hfl⟩
      · rw [h]
      · rw [h]; simp only [FromMsParse.known_not_arg (evFlags_known fl hfl), Bool.not_false]
    · rw [List.count_eq_zero_of_not_mem h2]; exact Nat.zero_le _
  | some ns =>
    obtain ⟨n, ss⟩ := ns
    obtain ⟨hn, hss, hsa⟩ := hh
    rw [render_some]
    generalize hN : C08.structNpop ("-I" :: toString (n : Int) :: (ss ++ renderG c sa (evToks evs))) = N
    obtain ⟨h1, h2, h3⟩ := plain_evs c sa N evs he hce
    have hargs : ∀ a ∈ toString (n : Int) :: ss, C08.isArgTok a = true := by
      intro a ha
      rcases List.mem_cons.1 ha with rfl | ha
      · exact isArg_int _
      · exact isArgTok_of (hsa a ha)
    unfold C08.PlainTokens
    rw [hN]
    simp only [Bool.and_eq_true, List.all_eq_true, decide_eq_true_eq]
    refine ⟨⟨⟨?_, ?_⟩, ?_⟩, ?_⟩
    · intro s hs
      rcases List.mem_cons.1 hs with rfl | hs
      · exact plainTok_known (by decide)
      · rw [← List.cons_append] at hs
        rcases List.mem_append.1 hs with hs | hs
        · exact plainTok_arg (hargs s hs)
        · exact h1 s hs
    · simp only [FromMsParse.isArgTok_I, Bool.not_false]
    · rw [List.count_cons_self, List.count_eq_zero_of_not_mem]
      rw [← List.cons_append]
      intro hs
      rcases List.mem_append.1 hs with hs | hs
      · exact FromMsParse.arg_ne_I (hargs _ hs) rfl
      · exact h2 hs
    · have hk : C08.argRun (toString (n : Int) :: (ss ++ renderG c sa (evToks evs))) = 1 + (n : Int).toNat := by
        rw [← List.cons_append, argRun_args _ _ hargs, argRun_head hhead, List.length_cons, hss]
        simp only [Int.toNat_natCast]; omega
      change (pOK N "-I" _ && C08.everySuffix (pOK N) _) = true
      rw [← List.cons_append, everySuffix_args N _ _ hargs, h3, Bool.and_true]
      unfold pOK C08.groupOK
      simp only [List.cons_append, hk, if_true, MsPrint.pyInt_toString, beq_self_eq_true, Bool.true_or, Bool.and_true,
        Bool.or_eq_true, decide_eq_true_eq]
      right; omega

/-! ### non-vacuity -/

/-- `-I 2 0 0` -/
def exHdr : Option (Nat × List String) := some (2, ["0", "0"])

/-- `-n 1 2.0 -m 2 1 0.5 -en 0.5 2 3.0 -es 1.0 1 0.5 -ej 2.0 2 1` -/
def exEvs : List (Event Growth) :=
  [.popSizeChange "" (.fin 0) 1 (.fin 2), .migEntryChange "" (.fin 0) 2 1 (.fin (1/2)),
   .popSizeChange "" (.fin (1/2)) 2 (.fin 3), .split "" (.fin 1) 1 (.fin (1/2)), .join "" (.fin 2) 2 1]

/-- the hypotheses of `parse_render` / `plain_render` hold of a concrete command with a header, an
initial size and migration rate, a size change, a split and a join -/
theorem ex_hyps : HdrOK exHdr ∧ (∀ e ∈ exEvs, EvRT e) ∧ CodecCovers MsPrint.tableCodec (toksOf exHdr exEvs)
    ∧ renderG MsPrint.tableCodec (fun _ => "0.0") (toksOf exHdr exEvs)
        = ["-I", "2", "0", "0", "-n", "1", "2.0", "-m", "2", "1", "0.5", "-en", "0.5", "2", "3.0",
           "-es", "1.0", "1", "0.5", "-ej", "2.0", "2", "1"] := by
  refine ⟨⟨by decide, rfl, fun s hs => ?_⟩, ?_, by decide +kernel, by decide +kernel⟩
  · simp only [List.mem_cons, List.not_mem_nil, or_false, or_self] at hs
    subst hs
    exact MsPrint.classify_of_head_ne_minus "0" (by decide)
  intro e he
  simp only [exEvs, List.mem_cons, List.not_mem_nil, or_false] at he
  rcases he with rfl | rfl | rfl | rfl | rfl
  · exact ⟨rfl, by decide, 0, 2, rfl, by decide, rfl, by decide⟩
  · exact ⟨rfl, by decide, by decide, 0, 1/2, rfl, by decide, rfl, by decide +kernel⟩
  · exact ⟨rfl, by decide, 1/2, 3, rfl, by decide +kernel, rfl, by decide⟩
  · exact ⟨rfl, by decide, 1, 1/2, rfl, by decide, rfl, by decide +kernel, by decide +kernel⟩
  · exact ⟨rfl, by decide, by decide, 2, rfl, by decide⟩

example : Demes.Spec.MsSem.parse ["-I", "2", "0", "0", "-n", "1", "2.0", "-m", "2", "1", "0.5", "-en", "0.5", "2", "3.0",
    "-es", "1.0", "1", "0.5", "-ej", "2.0", "2", "1"] = .ok (prOf exHdr exEvs) := by
  have h := parse_render MsPrint.tableCodec (fun _ => "0.0") exHdr exEvs ex_hyps.1 ex_hyps.2.1 ex_hyps.2.2.1
  rwa [ex_hyps.2.2.2] at h

end Demes.Proofs.MsRT

#print axioms Demes.Proofs.MsRT.parse_render
#print axioms Demes.Proofs.MsRT.plain_render
