/-
  Vocabulary for the translator tie of C20 (DESIGN §4.1, group "GuardsCost").  Nothing of the Model
  proper imports this file.

  `harness/extract_tables.py` turns the loop structure of `Graph._check_migration_rates`,
  `Graph.in_generations` and of the explicit loops of `Graph.asdict` into terms of `Nest` (which loop runs
  over which collection, nested in which), and the choice between `graph.asdict()` and
  `graph.asdict_simplified()` in `dump` / `dump_all` into a function `Bool → DictCall`.  `ticks` counts one
  step per iteration of every loop and per element visited by a library call, over the collections of the
  Model's graph; `Theorems/TablesGuardsCost.lean` proves the Model's cost functions (`Model/Cost.lean`)
  equal to / bounded below by the `ticks` of the generated terms.
-/
import DemesVerif.Model.Cost
namespace Demes.Cost.Nest

/-- what a loop runs over -/
inductive Coll
  /-- the demes of the graph (`self.demes`, `graph.demes`, `data["demes"]`); the loop variable is a deme -/
  | demes
  /-- `range(len(self.demes))`, the rows of a migration matrix, the entries of a row -/
  | demeIndex
  /-- the epochs of the deme of the enclosing loop over the demes -/
  | epochs
  /-- `self.migrations`, `graph.migrations` -/
  | migrations
  /-- `graph.pulses` -/
  | pulses
  /-- the end times / matrices that `migration_matrices` returns -/
  | endTimes
deriving DecidableEq, Repr, Inhabited

inductive Nest
  | none
  | seq (a b : Nest)
  /-- `for x in c: body` — one step per iteration plus the body's -/
  | loop (c : Coll) (body : Nest)
  /-- a library call that visits every element once (`sum(row)`) -/
  | scan (c : Coll)
  /-- `self.migration_matrices()` -/
  | matrices
deriving DecidableEq, Repr, Inhabited

def size (g : Graph) (d : Option Deme) : Coll → Nat
  | .demes => g.demes.length
  | .demeIndex => g.demes.length
  | .epochs => match d with | some x => x.epochs.length | Option.none => 0
  | .migrations => g.migrations.length
  | .pulses => g.pulses.length
  | .endTimes => (mmEndTimes g.migrations).length

/-- steps of a loop nest on graph `g`, inside the iteration of a loop over the demes at deme `d` -/
def ticks (g : Graph) : Option Deme → Nest → Nat
  | _, .none => 0
  | d, .seq a b => ticks g d a + ticks g d b
  | d, .scan c => size g d c
  | _, .matrices => costMatrices g
  | _, .loop .demes body => (g.demes.map (fun x => 1 + ticks g (some x) body)).sum
  | d, .loop .demeIndex body => size g d .demeIndex * (1 + ticks g d body)
  | d, .loop .epochs body => size g d .epochs * (1 + ticks g d body)
  | d, .loop .migrations body => size g d .migrations * (1 + ticks g d body)
  | d, .loop .pulses body => size g d .pulses * (1 + ticks g d body)
  | d, .loop .endTimes body => size g d .endTimes * (1 + ticks g d body)

/-- which dictionary a dump builds -/
inductive DictCall | asdict | asdictSimplified
deriving DecidableEq, Repr, Inhabited

/-- steps of building it -/
def DictCall.cost (g : Graph) : DictCall → Nat
  | .asdict => costAsdict g
  | .asdictSimplified => costSimplify g

end Demes.Cost.Nest
