/-
  C09 §8, acceptance with exponential epochs — the invariant `Mid` of the middle of a time group through the
  options `to_ms` emits (`-n`/`-en`, `-g`/`-eg`, `-m`/`-em`, `-es`, `-ej`), and the invariant `AccInvV` of the
  state before the first option.  The growth version of `MsAccInvEvents.lean`: sizes are symbolic
  (`coef · exp(expo)`, `coef > 0`), `epoch_resolve` multiplies by an exponential and keeps `coef`.
-/
import DemesVerif.Proofs.MsGrowAccInvBase
import DemesVerif.Proofs.MsAccInvEvents
namespace Demes.Proofs.MsGrow
open Demes Demes.Ms Demes.Spec Demes.Spec.MsSem Demes.Spec.C08 Demes.Proofs.FromMs
open Demes.Proofs.MsAcc (AncWF PulseWF EpKeep getLast_le_head getElem?_set_cases getElem?_snoc_cases
  zrow_splitLm zrow_joinLm lmGet_initLm_zero)

/-! ## well-formed epochs -/

theorem EpochsWFV.congr {T : Q} {d d' : BDeme} (h : d'.epochs = d.epochs) (hw : EpochsWFV T d) : EpochsWFV T d' := by
  have hb : bEndTime d' = bEndTime d := by unfold bEndTime; rw [h]
  refine ⟨by rw [h]; exact hw.ne, by rw [h]; exact hw.sizes, ?_,
    by rw [h]; exact hw.times, by rw [hb]; exact hw.last0, ?_⟩
  · intro e r he; rw [h] at he; exact hw.closed e r he
  · intro e r he; rw [h] at he; exact hw.headLe e r he

theorem EpochsWFV.mono {T T' : Q} {d : BDeme} (hT : T ≤ T') (hw : EpochsWFV T d) : EpochsWFV T' d :=
  ⟨hw.ne, hw.sizes, hw.closed, hw.times, hw.last0, fun e r he => by
    have := hw.headLe e r he
    grind⟩

/-- the oldest epoch ends no later than the newest -/
theorem EpochsWFV.bEnd_le {T : Q} {d : BDeme} (hw : EpochsWFV T d) : bEndTime d ≤ T := by
  cases he : d.epochs with
  | nil => exact (hw.ne he).elim
  | cons e r =>
    have h1 := hw.headLe e r he
    have h2 := hw.times
    rw [he, List.map_cons] at h2
    have h3 := getLast_le_head _ _ h2
    have h4 : bEndTime d = ((e.endTime :: r.map (·.endTime)).getLast?.getD 0) := by
      unfold bEndTime
      rw [he, ← List.map_cons, List.getLast?_map]
    rw [h4]
    grind

theorem epochsWF_newDeme {N0 T' : Q} (hN : 0 < N0) (hT : 0 ≤ T') (n : Nat) : EpochsWFV T' (newDeme N0 T' n) :=
  epochsWFV_of (MsAcc.epochsWF_newDeme hN hT n)

/-- `exp` does not change the sign of the coefficient -/
theorem mulExp_coef_pos {s : Sz} (h : 0 < s.coef) (x : Q) : 0 < (s.mulExp x).coef := by
  unfold Sz.mulExp; split <;> exact h

/-- replacing the open epoch by one with the same end time and a size with a positive coefficient (any
growth rate) -/
theorem epochsWF_setHead {T' : Q} {d d' : BDeme} {e e' : BEpoch} {r : List BEpoch}
    (hw : EpochsWFV T' d) (he : d.epochs = e :: r) (he' : d'.epochs = e' :: r) (ht : e'.endTime = e.endTime)
    (hs : 0 < e'.endSize.coef) : EpochsWFV T' d' := by
  refine ⟨by rw [he']; exact List.cons_ne_nil _ _, ?_, ?_, ?_, ?_, ?_⟩
  · intro x hx
    rw [he'] at hx
    rcases List.mem_cons.mp hx with rfl | hx
    · exact hs
    · exact hw.sizes x (by rw [he]; exact List.mem_cons_of_mem _ hx)
  · intro a b hab x hx
    rw [he'] at hab
    obtain ⟨_, rfl⟩ := List.cons.inj hab
    exact hw.closed e r he x hx
  · have := hw.times
    rw [he, List.map_cons] at this
    rw [he', List.map_cons, ht]
    exact this
  · have hb : bEndTime d' = bEndTime d := by
      unfold bEndTime
      rw [he', he]
      exact getLast_head_endTime e e' r ht
    rw [hb]; exact hw.last0
  · intro a b hab
    rw [he'] at hab
    obtain ⟨rfl, _⟩ := List.cons.inj hab
    rw [ht]; exact hw.headLe e r he

/-- `epoch_resolve` cutting the open epoch at `T'`: the new open epoch and the `start_size` of the closed one
carry the old size times an exponential — the same coefficient -/
theorem epochsWF_cut {T' : Q} {d d' : BDeme} {e : BEpoch} {older : List BEpoch}
    (hw : EpochsWFV T' d) (he : d.epochs = e :: older) (hlt : e.endTime < T')
    (he' : d'.epochs =
      { e with endSize := e.endSize.mulExp (-(e.growthRate.getD 0) * (T' - e.endTime)), endTime := T' } ::
      { e with growthRate := none,
               startSize := some (e.endSize.mulExp (-(e.growthRate.getD 0) * (T' - e.endTime))) } :: older) :
    EpochsWFV T' d' := by
  have hmem : e ∈ d.epochs := by rw [he]; exact List.mem_cons_self ..
  have hes := hw.sizes e hmem
  have hes' := mulExp_coef_pos hes (-(e.growthRate.getD 0) * (T' - e.endTime))
  refine ⟨by rw [he']; exact List.cons_ne_nil _ _, ?_, ?_, ?_, ?_, ?_⟩
  · intro x hx
    rw [he'] at hx
    rcases List.mem_cons.mp hx with rfl | hx
    · exact hes'
    · rcases List.mem_cons.mp hx with rfl | hx
      · exact hes
      · exact hw.sizes x (by rw [he]; exact List.mem_cons_of_mem _ hx)
  · intro a b hab x hx
    rw [he'] at hab
    obtain ⟨_, rfl⟩ := List.cons.inj hab
    rcases List.mem_cons.mp hx with rfl | hx
    · exact ⟨rfl, _, rfl, hes'⟩
    · exact hw.closed e older he x hx
  · have := hw.times
    rw [he, List.map_cons, List.pairwise_cons] at this
    rw [he', List.map_cons, List.map_cons, List.pairwise_cons, List.pairwise_cons]
    refine ⟨?_, this⟩
    intro y hy
    rcases List.mem_cons.mp hy with rfl | hy
    · exact hlt
    · have := this.1 y hy
      show y < T'
      have h2 : e.endTime < T' := hlt
      grind
  · have hb : bEndTime d' = bEndTime d := by
      rw [bEndTime_cons2 _ _ older d' he']
      unfold bEndTime
      rw [he]
      exact getLast_head_endTime e _ older rfl
    rw [hb]; exact hw.last0
  · intro a b hab
    rw [he'] at hab
    obtain ⟨rfl, _⟩ := List.cons.inj hab
    exact Rat.le_refl

/-- `epoch_resolve` keeps the epochs well formed -/
theorem epochResolve_epochsWFV {T' : Q} {d d1 : BDeme} (hw : EpochsWFV T' d)
    (h1 : epochResolve d T' = .ok d1) : EpochsWFV T' d1 := by
  obtain ⟨e, older, he, _, _, hc | hc⟩ := epochResolve_ok h1
  · rw [hc.2]; exact hw
  · obtain ⟨hlt, rfl⟩ := hc
    exact epochsWF_cut hw he hlt rfl

/-- `-n` / `-en` with a positive size keeps the epochs well formed -/
theorem updSize_epochsWF {T' z : Q} {reset : Bool} {d d' : BDeme} (hz : 0 < z) (hw : EpochsWFV T' d)
    (hu : updSize (Sz.ofQ z) reset T' d = .ok d') : EpochsWFV T' d' := by
  unfold updSize at hu
  split at hu
  · obtain ⟨d1, h1, hu⟩ := RV.bind_ok.1 hu
    rw [RV.pure_ok] at hu
    subst hu
    have hw1 : EpochsWFV T' d1 := epochResolve_epochsWFV hw h1
    cases he1 : d1.epochs with
    | nil => exact (hw1.ne he1).elim
    | cons e1 r =>
      have hmh : ∀ f : BEpoch → BEpoch, (modifyHead d1 f).epochs = f e1 :: r := by
        intro f; unfold modifyHead; rw [he1]
      refine epochsWF_setHead hw1 he1 (hmh _) ?_ ?_
      · cases reset <;> rfl
      · cases reset <;> exact hz
  · rw [RV.pure_ok] at hu; subst hu; exact hw

/-- **`-g` / `-eg` keeps the epochs well formed**: when the rate changes, `epoch_resolve` cuts the open epoch
(the sizes keep their coefficient) and the new open epoch gets the rate; its size is not touched -/
theorem updGrowth_epochsWFV {T' gr : Q} {d d' : BDeme} (hw : EpochsWFV T' d)
    (hu : updGrowth gr T' d = .ok d') : EpochsWFV T' d' := by
  unfold updGrowth at hu
  split at hu
  · obtain ⟨d1, h1, hu⟩ := RV.bind_ok.1 hu
    rw [RV.pure_ok] at hu
    subst hu
    have hw1 : EpochsWFV T' d1 := epochResolve_epochsWFV hw h1
    cases he1 : d1.epochs with
    | nil => exact (hw1.ne he1).elim
    | cons e1 r =>
      have hmh : ∀ f : BEpoch → BEpoch, (modifyHead d1 f).epochs = f e1 :: r := by
        intro f; unfold modifyHead; rw [he1]
      exact epochsWF_setHead hw1 he1 (hmh _) rfl (hw1.sizes e1 (by rw [he1]; exact List.mem_cons_self ..))
  · rw [RV.pure_ok] at hu; subst hu; exact hw

/-! ## `Mid` at the start of the group -/

theorem mid_init {P : Nat → Prop} {T T' : Q} {s : BState} (evs : List (Event Num)) (hT : T ≤ T')
    (h : AccInvV T s) : Mid P T T' s s { lm := initLm s evs, params := [] } := by
  refine ⟨Nat.le_refl _, ?_, ?_, ?_, ?_, ?_⟩
  · intro j d hd; exact (h.demes j d hd).ep.mono hT
  · intro j d hd hj; exact (h.demes j d hd).live hj
  · intro j d hd hj hj0; rw [hj] at hj0; cases hj0
  · intro j d hd; exact Or.inr (Or.inl ⟨d, hd, rfl⟩)
  · intro j hj k; exact lmGet_initLm_zero s evs j k hj

/-! ## the options of the fragment -/

section
variable {P : Nat → Prop} {T T' : Q} {s0 s s' : BState} {g g' : GState}

/-- nothing `Mid` looks at changes (`-m`, `-em`) -/
theorem mid_same (h : Mid P T T' s0 s g) (hdm : s'.demes = s.demes) (hj : s'.joined = s.joined)
    (hlm : g'.lm = g.lm) : Mid P T T' s0 s' g' := by
  refine ⟨by rw [hdm]; exact h.n0le, ?_, ?_, ?_, ?_, by rw [hlm]; exact h.zrow⟩
  · intro j d hd; rw [hdm] at hd; exact h.ep j d hd
  · intro j d hd hjn; rw [hdm] at hd; rw [hj] at hjn; exact h.live j d hd hjn
  · intro j d hd hjn; rw [hdm] at hd; rw [hj] at hjn; exact h.dead j d hd hjn
  · intro j d hd; rw [hdm] at hd; exact h.keep j d hd

/-- `-n`, `-en`, `-g`, `-eg` on a deme that is not joined -/
theorem mid_size {pid : Nat} {d d' : BDeme} (h : Mid P T T' s0 s g)
    (hdm : s'.demes = s.demes.set pid d') (hj : s'.joined = s.joined) (hlm : g'.lm = g.lm)
    (hd : s.demes[pid]? = some d) (hnj : s.joined.contains pid = false) (hw : EpochsWFV T' d')
    (hh : SameHeader d' d) (hP : P pid) : Mid P T T' s0 s' g' := by
  refine ⟨by rw [hdm, List.length_set]; exact h.n0le, ?_, ?_, ?_, ?_, by rw [hlm]; exact h.zrow⟩
  · intro j x hx
    rw [hdm] at hx
    rcases getElem?_set_cases hx with ⟨rfl, rfl⟩ | ⟨_, hx⟩
    · exact hw
    · exact h.ep j x hx
  · intro j x hx hjn
    rw [hdm] at hx
    rw [hj] at hjn
    rcases getElem?_set_cases hx with ⟨rfl, rfl⟩ | ⟨_, hx⟩
    · rw [hh.2.1, hh.2.2.1, hh.2.2.2]; exact h.live pid d hd hnj
    · exact h.live j x hx hjn
  · intro j x hx hjn
    rw [hdm] at hx
    rw [hj] at hjn
    rcases getElem?_set_cases hx with ⟨rfl, rfl⟩ | ⟨_, hx⟩
    · rw [hnj] at hjn; cases hjn
    · exact h.dead j x hx hjn
  · intro j x hx
    rw [hdm] at hx
    rcases getElem?_set_cases hx with ⟨rfl, rfl⟩ | ⟨_, hx⟩
    · exact Or.inl hP
    · exact h.keep j x hx

/-- `-es` -/
theorem mid_split {N0 : Q} {pid : Nat} {p : Q} (hN : 0 < N0) (hT0 : 0 ≤ T')
    (hlen : s.demes.length = s.numDemes) (hjlt : ∀ j ∈ s.joined, j < s.numDemes) (h : Mid P T T' s0 s g)
    (hdm : s'.demes = s.demes ++ [newDeme N0 T' s.numDemes]) (hj : s'.joined = s.joined)
    (hlm : g'.lm = splitLm g.lm pid s.numDemes p) : Mid P T T' s0 s' g' := by
  have hnew : s.joined.contains s.demes.length = false := by
    rw [List.contains_eq_mem, decide_eq_false_iff_not]
    intro hm
    have := hjlt _ hm
    omega
  refine ⟨by rw [hdm, List.length_append]; have := h.n0le; omega, ?_, ?_, ?_, ?_, ?_⟩
  · intro j x hx
    rw [hdm] at hx
    rcases getElem?_snoc_cases hx with hx | ⟨_, rfl⟩
    · exact h.ep j x hx
    · exact epochsWF_newDeme hN hT0 _
  · intro j x hx hjn
    rw [hdm] at hx
    rw [hj] at hjn
    rcases getElem?_snoc_cases hx with hx | ⟨_, rfl⟩
    · exact h.live j x hx hjn
    · exact ⟨rfl, rfl, rfl⟩
  · intro j x hx hjn
    rw [hdm] at hx
    rw [hj] at hjn
    rcases getElem?_snoc_cases hx with hx | ⟨rfl, _⟩
    · exact h.dead j x hx hjn
    · rw [hnew] at hjn; cases hjn
  · intro j x hx
    rw [hdm] at hx
    rcases getElem?_snoc_cases hx with hx | ⟨rfl, rfl⟩
    · exact h.keep j x hx
    · exact Or.inr (Or.inr ⟨h.n0le, _, rfl, rfl⟩)
  · intro j hj0
    rw [hlm]
    exact zrow_splitLm _ _ _ _ _ (h.zrow j hj0)

/-- `-ej` of a deme that is not joined and has no size option in the group -/
theorem mid_join {popI popJ : Nat} {d : BDeme} (h : Mid P T T' s0 s g)
    (hdm : s'.demes = s.demes.set popI { d with startTime := .fin T', ancestors := some [Ms.demeName popJ] })
    (hj : s'.joined = s.joined ++ [popI]) (hlm : g'.lm = joinLm g.lm popI popJ)
    (hd : s.demes[popI]? = some d) (hnj : s.joined.contains popI = false) (hTT : T < T')
    (hnP : ¬ P popI) : Mid P T T' s0 s' g' := by
  have hc : ∀ j, s'.joined.contains j = (s.joined.contains j || decide (j = popI)) := by
    intro j; rw [hj, contains_append_single]
  refine ⟨by rw [hdm, List.length_set]; exact h.n0le, ?_, ?_, ?_, ?_, ?_⟩
  · intro j x hx
    rw [hdm] at hx
    rcases getElem?_set_cases hx with ⟨rfl, rfl⟩ | ⟨_, hx⟩
    · exact EpochsWFV.congr (d := d) rfl (h.ep popI d hd)
    · exact h.ep j x hx
  · intro j x hx hjn
    rw [hdm] at hx
    rw [hc, Bool.or_eq_false_iff, decide_eq_false_iff_not] at hjn
    rcases getElem?_set_cases hx with ⟨rfl, _⟩ | ⟨_, hx⟩
    · exact (hjn.2 rfl).elim
    · exact h.live j x hx hjn.1
  · intro j x hx hjn hj0
    rw [hdm] at hx
    rcases getElem?_set_cases hx with ⟨rfl, rfl⟩ | ⟨hne, hx⟩
    · refine ⟨hTT, rfl, (h.live popI d hd hnj).2.2, ?_⟩
      rcases h.keep popI d hd with hp | hk
      · exact (hnP hp).elim
      · exact hk
    · rw [hc] at hjn
      have : decide (j = popI) = false := decide_eq_false (fun e => hne e.symm)
      rw [this, Bool.or_false] at hjn
      exact h.dead j x hx hjn hj0
  · intro j x hx
    rw [hdm] at hx
    rcases getElem?_set_cases hx with ⟨rfl, rfl⟩ | ⟨_, hx⟩
    · exact h.keep popI d hd
    · exact h.keep j x hx
  · intro j hj0
    rw [hlm]
    exact zrow_joinLm _ _ _ _ (h.zrow j hj0)

end

/-- one option of the fragment keeps `Mid` -/
theorem stepEvent_mid {P : Nat → Prop} {N0 T T' : Q} {s0 s s' : BState} {g g' : GState} {ev : Event Num} {c : Cmd}
    (hN : 0 < N0) (hT0 : 0 ≤ T') (hc : cmdOf ev = some c) (hfr : fragCmdV c = true)
    (hPs : ∀ t i x r, c = .setSize t i x r → P (i - 1))
    (hPg : ∀ t i a, c = .setGrowth t i a → P (i - 1))
    (hPj : ∀ t i j, c = .join t i j → ¬ P (i - 1))
    (hmv : isMove c = true → T < T')
    (hlen : s.demes.length = s.numDemes) (hjlt : ∀ j ∈ s.joined, j < s.numDemes)
    (hm : stepEvent N0 T' (s, g) ev = .ok (s', g'))
    (h : Mid P T T' s0 s g) : Mid P T T' s0 s' g' := by
  cases ev with
  | growthRateChange o t alpha =>
    obtain ⟨tq, a, rfl, rfl, rfl⟩ := cmdOf_growthAll hc
    cases hfr
  | popGrowthRateChange o t i alpha =>
    obtain ⟨tq, a, rfl, rfl, rfl⟩ := cmdOf_growth hc
    rw [stepEvent_growth] at hm
    obtain ⟨pid, hpid, hm⟩ := RV.bind_ok.1 hm
    obtain ⟨q, hq, hm⟩ := RV.bind_ok.1 hm
    obtain ⟨s1, hs1, hm⟩ := RV.bind_ok.1 hm
    cases hm
    cases finArg_ok hq
    obtain ⟨q1, q2, q3, q4, q5⟩ := convertPopulationId_ok hpid
    obtain ⟨d, d', hd, hfd, rfl⟩ := modifyDeme_ok hs1
    have hP : P pid := by
      have e : pid = i.toNat - 1 := by omega
      rw [e]; exact hPg _ _ _ rfl
    exact mid_size h rfl rfl rfl hd q5 (updGrowth_epochsWFV (h.ep pid d hd) hfd) (updGrowth_header hfd) hP
  | sizeChange o t x =>
    obtain ⟨tq, a, rfl, rfl, rfl⟩ := cmdOf_sizeAll hc
    cases hfr
  | popSizeChange o t i x =>
    obtain ⟨tq, a, rfl, rfl, rfl⟩ := cmdOf_size hc
    rw [stepEvent_size] at hm
    obtain ⟨pid, hpid, hm⟩ := RV.bind_ok.1 hm
    obtain ⟨q, hq, hm⟩ := RV.bind_ok.1 hm
    obtain ⟨s1, hs1, hm⟩ := RV.bind_ok.1 hm
    cases hm
    cases finArg_ok hq
    obtain ⟨q1, q2, q3, q4, q5⟩ := convertPopulationId_ok hpid
    simp only [fragCmdV, Bool.and_eq_true, decide_eq_true_eq] at hfr
    obtain ⟨d, d', hd, hfd, rfl⟩ := modifyDeme_ok hs1
    have hpos : 0 < a * N0 := Rat.mul_pos hfr.2 hN
    have hP : P pid := by
      have e : pid = i.toNat - 1 := by omega
      rw [e]; exact hPs _ _ _ _ rfl
    exact mid_size h rfl rfl rfl hd q5 (updSize_epochsWF hpos (h.ep pid d hd) hfd) (updSize_header hfd) hP
  | migRateChange o t x =>
    obtain ⟨tq, a, rfl, rfl, rfl⟩ := cmdOf_migAll hc
    cases hfr
  | migEntryChange o t i j rate =>
    rw [stepEvent_migEntry] at hm
    obtain ⟨pi, _, hm⟩ := RV.bind_ok.1 hm
    obtain ⟨pj, _, hm⟩ := RV.bind_ok.1 hm
    split at hm
    · exact (RV.valueErr_bind_ok.1 hm).elim
    · cases hm
      obtain ⟨f1, _, f3, _⟩ := migEntryState_frame s T' pi pj rate
      exact mid_same h f1 f3 rfl
  | migMatrixChange o t npop mm =>
    obtain ⟨tq, rfl, rfl⟩ := cmdOf_migMatrix hc
    cases hfr
  | join o t i j =>
    obtain ⟨tq, rfl, rfl⟩ := cmdOf_join hc
    rw [stepEvent_join] at hm
    obtain ⟨popI, hI, hm⟩ := RV.bind_ok.1 hm
    obtain ⟨popJ, hJ, hm⟩ := RV.bind_ok.1 hm
    obtain ⟨s1, h1, hm⟩ := RV.bind_ok.1 hm
    cases hm
    obtain ⟨d, d', hd, hfd, rfl⟩ := modifyDeme_ok h1
    have hd' := joinDeme_ok hfd
    subst hd'
    obtain ⟨q1, q2, q3, q4, q5⟩ := convertPopulationId_ok hI
    obtain ⟨f1, _, f3, _⟩ := joinMatrix_frame
      { s with demes := s.demes.set popI { d with startTime := .fin T', ancestors := some [Ms.demeName popJ] } } T' popI
    refine mid_join h (d := d) (popJ := popJ) ?_ ?_ rfl hd q5 (hmv rfl) ?_
    · show (joinMatrix _ T' popI).demes = _
      rw [f1]
    · show (joinMatrix _ T' popI).joined ++ [popI] = _
      rw [f3]
    · have e : popI = i.toNat - 1 := by omega
      rw [e]; exact hPj _ _ _ rfl
  | split o t i p =>
    rw [stepEvent_split] at hm
    obtain ⟨pid, _, hm⟩ := RV.bind_ok.1 hm
    obtain ⟨q, _, hm⟩ := RV.bind_ok.1 hm
    split at hm
    · exact (assertionErr_bind_ok.1 hm).elim
    · cases hm
      exact mid_split hN hT0 hlen hjlt h rfl rfl rfl

/-- all options of a group (`Tp`: the time of the previous group) -/
theorem events_mid {P : Nat → Prop} {N0 Tp T' : Q} {s0 : BState} (hN : 0 < N0) (hT0 : 0 ≤ T') :
    ∀ (evs : List (Event Num)) {T : Q} {s s' : BState} {g g' : GState} {σ σ' : St} {L L' : List (Nat × Row)},
    SizeSim T s σ → T ≤ T' → (∀ e ∈ evs, HasCmd e) → (∀ e ∈ evs, 4 * N0 * (cmdOfD e).t = T') →
    (∀ e ∈ evs, fragCmdV (cmdOfD e) = true) →
    (∀ e ∈ evs, ∀ t i x r, cmdOfD e = .setSize t i x r → P (i - 1)) →
    (∀ e ∈ evs, ∀ t i a, cmdOfD e = .setGrowth t i a → P (i - 1)) →
    (∀ e ∈ evs, ∀ t i j, cmdOfD e = .join t i j → ¬ P (i - 1)) →
    (∀ e ∈ evs, isMove (cmdOfD e) = true → Tp < T') →
    evs.foldlM (stepEvent N0 T') (s, g) = .ok (s', g') →
    (evs.map cmdOfD).foldlM (Spec.MsSem.step N0) (σ, L) = .ok (σ', L') →
    Mid P Tp T' s0 s g → Mid P Tp T' s0 s' g' := by
  intro evs
  induction evs with
  | nil =>
    intro T s s' g g' σ σ' L L' _ _ _ _ _ _ _ _ _ hm _ h
    cases hm
    exact h
  | cons e evs ih =>
    intro T s s' g g' σ σ' L L' hsim hT hall htime hfr hPs hPg hPj hmv hm hs h
    rw [List.foldlM_cons] at hm
    obtain ⟨⟨s1, g1⟩, h1, hm⟩ := RV.bind_ok.1 hm
    rw [List.map_cons, List.foldlM_cons] at hs
    obtain ⟨⟨σ1, L1⟩, hs1, hs⟩ := sbind_ok.1 hs
    have hmem : e ∈ e :: evs := List.mem_cons_self ..
    have he := hall e hmem
    have ht := htime e hmem
    have hsim' := stepEvent_sizeSim hsim hT he ht.symm h1 hs1
    have hlen : s.demes.length = s.numDemes := by rw [hsim.len, hsim.num]
    have hmid := stepEvent_mid hN hT0 he (hfr e hmem) (hPs e hmem) (hPg e hmem) (hPj e hmem) (hmv e hmem) hlen hsim.jlt h1 h
    exact ih hsim' Rat.le_refl (fun x hx => hall x (List.mem_cons_of_mem _ hx))
      (fun x hx => htime x (List.mem_cons_of_mem _ hx)) (fun x hx => hfr x (List.mem_cons_of_mem _ hx))
      (fun x hx => hPs x (List.mem_cons_of_mem _ hx)) (fun x hx => hPg x (List.mem_cons_of_mem _ hx))
      (fun x hx => hPj x (List.mem_cons_of_mem _ hx))
      (fun x hx => hmv x (List.mem_cons_of_mem _ hx)) hm hs hmid

/-! ## before the first option -/

/-- the state before the first option -/
theorem accInv_initV (args : Args) (N0 : Q) (hN : 0 < N0) (hpos : 1 ≤ (initState args N0).numDemes) :
    AccInvV 0 (initState args N0) :=
  accInvV_of (MsAcc.accInv_init args N0 hN hpos)

/-- non-vacuity: the default arguments (one population) -/
example : AccInvV 0 (initState {} 1) := accInv_initV {} 1 (by decide) (by decide)

#print axioms updGrowth_epochsWFV
#print axioms events_mid
#print axioms accInv_initV

end Demes.Proofs.MsGrow
