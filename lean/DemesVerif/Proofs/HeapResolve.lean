/-
  Heap abstraction: `Graph.fromdict` = copy, then arbitrary code that holds only the copy.
-/
import DemesVerif.Proofs.HeapFrame
namespace Demes.Proofs.Heap
open Demes Demes.Heap Demes.Spec.C18

theorem lt_length_of_getElem? {α} (s : List α) (a : Nat) (c : α) (h : s[a]? = some c) : a < s.length := by
  rcases Nat.lt_or_ge a s.length with h' | h'
  · exact h'
  · rw [List.getElem?_eq_none h'] at h; cases h

/-- the copy keeps the heap free of dangling references -/
theorem copy_wf (n : Nat) (s : Store) (roots : List Ref) (hwf : WF s roots) (r : Ref) (s' : Store)
    (r' : Ref) (h : copy n s r = some (s', r')) : WF s' (r' :: roots) := by
  obtain ⟨t, ht⟩ := copy_ext n s r s' r' h
  have hle := copy_length_le n s r s' r' h
  obtain ⟨hr', hnew⟩ := copy_fresh_closed n s r s' r' h
  refine ⟨?_, ?_⟩
  · intro x hx
    rcases List.mem_cons.mp hx with rfl | hx
    · exact RefIn.mono (fun a ha => ha.2) x hr'
    · exact RefIn.mono (fun a ha => Nat.lt_of_lt_of_le ha hle) x (hwf.1 x hx)
  · intro a c _ hc x hx
    rcases Nat.lt_or_ge a s.length with hlt | hge
    · have : s[a]? = some c := by rw [ht, List.getElem?_append_left hlt] at hc; exact hc
      exact RefIn.mono (fun b hb => Nat.lt_of_lt_of_le hb hle) x (hwf.2 a c hlt this x hx)
    · exact RefIn.mono (fun b hb => hb.2) x (hnew a c hge hc x hx)

/-- the state in which the library code starts: it holds the copy and nothing else -/
theorem copy_owned (n : Nat) (s : Store) (r : Ref) (s' : Store) (r' : Ref)
    (h : copy n s r = some (s', r')) : Owned (s.length ≤ ·) ⟨s', [r']⟩ := by
  obtain ⟨hr', hnew⟩ := copy_fresh_closed n s r s' r' h
  refine ⟨?_, ?_⟩
  · intro x hx
    simp only [List.mem_singleton] at hx; subst hx
    exact RefIn.mono (fun a ha => ha.1) x hr'
  · intro a c ha hc x hx
    exact RefIn.mono (fun b hb => hb.1) x (hnew a c ha hc x hx)

/-- `fromdict`, objects: copy + any program over the copy leaves every object that existed
before the call as it was -/
theorem fromdict_cells (n : Nat) (s : Store) (r : Ref) (s' : Store) (r' : Ref)
    (h : copy n s r = some (s', r')) (script : List Instr) :
    ∀ a, a < s.length → (run ⟨s', [r']⟩ script).store[a]? = s[a]? := by
  intro a ha
  obtain ⟨t, ht⟩ := copy_ext n s r s' r' h
  have hle := copy_length_le n s r s' r' h
  obtain ⟨_, hsame⟩ := run_owned (s.length ≤ ·) script ⟨s', [r']⟩
    (fun b hb _ => Nat.le_trans hle hb) (copy_owned n s r s' r' h)
  rw [hsame a (Nat.not_le.mpr ha) (Nat.lt_of_lt_of_le ha hle)]
  show s'[a]? = s[a]?
  rw [ht, List.getElem?_append_left ha]

/-- documents rooted in the old part of a heap without dangling references are unchanged
when the old objects are -/
theorem unfold_old (s s' : Store) (roots : List Ref) (hwf : WF s roots)
    (hsame : ∀ a, a < s.length → s'[a]? = s[a]?) (m : Nat) (root : Ref) (hroot : root ∈ roots) :
    unfold m s' root = unfold m s root :=
  fold_sameOn _ _ (· < s.length) s s' hwf.2 hsame m root (hwf.1 root hroot)

theorem fromdict_preserves_input (n : Nat) (s : Store) (roots : List Ref) (hwf : WF s roots)
    (r : Ref) (s' : Store) (r' : Ref) (h : copy n s r = some (s', r')) (script : List Instr)
    (m : Nat) (root : Ref) (hroot : root ∈ roots) :
    unfold m (run ⟨s', [r']⟩ script).store root = unfold m s root :=
  unfold_old s _ roots hwf (fromdict_cells n s r s' r' h script) m root hroot

/-- what `fromdict` computes depends on the denoted document only -/
theorem fromdict_outcome (n : Nat) (s : Store) (r : Ref) (v : Value) (h : unfold n s r = some v) :
    fromdictOutcome n s r = some (Demes.resolve v) := by
  obtain ⟨s', r', hc⟩ := copy_total n s r v h
  simp only [fromdictOutcome, hc, copy_unfold n s r s' r' hc v h, Option.map_some]

/-- resolving again, after the first call ran any code over its copy, gives the same outcome -/
theorem resolve_again (n : Nat) (s : Store) (r : Ref) (hwf : WF s [r]) (v : Value)
    (hv : unfold n s r = some v) (s' : Store) (r' : Ref) (h : copy n s r = some (s', r'))
    (script : List Instr) :
    fromdictOutcome n (run ⟨s', [r']⟩ script).store r = fromdictOutcome n s r := by
  have := fromdict_preserves_input n s [r] hwf r s' r' h script n r (by simp)
  rw [fromdict_outcome n s r v hv, fromdict_outcome n _ r v (by rw [this]; exact hv)]

/-! ### fuel: backward-pointing stores (trees and DAGs built bottom-up) never run out -/

theorem mapO_all_some {α β} (f : α → Option β) : ∀ (xs : List α), (∀ x ∈ xs, ∃ y, f x = some y) →
    ∃ ys, mapO f xs = some ys
  | [], _ => ⟨[], rfl⟩
  | x :: xs, h => by
    obtain ⟨y, hy⟩ := h x (by simp)
    obtain ⟨ys, hys⟩ := mapO_all_some f xs (fun z hz => h z (by simp [hz]))
    exact ⟨y :: ys, mapO_cons_of f x xs y ys hy hys⟩

theorem fold_fuel_succ {β : Type} (leaf : Value → β) (node : Addr → Cell → List β → β) (s : Store) :
    ∀ n r v, fold leaf node n s r = some v → fold leaf node (n + 1) s r = some v := by
  intro n
  induction n with
  | zero =>
    intro r v h
    cases r with
    | atom w => simpa [fold] using h
    | addr a => simp [fold] at h
  | succ n ih =>
    intro r v h
    cases r with
    | atom w => simpa [fold] using h
    | addr a =>
      obtain ⟨m, c, vs, hm, hc, hvs, rfl⟩ := fold_addr_some leaf node (n + 1) s a v h
      cases hm
      exact fold_addr_of leaf node (n + 1) s a c vs hc
        (mapO_mono _ _ c.refs vs (fun x _ y hy => ih x y hy) hvs)

theorem fold_fuel_le {β : Type} (leaf : Value → β) (node : Addr → Cell → List β → β) (s : Store)
    (n m : Nat) (hnm : n ≤ m) (r : Ref) (v : β) (h : fold leaf node n s r = some v) :
    fold leaf node m s r = some v := by
  induction hnm with
  | refl => exact h
  | step _ ih => exact fold_fuel_succ leaf node s _ r v ih

theorem unfold_backward (s : Store) (hb : Backward s) :
    ∀ a, a < s.length → ∃ v, unfold (a + 1) s (.addr a) = some v := by
  intro a
  induction a using Nat.strongRecOn with
  | _ a ih =>
    intro ha
    have hc : s[a]? = some s[a] := List.getElem?_eq_getElem ha
    have : ∀ x ∈ (s[a]).refs, ∃ y, unfold a s x = some y := by
      intro x hx
      have hx' := hb a _ hc x hx
      cases x with
      | atom w => exact ⟨w, unfold_atom a s w⟩
      | addr b =>
        have hlt : b < a := hx'
        obtain ⟨v, hv⟩ := ih b hlt (Nat.lt_trans hlt ha)
        exact ⟨v, fold_fuel_le _ _ s (b + 1) a hlt _ v hv⟩
    obtain ⟨vs, hvs⟩ := mapO_all_some _ _ this
    exact ⟨_, unfold_addr_of a s a _ vs hc hvs⟩

/-- on a backward-pointing store the fuel `s.length` is enough to unfold any allocated root -/
theorem unfold_total_backward (s : Store) (hb : Backward s) (r : Ref) (hr : RefIn (· < s.length) r) :
    ∃ v, unfold s.length s r = some v := by
  cases r with
  | atom w => exact ⟨w, unfold_atom _ s w⟩
  | addr a =>
    have ha : a < s.length := hr
    obtain ⟨v, hv⟩ := unfold_backward s hb a ha
    exact ⟨v, fold_fuel_le _ _ s (a + 1) s.length ha _ v hv⟩

/-- …and `deepcopyUnaliased` succeeds and denotes the same document -/
theorem deepcopy_total_backward (s : Store) (hb : Backward s) (r : Ref) (hr : RefIn (· < s.length) r) :
    ∃ v s' r', unfold (s.length + 1) s r = some v ∧ deepcopyUnaliased s r = some (s', r') ∧
      unfold (s.length + 1) s' r' = some v := by
  obtain ⟨v, hv⟩ := unfold_total_backward s hb r hr
  have hv' := fold_fuel_succ _ _ s s.length r v hv
  obtain ⟨s', r', hc⟩ := copy_total (s.length + 1) s r v hv'
  exact ⟨v, s', r', hv', hc, copy_unfold _ s r s' r' hc v hv'⟩

end Demes.Proofs.Heap
