/-
  C17 — file handles are never leaked and caller streams never closed.

  Model side: `Model/Handles.lean`, a control-flow model of `demes/load_dump.py`:
  `run : Request → Result` for a request = entry point × kind of `filename` argument × fault
  plan (stage and document index of the one failure, or none) × number of documents × what
  the consumer does with the iterator of `load_all`.  The result carries the flags of every
  handle the library created (`true` = still open), the closed-flag of the caller's stream and
  an event log.
  Spec side: `Spec/C17.lean` (`settled`, `allClosed`, `callerStreamOpen`, `handlesOK`,
  `replay`).

  All theorems quantify over every request: every entry point, target, format (including an
  unknown one), fault stage, fault document index `k`, number of documents `n` and consumer
  script — no bounds.  CPython's `with` / `finally` / generator semantics are trusted; they
  are what the Model's `tryFin`, `genNext` and `genClose` encode.
-/
import DemesVerif.Proofs.HandlesTrace
namespace Demes.Theorems
open Demes.Handles Demes.Spec

/-- **The property.**  Once the call has returned or raised, or the iterator of `load_all` is
finished (it ran off the end of the stream, a `next` raised, it was closed, or it was dropped
and finalised), every handle the library created is closed and the caller's stream is not. -/
theorem handles_closed (r : Request) (h : settled (run r).outcome) : handlesOK (run r) :=
  Proofs.Handles.handles_closed r h

/-- Every entry point other than `load_all` is settled as soon as it is over: the hypothesis
of `handles_closed` always holds for them. -/
theorem call_settled (r : Request) (h : r.entry ≠ .loadAll) : settled (run r).outcome :=
  Proofs.Handles.call_settled r h

/-- The caller's stream is not closed at any moment — also while an iterator is suspended or
abandoned. -/
theorem caller_stream_never_closed (r : Request) : callerStreamOpen (run r).state :=
  Proofs.Handles.caller_stream_never_closed r

/-- Whatever the consumer did before, after `exhaust` (a `for` loop over the iterator, which
terminates for every number of documents), `close` or `collect` the iterator is finished. -/
theorem iterator_settled (target : Target) (plan : Plan) (n : Nat) (script : List Step) (st : Step)
    (hst : st ≠ .next) :
    settled (run { entry := .loadAll, target, plan, n, script := script ++ [st] }).outcome :=
  Proofs.Handles.iterator_settled target plan n script st hst

/-- The consumer shapes of the property text: any number of `next` calls (more or fewer than
there are documents, before or after the failing document), then exhaust or close: the
iterator is finished, every library handle is closed, the caller's stream is not. -/
theorem consumer_closed (target : Target) (plan : Plan) (n nexts : Nat) (e : Ending)
    (he : e ≠ .abandon) :
    settled (run { entry := .loadAll, target, plan, n, script := consumer nexts e }).outcome
      ∧ handlesOK (run { entry := .loadAll, target, plan, n, script := consumer nexts e }) :=
  Proofs.Handles.consumer_closed target plan n nexts e he

/-- **Outside the property:** an iterator abandoned while suspended (neither exhausted nor
closed) keeps exactly one handle open if it was given a path, none if it was given a stream;
the caller's stream is still not closed.  The handle stays open until the iterator is closed
or collected (`iterator_settled` + `handles_closed` with `Step.close` / `Step.collect`). -/
theorem abandoned_iterator (r : Request) (f : FileRef) (i : Nat)
    (h : (run r).outcome = .iterator (.suspended f i)) :
    (run r).state.handles = (if r.target.toObj.isPath then [true] else [])
      ∧ callerStreamOpen (run r).state :=
  Proofs.Handles.abandoned_iterator r f i h

/-- An iterator that was never advanced has opened nothing. -/
theorem unstarted_iterator (r : Request) (h : (run r).outcome = .iterator .notStarted) :
    (run r).state.handles = [] ∧ callerStreamOpen (run r).state :=
  Proofs.Handles.unstarted_iterator r h

/-- The event log agrees with the flags: replaying the `opened` / `closed` / `callerClosed`
events of the log gives the final handle flags and caller-stream flag. -/
theorem trace_faithful (r : Request) :
    replay (run r).state.trace = ((run r).state.handles, (run r).state.callerClosed) :=
  Proofs.Handles.trace_faithful r

/-! ### non-vacuity -/

/-- `load_all(path)` over 3 documents, the second invalid, consumed with `next` three times:
one handle is opened, the first document is yielded, the second `next` raises after the
handle is closed, the third `next` answers StopIteration; the outcome is settled. -/
example :
    run { entry := .loadAll, target := .path, plan := some ⟨.resolve, 1⟩, n := 3,
          script := [.next, .next, .next] }
      = { outcome := .iterator (.done (.failed (.at .resolve 1))),
          state := { handles := [false], callerClosed := false,
                     trace := [.callOpen, .opened 0, .stage .parse 0, .stage .null 0,
                               .stage .unstringify 0, .stage .resolve 0, .yielded 0,
                               .stage .parse 1, .stage .null 1, .stage .unstringify 1,
                               .stage .resolve 1, .closed 0, .raised (.at .resolve 1), .stop] } } := by
  decide +kernel

/-- the hypothesis `settled` holds there -/
example :
    settled (run { entry := .loadAll, target := .path, plan := some ⟨.resolve, 1⟩, n := 3,
                   script := [.next, .next, .next] }).outcome := by
  decide +kernel

/-- the abandoned iterator: a handle really is open (so `allClosed` is not trivially true of
the Model, and `settled` is a necessary hypothesis of `handles_closed`) … -/
example :
    (run { entry := .loadAll, target := .pathlike, plan := none, n := 2, script := [.next] })
      = { outcome := .iterator (.suspended (.handle 0) 1),
          state := { handles := [true], callerClosed := false,
                     trace := [.callOpen, .opened 0, .stage .parse 0, .stage .null 0,
                               .stage .unstringify 0, .stage .resolve 0, .yielded 0] } } := by
  decide +kernel

/-- … until it is collected -/
example :
    (run { entry := .loadAll, target := .pathlike, plan := none, n := 2,
           script := [.next, .collect] }).state.handles = [false] := by
  decide +kernel

/-- `load(path, format="json")` with a null value: the file is closed *before* the null
check runs -/
example :
    run { entry := .load .json, target := .path, plan := some ⟨.null, 0⟩ }
      = { outcome := .raised (.at .null 0),
          state := { handles := [false], callerClosed := false,
                     trace := [.callOpen, .opened 0, .stage .parse 0, .closed 0, .stage .null 0,
                               .raised (.at .null 0)] } } := by
  decide +kernel

/-- `dump(graph, path)` whose `asdict` fails: no file is opened at all; with a failing
serialiser the file is opened and closed -/
example :
    (run { entry := .dump .yaml, target := .path, plan := some ⟨.simplify, 0⟩ }).state.trace
        = [.stage .simplify 0, .raised (.at .simplify 0)]
    ∧ (run { entry := .dump .yaml, target := .path, plan := some ⟨.serialise, 0⟩ }).state.trace
        = [.stage .simplify 0, .callOpen, .opened 0, .stage .serialise 0, .closed 0,
           .raised (.at .serialise 0)] := by
  decide +kernel

/-- `dump_all` over 4 graphs to a path, the third unserialisable: opened once, closed once -/
example :
    (run { entry := .dumpAll, target := .path, plan := some ⟨.serialise, 2⟩, n := 4 })
      = { outcome := .raised (.at .serialise 2),
          state := { handles := [false], callerClosed := false,
                     trace := [.callOpen, .opened 0, .stage .simplify 0, .stage .serialise 0,
                               .stage .simplify 1, .stage .serialise 1, .stage .simplify 2,
                               .stage .serialise 2, .closed 0, .raised (.at .serialise 2)] } } := by
  decide +kernel

/-- a caller's stream: nothing is opened, nothing is closed -/
example :
    (run { entry := .dumpAll, target := .stream, plan := some ⟨.serialise, 0⟩, n := 1 }).state
      = { handles := [], callerClosed := false,
          trace := [.callOpen, .stage .simplify 0, .stage .serialise 0,
                    .raised (.at .serialise 0)] } := by
  decide +kernel

/-- `loads(string)`: the library's own StringIO is passed on as a stream, not closed by
`_open_file_polymorph` (it *is* the polymorph) and closed by its own `with`, which encloses
the whole of `load_asdict` but not the resolution -/
example :
    (run { entry := .loads .yaml, target := .stream, plan := some ⟨.resolve, 0⟩ }).state
      = { handles := [false], callerClosed := false,
          trace := [.newStringIO, .opened 0, .callOpen, .stage .parse 0, .stage .null 0,
                    .stage .unstringify 0, .closed 0, .stage .resolve 0,
                    .raised (.at .resolve 0)] } := by
  decide +kernel

/-- the Spec's `replay` distinguishes good logs from bad ones -/
example : replay [.callOpen, .opened 0, .stage .parse 0] = ([true], false)
    ∧ replay [.callOpen, .callerClosed] = ([], true)
    ∧ replay [.callOpen, .opened 0, .stage .parse 0, .closed 0] = ([false], false) := by
  decide +kernel

end Demes.Theorems
