/-
  Spec: the demography an ms command line denotes, and the demography a graph denotes.

  `msSem` is a backwards-time interpreter of an ms command written from the description of
  the options in the ms manual (DESIGN §7 C07, §9), independently of demes/ms.py:
  populations 1…n; per population a size and a growth rate; a migration matrix; events are
  applied in time order, events at equal times in command-line order; `-en` and `-eN` reset the
  growth rate, `-n` does not; `-es t i p` appends population n+1 (size N0, growth 0, no
  migration) and moves a lineage of `i` there with probability `1-p`; `-ej t i j` moves all
  lineages of `i` to `j` and sets every migration rate of `i` to zero; matrix entries that
  involve an already joined population are ignored by later `-eM` and `-ema` (DESIGN §9).

  Both interpreters produce a `DemogSem`, in the units of a graph in generations
  (time `4·N0·t`, size `N0·x`, migration rate `M/(4·N0)`, growth `α/(4·N0)`):
  * per population its lifetime `[lo, hi)` and, over it, segments
    (interval, size at the recent end, growth rate / size at the old end);
  * the migration step function: per ordered pair (dest, source) the maximal intervals of
    constant non-zero rate;
  * per event time the backwards lineage-movement matrix (rows: populations alive just
    before, i.e. on the recent side; only rows that are not the identity are listed).

  Only the lexing of numbers (`pyInt`, `pyFloat`) and the symbolic size type `Sz` are shared
  with the Model.
-/
import DemesVerif.Model.Ms
namespace Demes.Spec.MsSem
open Demes
open Demes.Ms (Sz pyInt pyFloat)

/-! ## The observable -/

structure Seg where
  t0 : Q
  t1 : ETime
  size : Sz                  -- at `t0`
  growth : Option Q          -- ms side: `size(t) = size · exp(-growth·(t - t0))`
  sizeOld : Option Sz        -- size at `t1` (absent when `t1 = ∞` and growth ≠ 0)
  fn : String                -- graph side: the epoch's size_function
  deriving Repr, DecidableEq

structure PopSem where
  id : Nat                   -- 1-based population number
  lo : Q
  hi : ETime
  segs : List Seg            -- from the present backwards
  deriving Repr, DecidableEq

structure MigSeg where
  dest : Nat
  source : Nat
  t0 : Q
  t1 : ETime
  rate : Q
  deriving Repr, DecidableEq

structure Move where
  time : Q
  rows : List (Nat × List (Nat × Q))
  deriving Repr, DecidableEq

structure DemogSem where
  pops : List PopSem
  migs : List MigSeg
  moves : List Move
  deriving Repr, DecidableEq

/-! ## Sparse rows -/

abbrev Row := List (Nat × Q)

def Row.get (r : Row) (k : Nat) : Q := (r.lookup k).getD 0

def Row.set (r : Row) (k : Nat) (v : Q) : Row :=
  if r.any (fun e => e.1 = k) then r.map (fun e => if e.1 = k then (k, v) else e) else r ++ [(k, v)]

def Row.add (r : Row) (k : Nat) (v : Q) : Row := r.set k (r.get k + v)

def insertKey {β} (x : Nat × β) : List (Nat × β) → List (Nat × β)
  | [] => [x]
  | y :: ys => if x.1 ≤ y.1 then x :: y :: ys else y :: insertKey x ys

def sortKey {β} (xs : List (Nat × β)) : List (Nat × β) := xs.foldr insertKey []

/-- canonical form of a movement matrix: zero entries and identity rows dropped, sorted -/
def canonRows (rows : List (Nat × Row)) : List (Nat × List (Nat × Q)) :=
  sortKey ((rows.map (fun (ir : Nat × Row) => (ir.1, sortKey (ir.2.filter (fun e => e.2 ≠ 0))))).filter
    (fun ir => ir.2 ≠ [(ir.1, (1 : Q))]))

/-! ## ms commands -/

inductive Cmd where
  | setSize (t : Q) (i : Nat) (x : Q) (resetGrowth : Bool)
  | setSizeAll (t : Q) (x : Q)
  | setGrowth (t : Q) (i : Nat) (a : Q)
  | setGrowthAll (t : Q) (a : Q)
  | setMigEntry (t : Q) (i j : Nat) (m : Q)
  | setMigAll (t : Q) (x : Q)
  | setMigMatrix (t : Q) (npop : Option Nat) (entries : List String)
  | split (t : Q) (i : Nat) (p : Q)
  | join (t : Q) (i j : Nat)
  deriving Repr

def Cmd.t : Cmd → Q
  | .setSize t .. => t | .setSizeAll t _ => t | .setGrowth t .. => t | .setGrowthAll t _ => t
  | .setMigEntry t .. => t | .setMigAll t _ => t | .setMigMatrix t .. => t | .split t .. => t | .join t .. => t

structure Parsed where
  npop : Nat := 1
  islandRate : Q := 0
  initial : List Cmd := []
  events : List Cmd := []
  sawI : Bool := false
  deriving Repr

def num (s : String) : Except String Q :=
  match pyFloat s with
  | some (.fin q) => pure q
  | _ => throw s!"not a finite number: {s}"

def nonneg (s : String) : Except String Q := do
  let q ← num s
  if q < 0 then throw s!"negative: {s}" else pure q

def idx (s : String) : Except String Nat :=
  match pyInt s with
  | some i => if i ≥ 1 then pure i.toNat else throw s!"population index {s}"
  | none => throw s!"not an integer: {s}"

/-- options without demographic meaning, with their number of arguments -/
def ignoredArity : List (String × Nat) :=
  [("-t", 1), ("-s", 1), ("-T", 0), ("-L", 0), ("-r", 2), ("-c", 2), ("-p", 1), ("-seeds", 3)]

def isNumberLike (s : String) : Bool := (pyFloat s).isSome

/-- `-I npop n1 … n_npop [4N0m]` -/
def findStructure : List String → Except String (Nat × Q)
  | [] => pure (1, 0)
  | "-I" :: npopS :: rest => do
    let npop ← idx npopS
    if rest.length < npop then throw "-I: too few sample sizes"
    match rest.drop npop with
    | r :: _ => if isNumberLike r && !(r.startsWith "-") then do pure (npop, ← nonneg r) else pure (npop, 0)
    | [] => pure (npop, 0)
  | _ :: rest => findStructure rest

/-- parse the option list with the arities of the manual -/
def parseFrom (npop0 : Nat) : Nat → List String → Parsed → Except String Parsed
  | 0, _, acc => pure acc
  | _, [], acc => pure acc
  | fuel + 1, flag :: rest, acc =>
    let ini (c : Cmd) (k : Nat) := parseFrom npop0 fuel (rest.drop k) { acc with initial := acc.initial ++ [c] }
    let ev (c : Cmd) (k : Nat) := parseFrom npop0 fuel (rest.drop k) { acc with events := acc.events ++ [c] }
    let a (k : Nat) : String := rest.getD k ""
    let need (k : Nat) : Except String Unit := if rest.length < k then throw s!"{flag}: too few arguments" else pure ()
    if flag = "-I" then do
      if acc.sawI then throw "unknown option -I (given twice)"
      need 1
      let npop ← idx (a 0)
      need (1 + npop)
      let hasRate := match rest.drop (1 + npop) with
        | r :: _ => isNumberLike r && !(r.startsWith "-")
        | [] => false
      parseFrom npop0 fuel (rest.drop (1 + npop + (if hasRate then 1 else 0))) { acc with sawI := true }
    else if flag = "-n" then do need 2; ini (.setSize 0 (← idx (a 0)) (← nonneg (a 1)) false) 2
    else if flag = "-g" then do need 2; ini (.setGrowth 0 (← idx (a 0)) (← num (a 1))) 2
    else if flag = "-G" then do need 1; ini (.setGrowthAll 0 (← num (a 0))) 1
    else if flag = "-m" then do need 3; ini (.setMigEntry 0 (← idx (a 0)) (← idx (a 1)) (← nonneg (a 2))) 3
    else if flag = "-ma" then do
      need (npop0 * npop0)
      ini (.setMigMatrix 0 none (rest.take (npop0 * npop0))) (npop0 * npop0)
    else if flag = "-eG" then do need 2; ev (.setGrowthAll (← nonneg (a 0)) (← num (a 1))) 2
    else if flag = "-eg" then do need 3; ev (.setGrowth (← nonneg (a 0)) (← idx (a 1)) (← num (a 2))) 3
    else if flag = "-eN" then do need 2; ev (.setSizeAll (← nonneg (a 0)) (← nonneg (a 1))) 2
    else if flag = "-en" then do need 3; ev (.setSize (← nonneg (a 0)) (← idx (a 1)) (← nonneg (a 2)) true) 3
    else if flag = "-eM" then do need 2; ev (.setMigAll (← nonneg (a 0)) (← nonneg (a 1))) 2
    else if flag = "-em" then do need 4; ev (.setMigEntry (← nonneg (a 0)) (← idx (a 1)) (← idx (a 2)) (← nonneg (a 3))) 4
    else if flag = "-ema" then do
      need 2
      let n ← idx (a 1)
      need (2 + n * n)
      ev (.setMigMatrix (← nonneg (a 0)) (some n) ((rest.drop 2).take (n * n))) (2 + n * n)
    else if flag = "-es" then do
      need 3
      let p ← num (a 2)
      if p < 0 || p > 1 then throw "-es: p outside [0,1]"
      ev (.split (← nonneg (a 0)) (← idx (a 1)) p) 3
    else if flag = "-ej" then do need 3; ev (.join (← nonneg (a 0)) (← idx (a 1)) (← idx (a 2))) 3
    else match ignoredArity.lookup flag with
      | some k => do need k; parseFrom npop0 fuel (rest.drop k) acc
      | none => throw s!"unknown option {flag}"

def parse (tokens : List String) : Except String Parsed := do
  let (npop, rate) ← findStructure tokens
  parseFrom npop tokens.length tokens { npop := npop, islandRate := rate }

/-! ## The interpreter -/

structure Pop where
  lo : Q
  hi : ETime := .inf
  t0 : Q
  size0 : Sz
  growth : Q := 0
  segs : List Seg := []
  deriving Repr

abbrev Mat := List (List Q)

structure St where
  pops : List Pop
  mat : Mat
  snaps : List (Q × Mat)          -- chronological
  moves : List Move := []
  deriving Repr

def Pop.sizeAt (p : Pop) (T : Q) : Sz := p.size0.mulExp (-p.growth * (T - p.t0))

def mkSeg (t0 : Q) (t1 : ETime) (size : Sz) (growth : Q) : Seg :=
  let old : Option Sz := match t1 with
    | .fin b => some (size.mulExp (-growth * (b - t0)))
    | .inf => if growth = 0 then some size else none
  { t0 := t0, t1 := t1, size := size, growth := some growth, sizeOld := old, fn := "" }

/-- a change of size and/or growth of one population at time `T` -/
def Pop.change (p : Pop) (T : Q) (newSize : Option Sz) (newGrowth : Option Q) : Pop :=
  if p.t0 < T then
    { p with segs := p.segs ++ [mkSeg p.t0 (.fin T) p.size0 p.growth], t0 := T,
             size0 := newSize.getD (p.sizeAt T), growth := newGrowth.getD p.growth }
  else
    { p with size0 := newSize.getD p.size0, growth := newGrowth.getD p.growth }

def alive (p : Pop) : Bool := p.hi = .inf

def St.pop (s : St) (i : Nat) : Except String Pop :=
  match s.pops[i - 1]? with
  | some p => if i ≥ 1 && alive p then pure p else throw s!"population {i} is not available (joined or out of range)"
  | none => throw s!"population {i} is not available (joined or out of range)"

def St.setPop (s : St) (i : Nat) (p : Pop) : St := { s with pops := s.pops.set (i - 1) p }

def matGet (m : Mat) (i j : Nat) : Q := (m.getD i []).getD j 0
def matSet (m : Mat) (i j : Nat) (v : Q) : Mat := m.modify i (fun r => r.set j v)

def St.snap (s : St) (T : Q) (m : Mat) : St := { s with mat := m, snaps := s.snaps ++ [(T, m)] }

/-- one option; `L` is the lineage-movement matrix of the current time group -/
def step (N0 : Q) (sl : St × List (Nat × Row)) (c : Cmd) : Except String (St × List (Nat × Row)) := do
  let (s, L) := sl
  let T := 4 * N0 * c.t
  let n := s.pops.length
  match c with
  | .setSize _ i x reset =>
    let p ← s.pop i
    pure (s.setPop i (p.change T (some (Sz.ofQ (x * N0))) (if reset then some 0 else none)), L)
  | .setSizeAll _ x =>
    pure ({ s with pops := s.pops.map (fun p => if alive p then p.change T (some (Sz.ofQ (x * N0))) (some 0) else p) }, L)
  | .setGrowth _ i a =>
    let p ← s.pop i
    pure (s.setPop i (p.change T none (some (a / (4 * N0)))), L)
  | .setGrowthAll _ a =>
    pure ({ s with pops := s.pops.map (fun p => if alive p then p.change T none (some (a / (4 * N0))) else p) }, L)
  | .setMigEntry _ i j m =>
    let _ ← s.pop i
    let _ ← s.pop j
    if i = j then throw "diagonal migration entry"
    pure (s.snap T (matSet s.mat (i - 1) (j - 1) (m / (4 * N0))), L)
  | .setMigAll _ x =>
    let ok (k : Nat) : Bool := (s.pops[k]?.map alive).getD false
    let m := (List.range n).map (fun i => (List.range n).map (fun j =>
      if i ≠ j && ok i && ok j then x / ((n : Q) - 1) / (4 * N0) else matGet s.mat i j))
    pure (s.snap T m, L)
  | .setMigMatrix _ npop entries =>
    match npop with
    | some k => if k ≠ n then throw "-ema: npop differs from the current number of populations"
    | none => pure ()
    if entries.length ≠ n * n then throw "migration matrix: wrong number of entries"
    let ok (k : Nat) : Bool := (s.pops[k]?.map alive).getD false
    let rows ← (List.range n).mapM (fun i => (List.range n).mapM (fun j =>
      if i = j || !(ok i && ok j) then pure (0 : Q)
      else do
        let v ← nonneg (entries.getD (i * n + j) "")
        pure (v / (4 * N0))))
    pure (s.snap T rows, L)
  | .split _ i p =>
    let _ ← s.pop i
    let newPop : Pop := { lo := T, t0 := T, size0 := Sz.ofQ N0 }
    let m := s.mat.map (fun r => r ++ [0]) ++ [List.replicate (n + 1) 0]
    let L := L.map (fun (ir : Nat × Row) =>
      let v := ir.2.get i
      (ir.1, (ir.2.set i (v * p)).set (n + 1) (v * (1 - p))))
    pure (({ s with pops := s.pops ++ [newPop] }).snap T m, L)
  | .join _ i j =>
    let p ← s.pop i
    let _ ← s.pop j
    if i = j then throw "-ej: i = j"
    let p := { p with hi := .fin T, t0 := T, size0 := p.sizeAt T,
                      segs := if p.t0 < T then p.segs ++ [mkSeg p.t0 (.fin T) p.size0 p.growth] else p.segs }
    let m := (List.range n).map (fun a => (List.range n).map (fun b =>
      if a = i - 1 || b = i - 1 then 0 else matGet s.mat a b))
    let L := L.map (fun (ir : Nat × Row) =>
      let v := ir.2.get i
      (ir.1, (ir.2.set i 0).add j v))
    pure ((s.setPop i p).snap T m, L)

def isMove : Cmd → Bool
  | .split .. => true
  | .join .. => true
  | _ => false

/-- all options of one time -/
def stepGroup (N0 : Q) (s : St) (group : List Cmd) : Except String St := do
  let T := 4 * N0 * ((group.head?.map Cmd.t).getD 0)
  let L0 : List (Nat × Row) := ((s.pops.zipIdx).filter (fun pi => alive pi.1)).map (fun pi => (pi.2 + 1, [(pi.2 + 1, (1 : Q))]))
  let (s, L) ← group.foldlM (step N0) (s, L0)
  if group.any isMove then
    let rows := canonRows L
    pure (if rows.isEmpty then s else { s with moves := s.moves ++ [{ time := T, rows := rows }] })
  else pure s

def insertCmd (c : Cmd) : List Cmd → List Cmd
  | [] => [c]
  | d :: ds => if c.t ≤ d.t then c :: d :: ds else d :: insertCmd c ds

/-- the migration step function from the chronological matrix snapshots -/
def migSegs (snaps : List (Q × Mat)) (n : Nat) : List MigSeg :=
  -- keep the last matrix of every time
  let dedup : List (Q × Mat) := snaps.foldl (fun acc tm =>
    match acc.getLast? with
    | some (t, _) => if t = tm.1 then acc.dropLast ++ [tm] else acc ++ [tm]
    | none => [tm]) []
  let ivs : List (Q × ETime × Mat) := (dedup.zipIdx).map (fun (tm, k) =>
    (tm.1, (match dedup[k + 1]? with | some nx => ETime.fin nx.1 | none => ETime.inf), tm.2))
  (List.range n).flatMap (fun i => (List.range n).flatMap (fun j =>
    if i = j then [] else
    ivs.foldl (fun (acc : List MigSeg) (iv : Q × ETime × Mat) =>
      let r := matGet iv.2.2 i j
      if r = 0 then acc
      else match acc.getLast? with
        | some last =>
          if last.t1 = ETime.fin iv.1 && last.rate = r then acc.dropLast ++ [{ last with t1 := iv.2.1 }]
          else acc ++ [{ dest := i + 1, source := j + 1, t0 := iv.1, t1 := iv.2.1, rate := r }]
        | none => [{ dest := i + 1, source := j + 1, t0 := iv.1, t1 := iv.2.1, rate := r }]) []))

/-- the demography an ms command denotes -/
def msSem (tokens : List String) (N0 : Q) : Except String DemogSem := do
  if N0 ≤ 0 then throw "N0 must be positive"
  let pr ← parse tokens
  let n := pr.npop
  let mat0 : Mat := (List.range n).map (fun i => (List.range n).map (fun j =>
    if i = j then 0 else pr.islandRate / ((n : Q) - 1) / (4 * N0)))
  let s0 : St := { pops := List.replicate n { lo := 0, t0 := 0, size0 := Sz.ofQ N0 }, mat := mat0, snaps := [(0, mat0)] }
  let cmds := pr.initial ++ pr.events.foldr insertCmd []
  let groups := cmds.splitBy (fun a b => a.t == b.t)
  let s ← groups.foldlM (stepGroup N0) s0
  let pops : List PopSem := (s.pops.zipIdx).filterMap (fun (p, k) =>
    if decide (ETime.fin p.lo < p.hi) then
      let segs := if decide (ETime.fin p.t0 < p.hi) then p.segs ++ [mkSeg p.t0 p.hi p.size0 p.growth] else p.segs
      some { id := k + 1, lo := p.lo, hi := p.hi, segs := segs }
    else none)
  pure { pops := pops, migs := migSegs s.snaps s.pops.length, moves := s.moves }

/-! ## The demography of a graph -/

def popId (names : List String) (nm : String) : Except String Nat :=
  match names.findIdx? (· = nm) with
  | some k => pure (k + 1)
  | none => throw s!"deme {nm} is not in the population list"

def insertMig (x : MigSeg) : List MigSeg → List MigSeg
  | [] => [x]
  | y :: ys => if x.t0 ≤ y.t0 then x :: y :: ys else y :: insertMig x ys

/-- the demography of a graph in generations; `names[k-1]` is the deme that is population
`k` (default: the graph's deme order); `sz` decodes a stored size -/
def graphSemWith (sz : Q → Sz) (g : Graph) (names : Option (List String)) : Except String DemogSem := do
  let names := names.getD (g.demes.map (·.name))
  let pops ← g.demes.mapM (fun d => do
    let id ← popId names d.name
    let segs := d.epochs.reverse.map (fun (e : Epoch) =>
      ({ t0 := e.endTime, t1 := e.startTime, size := sz e.endSize, growth := none,
         sizeOld := some (sz e.startSize), fn := e.sizeFunction } : Seg))
    pure ({ id := id, lo := d.endTime, hi := d.startTime, segs := segs } : PopSem))
  let pops := sortKey (pops.map (fun p => (p.id, p))) |>.map (·.2)
  -- migrations
  let raw ← g.migrations.mapM (fun m => do
    pure ({ dest := ← popId names m.dest, source := ← popId names m.source, t0 := m.endTime, t1 := m.startTime, rate := m.rate } : MigSeg))
  let n := names.length
  let migs := (List.range n).flatMap (fun i => (List.range n).flatMap (fun j =>
    let mine := ((raw.filter (fun m => m.dest = i + 1 && m.source = j + 1 && m.rate ≠ 0)).foldr insertMig [])
    mine.foldl (fun (acc : List MigSeg) (m : MigSeg) =>
      match acc.getLast? with
      | some last => if last.t1 = ETime.fin m.t0 && last.rate = m.rate then acc.dropLast ++ [{ last with t1 := m.t1 }] else acc ++ [m]
      | none => [m]) []))
  -- lineage movements
  let times : List Q := (g.pulses.map (·.time) ++ g.demes.filterMap (fun d => match d.startTime with | .fin t => some t | .inf => none))
  let times := (times.foldr (fun t acc => if acc.contains t then acc else Demes.Ms.insertBy (fun a b => decide (a ≤ b)) t acc) [])
  let moves ← times.mapM (fun T => do
    let rowsD := g.demes.filter (fun d => decide (d.endTime < T) && decide (ETime.fin T ≤ d.startTime))
    let L0 ← rowsD.mapM (fun d => do let id ← popId names d.name; pure (id, ([(id, (1 : Q))] : Row)))
    let ps := (g.pulses.filter (fun p => p.time = T)).reverse
    let L1 ← ps.foldlM (fun (L : List (Nat × Row)) (p : Pulse) => do
      let dest ← popId names p.dest
      let srcs ← p.sources.mapM (popId names)
      let tot := p.proportions.foldl (· + ·) 0
      pure (L.map (fun (ir : Nat × Row) =>
        let m := ir.2.get dest
        if m = 0 then ir else
        (ir.1, (srcs.zip p.proportions).foldl (fun (r : Row) sp => r.add sp.1 (m * sp.2)) (ir.2.set dest (m * (1 - tot)))))) ) L0
    let born := g.demes.filter (fun d => d.startTime = ETime.fin T)
    let L2 ← born.foldlM (fun (L : List (Nat × Row)) (d : Deme) => do
      let me ← popId names d.name
      let ancs ← d.ancestors.mapM (popId names)
      pure (L.map (fun (ir : Nat × Row) =>
        let m := ir.2.get me
        if m = 0 then ir else
        (ir.1, (ancs.zip d.proportions).foldl (fun (r : Row) ap => r.add ap.1 (m * ap.2)) (ir.2.set me 0))))) L1
    pure ({ time := T, rows := canonRows L2 } : Move))
  pure { pops := pops, migs := migs, moves := moves.filter (fun m => !m.rows.isEmpty) }

def graphSem (g : Graph) (names : Option (List String)) : Except String DemogSem :=
  graphSemWith Sz.ofQ g names

/-- the demography of the Model's `from_ms` result (symbolic sizes) -/
def msGraphSem (mg : Demes.Ms.MsGraph) (names : Option (List String)) : Except String DemogSem :=
  graphSemWith mg.size mg.graph names

end Demes.Spec.MsSem
