/-
  Proofs for C09, part 5 — a concrete `NumCodec` (a finite table of numbers with the strings
  CPython's `float_str` prints for them), so that the codec hypothesis is not vacuous: zero,
  dyadic values, 1e-12, 1e12, 1e±300, negative values in `.10f` form, `inf`, `nan`.
-/
import DemesVerif.Proofs.MsPrintParse
namespace Demes.Proofs.MsPrint
open Demes Demes.Ms Demes.Spec.C09


/-- Bool test for `fixedPointShape` -/
def isFixedPoint (cs : List Char) : Bool :=
  match cs with
  | '-' :: r =>
    let a := r.takeWhile (fun c => c ≠ '.')
    let b := r.dropWhile (fun c => c ≠ '.')
    !a.isEmpty && a.all Char.isDigit &&
      (match b with | '.' :: f => f.length == 10 && f.all Char.isDigit | _ => false)
  | _ => false

theorem fixedPointShape_of_isFixedPoint (cs : List Char) (h : isFixedPoint cs = true) : fixedPointShape cs := by
  unfold isFixedPoint at h
  split at h
  · next r =>
    simp only [Bool.and_eq_true] at h
    obtain ⟨⟨ha, hd⟩, hb⟩ := h
    split at hb
    · next f hf =>
      simp only [Bool.and_eq_true, beq_iff_eq] at hb
      refine ⟨r.takeWhile (fun c => c ≠ '.'), f, ?_, ?_, hd, hb.1, hb.2⟩
      · rw [← hf, List.takeWhile_append_dropWhile]
      · intro hnil; rw [hnil] at ha; simp at ha
    · cases hb
  · cases h

/-- the table of a finite codec: numbers with the string `float_str` prints for them -/
def codecTable : List (Num × String) :=
  [(.fin 0, "0.0"), (.fin 1, "1.0"), (.fin 2, "2.0"), (.fin (1/2), "0.5"), (.fin (1/4), "0.25"), (.fin (1/8), "0.125"),
   (.fin (5/2), "2.5"), (.fin 3, "3.0"), (.fin 10, "10.0"),
   (.fin (1 / 10 ^ 12), "1e-12"), (.fin (10 ^ 12), "1000000000000.0"),
   (.fin (10 ^ 300), "1e+300"), (.fin (1 / 10 ^ 300), "1e-300"),
   (.fin (123456789 / 1000), "123456.789"),
   (.fin (-1/2), "-0.5000000000"), (.fin (-2), "-2.0000000000"),
   (.fin (-1 / 10 ^ 12), "-0.0000000000"), (.fin (-(10 ^ 12)), "-1000000000000.0000000000"),
   (.fin (-123456789 / 1000), "-123456.7890000000"),
   (.fin (-866433976 / 10 ^ 10), "-0.0866433976"),
   (.fin (-1/3), "-0.3333333333"),
   (.pinf, "inf"), (.nan, "nan"), (.ninf, "-inf")]

def tableStr (x : Num) : String := (codecTable.lookup x).getD ""
def tableDom (x : Num) : Prop := x ∈ codecTable.map (·.1)

instance : DecidablePred tableDom := fun x => by unfold tableDom; infer_instance

theorem table_all (p : Num → Bool) (h : (codecTable.map (·.1)).all p = true) : ∀ x, tableDom x → p x = true := by
  intro x hx
  exact List.all_eq_true.1 h x hx

def tableCodec : NumCodec where
  str := tableStr
  dom := tableDom
  nonneg_head := by
    intro x hx hlt
    have := table_all (fun x => Num.lt x Num.zero || decide ((tableStr x).toList.head? ≠ some '-')) (by decide +kernel) x hx
    simpa [hlt] using this
  nonneg_parse := by
    intro x hx hlt
    have := table_all (fun x => Num.lt x Num.zero || decide (pyFloat (tableStr x) = some x)) (by decide +kernel) x hx
    simpa [hlt] using this
  neg_shape := by
    intro q hx hq
    have := table_all (fun x => match x with
      | .fin q => decide (0 ≤ q) || isFixedPoint (tableStr (.fin q)).toList | _ => true) (by decide +kernel) _ hx
    simp only [Bool.or_eq_true, decide_eq_true_eq] at this
    rcases this with h | h
    · grind
    · exact fixedPointShape_of_isFixedPoint _ h
  neg_parse := by
    intro q hx hq
    have := table_all (fun x => match x with
      | .fin q => decide (0 ≤ q) || (match pyFloat (tableStr (.fin q)) with
          | some (.fin b) => decide (b ≤ 0) && decide (qabs (q - b) ≤ tenDecimals)
          | _ => false)
      | _ => true) (by decide +kernel) _ hx
    simp only [Bool.or_eq_true, decide_eq_true_eq] at this
    rcases this with h | h
    · grind
    · split at h
      · next b hb =>
        simp only [Bool.and_eq_true, decide_eq_true_eq] at h
        exact ⟨b, hb, h.1, h.2⟩
      · cases h

end Demes.Proofs.MsPrint
