/-
  C09 — non-vacuity of `ms_roundtrip_sem_norm` / `ms_roundtrip_sem_tame_norm`: a three-deme
  admixture whose proportions do not sum to exactly one and that meets every hypothesis.
-/
import DemesVerif.Proofs.MsRTNorm
import DemesVerif.Proofs.MsRTExamples
namespace Demes.Proofs.MsRT
open Demes Demes.Ms Demes.Spec Demes.Spec.C07 Demes.Spec.C09
open Demes.Spec.MsSem (msSem graphSem parse)
open Demes.Spec.C08 (semEquiv SemAgree resultSem Tame' PlainTokens)
open Demes.Proofs.MsPrint (tableCodec growthStr)

/-- every hypothesis of `ms_roundtrip_sem_norm` (with `samples = none`, the codec `tableCodec` and
the growth printer `growthStr`), decided -/
def roundTripHypsNorm (g : Graph) (N0 : Q) : Bool :=
  validGraph g && MsExpressible g && ConstSizes g && decide (0 < N0) &&
  match toMs g N0 none with
  | .ok toks =>
    decide (CodecCovers tableCodec toks) &&
    (match fromMs (renderG tableCodec growthStr toks) N0 none, parse (renderG tableCodec growthStr toks) with
     | .ok _, .ok pr => Tame' pr
     | _, _ => false)
  | .error _ => false

/-- `roundTripHypsNorm` is exactly the list of hypotheses -/
theorem roundTripHypsNorm_spec {g : Graph} {N0 : Q} (h : roundTripHypsNorm g N0 = true) :
    validGraph g = true ∧ MsExpressible g = true ∧ ConstSizes g = true ∧ 0 < N0 ∧
    ∃ toks mg pr, toMs g N0 none = .ok toks ∧ CodecCovers tableCodec toks
      ∧ fromMs (renderG tableCodec growthStr toks) N0 none = .ok mg
      ∧ parse (renderG tableCodec growthStr toks) = .ok pr ∧ Tame' pr = true := by
  unfold roundTripHypsNorm at h
  simp only [Bool.and_eq_true, decide_eq_true_eq] at h
  obtain ⟨⟨⟨⟨h1, h2⟩, h4⟩, h5⟩, h6⟩ := h
  refine ⟨h1, h2, h4, h5, ?_⟩
  cases ht : toMs g N0 none with
  | error e => rw [ht] at h6; cases h6
  | ok toks =>
    rw [ht] at h6
    simp only [Bool.and_eq_true, decide_eq_true_eq] at h6
    obtain ⟨h7, h8⟩ := h6
    cases hf : fromMs (renderG tableCodec growthStr toks) N0 none with
    | error e => rw [hf] at h8; cases h8
    | ok mg =>
      cases hp : parse (renderG tableCodec growthStr toks) with
      | error e => rw [hf, hp] at h8; cases h8
      | ok pr =>
        rw [hf, hp] at h8
        exact ⟨toks, mg, pr, rfl, h7, hf, hp, h8⟩

/-- the conclusion of the theorem for a graph that meets the hypotheses -/
theorem roundTripNorm_of_hyps {g : Graph} {N0 : Q} (h : roundTripHypsNorm g N0 = true) :
    ∃ toks mg sem rs gs, toMs g N0 none = .ok toks
      ∧ fromMs (renderG tableCodec growthStr toks) N0 none = .ok mg
      ∧ msSem (renderG tableCodec growthStr toks) N0 = .ok sem ∧ resultSem mg = .ok rs
      ∧ graphSem (inGenerations (normalizeProportions g)) none = .ok gs
      ∧ semEquiv sem rs = true ∧ SemRefines sem gs ∧ SemRefines rs gs := by
  obtain ⟨h1, h2, h4, h5, toks, mg, pr, h6, h7, h8, h9, h10⟩ := roundTripHypsNorm_spec h
  obtain ⟨sem, rs, gs, r⟩ := ms_roundtrip_sem_norm tableCodec growthStr h1 h2 h4 h5 (samples := none) rfl h6 h7 h8 h9 h10
  exact ⟨toks, mg, sem, rs, gs, h6, h8, r⟩

/-- `admixture` with the proportions of `C` equal to `[1/2 - 2⁻⁴¹, 1/2 - 2⁻⁴¹]` (sum `1 - 2⁻⁴⁰`,
valid); `to_ms` emits `-es 1.0 3 0.5`, the command of `admixture` -/
def admixtureInexact : Graph :=
  { admixture with demes := admixture.demes.map (fun d =>
      if d.name = "C" then { d with proportions := [1/2 - 1/2199023255552, 1/2 - 1/2199023255552] } else d) }

example : roundTripHypsNorm admixtureInexact 1 = true ∧ ExactProportions admixtureInexact = false
    ∧ PulsesTame admixtureInexact = true
    ∧ (normalizeProportions admixtureInexact).demes = admixture.demes := by decide +kernel

example : (toMs admixtureInexact 1 none).toOption.map (renderG tableCodec growthStr)
    = some ["-I", "3", "0", "0", "0", "-n", "1", "2.0", "-n", "3", "0.5", "-es", "1.0", "3", "0.5", "-ej", "1.0", "4", "1",
            "-ej", "1.0", "3", "2", "-ej", "2.0", "2", "1"] := by decide +kernel

/-- the theorem at work -/
example := roundTripNorm_of_hyps (g := admixtureInexact) (N0 := 1) (by decide +kernel)

end Demes.Proofs.MsRT
