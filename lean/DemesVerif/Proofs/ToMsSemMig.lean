/-
  C07 — the migration matrix in force at a time (`matAt`) on the emitted command.
-/
import DemesVerif.Proofs.ToMsSemMat2
set_option linter.unusedSimpArgs false
set_option linter.unusedVariables false
namespace Demes.Proofs.ToMs
open Demes Demes.Ms Demes.Spec Demes.Spec.C07 Demes.Proofs.RV
open Demes.Spec.MsSem

/-! ### snapshots -/

theorem stepP_snaps (N0 : Q) (s : StG) (e : Event Growth) :
    (stepP N0 s e).snaps = s.snaps ∧ (stepP N0 s e).mat = s.mat
    ∨ (stepP N0 s e).snaps = s.snaps ++ [(4 * N0 * evT e, (stepP N0 s e).mat)] := by
  cases e with
  | popSizeChange o t i x => cases x <;> exact Or.inl ⟨rfl, rfl⟩
  | popGrowthRateChange => exact Or.inl ⟨rfl, rfl⟩
  | migEntryChange o t i j r =>
    cases r with
    | fin y => exact Or.inr rfl
    | _ => exact Or.inl ⟨rfl, rfl⟩
  | split o t i p =>
    cases p with
    | fin y => exact Or.inr rfl
    | _ => exact Or.inl ⟨rfl, rfl⟩
  | join => exact Or.inr rfl
  | growthRateChange => exact Or.inl ⟨rfl, rfl⟩
  | sizeChange => exact Or.inl ⟨rfl, rfl⟩
  | migRateChange => exact Or.inl ⟨rfl, rfl⟩
  | migMatrixChange => exact Or.inl ⟨rfl, rfl⟩

/-- the last snapshot is the current matrix -/
def LastSnap (s : StG) : Prop := s.snaps.getLast?.map (·.2) = some s.mat

theorem lastSnap_step {N0 : Q} {s : StG} (h : LastSnap s) (e : Event Growth) : LastSnap (stepP N0 s e) := by
  rcases stepP_snaps N0 s e with ⟨h1, h2⟩ | h1
  · unfold LastSnap; rw [h1, h2]; exact h
  · unfold LastSnap; rw [h1, List.getLast?_concat]; rfl

theorem lastSnap_run {N0 : Q} : ∀ (evs : List (Event Growth)) {s : StG}, LastSnap s → LastSnap (runP N0 s evs)
  | [], _, h => h
  | e :: r, _, h => lastSnap_run r (lastSnap_step h e)

theorem snaps_run {N0 : Q} : ∀ (evs : List (Event Growth)) (s : StG),
    ∃ extra, (runP N0 s evs).snaps = s.snaps ++ extra ∧ ∀ x ∈ extra, ∃ e ∈ evs, x.1 = 4 * N0 * evT e
  | [], s => ⟨[], by simp [runP], fun _ h => by cases h⟩
  | e :: r, s => by
    obtain ⟨ex, h1, h2⟩ := snaps_run r (stepP N0 s e)
    rw [runP_cons]
    rcases stepP_snaps N0 s e with ⟨h3, _⟩ | h3
    · exact ⟨ex, by rw [h1, h3], fun x hx => by
        obtain ⟨e', he', h'⟩ := h2 x hx; exact ⟨e', List.mem_cons_of_mem _ he', h'⟩⟩
    · refine ⟨(4 * N0 * evT e, (stepP N0 s e).mat) :: ex, by rw [h1, h3]; simp, ?_⟩
      intro x hx
      rcases List.mem_cons.1 hx with rfl | hx
      · exact ⟨e, List.mem_cons_self, rfl⟩
      · obtain ⟨e', he', h'⟩ := h2 x hx; exact ⟨e', List.mem_cons_of_mem _ he', h'⟩

/-- a sorted list splits at a time threshold -/
theorem sorted_split_time (cT : Q) : ∀ (l : List (Event Growth)), Sorted byQ l →
    ∃ A B, l = A ++ B ∧ (∀ a ∈ A, evT a ≤ cT) ∧ (∀ b ∈ B, cT < evT b)
  | [], _ => ⟨[], [], rfl, by simp, by simp⟩
  | y :: ys, hs => by
    have hy := List.pairwise_cons.1 hs
    by_cases hle : evT y ≤ cT
    · obtain ⟨A, B, hl, hA, hB⟩ := sorted_split_time cT ys hy.2
      refine ⟨y :: A, B, by rw [hl]; rfl, ?_, hB⟩
      intro a ha
      rcases List.mem_cons.1 ha with rfl | ha
      · exact hle
      · exact hA a ha
    · refine ⟨[], y :: ys, rfl, by simp, ?_⟩
      intro b hb
      rcases List.mem_cons.1 hb with rfl | hb
      · grind
      · have := hy.1 b hb
        simp only [byQ, decide_eq_true_eq] at this
        grind

/-- the matrix in force at `t` is the matrix after the options scheduled up to `t` -/
theorem matAt_run {N0 : Q} (hN : 0 < N0) {n0 : Nat} {A B : List (Event Growth)} {t : Q} (ht : 0 ≤ t)
    (hA : ∀ a ∈ A, evT a ≤ t / (4 * N0)) (hB : ∀ b ∈ B, t / (4 * N0) < evT b) :
    matAt (runP N0 (s0Of N0 n0) (A ++ B)).snaps t = (runP N0 (s0Of N0 n0) A).mat := by
  have h4 : (0 : Q) < 4 * N0 := by grind
  obtain ⟨exA, hsA, htA⟩ := snaps_run (N0 := N0) A (s0Of N0 n0)
  obtain ⟨exB, hsB, htB⟩ := snaps_run (N0 := N0) B (runP N0 (s0Of N0 n0) A)
  have hlast : LastSnap (runP N0 (s0Of N0 n0) A) := lastSnap_run A (by simp [LastSnap, s0Of])
  unfold matAt
  rw [runP_append, hsB, List.filter_append]
  have h1 : (runP N0 (s0Of N0 n0) A).snaps.filter (fun tm => decide (tm.1 ≤ t)) = (runP N0 (s0Of N0 n0) A).snaps := by
    rw [List.filter_eq_self]
    intro x hx
    rw [hsA] at hx
    simp only [decide_eq_true_eq]
    rcases List.mem_append.1 hx with hx | hx
    · simp only [s0Of, List.mem_singleton] at hx
      rw [hx]; exact ht
    · obtain ⟨e, he, h'⟩ := htA x hx
      rw [h']
      have := hA e he
      have h2 : 4 * N0 * evT e ≤ 4 * N0 * (t / (4 * N0)) := Rat.mul_le_mul_of_nonneg_left this (Rat.le_of_lt h4)
      rw [mul_div_cancel4 hN] at h2
      exact h2
  have h2 : exB.filter (fun tm => decide (tm.1 ≤ t)) = [] := by
    rw [List.filter_eq_nil_iff]
    intro x hx
    obtain ⟨e, he, h'⟩ := htB x hx
    simp only [decide_eq_true_eq, h']
    have := hB e he
    intro hle
    have h3 : 4 * N0 * (t / (4 * N0)) < 4 * N0 * evT e := Rat.mul_lt_mul_of_pos_left this h4
    rw [mul_div_cancel4 hN] at h3
    grind
  rw [h1, h2, List.append_nil, hlast]
  rfl

/-! ### the entries on the emitted command -/

section
variable {g : Graph} (c : Clauses g) (hx : MsExpressible g = true) {N0 : Q} (hN : 0 < N0)
include c hx hN

/-- the `-ej` of a deme with a finite start time is in the command, at that time -/
theorem join_exists {k : Nat} {d : Deme} (hd : g.demes[k]? = some d) {st : Q} (hst : d.startTime = .fin st) :
    ∃ x ∈ finalEvs g N0, isJoinIdx k x = true ∧ evT x = st / (4 * N0) := by
  have hdm : d ∈ g.demes := List.mem_of_getElem? hd
  have hne : d.ancestors ≠ [] := by
    have h3 := c.h3
    simp only [v3, List.all_eq_true, Bool.and_eq_true, decide_eq_true_eq, beq_iff_eq] at h3
    have := (h3 d hdm).1.2
    rw [hst] at this
    intro h0; rw [h0] at this; simp [ETime.isInf] at this
  obtain ⟨a, ha⟩ := lastJoin_ancEvs (g := g) hne (dps g) g.demes.length (mem_dps_of_deme hdm)
  have hraw : Event.join "" (Num.ofETime d.startTime) (idOf g d.name) (idOf g a) ∈ rawEvs g N0 := by
    simp only [rawEvs, List.mem_append]; exact Or.inl (Or.inr ha)
  have hfin : scaleEv N0 (Event.join "" (Num.ofETime d.startTime) (idOf g d.name) (idOf g a)) ∈ finalEvs g N0 := by
    rw [finalEvs_eq c hx]
    exact List.mem_map.2 ⟨_, (mem_sortBy _).2 hraw, rfl⟩
  have hidx : idx (idOf g d.name) = k := by
    have := demeId_of_getElem (nodup_names c) hd
    simp [idOf, idx, this]
  refine ⟨_, hfin, by simp [scaleEv, Event.setT, isJoinIdx, hidx], ?_⟩
  simp [scaleEv, Event.setT, Event.t, hst, Num.ofETime, numDivQ, evT]

/-- a join of population `k+1` in the command is scheduled at the deme's start time -/
theorem join_time_final {k : Nat} {d : Deme} (hd : g.demes[k]? = some d) {x : Event Growth} (hxf : x ∈ finalEvs g N0)
    (hj : isJoinIdx k x = true) : ∃ st, d.startTime = .fin st ∧ evT x = st / (4 * N0) := by
  have hklt : k < g.demes.length := (List.getElem?_eq_some_iff.mp hd).1
  obtain ⟨y, hy, rfl⟩ := finalEvs_mem c hx hxf
  cases y with
  | join o t i j =>
    have hpos := join_pos_finalEvs c hx hxf o _ i j rfl
    have hik : idx i = k := by simpa [isJoinIdx, scaleEv, Event.setT] using hj
    have hi : i = ((k + 1 : Nat) : Int) := by unfold idx at hik; omega
    subst hi
    obtain ⟨d', q, hd', hst, ht⟩ := joinTime c hx hy (by omega) (by omega)
    rw [idx_succ, hd] at hd'
    cases hd'
    exact ⟨q, hst, by simp [scaleEv, Event.setT, Event.t, ht, numDivQ, evT]⟩
  | _ => simp [isJoinIdx, scaleEv, Event.setT] at hj

omit hN in
theorem isMig_equiv {a b : Nat} {e : Event Growth} (he : e ∈ finalEvs g N0) :
    isMigEvOf ((a + 1 : Nat) : Int) ((b + 1 : Nat) : Int) e = isMigIdx a b e := by
  obtain ⟨y, hy, rfl⟩ := finalEvs_mem c hx he
  rcases mem_rawEvs hy with h | h | h
  · obtain ⟨_, _, _, _, h'⟩ := mem_sizeEvsAll h
    rcases h' with rfl | rfl <;> rfl
  · have := splitJoin_ancEvs h
    cases y <;> simp [isSplitJoin] at this <;> rfl
  · have key : ∀ (t : Num) (m : Migration) (r : Q), m ∈ g.migrations →
        isMigEvOf ((a + 1 : Nat) : Int) ((b + 1 : Nat) : Int) (.migEntryChange "" t (idOf g m.dest) (idOf g m.source) (.fin r))
          = isMigIdx a b (.migEntryChange "" t (idOf g m.dest) (idOf g m.source) (.fin r)) := by
      intro t m r hm
      have hok := migOk_of_valid c hm
      have h1 := idOf_range hok.destId
      have h2 := idOf_range hok.sourceId
      have e1 : idx (idOf g m.dest) = a ↔ idOf g m.dest = ((a + 1 : Nat) : Int) := by unfold idx; omega
      have e2 : idx (idOf g m.source) = b ↔ idOf g m.source = ((b + 1 : Nat) : Int) := by unfold idx; omega
      simp only [isMigEvOf, isMigIdx]
      rw [Bool.eq_iff_iff]
      simp only [Bool.and_eq_true, decide_eq_true_eq, e1, e2]
    simp only [migEvs, List.mem_append, migOffs, migOns, List.mem_map, List.mem_filter] at h
    rcases h with ⟨m, ⟨hm, _⟩, rfl⟩ | ⟨m, hm, rfl⟩
    · exact key _ m 0 hm
    · exact key _ m _ hm

/-- the entry `[a][b]` in force at a time `t` of deme `a`'s lifetime (backwards: before its start) -/
theorem matAt_finalEvs {a b : Nat} {da db : Deme} (ha : g.demes[a]? = some da) (hb : g.demes[b]? = some db)
    (hab : a ≠ b) {t : Q} (ht : 0 ≤ t) (hla : ETime.fin t < da.startTime) :
    matGet (matAt (runP N0 (s0Of N0 g.demes.length) (finalEvs g N0)).snaps t) a b
      = if ETime.fin t < db.startTime then
          migRateAt (finalEvs g N0) ((a + 1 : Nat) : Int) ((b + 1 : Nat) : Int) (t / (4 * N0)) / (4 * N0)
        else 0 := by
  have h4 : (0 : Q) < 4 * N0 := by grind
  have halt : a < g.demes.length := (List.getElem?_eq_some_iff.mp ha).1
  have hblt : b < g.demes.length := (List.getElem?_eq_some_iff.mp hb).1
  obtain ⟨A, B, hF, hA, hB⟩ := sorted_split_time (t / (4 * N0)) _ (sorted_byQ_finalEvs c hx hN)
  have hAF : ∀ x ∈ A, x ∈ finalEvs g N0 := fun x hxA => by rw [hF]; exact List.mem_append_left _ hxA
  rw [hF, matAt_run hN ht hA hB]
  have hinv := matInv_run (N0 := N0) (n0 := g.demes.length) A [] (matInv_init N0 _) (fun p e q hpq => by
    have : finalEvs g N0 = p ++ e :: (q ++ B) := by rw [hF, hpq]; simp
    simpa using okEv_finalEvs c hx hN this)
  simp only [List.nil_append] at hinv
  rw [hinv.entry a b halt hblt hab]
  -- population `a+1` has not been joined by time `t`
  have hnot : ∀ {k : Nat} {d : Deme}, g.demes[k]? = some d → ETime.fin t < d.startTime → joinedIn A k = false := by
    intro k d hd hlt
    unfold joinedIn
    rw [Bool.eq_false_iff]
    intro hany
    obtain ⟨x, hxA, hxj⟩ := List.any_eq_true.1 hany
    obtain ⟨st, hst, hev⟩ := join_time_final c hx hN hd (hAF x hxA) hxj
    have := hA x hxA
    rw [hev] at this
    have := (InGen.div_le_div h4).1 this
    rw [hst] at hlt
    have : t < st := hlt
    grind
  unfold entryAfter
  rw [hnot ha hla]
  by_cases hlb : ETime.fin t < db.startTime
  · rw [hnot hb hlb, if_pos hlb]
    simp only [Bool.or_self, Bool.false_eq_true, if_false]
    congr 1
    -- the selected options of the command are those of the prefix
    unfold lastMig migRateAt
    have hsel : (A ++ B).filter (fun e => isMigEvOf ((a + 1 : Nat) : Int) ((b + 1 : Nat) : Int) e
        && Num.le e.t (.fin (t / (4 * N0)))) = A.filter (isMigIdx a b) := by
      rw [List.filter_append]
      have hBn : B.filter (fun e => isMigEvOf ((a + 1 : Nat) : Int) ((b + 1 : Nat) : Int) e
          && Num.le e.t (.fin (t / (4 * N0)))) = [] := by
        rw [List.filter_eq_nil_iff]
        intro x hxB
        have hxF : x ∈ finalEvs g N0 := by rw [hF]; exact List.mem_append_right _ hxB
        obtain ⟨q, hq, _⟩ := (evGood_finalEvs c hx hN hxF).time
        have := hB x hxB
        rw [evT_of_good hq] at this
        simp only [hq, Num.le, Bool.and_eq_true, decide_eq_true_eq, not_and]
        intro _ hle; grind
      rw [hBn, List.append_nil]
      apply List.filter_congr
      intro x hxA
      obtain ⟨q, hq, _⟩ := (evGood_finalEvs c hx hN (hAF x hxA)).time
      have := hA x hxA
      rw [evT_of_good hq] at this
      have h1 := isMig_equiv c hx (a := a) (b := b) (hAF x hxA)
      simp only [hq, Num.le, this, decide_true, Bool.and_true]
      exact h1
    rw [hsel]
    generalize (List.filter (isMigIdx a b) A).getLast? = oe
    cases oe with
    | none => rfl
    | some e =>
      cases e with
      | migEntryChange o t i j r => cases r <;> rfl
      | _ => rfl
  · rw [if_neg hlb]
    have hle := et_le_of_not_lt hlb
    cases hst : db.startTime with
    | inf => rw [hst] at hle; exact hle.elim
    | fin st =>
      rw [hst] at hle
      have hstt : st ≤ t := hle
      obtain ⟨x, hxF, hxj, hev⟩ := join_exists c hx hN hb hst
      have hxA : x ∈ A := by
        rw [hF] at hxF
        rcases List.mem_append.1 hxF with h | h
        · exact h
        · exfalso
          have := hB x h
          rw [hev] at this
          have := (InGen.div_lt_div h4).1 this
          grind
      have : joinedIn A b = true := List.any_eq_true.2 ⟨x, hxA, hxj⟩
      simp [this]

end

end Demes.Proofs.ToMs
