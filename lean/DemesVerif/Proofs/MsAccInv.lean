/-
  C09, acceptance — the invariant `AccInv` through the event loop of `build_graph`, on the commands of the
  fragment (`groupsFrag`) whose time groups are good (`Tame'`): one group (`group_accInv`), all groups
  (`groups_accInv`), the whole loop (`buildState_accInv`).  The skeleton is that of `buildState_movesInv` (C08).
-/
import DemesVerif.Proofs.MsAccInvApply
namespace Demes.Proofs.MsAcc
open Demes Demes.Ms Demes.Spec Demes.Spec.MsSem Demes.Spec.C08 Demes.Proofs.FromMs

/-! ## reading `fragCmd` and `groupFrag` -/

theorem frag_setSize {t x : Q} {i : Nat} {r : Bool} (h : fragCmd (.setSize t i x r) = true) : 1 ≤ i ∧ 0 < x := by
  simp only [fragCmd, Bool.and_eq_true, decide_eq_true_eq] at h
  exact ⟨h.1.2, h.2⟩

theorem frag_split {t p : Q} {i : Nat} (h : fragCmd (.split t i p) = true) : 0 < t ∧ 0 < p ∧ p < 1 := by
  simp only [fragCmd, Bool.and_eq_true, decide_eq_true_eq] at h
  exact ⟨h.1.1.1, h.1.2, h.2⟩

theorem frag_join {t : Q} {i j : Nat} (h : fragCmd (.join t i j) = true) : 0 < t := by
  simp only [fragCmd, Bool.and_eq_true, decide_eq_true_eq] at h
  exact h.1.1

theorem frag_move_pos {c : Cmd} (h : fragCmd c = true) (hm : isMove c = true) : 0 < c.t := by
  cases c with
  | split t i p => exact (frag_split h).1
  | join t i j => exact frag_join h
  | _ => cases hm

/-- some size option of the group names deme `j` -/
def Sized (cs : List Cmd) (j : Nat) : Prop := ∃ t x r, Cmd.setSize t (j + 1) x r ∈ cs

theorem noSize_of_join {cs : List Cmd} (h : noSizeAtJoinG cs = true) {t : Q} {i k : Nat}
    (hj : Cmd.join t i k ∈ cs) (hi : 1 ≤ i) : ¬ Sized cs (i - 1) := by
  intro ⟨t', x, r, hm⟩
  unfold noSizeAtJoinG at h
  rw [List.all_eq_true] at h
  have h1 := h _ hj
  simp only [List.all_eq_true] at h1
  have h2 := h1 _ hm
  have e : i - 1 + 1 = i := by omega
  simp [e] at h2

/-! ## one group -/

/-- one group of either fragment (`GroupOK`: `GoodGroup` or `GoodGroup3`) -/
theorem group_accInv_ok {N0 : Q} (hN : 0 < N0) {prev : Option Q} {T' : Q} {s s' : BState} {σ σ' : St}
    {evs : List (Event Num)}
    (hsim : Sim2 N0 (prev.getD 0) s σ) (hinv : AccInv (prev.getD 0) s) (hnames : NameInv s)
    (hall : ∀ e ∈ evs, HasCmd e) (hne : evs ≠ []) (htime : ∀ e ∈ evs, 4 * N0 * (cmdOfD e).t = T')
    (hprev : PrevLt prev T')
    (hgood : GroupOK s.numDemes (evs.map cmdOfD))
    (hfrag : groupFrag s.numDemes (evs.map cmdOfD) = true)
    (hm : Ms.stepGroup N0 s evs = .ok s') (hs : Spec.MsSem.stepGroup N0 σ (evs.map cmdOfD) = .ok σ') :
    Sim2 N0 T' s' σ' ∧ AccInv T' s' ∧ NameInv s'
      ∧ s'.numDemes = s.numDemes + ((evs.map cmdOfD).filter isSplitC).length := by
  have hle : prev.getD 0 ≤ T' := by
    cases prev with
    | none => exact hprev
    | some T => exact Rat.le_of_lt hprev
  have hsim' := stepGroup_inv (sim2_inv N0) hsim hle hall htime hm hs
  have hnames' := stepGroup_names hnames hm
  obtain ⟨t, s1, g1, ht, hfold, rfl⟩ := stepGroup_ok hm
  obtain ⟨ht1, ht2⟩ := head_time hall hne htime
  have htT := ht1 t ht
  rw [htT] at hfold hsim' hnames' ⊢
  obtain ⟨σ1, L1, hsfold, _⟩ := stepGroup_moves hs
  have hnum : (applyParams T' s1 g1).numDemes = s.numDemes + ((evs.map cmdOfD).filter isSplitC).length := by
    rw [(applyParams_frame T' s1 g1).2, events_numDemes evs hfold, splits_cmd evs hall]
  refine ⟨hsim', ?_, hnames', hnum⟩
  -- the three parts of `groupFrag`
  unfold groupFrag at hfrag
  simp only [Bool.and_eq_true] at hfrag
  obtain ⟨⟨hf1, hf2⟩, hf3⟩ := hfrag
  have hfc : ∀ e ∈ evs, fragCmd (cmdOfD e) = true := by
    intro e he
    rw [List.all_eq_true] at hf1
    exact hf1 _ (List.mem_map.mpr ⟨e, he, rfl⟩)
  have hT0 : 0 ≤ T' := Rat.le_trans hinv.nonneg hle
  -- a group with `-es` / `-ej` is later than the previous one
  have hmove : ∀ e ∈ evs, isMove (cmdOfD e) = true → prev.getD 0 < T' := by
    intro e he hmv
    have hpos := frag_move_pos (hfc e he) hmv
    have hT'pos : 0 < T' := by
      rw [← htime e he]
      have h4 : (0 : Q) < 4 * N0 := by linarith
      exact Rat.mul_pos h4 hpos
    cases prev with
    | none => exact hT'pos
    | some T => exact hprev
  -- the end of the options
  obtain ⟨hsim1, he, hex⟩ := group_endX_ok hsim.1 hle hall htime hfold hsfold hgood hnames
  have hjs := events_joined evs hsim.1 hle hall htime hfold hsfold
  have hmid : Mid (Sized (evs.map cmdOfD)) (prev.getD 0) T' s s1 g1 := by
    refine events_mid hN hT0 evs hsim.1 hle hall htime hfc ?_ ?_ hmove hfold hsfold (mid_init evs hle hinv)
    · intro e he t i x r hc
      have h1 := hfc e he
      rw [hc] at h1
      have hi := (frag_setSize h1).1
      refine ⟨t, x, r, ?_⟩
      have e1 : i - 1 + 1 = i := by omega
      rw [e1, ← hc]
      exact List.mem_map.mpr ⟨e, he, rfl⟩
    · intro e he t i j hc
      have h1 := hfc e he
      rw [hc] at h1
      have hi : 1 ≤ i := by
        simp only [fragCmd, Bool.and_eq_true, decide_eq_true_eq] at h1
        exact h1.1.2
      apply noSize_of_join hf2 (t := t) (k := j) _ hi
      rw [← hc]
      exact List.mem_map.mpr ⟨e, he, rfl⟩
  have hctx : EndCtx (Sized (evs.map cmdOfD)) (prev.getD 0) T' s σ s1 g1 L1
      (groupOps s.numDemes (evs.map cmdOfD)) := by
    refine ⟨hsim.1, hinv, he, hex, hmid, hle, ?_, ?_, ?_, hsim1.jlt, hjs.2⟩
    · intro hops
      have hany := groupOps_move hops
      rw [List.any_eq_true] at hany
      obtain ⟨c, hc, hcm⟩ := hany
      obtain ⟨e, he', rfl⟩ := List.mem_map.mp hc
      exact hmove e he' hcm
    · apply groupOps_qpos
      intro c hc t i p hcs
      obtain ⟨e, he', rfl⟩ := List.mem_map.mp hc
      have h1 := hfc e he'
      rw [hcs] at h1
      exact (frag_split h1).2.2
    · intro o ho
      rw [List.all_eq_true] at hf3
      simpa using hf3 o ho
  exact hctx.accInv

theorem group_accInv {N0 : Q} (hN : 0 < N0) {prev : Option Q} {T' : Q} {s s' : BState} {σ σ' : St}
    {evs : List (Event Num)}
    (hsim : Sim2 N0 (prev.getD 0) s σ) (hinv : AccInv (prev.getD 0) s) (hnames : NameInv s)
    (hall : ∀ e ∈ evs, HasCmd e) (hne : evs ≠ []) (htime : ∀ e ∈ evs, 4 * N0 * (cmdOfD e).t = T')
    (hprev : PrevLt prev T')
    (hgood : GoodGroup s.numDemes (evs.map cmdOfD) = true)
    (hfrag : groupFrag s.numDemes (evs.map cmdOfD) = true)
    (hm : Ms.stepGroup N0 s evs = .ok s') (hs : Spec.MsSem.stepGroup N0 σ (evs.map cmdOfD) = .ok σ') :
    Sim2 N0 T' s' σ' ∧ AccInv T' s' ∧ NameInv s'
      ∧ s'.numDemes = s.numDemes + ((evs.map cmdOfD).filter isSplitC).length :=
  group_accInv_ok hN hsim hinv hnames hall hne htime hprev (groupOK_of_good hgood) hfrag hm hs

/-! ## all groups -/

/-- all groups, each of either fragment (`groupsOK`) -/
theorem groups_accInv_ok {N0 : Q} (hN : 0 < N0) : ∀ (groups : List (List (Event Num))) (prev : Option Q)
    {s s' : BState} {σ σ' : St},
    Sim2 N0 (prev.getD 0) s σ → AccInv (prev.getD 0) s → NameInv s →
    (∀ g ∈ groups, g ≠ [] ∧ ∀ e ∈ g, HasCmd e) → TimesOK2 N0 prev (groups.map (List.map cmdOfD)) →
    groupsOK s.numDemes (groups.map (List.map cmdOfD)) →
    groupsFrag s.numDemes (groups.map (List.map cmdOfD)) = true →
    groups.foldlM (Ms.stepGroup N0) s = .ok s' →
    (groups.map (List.map cmdOfD)).foldlM (Spec.MsSem.stepGroup N0) σ = .ok σ' →
    ∃ T, AccInv T s' ∧ NameInv s' := by
  intro groups
  induction groups with
  | nil =>
    intro prev s s' σ σ' _ hinv hn _ _ _ _ hm hs
    cases hm
    cases hs
    exact ⟨_, hinv, hn⟩
  | cons g rest ih =>
    intro prev s s' σ σ' hsim hinv hn hall ht hgood hfrag hm hs
    rw [List.foldlM_cons] at hm
    obtain ⟨s1, h1, hm⟩ := RV.bind_ok.1 hm
    rw [List.map_cons, List.foldlM_cons] at hs
    obtain ⟨σ1, hs1, hs⟩ := sbind_ok.1 hs
    obtain ⟨T', hprev, htg, hrest⟩ := ht
    obtain ⟨hne, hcmd⟩ := hall g (List.mem_cons_self ..)
    rw [List.map_cons] at hgood hfrag
    simp only [groupsOK] at hgood
    simp only [groupsFrag, Bool.and_eq_true] at hfrag
    obtain ⟨a1, a2, a3, a4⟩ := group_accInv_ok hN hsim hinv hn hcmd hne
      (fun e he => htg _ (List.mem_map.mpr ⟨e, he, rfl⟩)) hprev hgood.1 hfrag.1 h1 hs1
    exact ih (some T') a1 a2 a3 (fun g' hg' => hall g' (List.mem_cons_of_mem _ hg')) hrest
      (by rw [a4]; exact hgood.2) (by rw [a4]; exact hfrag.2) hm hs

theorem groups_accInv {N0 : Q} (hN : 0 < N0) : ∀ (groups : List (List (Event Num))) (prev : Option Q)
    {s s' : BState} {σ σ' : St},
    Sim2 N0 (prev.getD 0) s σ → AccInv (prev.getD 0) s → NameInv s →
    (∀ g ∈ groups, g ≠ [] ∧ ∀ e ∈ g, HasCmd e) → TimesOK2 N0 prev (groups.map (List.map cmdOfD)) →
    goodGroups s.numDemes (groups.map (List.map cmdOfD)) = true →
    groupsFrag s.numDemes (groups.map (List.map cmdOfD)) = true →
    groups.foldlM (Ms.stepGroup N0) s = .ok s' →
    (groups.map (List.map cmdOfD)).foldlM (Spec.MsSem.stepGroup N0) σ = .ok σ' →
    ∃ T, AccInv T s' ∧ NameInv s' :=
  fun groups prev _ _ _ _ hsim hinv hn hall ht hgood hfrag hm hs =>
    groups_accInv_ok hN groups prev hsim hinv hn hall ht (groupsOK_of_goodGroups _ _ hgood) hfrag hm hs

/-! ## the whole event loop -/

/-- **the event loop keeps `AccInv`** on commands of the fragment (`groupsFrag`) whose time groups are of either
fragment of C08 (`groupsOK`: from `Tame'` or from `Tame3`): at the end of the event loop of `build_graph` every deme of the Builder state has well-formed
epochs, the demes that were joined have a well-formed ancestry among demes that exist at the join time, and
every pulse is between two different demes that exist at its time -/
theorem buildState_accInv_ok {args : Args} {pr : Parsed} {N0 : Q} {s : BState} {σ : St}
    (ha : ArgsAgree args pr) (hok : groupsOK pr.npop (cmdGroups pr)) (hf : groupsFrag pr.npop (cmdGroups pr) = true)
    (hm : buildState args N0 = .ok s) (hs : runState pr N0 = .ok σ) : ∃ T, AccInv T s ∧ NameInv s := by
  unfold buildState at hm
  split at hm
  · exact (RV.valueErr_bind_ok.1 hm).elim
  rename_i hN
  have hN : 0 < N0 := by grind
  obtain ⟨_, _, hm⟩ := RV.bind_ok.1 hm
  obtain ⟨hi1, hi2⟩ := agree_list _ _ ha.initial
  obtain ⟨he1, he2⟩ := agree_list _ _ ha.events
  have hall : ∀ e ∈ args.initialState ++ sortBy (fun a b => Num.le a.t b.t) args.demographicEvents, HasCmd e := by
    intro e he
    rcases List.mem_append.mp he with he | he
    · exact hi2 e he
    · exact he2 e ((sortBy_mem _ _ _).mp he)
  have hgroups : cmdGroups pr = (eventGroups args).map (List.map cmdOfD) := by
    unfold cmdGroups eventGroups
    rw [hi1, he1, ← sortBy_cmd _ he2, ← List.map_append]
    exact splitBy_map cmdOfD sameT (fun a b => a.t == b.t) HasCmd (fun x y hx hy => sameT_cmd hx hy) _ hall
  unfold runState at hs
  rw [hgroups] at hs
  have hnum : (initState args N0).numDemes = pr.npop := by
    show (initPop args).1 = _
    rw [initPop_fst]; exact ha.npop
  refine groups_accInv_ok hN (eventGroups args) none
    ⟨initial_sizeSim args pr N0 ha, initial_migSim args pr N0 ha⟩
    (accInv_init args N0 hN (by rw [hnum]; exact ha.npos))
    (initState_names args N0) ?_ ?_ ?_ ?_ hm hs
  · intro g hg
    refine ⟨List.ne_nil_of_mem_splitBy hg, ?_⟩
    intro e he
    apply hall
    have : e ∈ (eventGroups args).flatten := List.mem_flatten.mpr ⟨g, hg, he⟩
    unfold eventGroups at this
    rwa [List.flatten_splitBy] at this
  · rw [← hgroups]
    unfold cmdGroups
    have hnn : ∀ c ∈ pr.initial ++ pr.events.foldr insertCmd [], 0 ≤ c.t := by
      intro c hc
      rcases List.mem_append.mp hc with hc | hc
      · rw [ha.initial0 c hc]
      · exact ha.nonneg c (sortCmd_mem _ _ hc)
    apply timesOK2_of_sorted hN _ none (splitBy_const _)
    · rw [List.flatten_splitBy, List.pairwise_append]
      refine ⟨?_, sortCmd_sorted _, ?_⟩
      · apply List.pairwise_of_forall_mem_list
        intro a ha' b hb'
        rw [ha.initial0 a ha', ha.initial0 b hb']
      · intro a ha' b hb'
        rw [ha.initial0 a ha']
        exact ha.nonneg b (sortCmd_mem _ _ hb')
    · exact List.isChain_getLast_head_splitBy (fun (a b : Cmd) => a.t == b.t) _
    · intro g hg c hc
      have hcm : c ∈ ((pr.initial ++ pr.events.foldr insertCmd []).splitBy (fun a b => a.t == b.t)).flatten := by
        cases hsp : (pr.initial ++ pr.events.foldr insertCmd []).splitBy (fun a b => a.t == b.t) with
        | nil => rw [hsp] at hg; cases hg
        | cons g' rest =>
          rw [hsp] at hg
          simp only [List.head?_cons, Option.some.injEq] at hg
          subst hg
          exact List.mem_flatten.mpr ⟨g', List.mem_cons_self .., hc⟩
      rw [List.flatten_splitBy] at hcm
      have h4 : (0 : Q) ≤ 4 * N0 := by linarith
      show (0 : Q) ≤ 4 * N0 * c.t
      exact Rat.mul_nonneg h4 (hnn c hcm)
  · rw [← hgroups, hnum]
    exact hok
  · rw [← hgroups, hnum]
    exact hf

/-- `buildState_accInv_ok` on the fragment `Tame'` -/
theorem buildState_accInv {args : Args} {pr : Parsed} {N0 : Q} {s : BState} {σ : St}
    (ha : ArgsAgree args pr) (ht : Tame' pr = true) (hf : groupsFrag pr.npop (cmdGroups pr) = true)
    (hm : buildState args N0 = .ok s) (hs : runState pr N0 = .ok σ) : ∃ T, AccInv T s ∧ NameInv s :=
  buildState_accInv_ok ha (groupsOK_of_goodGroups _ _ ht) hf hm hs

/-- `buildState_accInv_ok` on the third fragment `Tame3` -/
theorem buildState_accInv3 {args : Args} {pr : Parsed} {N0 : Q} {s : BState} {σ : St}
    (ha : ArgsAgree args pr) (ht : Tame3 pr = true) (hf : groupsFrag pr.npop (cmdGroups pr) = true)
    (hm : buildState args N0 = .ok s) (hs : runState pr N0 = .ok σ) : ∃ T, AccInv T s ∧ NameInv s :=
  buildState_accInv_ok ha (groupsOK_of_goodGroups3 _ _ ht) hf hm hs

/-! ## non-vacuity -/

/-- all hypotheses of `buildState_accInv` hold of the command -/
def AccHyps (c : List String) (N0 : Q) : Bool :=
  match parseKnownArgs c, parse c with
  | .ok args, .ok pr =>
    argsAgreeB args pr && Tame' pr && groupsFrag pr.npop (cmdGroups pr)
      && (buildState args N0).toOption.isSome && (runState pr N0).toOption.isSome
  | _, _ => false

/-- three populations with sizes set at time 0; at time 1 an admixture pair (`-es 3 -ej 4 1`) and a join of the
admixed population in the same group (a deme whose ancestry has two ancestors), at time 2 a plain join -/
example : AccHyps ["-I", "3", "0", "0", "0", "-n", "1", "2.0", "-n", "3", "0.5", "-es", "1.0", "3", "0.5",
    "-ej", "1.0", "4", "1", "-ej", "1.0", "3", "2", "-ej", "2.0", "2", "1"] 1 = true := by decide +kernel

/-- a pulse (an admixture pair whose population continues) and a size change at a positive time -/
example : AccHyps ["-I", "2", "0", "0", "-en", "0.5", "1", "3.0", "-es", "1.0", "1", "0.25", "-ej", "1.0", "3", "2",
    "-ej", "2.0", "2", "1"] 2 = true := by decide +kernel

end Demes.Proofs.MsAcc

#print axioms Demes.Proofs.MsAcc.buildState_accInv
#print axioms Demes.Proofs.MsAcc.buildState_accInv3
