/-
  Semantic tie of `ms.build_graph` (C08): its tests on population indices, times, growth rates, counts and
  lineage proportions.

  `Generated.guard_ms_*` are the translated `if` tests; `convertPopulationId`, `epochResolve`,
  `migrationMatrixAt`, `finaliseGrowth`, `applyParams` and the `-eG`, `-eg`, `-em`, `-ema` branches of `stepEvent`
  (`Model/Ms.lean`) are proved equal, for ALL inputs, to their `…With` forms (Proofs/Guards2Ms.lean) over them.
  The tests on sizes (symbolic in the Model), on `joined` inside the matrix loops and the `isinstance` dispatch
  are not translated; `guards_tests_ms_build` pins the text of every `if` of the function.
-/
import DemesVerif.Generated.GuardsMsBuild
import DemesVerif.Proofs.Guards2Ms
namespace Demes.Tables
open Demes Demes.Ms Demes.Proofs.Guards Demes.Proofs.Guards2
set_option linter.unusedSimpArgs false

theorem guards_sites_ms_build : Generated.guardSitesMsBuild = [("build_graph", 36, 6)] := by decide +kernel

theorem guards_context_ms_build : Generated.guardContextMsBuild =
    [
     ("guard_ms_bad_id", ["FunctionDef"]),
     ("guard_ms_joined_id", ["FunctionDef"]),
     ("guard_ms_outside", ["FunctionDef"]),
     ("guard_ms_new_epoch", ["FunctionDef"]),
     ("guard_ms_new_matrix", ["FunctionDef"]),
     ("guard_ms_growth_all", ["for (t, events_iter) in itertools.groupby(args.initial_state + args.demographic_events, operator.attrgetter('t'))", "for event in events_group", "if isinstance(event, GrowthRateChange)", "for (j, deme) in enumerate(b.data['demes'])", "if j not in joined"]),
     ("guard_ms_growth_one", ["for (t, events_iter) in itertools.groupby(args.initial_state + args.demographic_events, operator.attrgetter('t'))", "for event in events_group", "else of if isinstance(event, GrowthRateChange)", "if isinstance(event, PopulationGrowthRateChange)"]),
     ("guard_ms_diagonal", ["for (t, events_iter) in itertools.groupby(args.initial_state + args.demographic_events, operator.attrgetter('t'))", "for event in events_group", "else of if isinstance(event, GrowthRateChange)", "else of if isinstance(event, PopulationGrowthRateChange)", "else of if isinstance(event, SizeChange)", "else of if isinstance(event, PopulationSizeChange)", "else of if isinstance(event, MigrationRateChange)", "if isinstance(event, MigrationMatrixEntryChange)"]),
     ("guard_ms_npop", ["for (t, events_iter) in itertools.groupby(args.initial_state + args.demographic_events, operator.attrgetter('t'))", "for event in events_group", "else of if isinstance(event, GrowthRateChange)", "else of if isinstance(event, PopulationGrowthRateChange)", "else of if isinstance(event, SizeChange)", "else of if isinstance(event, PopulationSizeChange)", "else of if isinstance(event, MigrationRateChange)", "else of if isinstance(event, MigrationMatrixEntryChange)", "if isinstance(event, MigrationMatrixChange)"]),
     ("guard_ms_foreign", ["for (t, events_iter) in itertools.groupby(args.initial_state + args.demographic_events, operator.attrgetter('t'))", "for (j, k, p) in split_join_params", "for (o, proportion) in enumerate(lineage_movements[j])"]),
     ("guard_ms_no_foreign", ["for (t, events_iter) in itertools.groupby(args.initial_state + args.demographic_events, operator.attrgetter('t'))", "for (j, k, p) in split_join_params"]),
     ("guard_ms_replaced", ["for (t, events_iter) in itertools.groupby(args.initial_state + args.demographic_events, operator.attrgetter('t'))", "for (j, k, p) in split_join_params"]),
     ("guard_ms_growing", ["for deme in b.data['demes']"]),
     ("guard_ms_infinite", ["for deme in b.data['demes']", "if growth_rate != 0"])] := by decide +kernel

theorem guards_tests_ms_build : Generated.guardTestsMsBuild =
    [
     (0, "args.structure is not None", false),
     (1, "num_demes > 1", false),
     (2, "population_id < 1 or population_id > num_demes", true),
     (3, "pid in joined", true),
     (4, "not start_time > time >= end_time", true),
     (5, "time > end_time", false),
     (6, "time > mm_end_times[0]", false),
     (7, "isinstance(event, GrowthRateChange)", false),
     (8, "j not in joined", false),
     (9, "current_growth_rate != growth_rate", false),
     (10, "isinstance(event, PopulationGrowthRateChange)", false),
     (11, "current_growth_rate != growth_rate", false),
     (12, "isinstance(event, SizeChange)", false),
     (13, "j not in joined", false),
     (14, "current_growth_rate != 0 or current_epoch['end_size'] != size", false),
     (15, "isinstance(event, PopulationSizeChange)", false),
     (16, "current_growth_rate != 0 or current_epoch['end_size'] != size", false),
     (17, "'-en' in event.option_strings", false),
     (18, "isinstance(event, MigrationRateChange)", false),
     (19, "j not in joined", false),
     (20, "j != k and k not in joined", false),
     (21, "isinstance(event, MigrationMatrixEntryChange)", false),
     (22, "pid_i == pid_j", true),
     (23, "isinstance(event, MigrationMatrixChange)", false),
     (24, "'-ma' in event.option_strings", false),
     (25, "event.npop != num_demes", true),
     (26, "j != k", false),
     (27, "isinstance(event, Join)", false),
     (28, "h == pop_i", false),
     (29, "k != pop_i", false),
     (30, "isinstance(event, Split)", false),
     (31, "j != o and proportion > 0", false),
     (32, "len(ancestors) == 0", false),
     (33, "p_jj == 0", false),
     (34, "growth_rate != 0", false),
     (35, "math.isinf(start_time)", true)] := by decide +kernel

/-! ### `convert_population_id` -/

theorem guard_ms_bad_id_meaning (i : Int) (n : Nat) :
    Generated.guard_ms_bad_id (population_id := .fin (i : Q)) (num_demes := .fin (n : Q))
      = (decide (i < 1) || decide (i > (n : Int))) := by
  unfold Generated.guard_ms_bad_id
  have h1 : ((i : Q) < 1) ↔ i < 1 := by exact_mod_cast Iff.rfl
  have h2 : ((n : Q) < (i : Q)) ↔ (n : Int) < i := by exact_mod_cast Iff.rfl
  simp [lt_fin_fin, h1, h2]

theorem guard_ms_joined_id_meaning (joined : List Nat) (pid : Nat) :
    Generated.guard_ms_joined_id (joined := joined) (pid := pid) = joined.contains pid := by
  unfold Generated.guard_ms_joined_id
  first | rfl | simp

theorem guards_tie_convert_population_id : convertPopulationId = convertPopulationIdWith
    (fun i n => Generated.guard_ms_bad_id (population_id := i) (num_demes := n))
    (fun js p => Generated.guard_ms_joined_id (joined := js) (pid := p)) := by
  funext s i
  unfold convertPopulationId convertPopulationIdWith
  simp only [guard_ms_bad_id_meaning, guard_ms_joined_id_meaning]
  first | done | rfl

/-! ### `epoch_resolve`, `migration_matrix_at` -/

theorem guard_ms_outside_meaning (time : Q) (start : ETime) (e : Q) :
    Generated.guard_ms_outside (time := .fin time) (deme_start_time := Num.ofETime start) (epoch_end_time := .fin e)
      = !(decide (ETime.fin time < start) && decide (e ≤ time)) := by
  unfold Generated.guard_ms_outside
  cases start <;> guard_close

theorem guard_ms_new_epoch_meaning (time e : Q) :
    Generated.guard_ms_new_epoch (time := .fin time) (epoch_end_time := .fin e) = decide (e < time) := by
  unfold Generated.guard_ms_new_epoch
  guard_close

theorem guards_tie_epoch_resolve : epochResolve = epochResolveWith
    (fun t s e => Generated.guard_ms_outside (time := t) (deme_start_time := s) (epoch_end_time := e))
    (fun t e => Generated.guard_ms_new_epoch (time := t) (epoch_end_time := e)) := by
  funext d time
  unfold epochResolve epochResolveWith
  simp only [guard_ms_outside_meaning, guard_ms_new_epoch_meaning, decide_eq_true_eq]
  first | done | rfl

theorem guard_ms_new_matrix_meaning (time e : Q) :
    Generated.guard_ms_new_matrix (time := .fin time) (mm_end_times_0 := .fin e) = decide (e < time) := by
  unfold Generated.guard_ms_new_matrix
  guard_close

theorem guards_tie_migration_matrix_at : migrationMatrixAt = migrationMatrixAtWith
    (fun t e => Generated.guard_ms_new_matrix (time := t) (mm_end_times_0 := e)) := by
  funext s time
  unfold migrationMatrixAt migrationMatrixAtWith
  simp only [guard_ms_new_matrix_meaning, decide_eq_true_eq]
  first | done | rfl

/-! ### the event loop: `-eG`, `-eg`, `-em`, `-ema` -/

theorem guard_ms_growth_all_meaning (cur new : Q) :
    Generated.guard_ms_growth_all (current_growth_rate := .fin cur) (growth_rate := .fin new) = decide (cur ≠ new) := by
  unfold Generated.guard_ms_growth_all
  guard_close

theorem guard_ms_growth_one_meaning (cur new : Q) :
    Generated.guard_ms_growth_one (current_growth_rate := .fin cur) (growth_rate := .fin new) = decide (cur ≠ new) := by
  unfold Generated.guard_ms_growth_one
  guard_close

theorem guard_ms_diagonal_meaning (i j : Nat) :
    Generated.guard_ms_diagonal (pid_i := .fin (i : Q)) (pid_j := .fin (j : Q)) = decide (i = j) := by
  unfold Generated.guard_ms_diagonal
  have h : ((i : Q) = (j : Q)) ↔ i = j := by exact_mod_cast Iff.rfl
  simp [eqIEEE_fin_fin, h]

theorem guard_ms_npop_meaning (npop : Int) (n : Nat) :
    Generated.guard_ms_npop (event_npop := .fin (npop : Q)) (num_demes := .fin (n : Q)) = decide (npop ≠ (n : Int)) := by
  unfold Generated.guard_ms_npop
  have h : ((npop : Q) = (n : Q)) ↔ npop = (n : Int) := by exact_mod_cast Iff.rfl
  simp [eqIEEE_fin_fin, h]

theorem guards_tie_step_event : stepEvent = stepEventWith
    (fun c n => Generated.guard_ms_growth_all (current_growth_rate := c) (growth_rate := n))
    (fun c n => Generated.guard_ms_growth_one (current_growth_rate := c) (growth_rate := n))
    (fun i j => Generated.guard_ms_diagonal (pid_i := i) (pid_j := j))
    (fun p n => Generated.guard_ms_npop (event_npop := p) (num_demes := n)) := by
  funext N0 time sg ev
  obtain ⟨s, g⟩ := sg
  cases ev <;>
    simp only [stepEvent, stepEventWith, guard_ms_growth_all_meaning, guard_ms_growth_one_meaning,
      guard_ms_diagonal_meaning, guard_ms_npop_meaning, decide_eq_true_eq] <;>
    first | done | rfl

/-! ### after a time group: ancestry or pulses -/

theorem guard_ms_foreign_meaning (j o : Nat) (p : Q) :
    Generated.guard_ms_foreign (j := .fin (j : Q)) (o := .fin (o : Q)) (proportion := .fin p)
      = (decide (j ≠ o) && decide (p > 0)) := by
  unfold Generated.guard_ms_foreign
  have h : ((j : Q) = (o : Q)) ↔ j = o := by exact_mod_cast Iff.rfl
  simp [eqIEEE_fin_fin, lt_fin_fin, h]

theorem guard_ms_no_foreign_meaning {α} (xs : List α) :
    Generated.guard_ms_no_foreign (len_ancestors := xs.length) = xs.isEmpty := by
  unfold Generated.guard_ms_no_foreign
  cases xs <;> simp

theorem guard_ms_replaced_meaning (x : Q) :
    Generated.guard_ms_replaced (lineage_movements_j_j := .fin x) = decide (x = 0) := by
  unfold Generated.guard_ms_replaced
  guard_close

theorem guards_tie_apply_params : applyParams = applyParamsWith
    (fun j o p => Generated.guard_ms_foreign (j := j) (o := o) (proportion := p))
    (fun n => Generated.guard_ms_no_foreign (len_ancestors := n))
    (fun x => Generated.guard_ms_replaced (lineage_movements_j_j := x)) := by
  funext time s g
  unfold applyParams applyParamsWith
  simp only [guard_ms_foreign_meaning, guard_ms_no_foreign_meaning, guard_ms_replaced_meaning, decide_eq_true_eq]
  first | done | rfl

/-! ### the oldest epochs -/

theorem guard_ms_growing_meaning (x : Q) :
    Generated.guard_ms_growing (growth_rate := .fin x) = decide (x ≠ 0) := by
  unfold Generated.guard_ms_growing
  guard_close

theorem guard_ms_infinite_meaning (t : ETime) :
    Generated.guard_ms_infinite (start_time := Num.ofETime t) = t.isInf := by
  unfold Generated.guard_ms_infinite
  cases t <;> guard_close

theorem guards_tie_finalise_growth : finaliseGrowth = finaliseGrowthWith
    (fun x => Generated.guard_ms_growing (growth_rate := x))
    (fun t => Generated.guard_ms_infinite (start_time := t)) := by
  funext d
  unfold finaliseGrowth finaliseGrowthWith
  simp only [guard_ms_growing_meaning, guard_ms_infinite_meaning, decide_eq_true_eq]
  cases d.epochs with
  | nil => rfl
  | cons e r => cases d.startTime <;> simp [ETime.isInf]

end Demes.Tables
