/-
  C20, part 4: the ring family — `2^n ≤ costSimplify (ring n)`.
-/
import DemesVerif.Proofs.CostRing
namespace Demes.Proofs
open Demes Demes.Cost Demes.Spec

/-! ### names, edges -/

theorem ringName_inj {i j : Nat} (h : ringName i = ringName j) : i = j := by
  have := congrArg String.length h
  simpa [ringName] using this

theorem mem_ringEdges (n p q : Nat) :
    (p, q) ∈ ringEdges n ↔
      (∃ i, i < n - 1 ∧ ((p = i ∧ q = i + 1) ∨ (p = i + 1 ∧ q = i)))
      ∨ (p = n - 1 ∧ q = 0) ∨ (p = 0 ∧ q = n - 1) := by
  simp only [ringEdges, List.mem_append, List.mem_flatMap, List.mem_range, List.mem_cons,
    Prod.mk.injEq, List.not_mem_nil, or_false]

theorem ringEdges_lt (n : Nat) (hn : 1 ≤ n) (e : Nat × Nat) (he : e ∈ ringEdges n) : e.1 < n ∧ e.2 < n := by
  obtain ⟨p, q⟩ := e
  rw [mem_ringEdges] at he
  rcases he with ⟨i, hi, h | h⟩ | h | h <;> simp only <;> omega

theorem length_ringEdges (n : Nat) (hn : 1 ≤ n) : (ringEdges n).length = 2 * n := by
  have : ∀ m, ((List.range m).flatMap (fun i => [(i, i + 1), (i + 1, i)])).length = 2 * m := by
    intro m
    induction m with
    | zero => simp
    | succ m ih => simp only [List.range_succ, List.flatMap_append, List.length_append, ih]; simp; omega
  simp only [ringEdges, List.length_append, this, List.length_cons, List.length_nil]
  omega

/-- in a cycle of at least four vertices, three vertices are never pairwise adjacent -/
theorem ring_no_triangle (n p q r : Nat) (hn : 4 ≤ n)
    (h1 : (p, q) ∈ ringEdges n) (h2 : (p, r) ∈ ringEdges n) (h3 : (q, r) ∈ ringEdges n) : False := by
  rw [mem_ringEdges] at h1 h2 h3
  rcases h1 with ⟨i, hi, h1 | h1⟩ | h1 | h1 <;>
  rcases h2 with ⟨j, hj, h2 | h2⟩ | h2 | h2 <;>
  rcases h3 with ⟨l, hl, h3 | h3⟩ | h3 | h3 <;> omega

/-! ### lookups in the ring -/

theorem find?_range_unique (p : Nat → Bool) (i : Nat) (hp : ∀ j, p j = true ↔ j = i) :
    ∀ n, i < n → (List.range n).find? p = some i := by
  intro n
  induction n with
  | zero => intro h; omega
  | succ n ih =>
    intro h
    rw [List.range_succ, List.find?_append]
    by_cases hin : i < n
    · rw [ih hin]; rfl
    · have : i = n := by omega
      subst this
      have hnone : (List.range i).find? p = none := by
        rw [List.find?_eq_none]
        intro j hj
        have : j ≠ i := by have := List.mem_range.mp hj; omega
        intro hpj; exact this ((hp j).mp hpj)
      rw [hnone]
      simp [(hp i).mpr rfl]

theorem ring_deme? (n i : Nat) (h : i < n) : (ring n).deme? (ringName i) = some (ringDeme i) := by
  have hidx : (ring n).indexLookup (ringName i) = some i := by
    simp only [Graph.indexLookup, ring, List.find?_map]
    rw [find?_range_unique _ i _ n h]
    · rfl
    · intro j
      simp only [Function.comp, decide_eq_true_eq]
      exact ⟨ringName_inj, fun e => by rw [e]⟩
  simp only [Graph.deme?, hidx]
  simp [ring, h]

/-- the migration of the ring after `stripBounds`: both implied bounds are deleted -/
def ringAMig (e : Nat × Nat) : AMig :=
  { source := ringName e.1, dest := ringName e.2, start := none, stop := none, rate := ringRate }

theorem stripBounds_ring (n : Nat) (e : Nat × Nat) (h1 : e.1 < n) (h2 : e.2 < n) :
    stripBounds (ring n) (ringMig e) = ringAMig e := by
  have e1 : Deme.endTime (ringDeme e.1) = 0 := rfl
  have e2 : Deme.endTime (ringDeme e.2) = 0 := rfl
  have s1 : (ringDeme e.1).startTime = ETime.inf := rfl
  have s2 : (ringDeme e.2).startTime = ETime.inf := rfl
  have hq : qmax (0 : Q) 0 = 0 := by decide
  have hm : ETime.min ETime.inf ETime.inf = ETime.inf := by decide
  simp only [stripBounds, ringMig, ring_deme? n _ h1, ring_deme? n _ h2, e1, e2, s1, s2, hq, hm,
    if_true, ringAMig]

theorem ring_ams (n : Nat) (hn : 1 ≤ n) :
    (ring n).migrations.map (stripBounds (ring n)) = (ringEdges n).map ringAMig := by
  have : (ring n).migrations = (ringEdges n).map ringMig := rfl
  rw [this, List.map_map]
  apply List.map_congr_left
  intro e he
  have := ringEdges_lt n hn e he
  exact stripBounds_ring n e this.1 this.2

/-! ### `rateSets` of migrations that all share one key -/

theorem rateSets_const_aux (k : RateKey) : ∀ (ams : List AMig) (ps : List (String × String)),
    (∀ a ∈ ams, a.key = k) →
    ams.foldl (fun (acc : List (RateKey × List (String × String))) a =>
      if acc.any (fun kv => kv.1 = a.key) then
        acc.map (fun kv => if kv.1 = a.key then (kv.1, kv.2 ++ [(a.source, a.dest)]) else kv)
      else acc ++ [(a.key, [(a.source, a.dest)])]) [(k, ps)]
      = [(k, ps ++ ams.map (fun a => (a.source, a.dest)))]
  | [], ps, _ => by simp
  | a :: ams, ps, h => by
    have ha := h a (by simp)
    simp only [List.foldl_cons, List.any_cons, List.any_nil, ha, decide_true, Bool.or_false,
      if_true, List.map_cons, List.map_nil]
    rw [rateSets_const_aux k ams _ (fun b hb => h b (by simp [hb]))]
    simp

theorem rateSets_const (k : RateKey) (a : AMig) (ams : List AMig) (h : ∀ b ∈ a :: ams, b.key = k) :
    rateSets (a :: ams) = [(k, (a :: ams).map (fun a => (a.source, a.dest)))] := by
  have ha := h a (by simp)
  simp only [rateSets, List.foldl_cons, List.any_nil, Bool.false_eq_true, if_false, List.nil_append, ha]
  have := rateSets_const_aux k ams [(a.source, a.dest)] (fun b hb => h b (by simp [hb]))
  simpa using this

/-- the pairs of the single rate class of the ring -/
def ringPairs (n : Nat) : List (String × String) :=
  (ringEdges n).map (fun e => (ringName e.1, ringName e.2))

def ringKey : RateKey := (ringRate, none, none)

theorem ring_rateSets (n : Nat) (hn : 1 ≤ n) :
    rateSets ((ringEdges n).map ringAMig) = [(ringKey, ringPairs n)] := by
  have hne : ringEdges n ≠ [] := by
    intro h; have := length_ringEdges n hn; rw [h] at this; simp at this; omega
  obtain ⟨e, es, hes⟩ := List.exists_cons_of_ne_nil hne
  rw [hes, List.map_cons, rateSets_const ringKey]
  · simp only [ringPairs, hes, List.map_cons, List.map_map, ringAMig]
    rfl
  · intro b hb
    rw [← List.map_cons, List.mem_map] at hb
    obtain ⟨e', _, rfl⟩ := hb
    rfl

theorem mem_ringPairs (n p q : Nat) :
    (ringName p, ringName q) ∈ ringPairs n ↔ (p, q) ∈ ringEdges n := by
  simp only [ringPairs, List.mem_map, Prod.mk.injEq]
  constructor
  · rintro ⟨⟨a, b⟩, h, h1, h2⟩
    have := ringName_inj h1; have := ringName_inj h2
    simp_all
  · intro h; exact ⟨(p, q), h, rfl, rfl⟩

/-! ### the demes of the class -/

def ringNames (n : Nat) : List String := (List.range n).map ringName

theorem nodup_ringNames (n : Nat) : (ringNames n).Nodup := by
  simp only [ringNames]
  apply List.Nodup.map_on
  · intro a _ b _ h; exact ringName_inj h
  · exact List.nodup_range

theorem mem_collapse_ring (n : Nat) (hn : 2 ≤ n) (x : String) :
    x ∈ collapseDemes (ringPairs n) ↔ x ∈ ringNames n := by
  rw [mem_collapseDemes]
  simp only [ringPairs, ringNames, List.mem_map, List.mem_range]
  constructor
  · rintro ⟨p, ⟨e, he, rfl⟩, h⟩
    have := ringEdges_lt n (by omega) e he
    rcases h with h | h
    · exact ⟨e.1, this.1, h.symm⟩
    · exact ⟨e.2, this.2, h.symm⟩
  · rintro ⟨i, hi, rfl⟩
    by_cases h : i < n - 1
    · refine ⟨_, ⟨(i, i + 1), ?_, rfl⟩, Or.inl rfl⟩
      rw [mem_ringEdges]; exact Or.inl ⟨i, h, Or.inl ⟨rfl, rfl⟩⟩
    · refine ⟨_, ⟨(n - 1, 0), ?_, rfl⟩, Or.inl ?_⟩
      · rw [mem_ringEdges]; exact Or.inr (Or.inl ⟨rfl, rfl⟩)
      · have : i = n - 1 := by omega
        simp [this]

theorem length_collapse_ring (n : Nat) (hn : 2 ≤ n) : (collapseDemes (ringPairs n)).length = n := by
  have hp : (collapseDemes (ringPairs n)).Perm (ringNames n) :=
    (List.perm_ext_iff_of_nodup (nodup_collapseDemes _) (nodup_ringNames n)).mpr (mem_collapse_ring n hn)
  rw [hp.length_eq]; simp [ringNames]

/-- in a ring of at least four demes no subset of three or more demes is fully connected -/
theorem ring_no_big_subset (n : Nat) (hn : 4 ≤ n) (i : Nat) (hi : 3 ≤ i)
    (c : List String) (hc : c ∈ combinations (collapseDemes (ringPairs n)) i) :
    (perms2 c).all (fun p => (ringPairs n).contains p) = false := by
  obtain ⟨hsub, hlen⟩ := combinations_sublist _ _ _ hc
  have hnd : c.Nodup := List.Nodup.sublist hsub (nodup_collapseDemes _)
  have hmem : ∀ x ∈ c, ∃ j, j < n ∧ x = ringName j := by
    intro x hx
    have := (mem_collapse_ring n (by omega) x).mp (hsub.subset hx)
    simp only [ringNames, List.mem_map, List.mem_range] at this
    obtain ⟨j, hj, rfl⟩ := this
    exact ⟨j, hj, rfl⟩
  match c, hlen, hnd, hmem with
  | x :: y :: z :: rest, _, hnd, hmem =>
    obtain ⟨p, _, rfl⟩ := hmem x (by simp)
    obtain ⟨q, _, rfl⟩ := hmem y (by simp)
    obtain ⟨r, _, rfl⟩ := hmem z (by simp)
    have m1 := mem_perms2 (ringName p :: ringName q :: ringName r :: rest) (ringName p) (ringName q) 0 1 (by omega) rfl rfl
    have m2 := mem_perms2 (ringName p :: ringName q :: ringName r :: rest) (ringName p) (ringName r) 0 2 (by omega) rfl rfl
    have m3 := mem_perms2 (ringName p :: ringName q :: ringName r :: rest) (ringName q) (ringName r) 1 2 (by omega) rfl rfl
    rw [List.all_eq_false]
    by_cases h1 : (p, q) ∈ ringEdges n
    · by_cases h2 : (p, r) ∈ ringEdges n
      · have h3 : (q, r) ∉ ringEdges n := fun h3 => ring_no_triangle n p q r hn h1 h2 h3
        exact ⟨_, m3, by simp [mem_ringPairs, h3]⟩
      · exact ⟨_, m2, by simp [mem_ringPairs, h2]⟩
    · exact ⟨_, m1, by simp [mem_ringPairs, h1]⟩
  | [], hl, _, _ => simp only [List.length_nil] at hl; omega
  | [_], hl, _, _ => simp only [List.length_cons, List.length_nil] at hl; omega
  | [_, _], hl, _, _ => simp only [List.length_cons, List.length_nil] at hl; omega

/-! ### assembly -/

/-- the search on the ring examines every subset of 3, …, n demes: at least
`2^n - 1 - n - C(n,2)` ticks -/
theorem cost_search_ring_lower (n : Nat) (hn : 4 ≤ n) :
    2 ^ n ≤ costSearch (ring n) + (1 + n + Nat.choose n 2) := by
  have hams := ring_ams n (by omega)
  have hrs := ring_rateSets n (by omega)
  have hlen := length_collapse_ring n (by omega)
  have hpl : (ringPairs n).length = 2 * n := by simp [ringPairs, length_ringEdges n (by omega)]
  have hne1 : ¬ (ringPairs n).length = 1 := by omega
  have hd := searchLoopC_descent ringKey (collapseDemes (ringPairs n))
    { symmetric := [], asymmetric := (ringEdges n).map ringAMig, pairs := ringPairs n }
    (by omega) (fun i hi c hc => ring_no_big_subset n hn i hi c hc)
    n ((ringPairs n).length + (collapseDemes (ringPairs n)).length + 2) (by omega) (by omega)
  rw [hlen, chooseUpTo_self, chooseUpTo_two] at hd
  simp only [costSearch, simplifyMigrationsC, hams, hrs, classesC, List.foldl_cons, List.foldl_nil,
    hne1, if_false, hlen]
  omega

/-- F9: simplifying a ring of `n ≥ 4` demes that share one migration rate takes at least `2^n`
steps -/
theorem cost_simplify_ring_lower (n : Nat) (hn : 4 ≤ n) : 2 ^ n ≤ costSimplify (ring n) := by
  have h := cost_search_ring_lower n hn
  have hM : (ring n).migrations.length = 2 * n := by
    simp [ring, length_ringEdges n (by omega)]
  have hc : Nat.choose n 2 ≤ n * n := by
    rw [Nat.choose_two_right]
    exact le_trans (Nat.div_le_self _ _) (Nat.mul_le_mul_left _ (Nat.sub_le _ _))
  simp only [costSimplify, hM]
  simp only [costSearch] at h
  nlinarith

end Demes.Proofs
