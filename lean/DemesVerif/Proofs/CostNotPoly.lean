/-
  C20, part 7: no polynomial in the numbers of demes, epochs, migrations and pulses bounds
  `costSimplify` — the negation of the property for `asdict_simplified`, from the ring family.
-/
import DemesVerif.Proofs.CostRingFamily
namespace Demes.Proofs
open Demes Demes.Cost Demes.Spec

theorem sq_le_two_pow : ∀ k : Nat, 4 ≤ k → k * k ≤ 2 ^ k := by
  intro k hk
  induction k with
  | zero => omega
  | succ k ih =>
    by_cases h : k = 3
    · subst h; decide
    · have := ih (by omega)
      rw [Nat.pow_succ]
      nlinarith

/-- every polynomial `c·x^d` is eventually below `2^n` along `x = 4n + 1`, `n = 2^k` -/
theorem poly_lt_two_pow (c d : Nat) : ∃ n, 4 ≤ n ∧ c * (4 * n + 1) ^ d < 2 ^ n := by
  obtain ⟨k, hk⟩ : ∃ k, k = c + 3 * d + 4 := ⟨_, rfl⟩
  have hk4 : 4 ≤ k := by omega
  have h1 : c + (k + 3) * d ≤ k * k := by
    rw [hk]; nlinarith [Nat.zero_le (c * d), Nat.zero_le (d * d), Nat.zero_le (c * c)]
  have h2 : k * k ≤ 2 ^ k := sq_le_two_pow k hk4
  have hn1 : 1 ≤ 2 ^ k := Nat.one_le_two_pow
  have hn4 : 4 ≤ 2 ^ k := by
    calc 4 = 2 ^ 2 := rfl
      _ ≤ 2 ^ k := Nat.pow_le_pow_right (by omega) (by omega)
  refine ⟨2 ^ k, hn4, ?_⟩
  have hb : 4 * 2 ^ k + 1 ≤ 2 ^ (k + 3) := by
    rw [Nat.pow_add]; omega
  calc c * (4 * 2 ^ k + 1) ^ d
      ≤ c * (2 ^ (k + 3)) ^ d := Nat.mul_le_mul_left _ (Nat.pow_le_pow_left hb d)
    _ = c * 2 ^ ((k + 3) * d) := by rw [← Nat.pow_mul]
    _ < 2 ^ c * 2 ^ ((k + 3) * d) :=
        Nat.mul_lt_mul_of_pos_right Nat.lt_two_pow_self (Nat.two_pow_pos _)
    _ = 2 ^ (c + (k + 3) * d) := by rw [Nat.pow_add]
    _ ≤ 2 ^ (2 ^ k) := Nat.pow_le_pow_right (by omega) (le_trans h1 h2)

theorem sum_map_one {α} (l : List α) : (l.map (fun _ => 1)).sum = l.length := by
  induction l with
  | nil => rfl
  | cons a l ih => simp only [List.map_cons, List.sum_cons, List.length_cons, ih]; omega

theorem ring_sizes (n : Nat) (hn : 1 ≤ n) :
    nDemes (ring n) = n ∧ nEpochs (ring n) = n ∧ nMigrations (ring n) = 2 * n ∧ nPulses (ring n) = 0 := by
  refine ⟨by simp [nDemes, ring], ?_, by simp [nMigrations, ring, length_ringEdges n hn], rfl⟩
  simp only [nEpochs, ring, List.map_map]
  have : ((fun d : Deme => d.epochs.length) ∘ ringDeme) = fun _ => 1 := rfl
  rw [this, sum_map_one]; simp

/-- F9, as the negation of the property: there are no constants `c, d` such that
`costSimplify g ≤ c · (D + E + M + P + 1)^d` for every graph `g` -/
theorem cost_simplify_not_poly :
    ¬ ∃ c d : Nat, ∀ g : Graph,
      costSimplify g ≤ c * (nDemes g + nEpochs g + nMigrations g + nPulses g + 1) ^ d := by
  rintro ⟨c, d, h⟩
  obtain ⟨n, hn, hlt⟩ := poly_lt_two_pow c d
  have hs := ring_sizes n (by omega)
  have hr := h (ring n)
  rw [hs.1, hs.2.1, hs.2.2.1, hs.2.2.2] at hr
  have hl := cost_simplify_ring_lower n hn
  have he : n + n + 2 * n + 0 + 1 = 4 * n + 1 := by omega
  rw [he] at hr
  omega

end Demes.Proofs
