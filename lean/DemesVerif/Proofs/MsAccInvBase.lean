/-
  C09, acceptance — the invariant `AccInv` through the event loop: auxiliary definitions.

  * `Mid`: what is known of the Builder state in the middle of a time group (Model side only);
  * `GroupX`: two facts about the moves of the group that `GroupInv` (C08) does not carry: the target of a
    move is alive, and the single ancestor a `-ej` writes is the target of a move;
  * `sumTo`: the total mass of a row (as a function on populations numbered from 1).
-/
import DemesVerif.Proofs.MsAccDefs
namespace Demes.Proofs.MsAcc
open Demes Demes.Ms Demes.Spec Demes.Spec.MsSem Demes.Spec.C08 Demes.Proofs.FromMs

/-- the epochs of deme `j` are those it had at the start of the group, or the deme was created in the group
and has the single epoch `newDeme` gave it -/
def EpKeep (T' : Q) (s0 : BState) (j : Nat) (d : BDeme) : Prop :=
  (∃ d0, s0.demes[j]? = some d0 ∧ d.epochs = d0.epochs) ∨
  (s0.demes.length ≤ j ∧ ∃ e, d.epochs = [e] ∧ e.endTime = T')

/-- **the Builder state in the middle of the time group at `T'`** (`s0`: the state at the start of the group,
`T`: the time of the previous group; `P j`: some size option of the group names deme `j`) -/
structure Mid (P : Nat → Prop) (T T' : Q) (s0 s : BState) (g : GState) : Prop where
  n0le : s0.demes.length ≤ s.demes.length
  ep : ∀ (j : Nat) (d : BDeme), s.demes[j]? = some d → EpochsWF T' d
  live : ∀ (j : Nat) (d : BDeme), s.demes[j]? = some d → s.joined.contains j = false →
    d.startTime = .inf ∧ d.ancestors = none ∧ d.proportions = none
  dead : ∀ (j : Nat) (d : BDeme), s.demes[j]? = some d → s.joined.contains j = true →
    s0.joined.contains j = false → T < T' ∧ d.startTime = .fin T' ∧ d.proportions = none ∧ EpKeep T' s0 j d
  keep : ∀ (j : Nat) (d : BDeme), s.demes[j]? = some d → P j ∨ EpKeep T' s0 j d
  zrow : ∀ (j : Nat), s0.numDemes ≤ j → ∀ k, lmGet g.lm j k = 0

/-- beside `GroupInv`: the targets of the moves so far are alive; the population a pending `-es` has
created is not yet the target of a move; a deme joined in the group has as its single ancestor the target
of a move -/
structure GroupX (s0 s : BState) (done : List MOp) (pend : Option (Nat × Q)) : Prop where
  tgtAlive : ∀ o ∈ done ++ flushOp s.numDemes pend, s.joined.contains (o.2.1 - 1) = false
  pendFresh : pend.isSome → ∀ o ∈ done, o.2.1 ≠ s.numDemes
  ancTgt : ∀ (j : Nat) (d : BDeme), s.demes[j]? = some d → s.joined.contains j = true →
    s0.joined.contains j = false →
    ∃ k, d.ancestors = some [Ms.demeName k] ∧ k ≠ j ∧ ∃ o ∈ done, o.2.1 = k + 1

/-- `f 1 + … + f N` -/
def sumTo : Nat → RowF → Q
  | 0, _ => 0
  | n + 1, f => sumTo n f + f (n + 1)

end Demes.Proofs.MsAcc
