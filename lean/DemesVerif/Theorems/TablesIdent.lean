/-
  The identifier classes the Model uses beyond ASCII are the ones of the interpreter that runs
  the library (regenerated into Generated/Ident.lean on every run), and `valid_deme_name` is
  still the single test `not value.isidentifier()`.
-/
import DemesVerif.Generated.Ident
import DemesVerif.Model.Value
namespace Demes.Tables
open Demes

/-- `valid_deme_name(self, attribute, value)` consists of one `if not value.isidentifier(): raise` -/
theorem tables_valid_deme_name :
    Generated.validDemeName = (["self", "attribute", "value"], 1, 1, ["not value.isidentifier()"]) := by
  decide +kernel

theorem tables_xid_start : Generated.xidStartRanges = Ident.xidStartRanges := by decide +kernel
theorem tables_xid_continue : Generated.xidContinueRanges = Ident.xidContinueRanges := by decide +kernel

/-- the tables are sorted, disjoint, non-adjacent ranges of non-ASCII scalar values (so membership is
what a binary search over them would give and no ASCII character is affected) -/
def rangesWellFormed (t : List (Nat × Nat)) : Bool :=
  t.all (fun r => 128 ≤ r.1 && r.1 ≤ r.2 && r.2 ≤ 0x10FFFF)
    && (t.zip t.tail).all (fun (a, b) => a.2 + 1 < b.1)

theorem tables_xid_start_wf : rangesWellFormed Ident.xidStartRanges = true := by decide +kernel
theorem tables_xid_continue_wf : rangesWellFormed Ident.xidContinueRanges = true := by decide +kernel

/-- every start range lies inside one continue range: a character that may begin an identifier may
also continue one -/
theorem tables_xid_start_sub_continue :
    Ident.xidStartRanges.all (fun r => Ident.xidContinueRanges.any (fun c => c.1 ≤ r.1 && r.2 ≤ c.2)) = true := by
  decide +kernel

/-- on ASCII the Model's classes are letters / digits / underscore whatever the tables say -/
theorem isIdStart_ascii (c : Char) (h : c.toNat < 128) : isIdStart c = (c.isAlpha || c == '_') := by
  unfold isIdStart
  have : decide (128 ≤ c.toNat) = false := by simp; omega
  simp [this]

theorem isIdCont_ascii (c : Char) (h : c.toNat < 128) : isIdCont c = (c.isAlphanum || c == '_') := by
  unfold isIdCont
  have : decide (128 ≤ c.toNat) = false := by simp; omega
  simp [this]

/-- non-vacuity / spot checks beyond ASCII: Greek and CJK letters and `℘` start an identifier; a
combining accent, an Arabic-Indic digit and the middle dot only continue one; superscript two, the
no-break space and an emoji do neither -/
example : isIdentifier "π" = true ∧ isIdentifier "名前" = true ∧ isIdentifier "℘x" = true
    ∧ isIdentifier "á" = true ∧ isIdentifier "́a" = false
    ∧ isIdentifier "x٣" = true ∧ isIdentifier "٣x" = false
    ∧ isIdentifier "a·b" = true ∧ isIdentifier "·" = false
    ∧ isIdentifier "a²" = false ∧ isIdentifier "a b" = false ∧ isIdentifier "😀" = false
    ∧ isIdentifier "" = false ∧ isIdentifier "deme_1" = true ∧ isIdentifier "1deme" = false := by
  decide +kernel

end Demes.Tables
