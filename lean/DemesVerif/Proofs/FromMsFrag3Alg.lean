/-
  C08, link C (movements), the third fragment — rows as functions, without `NSAT`.  The populations joined in
  the group (`J`) are never the target of a move; so a row that starts outside `J` never holds anything on `J`,
  the moves out of joined populations do not act on it, and the pulses the graph applies (the moves out of the
  populations that are not joined, in command order) give the row the interpreter computes.  A population that
  is not joined keeps something at home; if its row has nothing elsewhere, every one of its moves is trivial.
-/
import DemesVerif.Proofs.FromMsApplyAlg
namespace Demes.Proofs.FromMs
open Demes

/-- no move has as its target the source of a later **join** (`q = 1`): what `-ej` needs in order not to
redirect an earlier entry of `split_join_params` -/
def NJT (ops : List MOp) : Prop := ops.Pairwise (fun o1 o2 => o2.2.2 = 1 → o1.2.1 ≠ o2.1)

theorem njt_of_nsat {ops : List MOp} (h : NSAT ops) : NJT ops := by
  unfold NSAT at h
  unfold NJT
  exact List.Pairwise.imp (fun {a b} (hab : a.2.1 ≠ b.1) (_ : b.2.2 = 1) => hab) h

/-- the moves of a group of the third fragment (`n` populations exist before the group): every source existed
before the group; no population joined in the group is the target of a move -/
def Frag3 (n : Nat) (ops : List MOp) : Prop :=
  (∀ o ∈ ops, o.1 ≤ n) ∧ (∀ o ∈ ops, o.2.2 = 1 → ∀ o' ∈ ops, o'.2.1 ≠ o.1)

theorem njt_of_frag3 {n : Nat} {ops : List MOp} (h : Frag3 n ops) : NJT ops := by
  unfold NJT
  apply List.pairwise_of_forall_mem_list
  intro a ha b hb hq
  exact h.2 b hb hq a ha

/-! ## trivial moves -/

theorem opF_triv_self {o : MOp} (f : RowF) (h : o.2.1 = o.1) : opF o f = f := by
  funext k
  unfold opF
  by_cases h1 : k = o.2.1
  · simp [h1, h]
  · have : ¬ k = o.1 := by rw [← h]; exact h1
    simp [h1, this]

theorem opF_triv_zero {o : MOp} (f : RowF) (h : o.2.2 = 0) : opF o f = f := by
  funext k
  unfold opF
  by_cases h1 : k = o.2.1
  · by_cases h2 : o.2.1 = o.1
    · simp [h1, h2]
    · simp [h1, h2, h]
  · by_cases h2 : k = o.1
    · simp [h1, h2, h]
    · simp [h1, h2]

/-! ## rows that hold nothing on `J` -/

theorem opF_vanish {J : Nat → Prop} {o : MOp} {f : RowF} (hf : ∀ k, J k → f k = 0) (ht : ¬ J o.2.1) :
    ∀ k, J k → opF o f k = 0 := by
  intro k hk
  unfold opF
  by_cases h1 : k = o.2.1
  · exact (ht (h1 ▸ hk)).elim
  · rw [if_neg h1]
    by_cases h2 : k = o.1
    · rw [if_pos h2, ← h2, hf k hk]; ring
    · rw [if_neg h2]; exact hf k hk

theorem foldOps_vanish {J : Nat → Prop} : ∀ (ops : List MOp) (f : RowF), (∀ k, J k → f k = 0) →
    (∀ o ∈ ops, ¬ J o.2.1) → ∀ k, J k → foldOps ops f k = 0 := by
  intro ops
  induction ops with
  | nil => intro f hf _; exact hf
  | cons o rest ih =>
    intro f hf ht
    rw [foldOps_cons]
    exact ih _ (opF_vanish hf (ht o (List.mem_cons_self ..))) (fun o' ho' => ht o' (List.mem_cons_of_mem _ ho'))

/-- leaving out moves whose source is in `J`, and trivial moves, does not change a row that holds nothing on `J` -/
theorem foldOps_filter_eq {J : Nat → Prop} (keep : MOp → Bool) : ∀ (ops : List MOp) (f : RowF),
    (∀ k, J k → f k = 0) → (∀ o ∈ ops, ¬ J o.2.1) →
    (∀ o ∈ ops, keep o = false → J o.1 ∨ o.2.1 = o.1 ∨ o.2.2 = 0) →
    foldOps (ops.filter keep) f = foldOps ops f := by
  intro ops
  induction ops with
  | nil => intro f _ _ _; rfl
  | cons o rest ih =>
    intro f hf ht hk
    have ht' : ∀ o' ∈ rest, ¬ J o'.2.1 := fun o' ho' => ht o' (List.mem_cons_of_mem _ ho')
    have hk' : ∀ o' ∈ rest, keep o' = false → J o'.1 ∨ o'.2.1 = o'.1 ∨ o'.2.2 = 0 :=
      fun o' ho' => hk o' (List.mem_cons_of_mem _ ho')
    by_cases hko : keep o = true
    · rw [List.filter_cons_of_pos hko, foldOps_cons, foldOps_cons]
      exact ih _ (opF_vanish hf (ht o (List.mem_cons_self ..))) ht' hk'
    · rw [List.filter_cons_of_neg hko, foldOps_cons]
      have hstep : opF o f = f := by
        rcases hk o (List.mem_cons_self ..) (by simpa using hko) with h | h | h
        · exact opF_noop (hf _ h)
        · exact opF_triv_self f h
        · exact opF_triv_zero f h
      rw [hstep]
      exact ih f hf ht' hk'

/-! ## what stays positive -/

theorem opF_pos_keep {o : MOp} {f : RowF} {r : Nat} (hq0 : 0 ≤ o.2.2) (hf : ∀ k, 0 ≤ f k)
    (hlt : o.1 = r → o.2.2 < 1) (hr : 0 < f r) : 0 < opF o f r := by
  unfold opF
  by_cases h1 : r = o.2.1
  · rw [if_pos h1]
    split
    · exact hr
    · have : 0 ≤ f o.1 * o.2.2 := Rat.mul_nonneg (hf _) hq0
      linarith
  · rw [if_neg h1]
    by_cases h2 : r = o.1
    · rw [if_pos h2, ← h2]
      have := hlt h2.symm
      exact Rat.mul_pos hr (by linarith)
    · rw [if_neg h2]; exact hr

/-- a column stays positive as long as no move takes everything out of it -/
theorem foldOps_pos_keep (r : Nat) : ∀ (ops : List MOp) (f : RowF), (∀ o ∈ ops, 0 ≤ o.2.2 ∧ o.2.2 ≤ 1) →
    (∀ k, 0 ≤ f k) → (∀ o ∈ ops, o.1 = r → o.2.2 < 1) → 0 < f r → 0 < foldOps ops f r := by
  intro ops
  induction ops with
  | nil => intro f _ _ _ h; exact h
  | cons o rest ih =>
    intro f hq hf hlt hr
    rw [foldOps_cons]
    obtain ⟨q0, q1⟩ := hq o (List.mem_cons_self ..)
    exact ih _ (fun o' ho' => hq o' (List.mem_cons_of_mem _ ho')) (opF_nonneg q0 q1 hf)
      (fun o' ho' => hlt o' (List.mem_cons_of_mem _ ho'))
      (opF_pos_keep q0 hf (hlt o (List.mem_cons_self ..)) hr)

/-- a row that keeps nothing at home has been joined — for every list of moves -/
theorem diag_zero_joined {ops : List MOp} {r : Nat} (hq : ∀ o ∈ ops, 0 ≤ o.2.2 ∧ o.2.2 ≤ 1)
    (h0 : foldOps ops (delta r) r = 0) : ∃ o ∈ ops, o.1 = r ∧ o.2.2 = 1 := by
  by_contra hne
  have hlt : ∀ o ∈ ops, o.1 = r → o.2.2 < 1 := by
    intro o ho hor
    rcases Rat.le_iff_lt_or_eq.mp (hq o ho).2 with hl | he
    · exact hl
    · exact (hne ⟨o, ho, hor, he⟩).elim
  have hpos := foldOps_pos_keep r ops (delta r) hq (delta_nonneg r) hlt (by rw [delta_self]; decide)
  rw [h0] at hpos
  exact Rat.lt_irrefl hpos

/-! ## something elsewhere stays elsewhere -/

/-- the state of a row of population `a` that holds nothing on `J`, is non-negative, and holds something
outside `a` -/
def OffDiag (J : Nat → Prop) (a : Nat) (f : RowF) : Prop :=
  (∀ k, J k → f k = 0) ∧ (∀ k, 0 ≤ f k) ∧ ∃ k, k ≠ a ∧ 0 < f k

theorem opF_offDiag {J : Nat → Prop} {a : Nat} {o : MOp} {f : RowF} (hq0 : 0 ≤ o.2.2) (hq1 : o.2.2 ≤ 1)
    (ht : ¬ J o.2.1) (hj : o.2.2 = 1 → J o.1) (h : OffDiag J a f) : OffDiag J a (opF o f) := by
  obtain ⟨hv, hnn, k, hka, hk⟩ := h
  refine ⟨opF_vanish hv ht, opF_nonneg hq0 hq1 hnn, k, hka, ?_⟩
  apply opF_pos_keep hq0 hnn _ hk
  intro hok
  rcases Rat.le_iff_lt_or_eq.mp hq1 with hl | he
  · exact hl
  · have := hv k (hok ▸ hj he)
    rw [this] at hk
    exact (Rat.lt_irrefl hk).elim

theorem foldOps_offDiag {J : Nat → Prop} {a : Nat} : ∀ (ops : List MOp) (f : RowF),
    (∀ o ∈ ops, 0 ≤ o.2.2 ∧ o.2.2 ≤ 1) → (∀ o ∈ ops, ¬ J o.2.1) → (∀ o ∈ ops, o.2.2 = 1 → J o.1) →
    OffDiag J a f → OffDiag J a (foldOps ops f) := by
  intro ops
  induction ops with
  | nil => intro f _ _ _ h; exact h
  | cons o rest ih =>
    intro f hq ht hj h
    rw [foldOps_cons]
    obtain ⟨q0, q1⟩ := hq o (List.mem_cons_self ..)
    exact ih _ (fun o' ho' => hq o' (List.mem_cons_of_mem _ ho')) (fun o' ho' => ht o' (List.mem_cons_of_mem _ ho'))
      (fun o' ho' => hj o' (List.mem_cons_of_mem _ ho'))
      (opF_offDiag q0 q1 (ht o (List.mem_cons_self ..)) (hj o (List.mem_cons_self ..)) h)

/-- **a population that is not joined and whose row has nothing elsewhere moves nothing**: every one of its
moves goes to itself or has fraction 0 -/
theorem trivial_of_no_offdiag {J : Nat → Prop} {ops : List MOp} {a : Nat}
    (hq : ∀ o ∈ ops, 0 ≤ o.2.2 ∧ o.2.2 ≤ 1) (ht : ∀ o ∈ ops, ¬ J o.2.1) (hj : ∀ o ∈ ops, o.2.2 = 1 → J o.1)
    (ha : ¬ J a) (hno : ∀ k, k ≠ a → ¬ 0 < foldOps ops (delta a) k) :
    ∀ o ∈ ops, o.1 = a → o.2.1 = o.1 ∨ o.2.2 = 0 := by
  intro o ho hoa
  by_contra hcon
  have hne : o.2.1 ≠ o.1 := fun e => hcon (Or.inl e)
  have hq0 : o.2.2 ≠ 0 := fun e => hcon (Or.inr e)
  obtain ⟨pre, post, hsplit⟩ := List.append_of_mem ho
  have hqpre : ∀ o' ∈ pre, 0 ≤ o'.2.2 ∧ o'.2.2 ≤ 1 := fun o' ho' => hq o' (by rw [hsplit]; exact List.mem_append_left _ ho')
  have htpre : ∀ o' ∈ pre, ¬ J o'.2.1 := fun o' ho' => ht o' (by rw [hsplit]; exact List.mem_append_left _ ho')
  have hpost : ∀ o' ∈ post, o' ∈ ops := fun o' ho' => by
    rw [hsplit]; exact List.mem_append_right _ (List.mem_cons_of_mem _ ho')
  have hda : ∀ k, J k → delta a k = 0 := fun k hk => delta_ne (fun e => ha (e ▸ hk))
  -- the row before the move
  have hv1 := foldOps_vanish pre (delta a) hda htpre
  have hnn1 := foldOps_nonneg pre (delta a) hqpre (delta_nonneg a)
  have hpos1 : 0 < foldOps pre (delta a) a := by
    apply foldOps_pos_keep a pre (delta a) hqpre (delta_nonneg a) _ (by rw [delta_self]; decide)
    intro o' ho' ho'a
    rcases Rat.le_iff_lt_or_eq.mp (hqpre o' ho').2 with hl | he
    · exact hl
    · exact (ha (ho'a ▸ hj o' (by rw [hsplit]; exact List.mem_append_left _ ho') he)).elim
  obtain ⟨q0, q1⟩ := hq o ho
  -- after the move something is at its target
  have hoff : OffDiag J a (opF o (foldOps pre (delta a))) := by
    refine ⟨opF_vanish hv1 (ht o ho), opF_nonneg q0 q1 hnn1, o.2.1, by rw [← hoa]; exact hne, ?_⟩
    unfold opF
    rw [if_pos rfl, if_neg hne, hoa]
    have h1 : 0 < o.2.2 := lt_of_le_of_ne q0 (fun e => hq0 e.symm)
    have h2 : 0 < foldOps pre (delta a) a * o.2.2 := Rat.mul_pos hpos1 h1
    have h3 := hnn1 o.2.1
    linarith
  have hfin := foldOps_offDiag (a := a) post _ (fun o' ho' => hq o' (hpost o' ho')) (fun o' ho' => ht o' (hpost o' ho'))
    (fun o' ho' => hj o' (hpost o' ho')) hoff
  obtain ⟨_, _, k, hka, hk⟩ := hfin
  apply hno k hka
  rw [hsplit, foldOps_append, foldOps_cons]
  exact hk

/-- a join of `a` whose target is never joined leaves something at its target -/
theorem foldOps_join_pos3 (pre post : List MOp) (o : MOp) (hq : o.2.2 = 1) (hne : o.2.1 ≠ o.1)
    (hfr : ∀ o' ∈ pre ++ o :: post, 0 ≤ o'.2.2 ∧ o'.2.2 ≤ 1)
    (hpre : ∀ o' ∈ pre, o'.1 = o.1 → o'.2.2 < 1) (hpost : ∀ o' ∈ post, o'.1 = o.2.1 → o'.2.2 < 1) :
    0 < foldOps (pre ++ o :: post) (delta o.1) o.2.1 := by
  have hqpre : ∀ o' ∈ pre, 0 ≤ o'.2.2 ∧ o'.2.2 ≤ 1 := fun o' ho' => hfr o' (List.mem_append_left _ ho')
  have hnn1 := foldOps_nonneg pre (delta o.1) hqpre (delta_nonneg o.1)
  have hpos1 := foldOps_pos_keep o.1 pre (delta o.1) hqpre (delta_nonneg o.1) hpre (by rw [delta_self]; decide)
  obtain ⟨q0, q1⟩ := hfr o (List.mem_append_right _ (List.mem_cons_self ..))
  rw [foldOps_append, foldOps_cons]
  apply foldOps_pos_keep o.2.1 post _ (fun o' ho' => hfr o' (List.mem_append_right _ (List.mem_cons_of_mem _ ho')))
    (opF_nonneg q0 q1 hnn1) hpost
  unfold opF
  rw [if_pos rfl, if_neg hne, hq]
  have := hnn1 o.2.1
  linarith

/-! ## the read-back equals the matrix -/

/-- `ReadBack` with "no joined population is the target of a move" in place of `NSAT` -/
structure ReadBack3 (ops : List MOp) (F : Nat → RowF) (born : List (Nat × List (Nat × Q))) : Prop where
  jnt : ∀ o ∈ ops, o.2.2 = 1 → ∀ o' ∈ ops, o'.2.1 ≠ o.1
  frac : ∀ o ∈ ops, 0 ≤ o.2.2 ∧ o.2.2 ≤ 1
  bornNodup : (born.map (·.1)).Nodup
  colZero : ∀ b ∈ born, ∀ r, F r b.1 = 0
  ancs : ∀ b ∈ born, ∀ k, wsum b.2 k = if k ≠ b.1 ∧ 0 < F b.1 k then F b.1 k else 0

/-- the row of population `r` as the graph is read (the emitted pulses in command order, then the ancestry of
the joined populations) is the row of the matrix.  `hE`: a move that is not emitted has a joined source or is
trivial. -/
theorem readBack_row3 {ops : List MOp} {F : Nat → RowF} {born : List (Nat × List (Nat × Q))}
    (h : ReadBack3 ops F born) (r : Nat) (hF : F r = foldOps ops (delta r))
    (hjoin : ∀ o ∈ ops, o.1 = r → o.2.2 = 1 → r ∈ born.map (·.1))
    (E : Nat → Bool) (hEr : E r = true → F r r ≠ 0)
    (hE : ∀ o ∈ ops, E o.1 = false → (∃ o' ∈ ops, o'.1 = o.1 ∧ o'.2.2 = 1) ∨ o.2.1 = o.1 ∨ o.2.2 = 0) :
    foldBorn born (foldOps (ops.filter (fun o => E o.1)) (delta r)) = F r := by
  have hFnn : ∀ k, 0 ≤ F r k := by
    rw [hF]; exact foldOps_nonneg ops _ h.frac (delta_nonneg r)
  by_cases hb : r ∈ born.map (·.1)
  · -- a joined population: no pulse touches its row, the ancestry is the row
    obtain ⟨b, hbm, hbr⟩ := List.mem_map.mp hb
    have hrr : F r r = 0 := by have := h.colZero b hbm r; rwa [hbr] at this
    have hEr' : E r = false := by
      cases he : E r with
      | false => rfl
      | true => exact (hEr he hrr).elim
    have hpul : foldOps (ops.filter (fun o => E o.1)) (delta r) = delta r := by
      have hfor : ∀ o ∈ ops.filter (fun o => E o.1), o.1 ≠ r := by
        intro o ho e
        have := (List.mem_filter.mp ho).2
        rw [e, hEr'] at this
        cases this
      generalize ops.filter (fun o => E o.1) = l at hfor
      induction l with
      | nil => rfl
      | cons o rest ih =>
        rw [foldOps_cons, opF_noop (delta_ne (hfor o (List.mem_cons_self ..)))]
        exact ih (fun o' ho' => hfor o' (List.mem_cons_of_mem _ ho'))
    rw [hpul]
    obtain ⟨pre, post, hsplit⟩ := List.append_of_mem hbm
    have hnd := h.bornNodup
    rw [hsplit, List.map_append, List.map_cons, List.nodup_append] at hnd
    obtain ⟨_, hnd2, hnd3⟩ := hnd
    rw [hsplit, foldBorn_append]
    have hpre : foldBorn pre (delta r) = delta r := by
      apply foldBorn_noop
      intro b' hb'
      apply delta_ne
      intro e
      exact hnd3 b'.1 (List.mem_map.mpr ⟨b', hb', rfl⟩) b.1 (List.mem_cons_self ..) (by rw [e, hbr])
    rw [hpre]
    show foldBorn post (bornF b.1 b.2 (delta r)) = F r
    have hborn : bornF b.1 b.2 (delta r) = F r := by
      funext k
      unfold bornF
      rw [hbr, delta_self]
      simp only [show (1 : Q) ≠ 0 by decide, if_false, Rat.one_mul]
      have ha := h.ancs b hbm k
      rw [hbr] at ha
      rw [ha]
      by_cases hk : k = r
      · subst hk; simp [hrr]
      · rw [delta_ne hk]
        simp only [hk, if_false, ne_eq, not_false_eq_true, true_and, Rat.zero_add]
        split
        · rfl
        · rename_i hp
          have : F r k ≤ 0 := Rat.not_lt.mp hp
          exact Rat.le_antisymm (hFnn k) this
    rw [hborn]
    apply foldBorn_noop
    intro b' hb'
    have hb'm : b' ∈ born := by rw [hsplit]; exact List.mem_append_right _ (List.mem_cons_of_mem _ hb')
    exact h.colZero b' hb'm r
  · -- not joined: the moves left out do not act on the row
    let J : Nat → Prop := fun a => ∃ o ∈ ops, o.1 = a ∧ o.2.2 = 1
    have hJr : ¬ J r := fun ⟨o, ho, h1, h2⟩ => hb (hjoin o ho h1 h2)
    have hda : ∀ k, J k → delta r k = 0 := fun k hk => delta_ne (fun e => hJr (e ▸ hk))
    have htg : ∀ o ∈ ops, ¬ J o.2.1 := fun o ho ⟨o', ho', h1, h2⟩ => h.jnt o' ho' h2 o ho h1.symm
    have hpul : foldOps (ops.filter (fun o => E o.1)) (delta r) = F r := by
      rw [hF]
      exact foldOps_filter_eq (J := J) (fun o => E o.1) ops (delta r) hda htg hE
    rw [hpul]
    apply foldBorn_noop
    intro b hbm
    exact h.colZero b hbm r

end Demes.Proofs.FromMs
