/-
  C07 — a row through the `-es` / `-ej` options of a time group reads the same as the row
  through the graph's pulses and births of that time.
-/
import DemesVerif.Proofs.ToMsRowBlocks
set_option linter.unusedSimpArgs false
set_option linter.unusedVariables false
namespace Demes.Proofs.ToMs
open Demes Demes.Ms Demes.Spec Demes.Spec.C07 Demes.Proofs.RV
open Demes.Spec.MsSem

theorem sumFrom_zero_eq (ps : List Q) : sumFrom ps 0 = qsumS ps := by
  unfold sumFrom qsumS
  rw [List.drop_zero]
  induction ps with
  | nil => rfl
  | cons x l ih =>
    rw [List.foldl_cons, foldl_add_shift, ih, List.foldr_cons]
    grind

def gRowStep (g : Graph) (r : Row) : DemeOrPulse → Row
  | .pulse p => pulseRow g p r
  | .deme d => bornRow g d r

theorem countFold_ancDemeEvs (g : Graph) (d : Deme) : ∀ (aks : List (String × Nat)) (n : Nat),
    countFold n (ancDemeEvs g d n aks) = ancDemeCount d n aks
  | [], _ => rfl
  | (a, k) :: r, n => by
    simp only [ancDemeEvs, ancDemeCount]
    split
    · simp only [countFold, countStep]; exact countFold_ancDemeEvs g d r n
    · simp only [countFold, countStep]; exact countFold_ancDemeEvs g d r (n + 1)

/-- what the row steps need of an element of `dps` -/
def ElemOk (g : Graph) : DemeOrPulse → Prop
  | .deme d => d ∈ g.demes ∧ d.ancestors ≠ [] ∧ sumFrom d.proportions 0 = 1
  | .pulse p => p ∈ g.pulses

section
variable {g : Graph} (c : Clauses g) (hx : MsExpressible g = true)
include c hx

theorem pid_le_of_findDeme {name : String} {d : Deme} (h : findDeme g name = some d) : pidOf g name ≤ g.demes.length := by
  have := (idx_idOf c h).2.1
  rw [idOf_eq_pidOf] at this
  exact_mod_cast this

theorem row_agree_elem {x : DemeOrPulse} (hok : ElemOk g x) {n : Nat} (hn : g.demes.length ≤ n) {r r' : Row}
    (hrr : ∀ k, r.get k = r'.get k) (hz : RowZ g.demes.length r') :
    (∀ k, (rowFold n r (ancEvs g n [x])).get k = (gRowStep g r' x).get k) ∧ RowZ g.demes.length (gRowStep g r' x) := by
  have hzr : RowZ g.demes.length r := fun k hk => by rw [hrr]; exact hz k hk
  cases x with
  | pulse p =>
    have hp : p ∈ g.pulses := hok
    have hpo := pulseOk_of_valid c hx hp
    obtain ⟨s, hs, hsid⟩ := hpo.src
    obtain ⟨p0, hp0, _, _⟩ := hpo.prop
    obtain ⟨dd, hdd, _, _, hnc, hsrc⟩ := pulse_facts c hp
    obtain ⟨sd, hsd, _⟩ := hsrc s (by rw [hs]; simp)
    have hD := pid_le_of_findDeme c hx hdd
    have hS := pid_le_of_findDeme c hx hsd
    have hDS : pidOf g p.dest ≠ pidOf g s := by
      intro h
      have : idOf g p.dest = idOf g s := by rw [idOf_eq_pidOf, idOf_eq_pidOf, h]
      have := idOf_inj hpo.dest hsid this
      rw [hs] at hnc
      simp [this] at hnc
    have hprops : p.proportions = [p0] := by
      have h11 := c.h11
      simp only [v11, List.all_eq_true, Bool.and_eq_true, beq_iff_eq] at h11
      have hl := (h11 p hp).1.1.1.1.2
      rw [hs] at hl
      cases hpp : p.proportions with
      | nil => rw [hpp] at hp0; simp at hp0
      | cons a l =>
        rw [hpp] at hp0 hl
        simp at hp0 hl
        rw [hp0, hl]
    have hq : p.proportions.headD 0 = p0 := by rw [hprops]; rfl
    have hget : ∀ k, (gRowStep g r' (.pulse p)).get k
        = (if k = pidOf g p.dest then r'.get (pidOf g p.dest) * (1 - (0 + p0)) else r'.get k)
          + r'.get (pidOf g p.dest) * ((if pidOf g s = k then p0 else 0) + 0) := by
      intro k
      simp only [gRowStep, get_pulseRow, hprops, hs, List.foldl_cons, List.foldl_nil, contrib]
    constructor
    · intro k
      simp only [ancEvs, List.append_nil]
      rw [rowFold_pulse hs hq hn hD hS hDS, hget, hrr, hrr, hrr]
      by_cases hkS : k = pidOf g s
      · subst hkS
        rw [if_pos rfl, if_neg (fun h => hDS h.symm), if_pos rfl]
        exact Arith.pS _ _ _
      · have hkS' : ¬ pidOf g s = k := fun h => hkS h.symm
        rw [if_neg hkS, if_neg hkS']
        by_cases hkN : k = n + 1
        · have hkD : ¬ k = pidOf g p.dest := by omega
          rw [if_pos hkN, if_neg hkD, hz k (by omega)]
          exact Arith.pN _
        · rw [if_neg hkN]
          by_cases hkD : k = pidOf g p.dest
          · rw [if_pos hkD, if_pos hkD]; exact Arith.pD _ _
          · rw [if_neg hkD, if_neg hkD]; exact Arith.pO _ _
    · intro k hk
      rw [hget]
      have h1 : ¬ k = pidOf g p.dest := by omega
      have h2 : ¬ pidOf g s = k := by omega
      rw [if_neg h1, if_neg h2, hz k hk]
      exact (Arith.pN _).symm
  | deme d =>
    obtain ⟨hd, hne, hsum⟩ := hok
    have hdo := demeAncOk_of_valid c hd
    have hM := pid_le_of_findDeme c hx (findDeme_of_mem c hd)
    have hanc : ∀ a ∈ d.ancestors, pidOf g a ≤ g.demes.length ∧ pidOf g a ≠ pidOf g d.name := by
      intro a ha
      obtain ⟨anc, hanc, _, _⟩ := ancestor_facts c hd ha
      refine ⟨pid_le_of_findDeme c hx hanc, ?_⟩
      intro h
      have : idOf g a = idOf g d.name := by rw [idOf_eq_pidOf, idOf_eq_pidOf, h]
      have := idOf_inj (hdo.anc a ha) hdo.me this
      have h2 := c.h2
      simp only [v2, List.all_eq_true, Bool.and_eq_true, decide_eq_true_eq, Bool.not_eq_true'] at h2
      obtain ⟨i, hi⟩ := List.mem_iff_getElem?.mp hd
      have hz' : (d, i) ∈ g.demes.zipIdx := by rw [List.mem_zipIdx_iff_getElem?]; simpa using hi
      have h3 := (h2 (d, i) hz').2
      rw [this] at ha
      simp [ha] at h3
    have hcM : contrib g d.ancestors d.proportions (pidOf g d.name) = 0 :=
      contrib_zero_of_not_mem _ _ (fun a ha => (hanc a ha).2)
    have hms := rowFold_ancDeme (n0 := g.demes.length) hM hdo.len hdo.pos d.ancestors 0 n r hne (by simp) hn hzr hanc
    have hget : ∀ k, (gRowStep g r' (.deme d)).get k
        = (if k = pidOf g d.name then 0 else r'.get k) + r'.get (pidOf g d.name) * contrib g d.ancestors d.proportions k := by
      intro k; simp only [gRowStep, get_bornRow]
    constructor
    · intro k
      simp only [ancEvs, List.append_nil]
      rw [hms k, hget, List.drop_zero, hsum, hrr, hrr]
      by_cases hkM : k = pidOf g d.name
      · rw [if_pos hkM, if_pos hkM, hkM, hcM]; exact Arith.bM _
      · rw [if_neg hkM, if_neg hkM]
        by_cases hkn : g.demes.length < k
        · rw [if_pos hkn, hz k hkn, contrib_zero_of_not_mem _ _ (fun a ha => by have := (hanc a ha).1; omega)]
          exact Arith.bZ _
        · rw [if_neg hkn]; exact Arith.bO _ _ _
    · intro k hk
      rw [hget]
      have h1 : ¬ k = pidOf g d.name := by omega
      rw [if_neg h1, hz k hk, contrib_zero_of_not_mem _ _ (fun a ha => by have := (hanc a ha).1; omega)]
      exact (Arith.bZ _).symm

theorem countFold_elem (x : DemeOrPulse) (n : Nat) : countFold n (ancEvs g n [x]) = ancCount n [x] := by
  cases x with
  | deme d => simp only [ancEvs, List.append_nil, ancCount]; exact countFold_ancDemeEvs g d _ n
  | pulse p => simp [ancEvs, pulseEvs, countFold, countStep, ancCount]

/-- a row through all the `-es` / `-ej` options of the elements `xs` -/
theorem row_agree : ∀ (xs : List DemeOrPulse) (n : Nat) (r r' : Row), (∀ x ∈ xs, ElemOk g x) →
    g.demes.length ≤ n → (∀ k, r.get k = r'.get k) → RowZ g.demes.length r' →
    (∀ k, (rowFold n r (ancEvs g n xs)).get k = (xs.foldl (gRowStep g) r').get k)
      ∧ RowZ g.demes.length (xs.foldl (gRowStep g) r')
  | [], _, _, _, _, _, hrr, hz => ⟨by simpa [ancEvs, rowFold] using hrr, hz⟩
  | x :: rest, n, r, r', hok, hn, hrr, hz => by
    obtain ⟨h1, h2⟩ := row_agree_elem c hx (hok x List.mem_cons_self) hn hrr hz
    have happ : ancEvs g n (x :: rest) = ancEvs g n [x] ++ ancEvs g (ancCount n [x]) rest :=
      ancEvs_append g [x] rest n
    rw [happ, rowFold_append, countFold_elem c hx, List.foldl_cons]
    exact row_agree rest _ _ _ (fun y hy => hok y (List.mem_cons_of_mem _ hy))
      (Nat.le_trans hn (ancCount_ge [x] n)) h1 h2

omit c hx in
theorem keys_gRowFold : ∀ (xs : List DemeOrPulse) (r : Row), (Keys r).Nodup → (Keys (xs.foldl (gRowStep g) r)).Nodup
  | [], _, h => h
  | x :: rest, r, h => by
    rw [List.foldl_cons]
    apply keys_gRowFold rest
    cases x with
    | pulse p => exact keys_pulseRow g p r h
    | deme d => exact keys_bornRow g d r h

omit c hx in
/-- a row whose entries at the destinations / born demes of `xs` vanish is left untouched -/
theorem gRowFold_untouched : ∀ (xs : List DemeOrPulse) (r : Row),
    (∀ x ∈ xs, match x with
      | .pulse p => r.get (pidOf g p.dest) = 0
      | .deme d => r.get (pidOf g d.name) = 0) →
    xs.foldl (gRowStep g) r = r
  | [], _, _ => rfl
  | x :: rest, r, h => by
    have hx' := h x List.mem_cons_self
    rw [List.foldl_cons]
    have : gRowStep g r x = r := by
      cases x with
      | pulse p => simp only [gRowStep, pulseRow]; rw [if_pos hx']
      | deme d => simp only [gRowStep, bornRow]; rw [if_pos hx']
    rw [this]
    exact gRowFold_untouched rest r (fun y hy => h y (List.mem_cons_of_mem _ hy))

end

end Demes.Proofs.ToMs
